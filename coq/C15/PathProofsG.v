(* C15 round 4: vacating a leaf (swap-removal + back-pointer fix-up) leaves an accounted state with a hole. *)
From Coq Require Import ZArith List Bool Lia Permutation Arith.
From RV Require Import Common.Num C15.Tree C15.TreeProofs C15.GravityProofs C15.PathModel C15.PathSpec
  C15.PathProofsA C15.PathProofsB C15.PathProofsC C15.PathProofsD C15.PathProofsE C15.PathProofsF.
Import ListNotations.
Close Scope Z_scope.
Open Scope nat_scope.

Section PG.
Variable X : Type.
Variable xd : X.
Variable ins : path -> X -> bool.
Variable L : nat.
Variable nroot : nat.
Variable okx : X -> Prop.
Notation parts := (parts X).
Notation px := (px X xd).
Notation pbp := (pbp X xd).
Notation full := (full X xd ins L).
Notation inv := (inv X xd ins L nroot).
Notation Acc := (Acc X xd).
Notation Pok := (Pok X xd okx).

Lemma px_upd P q v i : q < length P -> px (upd P q v) i = if Nat.eqb q i then fst v else px P i.
Proof.
  intros H. unfold PathModel.px. rewrite nth_upd_cases. apply Nat.ltb_lt in H. rewrite H, andb_true_r.
  destruct (Nat.eqb q i); reflexivity.
Qed.
Lemma pbp_upd P q v i : q < length P -> pbp (upd P q v) i = if Nat.eqb q i then snd v else pbp P i.
Proof.
  intros H. unfold PathModel.pbp. rewrite nth_upd_cases. apply Nat.ltb_lt in H. rewrite H, andb_true_r.
  destruct (Nat.eqb q i); reflexivity.
Qed.

Lemma vacate_hole : forall F P n pth q, Acc (mkS X F P (S n)) -> tget F pth = Some (Leaf q) ->
  inv P pth F [] -> Pok P ->
  let moved := nth n P (xd, []) in
  let a := snd moved in
  let F1 := tset F a (Some (Leaf q)) in
  let P1 := upd P q moved in
  tget F a = Some (Leaf n) /\ tget F1 pth = Some (Leaf q) /\
  Acc (mkS X (tset F1 pth None) P1 n) /\ inv P1 pth (tset F1 pth None) [] /\ Pok P1.
Proof.
  intros F P n pth q A Hg I Hok moved a F1 P1.
  pose proof A as (Pm & Hb & Hn). cbn [sF sP sN] in Pm, Hb, Hn.
  assert (Hq_in : In (pth, q) (lvo F [])) by (apply (tget_lv pth F [] q Hg)).
  assert (Hq_lt : q < S n) by (apply (Acc_lt X xd (mkS X F P (S n)) pth q A Hq_in)).
  assert (Hq_bp : pbp P q = pth) by (apply Hb; exact Hq_in).
  destruct (Acc_find X xd (mkS X F P (S n)) n A ltac:(cbn; lia)) as (r & Hn_in & Hn_bp & Hn_g). cbn [sF sP sN] in Hn_in, Hn_bp, Hn_g.
  assert (Ea : a = r) by (unfold a, moved; exact Hn_bp).
  clearbody a. subst a. rename r into a.
  assert (Hql : q < length P) by lia.
  assert (Hok1 : Pok P1).
  { intro i. unfold P1. rewrite px_upd by exact Hql. destruct (Nat.eqb q i); [apply Hok|apply Hok]. }
  assert (Hpok : pathok F pth) by (eapply tget_some_pathok; exact Hg).
  assert (IT : inv P pth (tset F pth None) []).
  { pose proof (inv_set X xd ins L nroot P pth [] [] F [] None) as Q. rewrite !app_nil_r in Q.
    apply Q; [exact I|exact Hpok|constructor; constructor]. }
  pose proof (lv_tset pth F [] None Hpok) as LT. rewrite Hg in LT. cbn [lvo lvc app] in LT.
  (* LT : (pth,q) :: lvo T [] ~ lvo F [] *)
  assert (PT : Permutation (q :: map snd (lvo (tset F pth None) [])) (seq 0 (S n))).
  { eapply Permutation_trans; [|exact Pm]. change (q :: map snd (lvo (tset F pth None) [])) with (map snd ((pth, q) :: lvo (tset F pth None) [])).
    apply Permutation_map. exact LT. }
  assert (NDT : NoDup (q :: map snd (lvo (tset F pth None) []))) by (eapply Permutation_NoDup; [apply Permutation_sym; exact PT|apply seq_NoDup]).
  assert (HT_in : forall r0 i, In (r0, i) (lvo (tset F pth None) []) -> In (r0, i) (lvo F []) /\ i <> q).
  { intros r0 i Hi. split; [eapply Permutation_in; [exact LT|right; exact Hi]|].
    intro e. subst i. inversion NDT as [|? ? Hnq _]; subst. apply Hnq. apply in_map_iff. exists (r0, q). split; [reflexivity|exact Hi]. }
  destruct (Nat.eq_dec q n) as [e|ne].
  - (* the vacated particle is the last one *)
    subst q. assert (Eap : a = pth) by (rewrite <- Hn_bp; exact Hq_bp).
    assert (EF1 : F1 = F) by (unfold F1; rewrite Eap, <- Hg; apply tset_tget).
    assert (EP1 : P1 = P) by (unfold P1, moved; apply upd_same_nth).
    rewrite EF1, EP1, Eap. split; [exact Hg|]. split; [exact Hg|]. split; [|split; [exact IT|exact Hok]].
    split; [|split]; cbn [sF sP sN].
    + apply perm_seq_S. exact PT.
    + intros r0 i Hi. apply Hb. apply (HT_in r0 i Hi).
    + lia.
  - assert (Hne : a <> pth).
    { intro e. assert (Hx : tget F pth = Some (Leaf n)) by (rewrite <- e; exact Hn_g). rewrite Hg in Hx. congruence. }
    assert (Hg1 : tget F1 pth = Some (Leaf q)) by (unfold F1; eapply tget_tset_other_leaf; [exact Hn_g|exact Hg|exact Hne]).
    assert (EF1h : tset F1 pth None = tset (tset F pth None) a (Some (Leaf q))).
    { unfold F1. eapply tset_comm_leaf; [exact Hn_g|exact Hg|exact Hne]. }
    set (T := tset F pth None) in *.
    assert (HgT : tget T a = Some (Leaf n)) by (unfold T; eapply tget_tset_other_leaf; [exact Hg|exact Hn_g|congruence]).
    assert (HpT : pathok T a) by (eapply tget_some_pathok; exact HgT).
    pose proof (lv_tset a T [] (Some (Leaf q)) HpT) as L2. rewrite HgT in L2. cbn [lvo lvc app] in L2.
    (* L2 : (a,n) :: lvo (tset T a (Leaf q)) ~ (a,q) :: lvo T *)
    split; [exact Hn_g|]. split; [exact Hg1|]. rewrite EF1h. split; [|split; [|exact Hok1]].
    + split; [|split]; cbn [sF sP sN].
      * apply perm_seq_S. eapply Permutation_trans; [|exact PT].
        change (n :: map snd (lvo (tset T a (Some (Leaf q))) [])) with (map snd ((a, n) :: lvo (tset T a (Some (Leaf q))) [])).
        change (q :: map snd (lvo T [])) with (map snd ((a, q) :: lvo T [])). apply Permutation_map. exact L2.
      * intros r0 i Hi. assert (Hi2 : In (r0, i) ((a, q) :: lvo T [])) by (eapply Permutation_in; [exact L2|right; exact Hi]).
        unfold P1. rewrite pbp_upd by exact Hql. destruct Hi2 as [Hi2|Hi2].
        -- injection Hi2 as <- <-. rewrite Nat.eqb_refl. exact Hn_bp.
        -- destruct (HT_in r0 i Hi2) as [HiF Hiq]. destruct (Nat.eqb q i) eqn:E; [apply Nat.eqb_eq in E; congruence|]. apply Hb. exact HiF.
      * unfold P1. rewrite upd_len. lia.
    + eapply simt_inv; [|exact IT]. fold T. apply simt_relabel with (n := n).
      * exact HgT.
      * unfold P1. rewrite px_upd by exact Hql. rewrite Nat.eqb_refl. reflexivity.
      * intros i Hi Hin. unfold P1. rewrite px_upd by exact Hql. destruct (Nat.eqb q i) eqn:E; [|reflexivity].
        apply Nat.eqb_eq in E. subst i. exfalso. rewrite <- (idx_leaves T []) in Hi. inversion NDT; subst. contradiction.
      * rewrite <- (idx_leaves T []). inversion NDT; subst. assumption.
Qed.
End PG.
