(* C15: cell masses and centres of mass equal the sums over the cell's contents (over R), and the root-cell
   geometry lemmas (over Z). *)
From Coq Require Import ZArith List Bool Reals Lra Lia Permutation.
From RV Require Import Common.Num Common.RealNum C15.Tree C15.BoundaryProofs.
Import ListNotations.

(* induction principle for the nested type *)
Section CellInd.
Variable P : cell -> Prop.
Hypothesis HL : forall p, P (Leaf p).
Hypothesis HN : forall n oct, Forall (fun o => match o with None => True | Some d => P d end) oct -> P (Node n oct).
Definition Qo (o : option cell) : Prop := match o with None => True | Some d => P d end.
Fixpoint cell_ind' (t : cell) : P t :=
  match t with
  | Leaf p => HL p
  | Node n oct =>
      HN n oct ((fix go (l : list (option cell)) : Forall Qo l :=
                   match l with
                   | [] => @Forall_nil _ Qo
                   | o :: r => @Forall_cons _ Qo o r
                                 (match o as o' return Qo o' with None => I | Some d => cell_ind' d end) (go r)
                   end) oct)
  end.
End CellInd.

Open Scope R_scope.
Section G.
Variable part : nat -> R * R * R * R.
Definition pm p := let '(m, _, _, _) := part p in m.
Definition px p := let '(_, x, _, _) := part p in x.
Definition py p := let '(_, _, y, _) := part p in y.
Definition pz p := let '(_, _, _, z) := part p in z.

Definition Sum (f : nat -> R) (l : list nat) : R := fold_right (fun p a => f p + a) 0 l.
Lemma Sum_app f l1 l2 : Sum f (l1 ++ l2) = Sum f l1 + Sum f l2.
Proof. unfold Sum. induction l1 as [|a l1 IH]; cbn [app fold_right]; [lra|]. rewrite IH. lra. Qed.

Lemma Sum_nonneg f l : (forall p, In p l -> 0 <= f p) -> 0 <= Sum f l.
Proof. unfold Sum. induction l; cbn [fold_right]; intros H; [lra|]. assert (0 <= f a) by (apply H; left; reflexivity). assert (0 <= fold_right (fun p a => f p + a) 0 l) by (apply IHl; intros; apply H; right; assumption). lra. Qed.

Lemma Sum_cons f a l : Sum f (a :: l) = f a + Sum f l.
Proof. reflexivity. Qed.
Lemma Sum_zero f g l : (forall p, In p l -> 0 <= f p) -> Sum f l = 0 -> Sum (fun p => f p * g p) l = 0.
Proof.
  induction l as [|a l IH]; intros H E; [reflexivity|].
  rewrite Sum_cons in *.
  assert (H0 : 0 <= f a) by (apply H; left; reflexivity).
  assert (H1 : 0 <= Sum f l) by (apply Sum_nonneg; intros; apply H; right; assumption).
  assert (H2 : f a = 0) by lra. assert (H3 : Sum f l = 0) by lra.
  rewrite IH; [rewrite H2; lra| |exact H3]. intros; apply H; right; assumption.
Qed.

(* (m, mx, my, mz) is the mass and the centre of mass of the particles l:  m = sum m_i,  m*mx = sum m_i x_i *)
Definition good (l : list nat) (g : R * R * R * R) : Prop :=
  let '(m, mx, my, mz) := g in
  m = Sum pm l /\ mx * m = Sum (fun p => pm p * px p) l /\ my * m = Sum (fun p => pm p * py p) l /\
  mz * m = Sum (fun p => pm p * pz p) l.

Definition step (acc : R * R * R * R) (o : option cell) : R * R * R * R :=
  match o with None => acc | Some d => gacc RNum acc (gdata RNum part d) end.

Lemma fold_sums : forall oct am amx amy amz,
  Forall (fun o => match o with None => True | Some d => good (leaves d) (gdata RNum part d) end) oct ->
  fold_left step oct (am, amx, amy, amz) =
  (am + Sum pm (flat_map oleaves oct), amx + Sum (fun p => pm p * px p) (flat_map oleaves oct),
   amy + Sum (fun p => pm p * py p) (flat_map oleaves oct), amz + Sum (fun p => pm p * pz p) (flat_map oleaves oct)).
Proof.
  induction oct as [|o oct IH]; intros am amx amy amz H; cbn [fold_left flat_map].
  - cbn. f_equal; [f_equal; [f_equal|]|]; lra.
  - inversion H as [|? ? Ho Hr]; subst. destruct o as [d|]; cbn [step oleaves].
    + destruct (gdata RNum part d) as [[[dm dx] dy] dz]. unfold good in Ho. destruct Ho as (A & B & C & D).
      unfold gacc. change (nadd RNum) with Rplus. change (nmul RNum) with Rmult.
      rewrite IH by exact Hr. rewrite !Sum_app. f_equal; [f_equal; [f_equal|]|]; lra.
    + rewrite IH by exact Hr. cbn [app]. reflexivity.
Qed.

(* reb_simulation_update_tree_gravity_data_in_cell: for non-negative masses, the mass of every cell is the sum of
   the masses of the particles below it and mass * centre-of-mass is the sum of m_i x_i (also when the total mass
   is 0 and the code skips the division). *)
Lemma gravity_data_sums : forall t, (forall p, In p (leaves t) -> 0 <= pm p) -> good (leaves t) (gdata RNum part t).
Proof.
  induction t as [p|n oct IH] using cell_ind'; intros Hm.
  - cbn [gdata leaves]. unfold good, Sum, pm, px, py, pz. cbn [fold_right]. destruct (part p) as [[[m x] y] z] eqn:E. repeat split; lra.
  - cbn [gdata]. change (leaves (Node n oct)) with (flat_map oleaves oct) in *.
    assert (Hc : Forall (fun o => match o with None => True | Some d => good (leaves d) (gdata RNum part d) end) oct).
    { apply Forall_forall. intros o Ho. rewrite Forall_forall in IH. specialize (IH o Ho). destruct o as [d|]; [|exact I].
      apply IH. intros p Hp. apply Hm. change (leaves (Node n oct)) with (flat_map oleaves oct).
      apply in_flat_map. exists (Some d). split; [exact Ho|exact Hp]. }
    change (fold_left _ oct (gzero RNum)) with (fold_left step oct (0, 0, 0, 0)).
    rewrite fold_sums by exact Hc. rewrite !Rplus_0_l.
    set (l := flat_map oleaves oct) in *.
    assert (Hl : forall p, In p l -> 0 <= pm p) by (intros p Hp; apply Hm; exact Hp).
    unfold gnorm. change (nltb RNum) with Rltb. change (nzero RNum) with 0. change (ndiv RNum) with Rdiv.
    destruct (Rltb 0 (Sum pm l)) eqn:E.
    + apply Rltb_true in E. unfold good. repeat split; field; lra.
    + apply Rltb_false in E. pose proof (Sum_nonneg pm l Hl). assert (Z0 : Sum pm l = 0) by lra.
      unfold good. rewrite Z0. rewrite !(Sum_zero pm _ l Hl Z0). repeat split; lra.
Qed.

(* the centre of mass is the mass-weighted mean of the contents whenever the cell has positive mass *)
Lemma gravity_com_mean : forall t, (forall p, In p (leaves t) -> 0 <= pm p) -> 0 < Sum pm (leaves t) ->
  let '(m, mx, my, mz) := gdata RNum part t in
  m = Sum pm (leaves t) /\
  mx = Sum (fun p => pm p * px p) (leaves t) / Sum pm (leaves t) /\
  my = Sum (fun p => pm p * py p) (leaves t) / Sum pm (leaves t) /\
  mz = Sum (fun p => pm p * pz p) (leaves t) / Sum pm (leaves t).
Proof.
  intros t H Hp. pose proof (gravity_data_sums t H) as G. destruct (gdata RNum part t) as [[[m mx] my] mz].
  unfold good in G. destruct G as (A & B & C & D). rewrite <- A in *. repeat split; try reflexivity.
  - rewrite <- B. field. lra.
  - rewrite <- C. field. lra.
  - rewrite <- D. field. lra.
Qed.

(* reb_simulation_update_tree_gravity_data: the pass over the array of root cells; every cell of every root *)
Lemma gravity_forest : forall (f : list (option cell)),
  (forall t p, In (Some t) f -> In p (leaves t) -> 0 <= pm p) ->
  Forall (fun o => match o with None => True | Some t => good (leaves t) (gdata RNum part t) end) f.
Proof.
  intros f H. apply Forall_forall. intros o Ho. destruct o as [t|]; [|exact I].
  apply gravity_data_sums. intros p Hp. eapply H; eassumption.
Qed.
End G.
Close Scope R_scope.
