(* C15 round 2: the in-place update (heap model) leaves a stable tree alone. *)
From Coq Require Import ZArith List Bool Lia ZifyBool Arith.
From RV Require Import Common.Num C15.Tree C15.Update.
Import ListNotations.
Open Scope Z_scope.

Lemma upd_nth_same {A} : forall (l : list A) i d, (i < length l)%nat -> upd l i (nth i l d) = l.
Proof. induction l; destruct i; cbn; intros; try lia; f_equal. apply IHl. lia. Qed.
Lemma upd_opt_same {A} : forall (l : list (option A)) i v, nth i l None = Some v -> upd l i (Some v) = l.
Proof. induction l; destruct i; cbn; intros; try discriminate; f_equal; auto. Qed.
Lemma fold_left_id {A B} (f : A -> B -> A) : forall l a, (forall x, In x l -> f a x = a) -> fold_left f l a = a.
Proof. induction l; cbn; intros a0 H; [reflexivity|]. rewrite H by (left; reflexivity). apply IHl. intros; apply H; right; assumption. Qed.

Lemma setc_same st id c : getc st id = Some c -> setc st id c = st.
Proof. intros H. unfold setc, set_cells. unfold getc in H. rewrite (upd_opt_same _ _ _ H). destruct st; reflexivity. Qed.
Lemma set_oct_same st id c o : getc st id = Some c -> (o < length (coct c))%nat -> set_oct st id o (nth o (coct c) None) = st.
Proof. intros H Ho. unfold set_oct. rewrite H. rewrite upd_nth_same by exact Ho. destruct c; cbn. apply setc_same. exact H. Qed.
Lemma set_oct_same' st id c o r : getc st id = Some c -> (o < length (coct c))%nat -> nth o (coct c) None = r -> set_oct st id o r = st.
Proof. intros H Ho <-. apply set_oct_same; assumption. Qed.
Lemma set_pt_same st id c : getc st id = Some c -> set_pt st id (cpt c) = st.
Proof. intros H. unfold set_pt. rewrite H. destruct c; cbn. apply setc_same. exact H. Qed.
Lemma set_pc_same st q : (q < length (hparts st))%nat -> set_pc st q (pc (getp st q)) = st.
Proof.
  intros H. unfold set_pc, set_parts, getp.
  replace (mkP (ppos (nth q (hparts st) pdummy)) (pnan (nth q (hparts st) pdummy)) (pc (nth q (hparts st) pdummy)))
    with (nth q (hparts st) pdummy) by (destruct (nth q (hparts st) pdummy); reflexivity).
  rewrite upd_nth_same by exact H. destruct st; reflexivity.
Qed.

Section HeapP.
Variable u : Z.
Variables nx ny nz : Z.
Variable L : nat.
Variable box : bool.
Notation hupdate := (hupdate u nx ny nz L box).
Notation stable := (stable u).

Lemma hupdate_none l st : hupdate l st None = (st, None).
Proof. destruct l; reflexivity. Qed.

(* 'no particle left its cell' (none flagged, counts and back pointers exact): reb_simulation_update_tree_cell
   returns the same cell and changes NOTHING in the heap: not the tree, not the particle array, not N. *)
Lemma hupdate_stable : forall l st id, stable l st id -> hupdate l st (Some id) = (st, Some id).
Proof.
  induction l as [|l' IH]; intros st id S.
  - cbn [Update.stable] in S. cbn [Update.hupdate]. destruct (getc st id) as [c|] eqn:G; [|contradiction].
    destruct (0 <=? cpt c) eqn:E; [|contradiction]. destruct S as (I & B & Lq).
    replace (cpt c <? 0) with false by lia. rewrite I. rewrite <- B at 1. rewrite set_pc_same by exact Lq. reflexivity.
  - cbn [Update.stable] in S. cbn [Update.hupdate]. destruct (getc st id) as [c|] eqn:G; [|contradiction].
    destruct (0 <=? cpt c) eqn:E.
    + destruct S as (I & B & Lq). replace (cpt c <? 0) with false by lia. rewrite I. rewrite <- B at 1.
      rewrite set_pc_same by exact Lq. reflexivity.
    + destruct S as (Lo & Rc & C2 & Ch). replace (cpt c <? 0) with true by lia.
      rewrite fold_left_id.
      2:{ intros o Ho. apply in_seq in Ho. rewrite G.
          destruct (nth o (coct c) None) as [did|] eqn:En.
          - assert (Hn : nth_error (coct c) o = Some (Some did)).
            { clear - En. revert o En. induction (coct c); destruct o; cbn; intros; try discriminate; try congruence; auto. }
            rewrite (IH st did (Ch o did Hn)). apply (set_oct_same' st id c); [exact G|lia|exact En].
          - rewrite hupdate_none. apply (set_oct_same' st id c); [exact G|lia|exact En]. }
      rewrite G. rewrite Rc.
      replace (cpt c =? 0) with false by lia. replace (cpt c =? -1) with false by lia.
      rewrite set_pt_same by exact G. reflexivity.
Qed.

(* ... hence the abstraction (shape, counts, leaf indices) is unchanged and the gravity data computed afterwards are
   the sums over the same contents (C15_gravity_data_sums applies to the unchanged abstraction) *)
Lemma hupdate_stable_abs : forall l st id fuel, stable l st id ->
  habs fuel (fst (hupdate l st (Some id))) id = habs fuel st id /\ hN (fst (hupdate l st (Some id))) = hN st /\
  hparts (fst (hupdate l st (Some id))) = hparts st.
Proof. intros l st id fuel S. rewrite (hupdate_stable l st id S). cbn [fst]. auto. Qed.

(* the whole array of roots *)
Lemma hupdate_tree_stable : forall st,
  (forall i id, nth_error (hroots st) i = Some (Some id) -> stable L st id) ->
  hupdate_tree u nx ny nz L box st = st.
Proof.
  intros st H. unfold hupdate_tree. apply fold_left_id. intros i Hi. apply in_seq in Hi.
  destruct (nth i (hroots st) None) as [id|] eqn:En.
  - assert (Hn : nth_error (hroots st) i = Some (Some id)).
    { clear - En. revert i En. induction (hroots st); destruct i; cbn; intros; try discriminate; try congruence; auto. }
    rewrite (hupdate_stable L st id (H i id Hn)). rewrite <- En. unfold set_roots. rewrite upd_nth_same by lia. destruct st; reflexivity.
  - rewrite hupdate_none. rewrite <- En. unfold set_roots. rewrite upd_nth_same by lia. destruct st; reflexivity.
Qed.
End HeapP.
