(* C15 round 4: moving the stack position of the walk invariant. *)
From Coq Require Import ZArith List Bool Lia Permutation Arith.
From RV Require Import Common.Num C15.Tree C15.TreeProofs C15.GravityProofs C15.PathModel C15.PathSpec C15.PathProofsA C15.PathProofsB C15.PathProofsC.
Import ListNotations.
Close Scope Z_scope.
Open Scope nat_scope.

Lemma tset_app : forall s1 s2 t v, tset t (s1 ++ s2) v = tset t s1 (tset (tget t s1) s2 v).
Proof.
  induction s1 as [|o s1 IH]; intros s2 t v; [reflexivity|]. cbn [app tset tget].
  destruct t as [[q|n oct]|]; try reflexivity. rewrite IH. reflexivity.
Qed.

Section PE.
Variable X : Type.
Variable xd : X.
Variable ins : path -> X -> bool.
Variable L : nat.
Variable nroot : nat.
Notation parts := (parts X).
Notation full := (full X xd ins L).
Notation inv := (inv X xd ins L nroot).

Lemma inv_get : forall P s pi t p0, inv P (s ++ pi) t p0 -> inv P pi (tget t s) (p0 ++ s).
Proof.
  intros P. induction s as [|k s IH]; intros pi t p0 I.
  - rewrite app_nil_r. exact I.
  - cbn [app] in I. inversion I as [|? ? n oct ? Lo Fl Ik Fr]; subst. cbn [tget].
    replace (p0 ++ k :: s) with ((p0 ++ [k]) ++ s) by (rewrite <- app_assoc; reflexivity). apply IH. exact Ik.
Qed.

Lemma inv_set : forall P s pi1 pi2 t p0 v, inv P (s ++ pi1) t p0 -> pathok t s -> inv P pi2 v (p0 ++ s) ->
  inv P (s ++ pi2) (tset t s v) p0.
Proof.
  intros P. induction s as [|k s IH]; intros pi1 pi2 t p0 v I Hok Iv.
  - cbn. rewrite app_nil_r in Iv. exact Iv.
  - cbn [app] in I. inversion I as [|? ? n oct ? Lo Fl Ik Fr]; subst. cbn [pathok] in Hok. destruct Hok as [Hk Hok].
    cbn [app tset]. constructor.
    + rewrite upd_len. exact Lo.
    + intros o Ho. rewrite nth_upd_ne by lia. apply Fl. exact Ho.
    + rewrite nth_upd_eq by exact Hk. eapply IH; [exact Ik|exact Hok|].
      replace ((p0 ++ [k]) ++ s) with (p0 ++ k :: s) by (rewrite <- app_assoc; reflexivity). exact Iv.
    + intros o Ho. rewrite nth_upd_ne by lia. apply Fr. exact Ho.
Qed.

(* child k of the cell at s is finished (replaced by a subtree that is completely in order): the walk moves on to k+1 *)
Lemma inv_bump : forall P s k pi1 t p0 v, inv P (s ++ k :: pi1) t p0 -> pathok t (s ++ [k]) ->
  full P v (p0 ++ s ++ [k]) -> inv P (s ++ [S k]) (tset t (s ++ [k]) v) p0.
Proof.
  intros P s k pi1 t p0 v I Hok Fv. apply pathok_app in Hok. destruct Hok as [Hs Hk].
  pose proof (inv_get P s (k :: pi1) t p0 I) as Is.
  inversion Is as [|? ? n oct ? Lo Fl Ik Fr E1 E2]; subst. rewrite <- E2 in Hk. cbn [pathok] in Hk. destruct Hk as [Hk _].
  rewrite tset_app. rewrite <- E2. cbn [tset].
  eapply inv_set; [exact I|exact Hs|]. constructor.
  - rewrite upd_len. exact Lo.
  - intros o Ho. destruct (Nat.eq_dec o k) as [e|ne].
    + subst o. rewrite nth_upd_eq by exact Hk. rewrite <- app_assoc. exact Fv.
    + rewrite nth_upd_ne by (intro; apply ne; congruence). apply Fl. lia.
  - rewrite nth_upd_ne by lia. constructor. apply Fr. lia.
  - intros o Ho. rewrite nth_upd_ne by lia. apply Fr. lia.
Qed.

(* entering a node: its first child becomes the current position *)
Lemma inv_push : forall P s t p0 n oct, inv P s t p0 -> p0 ++ s <> [] -> pathok t s -> tget t s = Some (Node n oct) ->
  inv P (s ++ [0]) t p0.
Proof.
  intros P s t p0 n oct I Hne Hok Hg.
  pose proof (inv_get P s [] t p0 ltac:(rewrite app_nil_r; exact I)) as Is. rewrite Hg in Is.
  inversion Is as [? ? Fr|]; subst. inversion Fr as [| |? ? Lo Fo]; subst.
  rewrite <- (tset_tget s t). rewrite Hg.
  eapply inv_set; [rewrite app_nil_r; exact I|exact Hok|]. constructor.
  - destruct (p0 ++ s); [congruence|exact Lo].
  - intros o Ho. lia.
  - constructor. apply Fo.
  - intros o Ho. apply Fo.
Qed.

(* all children done: they are all completely in order *)
Lemma inv_children_full : forall P s t p0 n oct, inv P (s ++ [8]) t p0 -> tget t s = Some (Node n oct) ->
  length oct = 8 -> forall o, full P (nth o oct None) (p0 ++ s ++ [o]).
Proof.
  intros P s t p0 n oct I Hg Lo o. pose proof (inv_get P s [8] t p0 I) as Is. rewrite Hg in Is.
  inversion Is as [|? ? ? ? ? _ Fl _ _]; subst.
  destruct (Nat.lt_ge_cases o 8) as [h|h]; [rewrite app_assoc; apply Fl; exact h|].
  rewrite nth_overflow by lia. constructor.
Qed.
End PE.
