(* C15 round 4: the steps of the walk (keep a leaf, vacate a leaf, recount/derefine a node) preserve the invariants. *)
From Coq Require Import ZArith List Bool Lia Permutation Arith.
From RV Require Import Common.Num C15.Tree C15.TreeProofs C15.GravityProofs C15.PathModel C15.PathSpec C15.PathProofsA C15.PathProofsB C15.PathProofsC.
Import ListNotations.
Close Scope Z_scope.
Open Scope nat_scope.

Lemma nodup_app_r {A} (a b : list A) : NoDup (a ++ b) -> NoDup b.
Proof. induction a; cbn; intros H; [exact H|]. inversion H; subst. auto. Qed.
Lemma NoDup_app_disj {A} (l1 l2 : list A) (a : A) : NoDup (l1 ++ l2) -> In a l1 -> In a l2 -> False.
Proof.
  induction l1 as [|x l1 IH]; cbn; intros H H1 H2; [destruct H1|]. inversion H as [|? ? Hn Hr]; subst. destruct H1 as [->|H1].
  - apply Hn. apply in_or_app. right. exact H2.
  - apply IH; assumption.
Qed.

Section PD.
Variable X : Type.
Variable xd : X.
Variable ins : path -> X -> bool.
Variable L : nat.
Variable nroot : nat.
Notation parts := (parts X).
Notation px := (px X xd).
Notation pbp := (pbp X xd).
Notation full := (full X xd ins L).
Notation inv := (inv X xd ins L nroot).

(* same shape, corresponding leaves hold the same particle (under two particle arrays) *)
Inductive simt (P P1 : parts) : option cell -> option cell -> Prop :=
| simt_none : simt P P1 None None
| simt_leaf : forall i i1, px P1 i1 = px P i -> simt P P1 (Some (Leaf i)) (Some (Leaf i1))
| simt_node : forall n oct oct1, length oct1 = length oct -> (forall o, simt P P1 (nth o oct None) (nth o oct1 None)) ->
    flat_map oleaves oct1 = flat_map oleaves oct \/ length (flat_map oleaves oct1) = length (flat_map oleaves oct) ->
    simt P P1 (Some (Node n oct)) (Some (Node n oct1)).

Lemma simt_len_leaves : forall P P1 t t1, simt P P1 t t1 -> length (oleaves t1) = length (oleaves t).
Proof.
  intros P P1 t t1 S. induction S as [|i i1 E|n oct oct1 Lo Ch IH Hl]; try reflexivity.
  cbn [oleaves]. rewrite !leaves_node. destruct Hl as [Hl|Hl]; [rewrite Hl; reflexivity|exact Hl].
Qed.

Lemma flat_len_pointwise : forall (oct oct1 : list (option cell)), length oct1 = length oct ->
  (forall o, length (oleaves (nth o oct1 None)) = length (oleaves (nth o oct None))) ->
  length (flat_map oleaves oct1) = length (flat_map oleaves oct).
Proof.
  induction oct as [|d r IH]; intros oct1 Hl H; destruct oct1 as [|d1 r1]; try (cbn in Hl; lia); try reflexivity.
  cbn [flat_map]. rewrite !app_length. f_equal; [apply (H 0)|]. apply IH; [cbn in Hl; lia|]. intro o. apply (H (S o)).
Qed.

Lemma simt_free : forall P P1 t t1, simt P P1 t t1 -> free t -> free t1.
Proof.
  intros P P1 t t1 S. induction S as [|i i1 E|n oct oct1 Lo Ch IH Hl]; intros F; try constructor.
  - inversion F; subst. congruence.
  - inversion F as [| |? ? L8 Fo]; subst. intro o. apply IH. apply Fo.
Qed.
Lemma simt_full : forall P P1 t t1 p, simt P P1 t t1 -> full P t p -> full P1 t1 p.
Proof.
  intros P P1 t t1 p S. revert p. induction S as [|i i1 E|n oct oct1 Lo Ch IH Hl]; intros p F.
  - constructor.
  - inversion F; subst. constructor. rewrite E. assumption.
  - inversion F as [| |? ? ? L8 Lp Cn N2 Fo]; subst. constructor; try assumption; [congruence| |].
    + f_equal. symmetry. apply flat_len_pointwise; [exact Lo|]. intro o. eapply simt_len_leaves. apply Ch.
    + intro o. apply IH. apply Fo.
Qed.
Lemma simt_inv : forall P P1 pi t t1 p, simt P P1 t t1 -> inv P pi t p -> inv P1 pi t1 p.
Proof.
  intros P P1 pi t t1 p S I. revert t1 S. induction I as [t p F|k pi n oct p Lo Fl Ik IH Fr]; intros t1 S.
  - constructor. eapply simt_free; eassumption.
  - inversion S as [| |? ? oct1 Lo1 Ch Hl]; subst. constructor.
    + congruence.
    + intros o Ho. eapply simt_full; [apply Ch|apply Fl; exact Ho].
    + apply IH. apply Ch.
    + intros o Ho. eapply simt_free; [apply Ch|apply Fr; exact Ho].
Qed.

Lemma simt_refl : forall P P1 (t : option cell), (forall i, In i (oleaves t) -> px P1 i = px P i) -> simt P P1 t t.
Proof.
  intros P P1 t. destruct t as [c|]; [|constructor].
  induction c as [q|n oct IH] using cell_ind'; intros H.
  - constructor. apply H. left. reflexivity.
  - constructor; [reflexivity| |left; reflexivity]. intro o.
    destruct (Nat.lt_ge_cases o (length oct)) as [Ho|Ho]; [|rewrite nth_overflow by exact Ho; constructor].
    rewrite Forall_forall in IH. specialize (IH (nth o oct None) (nth_In _ _ Ho)).
    destruct (nth o oct None) as [d|] eqn:E; [|constructor]. apply IH. intros i Hi. apply H.
    cbn [oleaves]. rewrite leaves_node. apply in_flat_map. exists (Some d). split; [rewrite <- E; apply nth_In; exact Ho|exact Hi].
Qed.

(* relabelling the leaf at path a (holding n) to q, where q now names the particle that n named *)
Lemma simt_relabel : forall P P1 a (t : option cell) n q, tget t a = Some (Leaf n) -> px P1 q = px P n ->
  (forall i, In i (oleaves t) -> i <> n -> px P1 i = px P i) -> NoDup (oleaves t) ->
  simt P P1 t (tset t a (Some (Leaf q))).
Proof.
  intros P P1. induction a as [|o a IH]; intros t n q Hg Hq Hoth ND.
  - cbn in Hg. subst t. cbn. constructor. exact Hq.
  - cbn in Hg. destruct t as [[i|m oct]|]; try discriminate. cbn [tset].
    assert (Ho : o < length oct).
    { destruct (Nat.lt_ge_cases o (length oct)) as [h|h]; [exact h|]. rewrite nth_overflow in Hg by exact h. destruct a; discriminate. }
    cbn [oleaves] in Hoth, ND. rewrite leaves_node in Hoth, ND.
    assert (Hsub : forall k i, In i (oleaves (nth k oct None)) -> In i (flat_map oleaves oct)).
    { intros k i Hi. destruct (Nat.lt_ge_cases k (length oct)) as [h|h]; [|rewrite nth_overflow in Hi by exact h; destruct Hi].
      apply in_flat_map. exists (nth k oct None). split; [apply nth_In; exact h|exact Hi]. }
    assert (Hn_in : In n (oleaves (nth o oct None))).
    { pose proof (tget_lv a (nth o oct None) [] n Hg) as Hin. apply (in_map snd) in Hin. rewrite idx_leaves in Hin. exact Hin. }
    (* n does not occur in the other children *)
    assert (Hn_other : forall k, k <> o -> ~ In n (oleaves (nth k oct None))).
    { intros k Hk Hin. clear - ND Hk Hin Hn_in Ho. revert o k Hk Hin Hn_in Ho. induction oct as [|d r IHr]; intros o k Hk Hin Hn Ho; [cbn in Ho; lia|].
      cbn [flat_map] in ND. destruct o as [|o], k as [|k]; try congruence; cbn [nth] in *.
      - apply NoDup_app_disj with (a := n) in ND; [exact ND|exact Hn|].
        destruct (Nat.lt_ge_cases k (length r)) as [h|h]; [|rewrite nth_overflow in Hin by exact h; destruct Hin].
        apply in_flat_map. exists (nth k r None). split; [apply nth_In; exact h|exact Hin].
      - apply NoDup_app_disj with (a := n) in ND; [exact ND|exact Hin|].
        apply in_flat_map. exists (nth o r None). split; [apply nth_In; cbn in Ho; lia|exact Hn].
      - eapply (IHr (nodup_app_r _ _ ND) o k); try eassumption; [congruence|cbn in Ho; lia]. }
    constructor; [apply upd_len| |right].
    + intro k. rewrite nth_upd_cases. destruct (Nat.eqb o k && Nat.ltb o (length oct)) eqn:E.
      * apply andb_prop in E. destruct E as [E _]. apply Nat.eqb_eq in E. subst k.
        apply (IH (nth o oct None) n q Hg Hq).
        -- intros i Hi Hne. apply Hoth; [eapply Hsub; exact Hi|exact Hne].
        -- clear - ND Ho. revert o Ho. induction oct as [|d r IHr]; intros o Ho; [cbn in Ho; lia|]. cbn [flat_map] in ND.
           destruct o; cbn [nth]; [eapply nodup_app_l; exact ND|apply IHr; [eapply nodup_app_r; exact ND|cbn in Ho; lia]].
      * apply simt_refl. intros i Hi. apply Hoth; [eapply Hsub; exact Hi|].
        intro e. subst i. assert (k <> o).
        { intro e. subst k. rewrite Nat.eqb_refl in E. cbn in E. apply Nat.ltb_ge in E. lia. }
        eapply Hn_other; eassumption.
    + apply flat_len_pointwise; [apply upd_len|]. intro k. rewrite nth_upd_cases.
      destruct (Nat.eqb o k && Nat.ltb o (length oct)) eqn:E; [|reflexivity].
      apply andb_prop in E. destruct E as [E _]. apply Nat.eqb_eq in E. subst k.
      clear - Hg. revert Hg. generalize (nth o oct None). induction a as [|x a IHa]; intros t Hg.
      * cbn in Hg. subst t. reflexivity.
      * cbn in Hg. destruct t as [[i|m oc]|]; try discriminate. cbn [tset oleaves]. rewrite !leaves_node.
        apply flat_len_pointwise; [apply upd_len|]. intro k. rewrite nth_upd_cases.
        destruct (Nat.eqb x k && Nat.ltb x (length oc)) eqn:E; [|reflexivity].
        apply andb_prop in E. destruct E as [E _]. apply Nat.eqb_eq in E. subst k. apply IHa. exact Hg.
Qed.
End PD.
