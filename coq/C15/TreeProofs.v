(* C15: theorems about the functional PR-octree model and soundness of the executable checker. *)
From Coq Require Import ZArith List Bool Lia ZifyBool Permutation Arith.
From RV Require Import Common.Num C15.Tree.
Import ListNotations.
Open Scope Z_scope.

(* ---------- generic list facts ---------- *)
Lemma upd_len {A} : forall (l : list A) i v, length (upd l i v) = length l.
Proof. induction l; destruct i; cbn; auto. Qed.
Lemma nth_error_upd_eq {A} : forall (l : list A) i v, (i < length l)%nat -> nth_error (upd l i v) i = Some v.
Proof. induction l; destruct i; cbn; intros; try lia; auto. apply IHl. lia. Qed.
Lemma nth_error_upd_ne {A} : forall (l : list A) i j v, i <> j -> nth_error (upd l i v) j = nth_error l j.
Proof. induction l; destruct i, j; cbn; intros; try congruence; auto. Qed.
Lemma nth_upd_eq {A} : forall (l : list A) i v d, (i < length l)%nat -> nth i (upd l i v) d = v.
Proof. induction l; destruct i; cbn; intros; try lia; auto. apply IHl. lia. Qed.
Lemma nth_upd_ne {A} : forall (l : list A) i j v d, i <> j -> nth j (upd l i v) d = nth j l d.
Proof. induction l; destruct i, j; cbn; intros; try congruence; auto. Qed.
Lemma nth_nth_error {A} : forall (l : list (option A)) o d, nth o l None = Some d -> nth_error l o = Some (Some d).
Proof. induction l; destruct o; cbn; intros; try discriminate; try congruence; auto. Qed.

Lemma leaves_node n oct : leaves (Node n oct) = flat_map oleaves oct.
Proof. reflexivity. Qed.

Lemma flat_map_upd : forall (l : list (option cell)) o v, (o < length l)%nat ->
  Permutation (oleaves (nth o l None) ++ flat_map oleaves (upd l o v)) (oleaves v ++ flat_map oleaves l).
Proof.
  induction l as [|a l IH]; destruct o; cbn [nth upd flat_map length]; intros v H; try lia.
  - apply Permutation_app_swap_app.
  - eapply Permutation_trans; [apply Permutation_app_swap_app|].
    eapply Permutation_trans; [apply Permutation_app_head, (IH o v); lia|].
    apply Permutation_app_swap_app.
Qed.

Lemma perm_after_add : forall oct o d p, (o < length oct)%nat ->
  Permutation (leaves d) (p :: oleaves (nth o oct None)) ->
  Permutation (flat_map oleaves (upd oct o (Some d))) (p :: flat_map oleaves oct).
Proof.
  intros oct o d p Ho Pd.
  pose proof (flat_map_upd oct o (Some d) Ho) as F. cbn [oleaves] in F.
  apply Permutation_app_inv_l with (l := oleaves (nth o oct None)).
  eapply Permutation_trans; [exact F|].
  eapply Permutation_trans; [apply Permutation_app_tail, Pd|].
  cbn [app]. apply Permutation_middle.
Qed.

Lemma nth_empty8 o : nth o empty8 (@None cell) = None.
Proof. do 9 (destruct o as [|o]; [reflexivity|]). reflexivity. Qed.
Lemma nth_error_empty8 o d : nth_error empty8 o = Some (Some d) -> False.
Proof. do 9 (destruct o as [|o]; [discriminate|]). discriminate. Qed.

(* ---------- geometry ---------- *)
Lemma octant_cases : forall c p,
  let '(cx, cy, cz) := c in let '(px, py, pz) := p in
  sg (octant c p) 0 = (if px <? cx then -1 else 1) /\ sg (octant c p) 1 = (if py <? cy then -1 else 1) /\
  sg (octant c p) 2 = (if pz <? cz then -1 else 1) /\ (octant c p < 8)%nat.
Proof.
  intros [[cx cy] cz] [[px py] pz]. unfold octant, sg.
  destruct (px <? cx), (py <? cy), (pz <? cz); cbn; repeat split; lia.
Qed.
Lemma octant_lt8 c p : (octant c p < 8)%nat.
Proof. pose proof (octant_cases c p) as H. destruct c as [[? ?] ?], p as [[? ?] ?]. tauto. Qed.

Section TreeP.
Variable u : Z.
Variable pos : nat -> P3.
Notation hw := (hw u).
Notation inside := (inside u).
Notation childc := (childc u).
Notation add := (add u pos).
Notation wf := (wf u pos).

Lemma hw_S l : hw (S l) = 2 * hw l.
Proof. unfold Tree.hw. rewrite Nat2Z.inj_succ, Z.pow_succ_r by lia. ring. Qed.

(* the child chosen by the code's comparisons contains the particle (closed cells) *)
Lemma child_inside : forall l' c p, inside (S l') c p -> inside l' (childc c l' (octant c p)) p.
Proof.
  intros l' c p H. pose proof (octant_cases c p) as O.
  destruct c as [[cx cy] cz], p as [[px py] pz]. destruct O as (O0 & O1 & O2 & _).
  unfold Tree.inside, Tree.childc in *. rewrite O0, O1, O2. rewrite hw_S in H.
  destruct (px <? cx) eqn:E1, (py <? cy) eqn:E2, (pz <? cz) eqn:E3; lia.
Qed.

Lemma wf_leaf l c p : wf l c (Leaf p) = inside l c (pos p).
Proof. destruct l; reflexivity. Qed.
Lemma wf_node_S l' c n oct : wf (S l') c (Node n oct) =
  (length oct = 8%nat /\ n = Z.of_nat (length (leaves (Node n oct))) /\ 2 <= n /\
   forall o d, nth_error oct o = Some (Some d) -> wf l' (childc c l' o) d).
Proof. reflexivity. Qed.

Definition owf l c (node : option cell) : Prop := match node with None => True | Some t => wf l c t end.

(* reb_tree_add_particle_to_cell preserves well-formedness and adds exactly the new particle *)
Lemma insert_wf : forall l c node p t',
  owf l c node -> inside l c (pos p) -> add l c node p = Some t' ->
  wf l c t' /\ Permutation (leaves t') (p :: oleaves node).
Proof.
  induction l as [|l' IH]; intros c node p t' Hwf Hin Hadd.
  - destruct node as [[q|n oct]|]; cbn in Hadd; try discriminate. injection Hadd as <-.
    split; [rewrite wf_leaf; exact Hin|apply Permutation_refl].
  - destruct node as [[q|n oct]|]; cbn [Tree.add] in Hadd.
    + (* a leaf is split *)
      set (o1 := octant c (pos q)) in *. set (o2 := octant c (pos p)) in *.
      destruct (Nat.eqb o1 o2 && same_pos (pos p) (pos q)) eqn:G; [discriminate|].
      set (oct0 := upd empty8 o1 (Some (Leaf q))) in *.
      destruct (add l' (childc c l' o2) (nth o2 oct0 None) p) as [d|] eqn:A; [|discriminate].
      injection Hadd as <-.
      assert (Ho1 : (o1 < 8)%nat) by apply octant_lt8.
      assert (Ho2 : (o2 < 8)%nat) by apply octant_lt8.
      cbn [owf] in Hwf. rewrite wf_leaf in Hwf.
      assert (Hq : inside l' (childc c l' o1) (pos q)) by (apply child_inside; exact Hwf).
      assert (Hp : inside l' (childc c l' o2) (pos p)) by (apply child_inside; exact Hin).
      assert (Hnode' : owf l' (childc c l' o2) (nth o2 oct0 None)).
      { destruct (Nat.eq_dec o1 o2) as [e|ne].
        - unfold oct0. rewrite <- e. rewrite nth_upd_eq by (cbn; lia). cbn [owf]. rewrite wf_leaf. exact Hq.
        - unfold oct0. rewrite nth_upd_ne by exact ne. rewrite nth_empty8. exact I. }
      destruct (IH _ _ _ _ Hnode' Hp A) as [Wd Pd].
      assert (L0 : length oct0 = 8%nat) by (unfold oct0; rewrite upd_len; reflexivity).
      assert (Pl : Permutation (flat_map oleaves (upd oct0 o2 (Some d))) (p :: flat_map oleaves oct0))
        by (apply perm_after_add; [lia|exact Pd]).
      assert (P0 : Permutation (flat_map oleaves oct0) [q]).
      { pose proof (flat_map_upd empty8 o1 (Some (Leaf q)) ltac:(cbn; lia)) as F.
        rewrite nth_empty8 in F. cbn in F. exact F. }
      assert (Pall : Permutation (flat_map oleaves (upd oct0 o2 (Some d))) [p; q])
        by (eapply Permutation_trans; [exact Pl|apply perm_skip, P0]).
      split.
      * rewrite wf_node_S. split; [rewrite upd_len; exact L0|]. split.
        { rewrite leaves_node, (Permutation_length Pall). reflexivity. }
        split; [lia|].
        intros o d' H. destruct (Nat.eq_dec o2 o) as [e|ne].
        -- subst o. rewrite nth_error_upd_eq in H by lia. injection H as <-. exact Wd.
        -- rewrite nth_error_upd_ne in H by exact ne. unfold oct0 in H.
           destruct (Nat.eq_dec o1 o) as [e1|ne1].
           ++ subst o. rewrite nth_error_upd_eq in H by (cbn; lia). injection H as <-. rewrite wf_leaf. exact Hq.
           ++ rewrite nth_error_upd_ne in H by exact ne1. exfalso. eapply nth_error_empty8; exact H.
      * rewrite leaves_node. cbn [oleaves leaves]. exact Pall.
    + (* an inner node: descend *)
      set (o := octant c (pos p)) in *.
      destruct (add l' (childc c l' o) (nth o oct None) p) as [d|] eqn:A; [|discriminate].
      injection Hadd as <-.
      assert (Ho : (o < 8)%nat) by apply octant_lt8.
      cbn [owf] in Hwf. rewrite wf_node_S in Hwf. destruct Hwf as (Hlen & Hcnt & H2 & Hch).
      assert (Hp : inside l' (childc c l' o) (pos p)) by (apply child_inside; exact Hin).
      assert (Hnode' : owf l' (childc c l' o) (nth o oct None)).
      { destruct (nth o oct None) as [d0|] eqn:E; [|exact I]. cbn [owf]. apply Hch. apply nth_nth_error. exact E. }
      destruct (IH _ _ _ _ Hnode' Hp A) as [Wd Pd].
      assert (Pl : Permutation (flat_map oleaves (upd oct o (Some d))) (p :: flat_map oleaves oct))
        by (apply perm_after_add; [lia|exact Pd]).
      split.
      * rewrite wf_node_S. split; [rewrite upd_len; exact Hlen|]. split.
        { rewrite leaves_node, (Permutation_length Pl). cbn [length]. rewrite leaves_node in Hcnt. lia. }
        split; [lia|].
        intros o' d' H. destruct (Nat.eq_dec o o') as [e|ne].
        -- subst o'. rewrite nth_error_upd_eq in H by lia. injection H as <-. exact Wd.
        -- rewrite nth_error_upd_ne in H by exact ne. apply Hch. exact H.
      * cbn [oleaves]. rewrite !leaves_node. exact Pl.
    + injection Hadd as <-. split; [rewrite wf_leaf; exact Hin|apply Permutation_refl].
Qed.

(* inserting a whole list of particles that lie in the (root) cell *)
Lemma build_wf : forall pts l c node r,
  owf l c node -> Forall (fun p => inside l c (pos p)) pts -> build u pos l c node pts = Some r ->
  owf l c r /\ Permutation (oleaves r) (rev pts ++ oleaves node).
Proof.
  induction pts as [|p pts IH]; intros l c node r Hwf Hall Hb; cbn [build] in Hb.
  - injection Hb as <-. split; [exact Hwf|apply Permutation_refl].
  - destruct (add l c node p) as [t|] eqn:A; [|discriminate].
    inversion Hall as [|? ? Hp Hrest]; subst.
    destruct (insert_wf _ _ _ _ _ Hwf Hp A) as [Wt Pt].
    destruct (IH l c (Some t) r Wt Hrest Hb) as [Wr Pr].
    split; [exact Wr|]. eapply Permutation_trans; [exact Pr|]. cbn [rev oleaves].
    rewrite <- app_assoc. apply Permutation_app_head. cbn [app]. exact Pt.
Qed.

(* every particle exactly once: distinct indices stay distinct leaves *)
Lemma each_once : forall pts l c r,
  NoDup pts -> Forall (fun p => inside l c (pos p)) pts -> build u pos l c None pts = Some r ->
  NoDup (oleaves r) /\ (forall p, In p (oleaves r) <-> In p pts) /\ length (oleaves r) = length pts.
Proof.
  intros pts l c r ND Hall Hb.
  destruct (build_wf pts l c None r I Hall Hb) as [_ P]. cbn [oleaves] in P. rewrite app_nil_r in P.
  assert (P' : Permutation (oleaves r) pts) by (eapply Permutation_trans; [exact P|apply Permutation_sym, Permutation_rev]).
  split; [eapply Permutation_NoDup; [apply Permutation_sym; exact P'|exact ND]|].
  split; [intro p; split; apply Permutation_in; [exact P'|apply Permutation_sym; exact P']|].
  apply Permutation_length. exact P'.
Qed.

(* ---------- soundness of the executable checker ---------- *)
Lemma forallb_i_nth {A} : forall (f : nat -> A -> bool) l i k a,
  forallb_i f i l = true -> nth_error l k = Some a -> f (i + k)%nat a = true.
Proof.
  induction l as [|x l IH]; intros i k a H Hk; [destruct k; discriminate|].
  cbn [forallb_i] in H. apply andb_prop in H. destruct H as [H1 H2].
  destruct k as [|k]; cbn in Hk.
  - injection Hk as <-. rewrite Nat.add_0_r. exact H1.
  - replace (i + S k)%nat with (S i + k)%nat by lia. eapply IH; eauto.
Qed.

Lemma inside_b_sound l c p : inside_b u l c p = true -> inside l c p.
Proof. destruct c as [[? ?] ?], p as [[? ?] ?]. unfold inside_b, Tree.inside. lia. Qed.

Lemma erase_node x y z w pt oct : 0 <=? pt = false ->
  erase (D x y z w pt oct) = Node (- pt) (map (fun o => match o with None => None | Some e => Some (erase e) end) oct).
Proof. intros H. cbn [erase]. rewrite H. reflexivity. Qed.
Lemma erase_leaf x y z w pt oct : 0 <=? pt = true -> erase (D x y z w pt oct) = Leaf (Z.to_nat pt).
Proof. intros H. cbn [erase]. rewrite H. reflexivity. Qed.

Lemma wf_b_sound : forall l c d, wf_b u pos l c d = true -> wf l c (erase d) /\ dgeom u l c d.
Proof.
  induction l as [|l' IH]; intros c [x y z w pt oct] H.
  - cbn [wf_b] in H. apply andb_prop in H. destruct H as [G H].
    assert (Gd : (x, y, z) = c /\ w = 2 * hw 0).
    { destruct c as [[cx cy] cz]. unfold geom_b in G. split; [f_equal; [f_equal|]|]; lia. }
    destruct (0 <=? pt) eqn:E; [|discriminate].
    rewrite erase_leaf by exact E. rewrite wf_leaf. split.
    + apply inside_b_sound. apply andb_prop in H. tauto.
    + cbn [dgeom]. tauto.
  - cbn [wf_b] in H. apply andb_prop in H. destruct H as [G H].
    assert (Gd : (x, y, z) = c /\ w = 2 * hw (S l')).
    { destruct c as [[cx cy] cz]. unfold geom_b in G. split; [f_equal; [f_equal|]|]; lia. }
    destruct (0 <=? pt) eqn:E.
    + rewrite erase_leaf by exact E. rewrite wf_leaf. apply andb_prop in H. destruct H as [H1 H2].
      apply andb_prop in H1. destruct H1 as [Hn _]. split.
      * apply inside_b_sound. exact H2.
      * cbn [dgeom]. split; [tauto|]. split; [tauto|]. intros o e Ho. exfalso.
        rewrite forallb_forall in Hn. apply nth_error_In in Ho. apply Hn in Ho. discriminate.
    + apply andb_prop in H. destruct H as [H Hch]. apply andb_prop in H. destruct H as [H H2].
      apply andb_prop in H. destruct H as [Hlen Hcnt].
      assert (Hch' : forall o e, nth_error oct o = Some (Some e) -> wf_b u pos l' (childc c l' o) e = true).
      { intros o e Ho. apply (forallb_i_nth _ _ 0%nat o _ Hch) in Ho. exact Ho. }
      split.
      * rewrite erase_node in * by exact E. rewrite wf_node_S.
        split; [rewrite map_length; apply Nat.eqb_eq; exact Hlen|].
        split; [lia|]. split; [lia|].
        intros o t Ho. rewrite nth_error_map in Ho.
        destruct (nth_error oct o) as [[e|]|] eqn:Eo; cbn in Ho; try discriminate.
        injection Ho as <-. apply IH. apply Hch'. exact Eo.
      * cbn [dgeom]. split; [tauto|]. split; [tauto|]. intros o e Ho. apply IH. apply Hch'. exact Ho.
Qed.

End TreeP.

Lemma nodup_b_sound : forall l, nodup_b l = true -> NoDup l.
Proof.
  induction l as [|a l IH]; intros H; [constructor|].
  cbn [nodup_b] in H. apply andb_prop in H. destruct H as [H1 H2]. constructor; [|apply IH; exact H2].
  intro Hin. apply negb_true_iff in H1. assert (existsb (Nat.eqb a) l = true); [|congruence].
  apply existsb_exists. exists a. split; [exact Hin|apply Nat.eqb_refl].
Qed.

(* once_b: every index below N occurs in exactly one leaf and nothing else occurs *)
Lemma once_b_sound : forall N l, once_b N l = true ->
  NoDup l /\ (forall i, In i l <-> (i < N)%nat) /\ Permutation l (seq 0 N).
Proof.
  intros N l H. unfold once_b in H. apply andb_prop in H. destruct H as [H H3].
  apply andb_prop in H. destruct H as [H1 H2]. apply Nat.eqb_eq in H1.
  pose proof (nodup_b_sound l H3) as ND.
  assert (Hlt : forall i, In i l -> (i < N)%nat).
  { intros i Hi. rewrite forallb_forall in H2. apply H2 in Hi. apply Nat.ltb_lt in Hi. exact Hi. }
  assert (Inc : incl l (seq 0 N)) by (intros i Hi; apply in_seq; pose proof (Hlt i Hi); lia).
  assert (Inc' : incl (seq 0 N) l) by (apply NoDup_length_incl; [exact ND|rewrite seq_length; lia|exact Inc]).
  split; [exact ND|]. split.
  - intro i. split; [apply Hlt|]. intro Hi. apply Inc'. apply in_seq. lia.
  - apply NoDup_Permutation; [exact ND|apply seq_NoDup|]. intro i. split; [apply Inc|apply Inc'].
Qed.

(* the whole dump: every root cell well formed w.r.t. its expected geometry, every index exactly once *)
Lemma forest_b_sound : forall u pos L N roots, forest_b u pos L N roots = true ->
  Forall (fun cd => wf u pos L (fst cd) (erase (snd cd)) /\ dgeom u L (fst cd) (snd cd)) roots /\
  Permutation (flat_map (fun cd => leaves (erase (snd cd))) roots) (seq 0 N).
Proof.
  intros u pos L N roots H. unfold forest_b in H. apply andb_prop in H. destruct H as [H1 H2]. split.
  - apply Forall_forall. intros cd Hin. rewrite forallb_forall in H1. apply wf_b_sound. apply H1. exact Hin.
  - apply once_b_sound in H2. tauto.
Qed.

(* ---------- root boxes ---------- *)
(* A particle in the CLOSED box [-box/2, box/2] is placed in a root box whose cell contains it, and the slot index and the
   index used for the geometry of a new root cell agree (with the clamp of /repo da62396 the upper border x = +box/2 goes
   to the last root box). *)
Lemma root_inside_1d : forall h n x, 0 < h -> 0 < n -> - (n * h) <= x <= n * h ->
  root_idx h n x = root_idx_new h n x /\ 0 <= root_idx h n x < n /\
  Z.abs (x - root_centre h n (root_idx h n x)) <= h.
Proof.
  intros h n x Hh Hn Hx. unfold root_idx, root_idx_new, root_centre, root_fl, root_clamp.
  set (q := (x + n * h) / (2 * h)).
  pose proof (Z.div_mod (x + n * h) (2 * h) ltac:(lia)) as DM. fold q in DM.
  pose proof (Z.mod_pos_bound (x + n * h) (2 * h) ltac:(lia)) as MB.
  set (r := (x + n * h) mod (2 * h)) in *.
  assert (Q0 : 0 <= q) by (apply Z.div_pos; lia).
  assert (Q1 : q <= n) by (apply Z.div_le_upper_bound; nia).
  destruct (q =? n) eqn:E.
  - assert (q = n) by lia. assert (R1 : Z.rem (n - 1) n = n - 1) by (apply Z.rem_small; lia).
    assert (R2 : Z.rem (n - 1 + n) n = n - 1).
    { rewrite Z.rem_mod_nonneg by lia. replace (n - 1 + n) with (n - 1 + 1 * n) by ring. rewrite Z.mod_add by lia. apply Z.mod_small. lia. }
    rewrite R1, R2. split; [reflexivity|]. split; [lia|]. nia.
  - assert (q < n) by lia. assert (R1 : Z.rem q n = q) by (apply Z.rem_small; lia).
    assert (R2 : Z.rem (q + n) n = q).
    { rewrite Z.rem_mod_nonneg by lia. replace (q + n) with (q + 1 * n) by ring. rewrite Z.mod_add by lia. apply Z.mod_small. lia. }
    rewrite R1, R2. split; [reflexivity|]. split; [lia|]. nia.
Qed.

(* the upper border is in the last root box *)
Lemma root_upper_border_last : forall h n, 0 < h -> 0 < n -> root_idx h n (n * h) = n - 1.
Proof.
  intros h n Hh Hn. unfold root_idx, root_fl, root_clamp.
  assert (E : (n * h + n * h) / (2 * h) = n) by (symmetry; apply Z.div_unique_exact; [lia|ring]). rewrite E.
  rewrite Z.eqb_refl. rewrite Z.rem_mod_nonneg by lia. replace (n - 1 + n) with (n - 1 + 1 * n) by ring. rewrite Z.mod_add by lia. apply Z.mod_small. lia.
Qed.

(* ---------- the resolution limit of the model ----------
   A cell of level 0 has width 2u and cannot be split.  If every coordinate is a multiple of a grid spacing g with 2u < g, two
   particles that differ in at least one coordinate never share a (closed) level-0 cell, so the insertion is never stopped by
   the resolution: a particle that is inside the cell and differs from every resident is ACCEPTED.  With the root cell at
   level L, root_size = 2u * 2^L, i.e. the limit is  g > root_size / 2^L :  L levels resolve every set of particles whose
   coordinates differ by more than root_size / 2^L wherever they differ. *)
Section Resolution.
Variable u : Z.
Variable pos : nat -> P3.
Variable g : Z.
Hypothesis g_big : 2 * u < g.
Hypothesis u_nonneg : 0 <= u.
Definition ongrid (p : P3) : Prop := let '(x, y, z) := p in (g | x) /\ (g | y) /\ (g | z).

Lemma same_pos_false : forall p q : P3, p <> q -> same_pos p q = false.
Proof.
  intros [[a b] c] [[a' b'] c'] H. unfold same_pos. destruct (a =? a') eqn:E1, (b =? b') eqn:E2, (c =? c') eqn:E3; try reflexivity.
  exfalso. apply H. f_equal; [f_equal|]; lia.
Qed.

Lemma grid_close_eq : forall a b c0, (g | a) -> (g | b) -> Z.abs (a - c0) <= u -> Z.abs (b - c0) <= u -> a = b.
Proof.
  intros a b c0 [ka ->] [kb ->] Ha Hb. assert (Z.abs (ka * g - kb * g) <= 2 * u) by lia.
  assert (ka = kb) by nia. congruence.
Qed.

Lemma add_no_exhaustion : forall l c node p,
  owf u pos l c node -> inside u l c (pos p) -> ongrid (pos p) ->
  (forall q, In q (oleaves node) -> ongrid (pos q) /\ pos q <> pos p) ->
  exists t', add u pos l c node p = Some t'.
Proof.
  induction l as [|l' IH]; intros c node p Hwf Hin Hg Hq.
  - destruct node as [[q|n oct]|]; cbn [add]; [|cbn in Hwf; contradiction|eexists; reflexivity].
    exfalso. cbn [owf] in Hwf. rewrite wf_leaf in Hwf. destruct (Hq q (or_introl eq_refl)) as [Gq Nq]. apply Nq.
    unfold inside, hw in *. rewrite Z.pow_0_r, Z.mul_1_r in *. unfold ongrid in *.
    destruct c as [[cx cy] cz], (pos q) as [[qx qy] qz], (pos p) as [[px py] pz].
    destruct Hwf as (A1 & A2 & A3), Hin as (B1 & B2 & B3), Gq as (G1 & G2 & G3), Hg as (P1 & P2 & P3).
    f_equal; [f_equal|]; eapply grid_close_eq; eassumption.
  - destruct node as [[q|n oct]|]; cbn [add]; [| |eexists; reflexivity].
    + destruct (Hq q (or_introl eq_refl)) as [Gq Nq].
      rewrite (same_pos_false (pos p) (pos q)) by congruence. rewrite andb_false_r.
      cbn [owf] in Hwf. rewrite wf_leaf in Hwf.
      set (o1 := octant c (pos q)). set (o2 := octant c (pos p)). set (oct0 := upd empty8 o1 (Some (Leaf q))).
      assert (Ho1 : (o1 < 8)%nat) by apply octant_lt8.
      destruct (IH (childc u c l' o2) (nth o2 oct0 None) p) as [d Hd].
      * unfold oct0. destruct (Nat.eq_dec o1 o2) as [e|ne].
        -- rewrite <- e. rewrite nth_upd_eq by (cbn; lia). cbn [owf]. rewrite wf_leaf. apply child_inside. exact Hwf.
        -- rewrite nth_upd_ne by exact ne. rewrite nth_empty8. exact I.
      * apply child_inside. exact Hin.
      * exact Hg.
      * intros q' Hq'. unfold oct0 in Hq'. destruct (Nat.eq_dec o1 o2) as [e|ne].
        -- rewrite <- e in Hq'. rewrite nth_upd_eq in Hq' by (cbn; lia). cbn in Hq'. destruct Hq' as [<-|[]]. split; assumption.
        -- rewrite nth_upd_ne in Hq' by exact ne. rewrite nth_empty8 in Hq'. destruct Hq'.
      * rewrite Hd. eexists; reflexivity.
    + cbn [owf] in Hwf. rewrite wf_node_S in Hwf. destruct Hwf as (Lo & _ & _ & Ch).
      set (o := octant c (pos p)). assert (Ho : (o < 8)%nat) by apply octant_lt8.
      destruct (IH (childc u c l' o) (nth o oct None) p) as [d Hd].
      * destruct (nth o oct None) as [d0|] eqn:E; [|exact I]. cbn [owf]. apply Ch. apply nth_nth_error. exact E.
      * apply child_inside. exact Hin.
      * exact Hg.
      * intros q' Hq'. apply Hq. cbn [oleaves]. rewrite leaves_node. apply in_flat_map. exists (nth o oct None). split; [apply nth_In; lia|exact Hq'].
      * rewrite Hd. eexists; reflexivity.
Qed.
End Resolution.
