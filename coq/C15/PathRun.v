(* C15 round 4 glue (definitions only): the path model instantiated with the exact integer geometry of Tree.v, and one
   correspondence case (the same pre/post dumps as for the heap model). *)
From Coq Require Import ZArith List Bool.
From RV Require Import Common.Num C15.Tree C15.Tree2 C15.Run C15.Update C15.Run2 C15.PathModel.
Import ListNotations.
Open Scope Z_scope.

Definition XP := (P3 * bool)%type.            (* position, y is NaN *)
Section Geo.
Variable u : Z.
Variables nx ny nz : Z.
Variable L : nat.
(* (centre, level) of the cell at a non-empty path *)
Definition geom (p : path) : P3 * nat :=
  match p with
  | [] => ((0, 0, 0), S L)
  | ri :: os => fold_left (fun cl o => let '(c, l) := cl in (childc u c (pred l) o, pred l)) os (rootc_slot u nx ny nz L ri, L)
  end.
Definition asP (x : XP) : hpart := mkP (fst x) (snd x) 0.
Definition g_ins (p : path) (x : XP) : bool :=
  match p with
  | [] => in_box_closed u nx ny nz L (asP x) && negb (snd x)
  | _ => let '(c, l) := geom p in insideN u l c (asP x)
  end.
Definition g_octf (p : path) (x : XP) : nat :=
  match p with
  | [] => Z.to_nat (rootbox (hw u L) nx ny nz (fst x))
  | _ => octantN (fst (geom p)) (asP x)
  end.
Definition g_same (x y : XP) : bool := sameN (asP x) (asP y).
Definition g_flg (x : XP) : bool := snd x.
Definition xd0 : XP := ((0, 0, 0), false).
Definition g_update (st : pst XP) : option (pst XP) :=
  pupdate_tree XP xd0 g_ins g_octf g_same g_flg L (Z.to_nat (nx * ny * nz)) st.
End Geo.

Record pcase := mkPC {
  qu : Z; qL : nat; qnx : Z; qny : Z; qnz : Z;
  qroots : list (option cell); qparts : list (XP * path); qN : nat;
  qexp_forest : list (option cell); qexp_pos : list P3
}.
Definition pcase_ok (c : pcase) : bool :=
  match g_update c.(qu) c.(qnx) c.(qny) c.(qnz) c.(qL) (mkS XP (Some (Node 0 c.(qroots))) c.(qparts) c.(qN)) with
  | None => false
  | Some st =>
      Nat.eqb (sN XP st) (length c.(qexp_pos)) &&
      match sF XP st with
      | Some (Node _ roots) => forest_eqb roots c.(qexp_forest)
      | _ => false
      end &&
      pos_eqb (map (fun xp => fst (fst xp)) (firstn (sN XP st) (sP XP st))) c.(qexp_pos)
  end.
Fixpoint bad_p_from (n : nat) (l : list pcase) : list nat :=
  match l with [] => [] | c :: r => if pcase_ok c then bad_p_from (S n) r else n :: bad_p_from (S n) r end.
Definition bad_p (l : list pcase) : list nat := bad_p_from 0 l.
