(* C15 round 4: what reb_tree_add_particle_to_cell (path model) does to an arbitrary (possibly stale) subtree. *)
From Coq Require Import ZArith List Bool Lia Permutation Arith.
From RV Require Import Common.Num C15.Tree C15.TreeProofs C15.GravityProofs C15.PathModel C15.PathSpec C15.PathProofsA.
Import ListNotations.
Close Scope Z_scope.
Open Scope nat_scope.

Lemma nth_upd_cases {A} : forall (l : list A) i j v d,
  nth j (upd l i v) d = if Nat.eqb i j && Nat.ltb i (length l) then v else nth j l d.
Proof.
  induction l as [|a l IH]; intros i j v d.
  - cbn. destruct i, j; cbn; try reflexivity; rewrite ?andb_false_r; reflexivity.
  - destruct i, j; cbn [upd nth length]; try reflexivity.
    rewrite IH. cbn. replace (S i <? S (length l)) with (i <? length l) by reflexivity. reflexivity.
Qed.

Lemma free_nth_empty8 o : free (nth o empty8 None).
Proof. rewrite nth_empty8. constructor. Qed.
Lemma lvl_empty8 p o : lvl p empty8 o = [].
Proof. reflexivity. Qed.

Lemma nodup_app_l {A} (a b : list A) : NoDup (a ++ b) -> NoDup a.
Proof. induction a; cbn; intros H; [constructor|]. inversion H; subst. constructor; [intro; apply H2; apply in_or_app; left; assumption|auto]. Qed.

Section PB.
Variable X : Type.
Variable xd : X.
Variable octf : path -> X -> nat.
Variable same : X -> X -> bool.
Notation parts := (parts X).
Notation px := (px X xd).
Notation pbp := (pbp X xd).
Notation setbp := (setbp X xd).
Notation padd := (padd X xd octf same).
Hypothesis Hoct8 : forall p x, p <> [] -> octf p x < 8.

Definition idx (t : option cell) (p : path) : list nat := map snd (lvo t p).
Definition BP (P : parts) (t : option cell) (p : path) : Prop :=
  forall r i, In (r, i) (lvo t p) -> pbp P i = r /\ i < length P.

Lemma px_setbp P i p j : px (setbp P i p) j = px P j.
Proof.
  unfold PathModel.px, PathModel.setbp. rewrite nth_upd_cases.
  destruct (Nat.eqb i j && Nat.ltb i (length P)) eqn:E; [|reflexivity].
  apply andb_prop in E. destruct E as [E _]. apply Nat.eqb_eq in E. subst j. reflexivity.
Qed.
Lemma len_setbp P i p : length (setbp P i p) = length P.
Proof. apply upd_len. Qed.
Lemma pbp_setbp_same P i p : i < length P -> pbp (setbp P i p) i = p.
Proof. intros H. unfold PathModel.pbp, PathModel.setbp. rewrite nth_upd_eq by exact H. reflexivity. Qed.
Lemma pbp_setbp_other P i p j : i <> j -> pbp (setbp P i p) j = pbp P j.
Proof. intros H. unfold PathModel.pbp, PathModel.setbp. rewrite nth_upd_ne by exact H. reflexivity. Qed.

Lemma padd_none fuel p P pt : padd fuel p None P pt = Some (Some (Leaf pt), setbp P pt p).
Proof. destruct fuel; reflexivity. Qed.

Lemma free_upd oct o d : free (Some (Node 0%Z oct)) -> free d -> forall n, free (Some (Node n (upd oct o d))).
Proof.
  intros F Fd n. inversion F as [| |? ? Lo Fo]; subst. constructor; [rewrite upd_len; exact Lo|].
  intros k. rewrite nth_upd_cases. destruct (Nat.eqb o k && Nat.ltb o (length oct)); [exact Fd|apply Fo].
Qed.
Lemma free_node_any n m oct : free (Some (Node n oct)) -> free (Some (Node m oct)).
Proof. intros F. inversion F; subst. constructor; assumption. Qed.
Lemma free_empty8_node : free (Some (Node 0%Z empty8)).
Proof. constructor; [reflexivity|apply free_nth_empty8]. Qed.

(* the index lists of the children of a node: the child o against the rest *)
Lemma lvl_split p oct o : o < length oct ->
  Permutation (lvl p oct 0) (lvo (nth o oct None) (p ++ [o]) ++ lvl p (upd oct o None) 0).
Proof.
  intros Ho. pose proof (lvl_upd_perm p oct 0 o None Ho) as Q. cbn [Nat.add lvo app] in Q. apply Permutation_sym. exact Q.
Qed.
Lemma lvl_upd_split p oct o d : o < length oct ->
  Permutation (lvl p (upd oct o d) 0) (lvo d (p ++ [o]) ++ lvl p (upd oct o None) 0).
Proof.
  intros Ho. pose proof (lvl_split p (upd oct o d) o ltac:(rewrite upd_len; exact Ho)) as Q.
  rewrite nth_upd_eq in Q by exact Ho. rewrite upd_upd_same in Q. exact Q.
Qed.
Lemma in_rest_other p oct o k r i : k <> o -> k < length oct -> In (r, i) (lvo (nth k oct None) (p ++ [k])) ->
  In (r, i) (lvl p (upd oct o None) 0).
Proof.
  intros Hk Hl H. apply (lvl_in_conv p (upd oct o None) 0 k); [rewrite upd_len; exact Hl|]. cbn [Nat.add].
  rewrite nth_upd_ne by (intro; apply Hk; congruence). exact H.
Qed.
Lemma in_rest_inv p oct o r i : In (r, i) (lvl p (upd oct o None) 0) ->
  exists k, k <> o /\ k < length oct /\ In (r, i) (lvo (nth k oct None) (p ++ [k])).
Proof.
  intros H. apply lvl_in in H. destruct H as (k & Hk & Hin). cbn [Nat.add] in Hin. rewrite upd_len in Hk.
  destruct (Nat.eq_dec k o) as [e|ne].
  - subst k. rewrite nth_upd_eq in Hin by exact Hk. destruct Hin.
  - rewrite nth_upd_ne in Hin by (intro; apply ne; congruence). exists k. auto.
Qed.

(* ---- data facts about one insertion below a real cell (p <> []) ---- *)
Lemma padd_data : forall fuel p t P pt t' P', p <> [] -> free t -> padd fuel p t P pt = Some (t', P') ->
  pbp P pt = [] -> ~ In pt (idx t p) -> pbp P' pt <> [] ->
  free t' /\ length P' = length P /\ (forall j, px P' j = px P j) /\
  Permutation (idx t' p) (pt :: idx t p) /\
  (forall j, j <> pt -> ~ In j (idx t p) -> pbp P' j = pbp P j) /\
  (pt < length P -> ~ In pt (idx t p) -> NoDup (idx t p) -> BP P t p -> BP P' t' p).
Proof.
  induction fuel as [|f IH]; intros p t P pt t' P' Hp Hfree H Hclr Hfresh Hins.
  - destruct t as [[q|n oct]|]; cbn in H; try discriminate. injection H as <- <-.
    split; [constructor|]. split; [apply len_setbp|]. split; [intro; apply px_setbp|]. split; [apply Permutation_refl|].
    split; [intros j Hj _; apply pbp_setbp_other; congruence|].
    intros Hpt _ _ _ r i Hin. cbn in Hin. destruct Hin as [Hin|[]]. injection Hin as <- <-.
    split; [apply pbp_setbp_same; exact Hpt|rewrite len_setbp; exact Hpt].
  - destruct t as [[q|n oct]|].
    + (* a leaf is split *)
      cbn [PathModel.padd] in H.
      set (o1 := octf p (px P q)) in *. set (o2 := octf p (px P pt)) in *.
      destruct (Nat.eqb o1 o2 && same (px P pt) (px P q)) eqn:G; [injection H as <- <-; congruence|].
      set (oct0 := upd empty8 o1 (Some (Leaf q))) in *. set (P1 := setbp P q (p ++ [o1])) in *.
      destruct (padd f (p ++ [o2]) (nth o2 oct0 None) P1 pt) as [[d P2]|] eqn:A; [|discriminate].
      injection H as <- <-.
      assert (Hqpt0 : q <> pt) by (intro e; apply Hfresh; unfold idx; cbn; left; exact e).
      assert (Hclr1 : pbp P1 pt = []) by (unfold P1; rewrite pbp_setbp_other by exact Hqpt0; exact Hclr).
      assert (Ho1 : o1 < 8) by (apply Hoct8; exact Hp). assert (Ho2 : o2 < 8) by (apply Hoct8; exact Hp).
      assert (L0 : length oct0 = 8) by (unfold oct0; rewrite upd_len; reflexivity).
      assert (Hp2 : p ++ [o2] <> []) by (destruct p; discriminate).
      assert (Fc : free (nth o2 oct0 None)).
      { unfold oct0. rewrite nth_upd_cases. destruct (Nat.eqb o1 o2 && Nat.ltb o1 (length empty8)); [constructor|apply free_nth_empty8]. }
      assert (Hfresh1 : ~ In pt (idx (nth o2 oct0 None) (p ++ [o2]))).
      { unfold oct0. rewrite nth_upd_cases. destruct (Nat.eqb o1 o2 && Nat.ltb o1 (length empty8)); [cbn; intros [e|[]]; congruence|rewrite nth_empty8; cbn; tauto]. }
      destruct (IH _ _ _ _ _ _ Hp2 Fc A Hclr1 Hfresh1 Hins) as (Fd & Ld & Xd & Pd & Bf & Bx).
      assert (F0 : free (Some (Node 0%Z oct0))).
      { unfold oct0. apply free_upd; [apply free_empty8_node|constructor]. }
      (* leaves of oct0: just q in octant o1 *)
      assert (S0 : Permutation (lvl p oct0 0) [(p ++ [o1], q)]).
      { unfold oct0. eapply Permutation_trans; [apply lvl_upd_split; cbn; lia|].
        cbn [lvo lvc]. assert (E : lvl p (upd empty8 o1 None) 0 = []).
        { assert (E' : upd empty8 o1 None = empty8).
          { clear -Ho1. do 8 (destruct o1 as [|o1]; [reflexivity|]). lia. }
          rewrite E'. reflexivity. }
        rewrite E. apply Permutation_refl. }
      assert (Sn : Permutation (lvl p (upd oct0 o2 d) 0) (lvo d (p ++ [o2]) ++ lvl p (upd oct0 o2 None) 0))
        by (apply lvl_upd_split; lia).
      assert (So : Permutation (lvl p oct0 0) (lvo (nth o2 oct0 None) (p ++ [o2]) ++ lvl p (upd oct0 o2 None) 0))
        by (apply lvl_split; lia).
      split; [apply free_upd; assumption|]. split; [rewrite Ld; apply len_setbp|].
      split; [intro j; rewrite Xd; apply px_setbp|].
      split.
      { unfold idx in *. rewrite lvo_node. cbn [lvo lvc map].
        eapply Permutation_trans; [apply Permutation_map, Sn|]. rewrite map_app.
        eapply Permutation_trans; [apply Permutation_app_tail, Pd|]. cbn [app]. apply perm_skip.
        rewrite <- map_app. eapply Permutation_trans; [apply Permutation_map, Permutation_sym, So|].
        eapply Permutation_trans; [apply Permutation_map, S0|]. apply Permutation_refl. }
      split.
      { intros j Hj Hn. unfold idx in Hn. cbn in Hn. rewrite Bf; [apply pbp_setbp_other; tauto|exact Hj|].
        intro Hin. unfold idx in Hin. apply Hn. left. symmetry.
        apply in_map_iff in Hin. destruct Hin as ((r & i) & Ei & Hin). cbn in Ei. subst i.
        assert (In (r, j) (lvl p oct0 0)) by (eapply Permutation_in; [apply Permutation_sym, So|apply in_or_app; left; exact Hin]).
        apply (Permutation_in _ S0) in H. destruct H as [H|[]]. congruence. }
      { intros Hpt Hni _ HB. unfold idx in Hni. cbn in Hni.
        assert (Hq : q < length P) by (destruct (HB p q (or_introl eq_refl)) as [_ ?]; assumption).
        assert (Hqpt : q <> pt) by tauto.
        assert (HB1 : BP P1 (nth o2 oct0 None) (p ++ [o2])).
        { intros r i Hin.
          assert (H0 : In (r, i) (lvl p oct0 0)) by (eapply Permutation_in; [apply Permutation_sym, So|apply in_or_app; left; exact Hin]).
          apply (Permutation_in _ S0) in H0. destruct H0 as [H0|[]]. injection H0 as <- <-.
          unfold P1. split; [apply pbp_setbp_same; exact Hq|rewrite len_setbp; exact Hq]. }
        assert (Hc : idx (nth o2 oct0 None) (p ++ [o2]) = [] \/ idx (nth o2 oct0 None) (p ++ [o2]) = [q]).
        { unfold oct0. rewrite nth_upd_cases. destruct (Nat.eqb o1 o2 && Nat.ltb o1 (length empty8)); [right; reflexivity|left; rewrite nth_empty8; reflexivity]. }
        assert (HBd : BP P2 d (p ++ [o2])).
        { apply Bx; [unfold P1; rewrite len_setbp; exact Hpt| | |exact HB1].
          - destruct Hc as [E|E]; rewrite E; cbn; tauto.
          - destruct Hc as [E|E]; rewrite E; repeat constructor; auto. }
        intros r i Hin. rewrite lvo_node in Hin. apply (Permutation_in _ Sn) in Hin. apply in_app_or in Hin. destruct Hin as [Hin|Hin].
        - apply HBd. exact Hin.
        - (* the resident q stayed in octant o1 <> o2 *)
          apply in_rest_inv in Hin. destruct Hin as (k & Hk & Hkl & Hin). unfold oct0 in Hin.
          rewrite nth_upd_cases in Hin. destruct (Nat.eqb o1 k && Nat.ltb o1 (length empty8)) eqn:E.
          + apply andb_prop in E. destruct E as [E _]. apply Nat.eqb_eq in E. subst k. cbn in Hin. destruct Hin as [Hin|[]].
            injection Hin as <- <-. rewrite Ld. split; [|unfold P1; rewrite len_setbp; exact Hq].
            rewrite Bf; [unfold P1; apply pbp_setbp_same; exact Hq|exact Hqpt|].
            destruct Hc as [E|E]; rewrite E; [tauto|]. intros [e|[]].
            (* q in child o2 means o1 = o2 *)
            unfold oct0 in E. rewrite nth_upd_cases in E. destruct (Nat.eqb o1 o2 && Nat.ltb o1 (length empty8)) eqn:E2.
            * apply andb_prop in E2. destruct E2 as [E2 _]. apply Nat.eqb_eq in E2. congruence.
            * rewrite nth_empty8 in E. discriminate.
          + rewrite nth_empty8 in Hin. destruct Hin. }
    + (* descend into a node *)
      cbn [PathModel.padd] in H. set (o := octf p (px P pt)) in *.
      destruct (padd f (p ++ [o]) (nth o oct None) P pt) as [[d P1]|] eqn:A; [|discriminate].
      destruct (pbp P1 pt) as [|b0 bs] eqn:Ebp; injection H as <- <-; [congruence|].
      assert (Ho : o < 8) by (apply Hoct8; exact Hp).
      inversion Hfree as [| |? ? Lo Fo]; subst.
      assert (Hp2 : p ++ [o] <> []) by (destruct p; discriminate).
      assert (Hfresh1 : ~ In pt (idx (nth o oct None) (p ++ [o]))).
      { intro Hin. apply Hfresh. unfold idx in *. rewrite lvo_node.
        eapply Permutation_in; [apply Permutation_map, Permutation_sym, (lvl_split p oct o); lia|]. rewrite map_app. apply in_or_app. left. exact Hin. }
      destruct (IH _ _ _ _ _ _ Hp2 (Fo o) A Hclr Hfresh1 ltac:(congruence)) as (Fd & Ld & Xd & Pd & Bf & Bx).
      assert (Sn : Permutation (lvl p (upd oct o d) 0) (lvo d (p ++ [o]) ++ lvl p (upd oct o None) 0)) by (apply lvl_upd_split; lia).
      assert (So : Permutation (lvl p oct 0) (lvo (nth o oct None) (p ++ [o]) ++ lvl p (upd oct o None) 0)) by (apply lvl_split; lia).
      split; [apply free_upd; [eapply free_node_any; exact Hfree|exact Fd]|]. split; [exact Ld|]. split; [exact Xd|].
      split.
      { unfold idx in *. rewrite !lvo_node.
        eapply Permutation_trans; [apply Permutation_map, Sn|]. rewrite map_app.
        eapply Permutation_trans; [apply Permutation_app_tail, Pd|]. cbn [app]. apply perm_skip.
        rewrite <- map_app. apply Permutation_map, Permutation_sym, So. }
      split.
      { intros j Hj Hn. apply Bf; [exact Hj|]. intro Hin. apply Hn. unfold idx in *. rewrite lvo_node.
        eapply Permutation_in; [apply Permutation_map, Permutation_sym, So|]. rewrite map_app. apply in_or_app. left. exact Hin. }
      { intros Hpt Hni ND HB. unfold idx in Hni, ND. rewrite lvo_node in Hni, ND.
        assert (NDs : NoDup (map snd (lvo (nth o oct None) (p ++ [o])) ++ map snd (lvl p (upd oct o None) 0))).
        { rewrite <- map_app. eapply Permutation_NoDup; [apply Permutation_map, So|exact ND]. }
        assert (Hsub : forall r i, In (r, i) (lvo (nth o oct None) (p ++ [o])) -> In (r, i) (lvo (Some (Node n oct)) p)).
        { intros r i Hin. rewrite lvo_node. eapply Permutation_in; [apply Permutation_sym, So|apply in_or_app; left; exact Hin]. }
        assert (HBd : BP P1 d (p ++ [o])).
        { apply Bx; [exact Hpt| | |].
          - intro Hin. apply Hni. eapply Permutation_in; [apply Permutation_map, Permutation_sym, So|]. rewrite map_app. apply in_or_app. left. exact Hin.
          - apply nodup_app_l in NDs. exact NDs.
          - intros r i Hin. apply HB. apply Hsub. exact Hin. }
        intros r i Hin. rewrite lvo_node in Hin. apply (Permutation_in _ Sn) in Hin. apply in_app_or in Hin. destruct Hin as [Hin|Hin].
        - apply HBd. exact Hin.
        - assert (Hold : In (r, i) (lvo (Some (Node n oct)) p)).
          { rewrite lvo_node. eapply Permutation_in; [apply Permutation_sym, So|apply in_or_app; right; exact Hin]. }
          destruct (HB r i Hold) as [B1 B2]. rewrite Ld. split; [|exact B2]. rewrite Bf; [exact B1| |].
          + intro e. subst i. apply Hni. eapply Permutation_in; [apply Permutation_map, Permutation_sym, So|]. rewrite map_app.
            apply in_or_app. right. apply in_map_iff. exists (r, pt). split; [reflexivity|exact Hin].
          + intro Hc. assert (Hr : In i (map snd (lvl p (upd oct o None) 0))) by (apply in_map_iff; exists (r, i); split; [reflexivity|exact Hin]).
            clear - NDs Hc Hr. unfold idx in Hc. induction (map snd (lvo (nth o oct None) (p ++ [o]))) as [|a l IHl]; [destruct Hc|].
            cbn in NDs. inversion NDs; subst. destruct Hc as [<-|Hc]; [apply H1; apply in_or_app; right; exact Hr|apply IHl; assumption]. }
    + rewrite padd_none in H. injection H as <- <-.
      split; [constructor|]. split; [apply len_setbp|]. split; [intro; apply px_setbp|]. split; [apply Permutation_refl|].
      split; [intros j Hj _; apply pbp_setbp_other; congruence|].
      intros Hpt _ _ _ r i Hin. cbn in Hin. destruct Hin as [Hin|[]]. injection Hin as <- <-.
      split; [apply pbp_setbp_same; exact Hpt|rewrite len_setbp; exact Hpt].
Qed.

(* splitting a leaf whose resident has other coordinates always inserts the new particle (it is never refused deeper) *)
Lemma padd_leaf_inserts : forall fuel p q P pt t' P', padd fuel p (Some (Leaf q)) P pt = Some (t', P') ->
  same (px P pt) (px P q) = false -> q <> pt -> pt < length P -> p <> [] -> pbp P' pt <> [].
Proof.
  induction fuel as [|f IH]; intros p q P pt t' P' H Hs Hq Hl Hp; cbn [PathModel.padd] in H; [discriminate|].
  rewrite Hs, andb_false_r in H.
  set (o1 := octf p (px P q)) in *. set (o2 := octf p (px P pt)) in *.
  set (oct0 := upd empty8 o1 (Some (Leaf q))) in *. set (P1 := setbp P q (p ++ [o1])) in *.
  destruct (padd f (p ++ [o2]) (nth o2 oct0 None) P1 pt) as [[d P2]|] eqn:A; [|discriminate].
  injection H as <- <-.
  assert (Hp2 : p ++ [o2] <> []) by (destruct p; discriminate).
  unfold oct0 in A. rewrite nth_upd_cases in A. destruct (Nat.eqb o1 o2 && Nat.ltb o1 (length empty8)).
  - eapply IH; [exact A| | | |exact Hp2].
    + unfold P1. rewrite !px_setbp. exact Hs.
    + exact Hq.
    + unfold P1. rewrite len_setbp. exact Hl.
  - rewrite nth_empty8, padd_none in A. injection A as <- <-.
    rewrite pbp_setbp_same by (unfold P1; rewrite len_setbp; exact Hl). exact Hp2.
Qed.

(* a refused insertion (the back pointer of the new particle is still NULL) changed nothing *)
Lemma padd_refused : forall fuel p t P pt t' P', p <> [] -> padd fuel p t P pt = Some (t', P') ->
  ~ In pt (idx t p) -> pt < length P -> pbp P' pt = [] -> t' = t /\ P' = P.
Proof.
  induction fuel as [|f IH]; intros p t P pt t' P' Hp H Hfresh Hl Hnil.
  - destruct t as [[q|n oct]|]; cbn in H; try discriminate. injection H as <- <-.
    rewrite pbp_setbp_same in Hnil by exact Hl. congruence.
  - destruct t as [[q|n oct]|].
    + assert (Hq : q <> pt) by (intro e; apply Hfresh; unfold idx; cbn; left; exact e).
      pose proof H as H0. cbn [PathModel.padd] in H.
      destruct (Nat.eqb (octf p (px P q)) (octf p (px P pt)) && same (px P pt) (px P q)) eqn:G; [injection H as <- <-; auto|].
      exfalso. destruct (same (px P pt) (px P q)) eqn:Es.
      * rewrite andb_true_r in G.
        (* different octants: the new particle gets its own leaf *)
        set (o1 := octf p (px P q)) in *. set (o2 := octf p (px P pt)) in *.
        set (oct0 := upd empty8 o1 (Some (Leaf q))) in *. set (P1 := setbp P q (p ++ [o1])) in *.
        destruct (padd f (p ++ [o2]) (nth o2 oct0 None) P1 pt) as [[d P2]|] eqn:A; [|discriminate].
        injection H as <- <-. unfold oct0 in A. rewrite nth_upd_cases in A. rewrite G in A. cbn [andb] in A.
        rewrite nth_empty8, padd_none in A. injection A as <- <-.
        rewrite pbp_setbp_same in Hnil by (unfold P1; rewrite len_setbp; exact Hl). destruct p; discriminate.
      * apply (padd_leaf_inserts (S f) p q P pt t' P' H0 Es Hq Hl Hp). exact Hnil.
    + cbn [PathModel.padd] in H. set (o := octf p (px P pt)) in *.
      destruct (padd f (p ++ [o]) (nth o oct None) P pt) as [[d P1]|] eqn:A; [|discriminate].
      destruct (pbp P1 pt) as [|b0 bs] eqn:Ebp; injection H as <- <-; [|congruence].
      assert (Ho : o < 8) by (apply Hoct8; exact Hp).
      destruct (Nat.lt_ge_cases o (length oct)) as [Hol|Hol].
      * assert (Hfresh1 : ~ In pt (idx (nth o oct None) (p ++ [o]))).
        { intro Hin. apply Hfresh. unfold idx in *. rewrite lvo_node.
          eapply Permutation_in; [apply Permutation_map, Permutation_sym, (lvl_split p oct o); exact Hol|]. rewrite map_app. apply in_or_app. left. exact Hin. }
        destruct (IH (p ++ [o]) _ P pt d P1 ltac:(destruct p; discriminate) A Hfresh1 Hl Ebp) as [_ EP]. split; [reflexivity|exact EP].
      * rewrite nth_overflow in A by exact Hol. rewrite padd_none in A. injection A as <- <-.
        rewrite pbp_setbp_same in Ebp by exact Hl. destruct p; discriminate.
    + rewrite padd_none in H. injection H as <- <-. rewrite pbp_setbp_same in Hnil by exact Hl. congruence.
Qed.
End PB.
