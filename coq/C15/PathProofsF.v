(* C15 round 4: every step of the walk preserves "accounted + invariant"; main theorem about reb_simulation_update_tree. *)
From Coq Require Import ZArith List Bool Lia Permutation Arith.
From RV Require Import Common.Num C15.Tree C15.TreeProofs C15.GravityProofs C15.PathModel C15.PathSpec
  C15.PathProofsA C15.PathProofsB C15.PathProofsC C15.PathProofsD C15.PathProofsE.
Import ListNotations.
Close Scope Z_scope.
Open Scope nat_scope.

Lemma perm_seq_S n l : Permutation (n :: l) (seq 0 (S n)) <-> Permutation l (seq 0 n).
Proof.
  rewrite seq_S. cbn [Nat.add]. split; intro H.
  - apply Permutation_cons_inv with (a := n). eapply Permutation_trans; [exact H|]. apply Permutation_sym, Permutation_cons_append.
  - eapply Permutation_trans; [apply perm_skip, H|]. apply Permutation_cons_append.
Qed.

Section PF.
Variable X : Type.
Variable xd : X.
Variable ins : path -> X -> bool.
Variable octf : path -> X -> nat.
Variable same : X -> X -> bool.
Variable flg : X -> bool.
Variable L : nat.
Variable nroot : nat.
Variable okx : X -> Prop.
Notation parts := (parts X).
Notation pst := (pst X).
Notation px := (px X xd).
Notation pbp := (pbp X xd).
Notation setbp := (setbp X xd).
Notation put := (put X).
Notation padd := (padd X xd octf same).
Notation psim_add := (psim_add X xd ins octf same L).
Notation pupd := (pupd X xd ins octf same flg L).
Notation unlink := (unlink X).
Notation full := (full X xd ins L).
Notation inv := (inv X xd ins L nroot).
Notation Acc := (Acc X xd).
Notation Pok := (Pok X xd okx).
Notation BP := (BP X xd).
Hypothesis okx_d : okx xd.
Hypothesis Hoct8 : forall p x, p <> [] -> octf p x < 8.
Hypothesis Hoct0 : forall x, okx x -> ins [] x = true -> octf [] x < nroot.
Hypothesis Hroute : forall p x, okx x -> length p <= L -> ins p x = true -> ins (p ++ [octf p x]) x = true.
Hypothesis Hup : forall p o x, p <> [] -> length p <= L -> ins (p ++ [o]) x = true -> ins p x = true.

(* ---- consequences of Acc ---- *)
Lemma Acc_BP st : Acc st -> BP (sP X st) (sF X st) [].
Proof.
  intros (Pm & Hb & Hn) r i Hin. split; [apply Hb; exact Hin|].
  assert (In i (seq 0 (sN X st))).
  { eapply Permutation_in; [exact Pm|]. apply in_map_iff. exists (r, i). split; [reflexivity|exact Hin]. }
  apply in_seq in H. lia.
Qed.
Lemma Acc_lt st r i : Acc st -> In (r, i) (lvo (sF X st) []) -> i < sN X st.
Proof.
  intros (Pm & _ & _) Hin. assert (In i (seq 0 (sN X st))).
  { eapply Permutation_in; [exact Pm|]. apply in_map_iff. exists (r, i). split; [reflexivity|exact Hin]. }
  apply in_seq in H. lia.
Qed.
Lemma Acc_nodup st : Acc st -> NoDup (map snd (lvo (sF X st) [])).
Proof. intros (Pm & _ & _). eapply Permutation_NoDup; [apply Permutation_sym; exact Pm|apply seq_NoDup]. Qed.
Lemma Acc_find st i : Acc st -> i < sN X st -> exists r, In (r, i) (lvo (sF X st) []) /\ pbp (sP X st) i = r /\ tget (sF X st) r = Some (Leaf i).
Proof.
  intros A Hi. destruct A as (Pm & Hb & Hn).
  assert (In i (map snd (lvo (sF X st) []))) by (eapply Permutation_in; [apply Permutation_sym; exact Pm|apply in_seq; lia]).
  apply in_map_iff in H. destruct H as ((r & i') & E & Hin). cbn in E. subst i'.
  exists r. split; [exact Hin|]. split; [apply Hb; exact Hin|].
  destruct (lv_tget _ _ _ _ Hin) as (s & -> & Hs). exact Hs.
Qed.

Lemma setbp_same P i : i < length P -> setbp P i (pbp P i) = P.
Proof.
  intros H. unfold PathModel.setbp, PathModel.px, PathModel.pbp. rewrite <- surjective_pairing. apply upd_same_nth.
Qed.

(* ---- put ---- *)
Lemma put_len P n v : n <= length P -> n < length (put P n v).
Proof. intros H. unfold PathModel.put. destruct (Nat.ltb n (length P)) eqn:E; [rewrite upd_len; apply Nat.ltb_lt; exact E|rewrite app_length; cbn; lia]. Qed.
Lemma put_nth_other P n v i : n <= length P -> i <> n -> nth i (put P n v) (xd, []) = nth i P (xd, []).
Proof.
  intros H Hi. unfold PathModel.put. destruct (Nat.ltb n (length P)) eqn:E.
  - rewrite nth_upd_ne by (intro; apply Hi; congruence). reflexivity.
  - apply Nat.ltb_ge in E. assert (n = length P) by lia. subst n.
    destruct (Nat.lt_ge_cases i (length P)) as [h|h]; [rewrite app_nth1 by exact h; reflexivity|].
    rewrite !nth_overflow; [reflexivity|lia|rewrite app_length; cbn; lia].
Qed.
Lemma put_nth_same P n v : n <= length P -> nth n (put P n v) (xd, []) = v.
Proof.
  intros H. unfold PathModel.put. destruct (Nat.ltb n (length P)) eqn:E.
  - apply Nat.ltb_lt in E. rewrite nth_upd_eq by exact E. reflexivity.
  - apply Nat.ltb_ge in E. assert (n = length P) by lia. subst n. rewrite app_nth2 by lia. rewrite Nat.sub_diag. reflexivity.
Qed.

(* ---- reb_simulation_add during the walk ---- *)
Lemma psim_add_spec : forall st x st2 k pi, psim_add st x = Some st2 -> okx x -> Acc st ->
  inv (sP X st) (k :: pi) (sF X st) [] -> Pok (sP X st) ->
  Acc st2 /\ inv (sP X st2) (k :: pi) (sF X st2) [] /\ Pok (sP X st2).
Proof.
  intros st x st2 k pi H Hx A I Hok. unfold PathModel.psim_add in H.
  destruct (ins [] x) eqn:Hin; cbn [negb] in H; [|injection H as <-; auto].
  destruct st as [F P n]. cbn [sF sP sN] in *.
  pose proof A as (Pm & Hb & Hn). cbn [sF sP sN] in Pm, Hb, Hn.
  set (P0 := put P n (x, [])) in *.
  assert (X0 : forall i, i <> n -> px P0 i = px P i) by (intros i Hi; unfold PathModel.px, P0; rewrite put_nth_other by assumption; reflexivity).
  assert (B0 : forall i, i <> n -> pbp P0 i = pbp P i) by (intros i Hi; unfold PathModel.pbp, P0; rewrite put_nth_other by assumption; reflexivity).
  assert (Xn : px P0 n = x) by (unfold PathModel.px, P0; rewrite put_nth_same by exact Hn; reflexivity).
  assert (L0 : n < length P0) by (apply put_len; exact Hn).
  assert (Hclr : pbp P0 n = []) by (unfold PathModel.pbp, P0; rewrite put_nth_same by exact Hn; reflexivity).
  assert (Hlt : forall r i, In (r, i) (lvo F []) -> i < n) by (intros r i Hi; apply (Acc_lt (mkS X F P n) r i A Hi)).
  assert (Hok0 : Pok P0).
  { intro i. destruct (Nat.eq_dec i n) as [e|ne]; [subst i; rewrite Xn; exact Hx|rewrite X0 by exact ne; apply Hok]. }
  assert (I0 : inv P0 (k :: pi) F []).
  { eapply simt_inv; [|exact I]. apply simt_refl. intros i Hi. apply X0.
    rewrite <- (idx_leaves F []) in Hi. apply in_map_iff in Hi. destruct Hi as ((r & i') & E & Hi). cbn in E. subst i'.
    pose proof (Hlt r i Hi). lia. }
  clearbody P0. inversion I0 as [|? ? n0 roots ? Lo Fl Ik Fr EF]. subst F.
  cbn [PathModel.padd] in H. rewrite Xn in H. set (o := octf [] x) in *.
  destruct (padd L ([] ++ [o]) (nth o roots None) P0 n) as [[d P1]|] eqn:Ad; [|discriminate].
  cbn [app] in Ad.
  assert (Hfresh : ~ In n (idx (nth o roots None) [o])).
  { intro Hi. unfold idx in Hi. apply in_map_iff in Hi. destruct Hi as ((r & i) & E & Hi). cbn in E. subst i.
    destruct (Nat.lt_ge_cases o (length roots)) as [Hol|Hol]; [|rewrite nth_overflow in Hi by exact Hol; destruct Hi].
    assert (Hi' : In (r, n) (lvo (Some (Node n0 roots)) [])).
    { rewrite lvo_node. apply (lvl_in_conv [] roots 0 o); [exact Hol|exact Hi]. }
    pose proof (Hlt r n Hi'). lia. }
  destruct (pbp P1 n) as [|b0 bs] eqn:Ebp.
  { (* refused (identical coordinates): nothing changed but the unused slot n of the particle array *)
    assert (Ho' : o < nroot) by (apply Hoct0; assumption).
    destruct (padd_refused X xd octf same Hoct8 L [o] _ P0 n d P1 ltac:(discriminate) Ad Hfresh L0 Ebp) as [-> ->].
    rewrite Ebp in H. injection H as <-. cbn [sF sP sN].
    split; [|split; [exact I0|exact Hok0]].
    split; [|split]; cbn [sF sP sN].
    - exact Pm.
    - intros r i Hi. pose proof (Hlt r i Hi). rewrite B0 by lia. apply Hb. exact Hi.
    - lia. }
  assert (Hins : pbp P1 n <> []) by congruence.
  rewrite Ebp in H. injection H as <-. cbn [sF sP sN].
  assert (Ho : o < nroot) by (apply Hoct0; assumption).
  assert (Hin1 : ins [o] (px P0 n) = true) by (rewrite Xn; apply (Hroute [] x Hx); [cbn; lia|exact Hin]).
  assert (Hne : [o] <> []) by discriminate.
  assert (Hf : L + length [o] = S L) by (cbn; lia).
  assert (Fc : free (nth o roots None)).
  { destruct (lt_eq_lt_dec o k) as [[h|h]|h].
    - eapply full_free. apply Fl. exact h.
    - rewrite h. eapply inv_free; [exact Ik|discriminate].
    - apply Fr. exact h. }
  destruct (padd_data X xd octf same Hoct8 L [o] _ P0 n d P1 Hne Fc Ad Hclr Hfresh Hins) as (Fd & Ld & Xd & Pd & Bf & Bx).
  assert (Sn : Permutation (lvl [] (upd roots o d) 0) (lvo d [o] ++ lvl [] (upd roots o None) 0)) by (apply (lvl_upd_split [] roots o d); lia).
  assert (So : Permutation (lvl [] roots 0) (lvo (nth o roots None) [o] ++ lvl [] (upd roots o None) 0)) by (apply (lvl_split [] roots o); lia).
  rewrite lvo_node in Pm.
  split; [|split].
  - (* Acc *)
    split; [|split]; cbn [sF sP sN].
    + rewrite lvo_node. eapply Permutation_trans; [|apply (proj2 (perm_seq_S n (map snd (lvl [] roots 0)))); exact Pm].
      eapply Permutation_trans; [apply Permutation_map, Sn|]. rewrite map_app.
      eapply Permutation_trans; [apply Permutation_app_tail, Pd|]. cbn [app]. apply perm_skip.
      unfold idx. rewrite <- map_app. apply Permutation_map, Permutation_sym, So.
    + assert (NDs : NoDup (map snd (lvo (nth o roots None) [o]) ++ map snd (lvl [] (upd roots o None) 0))).
      { rewrite <- map_app. eapply Permutation_NoDup; [apply Permutation_map, So|]. eapply Permutation_NoDup; [apply Permutation_sym; exact Pm|apply seq_NoDup]. }
      assert (HBc : BP P0 (nth o roots None) [o]).
      { intros r i Hi. assert (Hi' : In (r, i) (lvo (Some (Node n0 roots)) [])).
        { rewrite lvo_node. eapply Permutation_in; [apply Permutation_sym, So|apply in_or_app; left; exact Hi]. }
        pose proof (Hlt r i Hi'). split; [rewrite B0 by lia; apply Hb; exact Hi'|lia]. }
      assert (HBd : BP P1 d [o]).
      { apply Bx; [exact L0| |eapply nodup_app_l; exact NDs|exact HBc].
        intro Hi. unfold idx in Hi. apply in_map_iff in Hi. destruct Hi as ((r & i) & E & Hi). cbn in E. subst i.
        assert (Hi' : In (r, n) (lvo (Some (Node n0 roots)) [])).
        { rewrite lvo_node. eapply Permutation_in; [apply Permutation_sym, So|apply in_or_app; left; exact Hi]. }
        pose proof (Hlt r n Hi'). lia. }
      intros r i Hi. rewrite lvo_node in Hi. apply (Permutation_in _ Sn) in Hi. apply in_app_or in Hi. destruct Hi as [Hi|Hi].
      * apply HBd. exact Hi.
      * assert (Hi' : In (r, i) (lvo (Some (Node n0 roots)) [])).
        { rewrite lvo_node. eapply Permutation_in; [apply Permutation_sym, So|apply in_or_app; right; exact Hi]. }
        pose proof (Hlt r i Hi'). rewrite Bf; [rewrite B0 by lia; apply Hb; exact Hi'|lia|].
        intro Hc. eapply (NoDup_app_disj _ _ i NDs); [exact Hc|]. apply in_map_iff. exists (r, i). split; [reflexivity|exact Hi].
    + rewrite Ld. lia.
  - (* inv *)
    constructor.
    + rewrite upd_len. exact Lo.
    + intros j Hj. rewrite nth_upd_cases. destruct (Nat.eqb o j && Nat.ltb o (length roots)) eqn:E.
      * apply andb_prop in E. destruct E as [E _]. apply Nat.eqb_eq in E. subst j.
        eapply (padd_full X xd ins octf same L okx Hoct8 Hroute); [exact Hne|exact Ad|exact Hclr|exact Hfresh|exact Hins|apply Fl; exact Hj|exact Hok0|exact Hin1|exact Hf].
      * eapply full_ext; [exact Xd|apply Fl; exact Hj].
    + rewrite nth_upd_cases. destruct (Nat.eqb o k && Nat.ltb o (length roots)) eqn:E.
      * apply andb_prop in E. destruct E as [E _]. apply Nat.eqb_eq in E. rewrite <- E in *. cbn [app] in *.
        eapply (padd_inv X xd ins octf same L nroot okx Hoct8 Hroute); [exact Hne|exact Ad|exact Hclr|exact Hfresh|exact Hins|exact Ik|exact Hok0|exact Hin1|exact Hf].
      * eapply inv_ext; [exact Xd|exact Ik].
    + intros j Hj. rewrite nth_upd_cases. destruct (Nat.eqb o j && Nat.ltb o (length roots)) eqn:E.
      * apply andb_prop in E. destruct E as [E _]. apply Nat.eqb_eq in E. subst j. exact Fd.
      * apply Fr. exact Hj.
  - intro i. rewrite Xd. apply Hok0.
Qed.
End PF.
