(* C15 round 4, definitions only: the invariants of the walk of the path model (C15/PathModel.v). *)
From Coq Require Import ZArith List Bool Permutation.
From RV Require Import Common.Num C15.Tree C15.PathModel.
Import ListNotations.
Open Scope Z_scope.

(* leaves with their paths *)
Fixpoint lvc (c : cell) (p : path) : list (path * nat) :=
  match c with
  | Leaf q => [(p, q)]
  | Node _ oct =>
      (fix go (l : list (option cell)) (o : nat) : list (path * nat) :=
         match l with
         | [] => []
         | d :: r => (match d with None => [] | Some c' => lvc c' (p ++ [o]) end) ++ go r (S o)
         end) oct 0%nat
  end.
Fixpoint lvl (p : path) (l : list (option cell)) (o : nat) : list (path * nat) :=
  match l with
  | [] => []
  | d :: r => (match d with None => [] | Some c => lvc c (p ++ [o]) end) ++ lvl p r (S o)
  end.
Definition lvo (t : option cell) (p : path) : list (path * nat) := match t with None => [] | Some c => lvc c p end.

(* all inner nodes have 8 children *)
Inductive free : option cell -> Prop :=
| free_none : free None
| free_leaf : forall q, free (Some (Leaf q))
| free_node : forall n oct, length oct = 8%nat -> (forall o, free (nth o oct None)) -> free (Some (Node n oct)).

Section Spec.
Variable X : Type.
Variable xd : X.
Variable ins : path -> X -> bool.
Variable L : nat.
Variable nroot : nat.
Notation parts := (parts X).
Notation px := (px X xd).
Notation pbp := (pbp X xd).

(* every particle index below N sits in exactly one leaf, and its back pointer is the path of that leaf *)
Definition Acc (st : pst X) : Prop :=
  Permutation (map snd (lvo (sF X st) [])) (seq 0 (sN X st)) /\
  (forall q i, In (q, i) (lvo (sF X st) []) -> pbp (sP X st) i = q) /\
  (sN X st <= length (sP X st))%nat.

(* the subtree at path p is completely in order: every leaf's particle passes the inside test of its cell, every node
   has 8 children, an exact count >= 2, and is not deeper than the resolution *)
Inductive full (P : parts) : option cell -> path -> Prop :=
| full_none : forall p, full P None p
| full_leaf : forall q p, ins p (px P q) = true -> full P (Some (Leaf q)) p
| full_node : forall n oct p, length oct = 8%nat -> (length p <= L)%nat ->
    n = Z.of_nat (length (flat_map oleaves oct)) -> 2 <= n ->
    (forall o, full P (nth o oct None) (p ++ [o])) -> full P (Some (Node n oct)) p.

(* the walk is at stack position pi (relative to the subtree t at path p): children before the current index are
   full, the current child is in progress (recursively), later children and the cell being processed are only free *)
Inductive inv (P : parts) : list nat -> option cell -> path -> Prop :=
| inv_nil : forall t p, free t -> inv P [] t p
| inv_cons : forall k pi n oct p, length oct = (match p with [] => nroot | _ => 8%nat end) ->
    (forall o, (o < k)%nat -> full P (nth o oct None) (p ++ [o])) ->
    inv P pi (nth k oct None) (p ++ [k]) ->
    (forall o, (k < o)%nat -> free (nth o oct None)) ->
    inv P (k :: pi) (Some (Node n oct)) p.
End Spec.
