(* C15 round 4: main theorem about the in-place update (path model). *)
From Coq Require Import ZArith List Bool Lia Permutation Arith.
From RV Require Import Common.Num C15.Tree C15.TreeProofs C15.GravityProofs C15.PathModel C15.PathSpec
  C15.PathProofsA C15.PathProofsB C15.PathProofsC C15.PathProofsD C15.PathProofsE C15.PathProofsF C15.PathProofsG.
Import ListNotations.
Close Scope Z_scope.
Open Scope nat_scope.

(* the recount loop on children whose stored counts are exact *)
Definition cntok (d : option cell) : Prop :=
  match d with Some (Node n oct) => n = Z.of_nat (length (flat_map oleaves oct)) | _ => True end.
Lemma precount_gen : forall l c t o, (forall d, In d l -> cntok d) ->
  fst (fst (fold_left (fun (acc : Z * nat * nat) (d : option cell) =>
                    let '(cnt, test, o) := acc in
                    match d with
                    | None => (cnt, test, S o)
                    | Some (Leaf _) => ((cnt + 1)%Z, o, S o)
                    | Some (Node n _) => ((cnt + n)%Z, test, S o)
                    end) l (c, t, o))) = (c + Z.of_nat (length (flat_map oleaves l)))%Z.
Proof.
  induction l as [|d l IH]; intros c t o H; [cbn; lia|].
  cbn [fold_left flat_map]. rewrite app_length, Nat2Z.inj_add.
  assert (Hd : cntok d) by (apply H; left; reflexivity).
  assert (Hl : forall d0, In d0 l -> cntok d0) by (intros; apply H; right; assumption).
  destruct d as [[q|n oct]|]; rewrite IH by exact Hl.
  - cbn [oleaves leaves length]. lia.
  - cbn in Hd. cbn [oleaves]. rewrite leaves_node. lia.
  - cbn [oleaves length]. lia.
Qed.
Lemma precount_exact oct : (forall d, In d oct -> cntok d) -> fst (precount oct) = Z.of_nat (length (flat_map oleaves oct)).
Proof. intros H. unfold precount. rewrite precount_gen by exact H. lia. Qed.

Section PH.
Variable X : Type.
Variable xd : X.
Variable ins : path -> X -> bool.
Variable octf : path -> X -> nat.
Variable same : X -> X -> bool.
Variable flg : X -> bool.
Variable L : nat.
Variable nroot : nat.
Variable okx : X -> Prop.
Notation parts := (parts X).
Notation pst := (pst X).
Notation px := (px X xd).
Notation pbp := (pbp X xd).
Notation setbp := (setbp X xd).
Notation padd := (padd X xd octf same).
Notation psim_add := (psim_add X xd ins octf same L).
Notation pupd := (pupd X xd ins octf same flg L).
Notation unlink := (unlink X).
Notation full := (full X xd ins L).
Notation inv := (inv X xd ins L nroot).
Notation Acc := (Acc X xd).
Notation Pok := (Pok X xd okx).
Hypothesis okx_d : okx xd.
Hypothesis Hoct8 : forall p x, p <> [] -> octf p x < 8.
Hypothesis Hoct0 : forall x, okx x -> ins [] x = true -> octf [] x < nroot.
Hypothesis Hroute : forall p x, okx x -> length p <= L -> ins p x = true -> ins (p ++ [octf p x]) x = true.
Hypothesis Hup : forall p o x, p <> [] -> length p <= L -> ins (p ++ [o]) x = true -> ins p x = true.

Definition Inv (st : pst) (pi : list nat) : Prop :=
  Acc st /\ inv (sP X st) pi (sF X st) [] /\ Pok (sP X st).

Lemma full_cntok P d p : full P d p -> cntok d.
Proof. intros F. inversion F; subst; cbn; auto. Qed.

Lemma psim_add_commute : forall st1 x st2 pth q0, psim_add st1 x = Some st2 -> pth <> [] ->
  tget (sF X st1) pth = Some (Leaf q0) -> ins pth x = false -> okx x -> sN X st1 <= length (sP X st1) ->
  psim_add (unlink st1 pth) x = Some (unlink st2 pth).
Proof.
  intros st1 x st2 pth q0 H Hp Hg Hout Hx Hn. unfold PathModel.psim_add in *. cbn [PathModel.unlink sF sP sN].
  destruct (ins [] x) eqn:Hin; cbn [negb] in *; [|injection H as <-; reflexivity].
  destruct (padd (S L) [] (sF X st1) (PathModel.put X (sP X st1) (sN X st1) (x, [])) (sN X st1)) as [[F' P']|] eqn:A; [|discriminate].
  assert (Xn : px (PathModel.put X (sP X st1) (sN X st1) (x, [])) (sN X st1) = x).
  { unfold PathModel.px. rewrite (put_nth_same X xd) by exact Hn. reflexivity. }
  rewrite (padd_commute X xd ins octf same L okx Hroute (S L) [] _ _ _ F' P' pth q0 A Hp Hg);
    [destruct (PathModel.pbp X xd P' (sN X st1)); injection H as <-; reflexivity| | | |cbn; lia].
  - cbn [app]. rewrite Xn. exact Hout.
  - rewrite Xn. exact Hin.
  - rewrite Xn. exact Hx.
Qed.

Lemma unlink_unlink st pth : unlink (unlink st pth) pth = unlink st pth.
Proof. unfold PathModel.unlink. cbn [sF sP sN]. rewrite tset_tset. reflexivity. Qed.

(* Inv at stack s++[k] with the subtree at s++[k] replaced by NULL: the walk moves to k+1 *)
Lemma Inv_bump_none : forall st s k, Inv st (s ++ [k]) -> pathok (sF X st) (s ++ [k]) -> tget (sF X st) (s ++ [k]) = None ->
  Inv st (s ++ [S k]).
Proof.
  intros st s k (A & I & Hok) Hp Hg. split; [exact A|]. split; [|exact Hok].
  pose proof (inv_bump X xd ins L nroot (sP X st) s k [] (sF X st) [] None I Hp ltac:(constructor)) as Q.
  rewrite <- Hg in Q. rewrite tset_tget in Q. exact Q.
Qed.

(* state-independent: the indices of a path are below the widths (N_root at the top, 8 below) *)
Fixpoint okpb (top : bool) (s : path) : Prop :=
  match s with [] => True | o :: s' => o < (if top then nroot else 8) /\ okpb false s' end.
Definition okp (s : path) : Prop := okpb true s.
Lemma okpb_app top s1 s2 : okpb top (s1 ++ s2) <-> okpb top s1 /\ okpb (match s1 with [] => top | _ => false end) s2.
Proof. revert top. induction s1 as [|o s1 IH]; intro top; cbn; [tauto|]. rewrite IH. destruct s1; tauto. Qed.

Lemma inv_pathok : forall P s pi t p0, inv P (s ++ pi) t p0 -> okpb (match p0 with [] => true | _ => false end) s -> pathok t s.
Proof.
  intros P. induction s as [|o s IH]; intros pi t p0 I Hk; [exact Logic.I|].
  cbn [app] in I. inversion I as [|? ? n oct ? Lo Fl Ik Fr]; subst. cbn [okpb] in Hk. destruct Hk as [Ho Hk].
  cbn [pathok]. split; [rewrite Lo; destruct p0; exact Ho|].
  eapply IH; [exact Ik|]. destruct (p0 ++ [o]) eqn:E; [destruct p0; discriminate|exact Hk].
Qed.

Lemma Inv_pathok st s : Inv st s -> okp s -> pathok (sF X st) s.
Proof. intros (_ & I & _) H. eapply (inv_pathok _ s [] _ []); [rewrite app_nil_r; exact I|exact H]. Qed.

(* ---- a leaf that stays ---- *)
Lemma step_keep : forall st s k q, Inv st (s ++ [k]) -> okp (s ++ [k]) -> tget (sF X st) (s ++ [k]) = Some (Leaf q) ->
  ins (s ++ [k]) (px (sP X st) q) = true ->
  Inv (mkS X (sF X st) (setbp (sP X st) q (s ++ [k])) (sN X st)) (s ++ [S k]).
Proof.
  intros st s k q HI Hk Hg Hin. pose proof (Inv_pathok st _ HI Hk) as Hp. destruct HI as (A & I & Hok).
  pose proof (tget_lv (s ++ [k]) (sF X st) [] q Hg) as Hl. cbn [app] in Hl.
  destruct (Acc_BP X xd st A _ _ Hl) as [Hb Hq]. rewrite <- Hb. rewrite (setbp_same X xd) by exact Hq.
  destruct st as [F P N]. cbn [sF sP sN] in *. split; [exact A|]. split; [|exact Hok].
  pose proof (inv_bump X xd ins L nroot P s k [] F [] (Some (Leaf q)) I Hp ltac:(constructor; exact Hin)) as Q.
  rewrite <- Hg in Q. rewrite tset_tget in Q. exact Q.
Qed.

(* ---- a leaf that is vacated: swap-removal, back-pointer fix-up, optional re-insertion from the root ---- *)
Lemma step_vacate : forall F P n s k q, Inv (mkS X F P (S n)) (s ++ [k]) -> okp (s ++ [k]) ->
  tget F (s ++ [k]) = Some (Leaf q) -> ins (s ++ [k]) (px P q) = false ->
  let moved := nth n P (xd, []) in
  let st1 := mkS X (tset F (snd moved) (Some (Leaf q))) (upd P q moved) n in
  (exists j, tget F (snd moved) = Some (Leaf j)) /\
  Inv (unlink st1 (s ++ [k])) (s ++ [S k]) /\
  (forall st2, psim_add st1 (px P q) = Some st2 -> Inv (unlink st2 (s ++ [k])) (s ++ [S k])).
Proof.
  intros F P n s k q HI Hk Hg Hout moved st1.
  destruct HI as (A & I & Hok).
  destruct (vacate_hole X xd ins L nroot okx F P n (s ++ [k]) q A Hg I Hok) as (Ha & Hg1 & AH & IH & HokH).
  fold moved in Ha, Hg1, AH, IH, HokH.
  set (pth := s ++ [k]) in *.
  assert (Hpne : pth <> []) by (unfold pth; destruct s; discriminate).
  assert (HIH : Inv (unlink st1 pth) pth) by (split; [exact AH|split; [exact IH|exact HokH]]).
  assert (Hnone : forall st, pathok (sF X st) pth -> tget (sF X (unlink st pth)) pth = None).
  { intros st Hp. cbn [PathModel.unlink sF]. apply tget_tset_same. exact Hp. }
  split; [eexists; exact Ha|]. split.
  - apply Inv_bump_none; [exact HIH|apply (Inv_pathok _ _ HIH Hk)|].
    apply Hnone. cbn [sF st1]. eapply tget_some_pathok. exact Hg1.
  - intros st2 H2.
    assert (Hn1 : sN X st1 <= length (sP X st1)) by (destruct AH as (_ & _ & Hl); exact Hl).
    pose proof (psim_add_commute st1 (px P q) st2 pth q H2 Hpne Hg1 Hout (Hok q) Hn1) as Hc.
    destruct pth as [|k0 pi] eqn:Epth; [congruence|].
    destruct (psim_add_spec X xd ins octf same L nroot okx Hoct8 Hoct0 Hroute _ _ _ k0 pi Hc (Hok q) AH IH HokH) as (A2 & I2 & Hok2).
    rewrite <- Epth in *.
    assert (HI2 : Inv (unlink st2 pth) pth) by (split; [exact A2|split; [exact I2|exact Hok2]]).
    rewrite <- (unlink_unlink st2 pth).
    pose proof (Inv_pathok _ _ HI2 Hk) as Hp2.
    apply Inv_bump_none; [rewrite unlink_unlink; exact HI2|rewrite unlink_unlink; exact Hp2|].
    rewrite unlink_unlink. cbn [PathModel.unlink sF]. cbn [PathModel.unlink sF] in Hp2.
    rewrite <- (tset_tset pth (sF X st2) None None). apply tget_tset_same. exact Hp2.
Qed.

Lemma len1_in {A} (l : list A) x : length l = 1 -> In x l -> l = [x].
Proof. destruct l as [|a [|b r]]; cbn; intros H Hi; try discriminate. destruct Hi as [->|[]]. reflexivity. Qed.

(* ---- all children of a node done: recount, free / derefine / keep ---- *)
Lemma step_recount : forall st s k n oct, Inv st ((s ++ [k]) ++ [8]) -> okp (s ++ [k]) -> length (s ++ [k]) <= L ->
  tget (sF X st) (s ++ [k]) = Some (Node n oct) ->
  let cnt := fst (precount oct) in let test := snd (precount oct) in
  (cnt = 0%Z -> Inv (unlink st (s ++ [k])) (s ++ [S k])) /\
  (cnt = 1%Z -> forall q, nth test oct None = Some (Leaf q) ->
     Inv (mkS X (tset (sF X st) (s ++ [k]) (Some (Leaf q))) (setbp (sP X st) q (s ++ [k])) (sN X st)) (s ++ [S k])) /\
  (cnt <> 0%Z -> cnt <> 1%Z ->
     Inv (mkS X (tset (sF X st) (s ++ [k]) (Some (Node cnt oct))) (sP X st) (sN X st)) (s ++ [S k])).
Proof.
  intros st s k n oct HI Hk Hlen Hg cnt test.
  destruct st as [F P N]. cbn [sF sP sN] in *. destruct HI as (A & I & Hok). cbn [sF sP sN] in I, Hok.
  set (pth := s ++ [k]) in *.
  assert (Hpne : pth <> []) by (unfold pth; destruct s; discriminate).
  assert (Hp : pathok F pth) by (eapply tget_some_pathok; exact Hg).
  assert (I' : inv P (s ++ k :: [8]) F []) by (unfold pth in I; rewrite <- app_assoc in I; exact I).
  pose proof (inv_get X xd ins L nroot P pth [8] F [] I) as Ig. rewrite Hg in Ig. cbn [app] in Ig.
  assert (Lo : length oct = 8).
  { inversion Ig as [|? ? ? ? ? Lo0 _ _ _]; subst. destruct pth; [congruence|exact Lo0]. }
  assert (Hfull : forall o, full P (nth o oct None) (pth ++ [o])).
  { intro o. pose proof (inv_children_full X xd ins L nroot P pth F [] n oct I Hg Lo o) as Q. exact Q. }
  assert (Ecnt : cnt = Z.of_nat (length (flat_map oleaves oct))).
  { unfold cnt. apply precount_exact. intros d Hd. apply In_nth with (d := None) in Hd. destruct Hd as (o & _ & <-). eapply full_cntok. apply Hfull. }
  assert (LT : forall v, Permutation (lvl pth oct 0 ++ lvo (tset F pth v) []) (lvo v pth ++ lvo F [])).
  { intro v. pose proof (lv_tset pth F [] v Hp) as Q. rewrite Hg, lvo_node in Q. exact Q. }
  assert (Elen : length (lvl pth oct 0) = length (flat_map oleaves oct)) by (rewrite <- (lvl_flat oct pth), map_length; reflexivity).
  pose proof A as (Pm & Hb & Hn). cbn [sF sP sN] in Pm, Hb, Hn.
  assert (Bump : forall v, full P v pth -> inv P (s ++ [S k]) (tset F pth v) []).
  { intros v Fv. apply (inv_bump X xd ins L nroot P s k [8] F [] v I' Hp). exact Fv. }
  split; [|split].
  - (* no particle left below: the node is freed *)
    intro E0. assert (El : lvl pth oct 0 = []) by (destruct (lvl pth oct 0); [reflexivity|cbn in Elen; lia]).
    pose proof (LT None) as Q. rewrite El in Q. cbn [app lvo] in Q.
    split; [|split; [apply Bump; constructor|exact Hok]].
    split; [|split]; cbn [PathModel.unlink sF sP sN].
    + eapply Permutation_trans; [apply Permutation_map; exact Q|exact Pm].
    + intros r i Hi. apply Hb. eapply Permutation_in; [exact Q|exact Hi].
    + exact Hn.
  - (* one particle left: the node becomes its leaf *)
    intros E1 q Hq.
    assert (Ht : test < length oct).
    { destruct (Nat.lt_ge_cases test (length oct)) as [h|h]; [exact h|]. rewrite nth_overflow in Hq by exact h. discriminate. }
    assert (Hin : In (pth ++ [test], q) (lvl pth oct 0)).
    { apply (lvl_in_conv pth oct 0 test); [exact Ht|]. cbn [Nat.add]. rewrite Hq. left. reflexivity. }
    assert (El : lvl pth oct 0 = [(pth ++ [test], q)]) by (apply len1_in; [lia|exact Hin]).
    pose proof (LT None) as Q0. pose proof (LT (Some (Leaf q))) as Q1. rewrite El in Q0, Q1. cbn [app lvo lvc] in Q0, Q1.
    (* Q0 : (c,q) :: lvo T ~ lvo F      Q1 : (c,q) :: lvo F' ~ (pth,q) :: lvo F *)
    assert (Q2 : Permutation (lvo (tset F pth (Some (Leaf q))) []) ((pth, q) :: lvo (tset F pth None) [])).
    { apply Permutation_cons_inv with (a := (pth ++ [test], q)). eapply Permutation_trans; [exact Q1|].
      eapply Permutation_trans; [apply perm_skip, Permutation_sym, Q0|]. apply perm_swap. }
    assert (HqF : In (pth ++ [test], q) (lvo F [])) by (eapply Permutation_in; [exact Q0|left; reflexivity]).
    destruct (Acc_BP X xd (mkS X F P N) A _ _ HqF) as [_ Hql]. cbn [sP] in Hql.
    assert (NDq : NoDup (q :: map snd (lvo (tset F pth None) []))).
    { change (q :: map snd (lvo (tset F pth None) [])) with (map snd ((pth ++ [test], q) :: lvo (tset F pth None) [])).
      eapply Permutation_NoDup; [apply Permutation_map, Permutation_sym, Q0|]. eapply Permutation_NoDup; [apply Permutation_sym; exact Pm|apply seq_NoDup]. }
    assert (Hinq : ins pth (px P q) = true).
    { pose proof (Hfull test) as Ft. rewrite Hq in Ft. inversion Ft; subst. eapply Hup; [exact Hpne|exact Hlen|eassumption]. }
    split; [|split].
    + split; [|split]; cbn [sF sP sN].
      * eapply Permutation_trans; [apply Permutation_map; exact Q2|]. eapply Permutation_trans; [|exact Pm].
        change (map snd ((pth, q) :: lvo (tset F pth None) [])) with (map snd ((pth ++ [test], q) :: lvo (tset F pth None) [])).
        apply Permutation_map. exact Q0.
      * intros r i Hi. apply (Permutation_in _ Q2) in Hi. destruct Hi as [Hi|Hi].
        -- injection Hi as <- <-. apply (pbp_setbp_same X xd). exact Hql.
        -- assert (i <> q).
           { intro e. subst i. inversion NDq as [|? ? Hnq _]; subst. apply Hnq. apply in_map_iff. exists (r, q). split; [reflexivity|exact Hi]. }
           rewrite (pbp_setbp_other X xd) by congruence. apply Hb. eapply Permutation_in; [exact Q0|right; exact Hi].
      * rewrite (len_setbp X xd). exact Hn.
    + eapply inv_ext; [intro j; apply (px_setbp X xd)|]. apply Bump. constructor. exact Hinq.
    + intro i. cbn [sP]. rewrite (px_setbp X xd). apply Hok.
  - (* at least two particles: the count is refreshed *)
    intros N0 N1. pose proof (LT (Some (Node cnt oct))) as Q. rewrite lvo_node in Q. apply Permutation_app_inv_l in Q.
    split; [|split; [|exact Hok]].
    + split; [|split]; cbn [sF sP sN].
      * eapply Permutation_trans; [apply Permutation_map; exact Q|exact Pm].
      * intros r i Hi. apply Hb. eapply Permutation_in; [exact Q|exact Hi].
      * exact Hn.
    + apply Bump. constructor; [exact Lo|exact Hlen|exact Ecnt|lia|exact Hfull].
Qed.
End PH.
