(* C15 round 2: the PR-octree shape is determined by the particle set and the root geometry. *)
From Coq Require Import ZArith List Bool Lia ZifyBool Permutation Arith.
From RV Require Import Common.Num C15.Tree C15.Tree2 C15.TreeProofs.
Import ListNotations.
Open Scope Z_scope.

Lemma perm_filter {A} (f : A -> bool) : forall a b, Permutation a b -> Permutation (filter f a) (filter f b).
Proof.
  induction 1; cbn [filter].
  - constructor.
  - destruct (f x); [constructor|]; assumption.
  - destruct (f x), (f y); try apply perm_swap; try apply Permutation_refl.
  - eapply Permutation_trans; eassumption.
Qed.

Section CanonP.
Variable u : Z.
Variable pos : nat -> P3.
Notation iscanon := (iscanon u pos).
Notation add := (add u pos).
Notation childc := (childc u).
Notation in_oct := (in_oct pos).

Lemma iscanon_nil l c t : iscanon l c [] t <-> t = None.
Proof. destruct l; cbn; tauto. Qed.
Lemma iscanon_one l c p t : iscanon l c [p] t <-> t = Some (Leaf p).
Proof. destruct l; cbn; tauto. Qed.
Lemma iscanon_many_O c a b r t : iscanon 0 c (a :: b :: r) t <-> False.
Proof. cbn; tauto. Qed.
Lemma iscanon_many_S l' c a b r t : iscanon (S l') c (a :: b :: r) t <->
  exists oct, t = Some (Node (Z.of_nat (length (a :: b :: r))) oct) /\ length oct = 8%nat /\
    forall o, (o < 8)%nat -> iscanon l' (childc c l' o) (filter (in_oct c o) (a :: b :: r)) (nth o oct None).
Proof. cbn [Tree2.iscanon]. tauto. Qed.

Lemma add_none l c p : add l c None p = Some (Leaf p).
Proof. destruct l; reflexivity. Qed.

(* the canonical tree does not depend on the order in which the particle set is listed *)
Lemma iscanon_perm : forall l c S S' t, Permutation S S' -> iscanon l c S t -> iscanon l c S' t.
Proof.
  induction l as [|l' IH]; intros c S S' t P H; destruct S as [|a [|b r]].
  1,4: apply Permutation_nil in P; subst S'; exact H.
  1,3: apply Permutation_length_1_inv in P; subst S'; exact H.
  - apply iscanon_many_O in H. contradiction.
  - pose proof (Permutation_length P) as PL. destruct S' as [|a' [|b' r']]; cbn in PL; try lia.
    apply iscanon_many_S in H. destruct H as (oct & Et & Lo & K). apply iscanon_many_S.
    exists oct. split; [rewrite Et; do 3 f_equal; cbn [length]; lia|]. split; [exact Lo|].
    intros o Ho. eapply IH; [apply perm_filter; exact P|apply K; exact Ho].
Qed.

(* ... and is unique *)
Lemma iscanon_fun : forall l c S t t', iscanon l c S t -> iscanon l c S t' -> t = t'.
Proof.
  induction l as [|l' IH]; intros c S t t' H H'; destruct S as [|a [|b r]].
  1,4: apply iscanon_nil in H, H'; congruence.
  1,3: apply iscanon_one in H, H'; congruence.
  - apply iscanon_many_O in H. contradiction.
  - apply iscanon_many_S in H, H'. destruct H as (oct & Et & Lo & K), H' as (oct' & Et' & Lo' & K').
    rewrite Et, Et'. do 2 f_equal. apply nth_ext with (d := None) (d' := None); [congruence|].
    intros o Ho. rewrite Lo in Ho. eapply IH; [apply K|apply K']; exact Ho.
Qed.

(* reb_tree_add_particle_to_cell turns the canonical tree of S into the canonical tree of p :: S *)
Lemma add_canon : forall l c S T p t', iscanon l c S T -> add l c T p = Some t' -> iscanon l c (p :: S) (Some t').
Proof.
  induction l as [|l' IH]; intros c S T p t' HC HA; destruct S as [|q [|q2 r]].
  - apply iscanon_nil in HC. subst T. cbn in HA. injection HA as <-. apply iscanon_one. reflexivity.
  - apply iscanon_one in HC. subst T. cbn in HA. discriminate.
  - apply iscanon_many_O in HC. contradiction.
  - apply iscanon_nil in HC. subst T. cbn in HA. injection HA as <-. apply iscanon_one. reflexivity.
  - apply iscanon_one in HC. subst T. cbn [Tree.add] in HA.
    set (o1 := octant c (pos q)) in *. set (o2 := octant c (pos p)) in *.
    destruct (Nat.eqb o1 o2 && same_pos (pos p) (pos q)) eqn:G; [discriminate|].
    set (oct0 := upd empty8 o1 (Some (Leaf q))) in *.
    destruct (add l' (childc c l' o2) (nth o2 oct0 None) p) as [d|] eqn:A; [|discriminate].
    injection HA as <-.
    assert (Ho1 : (o1 < 8)%nat) by apply octant_lt8. assert (Ho2 : (o2 < 8)%nat) by apply octant_lt8.
    assert (L0 : length oct0 = 8%nat) by (unfold oct0; rewrite upd_len; reflexivity).
    apply iscanon_many_S. exists (upd oct0 o2 (Some d)). split; [reflexivity|]. split; [rewrite upd_len; exact L0|].
    intros o Ho. cbn [filter]. unfold Tree2.in_oct. fold o1 o2.
    destruct (Nat.eqb o2 o) eqn:E2; destruct (Nat.eqb o1 o) eqn:E1; cbv iota.
    + apply Nat.eqb_eq in E2. apply Nat.eqb_eq in E1. subst o. rewrite nth_upd_eq by lia.
      eapply IH; [|exact A]. unfold oct0. rewrite E1. rewrite nth_upd_eq by (cbn; lia).
      apply iscanon_one. reflexivity.
    + apply Nat.eqb_eq in E2. apply Nat.eqb_neq in E1. subst o. rewrite nth_upd_eq by lia.
      unfold oct0 in A. rewrite nth_upd_ne in A by exact E1. rewrite nth_empty8, add_none in A.
      injection A as <-. apply iscanon_one. reflexivity.
    + apply Nat.eqb_neq in E2. apply Nat.eqb_eq in E1. rewrite nth_upd_ne by exact E2. unfold oct0.
      subst o. rewrite nth_upd_eq by (cbn; lia). apply iscanon_one. reflexivity.
    + apply Nat.eqb_neq in E2. apply Nat.eqb_neq in E1. rewrite nth_upd_ne by exact E2. unfold oct0.
      rewrite nth_upd_ne by exact E1. rewrite nth_empty8. apply iscanon_nil. reflexivity.
  - apply iscanon_many_S in HC. destruct HC as (oct & Et & Lo & K). subst T. cbn [Tree.add] in HA.
    set (o := octant c (pos p)) in *.
    destruct (add l' (childc c l' o) (nth o oct None) p) as [d|] eqn:A; [|discriminate].
    injection HA as <-. assert (Ho : (o < 8)%nat) by apply octant_lt8.
    apply iscanon_many_S. exists (upd oct o (Some d)). split.
    { do 2 f_equal. cbn [length]. lia. }
    split; [rewrite upd_len; exact Lo|].
    intros o' Ho'. cbn [filter]. unfold Tree2.in_oct at 1. fold o.
    destruct (Nat.eqb o o') eqn:E; cbv iota.
    + apply Nat.eqb_eq in E. subst o'. rewrite nth_upd_eq by lia. eapply IH; [apply K; exact Ho|exact A].
    + apply Nat.eqb_neq in E. rewrite nth_upd_ne by exact E. apply K. exact Ho'.
Qed.

Lemma build_canon : forall pts l c S T r, iscanon l c S T -> build u pos l c T pts = Some r ->
  iscanon l c (rev pts ++ S) r.
Proof.
  induction pts as [|p pts IH]; intros l c S T r HC HB; cbn [build] in HB.
  - injection HB as <-. exact HC.
  - destruct (add l c T p) as [t|] eqn:A; [|discriminate].
    cbn [rev]. rewrite <- app_assoc. cbn [app]. eapply IH; [|exact HB]. eapply add_canon; eassumption.
Qed.

(* insertion-order independence: two insertion orders of the same particle set give the same tree *)
Lemma build_order_independent : forall l c pts pts' r r', Permutation pts pts' ->
  build u pos l c None pts = Some r -> build u pos l c None pts' = Some r' -> r = r'.
Proof.
  intros l c pts pts' r r' P B B'.
  pose proof (build_canon pts l c [] None r ltac:(apply iscanon_nil; reflexivity) B) as C.
  pose proof (build_canon pts' l c [] None r' ltac:(apply iscanon_nil; reflexivity) B') as C'.
  rewrite app_nil_r in C, C'. eapply iscanon_fun; [|exact C'].
  eapply iscanon_perm; [|exact C]. eapply Permutation_trans; [apply Permutation_sym, Permutation_rev|].
  eapply Permutation_trans; [exact P|apply Permutation_rev].
Qed.

(* ---- every well-formed, tie-free tree is the canonical tree of its leaves ---- *)
Lemma inside_child_octant : forall l' c p o, (o < 8)%nat -> inside u l' (childc c l' o) p -> offplanes c p -> octant c p = o.
Proof.
  intros l' [[cx cy] cz] [[px py] pz] o Ho H (N1 & N2 & N3). unfold Tree.inside, Tree.childc in H. unfold octant.
  do 8 (destruct o as [|o]; [unfold sg in H; cbn [Nat.testbit Nat.odd Nat.even Nat.div2 negb] in H;
        destruct (px <? cx) eqn:E1, (py <? cy) eqn:E2, (pz <? cz) eqn:E3; cbn; try reflexivity; exfalso; lia|]).
  lia.
Qed.

Lemma filter_all {A} (f : A -> bool) l : (forall x, In x l -> f x = true) -> filter f l = l.
Proof. induction l; cbn; intros H; [reflexivity|]. rewrite H by (left; reflexivity). f_equal. apply IHl. intros; apply H; right; assumption. Qed.
Lemma filter_none {A} (f : A -> bool) l : (forall x, In x l -> f x = false) -> filter f l = [].
Proof. induction l; cbn; intros H; [reflexivity|]. rewrite H by (left; reflexivity). apply IHl. intros; apply H; right; assumption. Qed.

Lemma filter_flat_map_oct : forall (tag : nat -> nat) (oct : list (option cell)) base o,
  (forall k d p, nth_error oct k = Some (Some d) -> In p (leaves d) -> tag p = (base + k)%nat) ->
  (base <= o)%nat ->
  filter (fun q => Nat.eqb (tag q) o) (flat_map oleaves oct) = oleaves (nth (o - base) oct None).
Proof.
  intros tag. induction oct as [|x oct IH]; intros base o H Hb.
  - cbn. destruct (o - base)%nat; reflexivity.
  - cbn [flat_map]. rewrite filter_app.
    assert (Hr : forall k d p, nth_error oct k = Some (Some d) -> In p (leaves d) -> tag p = (S base + k)%nat).
    { intros k d p Hk Hp. rewrite (H (S k) d p Hk Hp). lia. }
    destruct (Nat.eq_dec o base) as [e|ne].
    + subst o. rewrite Nat.sub_diag. cbn [nth].
      rewrite filter_all.
      2:{ intros q Hq. destruct x as [d|]; [|destruct Hq]. apply Nat.eqb_eq. rewrite (H 0%nat d q eq_refl Hq). lia. }
      rewrite filter_none; [apply app_nil_r|].
      intros q Hq. apply in_flat_map in Hq. destruct Hq as (y & Hy & Hq). destruct y as [d|]; [|destruct Hq].
      apply In_nth_error in Hy. destruct Hy as (k & Hk). apply Nat.eqb_neq. rewrite (Hr k d q Hk Hq). lia.
    + rewrite filter_none.
      2:{ intros q Hq. destruct x as [d|]; [|destruct Hq]. apply Nat.eqb_neq. rewrite (H 0%nat d q eq_refl Hq). lia. }
      cbn [app]. replace (o - base)%nat with (S (o - S base)) by lia. cbn [nth]. apply IH; [exact Hr|lia].
Qed.

Lemma wf_canon : forall l c t, wf u pos l c t -> notie u pos l c t -> iscanon l c (leaves t) (Some t).
Proof.
  induction l as [|l' IH]; intros c t W NT; destruct t as [p|n oct].
  - apply iscanon_one. reflexivity.
  - cbn in W. contradiction.
  - apply iscanon_one. reflexivity.
  - rewrite wf_node_S in W. destruct W as (Lo & Cn & N2 & Ch). cbn [Tree2.notie] in NT. destruct NT as [Off NTc].
    rewrite leaves_node in *.
    assert (F : forall o, (o < 8)%nat ->
              filter (in_oct c o) (flat_map oleaves oct) = oleaves (nth o oct None)).
    { intros o Ho. pose proof (filter_flat_map_oct (fun q => octant c (pos q)) oct 0%nat o) as Q.
      rewrite Nat.sub_0_r in Q. apply Q; [|lia].
      intros k d p Hk Hp. cbn [Nat.add].
      assert (Hk8 : (k < 8)%nat) by (rewrite <- Lo; apply nth_error_Some; congruence).
      apply (inside_child_octant l' c (pos p) k Hk8).
      - (* p is inside the child cell: it is inside its leaf cell, which is inside the child *)
        clear - Ch Hk Hp IH. specialize (Ch k d Hk). revert Hp Ch. generalize (Tree.childc u c l' k). clear.
        revert d. induction l' as [|m IHm]; intros d cc Hp W; destruct d as [q|n oct].
        + cbn in Hp. destruct Hp as [<-|[]]. exact W.
        + cbn in W. contradiction.
        + cbn in Hp. destruct Hp as [<-|[]]. rewrite wf_leaf in W. exact W.
        + rewrite wf_node_S in W. destruct W as (Lo & _ & _ & Ch). rewrite leaves_node in Hp.
          apply in_flat_map in Hp. destruct Hp as (y & Hy & Hp). destruct y as [d|]; [|destruct Hp].
          apply In_nth_error in Hy. destruct Hy as (o & Ho).
          assert (Ho8 : (o < 8)%nat) by (rewrite <- Lo; apply nth_error_Some; congruence).
          pose proof (IHm d _ Hp (Ch o d Ho)) as I.
          (* inside child => inside parent *)
          destruct cc as [[cx cy] cz]. destruct (pos p) as [[px py] pz]. unfold Tree.inside, Tree.childc in *.
          rewrite hw_S. unfold sg in I. destruct (Nat.testbit o 0), (Nat.testbit o 1), (Nat.testbit o 2); lia.
      - apply Off. apply in_flat_map. exists (Some d). split; [eapply nth_error_In; exact Hk|exact Hp]. }
    destruct (flat_map oleaves oct) as [|a [|b r]] eqn:E; cbn [length] in Cn; try lia.
    apply iscanon_many_S. exists oct. split; [rewrite Cn; reflexivity|]. split; [exact Lo|].
    intros o Ho. rewrite F by exact Ho.
    destruct (nth o oct None) as [d|] eqn:En; cbn [oleaves].
    + apply IH; [apply Ch; apply nth_nth_error; exact En|eapply NTc; apply nth_nth_error; exact En].
    + apply iscanon_nil. reflexivity.
Qed.

(* two well-formed tie-free trees over the same particle set are equal; in particular the tree the library keeps
   (if the checker accepts it) equals the tree built by fresh insertion in any order *)
Lemma canonical_unique : forall l c t1 t2, wf u pos l c t1 -> notie u pos l c t1 -> wf u pos l c t2 -> notie u pos l c t2 ->
  Permutation (leaves t1) (leaves t2) -> t1 = t2.
Proof.
  intros l c t1 t2 W1 N1 W2 N2 P.
  pose proof (wf_canon l c t1 W1 N1) as C1. pose proof (wf_canon l c t2 W2 N2) as C2.
  assert (E : Some t1 = Some t2) by (eapply iscanon_fun; [eapply iscanon_perm; [exact P|exact C1]|exact C2]).
  congruence.
Qed.

Lemma wf_is_fresh_build : forall l c t pts r, wf u pos l c t -> notie u pos l c t -> Permutation (leaves t) pts ->
  build u pos l c None pts = Some r -> r = Some t.
Proof.
  intros l c t pts r W N P B.
  pose proof (build_canon pts l c [] None r ltac:(apply iscanon_nil; reflexivity) B) as C. rewrite app_nil_r in C.
  eapply iscanon_fun; [exact C|]. eapply iscanon_perm; [|apply wf_canon; eassumption].
  eapply Permutation_trans; [exact P|apply Permutation_rev].
Qed.
End CanonP.
