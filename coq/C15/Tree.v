(* C15 functional model of the spatial tree of src/tree.c (definitions only).

   Geometry is exact: coordinates are integers in a unit chosen so that every particle coordinate (a binary64
   number, hence a dyadic rational) is an integer, and a cell of LEVEL l has half-width  u * 2^l .  A child of a
   level-(l+1) cell has level l, half-width u*2^l and centre  parent +- u*2^l  (C: node->w = parent->w/2,
   node->x = parent->x + node->w/2*(+-1)).  The level is also the recursion measure of [add]: at level 0 a cell
   cannot be split (the harness chooses the unit so that this never happens for distinct positions).
   The binary64 code computes the same numbers whenever no rounding occurs in c +- w/4, i.e. for root sizes with
   few significant bits (checked per dump by the harness); the binary64 replay for arbitrary root sizes is the
   Python transcription tools/c15_lib.py:model_add, cross-checked against this model on every run.

   cell: Leaf pt  (C: node->pt = particle index >= 0, all oct NULL)
         Node cnt oct   (C: node->pt = -cnt, oct[8] with NULL = None). *)
From Coq Require Import ZArith List Bool.
From RV Require Import Common.Num.
Import ListNotations.
Open Scope Z_scope.

Inductive cell := Leaf (pt : nat) | Node (cnt : Z) (oct : list (option cell)).

Definition P3 := (Z * Z * Z)%type.

Fixpoint leaves (t : cell) : list nat :=
  match t with
  | Leaf p => [p]
  | Node _ oct => flat_map (fun o => match o with None => [] | Some d => leaves d end) oct
  end.
Definition oleaves (o : option cell) : list nat := match o with None => [] | Some d => leaves d end.

Definition empty8 : list (option cell) := repeat None 8.

(* reb_reb_tree_get_octant_for_particle_in_cell *)
Definition octant (c p : P3) : nat :=
  let '(cx, cy, cz) := c in let '(px, py, pz) := p in
  ((if (px <? cx)%Z then 1 else 0) + (if (py <? cy)%Z then 2 else 0) + (if (pz <? cz)%Z then 4 else 0))%nat.

(* ((o>>k)%2==0 ? 1. : -1) *)
Definition sg (o k : nat) : Z := if Nat.testbit o k then -1 else 1.

Definition same_pos (p q : P3) : bool :=
  let '(px, py, pz) := p in let '(qx, qy, qz) := q in (px =? qx) && (py =? qy) && (pz =? qz).

Section Tree.
Variable u : Z.                 (* half-width of a level-0 cell *)
Variable pos : nat -> P3.       (* particles[i].x,y,z *)

Definition hw (l : nat) : Z := u * 2 ^ Z.of_nat l.

(* centre of child o of a cell of level (S l') centred at c *)
Definition childc (c : P3) (l' : nat) (o : nat) : P3 :=
  let '(cx, cy, cz) := c in (cx + sg o 0 * hw l', cy + sg o 1 * hw l', cz + sg o 2 * hw l').

(* reb_tree_particle_is_inside_cell: NOT (fabs(p-c) > w/2) per coordinate: the closed cell *)
Definition inside (l : nat) (c p : P3) : Prop :=
  let '(cx, cy, cz) := c in let '(px, py, pz) := p in
  Z.abs (px - cx) <= hw l /\ Z.abs (py - cy) <= hw l /\ Z.abs (pz - cz) <= hw l.
Definition inside_b (l : nat) (c p : P3) : bool :=
  let '(cx, cy, cz) := c in let '(px, py, pz) := p in
  (Z.abs (px - cx) <=? hw l) && (Z.abs (py - cy) <=? hw l) && (Z.abs (pz - cz) <=? hw l).

(* reb_tree_add_particle_to_cell(r, node, pt, parent, o): the cell geometry (l, c) is passed down instead of
   being stored.  Result None = the C code reports "Cannot add two particles with the same coordinates" (tree
   unchanged, particle NOT in the tree) or the resolution of the integer grid is exhausted (l = 0). *)
Fixpoint add (l : nat) (c : P3) (node : option cell) (pt : nat) : option cell :=
  match node with
  | None => Some (Leaf pt)
  | Some (Leaf q) =>
      match l with
      | O => None
      | S l' =>
          let o1 := octant c (pos q) in
          let o2 := octant c (pos pt) in
          if Nat.eqb o1 o2 && same_pos (pos pt) (pos q) then None
          else
            let oct0 := upd empty8 o1 (Some (Leaf q)) in
            match add l' (childc c l' o2) (nth o2 oct0 None) pt with
            | None => None
            | Some d => Some (Node 2 (upd oct0 o2 (Some d)))
            end
      end
  | Some (Node n oct) =>
      match l with
      | O => None
      | S l' =>
          let o := octant c (pos pt) in
          match add l' (childc c l' o) (nth o oct None) pt with
          | None => None
          | Some d => Some (Node (n + 1) (upd oct o (Some d)))
          end
      end
  end.

(* insert a list of particle indices, in order, into one (root) cell *)
Fixpoint build (l : nat) (c : P3) (node : option cell) (pts : list nat) : option (option cell) :=
  match pts with
  | [] => Some node
  | p :: r => match add l c node p with None => None | Some t => build l c (Some t) r end
  end.

(* well-formedness of the tree below a cell of level l centred at c *)
Fixpoint wf (l : nat) (c : P3) (t : cell) {struct l} : Prop :=
  match t with
  | Leaf p => inside l c (pos p)
  | Node n oct =>
      match l with
      | O => False
      | S l' =>
          length oct = 8%nat /\ n = Z.of_nat (length (leaves t)) /\ 2 <= n /\
          forall o d, nth_error oct o = Some (Some d) -> wf l' (childc c l' o) d
      end
  end.

(* ---- dumped cells (what the harness reads from struct reb_treecell, converted to integer units) ---- *)
Inductive dcell := D (x y z w : Z) (pt : Z) (oct : list (option dcell)).

Fixpoint erase (d : dcell) : cell :=
  match d with
  | D _ _ _ _ pt oct =>
      if 0 <=? pt then Leaf (Z.to_nat pt)
      else Node (- pt) (map (fun o => match o with None => None | Some e => Some (erase e) end) oct)
  end.

Fixpoint forallb_i {A} (f : nat -> A -> bool) (i : nat) (l : list A) : bool :=
  match l with [] => true | a :: r => f i a && forallb_i f (S i) r end.

Definition is_none {A} (o : option A) : bool := match o with None => true | Some _ => false end.

Definition geom_b (l : nat) (c : P3) (x y z w : Z) : bool :=
  let '(cx, cy, cz) := c in (x =? cx) && (y =? cy) && (z =? cz) && (w =? 2 * hw l).

(* executable checker on a dumped cell expected to be the cell of level l centred at c *)
Fixpoint wf_b (l : nat) (c : P3) (d : dcell) {struct l} : bool :=
  match d with
  | D x y z w pt oct =>
      geom_b l c x y z w &&
      if 0 <=? pt then
        forallb is_none oct && Nat.eqb (length oct) 8 && inside_b l c (pos (Z.to_nat pt))
      else
        match l with
        | O => false
        | S l' =>
            Nat.eqb (length oct) 8 && (- pt =? Z.of_nat (length (leaves (erase d)))) && (2 <=? - pt) &&
            forallb_i (fun o od => match od with None => true | Some e => wf_b l' (childc c l' o) e end) 0 oct
        end
  end.

(* all stored geometry equals the geometry implied by the position in the tree *)
Fixpoint dgeom (l : nat) (c : P3) (d : dcell) {struct l} : Prop :=
  match d with
  | D x y z w pt oct =>
      (x, y, z) = c /\ w = 2 * hw l /\
      match l with
      | O => True
      | S l' => forall o e, nth_error oct o = Some (Some e) -> dgeom l' (childc c l' o) e
      end
  end.

End Tree.

(* every particle index 0..N-1 occurs exactly once in a leaf list *)
Fixpoint nodup_b (l : list nat) : bool :=
  match l with [] => true | a :: r => negb (existsb (Nat.eqb a) r) && nodup_b r end.
Definition once_b (N : nat) (l : list nat) : bool :=
  Nat.eqb (length l) N && forallb (fun q => Nat.ltb q N) l && nodup_b l.

(* forest = the root cells; the checker applied to a dump: list of (root centre, root cell) *)
Definition forest_b (u : Z) (pos : nat -> P3) (L : nat) (N : nat) (roots : list (P3 * dcell)) : bool :=
  forallb (fun cd => wf_b u pos L (fst cd) (snd cd)) roots &&
  once_b N (flat_map (fun cd => leaves (erase (snd cd))) roots).

(* ---- root boxes, per axis (h = root_size/2 in units, n = N_root_x, box = n*root_size) ----
   reb_get_rootbox_for_particle:  i = (int)floor((p.x + boxsize.x/2.)/root_size); if (i==N_root_x) i = N_root_x-1; i = (i+N_root_x)%N_root_x   (C %: Z.rem)
   reb_tree_add_particle_to_cell, new root: the same floor and clamp, then i %= N_root_x,
                                            node->x = -boxsize.x/2. + root_size*(0.5+(double)i) *)
Definition root_fl (h n x : Z) : Z := (x + n * h) / (2 * h).
(* since /repo da62396: if (i==N_root_x) i = N_root_x-1;  (the upper box border belongs to the last root box) *)
Definition root_clamp (n f : Z) : Z := if f =? n then n - 1 else f.
Definition root_idx (h n x : Z) : Z := Z.rem (root_clamp n (root_fl h n x) + n) n.
Definition root_idx_new (h n x : Z) : Z := Z.rem (root_clamp n (root_fl h n x)) n.
Definition root_centre (h n i : Z) : Z := - (n * h) + h + 2 * h * i.
Definition rootbox (h nx ny nz : Z) (p : P3) : Z :=
  let '(x, y, z) := p in (root_idx h nz z * ny + root_idx h ny y) * nx + root_idx h nx x.

(* ---- gravity data (reb_simulation_update_tree_gravity_data_in_cell), Num-polymorphic ---- *)
Section Gravity.
Context {T : Type} (N : Num T).
Variable part : nat -> T * T * T * T.       (* (m, x, y, z) of particle i *)

Definition gacc (acc d : T * T * T * T) : T * T * T * T :=
  let '(m, mx, my, mz) := acc in let '(dm, dx, dy, dz) := d in
  (nadd N m dm, nadd N mx (nmul N dx dm), nadd N my (nmul N dy dm), nadd N mz (nmul N dz dm)).

Definition gnorm (a : T * T * T * T) : T * T * T * T :=
  let '(m, mx, my, mz) := a in
  if nltb N (nzero N) m then (m, ndiv N mx m, ndiv N my m, ndiv N mz m) else a.

Definition gzero : T * T * T * T := (nzero N, nzero N, nzero N, nzero N).

Fixpoint gdata (t : cell) : T * T * T * T :=
  match t with
  | Leaf p => part p
  | Node _ oct =>
      gnorm (fold_left (fun acc o => match o with None => acc | Some d => gacc acc (gdata d) end) oct gzero)
  end.

(* (m, mx, my, mz) of every cell, pre-order (the order of the harness' dump) *)
Fixpoint gall (t : cell) : list (T * T * T * T) :=
  gdata t :: match t with
             | Leaf _ => []
             | Node _ oct => flat_map (fun o => match o with None => [] | Some d => gall d end) oct
             end.
End Gravity.
