(* C15 round 4: the path model with the exact integer geometry satisfies the routing hypotheses (in exact arithmetic, for
   particles that are not on the upper box border), hence the theorem about reb_simulation_update_tree in terms of wf. *)
From Coq Require Import ZArith List Bool Lia ZifyBool Permutation Arith.
From RV Require Import Common.Num C15.Tree C15.Tree2 C15.TreeProofs C15.ForestProofs C15.PruneProofs C15.Update C15.PathModel C15.PathSpec C15.PathRun
  C15.PathProofsA C15.PathProofsB C15.PathProofsC C15.PathProofsI.
Import ListNotations.
Open Scope Z_scope.

Section Geo.
Variable u : Z.
Variables nx ny nz : Z.
Variable L : nat.
Hypothesis u_pos : 0 < u.
Hypothesis nx_pos : 0 < nx.
Hypothesis ny_pos : 0 < ny.
Hypothesis nz_pos : 0 < nz.
Notation geom := (geom u nx ny nz L).
Notation g_ins := (g_ins u nx ny nz L).
Notation g_octf := (g_octf u nx ny nz L).
Notation nroot := (Z.to_nat (nx * ny * nz)).

(* a particle that passes the (closed) box test of reb_simulation_add is in the closed box [inbox]: since /repo da62396
   (upper border -> last root box) this is all the routing at the root level needs, and it holds for EVERY particle *)
Definition okx (x : XP) : Prop := g_ins [] x = true -> inbox u nx ny nz L (fst x).

Lemma geom_app : forall p o, p <> [] -> geom (p ++ [o]) = (childc u (fst (geom p)) (pred (snd (geom p))) o, pred (snd (geom p))).
Proof.
  intros [|ri os] o Hp; [congruence|]. cbn [app geom]. rewrite fold_left_app. cbn [fold_left].
  destruct (fold_left _ os _) as [c l]. reflexivity.
Qed.
Lemma geom_level : forall ri os, snd (geom (ri :: os)) = (L - length os)%nat.
Proof.
  intros ri os. cbn [geom]. generalize (rootc_slot u nx ny nz L ri). 
  assert (G : forall os c l, snd (fold_left (fun cl o => let '(c, l) := cl in (childc u c (pred l) o, pred l)) os (c, l)) = (l - length os)%nat).
  { induction os0 as [|o os0 IH]; intros c l; [cbn; lia|]. cbn [fold_left length]. rewrite IH. lia. }
  intro c. apply G.
Qed.

Lemma inside_b_complete l c p : inside u l c p -> inside_b u l c p = true.
Proof. destruct c as [[? ?] ?], p as [[? ?] ?]. unfold inside_b, inside. lia. Qed.

Lemma octantN_octant c x : snd x = false -> octantN c (asP x) = octant c (fst x).
Proof. intros H. unfold octantN, octant, asP. cbn [ppos pnan]. rewrite H. destruct c as [[? ?] ?], (fst x) as [[? ?] ?]. reflexivity. Qed.

Lemma H_oct8 : forall p x, p <> [] -> (g_octf p x < 8)%nat.
Proof.
  intros [|ri os] x Hp; [congruence|]. unfold PathRun.g_octf. unfold octantN.
  destruct (fst (geom (ri :: os))) as [[cx cy] cz], (ppos (asP x)) as [[px py] pz].
  destruct (px <? cx), (negb (pnan (asP x)) && (py <? cy)), (pz <? cz); cbn; lia.
Qed.

Lemma g_ins_nil x : g_ins [] x = true ->
  snd x = false /\ (let '(a, b, c) := fst x in Z.abs a <= nx * hw u L /\ Z.abs b <= ny * hw u L /\ Z.abs c <= nz * hw u L).
Proof.
  unfold PathRun.g_ins, in_box_closed, asP, h0. cbn [ppos pnan]. destruct x as [[[a b] c] nan]. cbn [fst snd].
  intros H. apply andb_prop in H. destruct H as [H Hn]. destruct nan; [discriminate|]. split; [reflexivity|].
  rewrite orb_false_l in H. lia.
Qed.

Lemma okx_all : forall x, okx x.
Proof.
  intros x Hin. destruct (g_ins_nil x Hin) as [_ Hb]. unfold inbox, hroot. destruct (fst x) as [[a b] c]. lia.
Qed.

Lemma H_oct0 : forall x, okx x -> g_ins [] x = true -> (g_octf [] x < nroot)%nat.
Proof.
  intros x Hx Hin. specialize (Hx Hin).
  destruct (slot_facts u nx ny nz L u_pos nx_pos ny_pos nz_pos (fst x) Hx) as (Hs & _ & _). exact Hs.
Qed.

Lemma g_ins_cons ri os x : g_ins (ri :: os) x = insideN u (snd (geom (ri :: os))) (fst (geom (ri :: os))) (asP x).
Proof. unfold PathRun.g_ins. destruct (geom (ri :: os)) as [c l]. reflexivity. Qed.

Lemma H_route : forall p x, okx x -> (length p <= L)%nat -> g_ins p x = true -> g_ins (p ++ [g_octf p x]) x = true.
Proof.
  intros p x Hx Hl Hin. destruct p as [|ri os].
  - pose proof (g_ins_nil x Hin) as [Hn _]. specialize (Hx Hin).
    destruct (slot_facts u nx ny nz L u_pos nx_pos ny_pos nz_pos (fst x) Hx) as (_ & Hc & Hi).
    cbn [app]. rewrite g_ins_cons. unfold PathRun.g_octf. change (Z.to_nat (rootbox (hw u L) nx ny nz (fst x))) with (slot_of u nx ny nz L (fst x)).
    cbn [PathRun.geom fold_left fst snd].
    rewrite Hc. unfold insideN, asP. cbn [ppos pnan]. rewrite Hn. rewrite inside_b_complete by exact Hi. reflexivity.
  - rewrite g_ins_cons in Hin. unfold insideN in Hin. apply andb_prop in Hin. destruct Hin as [Hi Hn].
    assert (Hnan : snd x = false) by (unfold asP in Hn; cbn [pnan] in Hn; destruct (snd x); [discriminate|reflexivity]).
    pose proof (geom_level ri os) as Gl. cbn [length] in Hl.
    destruct (snd (geom (ri :: os))) as [|l'] eqn:El; [lia|].
    apply (inside_b_sound u) in Hi. cbn [ppos asP] in Hi.
    pose proof (child_inside u l' (fst (geom (ri :: os))) (fst x) Hi) as Hc.
    change ((ri :: os) ++ [g_octf (ri :: os) x]) with (ri :: (os ++ [g_octf (ri :: os) x])).
    rewrite g_ins_cons. change (ri :: os ++ [g_octf (ri :: os) x]) with ((ri :: os) ++ [g_octf (ri :: os) x]).
    rewrite geom_app by discriminate. rewrite El. cbn [fst snd pred].
    unfold PathRun.g_octf. rewrite octantN_octant by exact Hnan.
    unfold insideN, asP. cbn [ppos pnan]. rewrite Hnan. rewrite inside_b_complete by exact Hc. reflexivity.
Qed.

Lemma H_up : forall p o x, p <> [] -> (length p <= L)%nat -> g_ins (p ++ [o]) x = true -> g_ins p x = true.
Proof.
  intros [|ri os] o x Hp Hl Hin; [congruence|].
  change ((ri :: os) ++ [o]) with (ri :: (os ++ [o])) in Hin. rewrite g_ins_cons in Hin.
  change (ri :: os ++ [o]) with ((ri :: os) ++ [o]) in Hin. rewrite geom_app in Hin by discriminate.
  pose proof (geom_level ri os) as Gl. cbn [length] in Hl.
  destruct (snd (geom (ri :: os))) as [|l'] eqn:El; [lia|]. cbn [fst snd pred] in Hin.
  unfold insideN in Hin. apply andb_prop in Hin. destruct Hin as [Hi Hn].
  apply (inside_b_sound u) in Hi. cbn [ppos asP] in Hi.
  pose proof (inside_child_parent u l' (fst (geom (ri :: os))) o (fst x) Hi) as Hpar.
  rewrite g_ins_cons. rewrite El. unfold insideN. rewrite Hn. rewrite inside_b_complete by exact Hpar. reflexivity.
Qed.

(* a subtree that is completely in order is well formed in the sense of Tree.v, w.r.t. the particle array it refers to *)
Lemma full_wf : forall P t p, full XP xd0 g_ins L P (Some t) p -> p <> [] ->
  wf u (fun i => fst (px XP xd0 P i)) (snd (geom p)) (fst (geom p)) t.
Proof.
  intros P t. induction t as [q|n oct IH] using GravityProofs.cell_ind'; intros p F Hp.
  - inversion F as [|? ? Hq|]; subst. rewrite wf_leaf. destruct p as [|ri os]; [congruence|].
    rewrite g_ins_cons in Hq. unfold insideN in Hq. apply andb_prop in Hq. destruct Hq as [Hi _].
    apply (inside_b_sound u) in Hi. exact Hi.
  - inversion F as [| |? ? ? Lo Lp Cn N2 Ch]; subst. destruct p as [|ri os]; [congruence|].
    pose proof (geom_level ri os) as Gl. cbn [length] in Lp.
    destruct (snd (geom (ri :: os))) as [|l'] eqn:El; [lia|].
    rewrite wf_node_S. split; [exact Lo|]. split; [rewrite leaves_node; reflexivity|]. split; [exact N2|].
    intros o d Ho. rewrite Forall_forall in IH.
    assert (Hin : In (Some d) oct) by (eapply nth_error_In; exact Ho).
    specialize (IH (Some d) Hin ((ri :: os) ++ [o])).
    assert (Hnth : nth o oct None = Some d) by (apply nth_error_nth with (d := None) in Ho; exact Ho).
    specialize (Ch o). rewrite Hnth in Ch.
    specialize (IH Ch ltac:(discriminate)). rewrite geom_app in IH by discriminate. rewrite El in IH. cbn [fst snd pred] in IH. exact IH.
Qed.

(* reb_simulation_update_tree, exact arithmetic: every particle accounted for, every root cell well formed *)
Theorem update_tree_wf : forall n0 roots P N st',
  g_update u nx ny nz L (mkS XP (Some (Node n0 roots)) P N) = Some st' ->
  Acc XP xd0 (mkS XP (Some (Node n0 roots)) P N) ->
  length roots = nroot -> (forall ri, free (nth ri roots None)) ->
  Acc XP xd0 st' /\
  exists n1 roots', sF XP st' = Some (Node n1 roots') /\ length roots' = nroot /\
    forall ri t, nth ri roots' None = Some t ->
      wf u (fun i => fst (px XP xd0 (sP XP st') i)) L (rootc_slot u nx ny nz L ri) t.
Proof.
  intros n0 roots P N st' H A Lr Fr.
  assert (Hok : forall i, okx (px XP xd0 P i)) by (intro; apply okx_all).
  destruct (update_tree_accounted XP xd0 g_ins g_octf (g_same) (g_flg) L nroot okx H_oct8 H_oct0 H_route H_up
              n0 roots P N st' H A Hok Lr Fr) as (A' & _ & n1 & roots' & EF & Lo & Fl).
  split; [exact A'|]. exists n1, roots'. split; [exact EF|]. split; [exact Lo|].
  intros ri t Ht. specialize (Fl ri). rewrite Ht in Fl.
  pose proof (full_wf _ t [ri] Fl ltac:(discriminate)) as W. cbn [geom fold_left fst snd] in W. exact W.
Qed.
End Geo.
