(* C15 round 2: the array of root cells (reb_tree_add_particle_to_tree with reb_get_rootbox_for_particle). *)
From Coq Require Import ZArith List Bool Lia ZifyBool Permutation Arith.
From RV Require Import Common.Num C15.Tree C15.Tree2 C15.TreeProofs.
Import ListNotations.
Open Scope Z_scope.

Section ForestP.
Variable u : Z.
Variable pos : nat -> P3.
Variables nx ny nz : Z.
Variable L : nat.
Hypothesis u_pos : 0 < u.
Hypothesis nx_pos : 0 < nx.
Hypothesis ny_pos : 0 < ny.
Hypothesis nz_pos : 0 < nz.
Notation hroot := (hroot u L).
Notation nroot := (nroot nx ny nz).
Notation rootc_slot := (rootc_slot u nx ny nz L).
Notation rootc_new := (rootc_new u nx ny nz L).
Notation slot_of := (slot_of u nx ny nz L).
Notation inbox := (inbox u nx ny nz L).
Notation fadd := (fadd u pos nx ny nz L).
Notation fbuild := (fbuild u pos nx ny nz L).
Notation wf_forest := (wf_forest u pos nx ny nz L).

Lemma hroot_pos : 0 < hroot.
Proof. unfold Tree2.hroot, hw. apply Z.mul_pos_pos; [exact u_pos|]. apply Z.pow_pos_nonneg; lia. Qed.

(* the flattened slot index decodes to the per-axis indices; the slot is inside the array; the root cell of the
   slot has the geometry a new root would get from the particle, and contains the particle *)
Lemma slot_facts : forall p, inbox p ->
  (slot_of p < nroot)%nat /\ rootc_slot (slot_of p) = rootc_new p /\ inside u L (rootc_new p) p.
Proof.
  intros [[x y] z] (Hx & Hy & Hz). pose proof hroot_pos as Hh.
  destruct (root_inside_1d hroot nx x Hh nx_pos Hx) as (Ex & Rx & Ix).
  destruct (root_inside_1d hroot ny y Hh ny_pos Hy) as (Ey & Ry & Iy).
  destruct (root_inside_1d hroot nz z Hh nz_pos Hz) as (Ez & Rz & Iz).
  unfold Tree2.slot_of, rootbox, Tree2.rootc_slot, Tree2.rootc_new, Tree2.nroot.
  set (i := root_idx hroot nx x) in *. set (j := root_idx hroot ny y) in *. set (k := root_idx hroot nz z) in *.
  rewrite <- Ex, <- Ey, <- Ez.
  assert (R0 : 0 <= (k * ny + j) * nx + i) by nia.
  assert (R1 : (k * ny + j) * nx + i < nx * ny * nz).
  { assert (k * ny + j <= (nz - 1) * ny + (ny - 1)) by nia.
    assert ((k * ny + j) * nx <= ((nz - 1) * ny + (ny - 1)) * nx) by (apply Z.mul_le_mono_nonneg_r; lia). nia. }
  split; [lia|]. rewrite Z2Nat.id by exact R0.
  assert (M1 : ((k * ny + j) * nx + i) mod nx = i).
  { rewrite Z.add_comm, Z.mod_add by lia. apply Z.mod_small. lia. }
  assert (D1 : ((k * ny + j) * nx + i) / nx = k * ny + j).
  { rewrite Z.add_comm, Z.div_add by lia. rewrite Z.div_small by lia. lia. }
  assert (M2 : (k * ny + j) mod ny = j) by (rewrite Z.add_comm, Z.mod_add by lia; apply Z.mod_small; lia).
  assert (D2 : (k * ny + j) / ny = k) by (rewrite Z.add_comm, Z.div_add by lia; rewrite Z.div_small by lia; lia).
  rewrite M1, D1, M2, D2. split; [reflexivity|].
  unfold inside, Tree2.hroot in *. repeat split; assumption.
Qed.

Lemma nth_error_repeat_none {A} n ri (t : A) : nth_error (repeat (@None A) n) ri = Some (Some t) -> False.
Proof. intros H. apply nth_error_In in H. apply repeat_spec in H. discriminate. Qed.
Lemma fleaves_empty n : fleaves (repeat None n) = [].
Proof. induction n; cbn; auto. Qed.

Lemma wf_forest_empty : wf_forest (repeat None nroot).
Proof. split; [apply repeat_length|]. intros ri t H. exfalso. eapply nth_error_repeat_none; exact H. Qed.

(* reb_tree_add_particle_to_tree on the whole array of root cells *)
Lemma fadd_wf : forall f p f', wf_forest f -> inbox (pos p) -> fadd f p = Some f' ->
  wf_forest f' /\ Permutation (fleaves f') (p :: fleaves f).
Proof.
  intros f p f' [Lf Wf] Hin HA. unfold Tree2.fadd in HA.
  destruct (slot_facts (pos p) Hin) as (Hs & Hc & Hi).
  set (ri := slot_of (pos p)) in *.
  destruct (add u pos L (rootc_new (pos p)) (nth ri f None) p) as [t'|] eqn:A; [|discriminate].
  injection HA as <-.
  assert (Hnode : owf u pos L (rootc_new (pos p)) (nth ri f None)).
  { destruct (nth ri f None) as [t|] eqn:E; [|exact I]. cbn [owf]. rewrite <- Hc. apply Wf. apply nth_nth_error. exact E. }
  destruct (insert_wf u pos L _ _ p t' Hnode Hi A) as [Wt Pt].
  split.
  - split; [rewrite upd_len; exact Lf|]. intros ri' t'' H.
    destruct (Nat.eq_dec ri ri') as [e|ne].
    + subst ri'. rewrite nth_error_upd_eq in H by lia. injection H as <-. split; [rewrite Hc; exact Wt|].
      intros q Hq. apply (Permutation_in _ Pt) in Hq. destruct Hq as [<-|Hq]; [reflexivity|].
      destruct (nth ri f None) as [t|] eqn:E; [|destruct Hq]. cbn [oleaves] in Hq.
      apply (Wf ri t (nth_nth_error _ _ _ E)). exact Hq.
    + rewrite nth_error_upd_ne in H by exact ne. apply Wf. exact H.
  - unfold fleaves. apply perm_after_add; [lia|exact Pt].
Qed.

Lemma fbuild_wf : forall pts f f', wf_forest f -> Forall (fun p => inbox (pos p)) pts -> fbuild f pts = Some f' ->
  wf_forest f' /\ Permutation (fleaves f') (rev pts ++ fleaves f).
Proof.
  induction pts as [|p pts IH]; intros f f' W Hall HB; cbn [Tree2.fbuild] in HB.
  - injection HB as <-. split; [exact W|apply Permutation_refl].
  - destruct (fadd f p) as [f1|] eqn:A; [|discriminate]. inversion Hall as [|? ? Hp Hr]; subst.
    destruct (fadd_wf f p f1 W Hp A) as [W1 P1]. destruct (IH f1 f' W1 Hr HB) as [W' P'].
    split; [exact W'|]. eapply Permutation_trans; [exact P'|]. cbn [rev]. rewrite <- app_assoc.
    apply Permutation_app_head. exact P1.
Qed.

(* Every particle exactly once over the whole array of root cells, each in the root box whose cell contains it *)
Lemma forest_each_once : forall pts f, NoDup pts -> Forall (fun p => inbox (pos p)) pts ->
  fbuild (repeat None nroot) pts = Some f ->
  wf_forest f /\ NoDup (fleaves f) /\ Permutation (fleaves f) pts.
Proof.
  intros pts f ND Hall HB. destruct (fbuild_wf pts _ f wf_forest_empty Hall HB) as [W P].
  rewrite fleaves_empty, app_nil_r in P.
  assert (P' : Permutation (fleaves f) pts) by (eapply Permutation_trans; [exact P|apply Permutation_sym, Permutation_rev]).
  split; [exact W|]. split; [|exact P']. eapply Permutation_NoDup; [apply Permutation_sym; exact P'|exact ND].
Qed.
End ForestP.
