(* C15 round 4, definitions only: PATH model of the in-place tree update of src/tree.c.

   Same code as C15/Update.v (reb_simulation_update_tree, reb_simulation_update_tree_cell, reb_simulation_add ->
   reb_tree_add_particle_to_tree -> reb_tree_add_particle_to_cell), but a cell is identified by its PATH from the array
   of root cells (root slot :: octants) instead of an allocation id: C never moves a cell and every cell has one
   parent, so pointers to cells and paths are in bijection.  The forest is one pure tree (pseudo-root = the array
   tree_root[N_root]); particles carry their back pointer `c` as a path; leaves hold particle INDICES and the fix-up
   particles[oldpos].c->pt = oldpos is an explicit write through the back pointer.
   The geometry is abstract here: [ins p x] = reb_tree_particle_is_inside_cell for the cell at path p (for p = [] the
   closed box test of reb_simulation_add), [octf p x] = the octant the comparisons choose in the cell at p (for p = []
   reb_get_rootbox_for_particle), [same] = the identical-coordinates test, [flg] = y is NaN.  C15/PathRun.v instantiates
   them with the exact integer geometry of Tree.v.  Result None = the integer resolution is exhausted (or a back pointer does not point to a
   leaf: C would corrupt a node): outside the model.  "Cannot add two particles with the same coordinates" is modelled
   (since /repo 950a4b2): the insertion is refused, the tree and N are unchanged, the particle is not counted. *)
From Coq Require Import ZArith List Bool.
From RV Require Import Common.Num C15.Tree.
Import ListNotations.
Open Scope Z_scope.

Definition path := list nat.

Fixpoint tget (t : option cell) (p : path) : option cell :=
  match p with
  | [] => t
  | o :: p' => match t with Some (Node _ oct) => tget (nth o oct None) p' | _ => None end
  end.
Fixpoint tset (t : option cell) (p : path) (v : option cell) : option cell :=
  match p with
  | [] => v
  | o :: p' => match t with
               | Some (Node n oct) => Some (Node n (upd oct o (tset (nth o oct None) p' v)))
               | _ => t
               end
  end.

(* the recount loop of a node: (number of particles, index of the last leaf child) *)
Definition precount (oct : list (option cell)) : Z * nat :=
  fst (fold_left (fun (acc : Z * nat * nat) (d : option cell) =>
                    let '(cnt, test, o) := acc in
                    match d with
                    | None => (cnt, test, S o)
                    | Some (Leaf _) => (cnt + 1, o, S o)
                    | Some (Node n _) => (cnt + n, test, S o)
                    end) oct (0, 0%nat, 0%nat)).

Section PathModel.
Variable X : Type.
Variable xd : X.
Variable ins : path -> X -> bool.
Variable octf : path -> X -> nat.
Variable same : X -> X -> bool.
Variable flg : X -> bool.
Variable L : nat.            (* level of a root cell *)
Variable nroot : nat.

Definition parts := list (X * path).
Record pst := mkS { sF : option cell; sP : parts; sN : nat }.

Definition px (P : parts) (i : nat) : X := fst (nth i P (xd, [])).
Definition pbp (P : parts) (i : nat) : path := snd (nth i P (xd, [])).
Definition setbp (P : parts) (i : nat) (p : path) : parts := upd P i (px P i, p).
(* particles[i] = v, growing the array when i = length *)
Definition put (P : parts) (i : nat) (v : X * path) : parts :=
  if Nat.ltb i (length P) then upd P i v else P ++ [v].

(* reb_tree_add_particle_to_cell for the cell at path p (fuel = its level) *)
Fixpoint padd (fuel : nat) (p : path) (t : option cell) (P : parts) (pt : nat) : option (option cell * parts) :=
  match t with
  | None => Some (Some (Leaf pt), setbp P pt p)
  | Some (Leaf q) =>
      match fuel with
      | O => None
      | S f =>
          let o1 := octf p (px P q) in
          let o2 := octf p (px P pt) in
          if Nat.eqb o1 o2 && same (px P pt) (px P q) then Some (Some (Leaf q), P)   (* refused: error reported, nothing changes *)
          else
            let oct0 := upd empty8 o1 (Some (Leaf q)) in
            let P1 := setbp P q (p ++ [o1]) in
            match padd f (p ++ [o2]) (nth o2 oct0 None) P1 pt with
            | None => None
            | Some (d, P2) => Some (Some (Node 2 (upd oct0 o2 d)), P2)
            end
      end
  | Some (Node n oct) =>
      match fuel with
      | O => None
      | S f =>
          let o := octf p (px P pt) in
          match padd f (p ++ [o]) (nth o oct None) P pt with
          | None => None
          | Some (d, P1) =>
              (* since /repo 950a4b2: if (particles[pt].c != NULL) node->pt--;  the back pointer [] stands for NULL *)
              match pbp P1 pt with
              | [] => Some (Some (Node n oct), P1)
              | _ :: _ => Some (Some (Node (n + 1) (upd oct o d)), P1)
              end
          end
      end
  end.

(* reb_simulation_add(r, x) as far as the tree is concerned: refused (dropped, error message) outside the box *)
Definition psim_add (st : pst) (x : X) : option pst :=
  if negb (ins [] x) then Some st
  else
    let n := sN st in
    let P := put (sP st) n (x, []) in
    match padd (S L) [] (sF st) P n with
    | None => None
    | Some (F', P') =>
        (* reb_tree_add_particle_to_tree clears particles[N].c (here: the path [] put above) and returns whether a leaf took
           the particle; refused (identical coordinates): return before N++ *)
        match pbp P' n with
        | [] => Some (mkS F' P' n)
        | _ :: _ => Some (mkS F' P' (S n))
        end
    end.

Definition unlink (st : pst) (q : path) : pst := mkS (tset (sF st) q None) (sP st) (sN st).

(* reb_simulation_update_tree_cell for the cell at path p (fuel = its level); bool: the cell is kept (C returns node)
   or freed (C returns NULL; the CALLER then clears the link: node->oct[o] = NULL) *)
Fixpoint pupd (fuel : nat) (p : path) (st : pst) : option (pst * bool) :=
  match tget (sF st) p with
  | None => Some (st, false)
  | Some (Leaf q) =>
      let x := px (sP st) q in
      if ins p x then Some (mkS (sF st) (setbp (sP st) q p) (sN st), true)
      else
        match sN st with
        | O => Some (st, false)
        | S n =>
            let moved := nth n (sP st) (xd, []) in
            let P1 := upd (sP st) q moved in
            match tget (sF st) (snd moved) with
            | Some (Leaf _) =>
                let st1 := mkS (tset (sF st) (snd moved) (Some (Leaf q))) P1 n in
                if flg x then Some (st1, false)
                else match psim_add st1 x with None => None | Some st2 => Some (st2, false) end
            | _ => None
            end
        end
  | Some (Node _ _) =>
      match fuel with
      | O => None
      | S f =>
          match fold_left (fun acc o =>
                             match acc with
                             | None => None
                             | Some st0 => match pupd f (p ++ [o]) st0 with
                                           | None => None
                                           | Some (st', keep) => Some (if keep then st' else unlink st' (p ++ [o]))
                                           end
                             end) (seq 0 8) (Some st) with
          | None => None
          | Some st1 =>
              match tget (sF st1) p with
              | Some (Node _ oct) =>
                  let '(cnt, test) := precount oct in
                  if cnt =? 0 then Some (st1, false)
                  else if cnt =? 1 then
                    match nth test oct None with
                    | Some (Leaf q) => Some (mkS (tset (sF st1) p (Some (Leaf q))) (setbp (sP st1) q p) (sN st1), true)
                    | _ => None
                    end
                  else Some (mkS (tset (sF st1) p (Some (Node cnt oct))) (sP st1) (sN st1), true)
              | _ => None
              end
          end
      end
  end.

(* reb_simulation_update_tree: every root slot in turn *)
Definition pupdate_tree (st : pst) : option pst :=
  fold_left (fun acc ri =>
               match acc with
               | None => None
               | Some st0 => match pupd L [ri] st0 with
                             | None => None
                             | Some (st', keep) => Some (if keep then st' else unlink st' [ri])
                             end
               end) (seq 0 nroot) (Some st).
End PathModel.
