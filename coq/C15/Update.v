(* C15 round 2, definitions only: HEAP model of the in-place tree update of src/tree.c
   (reb_simulation_update_tree -> reb_simulation_update_tree_cell, with reb_simulation_add ->
   reb_tree_add_particle_to_tree -> reb_tree_add_particle_to_cell for the re-insertion during the walk).

   Heap: cells live in a list indexed by cell id (None = freed); a cell stores its centre, pt (>=0: particle
   index of a leaf, <0: -count of a node) and 8 child ids.  Particles store position, the removal flag
   (y = NaN) and the back pointer c (cell id).  particles has the allocated length; N is separate, so that
   particles[N] after N-- is still readable, as in C.  Exact integer-unit geometry as in Tree.v (level passed down).
   herr records reb_simulation_error calls ("same coordinates", "outside of box") and model failures (freed cell
   dereferenced, resolution exhausted) in separate counters. *)
From Coq Require Import ZArith List Bool.
From RV Require Import Common.Num C15.Tree.
Import ListNotations.
Open Scope Z_scope.

Record hcell := mkC { cc : P3; cpt : Z; coct : list (option nat) }.
Record hpart := mkP { ppos : P3; pnan : bool; pc : nat }.
Record hst := mkH { hcells : list (option hcell); hroots : list (option nat); hparts : list hpart; hN : nat;
                    herr_lib : nat; herr_model : nat }.

Definition pdummy : hpart := mkP (0, 0, 0) false 0.
Definition getc (st : hst) (id : nat) : option hcell := nth id (hcells st) None.
Definition getp (st : hst) (i : nat) : hpart := nth i (hparts st) pdummy.
Definition set_cells (st : hst) (cs : list (option hcell)) : hst := mkH cs (hroots st) (hparts st) (hN st) (herr_lib st) (herr_model st).
Definition set_parts (st : hst) (ps : list hpart) : hst := mkH (hcells st) (hroots st) ps (hN st) (herr_lib st) (herr_model st).
Definition set_N (st : hst) (n : nat) : hst := mkH (hcells st) (hroots st) (hparts st) n (herr_lib st) (herr_model st).
Definition set_roots (st : hst) (r : list (option nat)) : hst := mkH (hcells st) r (hparts st) (hN st) (herr_lib st) (herr_model st).
Definition err_lib (st : hst) : hst := mkH (hcells st) (hroots st) (hparts st) (hN st) (S (herr_lib st)) (herr_model st).
Definition err_model (st : hst) : hst := mkH (hcells st) (hroots st) (hparts st) (hN st) (herr_lib st) (S (herr_model st)).
Definition setc (st : hst) (id : nat) (c : hcell) : hst := set_cells st (upd (hcells st) id (Some c)).
Definition freec (st : hst) (id : nat) : hst := set_cells st (upd (hcells st) id None).
Definition set_oct (st : hst) (id o : nat) (r : option nat) : hst :=
  match getc st id with None => err_model st | Some c => setc st id (mkC (cc c) (cpt c) (upd (coct c) o r)) end.
Definition set_pt (st : hst) (id : nat) (v : Z) : hst :=
  match getc st id with None => err_model st | Some c => setc st id (mkC (cc c) v (coct c)) end.
Definition set_pc (st : hst) (i : nat) (id : nat) : hst :=
  let p := getp st i in set_parts st (upd (hparts st) i (mkP (ppos p) (pnan p) id)).
(* particles[i] = p, growing the array when i = length *)
Definition put_part (st : hst) (i : nat) (p : hpart) : hst :=
  if Nat.ltb i (length (hparts st)) then set_parts st (upd (hparts st) i p) else set_parts st (hparts st ++ [p]).

Definition none8 : list (option nat) := repeat None 8.

(* comparisons with a NaN y are false *)
Definition octantN (c : P3) (p : hpart) : nat :=
  let '(cx, cy, cz) := c in let '(px, py, pz) := ppos p in
  ((if (px <? cx)%Z then 1 else 0) + (if negb (pnan p) && (py <? cy)%Z then 2 else 0) + (if (pz <? cz)%Z then 4 else 0))%nat.
Definition sameN (p q : hpart) : bool := same_pos (ppos p) (ppos q) && negb (pnan p) && negb (pnan q).

Section Heap.
Variable u : Z.
Variables nx ny nz : Z.
Variable L : nat.
Variable periodic_box : bool.     (* reb_boundary_particle_is_in_box tests the box (open/periodic/shear) or returns 1 (none) *)

Definition h0 : Z := hw u L.
(* reb_tree_particle_is_inside_cell *)
Definition insideN (l : nat) (c : P3) (p : hpart) : bool := inside_b u l c (ppos p) && negb (pnan p).
(* closed box test of reb_boundary_particle_is_in_box / of reb_simulation_add_local (fabs(x) > boxsize/2); NaN passes *)
Definition in_box_closed (p : hpart) : bool :=
  let '(x, y, z) := ppos p in
  (Z.abs x <=? nx * h0) && (pnan p || (Z.abs y <=? ny * h0)) && (Z.abs z <=? nz * h0).

(* reb_tree_add_particle_to_cell(r, node, pt, parent, o); (l, c): geometry a NEW node would get *)
Fixpoint hadd (l : nat) (c : P3) (st : hst) (node : option nat) (pt : nat) : hst * option nat :=
  match node with
  | None =>
      let id := length (hcells st) in
      let st1 := set_cells st (hcells st ++ [Some (mkC c (Z.of_nat pt) none8)]) in
      (set_pc st1 pt id, Some id)
  | Some id =>
      match getc st id with
      | None => (err_model st, Some id)
      | Some cell =>
          let c0 := cc cell in
          match l with
          | O => (err_model st, Some id)
          | S l' =>
              if 0 <=? cpt cell then
                let q := Z.to_nat (cpt cell) in
                let o1 := octantN c0 (getp st q) in
                let o2 := octantN c0 (getp st pt) in
                if Nat.eqb o1 o2 && sameN (getp st pt) (getp st q) then (err_lib st, Some id)
                else
                  let '(st1, r1) := hadd l' (childc u c0 l' o1) st (nth o1 (coct cell) None) q in
                  let st1 := set_oct st1 id o1 r1 in
                  let oct1 := match getc st1 id with Some c1 => coct c1 | None => none8 end in
                  let '(st2, r2) := hadd l' (childc u c0 l' o2) st1 (nth o2 oct1 None) pt in
                  let st2 := set_oct st2 id o2 r2 in
                  (set_pt st2 id (-2), Some id)
              else
                (* since /repo 950a4b2 the particle is counted after the recursive call and only if it was inserted
                   (particles[pt].c != NULL); a refusal is the only way herr_lib grows inside hadd *)
                let o := octantN c0 (getp st pt) in
                let '(st1, r) := hadd l' (childc u c0 l' o) st (nth o (coct cell) None) pt in
                if Nat.eqb (herr_lib st1) (herr_lib st) then (set_pt (set_oct st1 id o r) id (cpt cell - 1), Some id)
                else (st1, Some id)
          end
      end
  end.

(* reb_simulation_add(r, reinsertme) as far as the tree is concerned *)
Definition hsim_add (st : hst) (p : hpart) : hst :=
  if periodic_box && negb (in_box_closed p) then err_lib st
  else
    let n := hN st in
    let st := put_part st n p in
    if negb (in_box_closed p) then err_lib st
    else
      let ri := Z.to_nat (rootbox h0 nx ny nz (ppos p)) in
      let '(x, y, z) := ppos p in
      let cnew := (root_centre h0 nx (root_idx_new h0 nx x), root_centre h0 ny (root_idx_new h0 ny y),
                   root_centre h0 nz (root_idx_new h0 nz z)) in
      let '(st1, r) := hadd L cnew st (nth ri (hroots st) None) n in
      if Nat.eqb (herr_lib st1) (herr_lib st) then set_N (set_roots st1 (upd (hroots st1) ri r)) (S n)
      else st1.        (* refused by the tree (identical coordinates): return before N++ *)

(* the recount loop of a node: (pt, test) *)
Definition recount (st : hst) (oct : list (option nat)) : Z * nat :=
  fst (fold_left (fun (acc : Z * nat * nat) (d : option nat) =>
                    let '(pt, test, o) := acc in
                    match d with
                    | None => (pt, test, S o)
                    | Some did => match getc st did with
                                  | None => (pt, test, S o)
                                  | Some dc => if 0 <=? cpt dc then (pt - 1, o, S o) else (pt + cpt dc, test, S o)
                                  end
                    end) oct (0, 0%nat, 0%nat)).

(* reb_simulation_update_tree_cell(r, node); l = level of node *)
Fixpoint hupdate (l : nat) (st : hst) (node : option nat) : hst * option nat :=
  match node with
  | None => (st, None)
  | Some id =>
      match getc st id with
      | None => (err_model st, None)
      | Some cell =>
          if cpt cell <? 0 then
            match l with
            | O => (err_model st, Some id)
            | S l' =>
                let st1 := fold_left (fun st o =>
                               let child := match getc st id with Some c1 => nth o (coct c1) None | None => None end in
                               let '(st', r) := hupdate l' st child in
                               set_oct st' id o r) (seq 0 8) st in
                match getc st1 id with
                | None => (err_model st1, None)
                | Some c1 =>
                    let '(pt, test) := recount st1 (coct c1) in
                    if pt =? 0 then (freec st1 id, None)
                    else if pt =? -1 then
                      match nth test (coct c1) None with
                      | None => (err_model st1, Some id)
                      | Some did =>
                          match getc st1 did with
                          | None => (err_model st1, Some id)
                          | Some dc =>
                              let st2 := setc st1 id (mkC (cc c1) (cpt dc) (upd (coct c1) test None)) in
                              let st3 := set_pc st2 (Z.to_nat (cpt dc)) id in
                              (freec st3 did, Some id)
                          end
                      end
                    else (set_pt st1 id pt, Some id)
                end
            end
          else
            let q := Z.to_nat (cpt cell) in
            if insideN l (cc cell) (getp st q) then (set_pc st q id, Some id)
            else
              let reinsertme := getp st q in
              let st1 :=
                match hN st with
                | O => st
                | S n =>
                    let st := set_N st n in
                    let moved := getp st n in
                    let st := set_parts st (upd (hparts st) q moved) in
                    let st := set_pt st (pc moved) (Z.of_nat q) in
                    if pnan reinsertme then st else hsim_add st reinsertme
                end in
              (freec st1 id, None)
      end
  end.

(* reb_simulation_update_tree *)
Definition hupdate_tree (st : hst) : hst :=
  fold_left (fun st i => let '(st', r) := hupdate L st (nth i (hroots st) None) in set_roots st' (upd (hroots st') i r))
            (seq 0 (length (hroots st))) st.

(* abstraction of the heap below a cell id to the functional tree (fuel = level + 1) *)
Fixpoint habs (fuel : nat) (st : hst) (id : nat) : option cell :=
  match fuel with
  | O => None
  | S f =>
      match getc st id with
      | None => None
      | Some c => if 0 <=? cpt c then Some (Leaf (Z.to_nat (cpt c)))
                  else Some (Node (- cpt c) (map (fun d => match d with None => None | Some did => habs f st did end) (coct c)))
      end
  end.
Definition habs_forest (st : hst) : list (option cell) :=
  map (fun r => match r with None => None | Some id => habs (S (S L)) st id end) (hroots st).

(* "no particle left its cell, none flagged, back pointers and counts exact": the state the walk leaves alone *)
Fixpoint stable (l : nat) (st : hst) (id : nat) {struct l} : Prop :=
  match getc st id with
  | None => False
  | Some c =>
      if 0 <=? cpt c then
        insideN l (cc c) (getp st (Z.to_nat (cpt c))) = true /\ pc (getp st (Z.to_nat (cpt c))) = id /\
        (Z.to_nat (cpt c) < length (hparts st))%nat
      else
        match l with
        | O => False
        | S l' => length (coct c) = 8%nat /\ recount st (coct c) = (cpt c, snd (recount st (coct c))) /\ cpt c <= -2 /\
                  forall o did, nth_error (coct c) o = Some (Some did) -> stable l' st did
        end
  end.
End Heap.
