(* C16: chain rule for words of operators.  An operator is given by its real program fR, the SAME program run at dual
   numbers fD (with the dual values chosen for its oracle inputs), and the variational program fV the code executes; it is
   "tangent-correct" on a domain when  value part (fD (x + eps dx)) = fR x  and  dual part (fD (x + eps dx)) = fV x dx.
   Theorem [word_tangent]: for every word of tangent-correct operators whose domains are met along the real trajectory,
   the variational word (each fV fed with the current real state) is the dual part of the real word run at dual numbers:
   the variational particles after a whole split step (drift-kick-drift, with the coordinate transformations in between)
   are the derivative of the numerical map.
   The operators of the WHFast step are shown tangent-correct each on its own state type at the end of this file
   (Jacobi transforms, interaction loop, Kepler step given X and the Stiefel chain rule, first-order variational gravity);
   the re-packing of one common state between these layouts is data movement (copies of coordinates) and is not formalised. *)
From Coq Require Import List ZArith Bool Reals Lra.
From RV Require Import Common.Num Common.RealNum C03.Model C12.Model C16.Dual C16.KeplerVar C16.WhInteraction C16.JacobiTangent.
Import ListNotations.
Open Scope R_scope.

Section Word.
Variables (SR SD : Type).                    (* real states, dual states (= states of the same program at dual numbers) *)
Variables (val dual : SD -> SR).             (* value part and dual part of a dual state *)

Record Op : Type := mkOp {
  fR : SR -> SR; fD : SD -> SD; fV : SR -> SR -> SR; dom : SR -> Prop;
  ok : forall s, dom (val s) -> val (fD s) = fR (val s) /\ dual (fD s) = fV (val s) (dual s) }.

Fixpoint runR (w : list Op) (x : SR) : SR := match w with [] => x | o :: r => runR r (fR o x) end.
Fixpoint runD (w : list Op) (s : SD) : SD := match w with [] => s | o :: r => runD r (fD o s) end.
(* the variational word: every operator sees the real state as it is at that point of the step *)
Fixpoint runV (w : list Op) (x dx : SR) : SR := match w with [] => dx | o :: r => runV r (fR o x) (fV o x dx) end.
Fixpoint domW (w : list Op) (x : SR) : Prop := match w with [] => True | o :: r => dom o x /\ domW r (fR o x) end.

Theorem word_tangent : forall (w : list Op) (s : SD), domW w (val s) ->
  val (runD w s) = runR w (val s) /\ dual (runD w s) = runV w (val s) (dual s).
Proof.
  induction w as [|o r IH]; intros s H; cbn in *.
  - split; reflexivity.
  - destruct H as [Hd Hr]. destruct (ok o s Hd) as [E1 E2].
    rewrite <- E1 in Hr. destruct (IH (fD o s) Hr) as [I1 I2]. rewrite I1, I2, E1, E2. split; reflexivity.
Qed.
End Word.
Arguments mkOp {SR SD val dual} _ _ _ _ _.
Arguments fR {SR SD val dual} _ _.
Arguments fD {SR SD val dual} _ _.
Arguments fV {SR SD val dual} _ _ _.
Arguments dom {SR SD val dual} _ _.
Arguments ok {SR SD val dual} _ _ _.
Arguments runR {SR SD val dual} _ _.
Arguments runD {SR SD val dual} _ _.
Arguments runV {SR SD val dual} _ _ _.
Arguments domW {SR SD val dual} _ _.

(* ---------------------------------------------------------------- the operators of the WHFast step are tangent-correct *)
Definition lval (l : list (R * R)) : list R := map fst l.
Definition ldual (l : list (R * R)) : list R := map snd l.

(* 1. Jacobi forward transform of one component (masses ms, N_active na) *)
Lemma combine_firstn_val k (mr : list R) (qr : list (R * R)) :
  combine (firstn k mr) (firstn k (map fst qr)) = valA (combine (firstn k mr) (firstn k qr)).
Proof. revert mr qr; induction k as [|k IH]; intros [|m mr] [|q qr]; cbn; auto. now rewrite IH. Qed.

Lemma jac_fwd_value (ms : list R) (qds : list (R * R)) (na : nat) :
  map fst (fst (jac_fwd DR (map cD ms) qds na)) = fst (jac_fwd RNum ms (map fst qds) na).
Proof.
  destruct ms as [|m0 mr], qds as [|[q0 dq0] qr]; cbn [jac_fwd map]; try reflexivity.
  rewrite combine_firstn_lift, combine_firstn_val.
  pose proof (jac_fwd_act_tangent (combine (firstn (na - 1) mr) (firstn (na - 1) qr)) (cD m0) (nmul DR (cD m0) (q0, dq0)) eq_refl) as H.
  cbn zeta in H. change (fst (cD m0)) with m0 in H. change (fst (nmul DR (cD m0) (q0, dq0))) with (m0 * q0) in H.
  cbn [nmul RNum]. change (fst (q0, dq0)) with q0.
  destruct (jac_fwd_act DR _ (cD m0) _) as [oD [eD sD]].
  destruct (jac_fwd_act RNum (varA _) m0 _) as [oV [eV sV]].
  destruct (jac_fwd_act RNum (valA _) m0 (m0 * q0)) as [oR [eR sR]].
  cbn [fst snd] in *. destruct H as [_ [I2 [I3 [_ [I5 [_ I7]]]]]].
  cbn [map]. f_equal.
  - cbn. rewrite <- I5, <- I7. reflexivity.
  - rewrite map_app. f_equal; [exact I2|].
    unfold jac_fwd_tp. rewrite skipn_map, !map_map. apply map_ext. intros [q dq]. cbn. rewrite <- I5, <- I7. reflexivity.
Qed.

Definition OpJacFwd (ms : list R) (na : nat) : @Op (list R) (list (R * R)) lval ldual.
Proof.
  refine (mkOp (fun q => fst (jac_fwd RNum ms q na)) (fun qd => fst (jac_fwd DR (map cD ms) qd na))
               (fun _ dq => fst (jac_fwd RNum ms dq na)) (fun q => True) _).
  intros s _. unfold lval, ldual. split.
  - apply jac_fwd_value.
  - apply (proj1 (jac_fwd_tangent ms s na)).
Defined.

(* 2. the interaction kick of one Jacobi particle (accelerations and eta as they are at that point) *)
Definition jval (p : @JP (R * R)) : @JP R :=
  let f := fun v : @W3 (R * R) => let '(a, b, c) := v in (fst a, fst b, fst c) in mkJP (f (jx p)) (f (jv p)) (f (ja p)).
Definition jdual (p : @JP (R * R)) : @JP R := mkJP (dp3w (jx p)) (dp3w (jv p)) (dp3w (ja p)).

Definition OpWhKick (G dt soft eta : R) (jac : bool) : @Op (@JP R) (@JP (R * R)) jval jdual.
Proof.
  refine (mkOp (fun p => mkJP (jx p) (wh_real RNum G dt soft eta jac p) (ja p))
               (fun p => mkJP (jx p) (wh_real DR (dconst RNum G) (dconst RNum dt) (dconst RNum soft) (dconst RNum eta) jac p) (ja p))
               (fun p dp => mkJP (jx dp) (wh_var RNum G dt soft eta jac p dp) (ja dp))
               (fun p => jac = true -> 0 < r2soft soft p) _).
  intros s Hd.
  destruct s as [[[[x dx] [y dy]] [z dz]] [[[vx dvx] [vy dvy]] [vz dvz]] [[[ax dax] [ay day]] [az daz]]].
  split.
  - unfold jval, wh_real. cbn [jx jv ja]. destruct jac; reflexivity.
  - unfold jdual. cbn [jx jv ja dp3w]. f_equal.
    symmetry.
    exact (wh_var_is_dual_part G dt soft eta jac (mkJP (x, y, z) (vx, vy, vz) (ax, ay, az))
             (mkJP (dx, dy, dz) (dvx, dvy, dvz) (dax, day, daz)) Hd).
Defined.

(* 3. the Kepler step of one Jacobi particle, given an oracle for (X, G0..G5) (the solver + stiefel_Gs) whose dual parts
      follow the Stiefel chain rule with dX from the linearised Kepler equation *)
Definition vp6 (v : @S6 (R * R)) : @S6 R := let '(a, b, c, d, e, f) := v in (fst a, fst b, fst c, fst d, fst e, fst f).
Definition G6 : Type := (R * R * R * R * R * R * R)%type.       (* X, G0, G1, G2, G3, G4, G5 *)

Section Kep.
Variables (M dt : R) (orc : @S6 R -> G6).
(* the oracle agrees with the code: G0..G5 are what stiefel_Gs returns at (beta, X) *)
Definition orc_ok (p : @S6 R) : Prop :=
  let '(X, G0, G1, G2, G3, G4, G5) := orc p in
  k_r0 RNum p <> 0 /\ k_r0 RNum p + (k_eta0 RNum p * G1 + k_zeta0 RNum p M * G2) <> 0 /\
  exists hang, stiefel_Gs RNum (k_beta RNum p M) X = ((G0, G1, G2, G3, G4, G5), hang).
Definition kepR (p : @S6 R) : @S6 R := let '(X, G0, G1, G2, G3, G4, G5) := orc p in kstep RNum p M dt G1 G2 G3.
Definition kepD (s : @S6 (R * R)) : @S6 (R * R) :=
  let p := vp6 s in let dp := dp6 s in
  let '(X, G0, G1, G2, G3, G4, G5) := orc p in
  let dX := k_dX p dp M X G1 G2 G3 G4 G5 in
  kstep DR s (dconst RNum M) (dconst RNum dt)
    (GD p dp M G1 G0 (1 / 2 * (G3 - X * G2)) dX) (GD p dp M G2 G1 (1 / 2 * (2 * G4 - X * G3)) dX)
    (GD p dp M G3 G2 (1 / 2 * (3 * G5 - X * G4)) dX).
Definition kepV (p dp : @S6 R) : @S6 R :=
  let '(X, G0, G1, G2, G3, G4, G5) := orc p in
  let r0 := k_r0 RNum p in
  let ri := 1 / (r0 + (k_eta0 RNum p * G1 + k_zeta0 RNum p M * G2)) in
  fst (kepler_variation RNum p dp M dt (k_beta RNum p M) X ri (fg_coeffs RNum M dt (1 / r0) ri G1 G2 G3)).

Lemma lift6_vp_dp (s : @S6 (R * R)) : lift6 (vp6 s) (dp6 s) = s.
Proof. destruct s as [[[[[[a a'] [b b']] [c c']] [d d']] [e e']] [f f']]. reflexivity. Qed.

Definition OpKepler : @Op (@S6 R) (@S6 (R * R)) vp6 dp6.
Proof.
  refine (mkOp kepR kepD kepV orc_ok _).
  intros s Hd. unfold kepR, kepD, kepV, orc_ok in *.
  destruct (orc (vp6 s)) as [[[[[[X G0] G1] G2] G3] G4] G5]. destruct Hd as [H0 [H1 [hang HG]]].
  split.
  - destruct s as [[[[[[x dx] [y dy]] [z dz]] [vx dvx]] [vy dvy]] [vz dvz]]. reflexivity.
  - rewrite (kepler_tangent (vp6 s) (dp6 s) M dt X G0 G1 G2 G3 G4 G5 H0 H1 hang HG).
    rewrite lift6_vp_dp. reflexivity.
Defined.
End Kep.

(* ---------------------------------------------------------------- a concrete word: drift-kick-drift of one Jacobi particle *)
(* state = one Jacobi particle (x, v, a) with its Jacobi acceleration as it is when the kick is applied (in the full step
   it is recomputed from all particles by the gravity routine and C12's acc transform before the kick; those operators
   act on the product state of all particles and are covered by C16_var1_is_dual_part and OpJacFwd) *)
Section OneParticle.
Context {T : Type}.
Definition to6 (p : @JP T) : @S6 T := let '(x, y, z) := jx p in let '(vx, vy, vz) := jv p in (x, y, z, vx, vy, vz).
Definition of6 (s : @S6 T) (p : @JP T) : @JP T := let '(x, y, z, vx, vy, vz) := s in mkJP (x, y, z) (vx, vy, vz) (ja p).
End OneParticle.

Lemma to6_val s : to6 (jval s) = vp6 (to6 s).
Proof. destruct s as [[[[x dx] [y dy]] [z dz]] [[[vx dvx] [vy dvy]] [vz dvz]] a]. reflexivity. Qed.
Lemma to6_dual s : to6 (jdual s) = dp6 (to6 s).
Proof. destruct s as [[[[x dx] [y dy]] [z dz]] [[[vx dvx] [vy dvy]] [vz dvz]] a]. reflexivity. Qed.
Lemma of6_val u s : jval (of6 u s) = of6 (vp6 u) (jval s).
Proof. destruct u as [[[[[[x dx] [y dy]] [z dz]] [vx dvx]] [vy dvy]] [vz dvz]], s as [jx0 jv0 [[a b] c]]. reflexivity. Qed.
Lemma of6_dual u s : jdual (of6 u s) = of6 (dp6 u) (jdual s).
Proof. destruct u as [[[[[[x dx] [y dy]] [z dz]] [vx dvx]] [vy dvy]] [vz dvz]], s as [jx0 jv0 [[a b] c]]. reflexivity. Qed.

Definition OpKepJP (M dt : R) (orc : @S6 R -> G6) : @Op (@JP R) (@JP (R * R)) jval jdual.
Proof.
  refine (mkOp (fun p => of6 (kepR M dt orc (to6 p)) p) (fun s => of6 (kepD M dt orc (to6 s)) s)
               (fun p dp => of6 (kepV M dt orc (to6 p) (to6 dp)) dp) (fun p => orc_ok M orc (to6 p)) _).
  intros s Hd. rewrite to6_val in Hd.
  destruct (ok (OpKepler M dt orc) (to6 s) Hd) as [E1 E2]. cbn [fR fD fV OpKepler] in E1, E2.
  split.
  - rewrite of6_val, E1, to6_val. reflexivity.
  - rewrite of6_dual, E2, to6_val, to6_dual. reflexivity.
Defined.

(* WHFast's D(dt/2) K(dt) D(dt/2) for one Jacobi particle: the variational particle after the three variational operators is
   the dual part of the three real operators run at dual numbers, i.e. the derivative of the numerical map.
   Remaining hypotheses, all inside domW: at each drift r0 <> 0, r0 + eta0 G1 + zeta0 G2 <> 0 and the oracle returns what
   stiefel_Gs returns; at the kick r^2 + softening^2 > 0; and, inside kepD, the ASSUMED Stiefel chain rule. *)
Theorem dkd_one_particle_tangent (M dt G soft eta : R) (jac : bool) (orc1 orc2 : @S6 R -> G6) (s : @JP (R * R)) :
  let w := [OpKepJP M (dt / 2) orc1; OpWhKick G dt soft eta jac; OpKepJP M (dt / 2) orc2] in
  domW w (jval s) ->
  jval (runD w s) = runR w (jval s) /\ jdual (runD w s) = runV w (jval s) (jdual s).
Proof. intros w H. apply word_tangent. exact H. Qed.
