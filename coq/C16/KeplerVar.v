(* C16: the variational block of reb_whfast_kepler_solver (C03.Model.kepler_variation, bit-exact with the C code) is the
   tangent map of the Kepler f-g step with respect to the initial state, GIVEN the solved X.

   The differentiated program [kstep] is the last block of C03's kepler_solver (fg_update, the same Gallina term) fed
   with the quantities the solver derives from the state (r0, beta, eta0, zeta0, ri = 1/(r0 + eta0 G1 + zeta0 G2)).
   It is run at dual numbers on  p1 + eps dp  with
     * X + eps dX, where dX is the code's value; [kepler_dX_unique] shows it is the unique solution of the linearised
       universal Kepler equation  d(r0 X + eta0 G2 + zeta0 G3 - dt) = 0;
     * G_n + eps (G_{n-1} dX + Gnbeta dbeta), n = 1,2,3: ASSUMED chain rule for the Stiefel functions
       dG_n/dX = G_{n-1},  dG_n/dbeta = (n G_{n+2} - X G_{n+1})/2.  These identities hold for the exact functions; the
       code evaluates them by truncated series (stiefel_Gs), for which they are not proved here.  G0..G5 are whatever
       stiefel_Gs returns; the theorem is algebraic in them.
   dbeta, dr0, deta0, dzeta0 are NOT assumed: they are the dual parts of the dual run itself. *)
From Coq Require Import ZArith Reals Lra.
From RV Require Import Common.Num Common.RealNum C03.Model C16.Dual.
Open Scope R_scope.

Section KStep.
Context {T : Type} (N : Num T).
Local Notation "a + b" := (nadd N a b).
Local Notation "a - b" := (nsub N a b).
Local Notation "a * b" := (nmul N a b).
Local Notation "a / b" := (ndiv N a b).
Definition S6 : Type := (T * T * T * T * T * T)%type.
Definition k_r0 (p : S6) : T := let '(x, y, z, vx, vy, vz) := p in nsqrt N (x * x + y * y + z * z).
Definition k_eta0 (p : S6) : T := let '(x, y, z, vx, vy, vz) := p in x * vx + y * vy + z * vz.
Definition k_beta (p : S6) (M : T) : T :=
  let '(x, y, z, vx, vy, vz) := p in
  (nofZ N 2) * M * (none N / k_r0 p) - (vx * vx + vy * vy + vz * vz).
Definition k_zeta0 (p : S6) (M : T) : T := M - k_beta p M * k_r0 p.
(* residual of the universal Kepler equation (the quantity `s` of the bisection loop) *)
Definition k_res (p : S6) (M dt X G2 G3 : T) : T := k_r0 p * X + k_eta0 p * G2 + k_zeta0 p M * G3 - dt.
(* the f-g step given the Stiefel values *)
Definition kstep (p : S6) (M dt G1 G2 G3 : T) : S6 :=
  let r0 := k_r0 p in
  let ri := none N / (r0 + (k_eta0 p * G1 + k_zeta0 p M * G2)) in
  fg_update N M dt (none N / r0) ri G1 G2 G3 p.
End KStep.

Definition dp6 (v : @S6 (R * R)) : @S6 R :=
  let '(a, b, c, d, e, f) := v in (snd a, snd b, snd c, snd d, snd e, snd f).
Definition lift6 (p dp : @S6 R) : @S6 (R * R) :=
  let '(x, y, z, vx, vy, vz) := p in let '(dx, dy, dz, dvx, dvy, dvz) := dp in
  ((x, dx), (y, dy), (z, dz), (vx, dvx), (vy, dvy), (vz, dvz)).

Section Tangent.
Variables (p1 dp : @S6 R) (M dt X G0 G1 G2 G3 G4 G5 : R).
Let pD := lift6 p1 dp.
Let cM := dconst RNum M.
Let r0 := k_r0 RNum p1.
Let eta0 := k_eta0 RNum p1.
Let beta := k_beta RNum p1 M.
Let zeta0 := k_zeta0 RNum p1 M.
Let ri := 1 / (r0 + (eta0 * G1 + zeta0 * G2)).
(* dual parts produced by the dual run *)
Let dr0 := snd (k_r0 DR pD).
Let deta0 := snd (k_eta0 DR pD).
Let dbeta := snd (k_beta DR pD cM).
Let dzeta0 := snd (k_zeta0 DR pD cM).
Let G1beta := 1 / 2 * (G3 - X * G2).
Let G2beta := 1 / 2 * (2 * G4 - X * G3).
Let G3beta := 1 / 2 * (3 * G5 - X * G4).
(* the code's dX *)
Definition k_dX : R := - 1 * ri * (X * dr0 + G2 * deta0 + G3 * dzeta0 + (eta0 * G2beta + zeta0 * G3beta) * dbeta).
(* Stiefel functions moved by the chain rule (assumed identities) *)
Definition GD (Gn Gnm1 Gnbeta dX : R) : R * R := (Gn, Gnm1 * dX + Gnbeta * dbeta).

Hypothesis Hr0 : r0 <> 0.
Hypothesis Hri : r0 + (eta0 * G1 + zeta0 * G2) <> 0.

(* side conditions of [field]: s <> 0 and the denominator of ri, possibly after simplification of (1/s)*s *)
Ltac kside :=
  repeat split; try assumption; try lra;
  try (let Z := fresh "Z" in intros Z; apply Hri; rewrite <- Z; field; assumption).

Lemma kepler_dX_unique : forall dX : R,
  snd (k_res DR pD cM (dconst RNum dt) (X, dX) (GD G2 G1 G2beta dX) (GD G3 G2 G3beta dX)) = 0 <-> dX = k_dX.
Proof.
  intros dX. unfold k_dX, GD, dbeta, dzeta0, deta0, dr0, ri, G3beta, G2beta, zeta0, eta0, r0 in *.
  unfold k_res, k_zeta0, k_beta, k_eta0, k_r0, pD, lift6, cM in *.
  destruct p1 as [[[[[x y] z] vx] vy] vz], dp as [[[[[dx dy] dz] dvx] dvy] dvz].
  cbn in *. remember (sqrt (x * x + y * y + z * z)) as s eqn:Es. clear Es.
  split.
  - intros L. apply (Rmult_eq_reg_r (s + ((x * vx + y * vy + z * vz) * G1 + (M - (2 * M * (1 / s) - (vx * vx + vy * vy + vz * vz)) * s) * G2)));
      [|exact Hri].
    apply Rminus_diag_uniq. eapply eq_trans; [|exact L]. field. kside.
  - intros ->. field. kside.
Qed.

Theorem kepler_tangent :
  forall hang, stiefel_Gs RNum beta X = ((G0, G1, G2, G3, G4, G5), hang) ->
  fst (kepler_variation RNum p1 dp M dt beta X ri (fg_coeffs RNum M dt (1 / r0) ri G1 G2 G3)) =
  dp6 (kstep DR pD cM (dconst RNum dt) (GD G1 G0 G1beta k_dX) (GD G2 G1 G2beta k_dX) (GD G3 G2 G3beta k_dX)).
Proof.
  intros hang HG. unfold kepler_variation. 
  unfold k_dX, GD, dbeta, dzeta0, deta0, dr0, ri, G3beta, G2beta, G1beta, zeta0, beta, eta0, r0 in *.
  unfold kstep, k_zeta0, k_beta, k_eta0, k_r0, pD, lift6, cM, fg_update, fg_apply, fg_coeffs, dp6 in *.
  destruct p1 as [[[[[x y] z] vx] vy] vz], dp as [[[[[dx dy] dz] dvx] dvy] dvz].
  cbn [nsqrt nmul nadd nsub ndiv nneg none nofZ RNum] in HG |- *.
  rewrite HG. cbn. unfold c_half, cz, ndec. cbn.
  cbn in Hr0, Hri.
  remember (sqrt (x * x + y * y + z * z)) as s eqn:Es. clear Es HG.
  repeat match goal with |- (_, _) = (_, _) => f_equal end; field; kside.
Qed.
End Tangent.
