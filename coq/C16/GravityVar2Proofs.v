(* C16: the SECOND-order variational force loop is the mixed second dual part (coefficient of e1*e2) of the
   Newtonian pair loop over the same iteration space, instantiated at nested duals DNum (DNum RNum):
   particle = p + a e1 + b e2 + w e1 e2   (a, b: the two first-order sets, w: the second-order set). *)
From Coq Require Import List ZArith Bool Reals Lra Lia PeanoNat.
From RV Require Import Common.Num Common.RealNum C02.Model C16.Dual C16.GravityVar C16.GravityVarProofs.
Import ListNotations.
Open Scope R_scope.

Notation DD := ((R * R) * (R * R))%type.
Notation DD3 := (@T3 DD).
Definition mix3 (v : DD3) : R * R * R := let '(a, b, c) := v in (dd_mix a, dd_mix b, dd_mix c).

(* p + a e1 + b e2 + w e1e2 *)
Definition ddlift (p a b w : Part R) : Part DD :=
  mkP (dd (pm p) (pm a) (pm b) (pm w)) (dd (px p) (px a) (px b) (px w))
      (dd (py p) (py a) (py b) (py w)) (dd (pz p) (pz a) (pz b) (pz w)).
Definition Q4 : Type := (Part R * Part R * Part R * Part R)%type.
Definition q_p (q : Q4) : Part R := fst (fst (fst q)).
Definition q_a (q : Q4) : Part R := snd (fst (fst q)).
Definition q_b (q : Q4) : Part R := snd (fst q).
Definition q_w (q : Q4) : Part R := snd q.
Definition ddlifts (qs : list Q4) : list (Part DD) := map (fun q => ddlift (q_p q) (q_a q) (q_b q) (q_w q)) qs.
Definition QQ0 : Q4 := (Z0P RNum, Z0P RNum, Z0P RNum, Z0P RNum).
Definition GDD (G : R) : DD := dd G 0 0 0.
Definition softDD (soft : R) : DD := dd (soft * soft) 0 0 0.

Lemma nth_ddlifts qs i :
  nth_d (Z0P DDR) (ddlifts qs) i =
  ddlift (nth_d (Z0P RNum) (map q_p qs) i) (nth_d (Z0P RNum) (map q_a qs) i)
         (nth_d (Z0P RNum) (map q_b qs) i) (nth_d (Z0P RNum) (map q_w qs) i).
Proof.
  unfold ddlifts.
  change (Z0P DDR) with ((fun q => ddlift (q_p q) (q_a q) (q_b q) (q_w q)) QQ0).
  rewrite nth_d_map.
  change (Z0P RNum) with (q_p QQ0) at 1. rewrite nth_d_map.
  change (Z0P RNum) with (q_a QQ0) at 1. rewrite nth_d_map.
  change (Z0P RNum) with (q_b QQ0) at 1. rewrite nth_d_map.
  change (Z0P RNum) with (q_w QQ0). rewrite nth_d_map. reflexivity.
Qed.

Lemma var2_terms_dual (G soft : R) (pi pj wi wj ai aj bi bj : Part R) :
  sep2 soft pi pj <> 0 ->
  let '(tiD, tjD) := newt_terms DDR (softDD soft) (GDD G) (ddlift pi ai bi wi) (ddlift pj aj bj wj) in
  let '(ti, tj) := var2_terms RNum (soft * soft) G pi pj wi wj ai aj bi bj in
  mix3 tiD = ti /\ mix3 tjD = (let '(a, b, c) := tj in (- a, - b, - c)).
Proof.
  intros Hne.
  destruct pi as [mi xi yi zi], pj as [mj xj yj zj], wi as [wmi wxi wyi wzi], wj as [wmj wxj wyj wzj],
           ai as [ami axi ayi azi], aj as [amj axj ayj azj], bi as [bmi bxi byi bzi], bj as [bmj bxj byj bzj].
  remember (sep2 soft (mkP mi xi yi zi) (mkP mj xj yj zj)) as r2 eqn:Er2.
  assert (Hr2 : 0 <= r2) by (subst r2; apply sep2_nonneg).
  cbn. unfold sep2 in Er2. cbn in Er2. rewrite <- Er2.
  remember (sqrt r2) as s eqn:Es.
  assert (Hs : s * s = r2) by (subst s; apply sqrt_sqrt; exact Hr2).
  assert (Hs0 : s <> 0) by (intros E; apply Hne; rewrite <- Hs, E; ring).
  clear Es Hr2 Hne. rewrite <- Hs. clear Hs Er2 r2.
  unfold dd_mix. cbn.
  split; (f_equal; [f_equal|]); field; exact Hs0.
Qed.

Lemma add3_mix (accD : list DD3) k (t : DD3) :
  map mix3 (add3 DDR accD k t) = add3 RNum (map mix3 accD) k (mix3 t).
Proof.
  unfold add3. change (t0 RNum) with (mix3 (t0 DDR)). rewrite nth_d_map.
  destruct (nth_d (t0 DDR) accD k) as [[ax ay] az]. destruct t as [[tx ty] tz].
  rewrite map_upd. reflexivity.
Qed.

Lemma newt_pair_dual (G soft : R) qs i j (accD : list DD3) :
  sep2 soft (nth_d (Z0P RNum) (map q_p qs) i) (nth_d (Z0P RNum) (map q_p qs) j) <> 0 ->
  map mix3 (newt_pair DDR (softDD soft) (GDD G) (ddlifts qs) i j accD)
  = var2_pair RNum (soft * soft) G (map q_p qs) (map q_w qs) (map q_a qs) (map q_b qs) i j (map mix3 accD).
Proof.
  intros Hne. unfold newt_pair, var2_pair. rewrite !nth_ddlifts.
  pose proof (var2_terms_dual G soft _ _ (nth_d (Z0P RNum) (map q_w qs) i) (nth_d (Z0P RNum) (map q_w qs) j)
                (nth_d (Z0P RNum) (map q_a qs) i) (nth_d (Z0P RNum) (map q_a qs) j)
                (nth_d (Z0P RNum) (map q_b qs) i) (nth_d (Z0P RNum) (map q_b qs) j) Hne) as H.
  revert H.
  destruct (newt_terms DDR _ _ _ _) as [tiD tjD].
  destruct (var2_terms RNum _ _ _ _ _ _ _ _ _ _) as [ti tj]. intros [Hi Hj].
  rewrite !add3_mix, Hi, Hj. apply add3_neg.
Qed.

(* second order, all N: particles p + a e1 + b e2 + w e1e2, all pairs at distinct positions *)
Theorem var2_is_mixed_dual_part (G soft : R) (qs : list Q4) :
  distinct soft (map q_p qs) ->
  map mix3 (grav_allpairs DDR (softDD soft) (GDD G) (ddlifts qs))
  = grav_var2 RNum (soft * soft) G (map q_p qs) (map q_w qs) (map q_a qs) (map q_b qs).
Proof.
  intros Hd. unfold grav_allpairs, grav_var2.
  assert (Hlen : length (ddlifts qs) = length (map q_p qs)) by (unfold ddlifts; now rewrite !map_length).
  rewrite Hlen.
  apply (for_range_rel (fun (aD : list DD3) a => map mix3 aD = a)).
  - intros i aD a Hi E. apply (for_range_rel (fun (aD : list DD3) a => map mix3 aD = a)); [|exact E].
    intros j bD b Hj E2. rewrite <- E2. apply newt_pair_dual.
    (* distinct is stated for j < i; the pair here is (i, j) with i < j: sep2 is symmetric *)
    assert (Hsym : forall p q, sep2 soft p q = sep2 soft q p) by (intros; unfold sep2; ring).
    rewrite Hsym. apply Hd. lia.
  - rewrite map_repeat. reflexivity.
Qed.

(* the value part and the two first-order parts of the same nested-dual run are the Newtonian force and its
   two first derivatives: consistency of the nesting (value part shown; it is what ties e1e2 to the SAME
   trajectory whose first-order parts are the sets a and b) *)
Definition val3 (v : DD3) : R * R * R := let '(a, b, c) := v in (dd_val a, dd_val b, dd_val c).
Lemma add3_val (accD : list DD3) k (t : DD3) :
  map val3 (add3 DDR accD k t) = add3 RNum (map val3 accD) k (val3 t).
Proof.
  unfold add3. change (t0 RNum) with (val3 (t0 DDR)). rewrite nth_d_map.
  destruct (nth_d (t0 DDR) accD k) as [[ax ay] az]. destruct t as [[tx ty] tz].
  rewrite map_upd. reflexivity.
Qed.
Theorem dd_value_part_is_newton (G soft : R) (qs : list Q4) :
  map val3 (grav_allpairs DDR (softDD soft) (GDD G) (ddlifts qs)) = grav_allpairs RNum (soft * soft) G (map q_p qs).
Proof.
  unfold grav_allpairs.
  assert (Hlen : length (ddlifts qs) = length (map q_p qs)) by (unfold ddlifts; now rewrite !map_length).
  rewrite Hlen.
  apply (for_range_rel (fun (aD : list DD3) a => map val3 aD = a)).
  - intros i aD a Hi E. apply (for_range_rel (fun (aD : list DD3) a => map val3 aD = a)); [|exact E].
    intros j bD b Hj E2. rewrite <- E2. unfold newt_pair. rewrite !nth_ddlifts.
    destruct (nth_d (Z0P RNum) (map q_p qs) i) as [mi xi yi zi], (nth_d (Z0P RNum) (map q_p qs) j) as [mj xj yj zj].
    cbn -[add3]. rewrite !add3_val. reflexivity.
  - rewrite map_repeat. reflexivity.
Qed.

(* ---------------------------------------------------------------- second order, test-particle variation *)
Definition cclifts (ps : list (Part R)) : list (Part DD) :=
  map (fun p => ddlift p (Z0P RNum) (Z0P RNum) (Z0P RNum)) ps.
Lemma nth_cclifts ps j :
  nth_d (Z0P DDR) (cclifts ps) j = ddlift (nth_d (Z0P RNum) ps j) (Z0P RNum) (Z0P RNum) (Z0P RNum).
Proof.
  unfold cclifts. change (Z0P DDR) with ((fun p => ddlift p (Z0P RNum) (Z0P RNum) (Z0P RNum)) (Z0P RNum)).
  now rewrite nth_d_map.
Qed.

Lemma var2_tp_step_dual (G soft : R) ps (x y z ax ay az bx by_ bz wx wy wz : R) i j (aD : DD3) :
  (x, y, z) = (px (nth_d (Z0P RNum) ps i), py (nth_d (Z0P RNum) ps i), pz (nth_d (Z0P RNum) ps i)) ->
  sep2 soft (nth_d (Z0P RNum) ps i) (nth_d (Z0P RNum) ps j) <> 0 ->
  mix3 (acc_on_step DDR (softDD soft) (GDD G) (cclifts ps) (dd x ax bx wx, dd y ay by_ wy, dd z az bz wz) j aD)
  = var2_tp_step RNum (soft * soft) G ps (wx, wy, wz) (ax, ay, az) (bx, by_, bz) i j (mix3 aD).
Proof.
  intros Exyz Hne. unfold acc_on_step, var2_tp_step. rewrite nth_cclifts.
  destruct (nth_d (Z0P RNum) ps i) as [mi xi yi zi]. destruct (nth_d (Z0P RNum) ps j) as [mj xj yj zj].
  cbn in Exyz. injection Exyz as -> -> ->.
  destruct aD as [[[[a1 a2] [a3 a4]] [[b1 b2] [b3 b4]]] [[c1 c2] [c3 c4]]].
  remember (sep2 soft (mkP mi xi yi zi) (mkP mj xj yj zj)) as r2 eqn:Er2.
  assert (Hr2 : 0 <= r2) by (subst r2; apply sep2_nonneg).
  cbn. unfold sep2 in Er2. cbn in Er2. rewrite <- Er2.
  remember (sqrt r2) as s eqn:Es.
  assert (Hs : s * s = r2) by (subst s; apply sqrt_sqrt; exact Hr2).
  assert (Hs0 : s <> 0) by (intros E; apply Hne; rewrite <- Hs, E; ring).
  clear Es Hr2 Hne. rewrite <- Hs. clear Hs Er2 r2.
  unfold dd_mix. cbn.
  f_equal; [f_equal|]; field; exact Hs0.
Qed.

Theorem var2_testparticle_is_mixed_dual_part (G soft : R) (ps : list (Part R)) (ax ay az bx by_ bz wx wy wz : R) (i : nat) :
  (forall j, (j < length ps)%nat -> j <> i ->
             sep2 soft (nth_d (Z0P RNum) ps i) (nth_d (Z0P RNum) ps j) <> 0) ->
  let pi := nth_d (Z0P RNum) ps i in
  mix3 (acc_on DDR (softDD soft) (GDD G) 0 (cclifts ps) (dd (px pi) ax bx wx, dd (py pi) ay by_ wy, dd (pz pi) az bz wz) i)
  = grav_var2_tp RNum (soft * soft) G ps (wx, wy, wz) (ax, ay, az) (bx, by_, bz) i.
Proof.
  intros Hd pi. unfold acc_on, grav_var2_tp.
  replace (length (cclifts ps)) with (length ps) by (unfold cclifts; now rewrite map_length).
  apply (for_range_rel (fun (aD : DD3) a => mix3 aD = a)); [|reflexivity].
  intros j aD a Hj E.
  assert (Esk : tp_skip 0 i j = Nat.eqb i j) by (unfold tp_skip; cbn; now rewrite !orb_false_r).
  rewrite Esk. destruct (Nat.eqb_spec i j) as [->|Hne]; [exact E|].
  rewrite <- E. apply var2_tp_step_dual; [reflexivity|]. apply Hd; [lia|]. intros ->. now apply Hne.
Qed.
