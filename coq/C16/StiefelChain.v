(* C16: the Stiefel chain rule assumed by kepler_tangent, PROVED for the closed-form Stiefel functions of C03
   (Gdir: cos/sin branch for beta > 0, cosh/sinh branch for beta < 0), with G4, G5 defined by the recurrence
   G_n = X^n/n! - beta G_(n+2):
       d/dt G_n(beta(t), X(t)) = G_(n-1) X'(t) + (n G_(n+2) - X G_(n+1))/2 beta'(t),   n = 1, 2, 3,   beta(t0) <> 0.
   What remains assumed in kepler_tangent is only that the truncated series evaluated by the code (stiefel_Gs) may be
   replaced by these functions (C03 bounds the truncation error of the series; the code's values are not differentiated). *)
From Coq Require Import Reals Lra.
From Coquelicot Require Import Coquelicot.
From RV Require Import Common.Num Common.RealNum C03.Model C03.Proofs C03.Flow C03.Derivs.
Open Scope R_scope.

Definition G4d (beta X : R) : R := (X * X / 2 - G2d beta X) / beta.
Definition G5d (beta X : R) : R := (X * X * X / 6 - G3d beta X) / beta.

(* a function with a derivative at t0 and a positive value there is positive nearby *)
Lemma locally_pos (b : R -> R) (t0 db : R) : is_derive b t0 db -> 0 < b t0 -> locally t0 (fun t => 0 < b t).
Proof.
  intros Hd Hp.
  assert (Hc : continuous b t0) by (apply (ex_derive_continuous (K := R_AbsRing) (V := R_NormedModule) b t0); exists db; exact Hd).
  apply (Hc (fun y => 0 < y)). exists (mkposreal (b t0) Hp). intros y Hy.
  unfold ball in Hy; cbn in Hy; unfold AbsRing_ball, abs, minus, plus, opp in Hy; cbn in Hy.
  apply Rabs_def2 in Hy. lra.
Qed.

Section Chain.
Variables (b x : R -> R) (t0 db dx : R).
Hypothesis Hb : is_derive b t0 db.
Hypothesis Hx : is_derive x t0 dx.

Let B := b t0.
Let X := x t0.

Ltac finish_branch :=
  auto_derive;
  [ repeat split; try (eexists; eassumption); auto
  | rewrite ?(is_derive_unique _ _ _ Hb), ?(is_derive_unique _ _ _ Hx) ].

Theorem stiefel_chain_rule_pos : 0 < B ->
  is_derive (fun t => G1d (b t) (x t)) t0 (G0d B X * dx + 1 / 2 * (G3d B X - X * G2d B X) * db) /\
  is_derive (fun t => G2d (b t) (x t)) t0 (G1d B X * dx + 1 / 2 * (2 * G4d B X - X * G3d B X) * db) /\
  is_derive (fun t => G3d (b t) (x t)) t0 (G2d B X * dx + 1 / 2 * (3 * G5d B X - X * G4d B X) * db).
Proof.
  intros HB. unfold B, X in *.
  pose proof (locally_pos b t0 db Hb HB) as Hloc.
  assert (Hs : sqrt (b t0) <> 0) by (apply Rgt_not_eq, sqrt_lt_R0; exact HB).
  assert (Hs2 : sqrt (b t0) * sqrt (b t0) = b t0) by (apply sqrt_sqrt; lra).
  unfold G4d, G5d, G0d, G1d, G2d, G3d, Gdir.
  destruct (Rlt_dec 0 (b t0)) as [_|]; [|lra]. cbv zeta. cbn [fst snd].
  refine (conj _ (conj _ _)).
  - apply (is_derive_ext_loc (fun t => sin (sqrt (b t) * x t) / sqrt (b t))).
    { apply (filter_imp (fun t => 0 < b t)); [|exact Hloc]. intros t Ht. destruct (Rlt_dec 0 (b t)); [reflexivity|lra]. }
    auto_derive.
    + repeat split; try (eexists; eassumption); auto.
    + change (fun x0 : R => b x0) with b. change (fun x0 : R => x x0) with x.
      rewrite (is_derive_unique _ _ _ Hb), (is_derive_unique _ _ _ Hx).
      set (s := sqrt (b t0)) in *. rewrite <- Hs2. field. exact Hs.
  - apply (is_derive_ext_loc (fun t => (1 - cos (sqrt (b t) * x t)) / b t)).
    { apply (filter_imp (fun t => 0 < b t)); [|exact Hloc]. intros t Ht. destruct (Rlt_dec 0 (b t)); [reflexivity|lra]. }
    auto_derive.
    + repeat split; try (eexists; eassumption); auto; lra.
    + change (fun x0 : R => b x0) with b. change (fun x0 : R => x x0) with x.
      rewrite (is_derive_unique _ _ _ Hb), (is_derive_unique _ _ _ Hx).
      set (s := sqrt (b t0)) in *. rewrite <- Hs2. field. exact Hs.
  - apply (is_derive_ext_loc (fun t => (x t - sin (sqrt (b t) * x t) / sqrt (b t)) / b t)).
    { apply (filter_imp (fun t => 0 < b t)); [|exact Hloc]. intros t Ht. destruct (Rlt_dec 0 (b t)); [reflexivity|lra]. }
    auto_derive.
    + repeat split; try (eexists; eassumption); auto; lra.
    + change (fun x0 : R => b x0) with b. change (fun x0 : R => x x0) with x.
      rewrite (is_derive_unique _ _ _ Hb), (is_derive_unique _ _ _ Hx).
      set (s := sqrt (b t0)) in *. rewrite <- Hs2. field. exact Hs.
Qed.

Theorem stiefel_chain_rule_neg : B < 0 ->
  is_derive (fun t => G1d (b t) (x t)) t0 (G0d B X * dx + 1 / 2 * (G3d B X - X * G2d B X) * db) /\
  is_derive (fun t => G2d (b t) (x t)) t0 (G1d B X * dx + 1 / 2 * (2 * G4d B X - X * G3d B X) * db) /\
  is_derive (fun t => G3d (b t) (x t)) t0 (G2d B X * dx + 1 / 2 * (3 * G5d B X - X * G4d B X) * db).
Proof.
  intros HB. unfold B, X in *.
  assert (Hnb : is_derive (fun t => - b t) t0 (- db)) by (apply (is_derive_opp b t0 db Hb)).
  assert (Hloc : locally t0 (fun t => 0 < - b t)) by (apply (locally_pos (fun t => - b t) t0 (- db) Hnb); lra).
  assert (Hs : sqrt (- b t0) <> 0) by (apply Rgt_not_eq, sqrt_lt_R0; lra).
  assert (Hs2 : - (sqrt (- b t0) * sqrt (- b t0)) = b t0) by (rewrite sqrt_sqrt; lra).
  unfold G4d, G5d, G0d, G1d, G2d, G3d, Gdir.
  destruct (Rlt_dec 0 (b t0)) as [|_]; [lra|]. destruct (Rlt_dec (b t0) 0) as [_|]; [|lra]. cbv zeta. cbn [fst snd].
  assert (Hsel : forall t, 0 < - b t -> (if Rlt_dec 0 (b t) then true else if Rlt_dec (b t) 0 then false else true) = false)
    by (intros t Ht; destruct (Rlt_dec 0 (b t)); [lra|destruct (Rlt_dec (b t) 0); [reflexivity|lra]]).
  unfold cosh, sinh.
  refine (conj _ (conj _ _)).
  - apply (is_derive_ext_loc (fun t => (exp (sqrt (- b t) * x t) - exp (- (sqrt (- b t) * x t))) / 2 / sqrt (- b t))).
    { apply (filter_imp (fun t => 0 < - b t)); [|exact Hloc]. intros t Ht.
      destruct (Rlt_dec 0 (b t)); [lra|]. destruct (Rlt_dec (b t) 0); [reflexivity|lra]. }
    auto_derive.
    + repeat split; try (eexists; eassumption); auto; lra.
    + change (fun x0 : R => b x0) with b. change (fun x0 : R => x x0) with x.
      rewrite (is_derive_unique _ _ _ Hb), (is_derive_unique _ _ _ Hx).
      set (s := sqrt (- b t0)) in *. rewrite <- Hs2. field. exact Hs.
  - apply (is_derive_ext_loc (fun t => (1 - (exp (sqrt (- b t) * x t) + exp (- (sqrt (- b t) * x t))) / 2) / b t)).
    { apply (filter_imp (fun t => 0 < - b t)); [|exact Hloc]. intros t Ht.
      destruct (Rlt_dec 0 (b t)); [lra|]. destruct (Rlt_dec (b t) 0); [reflexivity|lra]. }
    auto_derive.
    + repeat split; try (eexists; eassumption); auto; lra.
    + change (fun x0 : R => b x0) with b. change (fun x0 : R => x x0) with x.
      rewrite (is_derive_unique _ _ _ Hb), (is_derive_unique _ _ _ Hx).
      set (s := sqrt (- b t0)) in *. rewrite <- Hs2. field. exact Hs.
  - apply (is_derive_ext_loc (fun t => (x t - (exp (sqrt (- b t) * x t) - exp (- (sqrt (- b t) * x t))) / 2 / sqrt (- b t)) / b t)).
    { apply (filter_imp (fun t => 0 < - b t)); [|exact Hloc]. intros t Ht.
      destruct (Rlt_dec 0 (b t)); [lra|]. destruct (Rlt_dec (b t) 0); [reflexivity|lra]. }
    auto_derive.
    + repeat split; try (eexists; eassumption); auto; lra.
    + change (fun x0 : R => b x0) with b. change (fun x0 : R => x x0) with x.
      rewrite (is_derive_unique _ _ _ Hb), (is_derive_unique _ _ _ Hx).
      set (s := sqrt (- b t0)) in *. rewrite <- Hs2. field. exact Hs.
Qed.
End Chain.
