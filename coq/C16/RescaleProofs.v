(* C16: reb_simulation_rescale_var changes only the recorded magnitude: every configuration is either untouched or
   all its 6N coordinates are divided by ONE positive factor whose logarithm is added to lrescale, so the
   represented tangent vector  exp(lrescale) * particles  is unchanged; and WHFast with safe_mode = 0 is told to
   recompute its cached Jacobi coordinates whenever that happened. *)
From Coq Require Import List ZArith Bool Reals Lra.
From RV Require Import Common.Num Common.RealNum C16.Rescale.
Import ListNotations.
Open Scope R_scope.

Definition mul6 (s : R) (p : @P6 R) : @P6 R :=
  let '(x, y, z, vx, vy, vz) := p in (s * x, s * y, s * z, s * vx, s * vy, s * vz).
(* the tangent vector a configuration stands for *)
Definition represented (c : @VCfg R) : list (@P6 R) := map (mul6 (exp (vc_lres c))) (vc_ps c).

Lemma rescale_one_represented (big : R) (fl : Flags) (c : VCfg) : 0 < big ->
  let '(fl', c', ret) := rescale_one RNum ln big fl c in
  represented c' = represented c /\ vc_order c' = vc_order c /\
  (c' = c \/
   (big < scale_of RNum (vc_ps c) /\ vc_order c = 1%nat /\ 0 <= vc_lres c /\
    vc_lres c' = vc_lres c + ln (scale_of RNum (vc_ps c)) /\
    vc_ps c' = map (div6 RNum (scale_of RNum (vc_ps c))) (vc_ps c) /\
    (integ fl = 1%nat -> safe_mode fl = false -> recalc fl' = true))).
Proof.
  intros Hbig. unfold rescale_one. cbn [nltb RNum nzero nadd].
  unfold Rltb. destruct (Rlt_dec (vc_lres c) 0) as [Hneg|Hpos]; [repeat split; auto|].
  destruct (Rlt_dec big (scale_of RNum (vc_ps c))) as [Hs|Hs]; [|repeat split; auto].
  destruct (Nat.eqb_spec (vc_order c) 1) as [Ho|Ho]; [|repeat split; auto].
  destruct ((Nat.eqb (integ fl) 1 && negb (wh_sync fl)) || (Nat.eqb (integ fl) 2 && negb (eos_sync fl)));
    [repeat split; auto|].
  set (s := scale_of RNum (vc_ps c)) in *. assert (Hs0 : 0 < s) by lra.
  split; [|split; [reflexivity|right; repeat split; auto; try lra]].
  all: try (intros Hi Hsm; cbn [recalc]; rewrite Hi, Hsm; reflexivity).
  unfold represented. cbn [vc_lres vc_ps]. rewrite map_map. apply map_ext. intros [[[[[x y] z] vx] vy] vz].
    unfold mul6, div6. cbn. rewrite exp_plus, exp_ln by exact Hs0.
    repeat match goal with |- (_, _) = (_, _) => f_equal end; field; lra.
Qed.

Theorem rescale_only_magnitude (big : R) : 0 < big -> forall (cs : list VCfg) (fl : Flags),
  let '(fl', cs') := rescale_all RNum ln big fl cs in
  Forall2 (fun c c' =>
     represented c' = represented c /\ vc_order c' = vc_order c /\
     (c' = c \/ (vc_order c = 1%nat /\ exists s, big < s /\ vc_lres c' = vc_lres c + ln s /\ vc_ps c' = map (div6 RNum s) (vc_ps c)))) cs cs'
  /\ (integ fl = 1%nat -> safe_mode fl = false -> cs' <> cs -> recalc fl' = true)
  /\ integ fl' = integ fl /\ safe_mode fl' = safe_mode fl /\ (recalc fl = true -> recalc fl' = true).
Proof.
  intros Hbig. induction cs as [|c r IH]; intros fl.
  - cbn. repeat split; auto; try (intros _ _ H; now elim H).
  - cbn [rescale_all].
    pose proof (rescale_one_represented big fl c Hbig) as H1.
    assert (Hfl : forall fl1 c1 ret, rescale_one RNum ln big fl c = (fl1, c1, ret) ->
              integ fl1 = integ fl /\ safe_mode fl1 = safe_mode fl /\ (recalc fl = true -> recalc fl1 = true)).
    { unfold rescale_one. intros fl1 c1 ret.
      destruct (nltb RNum (vc_lres c) (nzero RNum)); [intros E; inversion E; auto|].
      destruct (nltb RNum big _); [|intros E; inversion E; auto].
      destruct (Nat.eqb (vc_order c) 1); [|intros E; inversion E; cbn; auto].
      destruct (_ || _); intros E; inversion E; cbn; auto.
      repeat split; auto. intros ->. now destruct (_ && _). }
    destruct (rescale_one RNum ln big fl c) as [[fl1 c1] ret] eqn:E1.
    destruct H1 as [Hr [Ho Hc]]. destruct (Hfl fl1 c1 ret eq_refl) as [Hi1 [Hs1 Hm1]].
    assert (Hrefl : Forall2 (fun c c' => represented c' = represented c /\ vc_order c' = vc_order c /\
       (c' = c \/ (vc_order c = 1%nat /\ exists s, big < s /\ vc_lres c' = vc_lres c + ln s /\ vc_ps c' = map (div6 RNum s) (vc_ps c)))) r r).
    { clear. induction r; constructor; auto. }
    assert (Hhead : represented c1 = represented c /\ vc_order c1 = vc_order c /\
       (c1 = c \/ (vc_order c = 1%nat /\ exists s, big < s /\ vc_lres c1 = vc_lres c + ln s /\ vc_ps c1 = map (div6 RNum s) (vc_ps c)))).
    { split; [exact Hr|split; [exact Ho|]]. destruct Hc as [->|[Hs [Hord [_ [Hl [Hp _]]]]]]; [now left|right].
      split; [exact Hord|]. exists (scale_of RNum (vc_ps c)). auto. }
    destruct ret.
    + repeat split; auto.
      intros Hi Hsm Hne. destruct Hc as [->|[_ [_ [_ [_ [_ Hrc]]]]]]; [now elim Hne|]. now apply Hrc.
    + specialize (IH fl1). destruct (rescale_all RNum ln big fl1 r) as [fl2 r2].
      destruct IH as [IHf [IHrc [IHi [IHs IHm]]]].
      repeat split; auto; try congruence.
      * intros Hi Hsm Hne.
        destruct Hc as [->|[_ [_ [_ [_ [_ Hrc]]]]]].
        -- apply IHrc; try congruence; try (intros ->; now apply Hne).
        -- apply IHm. now apply Hrc.
Qed.
