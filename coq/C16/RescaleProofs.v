(* C16: reb_simulation_rescale_var changes only the recorded magnitude: every configuration is either untouched or
   all its 7N numbers (mass variation and coordinates) are divided by ONE positive factor whose logarithm is added to lrescale, so the
   represented tangent vector  exp(lrescale) * particles  is unchanged; and WHFast with safe_mode = 0 is told to
   recompute its cached Jacobi coordinates whenever that happened. *)
From Coq Require Import List ZArith Bool Reals Lra Classical.
From RV Require Import Common.Num Common.RealNum C16.Rescale.
Import ListNotations.
Open Scope R_scope.

Definition mul6 (s : R) (p : @P6 R) : @P6 R :=
  let '(m, x, y, z, vx, vy, vz) := p in (s * m, s * x, s * y, s * z, s * vx, s * vy, s * vz).
(* the tangent vector a configuration stands for *)
Definition represented (c : @VCfg R) : list (@P6 R) := map (mul6 (exp (vc_lres c))) (vc_ps c).
(* the IAS15 per-particle state of the set (compensated-summation residuals, predictor/corrector coefficients), in the
   same units: what the integrator will add to / predict for the represented vector *)
Definition represented_ias (c : @VCfg R) : list R := map (fun v => exp (vc_lres c) * v) (vc_ias c).
(* IAS15 holds state for this set and it is in play *)
Definition ias_live (ig : nat) (c : @VCfg R) : Prop := ig = 3%nat /\ vc_alloc c = true.

(* what one configuration may undergo (ig = the integrator code, constant during the call) *)
Definition ok_pair (big : R) (ig : nat) (c c' : @VCfg R) : Prop :=
  represented c' = represented c /\
  (ias_live ig c -> represented_ias c' = represented_ias c) /\
  vc_alloc c' = vc_alloc c /\ vc_order c' = vc_order c /\
  (c' = c \/ (vc_order c = 1%nat /\ exists s, big < s /\ vc_lres c' = vc_lres c + ln s /\
                                          vc_ps c' = map (div6 RNum s) (vc_ps c))).

Lemma ok_pair_refl big ig c : ok_pair big ig c c.
Proof. unfold ok_pair. repeat split; auto. Qed.

Lemma rescale_one_ok (big : R) (fl : Flags) (c : VCfg) : 0 < big ->
  let '(fl', c', ret) := rescale_one RNum ln big fl c in
  ok_pair big (integ fl) c c' /\
  (c' <> c -> integ fl = 1%nat -> safe_mode fl = false -> recalc fl' = true) /\
  integ fl' = integ fl /\ safe_mode fl' = safe_mode fl /\ (recalc fl = true -> recalc fl' = true).
Proof.
  intros Hbig. unfold rescale_one. cbn [nltb RNum nzero nadd ndiv].
  unfold Rltb. destruct (Rlt_dec (vc_lres c) 0) as [Hneg|Hpos].
  { split; [apply ok_pair_refl|]. repeat split; auto; try (intros H; now elim H). }
  destruct (Rlt_dec big (scale_of RNum (vc_ps c))) as [Hs|Hs].
  2:{ split; [apply ok_pair_refl|]. repeat split; auto; try (intros H; now elim H). }
  destruct (Nat.eqb_spec (vc_order c) 1) as [Ho|Ho].
  2:{ split; [apply ok_pair_refl|]. repeat split; auto; try (intros H; now elim H). }
  destruct ((Nat.eqb (integ fl) 1 && negb (wh_sync fl)) || (Nat.eqb (integ fl) 2 && negb (eos_sync fl))).
  { split; [apply ok_pair_refl|]. repeat split; auto; try (intros H; now elim H). }
  set (s := scale_of RNum (vc_ps c)) in *. assert (Hs0 : 0 < s) by lra.
  split; [|repeat split; auto].
  - unfold ok_pair. cbn [vc_lres vc_ps vc_alloc vc_order vc_ias]. split; [|split; [|split; [reflexivity|split; [reflexivity|]]]].
    + unfold represented. cbn [vc_lres vc_ps]. rewrite map_map. apply map_ext. intros [[[[[[m x] y] z] vx] vy] vz].
      unfold mul6, div6. cbn. rewrite exp_plus, exp_ln by exact Hs0.
      repeat match goal with |- (_, _) = (_, _) => f_equal end; field; lra.
    + intros [Hi Ha]. unfold represented_ias. cbn [vc_lres vc_ias]. rewrite Hi, Ha. cbn [Nat.eqb andb].
      rewrite map_map. apply map_ext. intros v. rewrite exp_plus, exp_ln by exact Hs0. field. lra.
    + right. split; [exact Ho|]. exists s. auto.
  - intros _ Hi Hsm. cbn [recalc]. rewrite Hi, Hsm. reflexivity.
  - cbn [recalc]. intros ->. now destruct (_ && _).
Qed.

Theorem rescale_only_magnitude (big : R) : 0 < big -> forall (cs : list VCfg) (fl : Flags),
  let '(fl', cs') := rescale_all RNum ln big fl cs in
  Forall2 (ok_pair big (integ fl)) cs cs'
  /\ (integ fl = 1%nat -> safe_mode fl = false -> cs' <> cs -> recalc fl' = true)
  /\ integ fl' = integ fl /\ safe_mode fl' = safe_mode fl /\ (recalc fl = true -> recalc fl' = true).
Proof.
  intros Hbig. induction cs as [|c r IH]; intros fl.
  - cbn. repeat split; auto; try constructor; try (intros _ _ H; now elim H).
  - cbn [rescale_all].
    pose proof (rescale_one_ok big fl c Hbig) as H1.
    destruct (rescale_one RNum ln big fl c) as [[fl1 c1] ret].
    destruct H1 as [Hok [Hrc [Hi1 [Hs1 Hm1]]]].
    assert (Hrefl : Forall2 (ok_pair big (integ fl)) r r) by (clear; induction r; constructor; auto using ok_pair_refl).
    destruct ret.
    + repeat split; auto. intros Hi Hsm Hne. apply Hrc; auto; try (intros ->; now apply Hne).
    + specialize (IH fl1). destruct (rescale_all RNum ln big fl1 r) as [fl2 r2].
      destruct IH as [IHf [IHrc [IHi [IHs IHm]]]]. rewrite Hi1 in IHf.
      repeat split; auto; try congruence.
      intros Hi Hsm Hne.
      destruct (classic (c1 = c)) as [->|Hc].
      * apply IHrc; try congruence; try (intros ->; now apply Hne).
      * apply IHm. apply Hrc; auto.
Qed.
