(* C16: the first-order element-derivative constructors of src/derivatives.c are the dual parts of the
   element-to-Cartesian maps reb_particle_from_orbit / reb_particle_from_pal (both sides GENERATED from the C
   source, coq/Gen/Derivs.v), the maps being run at dual numbers with the varied element carrying dual part 1.
   sin/cos values are inputs of the generated functions; a varied angle u carries (sin u, cos u * du),
   (cos u, - sin u * du) (Dual.dual_sin_correct / dual_cos_correct).  For the Pal elements lambda, h, k the
   auxiliary (p, q) = (e sin E, e cos E) move too; they carry the code's own dp, dq, and [pal_implicit] shows that
   these are the unique solution of the linearised Kepler system (again written with duals). *)
From Coq Require Import ZArith Reals Lra Nsatz.
From RV Require Import Common.Num Common.RealNum C16.Dual Gen.Derivs.
Open Scope R_scope.

Definition dp7 (v : @P7 (R * R)) : @P7 R :=
  let '(m, x, y, z, vx, vy, vz) := v in (snd m, snd x, snd y, snd z, snd vx, snd vy, snd vz).
Notation c := (dconst RNum).
Ltac tup := repeat match goal with |- (_, _) = (_, _) => f_equal end.

(* ------------------------------------------------------------ classical elements: inc, Omega, omega, f *)
Section Orbit.
Variables G m Mp prx pry prz prvx prvy prvz a e inc Omega omega f cO sO co so cf sf ci si : R.
Hypothesis Ha : a <> 0.
Hypothesis He : 1 - e * e <> 0.
Hypothesis Hr : 1 + e * cf <> 0.
Hypothesis Hv : 0 < G * (m + Mp) / a / (1 - e * e).

Let from_orbit_D := gen_from_orbit DR (c G) (c m) (c Mp) (c prx) (c pry) (c prz) (c prvx) (c prvy) (c prvz).

Ltac orb :=
  unfold from_orbit_D, gen_from_orbit, dp7; cbn;
  assert (Hs : sqrt (G * (m + Mp) / a / (1 - e * e)) <> 0) by (apply Rgt_not_eq, sqrt_lt_R0; exact Hv);
  remember (sqrt (G * (m + Mp) / a / (1 - e * e))) as s;
  tup; field; auto.

Theorem deriv_inc_is_dual_part :
  gen_derivative_inc RNum G m Mp prx pry prz prvx prvy prvz a e inc Omega omega f cO sO co so cf sf ci si =
  dp7 (from_orbit_D (c a) (c e) (c inc) (c Omega) (c omega) (c f) (c cO) (c sO) (c co) (c so) (c cf) (c sf)
         (ci, - si) (si, ci)).
Proof. unfold gen_derivative_inc. orb. Qed.

Theorem deriv_Omega_is_dual_part :
  gen_derivative_Omega RNum G m Mp prx pry prz prvx prvy prvz a e inc Omega omega f cO sO co so cf sf ci si =
  dp7 (from_orbit_D (c a) (c e) (c inc) (c Omega) (c omega) (c f) (cO, - sO) (sO, cO) (c co) (c so) (c cf) (c sf)
         (c ci) (c si)).
Proof. unfold gen_derivative_Omega. orb. Qed.

Theorem deriv_omega_is_dual_part :
  gen_derivative_omega RNum G m Mp prx pry prz prvx prvy prvz a e inc Omega omega f cO sO co so cf sf ci si =
  dp7 (from_orbit_D (c a) (c e) (c inc) (c Omega) (c omega) (c f) (c cO) (c sO) (co, - so) (so, co) (c cf) (c sf)
         (c ci) (c si)).
Proof. unfold gen_derivative_omega. orb. Qed.

Theorem deriv_f_is_dual_part :
  gen_derivative_f RNum G m Mp prx pry prz prvx prvy prvz a e inc Omega omega f cO sO co so cf sf ci si =
  dp7 (from_orbit_D (c a) (c e) (c inc) (c Omega) (c omega) (c f) (c cO) (c sO) (c co) (c so) (cf, - sf) (sf, cf)
         (c ci) (c si)).
Proof. unfold gen_derivative_f. orb. Qed.
End Orbit.

(* rational parametrisation of a point of the unit circle other than (0,-1) *)
Lemma unit_param (x y : R) : x * x + y * y = 1 -> -1 < y ->
  exists t, x = 2 * t / (1 + t * t) /\ y = (1 - t * t) / (1 + t * t) /\ 1 + t * t <> 0.
Proof.
  intros H Hy. exists (x / (1 + y)).
  assert (E : x / (1 + y) * (x / (1 + y)) = (1 - y) / (1 + y)).
  { replace (x / (1 + y) * (x / (1 + y))) with ((x * x) / ((1 + y) * (1 + y))) by (field; lra).
    replace (x * x) with ((1 - y) * (1 + y)) by (ring_simplify; lra). field. lra. }
  rewrite E. repeat split.
  - field. split; lra.
  - field. split; lra.
  - replace (1 + (1 - y) / (1 + y)) with (2 / (1 + y)) by (field; lra).
    apply Rgt_not_eq. apply Rdiv_lt_0_compat; lra.
Qed.

(* ------------------------------------------------------------ classical elements: e (bound orbits) *)
Theorem deriv_e_is_dual_part :
  forall G m Mp prx pry prz prvx prvy prvz a e inc Omega omega f cO sO co so cf sf ci si,
  a <> 0 -> m + Mp <> 0 -> 0 < 1 - e * e -> 1 + e * cf <> 0 -> 0 < G * (m + Mp) / a ->
  gen_derivative_e RNum G m Mp prx pry prz prvx prvy prvz a e inc Omega omega f cO sO co so cf sf ci si =
  dp7 (gen_from_orbit DR (c G) (c m) (c Mp) (c prx) (c pry) (c prz) (c prvx) (c prvy) (c prvz)
         (c a) (e, 1) (c inc) (c Omega) (c omega) (c f) (c cO) (c sO) (c co) (c so) (c cf) (c sf) (c ci) (c si)).
Proof.
  intros G m Mp prx pry prz prvx prvy prvz a e inc Omega omega f cO sO co so cf sf ci si Ha Hm He Hr Hmu.
  unfold gen_derivative_e, gen_from_orbit, dp7. cbn.
  rewrite !(sqrt_div_alt (G * (m + Mp) / a) (1 - e * e)) by exact He.
  assert (H1 : sqrt (G * (m + Mp) / a) * sqrt (G * (m + Mp) / a) = G * (m + Mp) / a) by (apply sqrt_sqrt; lra).
  assert (H1p : 0 < sqrt (G * (m + Mp) / a)) by (apply sqrt_lt_R0; exact Hmu).
  assert (H2 : sqrt (1 - e * e) * sqrt (1 - e * e) = 1 - e * e) by (apply sqrt_sqrt; lra).
  assert (H2p : 0 < sqrt (1 - e * e)) by (apply sqrt_lt_R0; exact He).
  remember (sqrt (G * (m + Mp) / a)) as s1 eqn:E1. remember (sqrt (1 - e * e)) as s2 eqn:E2. clear E1 E2.
  assert (HG : G = s1 * s1 * a / (m + Mp)) by (rewrite H1; field; auto).
  destruct (unit_param e s2) as [t [Et [Es Ht]]]; [lra | lra |].
  clear H1 H2 Hmu He. subst G.
  assert (Hs2 : (1 - t * t) / (1 + t * t) <> 0) by (rewrite <- Es; lra).
  assert (Hs2' : 1 - t * t <> 0) by (intros Z; apply Hs2; rewrite Z; field; exact Ht).
  subst e s2.
  assert (Hs1 : s1 <> 0) by lra.
  assert (Hr' : (1 + t * t) + 2 * t * cf <> 0).
  { intros Z. apply Hr. replace (1 + 2 * t / (1 + t * t) * cf) with (((1 + t * t) + 2 * t * cf) / (1 + t * t)) by (field; exact Ht).
    rewrite Z. field. exact Ht. }
  assert (Hq : (1 + t * t) * (1 + t * t) - 2 * t * (2 * t) <> 0).
  { replace ((1 + t * t) * (1 + t * t) - 2 * t * (2 * t)) with ((1 - t * t) * (1 - t * t)) by ring.
    apply Rmult_integral_contrapositive_currified; exact Hs2'. }
  tup; field; repeat split; auto.
Qed.

(* ------------------------------------------------------------ Pal elements *)
Section Pal.
Variables G m Mp prx pry prz prvx prvy prvz a k h ix iy p q slp clp : R.
Hypothesis Ha : 0 < a.
Hypothesis Hm : 0 < m + Mp.
Hypothesis HG : 0 < G.
Hypothesis Hq : 1 - q <> 0.
Hypothesis Hl : 0 < 1 - h * h - k * k.
Hypothesis Hi : 0 < 4 - ix * ix - iy * iy.

Let from_pal_D := gen_from_pal DR (c G).
Let cP (x : R) := c x.

Lemma mu_pos : 0 < G * (m + Mp) / a.
Proof. apply Rdiv_lt_0_compat; [apply Rmult_lt_0_compat|]; assumption. Qed.
Lemma abs_i : Rabs (4 - ix * ix - iy * iy) = 4 - ix * ix - iy * iy.
Proof. apply Rabs_pos_eq. lra. Qed.
Lemma ltb_i : Rltb (4 - ix * ix - iy * iy) 0 = false.
Proof. unfold Rltb. destruct (Rlt_dec _ _); [lra|reflexivity]. Qed.

(* common preparation: name the three square roots, keep only what [field] needs *)
Ltac pal_prep :=
  unfold from_pal_D, gen_from_pal, dp7, cP; cbn; rewrite ?ltb_i, ?abs_i;
  pose proof mu_pos as Hmu;
  assert (Hs1 : sqrt (G * (m + Mp) / a) <> 0) by (apply Rgt_not_eq, sqrt_lt_R0; exact Hmu);
  assert (Hsl : sqrt (1 - h * h - k * k) <> 0) by (apply Rgt_not_eq, sqrt_lt_R0; exact Hl);
  assert (Hsi : sqrt (4 - ix * ix - iy * iy) <> 0) by (apply Rgt_not_eq, sqrt_lt_R0; exact Hi);
  assert (H2l : 2 - (1 - sqrt (1 - h * h - k * k)) <> 0)
    by (pose proof (sqrt_pos (1 - h * h - k * k)); lra);
  assert (Ha0 : a <> 0) by lra.

Ltac pal_close :=
  remember (sqrt (G * (m + Mp) / a)) as s1; remember (sqrt (1 - h * h - k * k)) as sl;
  remember (sqrt (4 - ix * ix - iy * iy)) as siz;
  tup; field; repeat split; auto.

Theorem deriv_ix_is_dual_part :
  gen_derivative_ix RNum G m Mp prx pry prz prvx prvy prvz a k h ix iy p q slp clp =
  dp7 (from_pal_D (c m) (c Mp) (c prx) (c pry) (c prz) (c prvx) (c prvy) (c prvz)
         (c a) (c k) (c h) (ix, 1) (c iy) (c p) (c q) (c slp) (c clp)).
Proof. unfold gen_derivative_ix. pal_prep. pal_close. Qed.

Theorem deriv_iy_is_dual_part :
  gen_derivative_iy RNum G m Mp prx pry prz prvx prvy prvz a k h ix iy p q slp clp =
  dp7 (from_pal_D (c m) (c Mp) (c prx) (c pry) (c prz) (c prvx) (c prvy) (c prvz)
         (c a) (c k) (c h) (c ix) (iy, 1) (c p) (c q) (c slp) (c clp)).
Proof. unfold gen_derivative_iy. pal_prep. pal_close. Qed.

(* lambda: p, q, sin(lambda+p), cos(lambda+p) move; their dual parts are the code's dp/dlambda, dq/dlambda
   and the chain rule  d sin(lambda+p) = cos(lambda+p) (1 + dp)  *)
Definition dp_dlambda := q / (1 - q).
Definition dq_dlambda := - p / (1 - q).
Theorem deriv_lambda_is_dual_part :
  gen_derivative_lambda RNum G m Mp prx pry prz prvx prvy prvz a k h ix iy p q slp clp =
  dp7 (from_pal_D (c m) (c Mp) (c prx) (c pry) (c prz) (c prvx) (c prvy) (c prvz)
         (c a) (c k) (c h) (c ix) (c iy) (p, dp_dlambda) (q, dq_dlambda)
         (slp, clp * (1 + dp_dlambda)) (clp, - slp * (1 + dp_dlambda))).
Proof. unfold gen_derivative_lambda, dp_dlambda, dq_dlambda. pal_prep. pal_close. Qed.

Definition dp_dh := 1 / (1 - q) * (- clp).
Definition dq_dh := 1 / (1 - q) * (slp - h).
Theorem deriv_h_is_dual_part :
  gen_derivative_h RNum G m Mp prx pry prz prvx prvy prvz a k h ix iy p q slp clp =
  dp7 (from_pal_D (c m) (c Mp) (c prx) (c pry) (c prz) (c prvx) (c prvy) (c prvz)
         (c a) (c k) (h, 1) (c ix) (c iy) (p, dp_dh) (q, dq_dh) (slp, clp * dp_dh) (clp, - slp * dp_dh)).
Proof. unfold gen_derivative_h, dp_dh, dq_dh. pal_prep. pal_close. Qed.

Definition dp_dk := 1 / (1 - q) * slp.
Definition dq_dk := 1 / (1 - q) * (clp - k).
Theorem deriv_k_is_dual_part :
  gen_derivative_k RNum G m Mp prx pry prz prvx prvy prvz a k h ix iy p q slp clp =
  dp7 (from_pal_D (c m) (c Mp) (c prx) (c pry) (c prz) (c prvx) (c prvy) (c prvz)
         (c a) (k, 1) (c h) (c ix) (c iy) (p, dp_dk) (q, dq_dk) (slp, clp * dp_dk) (clp, - slp * dp_dk)).
Proof. unfold gen_derivative_k, dp_dk, dq_dk. pal_prep. pal_close. Qed.
End Pal.

(* m and a: the mean motion factor an = sqrt(G (m+M)/a) moves *)
Section PalMA.
Variables G m Mp prx pry prz prvx prvy prvz a k h ix iy p q slp clp : R.
Hypothesis Ha : 0 < a.
Hypothesis Hm : 0 < m + Mp.
Hypothesis HG : 0 < G.
Hypothesis Hq : 1 - q <> 0.
Hypothesis Hl : 0 < 1 - h * h - k * k.
Hypothesis Hi : 0 < 4 - ix * ix - iy * iy.

Lemma sqrt_dm : sqrt (G / (a * (m + Mp))) = sqrt (G * (m + Mp) / a) / (m + Mp).
Proof.
  replace (G / (a * (m + Mp))) with (G * (m + Mp) / a / ((m + Mp) * (m + Mp))) by (field; split; lra).
  rewrite sqrt_div_alt by (apply Rmult_lt_0_compat; lra). rewrite sqrt_square by lra. reflexivity.
Qed.
Lemma sqrt_da : sqrt (G * (m + Mp) / (a * a * a)) = sqrt (G * (m + Mp) / a) / a.
Proof.
  replace (G * (m + Mp) / (a * a * a)) with (G * (m + Mp) / a / (a * a)) by (field; lra).
  rewrite sqrt_div_alt by (apply Rmult_lt_0_compat; lra). rewrite sqrt_square by lra. reflexivity.
Qed.

Ltac ma_prep :=
  unfold gen_from_pal, dp7; cbn; rewrite ?(ltb_i ix iy Hi), ?(abs_i ix iy Hi), ?sqrt_dm, ?sqrt_da;
  pose proof (mu_pos G m Mp a Ha Hm HG) as Hmu;
  assert (Hs1p : 0 < sqrt (G * (m + Mp) / a)) by (apply sqrt_lt_R0; exact Hmu);
  assert (H1 : sqrt (G * (m + Mp) / a) * sqrt (G * (m + Mp) / a) = G * (m + Mp) / a) by (apply sqrt_sqrt; lra);
  assert (Hsl : sqrt (1 - h * h - k * k) <> 0) by (apply Rgt_not_eq, sqrt_lt_R0; exact Hl);
  assert (Hsi : sqrt (4 - ix * ix - iy * iy) <> 0) by (apply Rgt_not_eq, sqrt_lt_R0; exact Hi);
  assert (H2l : 2 - (1 - sqrt (1 - h * h - k * k)) <> 0)
    by (pose proof (sqrt_pos (1 - h * h - k * k)); lra);
  assert (Ha0 : a <> 0) by lra; assert (Hm0 : m + Mp <> 0) by lra;
  remember (sqrt (G * (m + Mp) / a)) as s1 eqn:E1; clear E1;
  assert (EG : G = s1 * s1 * a / (m + Mp)) by (rewrite H1; field; auto);
  assert (Hs1 : s1 <> 0) by lra;
  clear H1 Hmu HG; subst G;
  remember (sqrt (1 - h * h - k * k)) as sl; remember (sqrt (4 - ix * ix - iy * iy)) as siz;
  tup; field; repeat split; auto.

Theorem deriv_m_is_dual_part :
  gen_derivative_m RNum G m Mp prx pry prz prvx prvy prvz a k h ix iy p q slp clp =
  dp7 (gen_from_pal DR (c G) (m, 1) (c Mp) (c prx) (c pry) (c prz) (c prvx) (c prvy) (c prvz)
         (c a) (c k) (c h) (c ix) (c iy) (c p) (c q) (c slp) (c clp)).
Proof. unfold gen_derivative_m. ma_prep. Qed.

Theorem deriv_a_is_dual_part :
  gen_derivative_a RNum G m Mp prx pry prz prvx prvy prvz a k h ix iy p q slp clp =
  dp7 (gen_from_pal DR (c G) (c m) (c Mp) (c prx) (c pry) (c prz) (c prvx) (c prvy) (c prvz)
         (a, 1) (c k) (c h) (c ix) (c iy) (c p) (c q) (c slp) (c clp)).
Proof. unfold gen_derivative_a. ma_prep. Qed.
End PalMA.

(* ------------------------------------------------------------ the implicit variables p, q *)
(* Pal's Kepler equation in the rotated form used by from_pal's outputs:
       q = k cos(lambda+p) + h sin(lambda+p),   p = k sin(lambda+p) - h cos(lambda+p)
   as Num-polymorphic residuals (so that their linearisation is again a dual part). *)
Definition pal_c1 {T} (N : Num T) (k h slp clp q : T) : T := nsub N q (nadd N (nmul N k clp) (nmul N h slp)).
Definition pal_c2 {T} (N : Num T) (k h slp clp p : T) : T := nsub N p (nsub N (nmul N k slp) (nmul N h clp)).

(* the residuals f0, f1 iterated to zero by reb_tools_solve_kepler_pal imply the rotated form *)
Lemma pal_constraints_from_residuals (k h lambda p q : R) :
  q * cos p + p * sin p - (k * cos lambda + h * sin lambda) = 0 ->
  - q * sin p + p * cos p - (k * sin lambda - h * cos lambda) = 0 ->
  pal_c1 RNum k h (sin (lambda + p)) (cos (lambda + p)) q = 0 /\
  pal_c2 RNum k h (sin (lambda + p)) (cos (lambda + p)) p = 0.
Proof.
  intros H0 H1. unfold pal_c1, pal_c2. cbn. rewrite sin_plus, cos_plus.
  pose proof (sin2_cos2 p) as Hp. unfold Rsqr in Hp.
  set (sp := sin p) in *. set (cp := cos p) in *. set (sl := sin lambda) in *. set (cl := cos lambda) in *.
  assert (A : k * cl + h * sl = q * cp + p * sp) by lra.
  assert (B : k * sl - h * cl = - q * sp + p * cp) by lra.
  split.
  - replace (k * (cl * cp - sl * sp) + h * (sl * cp + cl * sp)) with (cp * (k * cl + h * sl) - sp * (k * sl - h * cl)) by ring.
    rewrite A, B. replace (cp * (q * cp + p * sp) - sp * (- q * sp + p * cp)) with (q * (sp * sp + cp * cp)) by ring.
    rewrite Hp. ring.
  - replace (k * (sl * cp + cl * sp) - h * (cl * cp - sl * sp)) with (sp * (k * cl + h * sl) + cp * (k * sl - h * cl)) by ring.
    rewrite A, B. replace (sp * (q * cp + p * sp) + cp * (- q * sp + p * cp)) with (p * (sp * sp + cp * cp)) by ring.
    rewrite Hp. ring.
Qed.

(* For a variation (dlambda, dh, dk) of the elements, with sin/cos(lambda+p) moving by the chain rule, the
   linearised constraints (= dual parts of the residuals) have exactly one solution (dp, dq), and for the unit
   directions it is the pair used by reb_particle_derivative_lambda / _h / _k. *)
Theorem pal_implicit (k h p q slp clp dl dh dk : R) :
  pal_c1 RNum k h slp clp q = 0 -> pal_c2 RNum k h slp clp p = 0 -> slp * slp + clp * clp = 1 -> 1 - q <> 0 ->
  forall dp dq : R,
  (snd (pal_c1 DR (k, dk) (h, dh) (slp, clp * (dl + dp)) (clp, - slp * (dl + dp)) (q, dq)) = 0 /\
   snd (pal_c2 DR (k, dk) (h, dh) (slp, clp * (dl + dp)) (clp, - slp * (dl + dp)) (p, dp)) = 0)
  <-> (dp = (dk * slp - dh * clp + q * dl) / (1 - q) /\ dq = dk * clp + dh * slp - p * (dl + dp)).
Proof.
  unfold pal_c1, pal_c2. cbn. intros C1 C2 Hsc Hq dp dq.
  assert (Eq : q = k * clp + h * slp) by lra. assert (Ep : p = k * slp - h * clp) by lra.
  split.
  - intros [L1 L2]. 
    assert (Edp : dp * (1 - q) = dk * slp - dh * clp + q * dl).
    { apply Rminus_diag_uniq. eapply eq_trans; [|exact L2]. rewrite Eq. ring. }
    split.
    + apply (Rmult_eq_reg_r (1 - q)); [|exact Hq]. rewrite Edp. field. exact Hq.
    + apply Rminus_diag_uniq. eapply eq_trans; [|exact L1]. rewrite Ep. ring.
  - intros [-> ->]. clear C1 C2. subst q p. split; field; exact Hq.
Qed.

Corollary pal_implicit_code (k h p q slp clp : R) :
  pal_c1 RNum k h slp clp q = 0 -> pal_c2 RNum k h slp clp p = 0 -> slp * slp + clp * clp = 1 -> 1 - q <> 0 ->
  (* lambda *) (dp_dlambda q = (0 * slp - 0 * clp + q * 1) / (1 - q) /\
                dq_dlambda p q = 0 * clp + 0 * slp - p * (1 + dp_dlambda q)) /\
  (* h *)      (dp_dh q clp = (0 * slp - 1 * clp + q * 0) / (1 - q) /\
                dq_dh h q slp = 0 * clp + 1 * slp - p * (0 + dp_dh q clp)) /\
  (* k *)      (dp_dk q slp = (1 * slp - 0 * clp + q * 0) / (1 - q) /\
                dq_dk k q clp = 1 * clp + 0 * slp - p * (0 + dp_dk q slp)).
Proof.
  unfold pal_c1, pal_c2, dp_dlambda, dq_dlambda, dp_dh, dq_dh, dp_dk, dq_dk. cbn. intros C1 C2 Hsc Hq.
  assert (Eq : q = k * clp + h * slp) by lra. assert (Ep : p = k * slp - h * clp) by lra.
  assert (Hk : k = q * clp + p * slp).
  { rewrite Eq, Ep. replace ((k * clp + h * slp) * clp + (k * slp - h * clp) * slp) with (k * (slp * slp + clp * clp)) by ring.
    rewrite Hsc. ring. }
  assert (Hh : h = q * slp - p * clp).
  { rewrite Eq, Ep. replace ((k * clp + h * slp) * slp - (k * slp - h * clp) * clp) with (h * (slp * slp + clp * clp)) by ring.
    rewrite Hsc. ring. }
  repeat split; try (field; exact Hq).
  - rewrite Hh at 1. field. exact Hq.
  - rewrite Hk at 1. field. exact Hq.
Qed.
