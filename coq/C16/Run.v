(* C16: the models instantiated at binary64 + the glue used by the correspondence cases. *)
From Coq Require Import List ZArith Bool PrimFloat.
From RV Require Import Common.Num Common.FloatNum C02.Model C02.Run C16.GravityVar Gen.Derivs.
Import ListNotations.

Definition runVar1 G soft ign nact tp ms xs ys zs dms dxs dys dzs : list float :=
  flat (grav_var1 FNum (PrimFloat.mul soft soft) G ign nact tp (mkps ms xs ys zs) (mkps dms dxs dys dzs)).
Definition runVar1tp G soft ign ms xs ys zs dvx dvy dvz i : list float :=
  let '(a, b, c) := grav_var1_tp FNum (PrimFloat.mul soft soft) G ign (mkps ms xs ys zs) (dvx, dvy, dvz) i in [a; b; c].
(* w: second-order set, a / b: first-order sets *)
Definition runVar2 G soft ms xs ys zs wm wx wy wz am ax ay az bm bx by_ bz : list float :=
  flat (grav_var2 FNum (PrimFloat.mul soft soft) G (mkps ms xs ys zs) (mkps wm wx wy wz) (mkps am ax ay az) (mkps bm bx by_ bz)).
Definition p7l (v : @P7 float) : list float := let '(m, x, y, z, vx, vy, vz) := v in [m; x; y; z; vx; vy; vz].

(* ---- reb_simulation_rescale_var *)
From RV Require Import C16.Rescale.
Fixpoint unflat6 (l : list float) : list (@P6 float) :=
  match l with
  | m :: a :: b :: c :: d :: e :: f :: r => (m, a, b, c, d, e, f) :: unflat6 r
  | _ => []
  end.
Definition flat6 (ps : list (@P6 float)) : list float :=
  flat_map (fun p => let '(m, a, b, c, d, e, f) := p in [m; a; b; c; d; e; f]) ps.
(* libm log values supplied by the harness: table scale -> log(scale) *)
Fixpoint lgtab (tab : list (float * float)) (s : float) : float :=
  match tab with
  | [] => PrimFloat.nan
  | (k, v) :: r => if same k s then v else lgtab r s
  end.
Definition b2f (b : bool) : float := if b then PrimFloat.one else PrimFloat.zero.
(* result: warn1, warn2, recalc, then per configuration lrescale followed by its 6N coordinates *)
(* per configuration: (order, lrescale, coordinates, N_allocated >= 3(index+N), IAS15 state of the set);
   result per configuration: lrescale, the 6N coordinates, then the IAS15 state *)
Definition runRescale (big : float) (tab : list (float * float)) (integ : nat) (whs eoss sm w1 w2 rc : bool)
    (cfgs : list (nat * float * list float * bool * list float)) : list float :=
  let '(fl, cs) := rescale_all FNum (lgtab tab) big (mkFl integ whs eoss sm w1 w2 rc)
                     (map (fun q => let '(o, l, ps, al, st) := q in mkVC o l (unflat6 ps) al st) cfgs) in
  [b2f (warn1 fl); b2f (warn2 fl); b2f (recalc fl)] ++ flat_map (fun c => vc_lres c :: flat6 (vc_ps c) ++ vc_ias c) cs.

Definition runVar2tp G soft ms xs ys zs wx wy wz ax ay az bx by_ bz i : list float :=
  let '(a, b, c) := grav_var2_tp FNum (PrimFloat.mul soft soft) G (mkps ms xs ys zs) (wx, wy, wz) (ax, ay, az) (bx, by_, bz) i in [a; b; c].

(* ---- reb_whfast_interaction_step, Jacobi coordinates: the loop after the acceleration transforms *)
From RV Require Import C16.WhInteraction.
Definition mkJPf (l : list float) : @JP float :=
  match l with
  | [x; y; z; vx; vy; vz; ax; ay; az] => mkJP (x, y, z) (vx, vy, vz) (ax, ay, az)
  | _ => mkJP (PrimFloat.nan, PrimFloat.nan, PrimFloat.nan) (PrimFloat.nan, PrimFloat.nan, PrimFloat.nan) (PrimFloat.nan, PrimFloat.nan, PrimFloat.nan)
  end.
Definition w3l (v : @W3 float) : list float := let '(a, b, c) := v in [a; b; c].
(* l: particles i = 1 .. N_real-1: (p_j[i].m, the 9 numbers of p_j[i], the 9 numbers of each p_j[i+index]) *)
Definition runWhLoop (G dt soft : float) (na : nat) (m0 : float) (l : list (float * list float * list (list float))) : list float :=
  flat_map (fun o => w3l (fst o) ++ flat_map w3l (snd o))
    (wh_loop FNum G dt soft na 1 m0 (map (fun q => let '(m, p, dps) := q in (m, mkJPf p, map mkJPf dps)) l)).

(* ---- MEGNO bookkeeping *)
From RV Require Import C16.Megno.
Definition mkM9 (l : list float) : @M9 float :=
  match l with
  | [x; y; z; vx; vy; vz; ax; ay; az] => (x, y, z, vx, vy, vz, ax, ay, az)
  | _ => (PrimFloat.nan, PrimFloat.nan, PrimFloat.nan, PrimFloat.nan, PrimFloat.nan, PrimFloat.nan, PrimFloat.nan, PrimFloat.nan, PrimFloat.nan)
  end.
(* deltad_delta of the MEGNO particles and WHFast's dY *)
Definition runDD (dt t : float) (ps : list (list float)) : list float :=
  [deltad_delta FNum (map mkM9 ps); dY_whfast FNum dt t (map mkM9 ps)].
(* updates (t, dY, dt_done); result: Ys, Yss, mean_t, mean_Y, cov_Yt, var_t, megno at tq, lyapunov *)
Definition runMegno (l : list (float * float * float)) (tq : float) : list float :=
  let s := megno_run FNum l in
  [mYs s; mYss s; mmean_t s; mmean_Y s; mcov s; mvar s; megno_of FNum tq (mYss s); lyapunov_of FNum s].

(* ---- reb_simulation_move_to_com: first-order pass over all variational configurations, one component *)
From RV Require Import C20.Frames C16.ComLoop.
Definition hdl1 (l : list (list float)) : list float := match l with x :: _ => x | [] => [] end.
Definition mk4 (l : list float) : float * float * float * float :=
  match l with [m; q; dm; dq] => (m, q, dm, dq) | _ => (PrimFloat.nan, PrimFloat.nan, PrimFloat.nan, PrimFloat.nan) end.
(* configurations: (true, entries [m; q; dm; dq]) = full first-order set ; (false, [vals]) = left alone by this pass *)
Definition runComPass (ms qs : list float) (cfgs : list (bool * list (list float))) : list float :=
  let M := com_m FNum ms qs in
  concat (var1_pass FNum M (map (fun c : bool * list (list float) => if fst c return @cfg float then @O1 float (map mk4 (snd c)) else @Skip float (hdl1 (snd c))) cfgs)).
