(* C16: the models instantiated at binary64 + the glue used by the correspondence cases. *)
From Coq Require Import List ZArith Bool PrimFloat.
From RV Require Import Common.Num Common.FloatNum C02.Model C02.Run C16.GravityVar Gen.Derivs.
Import ListNotations.

Definition runVar1 G ign nact tp ms xs ys zs dms dxs dys dzs : list float :=
  flat (grav_var1 FNum G ign nact tp (mkps ms xs ys zs) (mkps dms dxs dys dzs)).
Definition runVar1tp G ign ms xs ys zs dvx dvy dvz i : list float :=
  let '(a, b, c) := grav_var1_tp FNum G ign (mkps ms xs ys zs) (dvx, dvy, dvz) i in [a; b; c].
(* w: second-order set, a / b: first-order sets *)
Definition runVar2 G ms xs ys zs wm wx wy wz am ax ay az bm bx by_ bz : list float :=
  flat (grav_var2 FNum G (mkps ms xs ys zs) (mkps wm wx wy wz) (mkps am ax ay az) (mkps bm bx by_ bz)).
Definition p7l (v : @P7 float) : list float := let '(m, x, y, z, vx, vy, vz) := v in [m; x; y; z; vx; vy; vz].
