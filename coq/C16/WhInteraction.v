(* C16 model: the loop of reb_whfast_interaction_step (src/integrator_whfast.c) for REB_WHFAST_COORDINATES_JACOBI with
   r->gravity != REB_GRAVITY_JACOBI, real and variational Jacobi particles, AFTER the two calls of
   reb_particles_transform_inertial_to_jacobi_acc (those are C12's linear maps, applied to the variational accelerations with
   the real masses; their output p_j[..].a{x,y,z} is an input here).  Source operation order; polymorphic in Num.
   Then: the variational update is the dual part of the real update (theorem, all N, any number of variation sets). *)
From Coq Require Import List ZArith Bool Reals Lra.
From RV Require Import Common.Num Common.RealNum C16.Dual.
Import ListNotations.

Section WH.
Context {T : Type} (N : Num T).
Local Notation "a + b" := (nadd N a b).
Local Notation "a * b" := (nmul N a b).
Local Notation "a / b" := (ndiv N a b).
Definition W3 : Type := (T * T * T)%type.
(* a Jacobi particle as read by the loop: position, velocity, Jacobi acceleration (the mass is passed separately) *)
Record JP : Type := mkJP { jx : W3; jv : W3; ja : W3 }.

(* real particle i: v += dt*a ; if (i>1) v += prefac1 * x.   Returns (new v, rj2i, rj3iM, prefac1) *)
Definition wh_real (G dt soft eta : T) (jac : bool) (p : JP) : W3 :=
  let '(x, y, z) := jx p in let '(vx, vy, vz) := jv p in let '(ax, ay, az) := ja p in
  let vx1 := vx + dt * ax in let vy1 := vy + dt * ay in let vz1 := vz + dt * az in
  if jac then
    let rj2i := none N / (x * x + y * y + z * z + soft * soft) in
    let rji := nsqrt N rj2i in
    let rj3iM := rji * rj2i * G * eta in
    let prefac1 := dt * rj3iM in
    (vx1 + prefac1 * x, vy1 + prefac1 * y, vz1 + prefac1 * z)
  else (vx1, vy1, vz1).

(* variational particle i of one set: if (i>1) dv += prefac1*dx + prefac2*x ; then dv += dt*da *)
Definition wh_var (G dt soft eta : T) (jac : bool) (p dp : JP) : W3 :=
  let '(x, y, z) := jx p in
  let '(dx, dy, dz) := jx dp in let '(dvx, dvy, dvz) := jv dp in let '(dax, day, daz) := ja dp in
  let '(w1, w2, w3) :=
    if jac then
      let rj2i := none N / (x * x + y * y + z * z + soft * soft) in
      let rji := nsqrt N rj2i in
      let rj3iM := rji * rj2i * G * eta in
      let prefac1 := dt * rj3iM in
      let rj5M := rj3iM * rj2i in
      let rdr := dx * x + dy * y + dz * z in
      let prefac2 := nneg N dt * nofZ N 3 * rdr * rj5M in
      (dvx + (prefac1 * dx + prefac2 * x), dvy + (prefac1 * dy + prefac2 * y), dvz + (prefac1 * dz + prefac2 * z))
    else (dvx, dvy, dvz) in
  (w1 + dt * dax, w2 + dt * day, w3 + dt * daz).

(* for (i=1; i<N_real; i++): l = the particles i = 1.. with their masses p_j[i].m and their variational partners;
   eta starts as m0 and accumulates p_j[i].m while i < N_active *)
Fixpoint wh_loop (G dt soft : T) (na : nat) (i : nat) (eta : T) (l : list (T * JP * list JP)) : list (W3 * list W3) :=
  match l with
  | [] => []
  | (m, p, dps) :: r =>
      let eta1 := if Nat.ltb i na then eta + m else eta in
      let jac := Nat.ltb 1 i in
      (wh_real G dt soft eta1 jac p, map (wh_var G dt soft eta1 jac p) dps) :: wh_loop G dt soft na (S i) eta1 r
  end.
End WH.
Arguments mkJP {T} _ _ _.
Arguments jx {T} _.
Arguments jv {T} _.
Arguments ja {T} _.

Open Scope R_scope.
Definition dp3w (v : @W3 (R * R)) : @W3 R := let '(a, b, c) := v in (snd a, snd b, snd c).
Definition lift3 (a da : @W3 R) : @W3 (R * R) :=
  let '(x, y, z) := a in let '(dx, dy, dz) := da in ((x, dx), (y, dy), (z, dz)).
Definition liftJP (p dp : @JP R) : @JP (R * R) := mkJP (lift3 (jx p) (jx dp)) (lift3 (jv p) (jv dp)) (lift3 (ja p) (ja dp)).
Definition r2soft (soft : R) (p : @JP R) : R := let '(x, y, z) := jx p in x * x + y * y + z * z + soft * soft.

Theorem wh_var_is_dual_part (G dt soft eta : R) (jac : bool) (p dp : @JP R) :
  (jac = true -> 0 < r2soft soft p) ->
  wh_var RNum G dt soft eta jac p dp =
  dp3w (wh_real DR (dconst RNum G) (dconst RNum dt) (dconst RNum soft) (dconst RNum eta) jac (liftJP p dp)).
Proof.
  intros Hr. destruct p as [[[x y] z] [[vx vy] vz] [[ax ay] az]], dp as [[[dx dy] dz] [[dvx dvy] dvz] [[dax day] daz]].
  unfold wh_var, wh_real, liftJP, lift3, dp3w, r2soft in *. cbn [jx jv ja] in *.
  destruct jac; cbn.
  - specialize (Hr eq_refl).
    assert (Hs : 0 < sqrt (1 / (x * x + y * y + z * z + soft * soft)))
      by (apply sqrt_lt_R0; apply Rdiv_lt_0_compat; lra).
    assert (Hs2 : sqrt (1 / (x * x + y * y + z * z + soft * soft)) * sqrt (1 / (x * x + y * y + z * z + soft * soft))
                  = 1 / (x * x + y * y + z * z + soft * soft))
      by (apply sqrt_sqrt; apply Rlt_le; apply Rdiv_lt_0_compat; lra).
    remember (sqrt (1 / (x * x + y * y + z * z + soft * soft))) as s eqn:Es. clear Es.
    (* x*x+y*y+z*z+soft*soft = 1/s^2: eliminate soft*soft *)
    assert (Hq : soft * soft = 1 / (s * s) - (x * x + y * y + z * z)).
    { rewrite Hs2. field. lra. }
    assert (Hs0 : s <> 0) by lra.
    remember (soft * soft) as q eqn:Eq. clear Eq Hs2 Hr. subst q.
    repeat match goal with |- (_, _) = (_, _) => f_equal end; field; repeat split; try assumption; try lra.
  - repeat match goal with |- (_, _) = (_, _) => f_equal end; ring.
Qed.

(* the whole loop, k-th variation set: its outputs are the dual parts of the real loop run on the Jacobi particles varied
   by that set (masses, G, dt, softening, hence eta, are not varied) *)
Definition JP0 : @JP R := mkJP (0, 0, 0) (0, 0, 0) (0, 0, 0).
Definition lift_set (k : nat) (l : list (R * @JP R * list (@JP R))) : list ((R * R) * @JP (R * R) * list (@JP (R * R))) :=
  map (fun q => let '(m, p, dps) := q in (dconst RNum m, liftJP p (nth k dps JP0), [])) l.

Theorem wh_loop_var_is_dual_part (G dt soft : R) (na k : nat) :
  forall (l : list (R * @JP R * list (@JP R))) (i : nat) (eta : R),
  (forall m p dps, In (m, p, dps) l -> 0 < r2soft soft p /\ (k < length dps)%nat) ->
  map (fun o => nth k (snd o) (0, 0, 0)) (wh_loop RNum G dt soft na i eta l) =
  map (fun o => dp3w (fst o))
      (wh_loop DR (dconst RNum G) (dconst RNum dt) (dconst RNum soft) na i (dconst RNum eta) (lift_set k l)).
Proof.
  induction l as [|[[m p] dps] r IH]; intros i eta H; [reflexivity|].
  cbn [wh_loop lift_set map fst snd].
  destruct (H m p dps (or_introl eq_refl)) as [Hr Hk].
  assert (Eeta : (if (i <? na)%nat then nadd DR (dconst RNum eta) (dconst RNum m) else dconst RNum eta)
                 = dconst RNum (if (i <? na)%nat then eta + m else eta)).
  { destruct (i <? na)%nat; [|reflexivity]. unfold dconst. cbn. f_equal. ring. }
  rewrite Eeta. change (nadd RNum eta m) with (eta + m). fold (lift_set k r).
  match goal with |- ?a :: ?x = ?b :: ?y => assert (E1 : a = b); [|assert (E2 : x = y); [|rewrite E1, E2; reflexivity]] end.
  - rewrite <- wh_var_is_dual_part by (intros _; exact Hr).
    rewrite (nth_indep _ (0, 0, 0) (wh_var RNum G dt soft (if (i <? na)%nat then eta + m else eta) (1 <? i)%nat p JP0))
      by (rewrite map_length; exact Hk).
    apply map_nth.
  - apply IH. intros m' p' dps' Hin. apply (H m' p' dps'). now right.
Qed.
