(* C16 property theorems ONLY (each closed by an already proved lemma) + assumptions. *)
From Coq Require Import List ZArith Reals Lra Lia.
From Coquelicot Require Import Coquelicot.
From RV Require Import Common.Num Common.RealNum C02.Model C02.Spec C03.Model C16.Dual C16.GravityVar C16.GravityVarProofs
  C16.GravityVar2Proofs Gen.Derivs C16.DerivProofs C16.Deriv2Common C16.Deriv2All C16.KeplerVar C16.Link
  C16.Rescale C16.RescaleProofs C16.WhInteraction C12.Model C16.JacobiTangent C16.Compose C03.Derivs C16.StiefelChain C16.Megno C20.Frames C20.FrameProofs C16.ComLoop.
Import ListNotations.
Open Scope R_scope.

(* ---- "dual part" means derivative: every lifted operation maps (value, derivative) to (value, derivative) *)
Theorem C16_dual_ops_are_derivatives : forall (f g : R -> R) (x df dg : R),
  is_derive f x df -> is_derive g x dg ->
  is_derive (fun t => f t + g t) x (snd (nadd DR (f x, df) (g x, dg))) /\
  is_derive (fun t => f t - g t) x (snd (nsub DR (f x, df) (g x, dg))) /\
  is_derive (fun t => f t * g t) x (snd (nmul DR (f x, df) (g x, dg))) /\
  (g x <> 0 -> is_derive (fun t => f t / g t) x (snd (ndiv DR (f x, df) (g x, dg)))) /\
  is_derive (fun t => - f t) x (snd (nneg DR (f x, df))) /\
  (0 < f x -> is_derive (fun t => sqrt (f t)) x (snd (nsqrt DR (f x, df)))) /\
  (f x <> 0 -> is_derive (fun t => Rabs (f t)) x (snd (nabs DR (f x, df)))) /\
  is_derive (fun t => sin (f t)) x (cos (f x) * df) /\
  is_derive (fun t => cos (f t)) x (- sin (f x) * df).
Proof.
  intros f g x df dg Hf Hg.
  refine (conj _ (conj _ (conj _ (conj _ (conj _ (conj _ (conj _ (conj _ _)))))))).
  - apply (proj2 (dual_add_correct f g x df dg Hf Hg)).
  - apply (proj2 (dual_sub_correct f g x df dg Hf Hg)).
  - apply (proj2 (dual_mul_correct f g x df dg Hf Hg)).
  - intros H. apply (proj2 (dual_div_correct f g x df dg Hf Hg H)).
  - apply (proj2 (dual_neg_correct f x df Hf)).
  - intros H. apply (proj2 (dual_sqrt_correct f x df Hf H)).
  - intros H. apply (proj2 (dual_abs_correct f x df Hf H)).
  - apply (dual_sin_correct f x df Hf).
  - apply (dual_cos_correct f x df Hf).
Qed.
Print Assumptions C16_dual_ops_are_derivatives.

(* ---- first-order variational force (testparticle<0; positions AND masses varied) = dual part of C02's
   grav_basic (the model of reb_calculate_acceleration) run at dual numbers, for every N, every N_active <= N,
   testparticle_type, gravity_ignore_terms, any softening (the variational loops use the softened distance since /repo
   73bd0c3), softened separation of all visited pairs non-zero, open boundary.
   Full strength since /repo commit 09c4229 (the second variational loop nest starts at MAX(N_active, starti)). *)
Theorem C16_var1_is_dual_part :
  forall (G soft bx by_ bz : R) (ign nact : nat) (tp : bool) (pds : list (Part R * Part R)),
  distinct soft (map fst pds) -> (nact <= length pds)%nat ->
  map dp3 (grav_basic DR (dconst RNum G) (dconst RNum soft) (dconst RNum bx) (dconst RNum by_) (dconst RNum bz)
             0 0 0 ign nact tp (dlifts pds))
  = grav_var1 RNum (soft * soft) G ign nact tp (map fst pds) (map snd pds).
Proof. exact var1_is_dual_part. Qed.
Print Assumptions C16_var1_is_dual_part.

(* ---- test-particle variation = derivative of the acceleration of particle i w.r.t. its own position *)
Theorem C16_var1_testparticle_is_dual_part :
  forall (G soft : R) (ign : nat) (ps : list (Part R)) (dvx dvy dvz : R) (i : nat),
  (forall j, (j < length ps)%nat -> j <> i -> sep2 soft (nth_d (Z0P RNum) ps i) (nth_d (Z0P RNum) ps j) <> 0) ->
  let pi := nth_d (Z0P RNum) ps i in
  dp3 (acc_on DR (softD soft) (dconst RNum G) ign (clifts ps) ((px pi, dvx), (py pi, dvy), (pz pi, dvz)) i)
  = grav_var1_tp RNum (soft * soft) G ign ps (dvx, dvy, dvz) i.
Proof. exact var1_testparticle_is_dual_part. Qed.
Print Assumptions C16_var1_testparticle_is_dual_part.

(* ---- second-order variational force = coefficient of e1*e2 of the Newtonian pair loop at nested duals,
   particle = p + a e1 + b e2 + w e1e2 (a,b = index_1st_order_a/b sets, w = second-order set), every N *)
Theorem C16_var2_is_mixed_dual_part : forall (G soft : R) (qs : list Q4),
  distinct soft (map q_p qs) ->
  map mix3 (grav_allpairs DDR (softDD soft) (GDD G) (ddlifts qs))
  = grav_var2 RNum (soft * soft) G (map q_p qs) (map q_w qs) (map q_a qs) (map q_b qs).
Proof. exact var2_is_mixed_dual_part. Qed.
Print Assumptions C16_var2_is_mixed_dual_part.

(* ---- element-derivative constructors (generated from derivatives.c) = dual parts of the generated maps *)
Theorem C16_deriv_orbit_elements :
  forall G m Mp prx pry prz prvx prvy prvz a e inc Omega omega f cO sO co so cf sf ci si : R,
  let c := dconst RNum in
  let FO := gen_from_orbit DR (c G) (c m) (c Mp) (c prx) (c pry) (c prz) (c prvx) (c prvy) (c prvz) in
  a <> 0 -> 1 + e * cf <> 0 ->
  (1 - e * e <> 0 -> 0 < G * (m + Mp) / a / (1 - e * e) ->
   gen_derivative_inc RNum G m Mp prx pry prz prvx prvy prvz a e inc Omega omega f cO sO co so cf sf ci si =
     dp7 (FO (c a) (c e) (c inc) (c Omega) (c omega) (c f) (c cO) (c sO) (c co) (c so) (c cf) (c sf) (ci, - si) (si, ci)) /\
   gen_derivative_Omega RNum G m Mp prx pry prz prvx prvy prvz a e inc Omega omega f cO sO co so cf sf ci si =
     dp7 (FO (c a) (c e) (c inc) (c Omega) (c omega) (c f) (cO, - sO) (sO, cO) (c co) (c so) (c cf) (c sf) (c ci) (c si)) /\
   gen_derivative_omega RNum G m Mp prx pry prz prvx prvy prvz a e inc Omega omega f cO sO co so cf sf ci si =
     dp7 (FO (c a) (c e) (c inc) (c Omega) (c omega) (c f) (c cO) (c sO) (co, - so) (so, co) (c cf) (c sf) (c ci) (c si)) /\
   gen_derivative_f RNum G m Mp prx pry prz prvx prvy prvz a e inc Omega omega f cO sO co so cf sf ci si =
     dp7 (FO (c a) (c e) (c inc) (c Omega) (c omega) (c f) (c cO) (c sO) (c co) (c so) (cf, - sf) (sf, cf) (c ci) (c si))) /\
  (m + Mp <> 0 -> 0 < 1 - e * e -> 0 < G * (m + Mp) / a ->
   gen_derivative_e RNum G m Mp prx pry prz prvx prvy prvz a e inc Omega omega f cO sO co so cf sf ci si =
     dp7 (FO (c a) (e, 1) (c inc) (c Omega) (c omega) (c f) (c cO) (c sO) (c co) (c so) (c cf) (c sf) (c ci) (c si))).
Proof.
  intros. split.
  - intros. repeat split.
    + apply deriv_inc_is_dual_part; assumption.
    + apply deriv_Omega_is_dual_part; assumption.
    + apply deriv_omega_is_dual_part; assumption.
    + apply deriv_f_is_dual_part; assumption.
  - intros. apply deriv_e_is_dual_part; assumption.
Qed.
Print Assumptions C16_deriv_orbit_elements.

Theorem C16_deriv_pal_elements :
  forall G m Mp prx pry prz prvx prvy prvz a k h ix iy p q slp clp : R,
  let c := dconst RNum in
  0 < a -> 0 < m + Mp -> 0 < G -> 1 - q <> 0 -> 0 < 1 - h * h - k * k -> 0 < 4 - ix * ix - iy * iy ->
  let FP := fun m' a' k' h' ix' iy' p' q' s' c' =>
     dp7 (gen_from_pal DR (c G) m' (c Mp) (c prx) (c pry) (c prz) (c prvx) (c prvy) (c prvz) a' k' h' ix' iy' p' q' s' c') in
  gen_derivative_m RNum G m Mp prx pry prz prvx prvy prvz a k h ix iy p q slp clp =
    FP (m, 1) (c a) (c k) (c h) (c ix) (c iy) (c p) (c q) (c slp) (c clp) /\
  gen_derivative_a RNum G m Mp prx pry prz prvx prvy prvz a k h ix iy p q slp clp =
    FP (c m) (a, 1) (c k) (c h) (c ix) (c iy) (c p) (c q) (c slp) (c clp) /\
  gen_derivative_ix RNum G m Mp prx pry prz prvx prvy prvz a k h ix iy p q slp clp =
    FP (c m) (c a) (c k) (c h) (ix, 1) (c iy) (c p) (c q) (c slp) (c clp) /\
  gen_derivative_iy RNum G m Mp prx pry prz prvx prvy prvz a k h ix iy p q slp clp =
    FP (c m) (c a) (c k) (c h) (c ix) (iy, 1) (c p) (c q) (c slp) (c clp) /\
  gen_derivative_lambda RNum G m Mp prx pry prz prvx prvy prvz a k h ix iy p q slp clp =
    FP (c m) (c a) (c k) (c h) (c ix) (c iy) (p, dp_dlambda q) (q, dq_dlambda p q)
       (slp, clp * (1 + dp_dlambda q)) (clp, - slp * (1 + dp_dlambda q)) /\
  gen_derivative_h RNum G m Mp prx pry prz prvx prvy prvz a k h ix iy p q slp clp =
    FP (c m) (c a) (c k) (h, 1) (c ix) (c iy) (p, dp_dh q clp) (q, dq_dh h q slp)
       (slp, clp * dp_dh q clp) (clp, - slp * dp_dh q clp) /\
  gen_derivative_k RNum G m Mp prx pry prz prvx prvy prvz a k h ix iy p q slp clp =
    FP (c m) (c a) (k, 1) (c h) (c ix) (c iy) (p, dp_dk q slp) (q, dq_dk k q clp)
       (slp, clp * dp_dk q slp) (clp, - slp * dp_dk q slp).
Proof.
  intros. unfold FP. repeat split.
  - apply deriv_m_is_dual_part; assumption.
  - apply deriv_a_is_dual_part; assumption.
  - apply deriv_ix_is_dual_part; assumption.
  - apply deriv_iy_is_dual_part; assumption.
  - apply deriv_lambda_is_dual_part; assumption.
  - apply deriv_h_is_dual_part; assumption.
  - apply deriv_k_is_dual_part; assumption.
Qed.
Print Assumptions C16_deriv_pal_elements.

(* the (dp,dq) used above are forced: unique solution of the linearised Pal-Kepler system *)
Theorem C16_pal_implicit : forall (k h p q slp clp dl dh dk : R),
  pal_c1 RNum k h slp clp q = 0 -> pal_c2 RNum k h slp clp p = 0 -> slp * slp + clp * clp = 1 -> 1 - q <> 0 ->
  forall dp dq : R,
  (snd (pal_c1 DR (k, dk) (h, dh) (slp, clp * (dl + dp)) (clp, - slp * (dl + dp)) (q, dq)) = 0 /\
   snd (pal_c2 DR (k, dk) (h, dh) (slp, clp * (dl + dp)) (clp, - slp * (dl + dp)) (p, dp)) = 0)
  <-> (dp = (dk * slp - dh * clp + q * dl) / (1 - q) /\ dq = dk * clp + dh * slp - p * (dl + dp)).
Proof. exact pal_implicit. Qed.
Print Assumptions C16_pal_implicit.

Theorem C16_pal_implicit_code : forall (k h p q slp clp : R),
  pal_c1 RNum k h slp clp q = 0 -> pal_c2 RNum k h slp clp p = 0 -> slp * slp + clp * clp = 1 -> 1 - q <> 0 ->
  (dp_dlambda q = (0 * slp - 0 * clp + q * 1) / (1 - q) /\ dq_dlambda p q = 0 * clp + 0 * slp - p * (1 + dp_dlambda q)) /\
  (dp_dh q clp = (0 * slp - 1 * clp + q * 0) / (1 - q) /\ dq_dh h q slp = 0 * clp + 1 * slp - p * (0 + dp_dh q clp)) /\
  (dp_dk q slp = (1 * slp - 0 * clp + q * 0) / (1 - q) /\ dq_dk k q clp = 1 * clp + 0 * slp - p * (0 + dp_dk q slp)).
Proof. exact pal_implicit_code. Qed.
Print Assumptions C16_pal_implicit_code.

Theorem C16_pal_constraints_from_residuals : forall (k h lambda p q : R),
  q * cos p + p * sin p - (k * cos lambda + h * sin lambda) = 0 ->
  - q * sin p + p * cos p - (k * sin lambda - h * cos lambda) = 0 ->
  pal_c1 RNum k h (sin (lambda + p)) (cos (lambda + p)) q = 0 /\
  pal_c2 RNum k h (sin (lambda + p)) (cos (lambda + p)) p = 0.
Proof. exact pal_constraints_from_residuals. Qed.
Print Assumptions C16_pal_constraints_from_residuals.

(* ---- second-order constructors: every function in d2_proved (generated list, printed in the evidence) is the e1e2 part
   of the generated from_orbit / from_pal run at nested duals; d2_spec spells the statement per function
   (orb_spec2: bound orbit; pal_spec2: solved Pal-Kepler relations, (p,q) moved by pal_implicit / pal_implicit2) *)
Theorem C16_second_order_constructors : List.Forall d2_spec d2_proved /\ (length d2_proved + length d2_unproved = 53)%nat.
Proof. split; [exact d2_all_proved | exact d2_count]. Qed.
(* Print Assumptions for this theorem walks the 53 generated proofs (about 60 s): it is run by the harness in the thorough
   tier (tools/c16.py, coq_eval "Print Assumptions d2_all_proved") instead of on every quick run. *)

Theorem C16_pal_implicit2 : forall (x y : pparam) (k h p q slp clp : R),
  q = k * clp + h * slp -> 1 - q <> 0 ->
  forall dp12 dq12 : R,
  (dd_mix (nsub DDR (dd p (dP1 q slp clp x) (dP1 q slp clp y) dp12)
             (P_rhs DDR (kDD x y k) (hDD x y h) (sinDD slp clp (U1 q slp clp x) (U1 q slp clp y) dp12)
                                               (cosDD slp clp (U1 q slp clp x) (U1 q slp clp y) dp12))) = 0 /\
   dd_mix (nsub DDR (dd q (dQ1 p q slp clp x) (dQ1 p q slp clp y) dq12)
             (Q_rhs DDR (kDD x y k) (hDD x y h) (sinDD slp clp (U1 q slp clp x) (U1 q slp clp y) dp12)
                                               (cosDD slp clp (U1 q slp clp x) (U1 q slp clp y) dp12))) = 0)
  <-> (dp12 = dP12 x y k h q slp clp /\
       dq12 = dd_mix (Q_rhs DDR (kDD x y k) (hDD x y h) (sinDD slp clp (U1 q slp clp x) (U1 q slp clp y) dp12)
                                               (cosDD slp clp (U1 q slp clp x) (U1 q slp clp y) dp12))).
Proof. exact pal_implicit2. Qed.
Print Assumptions C16_pal_implicit2.

(* ---- second-order test-particle loop *)
Theorem C16_var2_testparticle_is_mixed_dual_part :
  forall (G soft : R) (ps : list (Part R)) (ax ay az bx by_ bz wx wy wz : R) (i : nat),
  (forall j, (j < length ps)%nat -> j <> i -> sep2 soft (nth_d (Z0P RNum) ps i) (nth_d (Z0P RNum) ps j) <> 0) ->
  let pi := nth_d (Z0P RNum) ps i in
  mix3 (acc_on DDR (softDD soft) (GDD G) 0 (cclifts ps) (dd (px pi) ax bx wx, dd (py pi) ay by_ wy, dd (pz pi) az bz wz) i)
  = grav_var2_tp RNum (soft * soft) G ps (wx, wy, wz) (ax, ay, az) (bx, by_, bz) i.
Proof. exact var2_testparticle_is_mixed_dual_part. Qed.
Print Assumptions C16_var2_testparticle_is_mixed_dual_part.

(* ---- the program differentiated by the test-particle theorems is C02's specified force on particle i *)
Theorem C16_acc_on_is_c02_spec : forall (G eps : R) (ign : nat) (tp : bool) (ps : list (Part R)) (i : nat),
  (ign <= 2)%nat ->
  let pi := nth_d (Z0P RNum) ps i in
  acc_on RNum (eps * eps) G ign ps (px pi, py pi, pz pi) i = acc_spec G eps 0 0 0 0%nat 0%nat 0%nat ign (length ps) tp ps i.
Proof. exact acc_on_is_spec. Qed.
Print Assumptions C16_acc_on_is_c02_spec.

(* ---- the program differentiated by C16_var2_is_mixed_dual_part is the specified force / C02's model of
   reb_calculate_acceleration (zero softening, open boundary, all particles active, gravity_ignore_terms = 0; any softening) *)
Theorem C16_grav_allpairs_is_c02_grav_basic : forall (G eps : R) (tp : bool) (ps : list (Part R)) (k : nat),
  (k < length ps)%nat ->
  nth_d C02.Sums.vzero (grav_allpairs RNum (eps * eps) G ps) k = acc_spec G eps 0 0 0 0%nat 0%nat 0%nat 0%nat (length ps) tp ps k /\
  nth_d C02.Sums.vzero (grav_allpairs RNum (eps * eps) G ps) k =
  nth_d C02.Sums.vzero (grav_basic RNum G eps 0 0 0 0 0 0 0 (length ps) tp ps) k.
Proof. intros. split; [apply grav_allpairs_is_spec | apply grav_allpairs_is_grav_basic]; assumption. Qed.
Print Assumptions C16_grav_allpairs_is_c02_grav_basic.

(* ---- WHFast interaction step (Jacobi coordinates), loop after the acceleration transforms: the update of every
   variational Jacobi particle of the k-th set is the dual part of the update of the real Jacobi particles, all N.
   (The transforms themselves are C12's linear maps applied to the variational particles with the real masses.) *)
Theorem C16_wh_interaction_var_is_dual_part : forall (G dt soft : R) (na k : nat)
  (l : list (R * @JP R * list (@JP R))) (i : nat) (eta : R),
  (forall m p dps, In (m, p, dps) l -> 0 < r2soft soft p /\ (k < length dps)%nat) ->
  map (fun o => nth k (snd o) (0, 0, 0)) (wh_loop RNum G dt soft na i eta l) =
  map (fun o => dp3w (fst o))
      (wh_loop DR (dconst RNum G) (dconst RNum dt) (dconst RNum soft) na i (dconst RNum eta) (lift_set k l)).
Proof. exact wh_loop_var_is_dual_part. Qed.
Print Assumptions C16_wh_interaction_var_is_dual_part.

(* ---- the Jacobi transformations WHFast applies to variational particles (C12's jac_fwd / jac_inv with the REAL masses)
   are the dual parts of the transformations of the real particles when the masses are not varied ... *)
Theorem C16_jacobi_transforms_are_tangents : forall (ms : list R) (qds : list (R * R)) (mtot : R) (na : nat),
  map snd (fst (jac_fwd DR (map cD ms) qds na)) = fst (jac_fwd RNum ms (map snd qds) na) /\
  snd (snd (jac_fwd DR (map cD ms) qds na)) = 0 /\
  map snd (jac_inv DR (map cD ms) qds (cD mtot) na) = jac_inv RNum ms (map snd qds) mtot na.
Proof.
  intros. destruct (jac_fwd_tangent ms qds na) as [H1 H2]. repeat split; auto. apply jac_inv_tangent.
Qed.
Print Assumptions C16_jacobi_transforms_are_tangents.

(* ... and NOT when a mass is varied: the dual part has the additional term d(map)/dm * dm that the code never computes
   (two unit masses at q = 0, 1, dm_1 = 1: centre-of-mass slot moves by 1/4).  Root of finding trajectory:whfast_mass_variation *)
Theorem C16_jacobi_transform_mass_variation_refuted :
  map snd (fst (jac_fwd DR [(1, 0); (1, 1)] [(0, 0); (1, 0)] 2)) <> fst (jac_fwd RNum [1; 1] [0; 0] 2).
Proof. exact jac_mass_variation_not_tangent. Qed.
Print Assumptions C16_jacobi_transform_mass_variation_refuted.

(* ---- WHFast: the variational block of the Kepler solver (C03 kepler_variation, bit-exact with C) is the tangent map of
   the f-g step given the solved X.  ASSUMED: the Stiefel chain rule dG_n = G_(n-1) dX + (n G_(n+2) - X G_(n+1))/2 dbeta;
   dX is forced by the linearised Kepler equation (C16_kepler_dX_unique). *)
Theorem C16_kepler_tangent : forall (p1 dp : @S6 R) (M dt X G0 G1 G2 G3 G4 G5 : R),
  let r0 := k_r0 RNum p1 in let eta0 := k_eta0 RNum p1 in let zeta0 := k_zeta0 RNum p1 M in let beta := k_beta RNum p1 M in
  let ri := 1 / (r0 + (eta0 * G1 + zeta0 * G2)) in
  r0 <> 0 -> r0 + (eta0 * G1 + zeta0 * G2) <> 0 ->
  forall hang, stiefel_Gs RNum beta X = ((G0, G1, G2, G3, G4, G5), hang) ->
  let dX := k_dX p1 dp M X G1 G2 G3 G4 G5 in
  fst (kepler_variation RNum p1 dp M dt beta X ri (fg_coeffs RNum M dt (1 / r0) ri G1 G2 G3)) =
  dp6 (kstep DR (lift6 p1 dp) (dconst RNum M) (dconst RNum dt)
         (GD p1 dp M G1 G0 (1 / 2 * (G3 - X * G2)) dX) (GD p1 dp M G2 G1 (1 / 2 * (2 * G4 - X * G3)) dX)
         (GD p1 dp M G3 G2 (1 / 2 * (3 * G5 - X * G4)) dX)).
Proof. intros. apply (kepler_tangent p1 dp M dt X G0 G1 G2 G3 G4 G5) with (hang := hang); assumption. Qed.
Print Assumptions C16_kepler_tangent.

Theorem C16_kepler_dX_unique : forall (p1 dp : @S6 R) (M dt X G1 G2 G3 G4 G5 : R),
  k_r0 RNum p1 <> 0 -> k_r0 RNum p1 + (k_eta0 RNum p1 * G1 + k_zeta0 RNum p1 M * G2) <> 0 ->
  forall dX : R,
  snd (k_res DR (lift6 p1 dp) (dconst RNum M) (dconst RNum dt) (X, dX)
         (GD p1 dp M G2 G1 (1 / 2 * (2 * G4 - X * G3)) dX) (GD p1 dp M G3 G2 (1 / 2 * (3 * G5 - X * G4)) dX)) = 0
  <-> dX = k_dX p1 dp M X G1 G2 G3 G4 G5.
Proof. intros. apply (kepler_dX_unique p1 dp M dt X G1 G2 G3 G4 G5); assumption. Qed.
Print Assumptions C16_kepler_dX_unique.

(* ---- chain rule for a whole split step: for every word of operators each of which is tangent-correct (value part of the
   program at dual numbers = the real program, dual part = the variational program the code runs), the variational word
   is the dual part of the real word run at dual numbers.  OpJacFwd, OpWhKick, OpKepler/OpKepJP are such operators. *)
Theorem C16_word_tangent : forall (SR SD : Type) (val dual : SD -> SR) (w : list (@Op SR SD val dual)) (s : SD),
  domW w (val s) -> val (runD w s) = runR w (val s) /\ dual (runD w s) = runV w (val s) (dual s).
Proof. exact word_tangent. Qed.
Print Assumptions C16_word_tangent.

(* WHFast D(dt/2) K(dt) D(dt/2) of one Jacobi particle (its Jacobi acceleration as input of the kick).  Hypotheses = domW:
   r0 <> 0, r0 + eta0 G1 + zeta0 G2 <> 0, oracle = stiefel_Gs at both drifts, r^2+soft^2 > 0 at the kick; inside kepD the
   ASSUMED Stiefel chain rule (proved for the closed-form functions in C16_stiefel_chain_rule_closed_form). *)
Theorem C16_dkd_one_particle_tangent : forall (M dt G soft eta : R) (jac : bool) (orc1 orc2 : @S6 R -> G6) (s : @JP (R * R)),
  let w := [OpKepJP M (dt / 2) orc1; OpWhKick G dt soft eta jac; OpKepJP M (dt / 2) orc2] in
  domW w (jval s) ->
  jval (runD w s) = runR w (jval s) /\ jdual (runD w s) = runV w (jval s) (jdual s).
Proof. exact dkd_one_particle_tangent. Qed.
Print Assumptions C16_dkd_one_particle_tangent.

(* ---- the Stiefel chain rule assumed in C16_kepler_tangent, proved for C03's closed-form functions (beta <> 0):
   along differentiable beta(t), X(t):  d/dt G_n = G_(n-1) X' + (n G_(n+2) - X G_(n+1))/2 beta'  (n = 1,2,3) *)
Theorem C16_stiefel_chain_rule_closed_form : forall (b x : R -> R) (t0 db dx : R),
  is_derive b t0 db -> is_derive x t0 dx -> b t0 <> 0 ->
  let B := b t0 in let X := x t0 in
  is_derive (fun t => G1d (b t) (x t)) t0 (G0d B X * dx + 1 / 2 * (G3d B X - X * G2d B X) * db) /\
  is_derive (fun t => G2d (b t) (x t)) t0 (G1d B X * dx + 1 / 2 * (2 * G4d B X - X * G3d B X) * db) /\
  is_derive (fun t => G3d (b t) (x t)) t0 (G2d B X * dx + 1 / 2 * (3 * G5d B X - X * G4d B X) * db).
Proof.
  intros b x t0 db dx Hb Hx Hne B X. destruct (Rtotal_order (b t0) 0) as [Hn | [H0 | Hp]].
  - apply stiefel_chain_rule_neg; assumption.
  - now elim Hne.
  - apply stiefel_chain_rule_pos; assumption.
Qed.
Print Assumptions C16_stiefel_chain_rule_closed_form.

(* ---- rescaling changes only the recorded magnitude (reb_simulation_rescale_var, branch for branch, incl. the IAS15
   branch of /repo 8a5d079): every set is untouched or all its masses and coordinates (m, x..vz; the mass since /repo 32cf4f3) are divided by ONE factor s > big whose ln is
   added to lrescale; exp(lrescale) * particles is unchanged, and when IAS15 holds state for the set
   (integrator = IAS15, arrays allocated) so is exp(lrescale) * (csx, csv, b, csb, e, br, er of that set) *)
Theorem C16_rescale_only_magnitude : forall big : R, 0 < big -> forall (cs : list VCfg) (fl : Flags),
  let '(fl', cs') := rescale_all RNum ln big fl cs in
  Forall2 (fun c c' =>
     represented c' = represented c /\
     (integ fl = 3%nat /\ vc_alloc c = true -> represented_ias c' = represented_ias c) /\
     vc_alloc c' = vc_alloc c /\ vc_order c' = vc_order c /\
     (c' = c \/ (vc_order c = 1%nat /\ exists s, big < s /\ vc_lres c' = vc_lres c + ln s /\ vc_ps c' = map (div6 RNum s) (vc_ps c)))) cs cs'
  /\ (integ fl = 1%nat -> safe_mode fl = false -> cs' <> cs -> recalc fl' = true)
  /\ integ fl' = integ fl /\ safe_mode fl' = safe_mode fl /\ (recalc fl = true -> recalc fl' = true).
Proof. exact rescale_only_magnitude. Qed.
Print Assumptions C16_rescale_only_magnitude.

(* ---- MEGNO bookkeeping (reb_tools_megno_*, reb_simulation_megno): with delta = (x,v), delta_dot = (v,a) of the MEGNO
   particles, deltad_delta = (delta_dot.delta)/(delta.delta); WHFast/EOS add dY = 2 t dt * that; after the updates
   (t_k, dY_k, dt_k) the returned value is (1/t) sum_k Y(t_k) dt_k with Y(t_k) = (1/t_k) sum_{j<=k} dY_j; mean_t is the
   arithmetic mean of the t_k; the variance/covariance increments are ((n-1)/n)^2 times Welford's exact increments. *)
Theorem C16_megno_is_time_weighted_mean : forall (l : list (R * R * R)) (t : R) (dt : R) (ps : list (@M9 R)),
  (t <> 0 -> megno_of RNum t (mYss (megno_run RNum l)) = Yss_spec 0 l / t) /\
  deltad_delta RNum ps = rsum dotdd ps / rsum dot2 ps /\
  dY_whfast RNum dt t ps = 2 * t * dt * (rsum dotdd ps / rsum dot2 ps) /\
  IZR (mn (megno_run RNum l)) * mmean_t (megno_run RNum l) = rsum (fun u => fst (fst u)) l /\
  mn (megno_run RNum l) = Z.of_nat (length l).
Proof.
  intros l t dt ps. split; [intros Ht; apply megno_is_time_weighted_mean; exact Ht|].
  split; [apply deltad_delta_is_ratio|]. split; [apply dY_whfast_formula|].
  split.
  - pose proof (mean_t_is_average l (ms0 RNum) (Z.le_refl 0)) as H. cbn zeta in H. unfold megno_run. rewrite H. cbn. ring.
  - destruct (run_sums l (ms0 RNum)) as [_ [_ H]]. cbn zeta in H. unfold megno_run. rewrite H. cbn. reflexivity.
Qed.
Print Assumptions C16_megno_is_time_weighted_mean.

Theorem C16_megno_variance_increment : forall (m t : R) (n : Z), (1 <= n)%Z ->
  let n1 := IZR (n + 1) in let m' := m + (t - m) / n1 in
  (n1 - 1) / n1 * (t - m') * (t - m') = ((n1 - 1) / n1) * ((n1 - 1) / n1) * ((t - m) * (t - m')).
Proof. exact var_increment_factor. Qed.
Print Assumptions C16_megno_variance_increment.

(* ---- move_to_com with several variation sets: the first-order pass treats every configuration independently (the
   accumulators com_shift and dm are per iteration), and each full first-order set is shifted by the first-order variation of the
   centre of mass of the real system perturbed by THAT set (C20's one-set theorem) *)
Theorem C16_move_to_com_sets_independent : forall (M : R) (cs : list (@cfg R)),
  var1_pass RNum M cs = map (var1_one RNum M) cs.
Proof. exact (var1_pass_independent RNum). Qed.
Print Assumptions C16_move_to_com_sets_independent.

Theorem C16_move_to_com_set_is_com_variation : forall (cs : list (@cfg R)) (k : nat) (l : list (R * R * R * R)),
  nth_error cs k = Some (O1 l) ->
  let M := Msum (l_m l) in M <> 0 ->
  nth_error (var1_pass RNum M cs) k = Some (shift RNum (var1_shift RNum M l) (l_dq l)) /\
  forall eps, (M + eps * Msum (l_dm l)) * (MQ (l_m l) (l_q l) / M + eps * var1_shift RNum M l)
              - (MQ (l_m l) (l_q l) + eps * (MQ (l_m l) (l_dq l) + MQ (l_dm l) (l_q l)) + eps * eps * MQ (l_dm l) (l_dq l))
              = eps * eps * (Msum (l_dm l) * var1_shift RNum M l - MQ (l_dm l) (l_dq l)).
Proof. exact var1_pass_is_com_variation. Qed.
Print Assumptions C16_move_to_com_set_is_com_variation.

(* ---------------------------------------------------------------- corners of the quantified space, stated explicitly *)
(* N_real = 0 and N_real = 1: the force theorems need no hypothesis on the positions (there is no pair); any N_active <= N
   (N_active = 0 included), any testparticle_type, gravity_ignore_terms, softening.
   Excluded corner, in words: two visited particles at the same place with zero softening.  There the binary64 code divides by
   zero in BOTH the real and the variational loops (inf/NaN accelerations); the correspondence compares exactly that
   bit for bit, the real-number theorems say nothing (Coq's 1/0 = 0 is not the code's behaviour). *)
Theorem C16_corner_N0_N1 : forall (G soft bx by_ bz : R) (ign nact : nat) (tp : bool) (pds : list (Part R * Part R)),
  (length pds <= 1)%nat -> (nact <= length pds)%nat ->
  map dp3 (grav_basic DR (dconst RNum G) (dconst RNum soft) (dconst RNum bx) (dconst RNum by_) (dconst RNum bz)
             0 0 0 ign nact tp (dlifts pds))
  = grav_var1 RNum (soft * soft) G ign nact tp (map fst pds) (map snd pds).
Proof.
  intros G soft bx by_ bz ign nact tp pds Hl Hn. apply var1_is_dual_part; [|exact Hn].
  intros i j Hij. rewrite map_length in Hij. lia.
Qed.
Print Assumptions C16_corner_N0_N1.

(* MEGNO at t = 0 (before the first step, or a run that returns to t = 0): reb_simulation_megno returns 0, not Yss/0;
   reb_simulation_lyapunov returns 0 while var_t = 0 (fewer than two distinct update times).
   Rescaling: a configuration with lrescale < 0 is never touched (the documented opt-out), whatever its magnitude. *)
Theorem C16_corner_megno_t0_and_rescale_optout :
  (forall Yss : R, megno_of RNum 0 Yss = 0) /\
  (forall s : @MS R, mvar s = 0 -> lyapunov_of RNum s = 0) /\
  (forall (big : R) (fl : Flags) (c : @VCfg R), vc_lres c < 0 -> rescale_one RNum ln big fl c = (fl, c, false)).
Proof.
  split; [|split].
  - intros Yss. unfold megno_of. cbn. unfold Reqb. destruct (Req_EM_T 0 0); [reflexivity|contradiction].
  - intros s H. unfold lyapunov_of. cbn. rewrite H. unfold Reqb. destruct (Req_EM_T 0 0); [reflexivity|contradiction].
  - intros big fl c H. unfold rescale_one. cbn [nltb RNum nzero]. unfold Rltb. destruct (Rlt_dec (vc_lres c) 0); [reflexivity|contradiction].
Qed.
Print Assumptions C16_corner_megno_t0_and_rescale_optout.

(* Constructors: the Pal-element theorems include e = 0 (h = k = 0) and ix = iy = 0 (no hypothesis excludes them); the
   classical-element theorems include e = 0 and any inc, but there the C functions differentiate at the elements
   reb_orbit_from_particle recovers (omega, Omega arbitrary at e = 0 / inc = 0: documented singularity of these elements).
   Excluded: unbound orbits (a < 0, e >= 1): the Pal family returns NaN there (sqrt(1-h^2-k^2) of a negative number) and
   sqrt(G(m+M)/a) is NaN for a < 0; Variation.vary documents bound orbits only.  Model and code agree bit for bit there too. *)

(* Non-vacuity: a star and two planets at distinct positions; a bound orbit meeting the constructor hypotheses *)
Example C16_hypotheses_inhabited :
  distinct 0 [mkP 1 0 0 0; mkP (1/1000) 1 0 0; mkP 0 0 2 (1/2)] /\
  (let '(G, m, Mp, a, e, cf) := (1, 1/1000, 1, 2, 1/10, -1) in
   a <> 0 /\ 1 + e * cf <> 0 /\ 0 < 1 - e * e /\ m + Mp <> 0 /\ 0 < G * (m + Mp) / a /\ 0 < G * (m + Mp) / a / (1 - e * e)) /\
  (let '(h, k, q, ix, iy) := (1/10, 1/5, 1/10, 1/2, 1/3) in
   1 - q <> 0 /\ 0 < 1 - h * h - k * k /\ 0 < 4 - ix * ix - iy * iy).
Proof.
  split; [|split].
  - intros i j Hij. cbn in Hij.
    assert (Hc : (i = 1 /\ j = 0)%nat \/ (i = 2 /\ j = 0)%nat \/ (i = 2 /\ j = 1)%nat) by lia.
    destruct Hc as [[-> ->]|[[-> ->]|[-> ->]]]; cbn; unfold sep2; cbn; lra.
  - cbn. repeat split; lra.
  - cbn. repeat split; lra.
Qed.
