(* C16 model: the first-order pass of reb_simulation_move_to_com over ALL variational configurations (src/tools.c), one
   coordinate component at a time (the six components do not interact).  The body of one first-order full set is C20's
   move_to_com_var1 (same Gallina term, bit-exact there for one set); this file models the LOOP: for every configuration the
   accumulators `com_shift` and `dm` are declared inside the iteration, so no state is carried from one set to the next.
   The state-passing form [var1_pass_acc] makes that explicit (the accumulator slots are threaded through the fold and
   re-initialised by every first-order iteration); [var1_pass_independent] is the per-set independence theorem. *)
From Coq Require Import List ZArith Bool Reals Lra.
From RV Require Import Common.Num Common.RealNum C20.Frames C20.FrameProofs.
Import ListNotations.

Section ComLoop.
Context {T : Type} (N : Num T).
(* one configuration, one component: a full first-order set (entries (m_i, q_i, dm_i, dq_i)), or anything the first-order
   pass leaves alone (test-particle sets, second-order sets), represented by its current values *)
Inductive cfg : Type := O1 (l : list (T * T * T * T)) | Skip (vals : list T).

(* loop state: results so far, and the two accumulator slots (com_shift component, dm) as left by the last iteration *)
Definition var1_iter (M : T) (st : list (list T) * (T * T)) (c : cfg) : list (list T) * (T * T) :=
  let '(out, acc) := st in
  match c with
  | Skip vals => (out ++ [vals], acc)
  | O1 l =>
      let dm := sum_m N (map (fun e => snd (fst e)) l) in      (* double dm = 0.; for i: dm += var[i].m  *)
      let cs := shift1 N M dm l (nzero N) in                   (* struct reb_particle com_shift = {0}; for i: ... *)
      (out ++ [shift N cs (map snd l)], (cs, dm))
  end.
Definition var1_pass_acc (M : T) (cs : list cfg) : list (list T) * (T * T) :=
  fold_left (var1_iter M) cs ([], (nzero N, nzero N)).
Definition var1_pass (M : T) (cs : list cfg) : list (list T) := fst (var1_pass_acc M cs).
(* what one configuration becomes on its own *)
Definition var1_one (M : T) (c : cfg) : list T :=
  match c with Skip vals => vals | O1 l => move_to_com_var1 N M l end.
End ComLoop.
Arguments O1 {T} _.
Arguments Skip {T} _.

(* per-set independence: the result for configuration k is what that configuration gives alone, whatever the other sets are
   (in particular whatever variational mass the earlier sets carry) *)
Theorem var1_pass_independent {T} (N : Num T) (M : T) (cs : list (@cfg T)) :
  var1_pass N M cs = map (var1_one N M) cs.
Proof.
  unfold var1_pass, var1_pass_acc.
  assert (H : forall l out acc, fst (fold_left (var1_iter N M) l (out, acc)) = out ++ map (var1_one N M) l).
  { induction l as [|c r IH]; intros out acc; cbn [fold_left map].
    - now rewrite app_nil_r.
    - destruct c as [l|vals]; cbn [var1_iter]; rewrite IH, <- app_assoc; reflexivity. }
  rewrite H. reflexivity.
Qed.

(* hence (C20's theorem for one set) every first-order full set is shifted by the first-order variation of the centre of mass
   of the real system perturbed by THAT set *)
Open Scope R_scope.
Corollary var1_pass_is_com_variation (cs : list (@cfg R)) (k : nat) (l : list (R * R * R * R)) :
  nth_error cs k = Some (O1 l) ->
  let M := Msum (l_m l) in M <> 0 ->
  nth_error (var1_pass RNum M cs) k = Some (shift RNum (var1_shift RNum M l) (l_dq l)) /\
  forall eps, (M + eps * Msum (l_dm l)) * (MQ (l_m l) (l_q l) / M + eps * var1_shift RNum M l)
              - (MQ (l_m l) (l_q l) + eps * (MQ (l_m l) (l_dq l) + MQ (l_dm l) (l_q l)) + eps * eps * MQ (l_dm l) (l_dq l))
              = eps * eps * (Msum (l_dm l) * var1_shift RNum M l - MQ (l_dm l) (l_dq l)).
Proof.
  intros Hk M HM. split.
  - rewrite var1_pass_independent. rewrite nth_error_map, Hk. reflexivity.
  - intros eps. apply (var1_is_com_variation l HM eps).
Qed.
