(* C16 model: the MEGNO bookkeeping of src/tools.c (reb_tools_megno_deltad_delta, reb_tools_megno_update,
   reb_simulation_megno, reb_simulation_lyapunov) and the dY of WHFast/EOS (dt*2*t*deltad_delta), source operation
   order, polymorphic in Num.  Definitions, then the theorems over R. *)
From Coq Require Import List ZArith Bool Reals Lra Lia.
From RV Require Import Common.Num Common.RealNum.
Import ListNotations.

Section Megno.
Context {T : Type} (N : Num T).
Local Notation "a + b" := (nadd N a b).
Local Notation "a - b" := (nsub N a b).
Local Notation "a * b" := (nmul N a b).
Local Notation "a / b" := (ndiv N a b).

(* one MEGNO particle: x y z vx vy vz ax ay az *)
Definition M9 : Type := (T * T * T * T * T * T * T * T * T)%type.
(* deltad += vx*x; vy*y; vz*z; ax*vx; ay*vy; az*vz ;  delta2 += x*x; y*y; z*z; vx*vx; vy*vy; vz*vz   per particle *)
Definition dd_step (st : T * T) (p : M9) : T * T :=
  let '(deltad, delta2) := st in
  let '(x, y, z, vx, vy, vz, ax, ay, az) := p in
  (deltad + vx * x + vy * y + vz * z + ax * vx + ay * vy + az * vz,
   delta2 + x * x + y * y + z * z + vx * vx + vy * vy + vz * vz).
Definition deltad_delta (ps : list M9) : T :=
  let '(deltad, delta2) := fold_left dd_step ps (nzero N, nzero N) in deltad / delta2.

(* WHFast / EOS:  double dY = r->dt * 2. * r->t * reb_tools_megno_deltad_delta(r) *)
Definition dY_whfast (dt t : T) (ps : list M9) : T := dt * nofZ N 2 * t * deltad_delta ps.

Record MS : Type := mkMS { mYs : T; mYss : T; mn : Z; mmean_t : T; mmean_Y : T; mcov : T; mvar : T }.
Definition ms0 : MS := mkMS (nzero N) (nzero N) 0%Z (nzero N) (nzero N) (nzero N) (nzero N).
(* reb_simulation_megno: if (r->t==0.) return 0.; return r->megno_Yss/r->t; *)
Definition megno_of (t Yss : T) : T := if neqb N t (nzero N) then nzero N else Yss / t.
(* reb_tools_megno_update(r, dY, dt_done) at time t = r->t *)
Definition megno_update (t dY dt_done : T) (s : MS) : MS :=
  let Ys := mYs s + dY in
  let Y := Ys / t in
  let Yss := mYss s + Y * dt_done in
  let n := (mn s + 1)%Z in
  let nf := nofZ N n in
  let d_t := t - mmean_t s in
  let mean_t := mmean_t s + d_t / nf in
  let d_Y := megno_of t Yss - mmean_Y s in
  let mean_Y := mmean_Y s + d_Y / nf in
  let cov := mcov s + (nf - none N) / nf * (t - mean_t) * (megno_of t Yss - mean_Y) in
  let var := mvar s + (nf - none N) / nf * (t - mean_t) * (t - mean_t) in
  mkMS Ys Yss n mean_t mean_Y cov var.
(* reb_simulation_lyapunov *)
Definition lyapunov_of (s : MS) : T := if neqb N (mvar s) (nzero N) then nzero N else mcov s / mvar s.

(* a run: the list of (t, dY, dt_done) of the successive updates *)
Definition megno_run (l : list (T * T * T)) : MS :=
  fold_left (fun s u => let '(t, dY, dtd) := u in megno_update t dY dtd s) l ms0.
End Megno.
Arguments mkMS {T} _ _ _ _ _ _ _.
Arguments mYs {T} _.
Arguments mYss {T} _.
Arguments mn {T} _.
Arguments mmean_t {T} _.
Arguments mmean_Y {T} _.
Arguments mcov {T} _.
Arguments mvar {T} _.

Open Scope R_scope.

(* ---------------------------------------------------------------- deltad_delta = (delta_dot . delta)/(delta . delta) *)
Definition dotdd (p : @M9 R) : R := let '(x, y, z, vx, vy, vz, ax, ay, az) := p in vx * x + vy * y + vz * z + ax * vx + ay * vy + az * vz.
Definition dot2 (p : @M9 R) : R := let '(x, y, z, vx, vy, vz, ax, ay, az) := p in x * x + y * y + z * z + vx * vx + vy * vy + vz * vz.
Fixpoint rsum {A} (f : A -> R) (l : list A) : R := match l with [] => 0 | x :: r => f x + rsum f r end.

Lemma dd_fold (ps : list (@M9 R)) : forall a b,
  fold_left (dd_step RNum) ps (a, b) = (a + rsum dotdd ps, b + rsum dot2 ps).
Proof.
  induction ps as [|p r IH]; intros a b; cbn [fold_left rsum].
  - f_equal; ring.
  - destruct p as [[[[[[[[x y] z] vx] vy] vz] ax] ay] az]. cbn [dd_step]. cbn [nadd nmul RNum].
    rewrite IH. cbn [dotdd dot2]. f_equal; ring.
Qed.

(* with delta = (x, v) and delta_dot = (v, a) of all MEGNO particles *)
Theorem deltad_delta_is_ratio (ps : list (@M9 R)) : deltad_delta RNum ps = rsum dotdd ps / rsum dot2 ps.
Proof. unfold deltad_delta. rewrite dd_fold. cbn. f_equal; ring. Qed.

(* ---------------------------------------------------------------- what the run accumulates *)
(* Y(t_k) = (sum_{j<=k} dY_j)/t_k ;  Yss = sum_k Y(t_k) dt_k ;  <Y> returned = Yss / t *)
Fixpoint Yss_spec (acc : R) (l : list (R * R * R)) : R :=
  match l with
  | [] => 0
  | (t, dY, dtd) :: r => (acc + dY) / t * dtd + Yss_spec (acc + dY) r
  end.

Lemma run_sums (l : list (R * R * R)) : forall s,
  let s' := fold_left (fun s u => let '(t, dY, dtd) := u in megno_update RNum t dY dtd s) l s in
  mYs s' = mYs s + rsum (fun u => snd (fst u)) l /\
  mYss s' = mYss s + Yss_spec (mYs s) l /\
  mn s' = (mn s + Z.of_nat (length l))%Z.
Proof.
  induction l as [|[[t dY] dtd] r IH]; intros s; cbn [fold_left rsum Yss_spec length].
  - cbn. repeat split; try ring; try lia.
  - specialize (IH (megno_update RNum t dY dtd s)). cbn zeta in IH. destruct IH as [I1 [I2 I3]].
    rewrite I1, I2, I3. unfold megno_update. cbn [mYs mYss mn nadd nmul ndiv RNum fst snd].
    repeat split; try ring; try lia.
Qed.

(* the returned MEGNO is the time-weighted mean (1/t) sum_k Y(t_k) dt_k of Y(t_k) = (1/t_k) sum_{j<=k} dY_j,
   and for WHFast/EOS dY_j = 2 t_j dt (delta_dot.delta)/(delta.delta) *)
Theorem megno_is_time_weighted_mean (l : list (R * R * R)) (t : R) : t <> 0 ->
  megno_of RNum t (mYss (megno_run RNum l)) = Yss_spec 0 l / t.
Proof.
  intros Ht. unfold megno_of, megno_run. cbn [neqb RNum nzero]. unfold Reqb. destruct (Req_EM_T t 0); [contradiction|].
  destruct (run_sums l (ms0 RNum)) as [_ [H _]]. cbn zeta in H. rewrite H. cbn. f_equal. ring.
Qed.
Theorem dY_whfast_formula (dt t : R) (ps : list (@M9 R)) :
  dY_whfast RNum dt t ps = 2 * t * dt * (rsum dotdd ps / rsum dot2 ps).
Proof. unfold dY_whfast. rewrite deltad_delta_is_ratio. cbn. ring. Qed.

(* ---------------------------------------------------------------- the running means are arithmetic means *)
Lemma mean_step (m t : R) (n : Z) : (0 <= n)%Z -> m + (t - m) / IZR (n + 1) = (IZR n * m + t) / IZR (n + 1).
Proof. intros Hn. assert (IZR (n + 1) <> 0) by (apply not_0_IZR; lia). rewrite plus_IZR. rewrite plus_IZR in H. field. exact H. Qed.

Theorem mean_t_is_average (l : list (R * R * R)) : forall s, (0 <= mn s)%Z ->
  let s' := fold_left (fun s u => let '(t, dY, dtd) := u in megno_update RNum t dY dtd s) l s in
  IZR (mn s') * mmean_t s' = IZR (mn s) * mmean_t s + rsum (fun u => fst (fst u)) l.
Proof.
  induction l as [|[[t dY] dtd] r IH]; intros s Hn; cbn [fold_left rsum].
  - cbn. ring.
  - assert (Hn1 : (0 <= mn (megno_update RNum t dY dtd s))%Z) by (unfold megno_update; cbn [mn]; lia).
    specialize (IH (megno_update RNum t dY dtd s) Hn1). cbn zeta in IH. rewrite IH.
    unfold megno_update. cbn [mn mmean_t nadd nsub ndiv nofZ RNum fst].
    rewrite (mean_step (mmean_t s) t (mn s) Hn).
    assert (IZR (mn s + 1) <> 0) by (apply not_0_IZR; lia). field. exact H.
Qed.

(* Welford's exact increment of sum (t_k - mean)^2 is (t - mean_old)(t - mean_new) = n/(n-1) (t - mean_new)^2;
   the code adds (n-1)/n (t - mean_new)^2 = ((n-1)/n)^2 times that (same factor in cov_Yt): the ratio cov/var returned by
   reb_simulation_lyapunov is a least-squares slope with weights that tend to 1; it is NOT the unweighted fit of
   Cincotta & Simo Eq. 24 for small n. *)
Theorem var_increment_factor (m t : R) (n : Z) : (1 <= n)%Z ->
  let n1 := IZR (n + 1) in
  let m' := m + (t - m) / n1 in
  (n1 - 1) / n1 * (t - m') * (t - m') = ((n1 - 1) / n1) * ((n1 - 1) / n1) * ((t - m) * (t - m')).
Proof.
  intros Hn n1 m'. unfold m', n1. assert (IZR (n + 1) <> 0) by (apply not_0_IZR; lia).
  assert (IZR (n + 1) - 1 <> 0) by (rewrite plus_IZR; replace (IZR n + 1 - 1) with (IZR n) by ring; apply not_0_IZR; lia).
  field. exact H.
Qed.
