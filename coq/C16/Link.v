(* C16: the programs differentiated by the test-particle theorems are C02's specified force.
   acc_on (the per-particle direct sum whose dual parts are grav_var1_tp / grav_var2_tp) over the reals equals C02's
   acc_spec (= what reb_calculate_acceleration computes, C02_basic_eq_spec) for particle i when every particle is active,
   zero softening, open boundary: the same real function of the position of i, hence the same derivatives. *)
From Coq Require Import List ZArith Bool Reals Lra Lia PeanoNat.
From RV Require Import Common.Num Common.RealNum C02.Model C02.Sums C02.Spec C16.GravityVar.
Import ListNotations.
Open Scope R_scope.

Lemma fold_vadd {A} (l : list A) (F : A -> RV3 -> RV3) (term : A -> RV3) :
  (forall j a, In j l -> F j a = vadd a (term j)) ->
  forall a0, fold_left (fun a j => F j a) l a0 = vadd a0 (VSum l term).
Proof.
  induction l as [|x l IH]; intros H a0; cbn [fold_left].
  - now rewrite VSum_nil, vadd_0_r.
  - rewrite IH by (intros; apply H; now right). rewrite H by now left.
    rewrite VSum_cons. symmetry. apply vadd_assoc.
Qed.

Lemma skip_is_not_src (n ign i j : nat) (tp : bool) : (ign <= 2)%nat -> (j < n)%nat ->
  tp_skip ign i j = negb (src n tp ign i j).
Proof.
  intros Hi Hj. unfold tp_skip, src, ignored.
  assert (Hjn : (j <? n)%nat = true) by (apply Nat.ltb_lt; exact Hj). rewrite Hjn. cbn [orb].
  rewrite andb_true_r.
  assert (Hc : ign = 0%nat \/ ign = 1%nat \/ ign = 2%nat) by lia.
  destruct Hc as [-> | [-> | ->]]; cbn;
    destruct (Nat.eqb i j), (Nat.eqb j 1), (Nat.eqb i 0), (Nat.eqb i 1), (Nat.eqb j 0); reflexivity.
Qed.

Theorem acc_on_is_spec (G : R) (ign : nat) (tp : bool) (ps : list (Part R)) (i : nat) :
  (ign <= 2)%nat ->
  let pi := nth_d (Z0P RNum) ps i in
  acc_on RNum G ign ps (px pi, py pi, pz pi) i = acc_spec G 0 0 0 0 0%nat 0%nat 0%nat ign (length ps) tp ps i.
Proof.
  intros Hign pi. unfold acc_on, acc_spec, for_range.
  change (boxes 0 0 0) with [(0%Z, 0%Z, 0%Z)]. rewrite VSum_one. rewrite Nat.sub_0_r.
  rewrite (fold_vadd (seq 0 (length ps)) _
             (fun j => if src (length ps) tp ign i j
                       then newton G 0 (shift 0 0 0 (0%Z, 0%Z, 0%Z)) (nth_d (P0 RNum) ps i) (nth_d (P0 RNum) ps j) else vzero)).
  - apply vadd_0_l.
  - intros j a Hj. apply in_seq in Hj.
    rewrite (skip_is_not_src (length ps) ign i j tp Hign) by lia.
    destruct (src (length ps) tp ign i j); cbn [negb]; [|now rewrite vadd_0_r].
    unfold acc_on_step, newton, shift. fold pi.
    change (nth_d (P0 RNum) ps i) with pi. change (nth_d (Z0P RNum) ps j) with (nth_d (P0 RNum) ps j).
    destruct pi as [mi xi yi zi]. destruct (nth_d (P0 RNum) ps j) as [mj xj yj zj].
    destruct a as [[ax ay] az]. cbn.
    replace ((xi + 0 * 0 - xj) * (xi + 0 * 0 - xj) + (yi + 0 * 0 - yj) * (yi + 0 * 0 - yj) +
             (zi + 0 * 0 - zj) * (zi + 0 * 0 - zj) + 0 * 0)
      with ((xi - xj) * (xi - xj) + (yi - yj) * (yi - yj) + (zi - zj) * (zi - zj)) by ring.
    unfold vadd, vscale. unfold Rdiv. f_equal; [f_equal|]; ring.
Qed.
