(* C16: the programs differentiated by the test-particle theorems are C02's specified force.
   acc_on (the per-particle direct sum whose dual parts are grav_var1_tp / grav_var2_tp) over the reals equals C02's
   acc_spec (= what reb_calculate_acceleration computes, C02_basic_eq_spec) for particle i when every particle is active,
   zero softening, open boundary: the same real function of the position of i, hence the same derivatives. *)
From Coq Require Import List ZArith Bool Reals Lra Lia PeanoNat.
From RV Require Import Common.Num Common.RealNum C02.Model C02.Sums C02.Spec C16.GravityVar.
Import ListNotations.
Open Scope R_scope.

Lemma fold_vadd {A} (l : list A) (F : A -> RV3 -> RV3) (term : A -> RV3) :
  (forall j a, In j l -> F j a = vadd a (term j)) ->
  forall a0, fold_left (fun a j => F j a) l a0 = vadd a0 (VSum l term).
Proof.
  induction l as [|x l IH]; intros H a0; cbn [fold_left].
  - now rewrite VSum_nil, vadd_0_r.
  - rewrite IH by (intros; apply H; now right). rewrite H by now left.
    rewrite VSum_cons. symmetry. apply vadd_assoc.
Qed.

Lemma skip_is_not_src (n ign i j : nat) (tp : bool) : (ign <= 2)%nat -> (j < n)%nat ->
  tp_skip ign i j = negb (src n tp ign i j).
Proof.
  intros Hi Hj. unfold tp_skip, src, ignored.
  assert (Hjn : (j <? n)%nat = true) by (apply Nat.ltb_lt; exact Hj). rewrite Hjn. cbn [orb].
  rewrite andb_true_r.
  assert (Hc : ign = 0%nat \/ ign = 1%nat \/ ign = 2%nat) by lia.
  destruct Hc as [-> | [-> | ->]]; cbn;
    destruct (Nat.eqb i j), (Nat.eqb j 1), (Nat.eqb i 0), (Nat.eqb i 1), (Nat.eqb j 0); reflexivity.
Qed.

Theorem acc_on_is_spec (G eps : R) (ign : nat) (tp : bool) (ps : list (Part R)) (i : nat) :
  (ign <= 2)%nat ->
  let pi := nth_d (Z0P RNum) ps i in
  acc_on RNum (eps * eps) G ign ps (px pi, py pi, pz pi) i = acc_spec G eps 0 0 0 0%nat 0%nat 0%nat ign (length ps) tp ps i.
Proof.
  intros Hign pi. unfold acc_on, acc_spec, for_range.
  change (boxes 0 0 0) with [(0%Z, 0%Z, 0%Z)]. rewrite VSum_one. rewrite Nat.sub_0_r.
  rewrite (fold_vadd (seq 0 (length ps)) _
             (fun j => if src (length ps) tp ign i j
                       then newton G eps (shift 0 0 0 (0%Z, 0%Z, 0%Z)) (nth_d (P0 RNum) ps i) (nth_d (P0 RNum) ps j) else vzero)).
  - apply vadd_0_l.
  - intros j a Hj. apply in_seq in Hj.
    rewrite (skip_is_not_src (length ps) ign i j tp Hign) by lia.
    destruct (src (length ps) tp ign i j); cbn [negb]; [|now rewrite vadd_0_r].
    unfold acc_on_step, newton, shift. fold pi.
    change (nth_d (P0 RNum) ps i) with pi. change (nth_d (Z0P RNum) ps j) with (nth_d (P0 RNum) ps j).
    destruct pi as [mi xi yi zi]. destruct (nth_d (P0 RNum) ps j) as [mj xj yj zj].
    destruct a as [[ax ay] az]. cbn.
    replace ((xi + 0 * 0 - xj) * (xi + 0 * 0 - xj) + (yi + 0 * 0 - yj) * (yi + 0 * 0 - yj) +
             (zi + 0 * 0 - zj) * (zi + 0 * 0 - zj) + eps * eps)
      with ((xi - xj) * (xi - xj) + (yi - yj) * (yi - yj) + (zi - zj) * (zi - zj) + eps * eps) by ring.
    unfold vadd, vscale. unfold Rdiv. f_equal; [f_equal|]; ring.
Qed.

(* ---------------------------------------------------------------- grav_allpairs = C02's specified force *)
From RV Require Import C02.Loops C02.Basic.

Definition s0 : RV3 := shift 0 0 0 (0%Z, 0%Z, 0%Z).

Lemma newt_pair_is_pair_step (G eps : R) (ps : list (Part R)) (i j : nat) (acc : list RV3) :
  newt_pair RNum (eps * eps) G ps i j acc = pair_step RNum (pf_basic RNum G) true (Some s0) (eps * eps) ps i j acc.
Proof.
  unfold newt_pair, newt_terms, pair_step, pf_basic, kick, add3, sep, norm_soft, s0, shift.
  change (nth_d (Z0P RNum) ps i) with (nth_d (P0 RNum) ps i). change (nth_d (Z0P RNum) ps j) with (nth_d (P0 RNum) ps j).
  destruct (nth_d (P0 RNum) ps i) as [mi xi yi zi]. destruct (nth_d (P0 RNum) ps j) as [mj xj yj zj].
  cbn [pm px py pz nadd nsub nmul ndiv nneg nsqrt none nzero RNum].
  replace (0 * 0 + xi - xj) with (xi - xj) by ring.
  replace (0 * 0 + yi - yj) with (yi - yj) by ring.
  replace (0 * 0 + zi - zj) with (zi - zj) by ring.
  reflexivity.
Qed.

(* iteration space of grav_allpairs / grav_var2: all pairs i < j < n, in loop order *)
Definition upper_pairs (n : nat) : list (nat * nat * bool) :=
  flat_map (fun i => map (fun j => (i, j, true)) (seq (S i) (n - S i))) (seq 0 n).

Lemma grav_allpairs_run (G eps : R) (ps : list (Part R)) :
  grav_allpairs RNum (eps * eps) G ps =
  fold_left (step3 (pf_basic RNum G) (Some s0) (eps * eps) ps) (upper_pairs (length ps)) (repeat (t0 RNum) (length ps)).
Proof.
  unfold grav_allpairs, upper_pairs, for_range. rewrite fold_left_flat_map. rewrite Nat.sub_0_r.
  apply fold_left_ext. intros s i _. rewrite fold_left_map. apply fold_left_ext. intros s' j _.
  cbn [step3]. apply newt_pair_is_pair_step.
Qed.

Lemma upper_pairs_sum (G eps : R) (ps : list (Part R)) (k : nat) : (k < length ps)%nat ->
  VSum (upper_pairs (length ps)) (contrib3 (pf_basic RNum G) (Some s0) (eps * eps) ps k) =
  VSum (seq 0 (length ps)) (fun j => if negb (k =? j)%nat then newton G eps s0 (part ps k) (part ps j) else vzero).
Proof.
  intros Hk. set (n := length ps) in *. unfold upper_pairs. rewrite VSum_flat_map.
  set (A := Aterm (pf_basic RNum G) (Some s0) (eps * eps) ps). set (B := Bterm (pf_basic RNum G) (Some s0) (eps * eps) ps).
  rewrite VSum_ext with (h := fun i =>
    vadd (if (k =? i)%nat then VSum (seq 0 n) (fun j => if (S k <=? j)%nat && (j <? n)%nat then A k j else vzero) else vzero)
         (if (i <? k)%nat then B i k else vzero)).
  2:{ intros i Hi. apply in_seq in Hi. rewrite VSum_map. cbn [contrib3]. unfold contrib. cbn [andb].
      rewrite VSum_vadd. f_equal.
      - rewrite VSum_if. destruct (Nat.eqb_spec k i) as [->|]; [|reflexivity]. apply VSum_range. lia.
      - rewrite (VSum_range (S i) n n) by lia.
        rewrite VSum_ext with (h := fun j => if (k =? j)%nat then (if (i <? k)%nat then B i k else vzero) else vzero).
        + rewrite VSum_pick. destruct (Nat.ltb_spec k n); [reflexivity|lia].
        + intros j Hj. apply in_seq in Hj. destruct (Nat.eqb_spec k j) as [->|Hne].
          * destruct (Nat.leb_spec (S i) j), (Nat.ltb_spec j n), (Nat.ltb_spec i j); cbn [andb]; try reflexivity; lia.
          * now destruct (_ && _). }
  rewrite VSum_vadd, VSum_pick. destruct (Nat.ltb_spec k n) as [_|]; [|lia].
  rewrite <- VSum_vadd. apply VSum_ext. intros j Hj. apply in_seq in Hj.
  unfold A, B. rewrite Aterm_basic, Bterm_basic.
  assert (Hneg : vneg s0 = s0) by (unfold s0, shift, vneg; f_equal; [f_equal|]; ring).
  rewrite Hneg.
  destruct (Nat.eqb_spec k j) as [->|Hne]; cbn [negb].
  - destruct (Nat.leb_spec (S j) j), (Nat.ltb_spec j j); cbn [andb]; try lia. apply vadd_0_l.
  - destruct (Nat.leb_spec (S k) j), (Nat.ltb_spec j n), (Nat.ltb_spec j k); cbn [andb]; try lia;
      rewrite ?vadd_0_l, ?vadd_0_r; reflexivity.
Qed.

(* the function differentiated by C16_var2_is_mixed_dual_part is the specified force: zero softening, open boundary,
   all particles active, gravity_ignore_terms = 0 *)
Theorem grav_allpairs_is_spec (G eps : R) (tp : bool) (ps : list (Part R)) (k : nat) : (k < length ps)%nat ->
  nth_d vzero (grav_allpairs RNum (eps * eps) G ps) k = acc_spec G eps 0 0 0 0%nat 0%nat 0%nat 0%nat (length ps) tp ps k.
Proof.
  intros Hk. rewrite grav_allpairs_run. change (t0 RNum) with vzero.
  rewrite run_pairs_nth by (rewrite repeat_length; exact Hk).
  rewrite nth_repeat, vadd_0_l. rewrite upper_pairs_sum by exact Hk.
  unfold acc_spec. change (boxes 0 0 0) with [(0%Z, 0%Z, 0%Z)]. rewrite VSum_one. fold s0.
  apply VSum_ext. intros j Hj. apply in_seq in Hj.
  unfold src, ignored. assert (Hjn : (j <? length ps)%nat = true) by (apply Nat.ltb_lt; lia).
  rewrite Hjn. cbn [negb andb orb]. rewrite !andb_true_r. reflexivity.
Qed.

Corollary grav_allpairs_is_grav_basic (G eps : R) (tp : bool) (ps : list (Part R)) (k : nat) : (k < length ps)%nat ->
  nth_d vzero (grav_allpairs RNum (eps * eps) G ps) k =
  nth_d vzero (grav_basic RNum G eps 0 0 0 0 0 0 0 (length ps) tp ps) k.
Proof.
  intros Hk. rewrite grav_allpairs_is_spec with (tp := tp) by exact Hk. symmetry.
  apply basic_eq_spec; [lia | lia | exact Hk].
Qed.
