(* C16: the Jacobi transformations WHFast applies to variational particles are the tangent maps of the transformations of
   the real particles WHEN THE MASSES ARE NOT VARIED.
   C12's jac_fwd / jac_inv (one Num-polymorphic term per C routine, bit-exact with the reb_particles_transform jacobi routines) are
   run at dual numbers on  q + eps dq  with constant masses (m, 0): the dual part of the result is jac_fwd / jac_inv applied
   to dq with the real masses, i.e. exactly the call  reb_particles_transform_X(particles+vc.index, p_j+vc.index, particles, ..).
   With varied masses (m, dm) this is false (jac_mass_variation_not_tangent): the dual part has an additional term, the
   derivative of the map with respect to the masses, which the code never computes -> finding trajectory:whfast_mass_variation. *)
From Coq Require Import List ZArith Bool Reals Lra Lia.
From RV Require Import Common.Num Common.RealNum C12.Model C16.Dual.
Import ListNotations.
Open Scope R_scope.

Definition cD (m : R) : R * R := dconst RNum m.
(* (m_i, (q_i, dq_i)) -> the dual input and the variational input of the active loops *)
Definition liftA (l : list (R * (R * R))) : list ((R * R) * (R * R)) := map (fun x => (cD (fst x), snd x)) l.
Definition varA (l : list (R * (R * R))) : list (R * R) := map (fun x => (fst x, snd (snd x))) l.
Definition valA (l : list (R * (R * R))) : list (R * R) := map (fun x => (fst x, fst (snd x))) l.

Lemma inv_const (e : R * R) : snd e = 0 -> snd (ndiv DR (none DR) e) = 0 /\ fst (ndiv DR (none DR) e) = 1 / fst e.
Proof. intros H. cbn. rewrite H. split; [unfold Rdiv; ring|reflexivity]. Qed.

(* ---------------- forward active loop ---------------- *)
Lemma jac_fwd_act_tangent : forall (l : list (R * (R * R))) (etaD sD : R * R), snd etaD = 0 ->
  let rD := jac_fwd_act DR (liftA l) etaD sD in
  let rV := jac_fwd_act RNum (varA l) (fst etaD) (snd sD) in
  let rR := jac_fwd_act RNum (valA l) (fst etaD) (fst sD) in
  map snd (fst rD) = fst rV /\ map fst (fst rD) = fst rR /\
  snd (fst (snd rD)) = 0 /\ fst (fst (snd rD)) = fst (snd rV) /\ fst (fst (snd rD)) = fst (snd rR) /\
  snd (snd (snd rD)) = snd (snd rV) /\ fst (snd (snd rD)) = snd (snd rR).
Proof.
  induction l as [|[m [q dq]] r IH]; intros etaD sD He; cbn zeta.
  - cbn. repeat split; auto.
  - cbn [liftA varA valA map jac_fwd_act fst snd].
    fold (liftA r). fold (varA r). fold (valA r).
    set (etaD' := nadd DR etaD (cD m)).
    set (sD' := nadd DR (nmul DR sD (nmul DR etaD' (ndiv DR (none DR) etaD)))
                        (nmul DR (cD m) (nsub DR (q, dq) (nmul DR sD (ndiv DR (none DR) etaD))))).
    assert (He' : snd etaD' = 0) by (unfold etaD', cD, dconst; cbn; rewrite He; ring).
    specialize (IH etaD' sD' He').
    destruct (inv_const etaD He) as [Hi1 Hi2].
    assert (Efe : fst etaD' = fst etaD + m) by reflexivity.
    assert (Esv : snd sD' = snd sD * ((fst etaD + m) * (1 / fst etaD)) + m * (dq - snd sD * (1 / fst etaD))).
    { unfold sD', etaD', cD, dconst. cbn. rewrite He. unfold Rdiv. ring. }
    assert (Esr : fst sD' = fst sD * ((fst etaD + m) * (1 / fst etaD)) + m * (q - fst sD * (1 / fst etaD))) by reflexivity.
    cbn [nadd nsub nmul ndiv none RNum] in *.
    rewrite Efe, Esv, Esr in IH.
    destruct (jac_fwd_act DR (liftA r) etaD' sD') as [oD [eD sD2]].
    destruct (jac_fwd_act RNum (varA r) (fst etaD + m) _) as [oV [eV sV]].
    destruct (jac_fwd_act RNum (valA r) (fst etaD + m) _) as [oR [eR sR]].
    cbn [fst snd map] in *. destruct IH as [I1 [I2 [I3 [I4 [I5 [I6 I7]]]]]].
    split; [|split; [|repeat split; assumption]].
    + cbn [map]. rewrite I1. f_equal. cbn. rewrite He. unfold Rdiv. ring.
    + cbn [map]. rewrite I2. reflexivity.
Qed.

(* ---------------- forward routine on one component ---------------- *)
Lemma combine_firstn_lift k (mr : list R) (qr : list (R * R)) :
  combine (firstn k (map cD mr)) (firstn k qr) = liftA (combine (firstn k mr) (firstn k qr)).
Proof.
  revert mr qr; induction k as [|k IH]; intros [|m mr] [|q qr]; cbn; auto. now rewrite IH.
Qed.
Lemma combine_firstn_var k (mr : list R) (qr : list (R * R)) :
  combine (firstn k mr) (firstn k (map snd qr)) = varA (combine (firstn k mr) (firstn k qr)).
Proof.
  revert mr qr; induction k as [|k IH]; intros [|m mr] [|q qr]; cbn; auto. now rewrite IH.
Qed.
Lemma skipn_map {A B} (f : A -> B) k : forall l, skipn k (map f l) = map f (skipn k l).
Proof. induction k; intros [|x l]; cbn; auto. Qed.

Theorem jac_fwd_tangent (ms : list R) (qds : list (R * R)) (na : nat) :
  map snd (fst (jac_fwd DR (map cD ms) qds na)) = fst (jac_fwd RNum ms (map snd qds) na) /\
  snd (snd (jac_fwd DR (map cD ms) qds na)) = 0.
Proof.
  destruct ms as [|m0 mr], qds as [|[q0 dq0] qr]; cbn [jac_fwd map]; try (split; reflexivity).
  rewrite combine_firstn_lift, combine_firstn_var.
  pose proof (jac_fwd_act_tangent (combine (firstn (na - 1) mr) (firstn (na - 1) qr)) (cD m0) (nmul DR (cD m0) (q0, dq0)) eq_refl) as H.
  cbn zeta in H.
  assert (Es : snd (nmul DR (cD m0) (q0, dq0)) = m0 * dq0) by (cbn; ring).
  change (fst (cD m0)) with m0 in H. rewrite Es in H.
  cbn [nmul RNum]. change (snd (q0, dq0)) with dq0.
  destruct (jac_fwd_act DR _ (cD m0) _) as [oD [eD sD]].
  destruct (jac_fwd_act RNum (varA _) m0 (m0 * dq0)) as [oV [eV sV]].
  destruct (jac_fwd_act RNum (valA _) m0 _) as [oR [eR sR]].
  cbn [fst snd] in *. destruct H as [I1 [_ [I3 [I4 [_ [I6 _]]]]]].
  split; [|exact I3].
  destruct (inv_const eD I3) as [Hi1 Hi2].
  cbn [map]. f_equal.
  - cbn. rewrite I3, <- I4, <- I6. unfold Rdiv. ring.
  - rewrite map_app. f_equal; [exact I1|].
    unfold jac_fwd_tp. rewrite skipn_map, !map_map. apply map_ext. intros [q dq].
    cbn. rewrite I3, <- I4, <- I6. unfold Rdiv. ring.
Qed.

(* ---------------- inverse ---------------- *)
Lemma jac_inv_act_tangent : forall (l : list (R * (R * R))) (etaD sD : R * R), snd etaD = 0 ->
  let rD := jac_inv_act DR (liftA l) etaD sD in
  let rV := jac_inv_act RNum (varA l) (fst etaD) (snd sD) in
  map snd (fst rD) = fst rV /\
  snd (fst (snd rD)) = 0 /\ fst (fst (snd rD)) = fst (snd rV) /\ snd (snd (snd rD)) = snd (snd rV).
Proof.
  induction l as [|[m [q dq]] r IH]; intros etaD sD He; cbn zeta.
  - cbn. repeat split; auto.
  - cbn [liftA varA map jac_inv_act fst snd]. fold (liftA r). fold (varA r).
    specialize (IH etaD sD He). cbn zeta in IH.
    destruct (jac_inv_act DR (liftA r) etaD sD) as [oD [eD sD1]].
    destruct (jac_inv_act RNum (varA r) (fst etaD) (snd sD)) as [oV [eV sV]].
    cbn [fst snd] in *. destruct IH as [I1 [I2 [I3 I4]]].
    cbn. rewrite I2, <- I3, <- I4. repeat split.
    + f_equal; [|exact I1]. unfold Rdiv. ring.
    + ring.
    + unfold Rdiv. ring.
Qed.

Theorem jac_inv_tangent (ms : list R) (qds : list (R * R)) (mtot : R) (na : nat) :
  map snd (jac_inv DR (map cD ms) qds (cD mtot) na) = jac_inv RNum ms (map snd qds) mtot na.
Proof.
  destruct ms as [|m0 mr], qds as [|[q0 dq0] qr]; cbn [jac_inv map]; try reflexivity.
  rewrite combine_firstn_lift, combine_firstn_var.
  pose proof (jac_inv_act_tangent (combine (firstn (na - 1) mr) (firstn (na - 1) qr)) (cD mtot) (nmul DR (q0, dq0) (cD mtot)) eq_refl) as H.
  cbn zeta in H.
  assert (Es : snd (nmul DR (q0, dq0) (cD mtot)) = dq0 * mtot) by (cbn; ring).
  change (fst (cD mtot)) with mtot in H. rewrite Es in H.
  cbn [nmul RNum]. change (snd (q0, dq0)) with dq0.
  destruct (jac_inv_act DR _ (cD mtot) _) as [oD [eD sD]].
  destruct (jac_inv_act RNum (varA _) mtot (dq0 * mtot)) as [oV [eV sV]].
  cbn [fst snd] in *. destruct H as [I1 [I2 [I3 I4]]].
  cbn [map]. f_equal.
  - cbn. rewrite I2, <- I3, <- I4. unfold Rdiv. ring.
  - rewrite map_app. f_equal; [exact I1|].
    unfold jac_inv_tp. rewrite skipn_map, !map_map. apply map_ext. intros [q dq].
    cbn. unfold Rdiv. ring.
Qed.

(* ---------------- with varied masses the code's transform is NOT the tangent ---------------- *)
(* two bodies of mass 1 at q = 0 and q = 1; vary the mass of the second (dm = 1), positions fixed (dq = 0):
   the code transforms the (zero) variational positions to zero, but the centre-of-mass slot moves by
   d/dm1 (m0 q0 + m1 q1)/(m0 + m1) = m0 (q1 - q0)/(m0+m1)^2 = 1/4 *)
Theorem jac_mass_variation_not_tangent :
  map snd (fst (jac_fwd DR [(1, 0); (1, 1)] [(0, 0); (1, 0)] 2)) <> fst (jac_fwd RNum [1; 1] [0; 0] 2).
Proof.
  cbn. intros E. injection E as E _. lra.
Qed.
