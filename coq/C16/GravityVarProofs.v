(* C16: the variational force loops are the dual parts of the force loops they differentiate.
   Engine: instantiate the SAME Gallina force model at dual numbers over R, peel the loops in lockstep
   (both nests visit the same pairs in the same order), and close each pair by [field] after naming the
   one square root.  No hand-written derivative appears on the right-hand sides. *)
From Coq Require Import List ZArith Bool Reals Lra Lia PeanoNat.
From RV Require Import Common.Num Common.RealNum C02.Model C16.Dual C16.GravityVar.
Import ListNotations.
Open Scope R_scope.

(* ---------------------------------------------------------------- lists / loops *)
Lemma nth_d_map {A B} (f : A -> B) (d : A) (l : list A) : forall i, nth_d (f d) (map f l) i = f (nth_d d l i).
Proof. induction l as [|x l IH]; intros [|i]; cbn; auto. Qed.
Lemma map_upd {A B} (f : A -> B) (l : list A) : forall i v, map f (upd l i v) = upd (map f l) i (f v).
Proof. induction l as [|x l IH]; intros [|i] v; cbn; auto. now rewrite IH. Qed.
Lemma map_repeat {A B} (f : A -> B) (x : A) n : map f (repeat x n) = repeat (f x) n.
Proof. induction n; cbn; congruence. Qed.

Lemma for_range_rel {A B} (Rel : A -> B -> Prop) (a b : nat) (f : nat -> A -> A) (g : nat -> B -> B) :
  (forall i s t, (a <= i < b)%nat -> Rel s t -> Rel (f i s) (g i t)) ->
  forall s t, Rel s t -> Rel (for_range a b f s) (for_range a b g t).
Proof.
  unfold for_range. intros H.
  assert (G : forall l s t, (forall i, In i l -> (a <= i < b)%nat) -> Rel s t ->
              Rel (fold_left (fun s i => f i s) l s) (fold_left (fun s i => g i s) l t)).
  { induction l as [|i l IH]; intros s t Hl Hst; cbn [fold_left]; [exact Hst|].
    apply IH; [intros; apply Hl; now right|]. apply H; [apply Hl; now left|exact Hst]. }
  intros s t Hst. apply G; [|exact Hst]. intros i Hi. apply in_seq in Hi. lia.
Qed.

(* ---------------------------------------------------------------- dual liftings *)
(* dual part / value part of a triple of duals *)
Notation D3 := (@V3 (R * R)).
Definition dp3 (v : D3) : R * R * R := let '(a, b, c) := v in (snd a, snd b, snd c).
Definition vp3 (v : D3) : R * R * R := let '(a, b, c) := v in (fst a, fst b, fst c).
(* real particle p varied by dp *)
Definition dlift (p dp : Part R) : Part (R * R) :=
  mkP (pm p, pm dp) (px p, px dp) (py p, py dp) (pz p, pz dp).
Definition dlifts (pds : list (Part R * Part R)) : list (Part (R * R)) :=
  map (fun q => dlift (fst q) (snd q)) pds.
Definition PP0 : Part R * Part R := (Z0P RNum, Z0P RNum).

Lemma nth_dlifts pds i :
  nth_d (P0 DR) (dlifts pds) i = dlift (nth_d (Z0P RNum) (map fst pds) i) (nth_d (Z0P RNum) (map snd pds) i).
Proof.
  unfold dlifts.
  change (P0 DR) with ((fun q : Part R * Part R => dlift (fst q) (snd q)) PP0).
  rewrite nth_d_map.
  change (Z0P RNum) with (fst PP0) at 1. rewrite nth_d_map.
  change (Z0P RNum) with (snd PP0). rewrite nth_d_map. reflexivity.
Qed.

(* squared separation of the real particles i and j *)
Definition sep2 (soft : R) (pi pj : Part R) : R :=
  (px pi - px pj) * (px pi - px pj) + (py pi - py pj) * (py pi - py pj) + (pz pi - pz pj) * (pz pi - pz pj) + soft * soft.
Lemma sep2_nonneg soft pi pj : 0 <= sep2 soft pi pj.
Proof.
  unfold sep2. generalize (px pi - px pj) (py pi - py pj) (pz pi - pz pj). intros a b c.
  pose proof (Rle_0_sqr a). pose proof (Rle_0_sqr b). pose proof (Rle_0_sqr c). pose proof (Rle_0_sqr soft). unfold Rsqr in *. lra.
Qed.

(* all pairs j < i < n of the particle list are at distinct positions *)
Definition distinct (soft : R) (ps : list (Part R)) : Prop :=
  forall i j, (j < i < length ps)%nat -> sep2 soft (nth_d (Z0P RNum) ps i) (nth_d (Z0P RNum) ps j) <> 0.

(* the open-boundary ghost box (0,0,0) of a box of constant size, and zero softening, as duals *)
Definition gb0 (bx by_ bz : R) : option D3 :=
  Some (ghostbox DR (dconst RNum bx) (dconst RNum by_) (dconst RNum bz) (0%Z, 0%Z, 0%Z)).
Definition softD (soft : R) : R * R := nmul DR (dconst RNum soft) (dconst RNum soft).

(* ---------------------------------------------------------------- the algebra of one pair *)
(* dual part of the i-side and j-side kicks of reb_calculate_acceleration's pair body (C02 pair_step with
   pf_basic) on particles varied by vi, vj  =  the right-hand sides of the first-order variational body *)
Lemma var1_terms_dual (G soft bx by_ bz : R) (pi pj vi vj : Part R) :
  sep2 soft pi pj <> 0 ->
  let piD := dlift pi vi in
  let pjD := dlift pj vj in
  let dD := sep DR (gb0 bx by_ bz) piD pjD in
  let rD := norm_soft DR (softD soft) dD in
  let pf := ndiv DR (dconst RNum G) (nmul DR (nmul DR rD rD) rD) in
  let cj := nmul DR (nneg DR pf) (pm pjD) in
  let ci := nmul DR pf (pm piD) in
  let '(dx, dy, dz) := dD in
  let '(ti, tj) := var1_terms RNum (soft * soft) G pi pj vi vj in
  dp3 (nmul DR cj dx, nmul DR cj dy, nmul DR cj dz) = ti /\
  dp3 (nmul DR ci dx, nmul DR ci dy, nmul DR ci dz) = (let '(a, b, c) := tj in (- a, - b, - c)).
Proof.
  intros Hne.
  destruct pi as [mi xi yi zi], pj as [mj xj yj zj], vi as [dmi dxi dyi dzi], vj as [dmj dxj dyj dzj].
  remember (sep2 soft (mkP mi xi yi zi) (mkP mj xj yj zj)) as r2 eqn:Er2.
  assert (Hr2 : 0 <= r2) by (subst r2; apply sep2_nonneg).
  cbn. unfold sep2 in Er2. cbn in Er2.
  rewrite <- Er2.
  repeat match goal with
  | |- context [sqrt ?e] =>
      lazymatch e with
      | r2 => fail
      | _ => replace e with r2 by (subst r2; ring)
      end
  end.
  remember (sqrt r2) as s eqn:Es.
  assert (Hs : s * s = r2) by (subst s; apply sqrt_sqrt; exact Hr2).
  assert (Hs0 : s <> 0) by (intros E; apply Hne; rewrite <- Hs, E; ring).
  clear Es Hr2 Hne. rewrite <- Hs. clear Hs Er2 r2.
  split; (f_equal; [f_equal|]); field; exact Hs0.
Qed.

(* ---------------------------------------------------------------- one pair, on the arrays *)
Lemma kick_dp3 (accD : list D3) k c (d : D3) :
  map dp3 (kick DR accD k c d) =
  add3 RNum (map dp3 accD) k (let '(dx, dy, dz) := d in dp3 (nmul DR c dx, nmul DR c dy, nmul DR c dz)).
Proof.
  unfold kick, add3. change (t0 RNum) with (dp3 (v0 DR)). rewrite nth_d_map.
  destruct (nth_d (v0 DR) accD k) as [[[ax ax'] [ay ay']] [az az']]. destruct d as [[dx dy] dz].
  rewrite map_upd. reflexivity.
Qed.

Lemma add3_neg (acc : list (R * R * R)) k t :
  add3 RNum acc k (let '(a, b, c) := t in (- a, - b, - c)) = sub3 RNum acc k t.
Proof.
  unfold add3, sub3. destruct (nth_d (t0 RNum) acc k) as [[ax ay] az]. destruct t as [[a b] c].
  cbn. assert (E : forall u v : R, u + - v = u - v) by (intros; ring). rewrite !E. reflexivity.
Qed.

Lemma pair_step_dual (G soft bx by_ bz : R) (back : bool) pds i j (accD : list D3) :
  sep2 soft (nth_d (Z0P RNum) (map fst pds) i) (nth_d (Z0P RNum) (map fst pds) j) <> 0 ->
  map dp3 (pair_step DR (pf_basic DR (dconst RNum G)) back (gb0 bx by_ bz) (softD soft) (dlifts pds) i j accD)
  = var1_pair RNum (soft * soft) G back (map fst pds) (map snd pds) i j (map dp3 accD).
Proof.
  intros Hne. unfold pair_step, var1_pair, pf_basic. rewrite !nth_dlifts.
  pose proof (var1_terms_dual G soft bx by_ bz _ _ (nth_d (Z0P RNum) (map snd pds) i)
                (nth_d (Z0P RNum) (map snd pds) j) Hne) as H.
  cbv zeta in H. revert H.
  destruct (sep DR _ _ _) as [[dx dy] dz].
  destruct (var1_terms RNum _ _ _ _ _) as [ti tj]. intros [Hi Hj].
  destruct back.
  - rewrite !kick_dp3. rewrite Hi, Hj. apply add3_neg.
  - rewrite kick_dp3. rewrite Hi. reflexivity.
Qed.

(* ---------------------------------------------------------------- first order, all N *)
Theorem var1_is_dual_part (G soft bx by_ bz : R) (ign nact : nat) (tp : bool) (pds : list (Part R * Part R)) :
  let ps := map fst pds in
  let dps := map snd pds in
  distinct soft ps -> (nact <= length pds)%nat ->
  map dp3 (grav_basic DR (dconst RNum G) (dconst RNum soft) (dconst RNum bx) (dconst RNum by_) (dconst RNum bz)
             0 0 0 ign nact tp (dlifts pds))
  = grav_var1 RNum (soft * soft) G ign nact tp ps dps.
Proof.
  intros ps dps Hd Hn. unfold grav_basic, grav_var1.
  assert (Hlen : length (dlifts pds) = length ps) by (unfold dlifts, ps; now rewrite !map_length).
  assert (Hlp : length ps = length pds) by (unfold ps; now rewrite map_length).
  rewrite Hlen. change (boxes 0 0 0) with [(0%Z, 0%Z, 0%Z)]. cbn [fold_left].
  unfold pair_loops. cbv zeta.
  fold (softD soft). fold (gb0 bx by_ bz).
  apply (for_range_rel (fun (aD : list D3) a => map dp3 aD = a)).
  - intros i aD a Hi E. apply (for_range_rel (fun (aD : list D3) a => map dp3 aD = a)); [|exact E].
    intros j bD b Hj E2. rewrite <- E2. apply pair_step_dual. apply Hd. fold ps. lia.
  - apply (for_range_rel (fun (aD : list D3) a => map dp3 aD = a)).
    + intros i aD a Hi E. apply (for_range_rel (fun (aD : list D3) a => map dp3 aD = a)); [|exact E].
      intros j bD b Hj E2. rewrite <- E2. apply pair_step_dual. apply Hd. fold ps. lia.
    + unfold zeros. rewrite map_repeat. reflexivity.
Qed.

(* ---------------------------------------------------------------- first order, test-particle variation *)
(* real particles as constants (no variation) *)
Definition clifts (ps : list (Part R)) : list (Part (R * R)) := map (fun p => dlift p (Z0P RNum)) ps.
Lemma nth_clifts ps j : nth_d (Z0P DR) (clifts ps) j = dlift (nth_d (Z0P RNum) ps j) (Z0P RNum).
Proof.
  unfold clifts. change (Z0P DR) with ((fun p => dlift p (Z0P RNum)) (Z0P RNum)). now rewrite nth_d_map.
Qed.

Lemma var1_tp_step_dual (G soft : R) ps (x y z dvx dvy dvz : R) i j (aD : D3) :
  (x, y, z) = (px (nth_d (Z0P RNum) ps i), py (nth_d (Z0P RNum) ps i), pz (nth_d (Z0P RNum) ps i)) ->
  sep2 soft (nth_d (Z0P RNum) ps i) (nth_d (Z0P RNum) ps j) <> 0 ->
  dp3 (acc_on_step DR (softD soft) (dconst RNum G) (clifts ps) ((x, dvx), (y, dvy), (z, dvz)) j aD)
  = var1_tp_step RNum (soft * soft) G ps (dvx, dvy, dvz) i j (dp3 aD).
Proof.
  intros Exyz Hne. unfold acc_on_step, var1_tp_step. rewrite nth_clifts.
  destruct (nth_d (Z0P RNum) ps i) as [mi xi yi zi]. destruct (nth_d (Z0P RNum) ps j) as [mj xj yj zj].
  cbn in Exyz. injection Exyz as -> -> ->.
  destruct aD as [[[ax ax'] [ay ay']] [az az']].
  remember (sep2 soft (mkP mi xi yi zi) (mkP mj xj yj zj)) as r2 eqn:Er2.
  assert (Hr2 : 0 <= r2) by (subst r2; apply sep2_nonneg).
  cbn. unfold sep2 in Er2. cbn in Er2. rewrite <- Er2.
  remember (sqrt r2) as s eqn:Es.
  assert (Hs : s * s = r2) by (subst s; apply sqrt_sqrt; exact Hr2).
  assert (Hs0 : s <> 0) by (intros E; apply Hne; rewrite <- Hs, E; ring).
  clear Es Hr2 Hne. rewrite <- Hs. clear Hs Er2 r2.
  f_equal; [f_equal|]; field; exact Hs0.
Qed.

(* the variational acceleration of a test-particle variation of particle i is the derivative of the
   acceleration of particle i with respect to its own position, in the direction dv *)
Theorem var1_testparticle_is_dual_part (G soft : R) (ign : nat) (ps : list (Part R)) (dvx dvy dvz : R) (i : nat) :
  (forall j, (j < length ps)%nat -> j <> i ->
             sep2 soft (nth_d (Z0P RNum) ps i) (nth_d (Z0P RNum) ps j) <> 0) ->
  let pi := nth_d (Z0P RNum) ps i in
  dp3 (acc_on DR (softD soft) (dconst RNum G) ign (clifts ps) ((px pi, dvx), (py pi, dvy), (pz pi, dvz)) i)
  = grav_var1_tp RNum (soft * soft) G ign ps (dvx, dvy, dvz) i.
Proof.
  intros Hd pi. unfold acc_on, grav_var1_tp.
  replace (length (clifts ps)) with (length ps) by (unfold clifts; now rewrite map_length).
  apply (for_range_rel (fun (aD : D3) a => dp3 aD = a)); [|reflexivity].
  intros j aD a Hj E. destruct (tp_skip ign i j) eqn:Esk; [exact E|].
  rewrite <- E. apply var1_tp_step_dual; [reflexivity|].
  apply Hd; [lia|]. intros ->. unfold tp_skip in Esk. rewrite Nat.eqb_refl in Esk. discriminate.
Qed.
