(* C16 Dual.v: dual numbers a + b*eps (eps^2 = 0) as a Num instance over ANY base Num.
   Because every numerical model of this framework is one Gallina term polymorphic in Num,
   instantiating a model F at [DNum N] on inputs (x, dx) runs forward-mode differentiation of
   the very same term; "formula F' is the derivative of program F" is then the equation
        F'_R x dx = snd (F_{DNum RNum} (x, dx)).
   Second order: the instance nests, [DNum (DNum RNum)] carries a + b1 e1 + b2 e2 + c e1 e2 as
   ((a, b1), (b2, c)); the mixed second derivative is [snd (snd _)].
   The section DualMeansDerivative ties the R instance to Coquelicot's [is_derive]: each lifted
   operation maps (value, derivative) pairs to (value, derivative) pairs, so the dual part of a
   term built from these operations IS the derivative of its real part. *)
From Coq Require Import ZArith Reals Lra.
From Coquelicot Require Import Coquelicot.
From RV Require Import Common.Num Common.RealNum.

Section Dual.
Context {T : Type} (N : Num T).
Local Notation "a + b" := (nadd N a b).
Local Notation "a - b" := (nsub N a b).
Local Notation "a * b" := (nmul N a b).
Local Notation "a / b" := (ndiv N a b).
Local Notation "- a" := (nneg N a).

Definition DNum : Num (T * T) := {|
  nzero := (nzero N, nzero N);
  none  := (none N, nzero N);
  nadd  := fun a b => (fst a + fst b, snd a + snd b);
  nsub  := fun a b => (fst a - fst b, snd a - snd b);
  nmul  := fun a b => (fst a * fst b, fst a * snd b + snd a * fst b);
  ndiv  := fun a b => (fst a / fst b, (snd a * fst b - fst a * snd b) / (fst b * fst b));
  nneg  := fun a => (- fst a, - snd a);
  nsqrt := fun a => (nsqrt N (fst a), snd a / (nofZ N 2 * nsqrt N (fst a)));
  nabs  := fun a => (nabs N (fst a), if nltb N (fst a) (nzero N) then - snd a else snd a);
  nltb  := fun a b => nltb N (fst a) (fst b);
  nleb  := fun a b => nleb N (fst a) (fst b);
  neqb  := fun a b => neqb N (fst a) (fst b);
  nofZ  := fun z => (nofZ N z, nzero N);
  nisnan := fun a => nisnan N (fst a)
|}.

(* a constant (no variation) and a varied quantity *)
Definition dconst (a : T) : T * T := (a, nzero N).
End Dual.

Definition DR : Num (R * R) := DNum RNum.
Definition DDR : Num ((R * R) * (R * R)) := DNum DR.

(* second-order packing: value a, first-order parts b1 (direction 1), b2 (direction 2), mixed c *)
Definition dd (a b1 b2 c : R) : (R * R) * (R * R) := ((a, b1), (b2, c)).
Definition dd_val (x : (R * R) * (R * R)) : R := fst (fst x).
Definition dd_d1 (x : (R * R) * (R * R)) : R := snd (fst x).
Definition dd_d2 (x : (R * R) * (R * R)) : R := fst (snd x).
Definition dd_mix (x : (R * R) * (R * R)) : R := snd (snd x).

Open Scope R_scope.

(* ---- the dual part of each lifted operation is the derivative (R instance) ---- *)
Section DualMeansDerivative.
Variables (f g : R -> R) (x df dg : R).
Hypothesis Hf : is_derive f x df.
Hypothesis Hg : is_derive g x dg.

Lemma dual_add_correct :
  fst (nadd DR (f x, df) (g x, dg)) = f x + g x /\
  is_derive (fun t => f t + g t) x (snd (nadd DR (f x, df) (g x, dg))).
Proof. split; [reflexivity|]. cbn. apply (is_derive_plus f g x df dg Hf Hg). Qed.

Lemma dual_sub_correct :
  fst (nsub DR (f x, df) (g x, dg)) = f x - g x /\
  is_derive (fun t => f t - g t) x (snd (nsub DR (f x, df) (g x, dg))).
Proof. split; [reflexivity|]. cbn. apply (is_derive_minus f g x df dg Hf Hg). Qed.

Lemma dual_mul_correct :
  fst (nmul DR (f x, df) (g x, dg)) = f x * g x /\
  is_derive (fun t => f t * g t) x (snd (nmul DR (f x, df) (g x, dg))).
Proof.
  split; [reflexivity|]. cbn.
  replace (f x * dg + df * g x) with (plus (mult df (g x)) (mult (f x) dg))
    by (unfold plus, mult; cbn; ring).
  apply (is_derive_mult (K := R_AbsRing) f g x df dg Hf Hg). intros n m. apply Rmult_comm.
Qed.

Lemma dual_div_correct : g x <> 0 ->
  fst (ndiv DR (f x, df) (g x, dg)) = f x / g x /\
  is_derive (fun t => f t / g t) x (snd (ndiv DR (f x, df) (g x, dg))).
Proof.
  intros H0. split; [reflexivity|]. cbn.
  replace (g x * g x) with (g x ^ 2) by ring.
  apply is_derive_div; assumption.
Qed.

Lemma dual_neg_correct :
  fst (nneg DR (f x, df)) = - f x /\ is_derive (fun t => - f t) x (snd (nneg DR (f x, df))).
Proof. split; [reflexivity|]. cbn. apply (is_derive_opp f x df Hf). Qed.

Lemma dual_sqrt_correct : 0 < f x ->
  fst (nsqrt DR (f x, df)) = sqrt (f x) /\
  is_derive (fun t => sqrt (f t)) x (snd (nsqrt DR (f x, df))).
Proof. intros H0. split; [reflexivity|]. cbn. apply is_derive_sqrt; assumption. Qed.

Lemma dual_abs_correct : f x <> 0 ->
  fst (nabs DR (f x, df)) = Rabs (f x) /\
  is_derive (fun t => Rabs (f t)) x (snd (nabs DR (f x, df))).
Proof.
  intros H0. split; [reflexivity|]. cbn. unfold Rltb.
  destruct (Rlt_dec (f x) 0) as [Hneg|Hpos].
  - replace (- df) with (sign (f x) * df) by (rewrite sign_eq_m1 by exact Hneg; ring).
    apply is_derive_Rabs; assumption.
  - replace df with (sign (f x) * df) at 1 by (rewrite sign_eq_1 by lra; ring).
    apply is_derive_Rabs; assumption.
Qed.

(* sin / cos are oracle inputs of the models (libm values); their dual lifts, used by the
   derivative-constructor theorems, are the pairs (sin u, cos u * du) and (cos u, - sin u * du) *)
Lemma dual_sin_correct : is_derive (fun t => sin (f t)) x (cos (f x) * df).
Proof.
  replace (cos (f x) * df) with (scal df (cos (f x))) by (unfold scal; cbn; unfold mult; cbn; ring).
  apply (is_derive_comp sin f x); [apply is_derive_sin | exact Hf].
Qed.
Lemma dual_cos_correct : is_derive (fun t => cos (f t)) x (- sin (f x) * df).
Proof.
  replace (- sin (f x) * df) with (scal df (- sin (f x))) by (unfold scal; cbn; unfold mult; cbn; ring).
  apply (is_derive_comp cos f x); [apply is_derive_cos | exact Hf].
Qed.
End DualMeansDerivative.

Lemma dual_const_correct (c x : R) : is_derive (fun _ : R => c) x (snd (dconst RNum c)).
Proof. cbn. apply (is_derive_const (K := R_AbsRing) (V := R_NormedModule) c x). Qed.
Lemma dual_var_correct (x : R) : is_derive (fun t : R => t) x 1.
Proof. apply (is_derive_id (K := R_AbsRing) x). Qed.
