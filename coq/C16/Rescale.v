(* C16 model: src/tools.c reb_simulation_rescale_var, branch for branch, polymorphic in Num.  Definitions only.
   One variational configuration = (order, lrescale, its particles' m,x,y,z,vx,vy,vz); the particle list has
   N = 1 entries if vc.testparticle >= 0 and N_real entries otherwise (the harness / theorem supplies that list).
   log() is libm: the model takes lg : T -> T (ln over R; a table of libm values in the binary64 run).
   big = the double 1e100.  (Since /repo 8a5d079 the IAS15 branch also rescales the integrator's per-particle state of the set.)
   Not modelled: the bit-4 warning (it reads index_1st_order_a/b, which are never
   initialised for first-order configurations) and the warning texts. *)
From Coq Require Import List ZArith Bool.
From RV Require Import Common.Num.
Import ListNotations.

Section Rescale.
Context {T : Type} (N : Num T).
(* one variational particle: m, x, y, z, vx, vy, vz (the mass is rescaled too since /repo 32cf4f3; it does not enter `scale`) *)
Definition P6 : Type := (T * T * T * T * T * T * T)%type.
(* vc_alloc: r->ri_ias15.N_allocated >= 3*(vc->index+N)   (IAS15 has allocated its arrays for this set);
   vc_ias: the IAS15 per-particle state of the set, entries k = 3*index .. 3*(index+N)-1 of
           csx, csv and of p0..p6 of b, csb, e, br, er  (37 numbers per entry; the order inside the list is irrelevant
           to the model: every element is divided by the same scale; the harness uses k-major order) *)
Record VCfg : Type := mkVC { vc_order : nat; vc_lres : T; vc_ps : list P6; vc_alloc : bool; vc_ias : list T }.
(* integ: 1 = REB_INTEGRATOR_WHFAST, 2 = REB_INTEGRATOR_EOS, 3 = REB_INTEGRATOR_IAS15, 0 = any other *)
Record Flags : Type := mkFl { integ : nat; wh_sync : bool; eos_sync : bool; safe_mode : bool;
                              warn1 : bool; warn2 : bool; recalc : bool }.

(* scale = MAX(fabs(c), scale)  with  MAX(a,b) = ((a) > (b) ? (a) : (b)) *)
Definition maxabs (c s : T) : T := if nltb N s (nabs N c) then nabs N c else s.
Definition scale_step (s : T) (p : P6) : T :=
  let '(m, x, y, z, vx, vy, vz) := p in maxabs vz (maxabs vy (maxabs vx (maxabs z (maxabs y (maxabs x s))))).
Definition scale_of (ps : list P6) : T := fold_left scale_step ps (nzero N).
Definition div6 (s : T) (p : P6) : P6 :=
  let '(m, x, y, z, vx, vy, vz) := p in
  (ndiv N m s, ndiv N x s, ndiv N y s, ndiv N z s, ndiv N vx s, ndiv N vy s, ndiv N vz s).

(* body of the loop over var_config; third component true = `return` *)
Definition rescale_one (lg : T -> T) (big : T) (fl : Flags) (c : VCfg) : Flags * VCfg * bool :=
  if nltb N (vc_lres c) (nzero N) then (fl, c, false)            (* lrescale < 0: continue *)
  else
    let scale := scale_of (vc_ps c) in
    if nltb N big scale then                                     (* scale > 1e100 *)
      if Nat.eqb (vc_order c) 1 then
        let unsync := (Nat.eqb (integ fl) 1 && negb (wh_sync fl)) || (Nat.eqb (integ fl) 2 && negb (eos_sync fl)) in
        if unsync then
          (mkFl (integ fl) (wh_sync fl) (eos_sync fl) (safe_mode fl) true (warn2 fl) (recalc fl), c, true)
        else
          (mkFl (integ fl) (wh_sync fl) (eos_sync fl) (safe_mode fl) (warn1 fl) (warn2 fl)
                (if Nat.eqb (integ fl) 1 && negb (safe_mode fl) then true else recalc fl),
           mkVC (vc_order c) (nadd N (vc_lres c) (lg scale)) (map (div6 scale) (vc_ps c)) (vc_alloc c)
                (if Nat.eqb (integ fl) 3 && vc_alloc c then map (fun v => ndiv N v scale) (vc_ias c) else vc_ias c), false)
      else
        (mkFl (integ fl) (wh_sync fl) (eos_sync fl) (safe_mode fl) (warn1 fl) true (recalc fl), c, true)
    else (fl, c, false).

Fixpoint rescale_all (lg : T -> T) (big : T) (fl : Flags) (cs : list VCfg) : Flags * list VCfg :=
  match cs with
  | [] => (fl, [])
  | c :: r =>
      let '(fl1, c1, ret) := rescale_one lg big fl c in
      if ret then (fl1, c1 :: r)
      else let '(fl2, r2) := rescale_all lg big fl1 r in (fl2, c1 :: r2)
  end.
End Rescale.
Arguments mkVC {T} _ _ _ _ _.
Arguments vc_order {T} _.
Arguments vc_lres {T} _.
Arguments vc_ps {T} _.
Arguments vc_alloc {T} _.
Arguments vc_ias {T} _.
