(* C16 model: src/gravity.c reb_calculate_acceleration_var, the REB_GRAVITY_BASIC branch (also taken by
   REB_GRAVITY_COMPENSATED by fall-through), transcribed loop for loop and in source operation order,
   polymorphic in Num.  Definitions only.

   ps  : the real particles (m,x,y,z)            particles[0 .. N_real)
   dps : one set of first-order variational particles (dm,dx,dy,dz)   particles[vc.index + (0 .. N_real))
   The accelerations of the variational particles are a list of triples updated in place.
   Loops and the particle record are those of coq/C02/Model.v (for_range, Part, nth_d/upd). *)
From Coq Require Import List ZArith Bool.
From RV Require Import Common.Num C02.Model.
Import ListNotations.

Section GravVar.
Context {T : Type} (N : Num T).
(* softening2 = r->softening*r->softening (since /repo 73bd0c3 the variational loops use the softened distance) *)
Variable soft2 : T.
Local Notation "a + b" := (nadd N a b).
Local Notation "a - b" := (nsub N a b).
Local Notation "a * b" := (nmul N a b).
Local Notation "a / b" := (ndiv N a b).
Local Notation "1" := (none N).
Local Notation "0" := (nzero N).
Local Notation "3" := (nofZ N 3).
Local Notation "15" := (nofZ N 15).

Definition T3 : Type := (T * T * T)%type.
Definition t0 : T3 := (0, 0, 0).
Definition Z0P : Part T := mkP 0 0 0 0.

(* ------------------------------------------------------------------ 1st order, vc.testparticle < 0 *)
(* array updates  a[k] += t  /  a[k] -= t  on the three acceleration components *)
Definition add3 (acc : list T3) (k : nat) (t : T3) : list T3 :=
  let '(ax, ay, az) := nth_d t0 acc k in
  let '(tx, ty, tz) := t in
  upd acc k (ax + tx, ay + ty, az + tz).
Definition sub3 (acc : list T3) (k : nat) (t : T3) : list T3 :=
  let '(ax, ay, az) := nth_d t0 acc k in
  let '(tx, ty, tz) := t in
  upd acc k (ax - tx, ay - ty, az - tz).

(* the loop body shared by the two loop nests.  Returns the right-hand sides of
      var[i].a += Gmj*da - dGmj*r3inv*d ;      var[j].a -= Gmi*da - dGmi*r3inv*d
   pi,pj: real particles i,j ; vi,vj: variational particles i,j *)
Definition var1_terms (G : T) (pi pj vi vj : Part T) : T3 * T3 :=
  let dx := px pi - px pj in
  let dy := py pi - py pj in
  let dz := pz pi - pz pj in
  let r2 := dx * dx + dy * dy + dz * dz + soft2 in
  let _r := nsqrt N r2 in
  let r3inv := 1 / (r2 * _r) in
  let r5inv := 3 * r3inv / r2 in
  let ddx := px vi - px vj in
  let ddy := py vi - py vj in
  let ddz := pz vi - pz vj in
  let Gmi := G * pm pi in
  let Gmj := G * pm pj in
  let dxdx := dx * dx * r5inv - r3inv in
  let dydy := dy * dy * r5inv - r3inv in
  let dzdz := dz * dz * r5inv - r3inv in
  let dxdy := dx * dy * r5inv in
  let dxdz := dx * dz * r5inv in
  let dydz := dy * dz * r5inv in
  let dax := ddx * dxdx + ddy * dxdy + ddz * dxdz in
  let day := ddx * dxdy + ddy * dydy + ddz * dydz in
  let daz := ddx * dxdz + ddy * dydz + ddz * dzdz in
  let dGmi := G * pm vi in
  let dGmj := G * pm vj in
  ((Gmj * dax - dGmj * r3inv * dx, Gmj * day - dGmj * r3inv * dy, Gmj * daz - dGmj * r3inv * dz),
   (Gmi * dax - dGmi * r3inv * dx, Gmi * day - dGmi * r3inv * dy, Gmi * daz - dGmi * r3inv * dz)).

Definition var1_pair (G : T) (back : bool) (ps dps : list (Part T)) (i j : nat) (acc : list T3) : list T3 :=
  let '(ti, tj) := var1_terms G (nth_d Z0P ps i) (nth_d Z0P ps j) (nth_d Z0P dps i) (nth_d Z0P dps j) in
  let acc1 := add3 acc i ti in
  if back then sub3 acc1 j tj else acc1.

(* for (i=starti; i<_N_active; i++) for (j=startj; j<i; j++) {...}
   const int startitestp = MAX(_N_active, starti);
   for (i=startitestp; i<_N_real; i++) for (j=startj; j<_N_active; j++) {... if (_testparticle_type) ...}
   (same start index as in reb_calculate_acceleration; before /repo commit 09c4229 the second nest started at _N_active) *)
Definition grav_var1 (G : T) (ign nact : nat) (tptype : bool) (ps dps : list (Part T)) : list T3 :=
  let n := length ps in
  let acc := repeat t0 n in
  let acc :=
    for_range (starti_of ign) nact (fun i acc =>
      for_range (startj_of ign) i (fun j acc => var1_pair G true ps dps i j acc) acc) acc in
  let startitestp := Nat.max nact (starti_of ign) in
  for_range startitestp n (fun i acc =>
    for_range (startj_of ign) nact (fun j acc => var1_pair G tptype ps dps i j acc) acc) acc.

(* ------------------------------------------------------------------ 1st order, vc.testparticle = i >= 0 *)
Definition tp_skip (ign i j : nat) : bool :=
  Nat.eqb i j
  || (Nat.eqb ign 1 && ((Nat.eqb j 1 && Nat.eqb i 0) || (Nat.eqb i 1 && Nat.eqb j 0)))
  || (Nat.eqb ign 2 && (Nat.eqb j 0 || Nat.eqb i 0)).

Definition var1_tp_step (G : T) (ps : list (Part T)) (dv : T3) (i j : nat) (a : T3) : T3 :=
  let pi := nth_d Z0P ps i in
  let pj := nth_d Z0P ps j in
  let dx := px pi - px pj in
  let dy := py pi - py pj in
  let dz := pz pi - pz pj in
  let r2 := dx * dx + dy * dy + dz * dz + soft2 in
  let _r := nsqrt N r2 in
  let r3inv := 1 / (r2 * _r) in
  let r5inv := 3 * r3inv / r2 in
  let '(ddx, ddy, ddz) := dv in
  let Gmj := G * pm pj in
  let dxdx := dx * dx * r5inv - r3inv in
  let dydy := dy * dy * r5inv - r3inv in
  let dzdz := dz * dz * r5inv - r3inv in
  let dxdy := dx * dy * r5inv in
  let dxdz := dx * dz * r5inv in
  let dydz := dy * dz * r5inv in
  let dax := ddx * dxdx + ddy * dxdy + ddz * dxdz in
  let day := ddx * dxdy + ddy * dydy + ddz * dydz in
  let daz := ddx * dxdz + ddy * dydz + ddz * dzdz in
  let '(ax, ay, az) := a in
  (ax + Gmj * dax, ay + Gmj * day, az + Gmj * daz).

Definition grav_var1_tp (G : T) (ign : nat) (ps : list (Part T)) (dv : T3) (i : nat) : T3 :=
  for_range 0 (length ps) (fun j a => if tp_skip ign i j then a else var1_tp_step G ps dv i j a) t0.

(* the function the test-particle variation differentiates: the acceleration of particle i by the
   direct sum over the same j (same skips), with the position of i as the variable.  This is the
   per-particle form of reb_calculate_acceleration's BASIC sum (C02: acc_spec with eps = 0 when every j
   that is not skipped is a source).  Own transcription; xi is the position of particle i. *)
Definition acc_on_step (G : T) (ps : list (Part T)) (xi : T3) (j : nat) (a : T3) : T3 :=
  let pj := nth_d Z0P ps j in
  let '(x, y, z) := xi in
  let dx := x - px pj in
  let dy := y - py pj in
  let dz := z - pz pj in
  let _r := nsqrt N (dx * dx + dy * dy + dz * dz + soft2) in
  let prefact := G / (_r * _r * _r) in
  let prefactj := (nneg N prefact) * pm pj in
  let '(ax, ay, az) := a in
  (ax + prefactj * dx, ay + prefactj * dy, az + prefactj * dz).
Definition acc_on (G : T) (ign : nat) (ps : list (Part T)) (xi : T3) (i : nat) : T3 :=
  for_range 0 (length ps) (fun j a => if tp_skip ign i j then a else acc_on_step G ps xi j a) t0.

(* ------------------------------------------------------------------ 2nd order, vc.testparticle < 0 *)
(* d2ps: the second-order set ; das / dbs : the first-order sets index_1st_order_a / _b.
   for (i=0; i<_N_real; i++) for (j=i+1; j<_N_real; j++)  : all pairs, no WH skipping, N_active ignored *)
Definition var2_terms (G : T) (pi pj wi wj ai aj bi bj : Part T) : T3 * T3 :=
  let dx := px pi - px pj in
  let dy := py pi - py pj in
  let dz := pz pi - pz pj in
  let r2 := dx * dx + dy * dy + dz * dz + soft2 in
  let r := nsqrt N r2 in
  let r3inv := 1 / (r2 * r) in
  let r5inv := r3inv / r2 in
  let r7inv := r5inv / r2 in
  let ddx := px wi - px wj in
  let ddy := py wi - py wj in
  let ddz := pz wi - pz wj in
  let Gmi := G * pm pi in
  let Gmj := G * pm pj in
  let ddGmi := G * pm wi in
  let ddGmj := G * pm wj in
  let dax0 := ddx * (3 * dx * dx * r5inv - r3inv) + ddy * (3 * dx * dy * r5inv) + ddz * (3 * dx * dz * r5inv) in
  let day0 := ddx * (3 * dy * dx * r5inv) + ddy * (3 * dy * dy * r5inv - r3inv) + ddz * (3 * dy * dz * r5inv) in
  let daz0 := ddx * (3 * dz * dx * r5inv) + ddy * (3 * dz * dy * r5inv) + ddz * (3 * dz * dz * r5inv - r3inv) in
  let dk1dx := px ai - px aj in
  let dk1dy := py ai - py aj in
  let dk1dz := pz ai - pz aj in
  let dk2dx := px bi - px bj in
  let dk2dy := py bi - py bj in
  let dk2dz := pz bi - pz bj in
  let rdk1 := dx * dk1dx + dy * dk1dy + dz * dk1dz in
  let rdk2 := dx * dk2dx + dy * dk2dy + dz * dk2dz in
  let dk1dk2 := dk1dx * dk2dx + dk1dy * dk2dy + dk1dz * dk2dz in
  let dax := dax0 + (3 * r5inv * dk2dx * rdk1 + 3 * r5inv * dk1dx * rdk2 + 3 * r5inv * dx * dk1dk2
                     - 15 * dx * r7inv * rdk1 * rdk2) in
  let day := day0 + (3 * r5inv * dk2dy * rdk1 + 3 * r5inv * dk1dy * rdk2 + 3 * r5inv * dy * dk1dk2
                     - 15 * dy * r7inv * rdk1 * rdk2) in
  let daz := daz0 + (3 * r5inv * dk2dz * rdk1 + 3 * r5inv * dk1dz * rdk2 + 3 * r5inv * dz * dk1dk2
                     - 15 * dz * r7inv * rdk1 * rdk2) in
  let dk1Gmi := G * pm ai in
  let dk1Gmj := G * pm aj in
  let dk2Gmi := G * pm bi in
  let dk2Gmj := G * pm bj in
  ((Gmj * dax - ddGmj * r3inv * dx - dk2Gmj * r3inv * dk1dx + 3 * dk2Gmj * r5inv * dx * rdk1
           - dk1Gmj * r3inv * dk2dx + 3 * dk1Gmj * r5inv * dx * rdk2,
    Gmj * day - ddGmj * r3inv * dy - dk2Gmj * r3inv * dk1dy + 3 * dk2Gmj * r5inv * dy * rdk1
           - dk1Gmj * r3inv * dk2dy + 3 * dk1Gmj * r5inv * dy * rdk2,
    Gmj * daz - ddGmj * r3inv * dz - dk2Gmj * r3inv * dk1dz + 3 * dk2Gmj * r5inv * dz * rdk1
           - dk1Gmj * r3inv * dk2dz + 3 * dk1Gmj * r5inv * dz * rdk2),
   (Gmi * dax - ddGmi * r3inv * dx - dk2Gmi * r3inv * dk1dx + 3 * dk2Gmi * r5inv * dx * rdk1
           - dk1Gmi * r3inv * dk2dx + 3 * dk1Gmi * r5inv * dx * rdk2,
    Gmi * day - ddGmi * r3inv * dy - dk2Gmi * r3inv * dk1dy + 3 * dk2Gmi * r5inv * dy * rdk1
           - dk1Gmi * r3inv * dk2dy + 3 * dk1Gmi * r5inv * dy * rdk2,
    Gmi * daz - ddGmi * r3inv * dz - dk2Gmi * r3inv * dk1dz + 3 * dk2Gmi * r5inv * dz * rdk1
           - dk1Gmi * r3inv * dk2dz + 3 * dk1Gmi * r5inv * dz * rdk2)).

Definition var2_pair (G : T) (ps d2ps das dbs : list (Part T)) (i j : nat) (acc : list T3) : list T3 :=
  let '(ti, tj) := var2_terms G (nth_d Z0P ps i) (nth_d Z0P ps j) (nth_d Z0P d2ps i) (nth_d Z0P d2ps j)
                     (nth_d Z0P das i) (nth_d Z0P das j) (nth_d Z0P dbs i) (nth_d Z0P dbs j) in
  sub3 (add3 acc i ti) j tj.

Definition grav_var2 (G : T) (ps d2ps das dbs : list (Part T)) : list T3 :=
  let n := length ps in
  for_range 0 n (fun i acc =>
    for_range (S i) n (fun j acc => var2_pair G ps d2ps das dbs i j acc) acc) (repeat t0 n).

(* the function the second-order loop differentiates: Newtonian direct sum over the SAME iteration
   space (all pairs i<j, i gets -G m_j d/r^3, j gets +G m_i d/r^3).  Own transcription (the loop order of
   reb_calculate_acceleration is j<i; over the reals both give C02's acc_spec with eps=0, all active). *)
Definition newt_terms (G : T) (pi pj : Part T) : T3 * T3 :=
  let dx := px pi - px pj in
  let dy := py pi - py pj in
  let dz := pz pi - pz pj in
  let _r := nsqrt N (dx * dx + dy * dy + dz * dz + soft2) in
  let prefact := G / (_r * _r * _r) in
  let prefactj := (nneg N prefact) * pm pj in
  let prefacti := prefact * pm pi in
  ((prefactj * dx, prefactj * dy, prefactj * dz), (prefacti * dx, prefacti * dy, prefacti * dz)).
Definition newt_pair (G : T) (ps : list (Part T)) (i j : nat) (acc : list T3) : list T3 :=
  let '(ti, tj) := newt_terms G (nth_d Z0P ps i) (nth_d Z0P ps j) in
  add3 (add3 acc i ti) j tj.
Definition grav_allpairs (G : T) (ps : list (Part T)) : list T3 :=
  let n := length ps in
  for_range 0 n (fun i acc =>
    for_range (S i) n (fun j acc => newt_pair G ps i j acc) acc) (repeat t0 n).

(* ------------------------------------------------------------------ 2nd order, vc.testparticle = i >= 0 *)
(* w = particles_var2[0], a = particles_var1a[0], b = particles_var1b[0] (positions only);
   for (j=0; j<_N_real; j++) { if (i==j) continue; ... }   no WH skipping, no mass variations *)
Definition var2_tp_step (G : T) (ps : list (Part T)) (w a b : T3) (i j : nat) (acc : T3) : T3 :=
  let pi := nth_d Z0P ps i in
  let pj := nth_d Z0P ps j in
  let dx := px pi - px pj in
  let dy := py pi - py pj in
  let dz := pz pi - pz pj in
  let r2 := dx * dx + dy * dy + dz * dz + soft2 in
  let r := nsqrt N r2 in
  let r3inv := 1 / (r2 * r) in
  let r5inv := r3inv / r2 in
  let r7inv := r5inv / r2 in
  let '(ddx, ddy, ddz) := w in
  let Gmj := G * pm pj in
  let dax0 := ddx * (3 * dx * dx * r5inv - r3inv) + ddy * (3 * dx * dy * r5inv) + ddz * (3 * dx * dz * r5inv) in
  let day0 := ddx * (3 * dy * dx * r5inv) + ddy * (3 * dy * dy * r5inv - r3inv) + ddz * (3 * dy * dz * r5inv) in
  let daz0 := ddx * (3 * dz * dx * r5inv) + ddy * (3 * dz * dy * r5inv) + ddz * (3 * dz * dz * r5inv - r3inv) in
  let '(dk1dx, dk1dy, dk1dz) := a in
  let '(dk2dx, dk2dy, dk2dz) := b in
  let rdk1 := dx * dk1dx + dy * dk1dy + dz * dk1dz in
  let rdk2 := dx * dk2dx + dy * dk2dy + dz * dk2dz in
  let dk1dk2 := dk1dx * dk2dx + dk1dy * dk2dy + dk1dz * dk2dz in
  let dax := dax0 + (3 * r5inv * dk2dx * rdk1 + 3 * r5inv * dk1dx * rdk2 + 3 * r5inv * dx * dk1dk2
                     - 15 * dx * r7inv * rdk1 * rdk2) in
  let day := day0 + (3 * r5inv * dk2dy * rdk1 + 3 * r5inv * dk1dy * rdk2 + 3 * r5inv * dy * dk1dk2
                     - 15 * dy * r7inv * rdk1 * rdk2) in
  let daz := daz0 + (3 * r5inv * dk2dz * rdk1 + 3 * r5inv * dk1dz * rdk2 + 3 * r5inv * dz * dk1dk2
                     - 15 * dz * r7inv * rdk1 * rdk2) in
  let '(ax, ay, az) := acc in
  (ax + Gmj * dax, ay + Gmj * day, az + Gmj * daz).
Definition grav_var2_tp (G : T) (ps : list (Part T)) (w a b : T3) (i : nat) : T3 :=
  for_range 0 (length ps) (fun j acc => if Nat.eqb i j then acc else var2_tp_step G ps w a b i j acc) t0.

End GravVar.
