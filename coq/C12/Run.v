(* C12: the model instantiated at binary64 and lifted from one scalar component to whole
   particle arrays (component-major lists), as evaluated by the correspondence check. *)
From Coq Require Import List ZArith PrimFloat.
From RV Require Import Common.Num Common.FloatNum C12.Model.
Import ListNotations.

Definition hdl (l : list (list float)) : list float := match l with x :: _ => x | [] => [] end.

(* inertial -> jacobi: [comps] = the components transformed (6 for posvel, 9 for posvelacc, 3 for acc);
   result = all transformed components, then Mtotal *)
Definition jacF (ms : list float) (comps : list (list float)) (na : nat) : list float :=
  flat_map (fun qs => fst (jac_fwd FNum ms qs na)) comps ++ [snd (jac_fwd FNum ms (hdl comps) na)].
Definition jacI (ms : list float) (comps : list (list float)) (mtot : float) (na : nat) : list float :=
  flat_map (fun qs => jac_inv FNum ms qs mtot na) comps.

(* democratic heliocentric / WHDS: 3 position components, 3 velocity components, then p_h[0].m *)
Definition dhF (ms : list float) (pos vel : list (list float)) (na : nat) : list float :=
  flat_map (fun qs => dh_fwd_pos FNum ms qs na) pos ++ flat_map (fun qs => dh_fwd_vel FNum ms qs na) vel
  ++ [msum FNum (firstn na ms)].
Definition whdsF (ms : list float) (pos vel : list (list float)) (na : nat) : list float :=
  flat_map (fun qs => dh_fwd_pos FNum ms qs na) pos ++ flat_map (fun qs => whds_fwd_vel FNum ms qs na) vel
  ++ [msum FNum (firstn na ms)].
Definition dhI (ms : list float) (pos vel : list (list float)) (mtot : float) (na : nat) : list float :=
  flat_map (fun hs => dh_inv_pos FNum ms hs mtot na) pos ++ flat_map (fun hs => dh_inv_vel FNum ms hs na) vel.
Definition whdsI (ms : list float) (pos vel : list (list float)) (mtot : float) (na : nat) : list float :=
  flat_map (fun hs => dh_inv_pos FNum ms hs mtot na) pos ++ flat_map (fun hs => whds_inv_vel FNum ms hs na) vel.

Definition baryF (ms : list float) (comps : list (list float)) (na : nat) : list float :=
  flat_map (fun qs => fst (bary_fwd FNum ms qs na)) comps ++ [snd (bary_fwd FNum ms (hdl comps) na)].
Definition baryI (ms : list float) (comps : list (list float)) (M : float) (na : nat) : list float :=
  flat_map (fun bs => bary_inv FNum ms bs M na) comps.

(* MERCURIUS/TRACE shifts: 3 position comps, 3 velocity comps; forward returns comps ++ com_pos ++ com_vel *)
Definition mercF (ms : list float) (pos vel : list (list float)) (na : nat) : list float :=
  flat_map (fun qs => merc_fwd_pos FNum qs) pos ++ flat_map (fun vs => merc_fwd_vel FNum ms vs na) vel
  ++ map (fun qs => merc_com FNum ms qs na) pos ++ map (fun vs => merc_com FNum ms vs na) vel.
Fixpoint map2f {A B C} (f : A -> B -> C) (a : list A) (b : list B) : list C :=
  match a, b with x :: r, y :: s => f x y :: map2f f r s | _, _ => [] end.
Definition mercI (ms : list float) (pos vel : list (list float)) (cp cv : list float) (na : nat) : list float :=
  concat (map2f (fun hs c => merc_inv_pos FNum ms hs c na) pos cp) ++
  concat (map2f (fun ws c => merc_inv_vel FNum ms ws c na) vel cv).
