(* C12: Jacobi coordinates diagonalise the mass inner product.  For the forward Jacobi map J of Model.v applied to
   two scalar components a, b of the same particle set (all particles active):
       sum_i m_i a_i b_i  =  M * A_0 * B_0  +  sum_{i>=1} mu_i * A_i * B_i ,     mu_i = m_i eta_{i-1} / eta_i ,
   (A, B) = (J a, J b), eta_i the running mass sums, M = eta_{N-1}.  With a = b = a velocity component this is the
   kinetic energy in Jacobi coordinates; with a = a position and b = a velocity component it gives the components
   of the total angular momentum: L and T have no cross terms in Jacobi coordinates, which is what lets the
   Wisdom-Holman Kepler drift (which conserves each X_i x V_i, C03) conserve the total angular momentum. *)
From Coq Require Import List Reals Lra Lia.
From RV Require Import Common.Num Common.RealNum C12.Model.
Import ListNotations.
Open Scope R_scope.

Definition mu (m eta : R) : R := m * eta / (eta + m).

(* partial mass sums never vanish *)
Fixpoint etas_ok (ms : list R) (eta : R) : Prop :=
  match ms with [] => True | m :: r => eta + m <> 0 /\ etas_ok r (eta + m) end.

Fixpoint wsum_mu (ms As Bs : list R) (eta : R) : R :=
  match ms, As, Bs with
  | m :: r, a :: ra, b :: rb => mu m eta * a * b + wsum_mu r ra rb (eta + m)
  | _, _, _ => 0
  end.
Fixpoint sum_mab (ms as_ bs : list R) : R :=
  match ms, as_, bs with
  | m :: r, a :: ra, b :: rb => m * a * b + sum_mab r ra rb
  | _, _, _ => 0
  end.

Lemma jac_act_cons m q l eta s :
  jac_fwd_act RNum ((m, q) :: l) eta s =
  (let '(out, st) := jac_fwd_act RNum l (eta + m) (s * ((eta + m) * (1 / eta)) + m * (q - s * (1 / eta))) in
   ((q - s * (1 / eta)) :: out, st)).
Proof. reflexivity. Qed.

(* the running weighted sum is the plain mass-weighted sum (exact arithmetic) *)
Lemma jac_state_step m q eta s : eta <> 0 -> s * ((eta + m) * (1 / eta)) + m * (q - s * (1 / eta)) = s + m * q.
Proof. intros H. field. exact H. Qed.

Lemma jac_ip : forall ms as_ bs eta sa sb,
  length as_ = length ms -> length bs = length ms -> eta <> 0 -> etas_ok ms eta ->
  forall A B eta1 sa1 eta2 sb1,
  jac_fwd_act RNum (combine ms as_) eta sa = (A, (eta1, sa1)) ->
  jac_fwd_act RNum (combine ms bs) eta sb = (B, (eta2, sb1)) ->
  eta1 = eta2 /\ eta1 <> 0 /\
  sa * sb / eta + sum_mab ms as_ bs = sa1 * sb1 / eta1 + wsum_mu ms A B eta.
Proof.
  induction ms as [|m ms IH]; intros as_ bs eta sa sb La Lb He Hok A B eta1 sa1 eta2 sb1 EA EB.
  - destruct as_; [|discriminate]. destruct bs; [|discriminate]. cbn in EA, EB. inversion EA. inversion EB. subst.
    cbn. split; [reflexivity|]. split; [exact He|]. lra.
  - destruct as_ as [|a as_]; [discriminate|]. destruct bs as [|b bs]; [discriminate|].
    cbn [length] in La, Lb. injection La as La. injection Lb as Lb.
    destruct Hok as [Hem Hok].
    cbn [combine] in EA, EB. rewrite jac_act_cons in EA, EB.
    rewrite (jac_state_step m a eta sa He) in EA. rewrite (jac_state_step m b eta sb He) in EB.
    destruct (jac_fwd_act RNum (combine ms as_) (eta + m) (sa + m * a)) as [A' [e1 s1]] eqn:EA'.
    destruct (jac_fwd_act RNum (combine ms bs) (eta + m) (sb + m * b)) as [B' [e2 s2]] eqn:EB'.
    inversion EA. inversion EB. subst.
    destruct (IH as_ bs (eta + m) (sa + m * a) (sb + m * b) La Lb Hem Hok A' B' eta1 sa1 eta2 sb1 EA' EB') as (E12 & Hne & Hsum).
    split; [exact E12|]. split; [exact Hne|].
    cbn [sum_mab wsum_mu].
    assert (W : wsum_mu ms A' B' (eta + m)
                = (sa + m * a) * (sb + m * b) / (eta + m) + sum_mab ms as_ bs - sa1 * sb1 / eta1) by lra.
    rewrite W. unfold mu. cbn [nsub nmul ndiv none RNum]. field. repeat split; assumption.
Qed.

(* whole set: first particle (m0, a0, b0), then the rest; A0 = sa'/M is the centre-of-mass component *)
Theorem jacobi_mass_inner_product m0 a0 b0 ms as_ bs A B M sa sb :
  length as_ = length ms -> length bs = length ms -> m0 <> 0 -> etas_ok ms m0 ->
  jac_fwd_act RNum (combine ms as_) m0 (m0 * a0) = (A, (M, sa)) ->
  jac_fwd_act RNum (combine ms bs) m0 (m0 * b0) = (B, (M, sb)) ->
  m0 * a0 * b0 + sum_mab ms as_ bs = M * (sa / M) * (sb / M) + wsum_mu ms A B m0.
Proof.
  intros La Lb H0 Hok EA EB.
  destruct (jac_ip ms as_ bs m0 (m0 * a0) (m0 * b0) La Lb H0 Hok A B M sa M sb EA EB) as (_ & HM & Hs).
  replace (M * (sa / M) * (sb / M)) with (sa * sb / M) by (field; exact HM).
  rewrite <- Hs. field. exact H0.
Qed.

(* the whole forward routine jac_fwd (the term compared bit for bit with the C code) with all particles active is
   the centre-of-mass slot followed by the outputs of the active loop *)
Lemma jac_fwd_all_active m0 mr q0 qr A M s :
  length qr = length mr ->
  jac_fwd_act RNum (combine mr qr) m0 (m0 * q0) = (A, (M, s)) ->
  jac_fwd RNum (m0 :: mr) (q0 :: qr) (S (length mr)) = ((s * (1 / M)) :: A, M).
Proof.
  intros L E. unfold jac_fwd. cbn [nmul RNum].
  replace (S (length mr) - 1)%nat with (length mr) by lia.
  rewrite firstn_all. rewrite <- L at 1. rewrite firstn_all.
  rewrite <- L. rewrite skipn_all. rewrite E. unfold jac_fwd_tp. cbn [map]. rewrite app_nil_r. reflexivity.
Qed.

(* kinetic energy and angular momentum in Jacobi coordinates (one component each; the other components are the same
   statement with the letters permuted) *)
Theorem jacobi_kinetic_energy m0 v0 ms vs V M sv :
  length vs = length ms -> m0 <> 0 -> etas_ok ms m0 ->
  jac_fwd_act RNum (combine ms vs) m0 (m0 * v0) = (V, (M, sv)) ->
  m0 * v0 * v0 + sum_mab ms vs vs = M * (sv / M) * (sv / M) + wsum_mu ms V V m0.
Proof. intros L H0 Hok E. exact (jacobi_mass_inner_product m0 v0 v0 ms vs vs V V M sv sv L L H0 Hok E E). Qed.

Theorem jacobi_angular_momentum_z m0 x0 y0 vx0 vy0 ms xs ys vxs vys X Y VX VY M sx sy svx svy :
  length xs = length ms -> length ys = length ms -> length vxs = length ms -> length vys = length ms ->
  m0 <> 0 -> etas_ok ms m0 ->
  jac_fwd_act RNum (combine ms xs) m0 (m0 * x0) = (X, (M, sx)) ->
  jac_fwd_act RNum (combine ms ys) m0 (m0 * y0) = (Y, (M, sy)) ->
  jac_fwd_act RNum (combine ms vxs) m0 (m0 * vx0) = (VX, (M, svx)) ->
  jac_fwd_act RNum (combine ms vys) m0 (m0 * vy0) = (VY, (M, svy)) ->
  (m0 * x0 * vy0 + sum_mab ms xs vys) - (m0 * y0 * vx0 + sum_mab ms ys vxs)
  = (M * (sx / M) * (svy / M) + wsum_mu ms X VY m0) - (M * (sy / M) * (svx / M) + wsum_mu ms Y VX m0).
Proof.
  intros Lx Ly Lvx Lvy H0 Hok EX EY EVX EVY.
  rewrite (jacobi_mass_inner_product m0 x0 vy0 ms xs vys X VY M sx svy Lx Lvy H0 Hok EX EVY).
  rewrite (jacobi_mass_inner_product m0 y0 vx0 ms ys vxs Y VX M sy svx Ly Lvx H0 Hok EY EVX).
  reflexivity.
Qed.
