(* C12 proofs over the Coq reals: forward and inverse maps are mutual inverses for every
   N and N_active, and slot 0 carries the total mass and centre of mass. *)
From Coq Require Import List ZArith Reals Lra Lia.
From RV Require Import Common.Num Common.RealNum C12.Model.
Import ListNotations.
Open Scope R_scope.

(* every partial mass sum met by the Jacobi recurrences is non-zero *)
Fixpoint eta_ok (l : list (R * R)) (eta : R) : Prop :=
  eta <> 0 /\ match l with [] => True | (mi, _) :: r => eta_ok r (eta + mi) end.

Lemma eta_ok_head l eta : eta_ok l eta -> eta <> 0.
Proof. destruct l as [|[mi qi] r]; cbn; tauto. Qed.

Lemma jac_fwd_act_length l : forall eta s out st,
  jac_fwd_act RNum l eta s = (out, st) -> length out = length l.
Proof.
  induction l as [|[mi qi] r IH]; cbn; intros eta s out st H.
  - inversion H; reflexivity.
  - destruct (jac_fwd_act RNum r _ _) as [o st'] eqn:E. inversion H; subst. cbn. f_equal. eapply IH; eauto.
Qed.

(* the forward recurrence keeps eta = sum of masses, s = sum of m*q *)
Lemma jac_fwd_act_state l : forall eta s out eta' s',
  eta_ok l eta ->
  jac_fwd_act RNum l eta s = (out, (eta', s')) ->
  eta' = fold_left (fun a p => a + fst p) l eta /\
  s' = fold_left (fun a p => a + fst p * snd p) l s /\ eta' <> 0.
Proof.
  induction l as [|[mi qi] r IH]; cbn; intros eta s out eta' s' Hok H.
  - inversion H; subst. tauto.
  - destruct Hok as [Hne Hok].
    destruct (jac_fwd_act RNum r _ _) as [o [e2 s2]] eqn:E. inversion H; subst.
    specialize (IH _ _ _ _ _ Hok E). destruct IH as [I1 [I2 I3]].
    split; [exact I1|]. split; [|exact I3].
    rewrite I2. f_equal. field. exact Hne.
Qed.

(* the inverse recurrence, run from the forward end state, undoes it *)
Lemma jac_act_roundtrip l : forall eta s out eta' s',
  eta_ok l eta ->
  jac_fwd_act RNum l eta s = (out, (eta', s')) ->
  jac_inv_act RNum (combine (map fst l) out) eta' s' = (map snd l, (eta, s)).
Proof.
  induction l as [|[mi qi] r IH]; cbn; intros eta s out eta' s' Hok H.
  - inversion H; subst. reflexivity.
  - destruct Hok as [Hne Hok].
    destruct (jac_fwd_act RNum r _ _) as [o [e2 s2]] eqn:E. inversion H; subst. cbn.
    rewrite (IH _ _ _ _ _ Hok E).
    pose proof (eta_ok_head _ _ Hok) as Hne2.
    f_equal; [f_equal|f_equal]; field; auto.
Qed.

(* ---------- whole routines ---------- *)
Definition act_list (ms qs : list R) (na : nat) : list (R * R) :=
  combine (firstn (na - 1) (tl ms)) (firstn (na - 1) (tl qs)).

Definition jac_ok (ms qs : list R) (na : nat) : Prop :=
  length ms = length qs /\ (1 <= na <= length ms)%nat /\ eta_ok (act_list ms qs na) (hd 0 ms).

Lemma map_fst_combine {A B} (a : list A) (b : list B) :
  length a = length b -> map fst (combine a b) = a.
Proof. revert b; induction a as [|x a IH]; destruct b; cbn; intros H; try discriminate; auto.
  f_equal. apply IH. lia. Qed.
Lemma map_snd_combine {A B} (a : list A) (b : list B) :
  length a = length b -> map snd (combine a b) = b.
Proof. revert b; induction a as [|x a IH]; destruct b; cbn; intros H; try discriminate; auto.
  f_equal. apply IH. lia. Qed.

Lemma firstn_app_len {A} (a b : list A) n : length a = n -> firstn n (a ++ b) = a.
Proof. intros <-. rewrite firstn_app, Nat.sub_diag, firstn_all. cbn. apply app_nil_r. Qed.
Lemma skipn_app_len {A} (a b : list A) n : length a = n -> skipn n (a ++ b) = b.
Proof. intros <-. rewrite skipn_app, Nat.sub_diag, skipn_all. reflexivity. Qed.

Theorem jacobi_roundtrip ms qs na :
  jac_ok ms qs na ->
  jac_inv RNum ms (fst (jac_fwd RNum ms qs na)) (snd (jac_fwd RNum ms qs na)) na = qs.
Proof.
  intros [Hlen [Hna Hok]].
  destruct ms as [|m0 mr]; destruct qs as [|q0 qr]; cbn in Hlen; try discriminate;
    [cbn in Hna; lia|].
  unfold jac_fwd. unfold act_list in Hok. cbn [tl hd] in Hok.
  set (l := combine (firstn (na - 1) mr) (firstn (na - 1) qr)) in *.
  destruct (jac_fwd_act RNum l m0 (nmul RNum m0 q0)) as [act [eta' s']] eqn:E.
  cbn [fst snd]. unfold jac_inv.
  assert (Hl1 : length (firstn (na - 1) mr) = length (firstn (na - 1) qr)).
  { rewrite !firstn_length. cbn in Hlen. lia. }
  pose proof (jac_fwd_act_length _ _ _ _ _ E) as Hlact.
  assert (Hll : length l = (na - 1)%nat).
  { unfold l. rewrite combine_length, !firstn_length. cbn in Hlen, Hna. lia. }
  rewrite (firstn_app_len act) by lia.
  rewrite (skipn_app_len act) by lia.
  pose proof (jac_act_roundtrip _ _ _ _ _ _ Hok E) as RT.
  unfold l in RT at 1. rewrite map_fst_combine in RT by exact Hl1.
  pose proof (jac_fwd_act_state _ _ _ _ _ _ Hok E) as [_ [_ Hne']].
  pose proof (eta_ok_head _ _ Hok) as Hne0.
  replace (nmul RNum (nmul RNum s' (ndiv RNum (none RNum) eta')) eta') with s'
    by (cbn; field; auto).
  rewrite RT.
  unfold l. rewrite map_snd_combine by exact Hl1.
  f_equal.
  - cbn. field. auto.
  - rewrite <- (firstn_skipn (na - 1) qr) at 3. f_equal.
    unfold jac_inv_tp, jac_fwd_tp. rewrite map_map.
    rewrite <- (map_id (skipn (na - 1) qr)) at 2. apply map_ext. intros a. cbn. field. auto.
Qed.

(* ---------- sums ---------- *)
Fixpoint Wsum (l : list (R * R)) : R :=
  match l with [] => 0 | (m, q) :: r => q * m + Wsum r end.
Fixpoint Msum (l : list R) : R :=
  match l with [] => 0 | m :: r => m + Msum r end.

Lemma wsum_acc l : forall acc, wsum RNum l acc = acc + Wsum l.
Proof. induction l as [|[m q] r IH]; cbn; intros acc; [lra|]. rewrite IH. lra. Qed.
Lemma sumf_acc l : forall acc, sumf RNum l acc = acc + Msum l.
Proof. induction l as [|m r IH]; cbn; intros acc; [lra|]. rewrite IH. lra. Qed.
Lemma dsum_acc l d : d <> 0 -> forall acc, dsum RNum l d acc = acc + Wsum l / d.
Proof. intros Hd. induction l as [|[m q] r IH]; cbn; intros acc; [field; auto|].
  rewrite IH. field; auto. Qed.
Lemma fold_m l : forall a, fold_left (fun a (p : R * R) => a + fst p) l a = a + Msum (map fst l).
Proof. induction l as [|[m q] r IH]; cbn; intros a; [lra|]. rewrite IH. lra. Qed.
Lemma fold_mq l : forall a, fold_left (fun a (p : R * R) => a + fst p * snd p) l a = a + Wsum l.
Proof. induction l as [|[m q] r IH]; cbn; intros a; [lra|]. rewrite IH. lra. Qed.

Lemma firstn_S_cons {A} (x : A) l n : (1 <= n)%nat -> firstn n (x :: l) = x :: firstn (n - 1) l.
Proof. destruct n; [lia|]. cbn. rewrite Nat.sub_0_r. reflexivity. Qed.

(* centre of mass of the active particles, as a mathematical quantity *)
Definition COM (ms qs : list R) (na : nat) : R :=
  Wsum (combine (firstn na ms) (firstn na qs)) / Msum (firstn na ms).

Theorem jacobi_slot0 ms qs na :
  jac_ok ms qs na ->
  hd 0 (fst (jac_fwd RNum ms qs na)) = COM ms qs na /\
  snd (jac_fwd RNum ms qs na) = Msum (firstn na ms).
Proof.
  intros [Hlen [Hna Hok]].
  destruct ms as [|m0 mr]; destruct qs as [|q0 qr]; cbn in Hlen; try discriminate;
    [cbn in Hna; lia|].
  unfold jac_fwd, COM. unfold act_list in Hok. cbn [tl hd] in Hok.
  set (l := combine (firstn (na - 1) mr) (firstn (na - 1) qr)) in *.
  destruct (jac_fwd_act RNum l m0 (nmul RNum m0 q0)) as [act [eta' s']] eqn:E.
  cbn [fst snd hd].
  pose proof (jac_fwd_act_state _ _ _ _ _ _ Hok E) as [He [Hs Hne']].
  rewrite fold_m in He. rewrite fold_mq in Hs.
  assert (Hl1 : length (firstn (na - 1) mr) = length (firstn (na - 1) qr)).
  { rewrite !firstn_length. cbn in Hlen. lia. }
  unfold l in He. rewrite map_fst_combine in He by exact Hl1.
  rewrite !firstn_S_cons by lia. cbn [combine Wsum Msum]. fold l.
  split; [|exact He].
  cbn. rewrite Hs. rewrite He in *. cbn. field. exact Hne'.
Qed.

(* ---------- democratic heliocentric ---------- *)
Lemma Wsum_shift mr qr q0 :
  length mr = length qr ->
  Wsum (combine mr (map (fun qi => qi - q0) qr)) = Wsum (combine mr qr) - q0 * Msum mr.
Proof. revert qr; induction mr as [|m mr IH]; destruct qr as [|q qr]; cbn; intros H; try discriminate; try lra.
  rewrite IH by lia. lra. Qed.

Lemma firstn_map {A B} (f : A -> B) l n : firstn n (map f l) = map f (firstn n l).
Proof. revert n; induction l; destruct n; cbn; auto. f_equal; auto. Qed.

Definition dh_ok (ms qs : list R) (na : nat) : Prop :=
  length ms = length qs /\ (1 <= na <= length ms)%nat /\ Msum (firstn na ms) <> 0.

Lemma map_add_sub qr c : map (fun h => h + c) (map (fun qi => qi - c) qr) = qr.
Proof. rewrite map_map. rewrite <- (map_id qr) at 2. apply map_ext. intros; lra. Qed.

Theorem dh_pos_roundtrip ms qs na :
  dh_ok ms qs na ->
  dh_inv_pos RNum ms (dh_fwd_pos RNum ms qs na) (msum RNum (firstn na ms)) na = qs.
Proof.
  intros [Hlen [Hna HM]].
  destruct ms as [|m0 mr]; destruct qs as [|q0 qr]; cbn in Hlen; try discriminate;
    [cbn in Hna; lia|].
  unfold dh_fwd_pos, dh_inv_pos, com_comp, msum.
  rewrite sumf_acc. rewrite dsum_acc by (cbn; rewrite Rplus_0_l; exact HM).
  rewrite wsum_acc. rewrite firstn_map.
  assert (Hl1 : length (firstn (na - 1) mr) = length (firstn (na - 1) qr)).
  { rewrite !firstn_length. cbn in Hlen. lia. }
  rewrite Wsum_shift by exact Hl1.
  rewrite !firstn_S_cons in * by lia. cbn [combine Wsum Msum] in *.
  cbn [nzero nadd nsub ndiv RNum].
  assert (Hq0 : (0 + (q0 * m0 + Wsum (combine (firstn (na - 1) mr) (firstn (na - 1) qr)))) /
                (0 + (m0 + Msum (firstn (na - 1) mr))) -
                (0 + (Wsum (combine (firstn (na - 1) mr) (firstn (na - 1) qr)) -
                      q0 * Msum (firstn (na - 1) mr)) / (0 + (m0 + Msum (firstn (na - 1) mr)))) = q0).
  { field. lra. }
  rewrite Hq0. f_equal. apply map_add_sub.
Qed.

Theorem dh_vel_roundtrip ms qs na :
  dh_ok ms qs na -> hd 0 ms <> 0 ->
  dh_inv_vel RNum ms (dh_fwd_vel RNum ms qs na) na = qs.
Proof.
  intros [Hlen [Hna HM]] Hm0.
  destruct ms as [|m0 mr]; destruct qs as [|q0 qr]; cbn in Hlen; try discriminate;
    [cbn in Hna; lia|]. cbn [hd] in Hm0.
  unfold dh_fwd_vel, dh_inv_vel, com_comp, msum.
  rewrite sumf_acc. rewrite dsum_acc by exact Hm0.
  rewrite wsum_acc. rewrite firstn_map.
  assert (Hl1 : length (firstn (na - 1) mr) = length (firstn (na - 1) qr)).
  { rewrite !firstn_length. cbn in Hlen. lia. }
  rewrite Wsum_shift by exact Hl1.
  rewrite !firstn_S_cons in * by lia. cbn [combine Wsum Msum] in *.
  cbn [nzero nadd nsub ndiv RNum].
  set (W := Wsum (combine (firstn (na - 1) mr) (firstn (na - 1) qr))) in *.
  set (Sm := Msum (firstn (na - 1) mr)) in *.
  apply (f_equal2 cons); [field; split; lra | apply map_add_sub].
Qed.

(* ---------- WHDS ---------- *)
Definition whds_ok (ms qs : list R) (na : nat) : Prop :=
  dh_ok ms qs na /\ hd 0 ms <> 0 /\ Forall (fun mi => hd 0 ms + mi <> 0) (firstn (na - 1) (tl ms)).

Lemma whds_vsum_acc l m0 : forall acc, whds_vsum RNum l m0 acc = acc + fold_right (fun '(mi, hi) a => hi * mi / (m0 + mi) + a) 0 l.
Proof. induction l as [|[m h] r IH]; cbn; intros acc; [lra|]. rewrite IH. lra. Qed.

Lemma whds_act_sum mr qr m0 c :
  length mr = length qr -> m0 <> 0 -> Forall (fun mi => m0 + mi <> 0) mr ->
  fold_right (fun '(mi, hi) a => hi * mi / (m0 + mi) + a) 0
    (combine mr (map (fun '(mi, vi) => (m0 + mi) / m0 * (vi - c)) (combine mr qr)))
  = (Wsum (combine mr qr) - c * Msum mr) / m0.
Proof.
  revert qr; induction mr as [|m mr IH]; destruct qr as [|q qr]; cbn; intros H Hm0 HF; try discriminate.
  - field; auto.
  - inversion HF; subst. rewrite IH by (auto; lia). field. split; auto.
Qed.

Lemma whds_act_inv mr qr m0 c :
  length mr = length qr -> m0 <> 0 -> Forall (fun mi => m0 + mi <> 0) mr ->
  map (fun '(mi, hi) => hi / ((m0 + mi) / m0) + c)
      (combine mr (map (fun '(mi, vi) => (m0 + mi) / m0 * (vi - c)) (combine mr qr))) = qr.
Proof.
  revert qr; induction mr as [|m mr IH]; destruct qr as [|q qr]; cbn; intros H Hm0 HF; try discriminate; auto.
  inversion HF; subst. rewrite IH by (auto; lia). f_equal. field. split; auto.
Qed.

Theorem whds_vel_roundtrip ms qs na :
  whds_ok ms qs na ->
  whds_inv_vel RNum ms (whds_fwd_vel RNum ms qs na) na = qs.
Proof.
  intros [[Hlen [Hna HM]] [Hm0 HF]].
  destruct ms as [|m0 mr]; destruct qs as [|q0 qr]; cbn in Hlen; try discriminate;
    [cbn in Hna; lia|]. cbn [hd tl] in *.
  unfold whds_fwd_vel, whds_inv_vel.
  set (c := com_comp RNum (m0 :: mr) (q0 :: qr) na).
  assert (Hl1 : length (firstn (na - 1) mr) = length (firstn (na - 1) qr)).
  { rewrite !firstn_length. cbn in Hlen. lia. }
  set (act := map (fun '(mi, vi) => nmul RNum (ndiv RNum (nadd RNum m0 mi) m0) (nsub RNum vi c))
                  (combine (firstn (na - 1) mr) (firstn (na - 1) qr))).
  assert (Hlact : length act = (na - 1)%nat).
  { unfold act. rewrite map_length, combine_length, !firstn_length. cbn in Hlen, Hna. lia. }
  rewrite (firstn_app_len act) by lia. rewrite (skipn_app_len act) by lia.
  rewrite whds_vsum_acc. unfold act. cbn [nadd nsub nmul ndiv nzero RNum].
  rewrite whds_act_sum by auto. rewrite whds_act_inv by auto.
  assert (Hc : c = (q0 * m0 + Wsum (combine (firstn (na - 1) mr) (firstn (na - 1) qr))) /
                   (m0 + Msum (firstn (na - 1) mr))).
  { unfold c, com_comp, msum. rewrite sumf_acc, wsum_acc. rewrite !firstn_S_cons by lia.
    cbn [combine Wsum Msum nzero nadd ndiv RNum]. rewrite !Rplus_0_l. reflexivity. }
  rewrite !firstn_S_cons in HM by lia. cbn [Msum] in HM.
  f_equal.
  - rewrite Hc. field. split; auto.
  - rewrite <- (firstn_skipn (na - 1) qr) at 3. f_equal. apply map_add_sub.
Qed.

(* ---------- barycentric ---------- *)
Definition bary_ok (ms qs : list R) (na : nat) : Prop :=
  length ms = length qs /\ (1 <= na <= length ms)%nat /\ hd 0 ms <> 0 /\ Msum (firstn na ms) <> 0.

Theorem bary_roundtrip ms qs na :
  bary_ok ms qs na ->
  bary_inv RNum ms (fst (bary_fwd RNum ms qs na)) (snd (bary_fwd RNum ms qs na)) na = qs.
Proof.
  intros [Hlen [Hna [Hm0 HM]]].
  destruct ms as [|m0 mr]; destruct qs as [|q0 qr]; cbn in Hlen; try discriminate;
    [cbn in Hna; lia|]. cbn [hd] in Hm0.
  unfold bary_fwd, bary_inv. cbn [fst snd].
  rewrite !sumf_acc, !wsum_acc. rewrite map_add_sub.
  rewrite !firstn_S_cons in HM by lia. cbn [Msum] in HM.
  cbn [nzero nadd nsub nmul ndiv none RNum].
  set (W := Wsum (combine (firstn (na - 1) mr) (firstn (na - 1) qr))) in *.
  set (Sm := Msum (firstn (na - 1) mr)) in *.
  f_equal. field. split; lra.
Qed.

Theorem bary_slot0 ms qs na :
  bary_ok ms qs na ->
  hd 0 (fst (bary_fwd RNum ms qs na)) = COM ms qs na /\
  snd (bary_fwd RNum ms qs na) = Msum (firstn na ms).
Proof.
  intros [Hlen [Hna [Hm0 HM]]].
  destruct ms as [|m0 mr]; destruct qs as [|q0 qr]; cbn in Hlen; try discriminate;
    [cbn in Hna; lia|].
  unfold bary_fwd, COM. cbn [fst snd hd]. rewrite !sumf_acc, !wsum_acc.
  rewrite !firstn_S_cons in * by lia. cbn [combine Wsum Msum] in *.
  cbn [nzero nadd nsub nmul ndiv none RNum].
  split; [field; lra | lra].
Qed.

Theorem dh_slot0 ms qs na :
  dh_ok ms qs na ->
  hd 0 (dh_fwd_pos RNum ms qs na) = COM ms qs na /\
  hd 0 (dh_fwd_vel RNum ms qs na) = COM ms qs na /\
  hd 0 (whds_fwd_vel RNum ms qs na) = COM ms qs na /\
  msum RNum (firstn na ms) = Msum (firstn na ms).
Proof.
  intros [Hlen [Hna HM]].
  destruct ms as [|m0 mr]; destruct qs as [|q0 qr]; cbn in Hlen; try discriminate;
    [cbn in Hna; lia|].
  unfold dh_fwd_pos, dh_fwd_vel, whds_fwd_vel, com_comp, COM, msum. cbn [hd].
  rewrite sumf_acc, wsum_acc. cbn [nzero nadd ndiv RNum]. rewrite !Rplus_0_l. auto.
Qed.

(* N_active = 0 (no particle flagged active): the Jacobi routines are the N_active = 1 routines (na - 1 = 0 both times),
   so the round trip holds and slot 0 holds particle 0 itself (the centre of mass of the reference body alone) *)
Lemma jacobi_no_active_same {T} (N : Num T) ms qs js mtot :
  jac_fwd N ms qs 0 = jac_fwd N ms qs 1 /\ jac_inv N ms js mtot 0 = jac_inv N ms js mtot 1.
Proof. split; reflexivity. Qed.

Theorem jacobi_no_active ms qs : jac_ok ms qs 1 ->
  jac_inv RNum ms (fst (jac_fwd RNum ms qs 0)) (snd (jac_fwd RNum ms qs 0)) 0 = qs /\
  hd 0 (fst (jac_fwd RNum ms qs 0)) = hd 0 qs.
Proof.
  intros H. split; [exact (jacobi_roundtrip ms qs 1 H)|].
  change (jac_fwd RNum ms qs 0) with (jac_fwd RNum ms qs 1).
  destruct (jacobi_slot0 ms qs 1 H) as [Hc _]. rewrite Hc.
  destruct H as (Hl & Hn & He).
  destruct ms as [|m0 mr]; [cbn in Hn; lia|]. destruct qs as [|q0 qr]; [discriminate|].
  apply eta_ok_head in He. cbn [hd] in He |- *.
  unfold COM. cbn [firstn combine].
  unfold Wsum, Msum. cbn. field. exact He.
Qed.
