(* C12: the integrators' call sites of the coordinate transformations (table regenerated from the C text by
   tools/translate_xfsites.py into Gen/C12Sites.v) all use ONE active/test-particle split.
   The theorems of Props.v say that forward and inverse transformation are mutual inverses WHEN APPLIED WITH THE
   SAME (N, N_active); these statements say that this is how the integrators apply them. *)
From Coq Require Import String List Bool.
From RV Require Import Gen.C12Sites.
Import ListNotations.
Open Scope string_scope.

Definition site_file (s : string * string * string * string * string) := let '(f, _, _, _, _) := s in f.
Definition site_fn (s : string * string * string * string * string) := let '(_, g, _, _, _) := s in g.
Definition site_callee (s : string * string * string * string * string) := let '(_, _, c, _, _) := s in c.
Definition site_n (s : string * string * string * string * string) := let '(_, _, _, n, _) := s in n.
Definition site_na (s : string * string * string * string * string) := let '(_, _, _, _, a) := s in a.

(* the split WHFast uses: every real particle is active unless N_active is set and test particles are of type 0 *)
Definition whfast_split : string := "(r->N_active==-1||r->testparticle_type==1)?r->N-r->N_var:r->N_active".
Definition n_real : string := "r->N-r->N_var".
Definition n_all : string := "r->N".

(* SABA drives the WHFast operators (forward transformation: reb_integrator_whfast_from_inertial) and transforms
   back itself; it has no variational particles (N_var = 0), so its N is r->N and its split is the same one *)
Definition saba_split : string := "(r->N_active==-1||r->testparticle_type==1)?r->N:r->N_active".
Definition is_saba (s : string * string * string * string * string) : bool := String.eqb (site_file s) "integrator_saba.c".

Definition site_ok (s : string * string * string * string * string) : bool :=
  if is_saba s then String.eqb (site_na s) saba_split && String.eqb (site_n s) n_all
  else String.eqb (site_na s) whfast_split && (String.eqb (site_n s) n_real || String.eqb (site_n s) n_all).

(* N = r->N (instead of r->N - r->N_var) is passed only by the non-default kernels and corrector2, which
   reb_integrator_whfast_init refuses to combine with variational particles (N_var = 0 there) *)
Definition n_all_allowed (s : string * string * string * string * string) : bool :=
  negb (String.eqb (site_n s) n_all) || is_saba s ||
  String.eqb (site_fn s) "reb_integrator_whfast_part2" || String.eqb (site_fn s) "reb_whfast_operator_C".

Definition callee_known (c : string) : bool :=
  existsb (String.eqb c)
    ["inertial_to_jacobi_posvel"; "inertial_to_jacobi_posvelacc"; "inertial_to_jacobi_acc";
     "jacobi_to_inertial_posvel"; "jacobi_to_inertial_pos"; "jacobi_to_inertial_acc";
     "inertial_to_democraticheliocentric_posvel"; "democraticheliocentric_to_inertial_pos";
     "democraticheliocentric_to_inertial_posvel";
     "inertial_to_whds_posvel"; "whds_to_inertial_pos"; "whds_to_inertial_posvel";
     "inertial_to_barycentric_posvel"; "barycentric_to_inertial_pos"; "barycentric_to_inertial_posvel";
     "barycentric_to_inertial_acc"].

(* every forward transformation used has its inverse used as well (per coordinate system) *)
Definition uses (c : string) : bool := existsb (fun s => String.eqb (site_callee s) c) xf_sites.
Definition pairs_present : bool :=
  uses "inertial_to_jacobi_posvel" && uses "jacobi_to_inertial_posvel" &&
  uses "inertial_to_democraticheliocentric_posvel" && uses "democraticheliocentric_to_inertial_posvel" &&
  uses "inertial_to_whds_posvel" && uses "whds_to_inertial_posvel" &&
  uses "inertial_to_barycentric_posvel" && uses "barycentric_to_inertial_posvel".

Lemma whfast_sites_one_split :
  forallb site_ok xf_sites = true /\ forallb n_all_allowed xf_sites = true /\
  forallb (fun s => callee_known (site_callee s)) xf_sites = true /\ pairs_present = true /\
  30 <= length xf_sites.
Proof. vm_compute. repeat split; try reflexivity. repeat constructor. Qed.

(* lifted to the usual form: for every site in the table ... *)
Lemma whfast_sites_one_split_forall s :
  In s xf_sites ->
  (is_saba s = false -> site_na s = whfast_split /\ (site_n s = n_real \/ site_n s = n_all)) /\
  (is_saba s = true -> site_na s = saba_split /\ site_n s = n_all).
Proof.
  intros Hin. destruct whfast_sites_one_split as [H _].
  rewrite forallb_forall in H. specialize (H s Hin). unfold site_ok in H.
  split; intros Hs; rewrite Hs in H; apply andb_true_iff in H; destruct H as [H1 H2]; apply String.eqb_eq in H1.
  - apply orb_true_iff in H2. split; [exact H1|].
    destruct H2 as [H2|H2]; apply String.eqb_eq in H2; [left|right]; exact H2.
  - apply String.eqb_eq in H2. split; assumption.
Qed.

(* MERCURIUS / TRACE: the in-place heliocentric shift and its inverse bind N_active to the same expression *)
Definition shift_na (fn : string) : option string :=
  match find (fun d => let '(_, g, _) := d in String.eqb g fn) dh_shift_defs with
  | Some (_, _, a) => Some a
  | None => None
  end.
Lemma dh_shift_pairs_agree :
  (exists a, shift_na "reb_integrator_mercurius_inertial_to_dh" = Some a /\
             shift_na "reb_integrator_mercurius_dh_to_inertial" = Some a) /\
  (exists a, shift_na "reb_integrator_trace_inertial_to_dh" = Some a /\
             shift_na "reb_integrator_trace_dh_to_inertial" = Some a).
Proof. split; eexists; vm_compute; split; reflexivity. Qed.
