(* C12 model: src/transformations.c, transcribed loop for loop, polymorphic in Num.
   Every routine of the C file treats the coordinates x,y,z,vx,vy,vz,ax,ay,az by the same
   scalar recurrence driven by the masses, so each routine is modelled as a function on ONE
   scalar component (list of per-particle values [qs], list of masses [ms]) and lifted to
   whole particle arrays at the end (the lift applies the same function to each component;
   in binary64 the components do not interact, so the lift is bit-exact).
   Definitions only; proofs are in Proofs.v. *)
From Coq Require Import List ZArith.
From RV Require Import Common.Num.
Import ListNotations.

Section Comp.
Context {T : Type} (N : Num T).
Local Notation "a + b" := (nadd N a b).
Local Notation "a - b" := (nsub N a b).
Local Notation "a * b" := (nmul N a b).
Local Notation "a / b" := (ndiv N a b).
Local Notation "1" := (none N).
Local Notation "0" := (nzero N).

(* ---------------- Jacobi ---------------- *)
(* forward active loop, i = 1 .. N_active-1 ; state (eta, s) ; input (m_i, q_i) *)
Fixpoint jac_fwd_act (l : list (T * T)) (eta s : T) : list T * (T * T) :=
  match l with
  | [] => ([], (eta, s))
  | (mi, qi) :: r =>
      let ei := 1 / eta in
      let eta' := eta + mi in
      let pme := eta' * ei in
      let qj := qi - s * ei in
      let s' := s * pme + mi * qj in
      let '(out, st) := jac_fwd_act r eta' s' in
      (qj :: out, st)
  end.

(* forward test-particle loop, i = N_active .. N-1 *)
Definition jac_fwd_tp (qs : list T) (eta s : T) : list T :=
  let ei := 1 / eta in map (fun qi => qi - s * ei) qs.

(* whole forward routine on one component.  ms: masses p_mass[i].m ; qs: values ;
   na: N_active (1 <= na <= N is the caller's contract).  Result: the component of p_j
   for all i, and Mtotal (= p_j[0].m). *)
Definition jac_fwd (ms qs : list T) (na : nat) : list T * T :=
  match ms, qs with
  | m0 :: mr, q0 :: qr =>
      let eta := m0 in
      let s := eta * q0 in
      let '(act, (eta', s')) := jac_fwd_act (combine (firstn (na - 1) mr) (firstn (na - 1) qr)) eta s in
      let tp := jac_fwd_tp (skipn (na - 1) qr) eta' s' in
      let Mtotali := 1 / eta' in
      ((s' * Mtotali) :: act ++ tp, eta')
  | _, _ => ([], 0)
  end.

(* inverse active loop, i = N_active-1 downto 1: processes the LAST list element first *)
Fixpoint jac_inv_act (l : list (T * T)) (eta s : T) : list T * (T * T) :=
  match l with
  | [] => ([], (eta, s))
  | (mi, qj) :: r =>
      let '(out, (eta1, s1)) := jac_inv_act r eta s in
      let ei := 1 / eta1 in
      let s2 := (s1 - mi * qj) * ei in
      let qi := qj + s2 in
      let eta2 := eta1 - mi in
      let s3 := s2 * eta2 in
      (qi :: out, (eta2, s3))
  end.

Definition jac_inv_tp (qjs : list T) (eta s : T) : list T :=
  map (fun qj => qj + s * (1 / eta)) qjs.

(* inverse routine on one component. mtot = p_j[0].m *)
Definition jac_inv (ms qjs : list T) (mtot : T) (na : nat) : list T :=
  match ms, qjs with
  | _ :: mr, qj0 :: qjr =>
      let eta := mtot in
      let s := qj0 * eta in
      let tp := jac_inv_tp (skipn (na - 1) qjr) eta s in
      let '(act, (eta', s')) := jac_inv_act (combine (firstn (na - 1) mr) (firstn (na - 1) qjr)) eta s in
      let mi := 1 / eta' in
      (s' * mi) :: act ++ tp
  | _, _ => []
  end.

(* ---------------- democratic heliocentric ---------------- *)
(* x0 += particles[i].x * m over i < N_active, starting from 0. *)
Fixpoint wsum (l : list (T * T)) (acc : T) : T :=
  match l with
  | [] => acc
  | (mi, qi) :: r => wsum r (acc + qi * mi)
  end.
Definition msum (ms : list T) : T := sumf N ms 0.

(* slot 0 of p_h for one component: x0/m0 *)
Definition com_comp (ms qs : list T) (na : nat) : T :=
  wsum (combine (firstn na ms) (firstn na qs)) 0 / msum (firstn na ms).

(* positions: p_h[i].x = x_i - x_0 (i>=1) ; velocities: p_h[i].vx = vx_i - p_h[0].vx *)
Definition dh_fwd_pos (ms qs : list T) (na : nat) : list T :=
  match qs with
  | q0 :: qr => com_comp ms qs na :: map (fun qi => qi - q0) qr
  | [] => []
  end.
Definition dh_fwd_vel (ms qs : list T) (na : nat) : list T :=
  match qs with
  | q0 :: qr => let c := com_comp ms qs na in c :: map (fun qi => qi - c) qr
  | [] => []
  end.

(* inverse, positions: x0 = sum_{1<=i<N_active} p_h[i].x*m/mtot ; particles[0].x = p_h[0].x - x0 ;
   particles[i].x = p_h[i].x + particles[0].x *)
Fixpoint dsum (l : list (T * T)) (d acc : T) : T :=
  match l with
  | [] => acc
  | (mi, qi) :: r => dsum r d (acc + qi * mi / d)
  end.
Definition dh_inv_pos (ms hs : list T) (mtot : T) (na : nat) : list T :=
  match ms, hs with
  | _ :: mr, h0 :: hr =>
      let x0 := dsum (combine (firstn (na - 1) mr) (firstn (na - 1) hr)) mtot 0 in
      let p0 := h0 - x0 in
      p0 :: map (fun h => h + p0) hr
  | _, _ => []
  end.
(* inverse, velocities: v_i = p_h[i].vx + p_h[0].vx ; v_0 = p_h[0].vx - sum p_h[i].vx*m/m0 *)
Definition dh_inv_vel (ms hs : list T) (na : nat) : list T :=
  match ms, hs with
  | m0 :: mr, h0 :: hr =>
      let v0 := dsum (combine (firstn (na - 1) mr) (firstn (na - 1) hr)) m0 0 in
      (h0 - v0) :: map (fun h => h + h0) hr
  | _, _ => []
  end.

(* ---------------- WHDS ---------------- *)
(* positions as DH. velocities: active i>=1: mf*(v_i - c), mf = (m0+mi)/m0 ; test: v_i - c *)
Definition whds_fwd_vel (ms qs : list T) (na : nat) : list T :=
  match ms, qs with
  | m0 :: mr, q0 :: qr =>
      let c := com_comp ms qs na in
      let act := map (fun '(mi, vi) => ((m0 + mi) / m0) * (vi - c))
                     (combine (firstn (na - 1) mr) (firstn (na - 1) qr)) in
      let tp := map (fun vi => vi - c) (skipn (na - 1) qr) in
      c :: act ++ tp
  | _, _ => []
  end.
Fixpoint whds_vsum (l : list (T * T)) (m0 acc : T) : T :=
  match l with
  | [] => acc
  | (mi, hi) :: r => whds_vsum r m0 (acc + hi * mi / (m0 + mi))
  end.
Definition whds_inv_vel (ms hs : list T) (na : nat) : list T :=
  match ms, hs with
  | m0 :: mr, h0 :: hr =>
      let actl := combine (firstn (na - 1) mr) (firstn (na - 1) hr) in
      let act := map (fun '(mi, hi) => hi / ((m0 + mi) / m0) + h0) actl in
      let tp := map (fun hi => hi + h0) (skipn (na - 1) hr) in
      let v0 := whds_vsum actl m0 0 in
      (h0 - v0) :: act ++ tp
  | _, _ => []
  end.

(* ---------------- barycentric ---------------- *)
(* forward: p_b[0].x = (m0*x0 + sum_{1<=i<na} x_i*m_i) * (1/(m0 + sum m_i)) ; p_b[i].x = x_i - p_b[0].x *)
Definition bary_fwd (ms qs : list T) (na : nat) : list T * T :=
  match ms, qs with
  | m0 :: mr, q0 :: qr =>
      let s := wsum (combine (firstn (na - 1) mr) (firstn (na - 1) qr)) 0 in
      let sm := sumf N (firstn (na - 1) mr) 0 in
      let M := m0 + sm in
      let c := (m0 * q0 + s) * (1 / M) in
      (c :: map (fun qi => qi - c) qr, M)
  | _, _ => ([], 0)
  end.
(* inverse: x_i = b_i + b_0 (i>=1); x_0 = (M*b_0 - sum_{1<=i<na} x_i*m_i) * (1/(M - sum m_i)) *)
Definition bary_inv (ms bs : list T) (M : T) (na : nat) : list T :=
  match ms, bs with
  | _ :: mr, b0 :: br =>
      let xs := map (fun b => b + b0) br in
      let s := wsum (combine (firstn (na - 1) mr) (firstn (na - 1) xs)) 0 in
      let sm := sumf N (firstn (na - 1) mr) 0 in
      let m0 := M - sm in
      ((M * b0 - s) * (1 / m0)) :: xs
  | _, _ => []
  end.

(* ---------------- MERCURIUS / TRACE democratic-heliocentric shifts (in place) ----------------
   reb_integrator_mercurius_inertial_to_dh / _dh_to_inertial and the identical TRACE versions.
   com_pos.x += m * x  (note the operand order), one division at the end. *)
Fixpoint mwsum (l : list (T * T)) (acc : T) : T :=
  match l with
  | [] => acc
  | (mi, qi) :: r => mwsum r (acc + mi * qi)
  end.
Definition merc_com (ms qs : list T) (na : nat) : T :=
  mwsum (combine (firstn na ms) (firstn na qs)) 0 / sumf N (firstn na ms) 0.
(* positions: every particle (also particle 0, processed last) minus the ORIGINAL particles[0].x *)
Definition merc_fwd_pos (qs : list T) : list T :=
  match qs with q0 :: qr => (q0 - q0) :: map (fun q => q - q0) qr | [] => [] end.
(* velocities: every particle minus com_vel *)
Definition merc_fwd_vel (ms vs : list T) (na : nat) : list T :=
  let c := merc_com ms vs na in map (fun v => v - c) vs.
(* inverse, positions: temp = (sum_{1<=i<na} m_i h_i) / ((sum_{1<=i<na} m_i) + m0) ; x0 = com_pos - temp *)
Definition merc_inv_pos (ms hs : list T) (com : T) (na : nat) : list T :=
  match ms, hs with
  | m0 :: mr, _ :: hr =>
      let temp := mwsum (combine (firstn (na - 1) mr) (firstn (na - 1) hr)) 0 / (sumf N (firstn (na - 1) mr) 0 + m0) in
      let x0 := com - temp in
      x0 :: map (fun h => h + x0) hr
  | _, _ => []
  end.
(* inverse, velocities: temp = (sum_{1<=i<na} m_i w_i) / m0 ; v0 = com_vel - temp ; v_i = w_i + com_vel *)
Definition merc_inv_vel (ms ws : list T) (cv : T) (na : nat) : list T :=
  match ms, ws with
  | m0 :: mr, _ :: wr =>
      let temp := mwsum (combine (firstn (na - 1) mr) (firstn (na - 1) wr)) 0 / m0 in
      (cv - temp) :: map (fun w => w + cv) wr
  | _, _ => []
  end.
End Comp.
