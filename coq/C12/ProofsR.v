(* C12, the other composition: forward after inverse is the identity (needed by C09: from_inertial after
   to_inertial), for Jacobi coordinates; plus the MERCURIUS/TRACE democratic-heliocentric shifts. *)
From Coq Require Import List ZArith Reals Lra Lia.
From RV Require Import Common.Num Common.RealNum C12.Model C12.Proofs.
Import ListNotations.
Open Scope R_scope.

(* partial mass sums met by the inverse recurrence (from the total downwards) are non-zero *)
Fixpoint inv_ok (l : list (R * R)) (eta : R) : Prop :=
  match l with
  | [] => eta <> 0
  | (mi, _) :: r => inv_ok r eta /\ (eta - Msum (map fst r)) <> 0 /\ (eta - Msum (map fst r) - mi) <> 0
  end.

Lemma jac_inv_act_eta l : forall eta s out eta' s',
  jac_inv_act RNum l eta s = (out, (eta', s')) -> eta' = eta - Msum (map fst l) /\ length out = length l.
Proof.
  induction l as [|[mi qj] r IH]; cbn; intros eta s out eta' s' H.
  - inversion H; subst. split; [lra|reflexivity].
  - destruct (jac_inv_act RNum r eta s) as [o [e1 s1]] eqn:E. inversion H; subst.
    destruct (IH _ _ _ _ _ E) as [He Hl]. subst e1. cbn. split; [lra|lia].
Qed.

Lemma jac_act_roundtrip_r l : forall eta s out eta' s',
  inv_ok l eta ->
  jac_inv_act RNum l eta s = (out, (eta', s')) ->
  jac_fwd_act RNum (combine (map fst l) out) eta' s' = (map snd l, (eta, s)).
Proof.
  induction l as [|[mi qj] r IH]; cbn [jac_inv_act map combine fst snd]; intros eta s out eta' s' Hok H.
  - inversion H; subst. reflexivity.
  - destruct Hok as (Hok & Hn1 & Hn2).
    destruct (jac_inv_act RNum r eta s) as [o [e1 s1]] eqn:E. inversion H; subst. clear H.
    destruct (jac_inv_act_eta _ _ _ _ _ _ E) as [He _]. subst e1.
    cbn [combine jac_fwd_act nadd nsub nmul ndiv none RNum].
    set (e1 := eta - Msum (map fst r)) in *.
    replace (e1 - mi + mi) with e1 by lra.
    replace ((s1 - mi * qj) * (1 / e1) * (e1 - mi) * (e1 * (1 / (e1 - mi))) +
             mi * (qj + (s1 - mi * qj) * (1 / e1) - (s1 - mi * qj) * (1 / e1) * (e1 - mi) * (1 / (e1 - mi))))
      with s1 by (field; split; assumption).
    rewrite (IH _ _ _ _ _ Hok E).
    f_equal. f_equal. field. split; assumption.
Qed.

Definition jac_ok_r (ms js : list R) (mtot : R) (na : nat) : Prop :=
  length ms = length js /\ (1 <= na <= length ms)%nat /\
  mtot = Msum (firstn na ms) /\ mtot <> 0 /\ hd 0 ms <> 0 /\
  inv_ok (combine (firstn (na - 1) (tl ms)) (firstn (na - 1) (tl js))) mtot.

Theorem jacobi_roundtrip_r ms js mtot na :
  jac_ok_r ms js mtot na ->
  jac_fwd RNum ms (jac_inv RNum ms js mtot na) na = (js, mtot).
Proof.
  intros (Hlen & Hna & Hm & Hmtot & Hm0n & Hok).
  destruct ms as [|m0 mr]; destruct js as [|j0 jr]; cbn in Hlen; try discriminate; [cbn in Hna; lia|].
  cbn [tl] in Hok. unfold jac_inv.
  set (l := combine (firstn (na - 1) mr) (firstn (na - 1) jr)) in *.
  destruct (jac_inv_act RNum l mtot (nmul RNum j0 mtot)) as [act [eta' s']] eqn:E.
  assert (Hl1 : length (firstn (na - 1) mr) = length (firstn (na - 1) jr)).
  { rewrite !firstn_length. cbn in Hlen. lia. }
  destruct (jac_inv_act_eta _ _ _ _ _ _ E) as [He Hlact].
  assert (Hll : length l = (na - 1)%nat).
  { unfold l. rewrite combine_length, !firstn_length. cbn in Hlen, Hna. lia. }
  pose proof (jac_act_roundtrip_r _ _ _ _ _ _ Hok E) as RT.
  unfold l in RT at 1. rewrite map_fst_combine in RT by exact Hl1.
  unfold l in RT. rewrite map_snd_combine in RT by exact Hl1. fold l in RT.
  (* eta' = m0 *)
  rewrite firstn_S_cons in Hm by lia. cbn [Msum] in Hm.
  unfold l in He. rewrite map_fst_combine in He by exact Hl1.
  assert (Hm0 : eta' = m0) by lra.
  cbn [hd] in Hm0n.
  unfold jac_fwd.
  rewrite (firstn_app_len act) by lia. rewrite (skipn_app_len act) by lia.
  subst eta'. rewrite Hm0 in RT |- *.
  replace (nmul RNum m0 (nmul RNum s' (ndiv RNum (none RNum) m0))) with s' by (cbn; field; exact Hm0n).
  rewrite RT. cbn [fst snd].
  f_equal.
  f_equal.
  - cbn. field. exact Hmtot.
  - rewrite <- (firstn_skipn (na - 1) jr) at 3. f_equal.
    unfold jac_inv_tp, jac_fwd_tp. rewrite map_map.
    rewrite <- (map_id (skipn (na - 1) jr)) at 2. apply map_ext. intros a. cbn. field. exact Hmtot.
Qed.

(* ---------- MERCURIUS / TRACE shifts ---------- *)
Lemma mwsum_acc l : forall acc, mwsum RNum l acc = acc + Wsum l.
Proof. induction l as [|[m q] r IH]; cbn; intros acc; [lra|]. rewrite IH. lra. Qed.

Definition merc_ok (ms qs : list R) (na : nat) : Prop :=
  length ms = length qs /\ (1 <= na <= length ms)%nat /\ Msum (firstn na ms) <> 0 /\ hd 0 ms <> 0.

Theorem merc_pos_roundtrip ms qs na :
  merc_ok ms qs na ->
  merc_inv_pos RNum ms (merc_fwd_pos RNum qs) (merc_com RNum ms qs na) na = qs.
Proof.
  intros (Hlen & Hna & HM & Hm0).
  destruct ms as [|m0 mr]; destruct qs as [|q0 qr]; cbn in Hlen; try discriminate; [cbn in Hna; lia|].
  unfold merc_fwd_pos, merc_inv_pos, merc_com.
  rewrite !mwsum_acc, !sumf_acc. rewrite firstn_map.
  assert (Hl1 : length (firstn (na - 1) mr) = length (firstn (na - 1) qr)).
  { rewrite !firstn_length. cbn in Hlen. lia. }
  rewrite Wsum_shift by exact Hl1.
  rewrite !firstn_S_cons in * by lia. cbn [combine Wsum Msum] in *.
  cbn [nzero nadd nsub ndiv RNum].
  set (W := Wsum (combine (firstn (na - 1) mr) (firstn (na - 1) qr))) in *.
  set (Sm := Msum (firstn (na - 1) mr)) in *.
  assert (Hq0 : (0 + (q0 * m0 + W)) / (0 + (m0 + Sm)) - (0 + (W - q0 * Sm)) / (0 + Sm + m0) = q0).
  { field. lra. }
  rewrite Hq0. f_equal. apply map_add_sub.
Qed.

Theorem merc_vel_roundtrip ms vs na :
  merc_ok ms vs na ->
  merc_inv_vel RNum ms (merc_fwd_vel RNum ms vs na) (merc_com RNum ms vs na) na = vs.
Proof.
  intros (Hlen & Hna & HM & Hm0).
  destruct ms as [|m0 mr]; destruct vs as [|v0 vr]; cbn in Hlen; try discriminate; [cbn in Hna; lia|].
  cbn [hd] in Hm0.
  unfold merc_fwd_vel, merc_inv_vel. cbn [map].
  set (c := merc_com RNum (m0 :: mr) (v0 :: vr) na).
  rewrite !mwsum_acc. rewrite firstn_map.
  assert (Hl1 : length (firstn (na - 1) mr) = length (firstn (na - 1) vr)).
  { rewrite !firstn_length. cbn in Hlen. lia. }
  rewrite Wsum_shift by exact Hl1.
  assert (Hc : c = (v0 * m0 + Wsum (combine (firstn (na - 1) mr) (firstn (na - 1) vr))) / (m0 + Msum (firstn (na - 1) mr))).
  { unfold c, merc_com. rewrite mwsum_acc, sumf_acc. rewrite !firstn_S_cons by lia.
    cbn [combine Wsum Msum nzero nadd ndiv RNum]. rewrite !Rplus_0_l. reflexivity. }
  rewrite !firstn_S_cons in HM by lia. cbn [Msum] in HM.
  cbn [nzero nadd nsub ndiv RNum].
  apply (f_equal2 cons); [|apply map_add_sub].
  rewrite Hc. field. split; lra.
Qed.

(* the stored centre of mass is the centre of mass of the active particles *)
Theorem merc_com_is_com ms qs na :
  merc_ok ms qs na -> merc_com RNum ms qs na = COM ms qs na.
Proof.
  intros (Hlen & Hna & HM & _). unfold merc_com, COM. rewrite mwsum_acc, sumf_acc.
  cbn [nzero nadd ndiv RNum]. rewrite !Rplus_0_l. reflexivity.
Qed.
