(* C12 property theorems ONLY (each closed by an already proved lemma) + assumptions. *)
From Coq Require Import String List Reals Lra Lia.
From RV Require Import Common.Num Common.RealNum C12.Model C12.Proofs C12.ProofsR C12.ProofsL C12.Sites.
Import ListNotations.
Open Scope R_scope.

(* Jacobi: inverse after forward is the identity, for every N, every 1<=N_active<=N,
   every mass list whose partial sums are non-zero (zero-mass bodies allowed). *)
Theorem C12_jacobi_inverse : forall ms qs na, jac_ok ms qs na ->
  jac_inv RNum ms (fst (jac_fwd RNum ms qs na)) (snd (jac_fwd RNum ms qs na)) na = qs.
Proof. exact jacobi_roundtrip. Qed.
Print Assumptions C12_jacobi_inverse.

(* the split with NO active particle (N_active = 0: the library produces it when the only active particle is removed).
   Particle 0 is the reference body of the Jacobi coordinates whatever the flag says: the routines behave exactly as for
   N_active = 1 (for every arithmetic: the model's na - 1 is the C code's loop bound; /repo e83f542 made the
   back-transformations agree with the forward one here), hence the round trip and the centre-of-mass slot *)
Theorem C12_jacobi_no_active_particle : forall (T : Type) (N : Num T) ms qs js mtot,
  jac_fwd N ms qs 0 = jac_fwd N ms qs 1 /\ jac_inv N ms js mtot 0 = jac_inv N ms js mtot 1.
Proof. intros T N ms qs js mtot. exact (jacobi_no_active_same N ms qs js mtot). Qed.
Print Assumptions C12_jacobi_no_active_particle.
Theorem C12_jacobi_inverse_no_active_particle : forall ms qs, jac_ok ms qs 1 ->
  jac_inv RNum ms (fst (jac_fwd RNum ms qs 0)) (snd (jac_fwd RNum ms qs 0)) 0 = qs /\
  hd 0 (fst (jac_fwd RNum ms qs 0)) = hd 0 qs.
Proof. exact jacobi_no_active. Qed.
Print Assumptions C12_jacobi_inverse_no_active_particle.

Theorem C12_jacobi_slot0_is_com : forall ms qs na, jac_ok ms qs na ->
  hd 0 (fst (jac_fwd RNum ms qs na)) = COM ms qs na /\
  snd (jac_fwd RNum ms qs na) = Msum (firstn na ms).
Proof. exact jacobi_slot0. Qed.
Print Assumptions C12_jacobi_slot0_is_com.

Theorem C12_dh_pos_inverse : forall ms qs na, dh_ok ms qs na ->
  dh_inv_pos RNum ms (dh_fwd_pos RNum ms qs na) (msum RNum (firstn na ms)) na = qs.
Proof. exact dh_pos_roundtrip. Qed.
Print Assumptions C12_dh_pos_inverse.

Theorem C12_dh_vel_inverse : forall ms qs na, dh_ok ms qs na -> hd 0 ms <> 0 ->
  dh_inv_vel RNum ms (dh_fwd_vel RNum ms qs na) na = qs.
Proof. exact dh_vel_roundtrip. Qed.
Print Assumptions C12_dh_vel_inverse.

Theorem C12_whds_vel_inverse : forall ms qs na, whds_ok ms qs na ->
  whds_inv_vel RNum ms (whds_fwd_vel RNum ms qs na) na = qs.
Proof. exact whds_vel_roundtrip. Qed.
Print Assumptions C12_whds_vel_inverse.

Theorem C12_dh_whds_slot0_is_com : forall ms qs na, dh_ok ms qs na ->
  hd 0 (dh_fwd_pos RNum ms qs na) = COM ms qs na /\
  hd 0 (dh_fwd_vel RNum ms qs na) = COM ms qs na /\
  hd 0 (whds_fwd_vel RNum ms qs na) = COM ms qs na /\
  msum RNum (firstn na ms) = Msum (firstn na ms).
Proof. exact dh_slot0. Qed.
Print Assumptions C12_dh_whds_slot0_is_com.

Theorem C12_bary_inverse : forall ms qs na, bary_ok ms qs na ->
  bary_inv RNum ms (fst (bary_fwd RNum ms qs na)) (snd (bary_fwd RNum ms qs na)) na = qs.
Proof. exact bary_roundtrip. Qed.
Print Assumptions C12_bary_inverse.

Theorem C12_bary_slot0_is_com : forall ms qs na, bary_ok ms qs na ->
  hd 0 (fst (bary_fwd RNum ms qs na)) = COM ms qs na /\
  snd (bary_fwd RNum ms qs na) = Msum (firstn na ms).
Proof. exact bary_slot0. Qed.
Print Assumptions C12_bary_slot0_is_com.

(* the other composition for Jacobi coordinates: forward after inverse is the identity *)
Theorem C12_jacobi_forward_after_inverse : forall ms js mtot na, jac_ok_r ms js mtot na ->
  jac_fwd RNum ms (jac_inv RNum ms js mtot na) na = (js, mtot).
Proof. exact jacobi_roundtrip_r. Qed.
Print Assumptions C12_jacobi_forward_after_inverse.

(* MERCURIUS / TRACE in-place democratic-heliocentric shifts (identical code in both integrators) *)
Theorem C12_mercurius_trace_pos_inverse : forall ms qs na, merc_ok ms qs na ->
  merc_inv_pos RNum ms (merc_fwd_pos RNum qs) (merc_com RNum ms qs na) na = qs.
Proof. exact merc_pos_roundtrip. Qed.
Theorem C12_mercurius_trace_vel_inverse : forall ms vs na, merc_ok ms vs na ->
  merc_inv_vel RNum ms (merc_fwd_vel RNum ms vs na) (merc_com RNum ms vs na) na = vs.
Proof. exact merc_vel_roundtrip. Qed.
Theorem C12_mercurius_trace_com : forall ms qs na, merc_ok ms qs na -> merc_com RNum ms qs na = COM ms qs na.
Proof. exact merc_com_is_com. Qed.
Print Assumptions C12_mercurius_trace_vel_inverse.

(* Jacobi coordinates diagonalise the mass inner product: for two scalar components a, b of one particle set (all
   active), sum m a b = M A0 B0 + sum_{i>=1} mu_i A_i B_i with (A, B) the Jacobi components, A0, B0 the centre-of-mass
   slot and mu_i = m_i eta_{i-1}/eta_i.  Instances: kinetic energy (a = b = v) and each component of the total angular
   momentum (a = position, b = velocity component): no cross terms between different Jacobi bodies. *)
Theorem C12_jacobi_mass_inner_product : forall m0 a0 b0 ms as_ bs A B M sa sb,
  length as_ = length ms -> length bs = length ms -> m0 <> 0 -> etas_ok ms m0 ->
  jac_fwd_act RNum (combine ms as_) m0 (m0 * a0) = (A, (M, sa)) ->
  jac_fwd_act RNum (combine ms bs) m0 (m0 * b0) = (B, (M, sb)) ->
  m0 * a0 * b0 + sum_mab ms as_ bs = M * (sa / M) * (sb / M) + wsum_mu ms A B m0.
Proof. exact jacobi_mass_inner_product. Qed.
Print Assumptions C12_jacobi_mass_inner_product.

(* ... where jac_fwd_act with that start state is exactly what the whole routine jac_fwd (the term compared with the
   C code) computes when all particles are active: slot 0 = s/M, the rest = the loop's outputs *)
Theorem C12_jac_fwd_all_active : forall m0 mr q0 qr A M s,
  length qr = length mr ->
  jac_fwd_act RNum (combine mr qr) m0 (m0 * q0) = (A, (M, s)) ->
  jac_fwd RNum (m0 :: mr) (q0 :: qr) (S (length mr)) = ((s * (1 / M)) :: A, M).
Proof. exact jac_fwd_all_active. Qed.

Theorem C12_jacobi_angular_momentum_z :
  forall m0 x0 y0 vx0 vy0 ms xs ys vxs vys X Y VX VY M sx sy svx svy,
  length xs = length ms -> length ys = length ms -> length vxs = length ms -> length vys = length ms ->
  m0 <> 0 -> etas_ok ms m0 ->
  jac_fwd_act RNum (combine ms xs) m0 (m0 * x0) = (X, (M, sx)) ->
  jac_fwd_act RNum (combine ms ys) m0 (m0 * y0) = (Y, (M, sy)) ->
  jac_fwd_act RNum (combine ms vxs) m0 (m0 * vx0) = (VX, (M, svx)) ->
  jac_fwd_act RNum (combine ms vys) m0 (m0 * vy0) = (VY, (M, svy)) ->
  (m0 * x0 * vy0 + sum_mab ms xs vys) - (m0 * y0 * vx0 + sum_mab ms ys vxs)
  = (M * (sx / M) * (svy / M) + wsum_mu ms X VY m0) - (M * (sy / M) * (svx / M) + wsum_mu ms Y VX m0).
Proof. exact jacobi_angular_momentum_z. Qed.
Print Assumptions C12_jacobi_angular_momentum_z.

(* how the integrators apply them (table of call sites regenerated from the C text on every run): every one of the
   WHFast and SABA call sites passes the SAME active/test-particle split and N = the real particles (or all particles, in the
   kernels that exclude variational particles), every forward transformation used has its inverse used, and the
   MERCURIUS / TRACE shift and its inverse bind N_active to the same expression *)
Theorem C12_integrator_call_sites_use_one_split :
  (forall s, In s Gen.C12Sites.xf_sites ->
     (is_saba s = false -> site_na s = whfast_split /\ (site_n s = n_real \/ site_n s = n_all)) /\
     (is_saba s = true -> site_na s = saba_split /\ site_n s = n_all)) /\
  forallb n_all_allowed Gen.C12Sites.xf_sites = true /\ pairs_present = true /\ (30 <= length Gen.C12Sites.xf_sites)%nat /\
  (exists a, shift_na "reb_integrator_mercurius_inertial_to_dh"%string = Some a /\
             shift_na "reb_integrator_mercurius_dh_to_inertial"%string = Some a) /\
  (exists a, shift_na "reb_integrator_trace_inertial_to_dh"%string = Some a /\
             shift_na "reb_integrator_trace_dh_to_inertial"%string = Some a).
Proof.
  exact (conj whfast_sites_one_split_forall
        (conj (proj1 (proj2 whfast_sites_one_split))
        (conj (proj1 (proj2 (proj2 (proj2 whfast_sites_one_split))))
        (conj (proj2 (proj2 (proj2 (proj2 whfast_sites_one_split)))) dh_shift_pairs_agree)))).
Qed.
Print Assumptions C12_integrator_call_sites_use_one_split.

(* Non-vacuity: a concrete 4-body system with a zero-mass body and N_active = 3 meets every
   hypothesis used above. *)
Example C12_hypotheses_inhabited :
  let ms := [1; 1/1000; 0; 3] in let qs := [1/2; -2; 7; 5] in
  jac_ok ms qs 3 /\ dh_ok ms qs 3 /\ whds_ok ms qs 3 /\ bary_ok ms qs 3 /\ merc_ok ms qs 3 /\
  jac_ok_r ms qs (1 + 1/1000 + 0) 3 /\ etas_ok [1/1000; 0; 3] 1.
Proof.
  cbv zeta. unfold whds_ok, jac_ok, dh_ok, bary_ok, merc_ok, jac_ok_r, act_list, etas_ok. cbn.
  repeat split; try lia; try lra; repeat constructor; lra.
Qed.
