(* C12 property theorems ONLY (each closed by an already proved lemma) + assumptions. *)
From Coq Require Import String List Reals Lra Lia.
From RV Require Import Common.Num Common.RealNum C12.Model C12.Proofs C12.ProofsR C12.Sites.
Import ListNotations.
Open Scope R_scope.

(* Jacobi: inverse after forward is the identity, for every N, every 1<=N_active<=N,
   every mass list whose partial sums are non-zero (zero-mass bodies allowed). *)
Theorem C12_jacobi_inverse : forall ms qs na, jac_ok ms qs na ->
  jac_inv RNum ms (fst (jac_fwd RNum ms qs na)) (snd (jac_fwd RNum ms qs na)) na = qs.
Proof. exact jacobi_roundtrip. Qed.
Print Assumptions C12_jacobi_inverse.

Theorem C12_jacobi_slot0_is_com : forall ms qs na, jac_ok ms qs na ->
  hd 0 (fst (jac_fwd RNum ms qs na)) = COM ms qs na /\
  snd (jac_fwd RNum ms qs na) = Msum (firstn na ms).
Proof. exact jacobi_slot0. Qed.
Print Assumptions C12_jacobi_slot0_is_com.

Theorem C12_dh_pos_inverse : forall ms qs na, dh_ok ms qs na ->
  dh_inv_pos RNum ms (dh_fwd_pos RNum ms qs na) (msum RNum (firstn na ms)) na = qs.
Proof. exact dh_pos_roundtrip. Qed.
Print Assumptions C12_dh_pos_inverse.

Theorem C12_dh_vel_inverse : forall ms qs na, dh_ok ms qs na -> hd 0 ms <> 0 ->
  dh_inv_vel RNum ms (dh_fwd_vel RNum ms qs na) na = qs.
Proof. exact dh_vel_roundtrip. Qed.
Print Assumptions C12_dh_vel_inverse.

Theorem C12_whds_vel_inverse : forall ms qs na, whds_ok ms qs na ->
  whds_inv_vel RNum ms (whds_fwd_vel RNum ms qs na) na = qs.
Proof. exact whds_vel_roundtrip. Qed.
Print Assumptions C12_whds_vel_inverse.

Theorem C12_dh_whds_slot0_is_com : forall ms qs na, dh_ok ms qs na ->
  hd 0 (dh_fwd_pos RNum ms qs na) = COM ms qs na /\
  hd 0 (dh_fwd_vel RNum ms qs na) = COM ms qs na /\
  hd 0 (whds_fwd_vel RNum ms qs na) = COM ms qs na /\
  msum RNum (firstn na ms) = Msum (firstn na ms).
Proof. exact dh_slot0. Qed.
Print Assumptions C12_dh_whds_slot0_is_com.

Theorem C12_bary_inverse : forall ms qs na, bary_ok ms qs na ->
  bary_inv RNum ms (fst (bary_fwd RNum ms qs na)) (snd (bary_fwd RNum ms qs na)) na = qs.
Proof. exact bary_roundtrip. Qed.
Print Assumptions C12_bary_inverse.

Theorem C12_bary_slot0_is_com : forall ms qs na, bary_ok ms qs na ->
  hd 0 (fst (bary_fwd RNum ms qs na)) = COM ms qs na /\
  snd (bary_fwd RNum ms qs na) = Msum (firstn na ms).
Proof. exact bary_slot0. Qed.
Print Assumptions C12_bary_slot0_is_com.

(* the other composition for Jacobi coordinates: forward after inverse is the identity *)
Theorem C12_jacobi_forward_after_inverse : forall ms js mtot na, jac_ok_r ms js mtot na ->
  jac_fwd RNum ms (jac_inv RNum ms js mtot na) na = (js, mtot).
Proof. exact jacobi_roundtrip_r. Qed.
Print Assumptions C12_jacobi_forward_after_inverse.

(* MERCURIUS / TRACE in-place democratic-heliocentric shifts (identical code in both integrators) *)
Theorem C12_mercurius_trace_pos_inverse : forall ms qs na, merc_ok ms qs na ->
  merc_inv_pos RNum ms (merc_fwd_pos RNum qs) (merc_com RNum ms qs na) na = qs.
Proof. exact merc_pos_roundtrip. Qed.
Theorem C12_mercurius_trace_vel_inverse : forall ms vs na, merc_ok ms vs na ->
  merc_inv_vel RNum ms (merc_fwd_vel RNum ms vs na) (merc_com RNum ms vs na) na = vs.
Proof. exact merc_vel_roundtrip. Qed.
Theorem C12_mercurius_trace_com : forall ms qs na, merc_ok ms qs na -> merc_com RNum ms qs na = COM ms qs na.
Proof. exact merc_com_is_com. Qed.
Print Assumptions C12_mercurius_trace_vel_inverse.

(* how the integrators apply them (table of call sites regenerated from the C text on every run): every one of the
   WHFast and SABA call sites passes the SAME active/test-particle split and N = the real particles (or all particles, in the
   kernels that exclude variational particles), every forward transformation used has its inverse used, and the
   MERCURIUS / TRACE shift and its inverse bind N_active to the same expression *)
Theorem C12_integrator_call_sites_use_one_split :
  (forall s, In s Gen.C12Sites.xf_sites ->
     (is_saba s = false -> site_na s = whfast_split /\ (site_n s = n_real \/ site_n s = n_all)) /\
     (is_saba s = true -> site_na s = saba_split /\ site_n s = n_all)) /\
  forallb n_all_allowed Gen.C12Sites.xf_sites = true /\ pairs_present = true /\ (30 <= length Gen.C12Sites.xf_sites)%nat /\
  (exists a, shift_na "reb_integrator_mercurius_inertial_to_dh"%string = Some a /\
             shift_na "reb_integrator_mercurius_dh_to_inertial"%string = Some a) /\
  (exists a, shift_na "reb_integrator_trace_inertial_to_dh"%string = Some a /\
             shift_na "reb_integrator_trace_dh_to_inertial"%string = Some a).
Proof.
  exact (conj whfast_sites_one_split_forall
        (conj (proj1 (proj2 whfast_sites_one_split))
        (conj (proj1 (proj2 (proj2 (proj2 whfast_sites_one_split))))
        (conj (proj2 (proj2 (proj2 (proj2 whfast_sites_one_split)))) dh_shift_pairs_agree)))).
Qed.
Print Assumptions C12_integrator_call_sites_use_one_split.

(* Non-vacuity: a concrete 4-body system with a zero-mass body and N_active = 3 meets every
   hypothesis used above. *)
Example C12_hypotheses_inhabited :
  let ms := [1; 1/1000; 0; 3] in let qs := [1/2; -2; 7; 5] in
  jac_ok ms qs 3 /\ dh_ok ms qs 3 /\ whds_ok ms qs 3 /\ bary_ok ms qs 3 /\ merc_ok ms qs 3 /\
  jac_ok_r ms qs (1 + 1/1000 + 0) 3.
Proof.
  cbv zeta. unfold whds_ok, jac_ok, dh_ok, bary_ok, merc_ok, jac_ok_r, act_list. cbn.
  repeat split; try lia; try lra; repeat constructor; lra.
Qed.
