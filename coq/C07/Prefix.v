(* C07: crash_prefix_safe.  For every archive built by appends (chain layout), every delta d and EVERY cut offset
   k of the write trace of the append, opening the crash image exposes exactly the snapshots of the archive
   (k < |trace|) or of the archive with d appended (k >= |trace|), with the same offsets and times. *)
From Coq Require Import List NArith Bool Arith Lia.
From RV Require Import C06.Model C06.Index C07.Crash.
Import ListNotations.
Open Scope N_scope.

Section P.
Variable c : cfg.
Hypothesis WC : wf_cfg c.

Definition walk_ok (first : bool) (body : list N) (pos : N) (acc : list (N * N)) (t : N) : Prop :=
  forall tail, walk_blob c (S (length (body ++ tail))) (body ++ tail) pos (if first then 0 else tfirst acc)
               = WOk (pos + lenN body) tail t.

(* one accepted blob whose trailer announces a following blob *)
Lemma index_step : forall fuel first body pos acc idx prev nx t rest,
  walk_ok first body pos acc t -> (first = false -> prev = lenN body) ->
  idx < 2^32 -> prev < 2^32 -> nx < 2^32 -> nx <> 0 ->
  index_loop c (S fuel) first (body ++ trailer idx prev nx ++ rest) pos acc
  = index_loop c fuel false rest (pos + lenN body + 12) (acc ++ [(pos, t)]).
Proof.
  intros fuel first body pos acc idx prev nx t rest HW HP HI HPs HN HZ.
  cbn [index_loop]. rewrite HW. rewrite read_blob_trailer by assumption.
  cbn [b_len b_prev b_ok b_next negb].
  assert (C : (negb first && negb (prev + 12 =? pos + lenN body + 12 - pos)) = false).
  { destruct first; [reflexivity|]. rewrite (HP eq_refl). cbn [negb andb].
    replace (pos + lenN body + 12 - pos) with (lenN body + 12) by lia. rewrite N.eqb_refl. reflexivity. }
  rewrite C. rewrite (proj2 (N.eqb_neq nx 0) HZ). cbn [orb]. rewrite skipn12_trailer. reflexivity.
Qed.

Lemma read_blob_Z : forall i p Z, i < 2^32 -> p < 2^32 -> length Z = 4%nat ->
  read_blob (le 4 i ++ le 4 p ++ Z) = mkB true 12 i p (de Z).
Proof.
  intros i p Z Hi Hp HZ.
  assert (L : length (le 4 i ++ le 4 p ++ Z) = 12%nat) by (rewrite !app_length, !le_length, HZ; reflexivity).
  unfold read_blob. cbv zeta.
  rewrite (firstn_all2 (n:=12)) by lia.
  unfold lenN. rewrite L.
  rewrite (firstn_exact _ 4 (le 4 i) _ (le_length 4 i)).
  rewrite (skipn_exact _ 4 (le 4 i) _ (le_length 4 i)).
  rewrite (firstn_exact _ 4 (le 4 p) _ (le_length 4 p)).
  replace (skipn 8 (le 4 i ++ le 4 p ++ Z)) with Z.
  2:{ rewrite app_assoc. symmetry. apply skipn_exact. rewrite app_length, !le_length. reflexivity. }
  rewrite (firstn_all2 (n:=4) Z) by lia.
  rewrite !de_le by assumption. reflexivity.
Qed.

Lemma index_nil : forall fuel acc pos, fst (fst (index_loop c fuel false [] pos acc)) = acc.
Proof. intros. destruct fuel; reflexivity. Qed.

(* last trailer with an arbitrary offset_next field and nothing behind it (cuts inside the in-place patch) *)
Lemma index_last_Z : forall fuel first body pos acc idx prev t Z,
  walk_ok first body pos acc t -> (first = false -> prev = lenN body) ->
  idx < 2^32 -> prev < 2^32 -> length Z = 4%nat ->
  fst (fst (index_loop c (S fuel) first (body ++ (le 4 idx ++ le 4 prev ++ Z)) pos acc)) = acc ++ [(pos, t)].
Proof.
  intros fuel first body pos acc idx prev t Z HW HP HI HPs HZ.
  cbn [index_loop]. rewrite HW.
  rewrite read_blob_Z by assumption. cbn [b_len b_prev b_ok b_next negb].
  assert (C : (negb first && negb (prev + 12 =? pos + lenN body + 12 - pos)) = false).
  { destruct first; [reflexivity|]. rewrite (HP eq_refl). cbn [negb andb].
    replace (pos + lenN body + 12 - pos) with (lenN body + 12) by lia. rewrite N.eqb_refl. reflexivity. }
  rewrite C. destruct (de Z =? 0); cbn [orb]; [reflexivity|].
  replace (skipn 12 (le 4 idx ++ le 4 prev ++ Z)) with (@nil N).
  2:{ symmetry. apply skipn_all2. rewrite !app_length, !le_length, HZ. cbn. lia. }
  apply index_nil.
Qed.

(* a partially overwritten trailer: the first k bytes of the new trailer over the old one *)
Lemma mixed_trailer : forall k i p nx, (k <= 12)%nat -> exists Z, 
  firstn k (trailer i p nx) ++ skipn k (trailer i p 0) = le 4 i ++ le 4 p ++ Z /\ length Z = 4%nat.
Proof.
  intros k i p nx Hk. unfold trailer. cbn [le app].
  do 13 (destruct k as [|k]; [cbn [firstn skipn app]; eexists; split; reflexivity|]). lia.
Qed.

(* decoding offset_prev from a partially written new trailer never satisfies the offset check *)
Lemma partial_prev : forall j i' nx, (j < 12)%nat -> nx < 2^32 -> 16 <= nx ->
  de (firstn 4 (skipn 4 (firstn 12 (firstn j (trailer i' nx 0))))) + 12 <> nx + N.of_nat j.
Proof.
  intros j i' nx Hj Hn H16.
  pose proof (N.div_mod' nx 256) as D0. pose proof (N.mod_lt nx 256 ltac:(lia)) as M0.
  pose proof (N.div_mod' (nx / 256) 256) as D1. pose proof (N.mod_lt (nx / 256) 256 ltac:(lia)) as M1.
  pose proof (N.div_mod' (nx / 256 / 256) 256) as D2. pose proof (N.mod_lt (nx / 256 / 256) 256 ltac:(lia)) as M2.
  pose proof (N.div_mod' (nx / 256 / 256 / 256) 256) as D3. pose proof (N.mod_lt (nx / 256 / 256 / 256) 256 ltac:(lia)) as M3.
  unfold trailer. cbn [le app].
  do 12 (destruct j as [|j]; [cbn [firstn skipn de]; lia|]). lia.
Qed.

(* the new blob is complete up to its END field but its trailer is cut: rejected by the offset check *)
Lemma index_partial_trailer : forall d j i' fuel pos acc, small_d c d -> (j < 12)%nat ->
  fst (fst (index_loop c fuel false (ser d ++ endhdr c ++ firstn j (trailer i' (blen d) 0)) pos acc)) = acc.
Proof.
  intros d j i' fuel pos acc [WD SB] Hj. destruct fuel; [reflexivity|]. cbn [index_loop].
  rewrite walk_ser; [|exact WC|exact WD|pose proof (ser_length_ge d); rewrite !app_length; lia].
  unfold read_blob. cbv zeta. cbn [b_len b_prev b_ok b_next negb andb].
  assert (LL : lenN (firstn 12 (firstn j (trailer i' (blen d) 0))) = N.of_nat j).
  { unfold lenN. rewrite !firstn_length, trailer_length. f_equal. lia. }
  rewrite LL.
  assert (NE : (de (firstn 4 (skipn 4 (firstn 12 (firstn j (trailer i' (blen d) 0))))) + 12
                =? pos + lenN (ser d) + 16 + N.of_nat j - pos) = false).
  { apply N.eqb_neq. replace (pos + lenN (ser d) + 16 + N.of_nat j - pos) with (blen d + N.of_nat j) by (unfold blen; lia).
    apply partial_prev; [exact Hj|exact SB|unfold blen; lia]. }
  rewrite NE. reflexivity.
Qed.

(* ---------- chains with an arbitrary ending in place of the last trailer *)
Fixpoint chainE (idx prev : N) (ds : list (list field)) (E : N -> N -> list N) : list N :=
  match ds with
  | [] => E idx prev
  | d :: r => trailer idx prev (blen d) ++ ser d ++ endhdr c ++ chainE (idx + 1) (blen d) r E
  end.

Lemma chain_chainE : forall ds idx prev, chain c idx prev ds = chainE idx prev ds (fun i p => trailer i p 0).
Proof. induction ds as [|d r IH]; intros; cbn [chain chainE]; [reflexivity|rewrite IH; reflexivity]. Qed.

Definition ending_keeps (E : N -> N -> list N) : Prop :=
  forall fuel first body pos acc idx prev t,
  walk_ok first body pos acc t -> (first = false -> prev = lenN body) -> idx < 2^32 -> prev < 2^32 ->
  fst (fst (index_loop c (S fuel) first (body ++ E idx prev) pos acc)) = acc ++ [(pos, t)].

Lemma walk_ok_body : forall d pos acc, wf_d c d ->
  walk_ok false (ser d ++ endhdr c) pos acc (tof c d (tfirst acc)).
Proof.
  intros d pos acc WD tail. rewrite <- app_assoc. rewrite walk_ser; [|exact WC|exact WD|].
  - f_equal. rewrite lenN_app. unfold endhdr, lenN. rewrite hdr_length. lia.
  - pose proof (ser_length_ge d). rewrite !app_length. lia.
Qed.

Lemma lenN_body : forall d, lenN (ser d ++ endhdr c) = blen d.
Proof. intros. rewrite lenN_app. unfold blen, endhdr, lenN. rewrite hdr_length. lia. Qed.

Lemma index_chainE : forall E, ending_keeps E -> forall ds fuel first body pos acc idx prev t,
  walk_ok first body pos acc t -> (first = false -> prev = lenN body) ->
  idx + N.of_nat (length ds) < 2^32 -> prev < 2^32 -> Forall (small_d c) ds -> (length ds < fuel)%nat ->
  fst (fst (index_loop c fuel first (body ++ chainE idx prev ds E) pos acc))
  = acc ++ (pos, t) :: offs c (tfirst (acc ++ [(pos, t)])) (pos + lenN body + 12) ds.
Proof.
  intros E HE. induction ds as [|d r IH]; intros fuel first body pos acc idx prev t HW HP HI HPs SM HF.
  - destruct fuel; [cbn in HF; lia|]. cbn [chainE offs]. apply HE; try assumption. cbn [length] in HI. lia.
  - destruct fuel; [cbn in HF; lia|]. cbn [chainE offs]. inversion SM as [|? ? [WD SB] SM']; subst.
    rewrite (index_step fuel first body pos acc idx prev (blen d) t); try assumption;
      [|cbn [length] in HI; lia|unfold blen; lia].
    rewrite app_assoc.
    rewrite (IH fuel false (ser d ++ endhdr c) (pos + lenN body + 12) (acc ++ [(pos, t)]) (idx + 1) (blen d)
                (tof c d (tfirst (acc ++ [(pos, t)])))).
    + rewrite lenN_body, tfirst_snoc. rewrite <- app_assoc. reflexivity.
    + apply walk_ok_body. exact WD.
    + intros _. symmetry. apply lenN_body.
    + cbn [length] in HI. lia.
    + exact SB.
    + exact SM'.
    + cbn [length] in HF. lia.
Qed.

(* ---------- the write trace of an append and its cuts *)
Definition app_bytes (i p : N) (d : list field) : list N :=
  trailer i p (blen d) ++ ser d ++ endhdr c ++ trailer (i + 1) (blen d) 0.
Definition cutE (d : list field) (k : nat) : N -> N -> list N :=
  fun i p => firstn k (app_bytes i p d) ++ skipn k (trailer i p 0).

Lemma app_bytes_length : forall i p d, length (app_bytes i p d) = (24 + length (ser d ++ endhdr c))%nat.
Proof. intros. unfold app_bytes. rewrite !app_length, !trailer_length. lia. Qed.

Lemma cutE_keeps : forall d k, small_d c d -> (k < 24 + length (ser d ++ endhdr c))%nat -> ending_keeps (cutE d k).
Proof.
  intros d k SD Hk fuel first body pos acc idx prev t HW HP HI HPs. unfold cutE, app_bytes.
  destruct SD as [WD SB].
  destruct (Nat.le_gt_cases k 12) as [K12|K12].
  - (* inside the in-place patch of the previous trailer *)
    rewrite firstn_app, trailer_length. replace (k - 12)%nat with 0%nat by lia. cbn [firstn]. rewrite app_nil_r.
    destruct (mixed_trailer k idx prev (blen d) K12) as (Z & EQ & LZ). rewrite EQ.
    apply index_last_Z; assumption.
  - rewrite (skipn_all2 (n:=k)) by (rewrite trailer_length; lia). rewrite app_nil_r.
    rewrite firstn_app, trailer_length. rewrite (firstn_all2 (n:=k) (trailer idx prev (blen d))) by (rewrite trailer_length; lia).
    rewrite (index_step fuel first body pos acc idx prev (blen d) t); try assumption; [|unfold blen; lia].
    set (L := length (ser d ++ endhdr c)) in *.
    destruct (Nat.lt_ge_cases (k - 12) L) as [JL|JL].
    + (* inside the delta or its END field *)
      rewrite (app_assoc (ser d)). rewrite firstn_app. fold L. replace (k - 12 - L)%nat with 0%nat by lia.
      cbn [firstn]. rewrite app_nil_r. apply index_loop_partial_blob; assumption.
    + (* inside the new trailer *)
      rewrite (app_assoc (ser d)). rewrite firstn_app. fold L.
      rewrite (firstn_all2 (n:=(k - 12)%nat) (ser d ++ endhdr c)) by (fold L; lia).
      rewrite <- app_assoc. apply index_partial_trailer; [split; assumption|lia].
Qed.

Lemma chainE_full : forall d ds idx prev, chainE idx prev ds (fun i p => app_bytes i p d) = chain c idx prev (ds ++ [d]).
Proof.
  intros d. induction ds as [|e r IH]; intros; cbn [chainE chain app].
  - unfold app_bytes. reflexivity.
  - rewrite IH. reflexivity.
Qed.

(* everything before the last trailer, and the index / offset_prev stored in the last trailer *)
Fixpoint cpre (idx prev : N) (ds : list (list field)) : list N :=
  match ds with
  | [] => []
  | d :: r => trailer idx prev (blen d) ++ ser d ++ endhdr c ++ cpre (idx + 1) (blen d) r
  end.
Fixpoint lastp (prev : N) (ds : list (list field)) : N :=
  match ds with [] => prev | d :: r => lastp (blen d) r end.

Lemma chainE_split : forall E ds idx prev,
  chainE idx prev ds E = cpre idx prev ds ++ E (idx + N.of_nat (length ds)) (lastp prev ds).
Proof.
  intros E. induction ds as [|d r IH]; intros; cbn [chainE cpre lastp length app].
  - f_equal. lia.
  - rewrite IH. rewrite <- !app_assoc. do 4 f_equal.
    replace (idx + 1 + N.of_nat (length r)) with (idx + N.of_nat (S (length r))) by lia. reflexivity.
Qed.

Definition last_idx (ds : list (list field)) : N := N.of_nat (length ds).
Definition append_trace (h : list N) (fs0 : list field) (ds : list (list field)) (d : list field) : N * list N :=
  (lenN (archive c h fs0 ds) - 12, app_bytes (last_idx ds) (lastp 0 ds) d).

Lemma skipN_of_nat : forall A k (l : list A), skipN (N.of_nat k) l = skipn k l.
Proof.
  intros. unfold skipN, lenN. destruct (N.ltb_spec (N.of_nat (length l)) (N.of_nat k)).
  - symmetry. apply skipn_all2. lia.
  - rewrite Nat2N.id. reflexivity.
Qed.

Lemma skipN_app_plus : forall A (a b : list A) m, skipN (lenN a + m) (a ++ b) = skipN m b.
Proof.
  intros. unfold skipN. rewrite lenN_app.
  destruct (N.ltb_spec (lenN a + lenN b) (lenN a + m)); destruct (N.ltb_spec (lenN b) m); try lia; [reflexivity|].
  replace (N.to_nat (lenN a + m)) with (length a + N.to_nat m)%nat by (unfold lenN; lia).
  rewrite skipn_app. replace (length a + N.to_nat m - length a)%nat with (N.to_nat m) by lia.
  rewrite (skipn_all2 (n:=(length a + N.to_nat m)%nat) a) by lia. reflexivity.
Qed.

(* the crash image is the chain with the cut ending *)
Lemma crash_image_chain : forall h fs0 ds d k,
  crash_image (archive c h fs0 ds) (append_trace h fs0 ds d) k
  = (h ++ ser fs0 ++ endhdr c) ++ chainE 0 0 ds (cutE d k).
Proof.
  intros. unfold crash_image, append_trace, patch. cbn [fst snd].
  set (T := trailer (last_idx ds) (lastp 0 ds) 0).
  set (X := (h ++ ser fs0 ++ endhdr c) ++ cpre 0 0 ds).
  assert (AX : archive c h fs0 ds = X ++ T).
  { unfold archive, X, T. rewrite chain_chainE, chainE_split. unfold last_idx. rewrite <- !app_assoc. reflexivity. }
  rewrite AX.
  assert (LX : lenN (X ++ T) - 12 = lenN X).
  { rewrite lenN_app. unfold T, lenN at 2. rewrite trailer_length. lia. }
  rewrite LX, takeN_app, skipN_app_plus.
  rewrite chainE_split. unfold X, cutE. rewrite <- !app_assoc. do 4 f_equal.
  replace (0 + N.of_nat (length ds)) with (last_idx ds) by (unfold last_idx; lia). fold T.
  f_equal.
  set (B := app_bytes (last_idx ds) (lastp 0 ds) d).
  destruct (Nat.le_gt_cases k (length B)) as [KB|KB].
  - replace (lenN (firstn k B)) with (N.of_nat k) by (unfold lenN; rewrite firstn_length; f_equal; lia).
    apply skipN_of_nat.
  - rewrite (firstn_all2 (n:=k) B) by lia.
    assert (12 <= length B)%nat by (unfold B; rewrite app_bytes_length; lia).
    rewrite skipN_beyond by (unfold lenN, T; rewrite trailer_length; lia).
    symmetry. apply skipn_all2. unfold T. rewrite trailer_length. lia.
Qed.

(* ---------- the version pass of open_archive *)
Fixpoint ver_of (fs : list field) (v : N) : N :=
  match fs with
  | [] => v
  | f :: r => ver_of r (if ftype f =? ty_saversion c then de (fdata f) else v)
  end.

Lemma ver_ser : forall fs fuel tail v, wf_d c fs -> (length fs < fuel)%nat ->
  version_walk c fuel (ser fs ++ endhdr c ++ tail) v = (ver_of fs v, false).
Proof.
  induction fs as [|f r IH]; intros fuel tail v WF HF.
  - destruct fuel; [cbn in HF; lia|]. cbn [ser flat_map app ver_of version_walk]. unfold endhdr.
    rewrite read_hdr_hdr; [|apply WC|reflexivity]. rewrite N.eqb_refl. reflexivity.
  - destruct fuel; [cbn in HF; lia|]. inversion WF as [|? ? Hf WF']; subst.
    destruct Hf as (NE & NH & TS & SS & TN).
    rewrite ser_cons. rewrite <- !app_assoc. cbn [version_walk ver_of].
    rewrite read_hdr_hdr; [|exact TS|exact SS].
    rewrite (neqb _ _ NE), (neqb _ _ NH).
    change (fsize f) with (lenN (fdata f)). rewrite skipN_app, takeN_app.
    assert (LT : (lenN (fdata f ++ ser r ++ endhdr c ++ tail) <? lenN (fdata f)) = false).
    { apply N.ltb_ge. rewrite lenN_app. lia. }
    rewrite LT. destruct (ftype f =? ty_saversion c); apply IH; try exact WF'; cbn in HF; lia.
Qed.

Lemma ver_first : forall h fs0 tail, wf_header c h -> wf_d c fs0 ->
  version_walk c (S (length (h ++ ser fs0 ++ endhdr c ++ tail))) (h ++ ser fs0 ++ endhdr c ++ tail) 0 = (ver_of fs0 0, false).
Proof.
  intros h fs0 tail (sz & r & RH & LR) WF.
  cbn [version_walk]. rewrite (read_hdr_app _ _ _ _ _ RH).
  rewrite (neqb _ _ (fun E => end_header c WC (eq_sym E))). rewrite N.eqb_refl.
  replace 48 with (lenN r) by (unfold lenN; rewrite LR; reflexivity). rewrite skipN_app.
  apply ver_ser; [exact WF|]. pose proof (ser_length_ge fs0). rewrite !app_length. unfold endhdr. rewrite hdr_length. lia.
Qed.

(* the snapshots an intact archive exposes *)
Definition blobs_of (h : list N) (fs0 : list field) (ds : list (list field)) : list (N * N) :=
  (0, tof c fs0 0) :: offs c (tof c fs0 0) (lenN (h ++ ser fs0 ++ endhdr c) + 12) ds.

Lemma open_from_index : forall file L, L <> [] ->
  (fst (version_walk c (S (length file)) file 0) <? 2) = false ->
  fst (fst (index_loop c (S (length file)) true file 0 [])) = L ->
  exists fl, open_archive c file = OOk (mkI L fl).
Proof.
  intros file L HL HV HI. unfold open_archive.
  destruct (version_walk c (S (length file)) file 0) as [v eof]. cbn [fst] in HV. rewrite HV.
  destruct (index_loop c (S (length file)) true file 0 []) as [[acc rerr] warn]. cbn [fst] in HI. subst acc.
  destruct rerr.
  - destruct L; [contradiction|]. eexists. reflexivity.
  - eexists. reflexivity.
Qed.

Theorem crash_prefix_safe : forall h fs0 ds d k,
  wf_header c h -> wf_d c fs0 -> 2 <= ver_of fs0 0 -> Forall (small_d c) ds -> small_d c d ->
  N.of_nat (length ds) + 1 < 2^32 ->
  let A := archive c h fs0 ds in
  let tr := append_trace h fs0 ds d in
  ((k < length (snd tr))%nat -> exists fl, open_archive c (crash_image A tr k) = OOk (mkI (blobs_of h fs0 ds) fl)) /\
  ((length (snd tr) <= k)%nat -> open_archive c (crash_image A tr k) = OOk (mkI (blobs_of h fs0 (ds ++ [d])) false)).
Proof.
  intros h fs0 ds d k WH WF HV SM SD HL A tr. unfold A, tr. split; intros Hk.
  - rewrite crash_image_chain. apply open_from_index.
    + discriminate.
    + rewrite <- !app_assoc. rewrite ver_first by assumption. cbn [fst]. apply N.ltb_ge. exact HV.
    + unfold append_trace in Hk. cbn [snd] in Hk. rewrite app_bytes_length in Hk.
      rewrite (index_chainE (cutE d k) (cutE_keeps d k SD Hk) ds _ true (h ++ ser fs0 ++ endhdr c) 0 [] 0 0 (tof c fs0 0)).
      * reflexivity.
      * intros tail. apply walk_first; assumption.
      * discriminate.
      * lia.
      * reflexivity.
      * exact SM.
      * assert (G : forall E i p, (length ds <= length (chainE i p ds E))%nat).
        { intros E. clear - SM. induction ds as [|e r IHr]; intros i p; cbn [chainE length]; [lia|].
          inversion SM; subst. rewrite !app_length, trailer_length. specialize (IHr H2 (i + 1) (blen e)). lia. }
        rewrite app_length. specialize (G (cutE d k) 0 0). lia.
  - rewrite crash_image_chain.
    assert (CE : chainE 0 0 ds (cutE d k) = chain c 0 0 (ds ++ [d])).
    { rewrite <- chainE_full. rewrite !chainE_split. f_equal. unfold cutE.
      unfold append_trace in Hk. cbn [snd] in Hk.
      pose proof (app_bytes_length (0 + N.of_nat (length ds)) (lastp 0 ds) d) as LB.
      pose proof (app_bytes_length (last_idx ds) (lastp 0 ds) d) as LB'. rewrite LB' in Hk.
      rewrite firstn_all2 by lia. rewrite skipn_all2 by (rewrite trailer_length; lia). apply app_nil_r. }
    rewrite CE.
    assert (AR : (h ++ ser fs0 ++ endhdr c) ++ chain c 0 0 (ds ++ [d]) = archive c h fs0 (ds ++ [d])).
    { unfold archive. rewrite <- !app_assoc. reflexivity. }
    rewrite AR. unfold open_archive.
    unfold archive at 1 2. rewrite ver_first by assumption.
    replace (ver_of fs0 0 <? 2) with false by (symmetry; apply N.ltb_ge; exact HV).
    fold (archive c h fs0 (ds ++ [d])).
    rewrite (index_of_chain c WC h fs0 (ds ++ [d])); try assumption.
    + reflexivity.
    + apply Forall_app. split; [exact SM|constructor; [exact SD|constructor]].
    + rewrite app_length. cbn [length]. lia.
Qed.
End P.
