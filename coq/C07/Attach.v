(* C07: restart of an automatically snapshotted run.  reb_simulation_save_to_file_{interval,step,walltime} ("attach")
   transcribed branch for branch, the persisted cadence state, and: restart from any snapshot + re-attach with the
   same cadence + run to the end yields exactly the remaining snapshots of the uninterrupted run. *)
From Coq Require Import List NArith Bool Arith Lia Reals Lra.
From RV Require Import C06.Model C06.Cadence C06.CadenceR.
Import ListNotations.

(* the cadence members of struct reb_simulation (doubles as their bit patterns: the C code only tests them for
   equality and copies them) *)
Record sa_state := mkSA { a_interval : N; a_walltime : N; a_step : N; a_next : N; a_next_step : N;
                          a_t : N; a_wall : N; a_steps_done : N }.

(* reb_simulation_save_to_file_interval: next is reset to t only if the interval CHANGED *)
Definition attach_interval (interval : N) (s : sa_state) : sa_state :=
  if negb (a_interval s =? interval)%N
  then mkSA interval (a_walltime s) (a_step s) (a_t s) (a_next_step s) (a_t s) (a_wall s) (a_steps_done s)
  else s.
(* reb_simulation_save_to_file_step: next_step is reset to steps_done only if the step count CHANGED *)
Definition attach_step (step : N) (s : sa_state) : sa_state :=
  if negb (a_step s =? step)%N
  then mkSA (a_interval s) (a_walltime s) step (a_next s) (a_steps_done s) (a_t s) (a_wall s) (a_steps_done s)
  else s.
(* reb_simulation_save_to_file_walltime: always reset ("this will create two snapshots if restarted") *)
Definition attach_walltime (w : N) (s : sa_state) : sa_state :=
  mkSA (a_interval s) w (a_step s) (a_wall s) (a_next_step s) (a_t s) (a_wall s) (a_steps_done s).

Lemma attach_same : forall s, attach_interval (a_interval s) s = s /\ attach_step (a_step s) s = s.
Proof. intros s. unfold attach_interval, attach_step. rewrite !N.eqb_refl. split; reflexivity. Qed.

(* ---------------- step cadence *)
Open Scope N_scope.

(* hb_run for any pending threshold next >= s *)
Lemma hb_run_spec' : forall auto n next s x, 0 < auto -> s <= next ->
  (In x (hb_run auto next s n) <-> (s <= x < s + N.of_nat n /\ next <= x /\ (x - next) mod auto = 0)).
Proof.
  intros auto n. induction n as [|n IH]; intros next s x HA HL.
  - cbn [hb_run In]. split; [intros []|]. lia.
  - cbn [hb_run]. unfold hb_step. destruct (N.leb_spec next s) as [Hle|Hgt].
    + assert (next = s) by lia. subst next. cbn [app In].
      rewrite (IH (s + auto) (s + 1) x HA); [|lia]. split.
      * intros [<-|(H1 & H2 & H3)].
        -- replace (s - s) with 0 by lia. rewrite N.mod_0_l by lia. lia.
        -- split; [lia|]. split; [lia|].
           replace (x - s) with ((x - (s + auto)) + 1 * auto) by lia. rewrite N.mod_add by lia. exact H3.
      * intros (H1 & H2 & H3). destruct (N.eq_dec x s) as [->|NE]; [left; reflexivity|right].
        assert (auto <= x - s).
        { destruct (N.lt_ge_cases (x - s) auto) as [Hlt|]; [|assumption].
          rewrite N.mod_small in H3 by exact Hlt. lia. }
        split; [lia|]. split; [lia|].
        replace (x - s) with ((x - (s + auto)) + 1 * auto) in H3 by lia. rewrite N.mod_add in H3 by lia. exact H3.
    + cbn [app]. rewrite (IH next (s + 1) x HA); [|lia]. split; intros (H1 & H2 & H3); lia.
Qed.

(* the state persisted in the snapshot written by the heartbeat at steps_done = x: next_step was advanced BEFORE
   the snapshot was written (heartbeat: next_step += auto_step; save) *)
Definition snap_state_step (auto x t wall : N) : sa_state := mkSA 0 0 auto 0 (x + auto) t wall x.

Lemma attach_step_fresh : forall auto s0 t w, auto <> 0 ->
  let st := attach_step auto (mkSA 0 0 0 0 0 t w s0) in a_step st = auto /\ a_next_step st = s0.
Proof. intros auto s0 t w H. destruct auto; [congruence|]. cbn. split; reflexivity. Qed.

(* crash anywhere during the write of a later snapshot, restart from the intact snapshot taken at step
   x = s0 + j*auto, re-attach with the same step count, run the remaining heartbeats: exactly the snapshots of the
   uninterrupted run that come after x, no duplicate of x, none skipped *)
Theorem restart_cadence_step : forall auto s0 n j t w y, 0 < auto ->
  let x := s0 + j * auto in x < s0 + N.of_nat n ->
  let st := attach_step auto (snap_state_step auto x t w) in
  (In y (hb_run (a_step st) (a_next_step st) (a_steps_done st) (N.to_nat (s0 + N.of_nat n - x)))
   <-> (In y (hb_run auto s0 s0 n) /\ x < y)).
Proof.
  intros auto s0 n j t w y HA x HX st.
  assert (ST : st = snap_state_step auto x t w).
  { unfold st, attach_step, snap_state_step. cbn [a_step]. rewrite N.eqb_refl. reflexivity. }
  rewrite ST. cbn [a_step a_next_step a_steps_done snap_state_step].
  rewrite (hb_run_spec' auto _ (x + auto) x y HA) by lia.
  rewrite (cadence_step auto s0 n y HA).
  rewrite N2Nat.id.
  assert (XE : x = s0 + j * auto) by reflexivity.
  split.
  - intros (H1 & H2 & H3). split; [split; [lia|]|lia].
    replace (y - s0) with ((y - (x + auto)) + (j + 1) * auto) by lia. rewrite N.mod_add by lia. exact H3.
  - intros ((H1 & H2) & H3).
    apply N.mod_divide in H2; [|lia]. destruct H2 as [q Hq].
    assert (j < q) by nia. assert (x + auto <= y) by nia.
    split; [lia|]. split; [assumption|].
    replace (y - (x + auto)) with ((q - j - 1) * auto) by nia. apply N.mod_mul. lia.
Qed.

(* what goes wrong if attach resets next_step (guard always true): the restart snapshot is written again *)
Lemma reset_duplicates : forall auto x n, 0 < auto -> In x (hb_run auto x x (S n)).
Proof. intros. cbn [hb_run]. unfold hb_step. rewrite N.leb_refl. left. reflexivity. Qed.

(* ---------------- interval cadence (reals) *)
Open Scope R_scope.

Lemma runI_app : forall I ts1 ts2 next,
  runI I next (ts1 ++ ts2) = runI I next ts1 ++ runI I (next + INR (length (runI I next ts1)) * I) ts2.
Proof.
  intros I. induction ts1 as [|t r IH]; intros ts2 next.
  - cbn [app runI length INR]. f_equal. lra.
  - cbn [app runI]. destruct (Rle_dec next t).
    + cbn [app]. f_equal. rewrite IH. f_equal. f_equal. cbn [length]. rewrite S_INR. lra.
    + apply IH.
Qed.

(* the snapshot written at heartbeat time s for threshold T persists next = T + I (advanced before saving);
   re-attaching with the same interval keeps it: the continued run produces exactly the rest of the sequence *)
Theorem restart_cadence_interval : forall I next ts1 s ts2 T,
  runI I next (ts1 ++ [s]) = runI I next ts1 ++ [(s, T)] ->           (* a snapshot is written at heartbeat time s *)
  runI I next (ts1 ++ s :: ts2) = runI I next ts1 ++ (s, T) :: runI I (T + I) ts2.
Proof.
  intros I next ts1 s ts2 T H.
  rewrite runI_app in H. apply app_inv_head in H.
  rewrite runI_app. f_equal. cbn [runI] in *.
  destruct (Rle_dec (next + INR (length (runI I next ts1)) * I) s); [|discriminate].
  inversion H; subst. reflexivity.
Qed.
