(* C07 property theorems ONLY (each closed by an already proved lemma) + assumptions. *)
From Coq Require Import List NArith Bool Arith Lia.
From Coq Require Import Reals.
From RV Require Import Common.Num C06.Model C06.Index C06.Cadence C06.CadenceR C06.CadenceNum C06.Writer C07.Crash C07.Prefix C07.Restart C07.RestartEq C07.Attach.
Import ListNotations.
Open Scope N_scope.

(* Every cut inside a delta or inside its END field (any byte offset, any delta): the field walk of the index
   builder ends in a read error; nothing of the partially written snapshot is accepted. *)
Theorem C07_partial_delta_rejected : forall c d j fuel pos t0, wf_d c d ->
  (j < length (ser d ++ endhdr c))%nat ->
  walk_blob c fuel (firstn j (ser d ++ endhdr c)) pos t0 = WErr.
Proof. exact walk_prefix. Qed.
Print Assumptions C07_partial_delta_rejected.

(* ... and the snapshots accepted so far are exactly what the index keeps *)
Theorem C07_partial_delta_keeps_index : forall c d j fuel acc pos, wf_d c d ->
  (j < length (ser d ++ endhdr c))%nat ->
  fst (fst (index_loop c fuel false (firstn j (ser d ++ endhdr c)) pos acc)) = acc.
Proof. exact index_loop_partial_blob. Qed.
Print Assumptions C07_partial_delta_keeps_index.

(* The first write cut anywhere before the END field of snapshot 0 is complete: no snapshot is exposed
   (open_archive then reports an error) *)
Theorem C07_first_snapshot_cut : forall c h fs0 j, wf_header c h -> wf_d c fs0 ->
  (j < length (h ++ ser fs0 ++ endhdr c))%nat ->
  fst (fst (index_loop c (S j) true (firstn j (h ++ ser fs0 ++ endhdr c)) 0 [])) = [].
Proof. exact first_cut_no_blob. Qed.
Print Assumptions C07_first_snapshot_cut.

(* crash_prefix_safe, full strength: for every archive A built by appends (chain layout of C06_index_of_appends),
   every delta d and EVERY cut offset k of the write trace of the append (in-place patch of the previous trailer,
   delta, END, new trailer), opening the crash image exposes exactly the snapshots of A (k < |trace|) or of A with
   d appended (k >= |trace|), with the same offsets and times. *)
Theorem C07_crash_prefix_safe : forall c, wf_cfg c -> forall h fs0 ds d k,
  wf_header c h -> wf_d c fs0 -> 2 <= ver_of c fs0 0 -> Forall (small_d c) ds -> small_d c d ->
  N.of_nat (length ds) + 1 < 2^32 ->
  let A := archive c h fs0 ds in
  let tr := append_trace c h fs0 ds d in
  ((k < length (snd tr))%nat -> exists fl, open_archive c (crash_image A tr k) = OOk (mkI (blobs_of c h fs0 ds) fl)) /\
  ((length (snd tr) <= k)%nat -> open_archive c (crash_image A tr k) = OOk (mkI (blobs_of c h fs0 (ds ++ [d])) false)).
Proof. exact crash_prefix_safe. Qed.
Print Assumptions C07_crash_prefix_safe.

(* stale bytes behind the last trailer (left by an interrupted longer write) do not change what is exposed *)
Theorem C07_open_with_stale_tail : forall c, wf_cfg c -> forall h fs0 ds g,
  wf_header c h -> wf_d c fs0 -> 2 <= ver_of c fs0 0 -> Forall (small_d c) ds -> N.of_nat (length ds) < 2^32 ->
  exists fl, open_archive c (archive c h fs0 ds ++ g) = OOk (mkI (blobs_of c h fs0 ds) fl).
Proof. exact open_with_stale_tail. Qed.
Print Assumptions C07_open_with_stale_tail.

(* restart_equiv (write part): on the crash image of ANY cut, writing the append of a new delta d' at the end of
   the last intact snapshot gives exactly (A with d' appended) followed by a stale tail: same bytes, same index. *)
Theorem C07_restart_write : forall c, wf_cfg c -> forall h fs0 ds d d' k,
  wf_header c h -> wf_d c fs0 -> 2 <= ver_of c fs0 0 -> Forall (small_d c) ds -> small_d c d' ->
  N.of_nat (length ds) + 1 < 2^32 ->
  let A := archive c h fs0 ds in
  let img := crash_image A (append_trace c h fs0 ds d) k in
  let F := patch img (lenN A - 12) (snd (append_trace c h fs0 ds d')) in
  (exists stale, F = archive c h fs0 (ds ++ [d']) ++ stale) /\
  exists fl, open_archive c F = OOk (mkI (blobs_of c h fs0 (ds ++ [d'])) fl).
Proof. exact restart_write. Qed.
Print Assumptions C07_restart_write.

(* the tail walk of reb_simulation_save_to_file (repair_walk), on the crash image of EVERY cut, returns the end of
   the last complete blob = |A| (no hypothesis on the payload: the walk itself cannot be spoofed by a single crash) *)
Theorem C07_repair_walk_finds_last_intact : forall c, wf_cfg c -> forall h fs0 ds d k,
  Forall (small_d c) ds -> small_d c d -> N.of_nat (length ds) + 1 < 2^32 -> (k < 24 + length (ser d ++ endhdr c))%nat ->
  let A := archive c h fs0 ds in
  let img := crash_image A (append_trace c h fs0 ds d) k in
  repair_walk c (S (length img)) img (lenN (h ++ ser fs0 ++ endhdr c)) (lenN (h ++ ser fs0 ++ endhdr c) + 12) = lenN A.
Proof. exact repair_crash. Qed.
Print Assumptions C07_repair_walk_finds_last_intact.

(* restart_equiv, full: for the crash image of ANY cut, if the corruption test of save_to_file fires on it (no_spoof)
   or the image is the intact archive (cuts <= 8 bytes: C07_crash_image_le8), the append save_to_file performs
   (model save_append: walk over blob 0, corruption test, repair walk, in-place patch, write) yields byte for byte
   (A with the new delta appended) ++ stale tail, and opening it exposes exactly the snapshots of that archive *)
Theorem C07_restart_equiv : forall c, wf_cfg c -> forall peq h fs0 ds d k h' s',
  wf_header c h -> wf_d c fs0 -> 2 <= ver_of c fs0 0 -> Forall (small_d c) ds -> small_d c d ->
  length h' = 64%nat -> wf_d c s' -> small_d c (binary_diff peq fs0 s') ->
  N.of_nat (length ds) + 1 < 2^32 -> (k < 24 + length (ser d ++ endhdr c))%nat ->
  let A := archive c h fs0 ds in
  let img := crash_image A (append_trace c h fs0 ds d) k in
  let d' := binary_diff peq fs0 s' in
  detects c img = true \/ img = A ->
  let F := save_append peq c img (stream_of c h' s') in
  (exists stale, F = archive c h fs0 (ds ++ [d']) ++ stale) /\
  exists fl, open_archive c F = OOk (mkI (blobs_of c h fs0 (ds ++ [d'])) fl).
Proof. exact restart_equiv. Qed.
Print Assumptions C07_restart_equiv.

Theorem C07_crash_image_le8 : forall c h fs0 ds d k, (k <= 8)%nat ->
  crash_image (archive c h fs0 ds) (append_trace c h fs0 ds d) k = archive c h fs0 ds.
Proof. exact crash_image_le8. Qed.

(* interval / walltime cadence, BOTH directions of time (sign = +1 for dt > 0, -1 for dt < 0), any arithmetic (the reals of
   the theorems, the binary64 of the library): the snapshots of an uninterrupted run over the heartbeats a ++ b are those over
   a followed by those of a run over b STARTED FROM THE THRESHOLD REACHED AFTER a.  That threshold is what the last snapshot
   stores (C06_snapshot_stores_live_schedule) and what re-attaching with the same interval keeps
   (C07_attach_same_cadence_keeps_state): so crash + restart from that snapshot + re-attach + run on = the uninterrupted run.
   An attach that resets the threshold (next := t) breaks exactly this equation. *)
Theorem C07_restart_cadence_any_direction : forall (T : Type) (Nm : Num T) sign I a b next,
  run_thr Nm sign I next (a ++ b) =
  (fst (run_thr Nm sign I next a) ++ fst (run_thr Nm sign I (snd (run_thr Nm sign I next a)) b),
   snd (run_thr Nm sign I (snd (run_thr Nm sign I next a)) b)).
Proof. intros. apply run_thr_app. Qed.
Print Assumptions C07_restart_cadence_any_direction.

(* ---- corners excluded by hypotheses, and what the code does there (checked by tools/c07.py on every run):
   * crash during the FIRST write (no archive A yet): C07_first_snapshot_cut gives 'no snapshot exposed' for cuts before
     the END field: write_trace (as the code) then returns None on every later append - refused with a warning, the file is
     left alone (accepted: there is no intact snapshot to restart from).  For cuts inside the last 12 bytes snapshot 0 is
     exposed and write_trace completes the all-zero first trailer and appends as usual (3b30990; model == library bytes).
   * small_d / index bounds (< 2^32) and the unsigned reading of the int32 trailer members: archives with offset_next,
     offset_prev, index or a field size replaced by 0x7fffffff, 0x80000000, 0xffffffff, 2^40, 2^63, 2^64-16, 2^64-1 are
     opened by the library without crash or hang and exactly as open_archive predicts (correspondence 'integer limits').
   * zero-length file, file shorter than a field header, header only: cuts 0, 1, 16, 63, 64, 65 of the first write are
     in the sweep (error reported, model agrees). *)

(* ---- degenerate snapshots are inside the quantification of all theorems above: a delta may be EMPTY (snapshot
   byte-identical to snapshot 0: blob = END field only, offset_next = 16, 28 bytes with its trailer), equal to its
   predecessor, the archive may consist of one snapshot (ds = []), the cut may be the very last byte (k = |trace|-1) *)
Theorem C07_empty_delta_is_a_blob : forall c, small_d c [] /\ blen [] = 16 /\ forall d, 16 <= blen d.
Proof. intros c. split; [apply small_d_nil|]. split; [apply blen_nil|apply blen_ge16]. Qed.

(* instance: the repair walk passes empty deltas - archive [empty; d1; empty; empty], crash in the append of an empty
   delta (the smallest possible write: 40 bytes) at every cut *)
Theorem C07_repair_walk_passes_empty_deltas : forall c, wf_cfg c -> forall h fs0 d1 k, small_d c d1 -> (k < 40)%nat ->
  let ds := [[]; d1; []; []] in
  let A := archive c h fs0 ds in
  let img := crash_image A (append_trace c h fs0 ds []) k in
  repair_walk c (S (length img)) img (lenN (h ++ ser fs0 ++ endhdr c)) (lenN (h ++ ser fs0 ++ endhdr c) + 12) = lenN A.
Proof.
  intros c WC h fs0 d1 k SD Hk ds A img. apply repair_crash; try assumption.
  - constructor; [apply small_d_nil|constructor; [exact SD|constructor; [apply small_d_nil|constructor; [apply small_d_nil|constructor]]]].
  - apply small_d_nil.
  - vm_compute. reflexivity.
Qed.
Print Assumptions C07_repair_walk_passes_empty_deltas.

(* the same on a concrete file, by computation: one-snapshot archive + empty delta, cut at the very last byte *)
Example C07_one_snapshot_archive_last_byte :
  let A := archive sp_c sp_h sp_fs0 [] in
  let tr := append_trace sp_c sp_h sp_fs0 [] [] in
  length (snd tr) = 40%nat /\
  open_archive sp_c (crash_image A tr 39) = OOk (mkI (blobs_of sp_c sp_h sp_fs0 []) true) /\
  open_archive sp_c (crash_image A tr 40) = OOk (mkI (blobs_of sp_c sp_h sp_fs0 [[]]) false) /\
  repair_walk sp_c 200 (crash_image A tr 39) (lenN (sp_h ++ ser sp_fs0 ++ endhdr sp_c)) 0 = lenN A.
Proof. vm_compute. repeat split; reflexivity. Qed.

(* ... and the hypothesis that the corruption test of save_to_file fires (no_spoof) is necessary: a payload that
   looks like END ++ trailer with a consistent back-link defeats it (cut 92); one byte earlier it fires (cut 91).
   Replayed on the real library by tools/c07.py (open known finding restart-spoofed-tail). *)
Theorem C07_restart_spoof_refuted :
  let d' := binary_diff (fun _ => leqb) sp_fs0 (parse_stream sp_c sp_new) in
  (92 < length (snd (append_trace sp_c sp_h sp_fs0 [sp_d1] sp_d)))%nat /\
  tail_corrupt sp_c (sp_img 92) true = false /\
  open_archive sp_c (save_append (fun _ => leqb) sp_c (sp_img 92) sp_new)
    = OOk (mkI (blobs_of sp_c sp_h sp_fs0 [sp_d1]) true) /\
  blobs_of sp_c sp_h sp_fs0 [sp_d1] <> blobs_of sp_c sp_h sp_fs0 ([sp_d1] ++ [d']) /\
  tail_corrupt sp_c (sp_img 91) true = true /\
  open_archive sp_c (save_append (fun _ => leqb) sp_c (sp_img 91) sp_new)
    = OOk (mkI (blobs_of sp_c sp_h sp_fs0 ([sp_d1] ++ [d'])) false).
Proof. exact restart_spoof_refuted. Qed.
Print Assumptions C07_restart_spoof_refuted.

(* Non-vacuity: a delta with a t field and a vanished field, cut inside the payload *)
Example C07_hypotheses_inhabited :
  let c := mkCfg 9999 1329743186 2 3 in
  let d := [mkF 2 [0;0;0;0;0;0;0;64]; mkF 85 []; mkF 90 [4;4]] in
  wf_cfg c /\ wf_d c d /\ (30 < length (ser d ++ endhdr c))%nat /\
  walk_blob c 10 (firstn 30 (ser d ++ endhdr c)) 0 0 = WErr /\
  walk_blob c 10 (ser d ++ endhdr c) 0 0 = WOk 74 [] 4611686018427387904.
Proof.
  cbv zeta. split; [constructor; cbn; lia|]. split.
  { repeat constructor; cbn; try lia; try discriminate; intros; try discriminate; try lia. }
  split; [vm_compute; lia|]. split; vm_compute; reflexivity.
Qed.

(* ---- restart of automatically snapshotted runs (attach logic of reb_simulation_save_to_file_{interval,step}) ---- *)
(* re-attaching with the cadence already stored in the (restored) simulation changes nothing: the pending
   threshold next / next_step persisted in the snapshot is kept *)
Theorem C07_attach_same_cadence_keeps_state : forall s,
  attach_interval (a_interval s) s = s /\ attach_step (a_step s) s = s.
Proof. exact attach_same. Qed.
Print Assumptions C07_attach_same_cadence_keeps_state.

(* step cadence: crash at any byte of a later write (C07_crash_prefix_safe: the intact snapshots are exposed), restart
   from the intact snapshot taken at step x = s0 + j*auto, re-attach with the same step count, run the remaining
   heartbeats: exactly the snapshots of the uninterrupted run after x - no duplicate of x, none skipped *)
Theorem C07_restart_cadence_step : forall auto s0 n j t w y, 0 < auto ->
  let x := s0 + j * auto in x < s0 + N.of_nat n ->
  let st := attach_step auto (snap_state_step auto x t w) in
  (In y (hb_run (a_step st) (a_next_step st) (a_steps_done st) (N.to_nat (s0 + N.of_nat n - x)))
   <-> (In y (hb_run auto s0 s0 n) /\ x < y)).
Proof. exact restart_cadence_step. Qed.
Print Assumptions C07_restart_cadence_step.

(* ... whereas an attach that resets next_step to steps_done writes the restart snapshot a second time *)
Theorem C07_reset_on_attach_duplicates : forall auto x n, 0 < auto -> In x (hb_run auto x x (S n)).
Proof. exact reset_duplicates. Qed.

(* interval cadence (reals): the snapshot written at heartbeat time s for threshold T persists next = T + I; the run
   continued from it with the same interval produces exactly the rest of the uninterrupted sequence *)
Theorem C07_restart_cadence_interval : forall (I next : R) ts1 s ts2 T,
  runI I next (ts1 ++ [s]) = runI I next ts1 ++ [(s, T)] ->
  runI I next (ts1 ++ s :: ts2) = runI I next ts1 ++ (s, T) :: runI I (T + I)%R ts2.
Proof. exact restart_cadence_interval. Qed.
Print Assumptions C07_restart_cadence_interval.

(* Non-vacuity of the hypotheses of C07_crash_prefix_safe / C07_restart_write: the archive of the spoof witness *)
Example C07_crash_hypotheses_inhabited :
  wf_cfg sp_c /\ wf_header sp_c sp_h /\ wf_d sp_c sp_fs0 /\ 2 <= ver_of sp_c sp_fs0 0 /\
  Forall (small_d sp_c) [sp_d1] /\ small_d sp_c sp_d /\
  length (snd (append_trace sp_c sp_h sp_fs0 [sp_d1] sp_d)) = 124%nat.
Proof.
  split; [constructor; cbn; lia|]. split.
  { eexists _, _. split; [vm_compute; reflexivity|reflexivity]. }
  assert (W : forall f, In f (sp_fs0 ++ sp_d1 ++ sp_d) -> wf_field sp_c f).
  { intros f Hf. cbn in Hf. unfold wf_field.
    repeat (destruct Hf as [<-|Hf]; [cbn; repeat split; try lia; try discriminate; intros; try discriminate; try lia|]); destruct Hf. }
  split; [repeat constructor; apply W; cbn; tauto|].
  split; [vm_compute; discriminate|].
  split; [repeat constructor; try (apply W; cbn; tauto); vm_compute; reflexivity|].
  split; [split; [repeat constructor; apply W; cbn; tauto|vm_compute; reflexivity]|vm_compute; reflexivity].
Qed.
