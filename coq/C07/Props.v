(* C07 property theorems ONLY (each closed by an already proved lemma) + assumptions. *)
From Coq Require Import List NArith Bool Arith Lia.
From RV Require Import C06.Model C06.Index C07.Crash.
Import ListNotations.
Open Scope N_scope.

(* Every cut inside a delta or inside its END field (any byte offset, any delta): the field walk of the index
   builder ends in a read error; nothing of the partially written snapshot is accepted. *)
Theorem C07_partial_delta_rejected : forall c d j fuel pos t0, wf_d c d ->
  (j < length (ser d ++ endhdr c))%nat ->
  walk_blob c fuel (firstn j (ser d ++ endhdr c)) pos t0 = WErr.
Proof. exact walk_prefix. Qed.
Print Assumptions C07_partial_delta_rejected.

(* ... and the snapshots accepted so far are exactly what the index keeps *)
Theorem C07_partial_delta_keeps_index : forall c d j fuel acc pos, wf_d c d ->
  (j < length (ser d ++ endhdr c))%nat ->
  fst (fst (index_loop c fuel false (firstn j (ser d ++ endhdr c)) pos acc)) = acc.
Proof. exact index_loop_partial_blob. Qed.
Print Assumptions C07_partial_delta_keeps_index.

(* The first write cut anywhere before the END field of snapshot 0 is complete: no snapshot is exposed
   (open_archive then reports an error) *)
Theorem C07_first_snapshot_cut : forall c h fs0 j, wf_header c h -> wf_d c fs0 ->
  (j < length (h ++ ser fs0 ++ endhdr c))%nat ->
  fst (fst (index_loop c (S j) true (firstn j (h ++ ser fs0 ++ endhdr c)) 0 [])) = [].
Proof. exact first_cut_no_blob. Qed.
Print Assumptions C07_first_snapshot_cut.

(* Non-vacuity: a delta with a t field and a vanished field, cut inside the payload *)
Example C07_hypotheses_inhabited :
  let c := mkCfg 9999 1329743186 2 3 in
  let d := [mkF 2 [0;0;0;0;0;0;0;64]; mkF 85 []; mkF 90 [4;4]] in
  wf_cfg c /\ wf_d c d /\ (30 < length (ser d ++ endhdr c))%nat /\
  walk_blob c 10 (firstn 30 (ser d ++ endhdr c)) 0 0 = WErr /\
  walk_blob c 10 (ser d ++ endhdr c) 0 0 = WOk 74 [] 4611686018427387904.
Proof.
  cbv zeta. split; [constructor; cbn; lia|]. split.
  { repeat constructor; cbn; try lia; try discriminate; intros; try discriminate; try lia. }
  split; [vm_compute; lia|]. split; vm_compute; reflexivity.
Qed.
