(* C07: crash images of an archive write.  Byte-level facts about what the index builder accepts when a write
   was cut at an arbitrary byte. *)
From Coq Require Import List NArith Bool Arith Lia.
From RV Require Import C06.Model C06.Index.
Import ListNotations.
Open Scope N_scope.

Section C.
Variable c : cfg.
Hypothesis WC : wf_cfg c.

Lemma firstn_hdr_app : forall t n Y j, (16 <= j)%nat -> firstn j (hdr t n ++ Y) = hdr t n ++ firstn (j - 16) Y.
Proof.
  intros t n Y j H. rewrite firstn_app, hdr_length. rewrite firstn_all2 by (rewrite hdr_length; lia). reflexivity.
Qed.

Lemma skipN_firstn_data : forall (data rest : list N) m, (length data <= m)%nat ->
  skipN (lenN data) (firstn m (data ++ rest)) = firstn (m - length data) rest.
Proof.
  intros data rest m H. rewrite firstn_app. rewrite firstn_all2 by lia. apply skipN_app.
Qed.

Lemma walk_nil : forall fuel pos t, walk_blob c fuel [] pos t = WErr.
Proof. intros. destruct fuel; reflexivity. Qed.

(* A strict prefix of a blob body (fields ++ END) is never accepted: the field walk ends in a read error,
   whatever follows was not yet written.  This is every cut inside the delta or inside its END field. *)
Lemma walk_prefix : forall d j fuel pos t0, wf_d c d -> (j < length (ser d ++ endhdr c))%nat ->
  walk_blob c fuel (firstn j (ser d ++ endhdr c)) pos t0 = WErr.
Proof.
  induction d as [|f r IH]; intros j fuel pos t0 WF HJ.
  - cbn [ser flat_map app] in *. unfold endhdr in *. rewrite hdr_length in HJ.
    destruct fuel; [reflexivity|]. cbn [walk_blob]. rewrite read_hdr_short; [reflexivity|].
    rewrite firstn_length, hdr_length. lia.
  - inversion WF as [|? ? Hf WF']; subst. destruct Hf as (NE & NH & TS & SS & TN).
    destruct fuel; [reflexivity|]. cbn [walk_blob].
    rewrite ser_cons, <- !app_assoc in *.
    destruct (Nat.lt_ge_cases j 16) as [J16|J16].
    + rewrite read_hdr_short; [reflexivity|]. rewrite firstn_length. lia.
    + rewrite firstn_hdr_app by exact J16.
      rewrite read_hdr_hdr; [|exact TS|exact SS].
      rewrite (neqb _ _ NH), (neqb _ _ NE).
      rewrite !app_length, hdr_length in HJ.
      change (fsize f) with (lenN (fdata f)).
      destruct (Nat.lt_ge_cases (j - 16) (length (fdata f))) as [JD|JD].
      * (* cut inside the payload *)
        assert (SH : lenN (firstn (j - 16) (fdata f ++ ser r ++ endhdr c)) < lenN (fdata f)).
        { unfold lenN. rewrite firstn_length, app_length. lia. }
        destruct (ftype f =? ty_t c).
        -- destruct (N.ltb_spec (lenN (firstn (j - 16) (fdata f ++ ser r ++ endhdr c))) (lenN (fdata f))); [reflexivity|lia].
        -- rewrite skipN_beyond by lia. apply walk_nil.
      * rewrite skipN_firstn_data by exact JD.
        assert (R : walk_blob c fuel (firstn (j - 16 - length (fdata f)) (ser r ++ endhdr c)) (pos + 16 + lenN (fdata f))
                     (if ftype f =? ty_t c then de (takeN (lenN (fdata f)) (firstn (j - 16) (fdata f ++ ser r ++ endhdr c))) else t0) = WErr).
        { apply IH; [exact WF'|]. rewrite app_length. lia. }
        destruct (ftype f =? ty_t c).
        -- destruct (N.ltb_spec (lenN (firstn (j - 16) (fdata f ++ ser r ++ endhdr c))) (lenN (fdata f))); [reflexivity|].
           destruct (lenN (fdata f) =? 0); [reflexivity|]. exact R.
        -- exact R.
Qed.

(* consequence for the index builder: standing at the start of a partially written blob, no further snapshot
   is accepted; the snapshots accepted so far are kept *)
Lemma index_loop_partial_blob : forall d j fuel acc pos, wf_d c d -> (j < length (ser d ++ endhdr c))%nat ->
  fst (fst (index_loop c fuel false (firstn j (ser d ++ endhdr c)) pos acc)) = acc.
Proof.
  intros d j fuel acc pos WF HJ. destruct fuel; [reflexivity|]. cbn [index_loop].
  rewrite walk_prefix by assumption. reflexivity.
Qed.

(* the very first write (fopen "wb" + one sequential write): a file cut before the END field of snapshot 0 is
   complete exposes no snapshot: opening reports an error *)
Lemma first_cut_no_blob : forall h fs0 j, wf_header c h -> wf_d c fs0 ->
  (j < length (h ++ ser fs0 ++ endhdr c))%nat ->
  fst (fst (index_loop c (S j) true (firstn j (h ++ ser fs0 ++ endhdr c)) 0 [])) = [].
Proof.
  intros h fs0 j (sz & r & RH & LR) WF HJ. cbn [index_loop].
  assert (LH : length h = 64%nat).
  { unfold read_hdr in RH. do 16 (destruct h as [|? h]; [discriminate|]). inversion RH; subst. cbn [length]. lia. }
  assert (W : walk_blob c (S (length (firstn j (h ++ ser fs0 ++ endhdr c)))) (firstn j (h ++ ser fs0 ++ endhdr c)) 0 0 = WErr).
  { cbn [walk_blob]. destruct (Nat.lt_ge_cases j 16) as [J16|J16].
    - rewrite read_hdr_short; [reflexivity|]. rewrite firstn_length. lia.
    - (* header field is complete: type HEADER, skip 48 *)
      assert (HS : exists h16, h = h16 ++ r /\ length h16 = 16%nat).
      { unfold read_hdr in RH. do 16 (destruct h as [|? h]; [discriminate|]). inversion RH; subst.
        eexists [_;_;_;_;_;_;_;_;_;_;_;_;_;_;_;_]. split; reflexivity. }
      destruct HS as (h16 & -> & L16). rewrite <- app_assoc.
      assert (RH16 : read_hdr h16 = Some (ty_header c, sz, [])).
      { unfold read_hdr in *. do 16 (destruct h16 as [|? h16]; [discriminate|]). destruct h16; [|discriminate]. cbn [app] in RH. inversion RH. reflexivity. }
      rewrite firstn_app, L16. rewrite (firstn_all2 h16) by lia.
      rewrite (read_hdr_app _ _ _ _ _ RH16). cbn [app]. rewrite N.eqb_refl.
      destruct (Nat.lt_ge_cases (j - 16) 48) as [J48|J48].
      + rewrite skipN_beyond; [apply walk_nil|]. unfold lenN. rewrite firstn_length. lia.
      + replace 48 with (lenN r) by (unfold lenN; rewrite LR; reflexivity).
        replace (firstn (j - 16) (r ++ ser fs0 ++ endhdr c)) with (r ++ firstn (j - 16 - 48) (ser fs0 ++ endhdr c)).
        2:{ rewrite (firstn_app (j - 16) r), LR. rewrite (firstn_all2 r) by lia. reflexivity. }
        rewrite skipN_app. apply walk_prefix; [exact WF|].
        rewrite !app_length in HJ. rewrite L16, LR in HJ. rewrite app_length. lia. }
  rewrite W. reflexivity.
Qed.
End C.
