(* C07: restart after a crash.  Writing the next append at the end of the last intact snapshot of ANY crash image
   gives the archive "A with the new delta appended" followed by a harmless stale tail; the corruption test of
   reb_simulation_save_to_file (tail_corrupt) is what decides whether that position is used, and it can be
   spoofed by payload bytes (restart_spoof_refuted). *)
From Coq Require Import List NArith Bool Arith Lia.
From RV Require Import C06.Model C06.Index C07.Crash C07.Prefix.

Import ListNotations.
Open Scope N_scope.

(* byte-list equality (memcmp) used as the payload comparison of the witness below *)
Fixpoint leqb (a b : list N) : bool :=
  match a, b with
  | [], [] => true
  | x :: a', y :: b' => (x =? y)%N && leqb a' b'
  | _, _ => false
  end.

Section R.
Variable c : cfg.
Hypothesis WC : wf_cfg c.

(* stale bytes behind the last trailer (left over from an interrupted, longer write) are never looked at *)
Lemma garbage_keeps : forall g, ending_keeps c (fun i p => trailer i p 0 ++ g).
Proof.
  intros g fuel first body pos acc idx prev t HW HP HI HPs. cbn [index_loop]. rewrite HW.
  rewrite read_blob_trailer; [|exact HI|exact HPs|reflexivity]. cbn [b_len b_prev b_ok b_next negb].
  assert (C : (negb first && negb (prev + 12 =? pos + lenN body + 12 - pos)) = false).
  { destruct first; [reflexivity|]. rewrite (HP eq_refl). cbn [negb andb].
    replace (pos + lenN body + 12 - pos) with (lenN body + 12) by lia. rewrite N.eqb_refl. reflexivity. }
  rewrite C. reflexivity.
Qed.

Lemma chainE_garbage : forall g ds idx prev,
  chainE c idx prev ds (fun i p => trailer i p 0 ++ g) = chain c idx prev ds ++ g.
Proof.
  intros g. induction ds as [|d r IH]; intros; cbn [chainE chain]; [reflexivity|].
  rewrite IH. rewrite <- !app_assoc. reflexivity.
Qed.

Theorem open_with_stale_tail : forall h fs0 ds g,
  wf_header c h -> wf_d c fs0 -> 2 <= ver_of c fs0 0 -> Forall (small_d c) ds -> N.of_nat (length ds) < 2^32 ->
  exists fl, open_archive c (archive c h fs0 ds ++ g) = OOk (mkI (blobs_of c h fs0 ds) fl).
Proof.
  intros h fs0 ds g WH WF HV SM HL.
  assert (EQ : archive c h fs0 ds ++ g = (h ++ ser fs0 ++ endhdr c) ++ chainE c 0 0 ds (fun i p => trailer i p 0 ++ g)).
  { unfold archive. rewrite chainE_garbage. rewrite <- !app_assoc. reflexivity. }
  rewrite EQ. apply open_from_index.
  - discriminate.
  - rewrite <- !app_assoc. rewrite ver_first by assumption. cbn [fst]. apply N.ltb_ge. exact HV.
  - rewrite (index_chainE c WC _ (garbage_keeps g) ds _ true (h ++ ser fs0 ++ endhdr c) 0 [] 0 0 (tof c fs0 0)).
    + reflexivity.
    + intros tail. apply walk_first; assumption.
    + discriminate.
    + lia.
    + reflexivity.
    + exact SM.
    + assert (G : forall E i p, (length ds <= length (chainE c i p ds E))%nat).
      { intros E. clear - SM. induction ds as [|e r IHr]; intros i p; cbn [chainE length]; [lia|].
        inversion SM; subst. rewrite !app_length, trailer_length. specialize (IHr H2 (i + 1) (blen e)). lia. }
      rewrite app_length. specialize (G (fun i p => trailer i p 0 ++ g) 0 0). lia.
Qed.

(* restart_equiv, write part: on the crash image of an append of d cut at ANY offset k, writing the append of a
   new delta d' at the end of the last intact snapshot (offset |A| - 12, the position the repair walk selects)
   yields  (A with d' appended) ++ stale tail : contents byte-identical to the uninterrupted append, same index *)
Theorem restart_write : forall h fs0 ds d d' k,
  wf_header c h -> wf_d c fs0 -> 2 <= ver_of c fs0 0 -> Forall (small_d c) ds -> small_d c d' ->
  N.of_nat (length ds) + 1 < 2^32 ->
  let A := archive c h fs0 ds in
  let img := crash_image A (append_trace c h fs0 ds d) k in
  let F := patch img (lenN A - 12) (snd (append_trace c h fs0 ds d')) in
  (exists stale, F = archive c h fs0 (ds ++ [d']) ++ stale) /\
  exists fl, open_archive c F = OOk (mkI (blobs_of c h fs0 (ds ++ [d'])) fl).
Proof.
  intros h fs0 ds d d' k WH WF HV SM SD HL A img F.
  assert (EX : exists stale, F = archive c h fs0 (ds ++ [d']) ++ stale).
  { unfold F, img, A. rewrite crash_image_chain, chainE_split.
    set (X := (h ++ ser fs0 ++ endhdr c) ++ cpre c 0 0 ds).
    assert (LA : lenN (archive c h fs0 ds) - 12 = lenN X).
    { assert (AX : archive c h fs0 ds = X ++ trailer (0 + N.of_nat (length ds)) (lastp 0 ds) 0)
        by (unfold archive, X; rewrite chain_chainE, chainE_split, <- !app_assoc; reflexivity).
      rewrite AX, lenN_app. unfold lenN at 2. rewrite trailer_length. lia. }
    rewrite LA. unfold patch, append_trace. cbn [snd].
    rewrite (app_assoc (h ++ ser fs0 ++ endhdr c) (cpre c 0 0 ds)). fold X. rewrite takeN_app.
    eexists. rewrite app_assoc. f_equal.
    unfold archive. rewrite <- chainE_full, chainE_split. unfold X, last_idx.
    rewrite <- !app_assoc. replace (0 + N.of_nat (length ds)) with (N.of_nat (length ds)) by lia. reflexivity. }
  split; [exact EX|]. destruct EX as (stale & ->).
  apply open_with_stale_tail; try assumption.
  - apply Forall_app. split; [exact SM|constructor; [exact SD|constructor]].
  - rewrite app_length. cbn [length]. lia.
Qed.
End R.

(* The hypothesis "the corruption test fires" is necessary: payload bytes that look like END ++ trailer with a
   consistent back-link defeat tail_corrupt; save_append then writes behind the partial delta and the appended
   snapshot is not exposed.  One byte earlier the test fires and the snapshot is recovered. *)
Definition sp_c := mkCfg 9999 1329743186 2 3.
Definition sp_h := le 4 1329743186 ++ repeat 32 60.
Definition sp_fs0 := [mkF 3 [3;0;0;0]; mkF 2 [0;0;0;0;0;0;240;63]; mkF 85 [1;2;3]].
Definition sp_d1 := [mkF 2 [0;0;0;0;0;0;0;64]].
Definition sp_payload := repeat 0 8 ++ [16;0;0;0] ++ hdr 9999 0 ++ trailer 7 16 0 ++ [1;1;1;1].
Definition sp_d := [mkF 2 [0;0;0;0;0;0;8;64]; mkF 85 sp_payload].
Definition sp_new := sp_h ++ ser [mkF 3 [3;0;0;0]; mkF 2 [0;0;0;0;0;0;16;64]; mkF 85 [1;2;3]] ++ endhdr sp_c ++ trailer 0 0 0.
Definition sp_img (k : nat) := crash_image (archive sp_c sp_h sp_fs0 [sp_d1]) (append_trace sp_c sp_h sp_fs0 [sp_d1] sp_d) k.

Theorem restart_spoof_refuted :
  let d' := binary_diff (fun _ => leqb) sp_fs0 (parse_stream sp_c sp_new) in
  (92 < length (snd (append_trace sp_c sp_h sp_fs0 [sp_d1] sp_d)))%nat /\
  tail_corrupt sp_c (sp_img 92) true = false /\
  open_archive sp_c (save_append (fun _ => leqb) sp_c (sp_img 92) sp_new)
    = OOk (mkI (blobs_of sp_c sp_h sp_fs0 [sp_d1]) true) /\
  blobs_of sp_c sp_h sp_fs0 [sp_d1] <> blobs_of sp_c sp_h sp_fs0 ([sp_d1] ++ [d']) /\
  tail_corrupt sp_c (sp_img 91) true = true /\
  open_archive sp_c (save_append (fun _ => leqb) sp_c (sp_img 91) sp_new)
    = OOk (mkI (blobs_of sp_c sp_h sp_fs0 ([sp_d1] ++ [d'])) false).
Proof. vm_compute. repeat split; try reflexivity; try lia. discriminate. Qed.
