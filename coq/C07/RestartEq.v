(* C07: restart_equiv.  The tail walk of reb_simulation_save_to_file (repair_walk) returns the end of the last
   complete blob on EVERY crash image; composed with restart_write: if the corruption test fires (no_spoof), the
   append performed on a crash image gives (A with the new delta appended) ++ stale tail, same index. *)
From Coq Require Import List NArith Bool Arith Lia.
From RV Require Import C06.Model C06.Index C06.Writer C07.Crash C07.Prefix C07.Restart.
Import ListNotations.
Open Scope N_scope.

Section Q.
Variable c : cfg.
Hypothesis WC : wf_cfg c.

Lemma read_hdr_skip_short : forall (file : list N) n, lenN file < n + 16 -> read_hdr (skipN n file) = None.
Proof.
  intros file n H. unfold skipN. destruct (N.ltb_spec (lenN file) n); [reflexivity|].
  apply read_hdr_short. rewrite skipn_length. unfold lenN in *. lia.
Qed.

Definition ending_stops (E : N -> N -> list N) : Prop :=
  forall fuel Y idx prev last, idx < 2^32 -> prev < 2^32 ->
  repair_walk c (S fuel) (Y ++ endhdr c ++ E idx prev) (lenN (Y ++ endhdr c)) last = lenN (Y ++ endhdr c) + 12.

Lemma pos_ge16 : forall Y, (lenN (Y ++ endhdr c) <? 16) = false.
Proof. intros. apply N.ltb_ge. rewrite lenN_app, (lenN_endhdr c). lia. Qed.

Lemma skip_to_end : forall Y rest, skipN (lenN (Y ++ endhdr c) - 16) (Y ++ endhdr c ++ rest) = endhdr c ++ rest.
Proof. intros. apply skipN_at. rewrite lenN_app, (lenN_endhdr c). lia. Qed.

Lemma read_end : forall rest, read_hdr (endhdr c ++ rest) = Some (ty_end c, 0, rest).
Proof. intros. unfold endhdr. apply read_hdr_hdr; [apply WC|reflexivity]. Qed.

(* the walk along the complete blobs *)
Lemma repair_chain : forall E, ending_stops E -> forall ds fuel Y idx prev last,
  Forall (small_d c) ds -> idx + N.of_nat (length ds) < 2^32 -> prev < 2^32 -> (length ds < fuel)%nat ->
  repair_walk c fuel (Y ++ endhdr c ++ chainE c idx prev ds E) (lenN (Y ++ endhdr c)) last
  = lenN (Y ++ endhdr c ++ cpre c idx prev ds) + 12.
Proof.
  intros E HE. induction ds as [|d r IH]; intros fuel Y idx prev last SM HI HP HF.
  - destruct fuel; [cbn in HF; lia|]. cbn [chainE cpre]. rewrite app_nil_r. apply HE; [cbn [length] in HI; lia|exact HP].
  - destruct fuel; [cbn in HF; lia|]. inversion SM as [|? ? [WD SB] SM']; subst.
    cbn [chainE cpre repair_walk]. rewrite pos_ge16, skip_to_end, read_end. rewrite N.eqb_refl. cbn [negb].
    rewrite read_blob_trailer; [|cbn [length] in HI; lia|exact HP|exact SB]. cbn [b_ok b_next negb].
    replace (0 <? blen d) with true by (symmetry; apply N.ltb_lt; unfold blen; lia).
    set (Y' := Y ++ endhdr c ++ trailer idx prev (blen d) ++ ser d).
    replace (Y ++ endhdr c ++ trailer idx prev (blen d) ++ ser d ++ endhdr c ++ chainE c (idx + 1) (blen d) r E)
      with (Y' ++ endhdr c ++ chainE c (idx + 1) (blen d) r E) by (unfold Y'; rewrite <- !app_assoc; reflexivity).
    replace (lenN (Y ++ endhdr c) + 12 + blen d) with (lenN (Y' ++ endhdr c)).
    2:{ unfold Y'. rewrite !lenN_app, (lenN_endhdr c), lenN_trailer. unfold blen. lia. }
    rewrite IH; [|exact SM'|cbn [length] in HI; lia|exact SB|cbn [length] in HF; lia].
    f_equal. unfold Y'. rewrite <- !app_assoc. reflexivity.
Qed.

(* every cut ending stops the walk right behind the last complete trailer position *)
Lemma cutE_stops : forall d k, small_d c d -> (k < 24 + length (ser d ++ endhdr c))%nat -> ending_stops (cutE c d k).
Proof.
  intros d k [WD SB] Hk fuel Y idx prev last HI HP. unfold cutE, app_bytes.
  set (pos := lenN (Y ++ endhdr c)).
  destruct (Nat.le_gt_cases k 12) as [K12|K12].
  - rewrite firstn_app, trailer_length. replace (k - 12)%nat with 0%nat by lia. cbn [firstn]. rewrite app_nil_r.
    destruct (mixed_trailer k idx prev (blen d) K12) as (Z & EQ & LZ). rewrite EQ.
    cbn [repair_walk]. fold pos. unfold pos at 1 2. rewrite pos_ge16, skip_to_end, read_end. rewrite N.eqb_refl. cbn [negb].
    rewrite read_blob_Z by assumption. cbn [b_ok b_next negb].
    destruct (N.ltb_spec 0 (de Z)) as [ZP|ZZ]; [|reflexivity].
    destruct fuel; [reflexivity|]. cbn [repair_walk].
    destruct (pos + 12 + de Z <? 16); [reflexivity|].
    rewrite read_hdr_skip_short; [reflexivity|].
    assert (P16 : 16 <= pos) by (unfold pos; rewrite lenN_app, (lenN_endhdr c); lia).
    assert (LF : lenN (Y ++ endhdr c ++ le 4 idx ++ le 4 prev ++ Z) = pos + 12)
      by (unfold pos; rewrite !lenN_app; unfold lenN; rewrite !le_length, LZ; lia).
    rewrite LF. lia.
  - rewrite (skipn_all2 (n:=k)) by (rewrite trailer_length; lia). rewrite app_nil_r.
    rewrite firstn_app, trailer_length. rewrite (firstn_all2 (n:=k) (trailer idx prev (blen d))) by (rewrite trailer_length; lia).
    cbn [repair_walk]. fold pos. unfold pos at 1 2. rewrite pos_ge16.
    rewrite skip_to_end, read_end. rewrite N.eqb_refl. cbn [negb].
    rewrite read_blob_trailer by assumption. cbn [b_ok b_next negb].
    replace (0 <? blen d) with true by (symmetry; apply N.ltb_lt; unfold blen; lia).
    set (L := length (ser d ++ endhdr c)) in *.
    assert (BL : blen d = N.of_nat L) by (unfold L, blen, lenN, endhdr; rewrite app_length, hdr_length; lia).
    destruct fuel; [reflexivity|]. cbn [repair_walk].
    destruct (pos + 12 + blen d <? 16) eqn:P16; [reflexivity|].
    destruct (Nat.lt_ge_cases (k - 12) L) as [JL|JL].
    + (* the new blob is incomplete: nothing readable at its END position *)
      rewrite read_hdr_skip_short; [reflexivity|].
      assert (P16' : 16 <= pos) by (unfold pos; rewrite lenN_app, (lenN_endhdr c); lia).
      assert (LF : lenN (Y ++ endhdr c ++ trailer idx prev (blen d) ++
                         firstn (k - 12) (ser d ++ endhdr c ++ trailer (idx + 1) (blen d) 0)) = pos + 12 + N.of_nat (k - 12)).
      { unfold pos. rewrite !lenN_app, lenN_trailer. unfold lenN at 3. rewrite firstn_length.
        assert (length (ser d ++ endhdr c ++ trailer (idx + 1) (blen d) 0) = (L + 12)%nat)
          by (unfold L; rewrite !app_length, trailer_length; lia).
        lia. }
      rewrite LF. lia.
    + (* complete up to END, trailer cut *)
      rewrite (app_assoc (ser d)). rewrite firstn_app. fold L.
      rewrite (firstn_all2 (n:=(k - 12)%nat) (ser d ++ endhdr c)) by (fold L; lia).
      set (Y' := Y ++ endhdr c ++ trailer idx prev (blen d) ++ ser d).
      replace (Y ++ endhdr c ++ trailer idx prev (blen d) ++ (ser d ++ endhdr c) ++ firstn (k - 12 - L) (trailer (idx + 1) (blen d) 0))
        with (Y' ++ endhdr c ++ firstn (k - 12 - L) (trailer (idx + 1) (blen d) 0)) by (unfold Y'; rewrite <- !app_assoc; reflexivity).
      replace (pos + 12 + blen d) with (lenN (Y' ++ endhdr c)).
      2:{ unfold Y', pos. rewrite !lenN_app, (lenN_endhdr c), lenN_trailer. unfold blen. lia. }
      rewrite skip_to_end, read_end. rewrite N.eqb_refl. cbn [negb].
      unfold read_blob. cbn [b_ok]. 
      assert (SH : (12 <=? lenN (firstn (k - 12 - L) (trailer (idx + 1) (blen d) 0))) = false).
      { apply N.leb_gt. unfold lenN. rewrite firstn_length, trailer_length. lia. }
      rewrite SH. reflexivity.
Qed.

(* the blob found at the write position carries the index / offset_prev of the last intact trailer *)
Lemma cut_blob_head : forall d k i p, i < 2^32 -> p < 2^32 -> small_d c d ->
  let b := read_blob (cutE c d k i p) in b_index b = i /\ b_prev b = p /\ b_ok b = true.
Proof.
  intros d k i p Hi Hp [WD SB]. unfold cutE, app_bytes.
  destruct (Nat.le_gt_cases k 12) as [K12|K12].
  - rewrite firstn_app, trailer_length. replace (k - 12)%nat with 0%nat by lia. cbn [firstn]. rewrite app_nil_r.
    destruct (mixed_trailer k i p (blen d) K12) as (Z & EQ & LZ). rewrite EQ.
    rewrite read_blob_Z by assumption. cbn. auto.
  - rewrite (skipn_all2 (n:=k)) by (rewrite trailer_length; lia). rewrite app_nil_r.
    rewrite firstn_app, trailer_length. rewrite (firstn_all2 (n:=k) (trailer i p (blen d))) by (rewrite trailer_length; lia).
    rewrite read_blob_trailer by assumption. cbn. auto.
Qed.

Variable peq : N -> list N -> list N -> bool.

(* the corruption test as reb_simulation_save_to_file evaluates it on a file *)
Definition detects (file : list N) : bool :=
  match old_walk c (S (length file)) (skipN 64 file) 64 with
  | Some so => tail_corrupt c file (0 <? b_next (read_blob (skipN so file)))
  | None => false
  end.

Lemma chainE_len12 : forall ds d k i p, (12 <= length (chainE c i p ds (cutE c d k)))%nat.
Proof.
  induction ds as [|e r IH]; intros; cbn [chainE].
  - unfold cutE. rewrite app_length, firstn_length, skipn_length, app_bytes_length, trailer_length. lia.
  - rewrite !app_length, trailer_length. lia.
Qed.

(* repair walk on a crash image: the end of the last complete blob = |A| *)
Lemma repair_crash : forall h fs0 ds d k, Forall (small_d c) ds -> small_d c d ->
  N.of_nat (length ds) + 1 < 2^32 -> (k < 24 + length (ser d ++ endhdr c))%nat ->
  let A := archive c h fs0 ds in
  let img := crash_image A (append_trace c h fs0 ds d) k in
  repair_walk c (S (length img)) img (lenN (h ++ ser fs0 ++ endhdr c)) (lenN (h ++ ser fs0 ++ endhdr c) + 12) = lenN A.
Proof.
  intros h fs0 ds d k SM SD HL Hk A img. unfold img, A. rewrite crash_image_chain.
  replace ((h ++ ser fs0 ++ endhdr c) ++ chainE c 0 0 ds (cutE c d k))
    with ((h ++ ser fs0) ++ endhdr c ++ chainE c 0 0 ds (cutE c d k)) by (rewrite <- !app_assoc; reflexivity).
  replace (h ++ ser fs0 ++ endhdr c) with ((h ++ ser fs0) ++ endhdr c) by (rewrite <- !app_assoc; reflexivity).
  rewrite (repair_chain (cutE c d k) (cutE_stops d k SD Hk)); [|exact SM|lia|reflexivity|].
  - rewrite archive_split. rewrite !lenN_app, lenN_trailer. lia.
  - pose proof (chainE_len12 ds d k 0 0). rewrite !app_length.
    assert (G : forall E i p, (length ds <= length (chainE c i p ds E))%nat).
    { intros E. clear - SM. induction ds as [|e r IHr]; intros i p; cbn [chainE length]; [lia|].
      inversion SM; subst. rewrite !app_length, trailer_length. specialize (IHr H2 (i + 1) (blen e)). lia. }
    specialize (G (cutE c d k) 0 0). lia.
Qed.

(* up to 8 bytes of the in-place patch rewrite the old values: the image IS the intact archive *)
Lemma crash_image_le8 : forall h fs0 ds d k, (k <= 8)%nat ->
  crash_image (archive c h fs0 ds) (append_trace c h fs0 ds d) k = archive c h fs0 ds.
Proof.
  intros h fs0 ds d k Hk. rewrite crash_image_chain, chainE_split. rewrite archive_split.
  rewrite <- !app_assoc. do 4 f_equal.
  replace (0 + N.of_nat (length ds)) with (N.of_nat (length ds)) by lia.
  unfold cutE, app_bytes, trailer. cbn [le app].
  do 9 (destruct k as [|k]; [reflexivity|]). lia.
Qed.

(* restart_equiv: the append that save_to_file performs on the crash image of ANY cut, when its corruption test
   fires (no_spoof) or the image is the intact archive, is the uninterrupted append followed by a stale tail *)
Theorem restart_equiv : forall h fs0 ds d k h' s',
  wf_header c h -> wf_d c fs0 -> 2 <= ver_of c fs0 0 -> Forall (small_d c) ds -> small_d c d ->
  length h' = 64%nat -> wf_d c s' -> small_d c (binary_diff peq fs0 s') ->
  N.of_nat (length ds) + 1 < 2^32 -> (k < 24 + length (ser d ++ endhdr c))%nat ->
  let A := archive c h fs0 ds in
  let img := crash_image A (append_trace c h fs0 ds d) k in
  let d' := binary_diff peq fs0 s' in
  detects img = true \/ img = A ->
  let F := save_append peq c img (stream_of c h' s') in
  (exists stale, F = archive c h fs0 (ds ++ [d']) ++ stale) /\
  exists fl, open_archive c F = OOk (mkI (blobs_of c h fs0 (ds ++ [d'])) fl).
Proof.
  intros h fs0 ds d k h' s' WH WF HV SM SD LH' WS SD' HL Hk A img d' HD F.
  destruct HD as [HD|HI].
  2:{ (* the image is the intact archive: ordinary append *)
    unfold F. rewrite HI. unfold A.
    destruct (save_append_chain c WC peq h fs0 ds h' s' WH WF SM LH' WS SD' HL) as [_ SA]. rewrite SA. fold d'.
    split; [exists []; rewrite app_nil_r; reflexivity|].
    destruct (open_with_stale_tail c WC h fs0 (ds ++ [d']) [] WH WF HV) as (fl & OP).
    - apply Forall_app. split; [exact SM|constructor; [exact SD'|constructor]].
    - rewrite app_length. cbn [length]. lia.
    - rewrite app_nil_r in OP. exists fl. exact OP. }
  assert (FE : F = patch img (lenN A - 12) (snd (append_trace c h fs0 ds d'))).
  { unfold F, save_append, write_trace.
    set (pre := h ++ ser fs0 ++ endhdr c).
    assert (IM : img = pre ++ chainE c 0 0 ds (cutE c d k)) by (unfold img, A; apply crash_image_chain).
    assert (OW : old_walk c (S (length img)) (skipN 64 img) 64 = Some (lenN pre)).
    { rewrite IM. unfold pre. rewrite <- !app_assoc. apply old_walk_first; assumption. }
    unfold detects in HD. rewrite OW in HD. rewrite OW. cbv zeta.
    assert (BOK : b_ok (read_blob (skipN (lenN pre) img)) = true).
    { rewrite IM, skipN_app. unfold read_blob. cbn [b_ok]. apply N.leb_le.
      pose proof (chainE_len12 ds d k 0 0). unfold lenN. lia. }
    rewrite BOK. cbn [negb]. rewrite HD.
    assert (RW : repair_walk c (S (length img)) img (lenN pre) (lenN pre + 12) = lenN A)
      by (apply repair_crash; assumption).
    rewrite RW.
    assert (TK : takeN (lenN pre) img = pre) by (rewrite IM; apply takeN_app).
    rewrite TK.
    assert (P0 : parse_stream c pre = fs0).
    { unfold pre. replace (h ++ ser fs0 ++ endhdr c) with (h ++ ser fs0 ++ endhdr c ++ []) by (rewrite app_nil_r; reflexivity).
      apply (parse_stream_ser c WC); [apply (wf_h_len c); exact WH|exact WF]. }
    assert (P1 : parse_stream c (stream_of c h' s') = s') by (unfold stream_of; apply (parse_stream_ser c WC); assumption).
    rewrite P0, P1. fold d'.
    set (X := pre ++ cpre c 0 0 ds).
    assert (LA : lenN A - 12 = lenN X).
    { unfold A. rewrite archive_split. fold pre. fold X. rewrite lenN_app, lenN_trailer. lia. }
    assert (IX : img = X ++ cutE c d k (N.of_nat (length ds)) (lastp 0 ds)).
    { rewrite IM, chainE_split. unfold X. rewrite <- !app_assoc.
      replace (0 + N.of_nat (length ds)) with (N.of_nat (length ds)) by lia. reflexivity. }
    rewrite LA.
    assert (SKB : skipN (lenN X) img = cutE c d k (N.of_nat (length ds)) (lastp 0 ds)) by (rewrite IX; apply skipN_app).
    rewrite SKB.
    destruct (cut_blob_head d k (N.of_nat (length ds)) (lastp 0 ds)) as (BI & BP & _);
      [lia|apply (lastp_small c); [reflexivity|exact SM]|exact SD|].
    rewrite BI, BP. cbn [fst snd]. unfold append_trace, app_bytes, last_idx, blen. cbn [snd]. reflexivity. }
  rewrite FE. unfold img, A, d'. apply restart_write; assumption.
Qed.
End Q.

(* ---------- degenerate snapshots.  Nothing above assumes a non-empty delta: the smallest blob is the empty delta
   (a snapshot byte-identical to snapshot 0): END field only, blen = 16, 28 bytes with its trailer.  The walk follows
   offset_next > 0, and offset_next = blen >= 16 for every blob, so it passes empty deltas. *)
Lemma small_d_nil : forall c, small_d c [].
Proof. intros c. split; [constructor|]. vm_compute. reflexivity. Qed.

Lemma blen_ge16 : forall d, 16 <= blen d.
Proof. intros. unfold blen. lia. Qed.

Lemma blen_nil : blen [] = 16.
Proof. reflexivity. Qed.
