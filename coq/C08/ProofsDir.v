(* C08 proofs over the Coq reals, generalised: EITHER direction of time, ANY sign of the user's dt, and any
   stepper of the class "t += dt, dt unchanged, dt_last_done := dt or untouched" (which contains the three
   concrete time-update kinds of Model.v: step_full, step_half, step_janus); and sequences of calls on one
   simulation (state carried across calls). *)
From Coq Require Import ZArith List Bool Lia Reals Lra.
From RV Require Import Common.Num Common.RealNum C08.Model C08.Proofs C08.ProofsR.
Import ListNotations.
Open Scope R_scope.

Lemma last_cons_default : forall (l : list R) a d, last (a :: l) d = last l a.
Proof.
  induction l as [|b l IH]; intros a d; [reflexivity|].
  change (last (a :: b :: l) d) with (last (b :: l) d). rewrite !IH. reflexivity.
Qed.

Definition stepper_ok (stepper : R -> R -> R -> R * R * R) : Prop :=
  forall t d l, exists l', stepper t d l = (t + d, d, l') /\ (l' = l \/ l' = d).

Lemma step_full_ok : stepper_ok (step_full RNum).
Proof. intros t d l. exists d. split; [reflexivity|right; reflexivity]. Qed.
Lemma step_janus_ok : stepper_ok (step_janus RNum).
Proof. intros t d l. exists l. split; [reflexivity|left; reflexivity]. Qed.
Lemma step_half_ok : stepper_ok (step_half RNum).
Proof.
  intros t d l. exists d. split; [|right; reflexivity].
  unfold step_half, two. cbn [nadd ndiv none RNum]. f_equal. f_equal. lra.
Qed.

(* direction of integration: sg = copysign(1, d) *)
Definition dir (sg d : R) : Prop := (sg = 1 /\ 0 < d) \/ (sg = -1 /\ d < 0).

Lemma dtsign_dir sg d : dir sg d -> dtsign RNum d = sg.
Proof.
  unfold dtsign. cbn [nltb nneg none nzero RNum].
  intros [[-> H]|[-> H]].
  - rewrite Rltb_false by lra. reflexivity.
  - rewrite Rltb_true by lra. reflexivity.
Qed.

Section Gen.
Variable stepper : R -> R -> R -> R * R * R.
Hypothesis Hstep : stepper_ok stepper.
Let c12 : R := 1 / 1000000000000.
Let c200 : R := c12 / 10 ^ 188.
Let quiet : nat -> option Z := fun _ => None.

Lemma do_step_gen (s : @st R) :
  exists l', do_step stepper quiet s = mkSt (t s + dt s) (dt s) l' (status s) (S (steps s)) (lfd s)
             /\ (l' = dtld s \/ l' = dt s).
Proof.
  destruct (Hstep (t s) (dt s) (dtld s)) as [l' [E Hl]].
  exists l'. split; [|exact Hl]. unfold do_step. rewrite E. reflexivity.
Qed.

(* ------------------------------------------------------------------ exact finishing *)
Section Exact.
Variable tmax : R.
Local Notation check := (check_exit RNum c12 c200 tmax false true true).
Local Notation lp := (loop RNum c12 c200 stepper quiet tmax false true true).
Local Notation integ := (integrate RNum c12 c200 stepper quiet tmax false true true).

Lemma lpg_eq fuel s :
  lp fuel s = if (0 <=? status (check s))%Z then Some (check s)
              else match fuel with O => None | S f => lp f (do_step stepper quiet (check s)) end.
Proof. destruct fuel; reflexivity. Qed.

Lemma exact_run_gen : forall n s d sg,
  dir sg d -> dt s = d -> lfd s = d -> (dtld s = 0 \/ dtld s = d) -> status s = ST_RUNNING ->
  sg * (t s + INR n * d) < sg * tmax <= sg * (t s + (INR n + 1) * d) ->
  exists dl, lp (S (S n)) s = Some (mkSt tmax (tmax - (t s + INR n * d)) dl ST_SUCCESS (steps s + n + 1) d).
Proof.
  induction n as [|n IH]; intros s d sg Hdir Hdt Hlfd Hdtld Hst Hrange.
  - cbn [INR] in *. rewrite lpg_eq.
    assert (Hc : check s = mkSt (t s) (tmax - t s) (dtld s) ST_LAST_STEP (steps s) d).
    { unfold check_exit. rewrite Hst. cbn [Z.leb ST_RUNNING Z.compare Z.eqb ST_LAST_STEP].
      rewrite Hdt, (dtsign_dir sg d Hdir). unfold geb. cbn [nltb nleb neqb nmul nadd nsub nneg none nzero RNum].
      assert (Hne : t s <> tmax) by (destruct Hdir as [[-> Hd]|[-> Hd]]; lra).
      rewrite Rleb_true by (destruct Hdir as [[-> Hd]|[-> Hd]]; lra).
      rewrite Reqb_false by exact Hne.
      destruct Hdtld as [H0|H0]; rewrite H0.
      - rewrite Reqb_true by reflexivity. rewrite Hlfd. reflexivity.
      - rewrite Reqb_false by (destruct Hdir as [[_ Hd]|[_ Hd]]; lra). reflexivity. }
    rewrite Hc. cbn [status ST_LAST_STEP Z.leb Z.compare].
    destruct (do_step_gen (mkSt (t s) (tmax - t s) (dtld s) ST_LAST_STEP (steps s) d)) as [l' [E _]].
    rewrite E. cbn [t dt dtld status steps lfd].
    rewrite lpg_eq.
    assert (Hdir2 : dir sg (tmax - t s)) by (destruct Hdir as [[-> Hd]|[-> Hd]]; [left|right]; split; try reflexivity; lra).
    assert (Hc2 : check (mkSt (t s + (tmax - t s)) (tmax - t s) l' ST_LAST_STEP (S (steps s)) d)
                  = mkSt (t s + (tmax - t s)) (tmax - t s) l' ST_SUCCESS (S (steps s)) d).
    { unfold check_exit. cbn [status t dt dtld steps lfd Z.leb ST_LAST_STEP Z.compare].
      rewrite (dtsign_dir sg _ Hdir2). unfold geb. cbn [nltb nleb neqb nmul nadd nsub nneg none nzero RNum].
      rewrite Rleb_true by (destruct Hdir as [[-> Hd]|[-> Hd]]; lra).
      rewrite Reqb_true by lra. reflexivity. }
    rewrite Hc2. cbn [status ST_SUCCESS Z.leb Z.compare].
    exists l'. f_equal. f_equal; try lra. lia.
  - rewrite S_INR in Hrange. rewrite lpg_eq.
    assert (Hn : 0 <= INR n) by apply pos_INR.
    assert (Hc : check s = s).
    { unfold check_exit. rewrite Hst. cbn [Z.leb ST_RUNNING Z.compare Z.eqb ST_LAST_STEP].
      rewrite Hdt, (dtsign_dir sg d Hdir). unfold geb. cbn [nltb nleb neqb nmul nadd nsub nneg none nzero RNum].
      rewrite Rleb_false by (destruct Hdir as [[-> Hd]|[-> Hd]]; nra). reflexivity. }
    rewrite Hc, Hst. cbn [ST_RUNNING Z.leb Z.compare].
    destruct (do_step_gen s) as [l' [E Hl]].
    rewrite E, Hdt, Hst, Hlfd.
    set (s' := mkSt (t s + d) d l' ST_RUNNING (S (steps s)) d).
    destruct (IH s' d sg Hdir) as [dl Hl2]; subst s'; cbn [t dt dtld status steps lfd]; auto.
    + rewrite Hdt in Hl. destruct Hl as [->| ->]; [exact Hdtld|right; reflexivity].
    + destruct Hdir as [[-> Hd]|[-> Hd]]; lra.
    + exists dl. rewrite Hl2. cbn [t steps]. rewrite S_INR. f_equal. f_equal; [lra|lia].
Qed.

(* the user's dt may have either sign; integrate orients it towards tmax *)
Definition oriented (t0 dt0 : R) : R := if Rlt_dec t0 tmax then Rabs dt0 else - Rabs dt0.

Theorem exact_finish_any t0 dt0 n k :
  dt0 <> 0 -> tmax <> t0 ->
  INR n * Rabs dt0 < Rabs (tmax - t0) <= (INR n + 1) * Rabs dt0 ->
  exists dl, integ (S (S n)) t0 dt0 k
             = Some (mkSt tmax (oriented t0 dt0) dl ST_SUCCESS (k + n + 1) (oriented t0 dt0)).
Proof.
  intros Hd Hne Hr. unfold integrate, oriented. cbn [neqb nltb nabs nneg RNum quiet].
  rewrite Reqb_false by exact Hne.
  assert (Ha : 0 < Rabs dt0) by (apply Rabs_pos_lt; exact Hd).
  assert (Hn : 0 <= INR n) by apply pos_INR.
  destruct (Rlt_dec t0 tmax) as [Hlt|Hge].
  - rewrite Rltb_true by exact Hlt. rewrite (Rabs_pos_eq (tmax - t0)) in Hr by lra.
    destruct (exact_run_gen n (mkSt t0 (Rabs dt0) 0 ST_RUNNING k (Rabs dt0)) (Rabs dt0) 1) as [dl Hl];
      cbn [t dt dtld status steps lfd]; auto.
    + left; split; [reflexivity|exact Ha].
    + lra.
    + cbn [nzero RNum]. rewrite Hl. exists dl. reflexivity.
  - rewrite Rltb_false by exact Hge.
    assert (Hgt : tmax < t0) by lra.
    rewrite (Rabs_left (tmax - t0)) in Hr by lra.
    destruct (exact_run_gen n (mkSt t0 (- Rabs dt0) 0 ST_RUNNING k (- Rabs dt0)) (- Rabs dt0) (-1)) as [dl Hl];
      cbn [t dt dtld status steps lfd]; auto.
    + right; split; [reflexivity|lra].
    + lra.
    + cbn [nzero RNum]. rewrite Hl. exists dl. reflexivity.
Qed.
End Exact.

(* ------------------------------------------------------------------ without exact finishing *)
Section NonExact.
Variable tmax : R.
Local Notation check := (check_exit RNum c12 c200 tmax false false true).
Local Notation lp := (loop RNum c12 c200 stepper quiet tmax false false true).
Local Notation integ := (integrate RNum c12 c200 stepper quiet tmax false false true).

Lemma lpgn_eq fuel s :
  lp fuel s = if (0 <=? status (check s))%Z then Some (check s)
              else match fuel with O => None | S f => lp f (do_step stepper quiet (check s)) end.
Proof. destruct fuel; reflexivity. Qed.

Lemma nonexact_run_gen : forall n s d sg,
  dir sg d -> dt s = d -> status s = ST_RUNNING ->
  (forall j, (j < n)%nat -> sg * (t s + INR j * d) < sg * tmax) -> sg * tmax <= sg * (t s + INR n * d) ->
  exists dl, lp n s = Some (mkSt (t s + INR n * d) d dl ST_SUCCESS (steps s + n) (lfd s)).
Proof.
  induction n as [|n IH]; intros s d sg Hdir Hdt Hst Hlt Hge.
  - cbn [INR] in *. rewrite lpgn_eq.
    assert (Hc : check s = mkSt (t s) (dt s) (dtld s) ST_SUCCESS (steps s) (lfd s)).
    { unfold check_exit. rewrite Hst. cbn [Z.leb ST_RUNNING Z.compare].
      rewrite Hdt, (dtsign_dir sg d Hdir). unfold geb. cbn [nltb nleb neqb nmul nadd nsub nneg none nzero RNum].
      rewrite Rleb_true by (destruct Hdir as [[-> Hd]|[-> Hd]]; lra). reflexivity. }
    rewrite Hc. cbn [status ST_SUCCESS Z.leb Z.compare]. exists (dtld s). f_equal. rewrite Hdt. f_equal; [lra|lia].
  - rewrite lpgn_eq.
    assert (H0 : sg * t s < sg * tmax).
    { specialize (Hlt 0%nat ltac:(lia)). cbn [INR] in Hlt. destruct Hdir as [[-> Hd]|[-> Hd]]; lra. }
    assert (Hc : check s = s).
    { unfold check_exit. rewrite Hst. cbn [Z.leb ST_RUNNING Z.compare].
      rewrite Hdt, (dtsign_dir sg d Hdir). unfold geb. cbn [nltb nleb neqb nmul nadd nsub nneg none nzero RNum].
      rewrite Rleb_false by (destruct Hdir as [[-> Hd]|[-> Hd]]; lra). reflexivity. }
    rewrite Hc, Hst. cbn [ST_RUNNING Z.leb Z.compare].
    destruct (do_step_gen s) as [l' [E _]].
    rewrite E, Hdt, Hst.
    set (s' := mkSt (t s + d) d l' ST_RUNNING (S (steps s)) (lfd s)).
    destruct (IH s' d sg Hdir) as [dl Hl2]; subst s'; cbn [t dt dtld status steps lfd]; auto.
    + intros j Hj. specialize (Hlt (S j) ltac:(lia)). rewrite S_INR in Hlt.
      destruct Hdir as [[-> Hd]|[-> Hd]]; lra.
    + rewrite S_INR in Hge. destruct Hdir as [[-> Hd]|[-> Hd]]; lra.
    + exists dl. rewrite Hl2. cbn [t steps lfd]. rewrite S_INR. f_equal. f_equal; [lra|lia].
Qed.

Definition oriented_n (t0 dt0 : R) : R := if Rlt_dec t0 tmax then Rabs dt0 else - Rabs dt0.

(* n is the number of steps implied by the step size: (n-1)|dt| < |tmax-t0| <= n|dt| *)
Theorem nonexact_finish_any t0 dt0 n k :
  dt0 <> 0 -> tmax <> t0 ->
  (INR n - 1) * Rabs dt0 < Rabs (tmax - t0) <= INR n * Rabs dt0 ->
  exists dl, integ n t0 dt0 k
             = Some (mkSt (t0 + INR n * oriented_n t0 dt0) (oriented_n t0 dt0) dl ST_SUCCESS (k + n) (oriented_n t0 dt0)).
Proof.
  intros Hd Hne Hr. unfold integrate, oriented_n. cbn [neqb nltb nabs nneg RNum quiet].
  rewrite Reqb_false by exact Hne.
  assert (Ha : 0 < Rabs dt0) by (apply Rabs_pos_lt; exact Hd).
  assert (Hjn : forall j, (j < n)%nat -> INR j <= INR n - 1).
  { intros j Hj. assert (INR (S j) <= INR n) by (apply le_INR; lia). rewrite S_INR in H. lra. }
  destruct (Rlt_dec t0 tmax) as [Hlt|Hge].
  - rewrite Rltb_true by exact Hlt. rewrite (Rabs_pos_eq (tmax - t0)) in Hr by lra.
    destruct (nonexact_run_gen n (mkSt t0 (Rabs dt0) 0 ST_RUNNING k (Rabs dt0)) (Rabs dt0) 1) as [dl Hl];
      cbn [t dt dtld status steps lfd]; auto.
    + left; split; [reflexivity|exact Ha].
    + intros j Hj. specialize (Hjn j Hj). nra.
    + lra.
    + cbn [nzero RNum]. rewrite Hl. exists dl. reflexivity.
  - rewrite Rltb_false by exact Hge.
    assert (Hgt : tmax < t0) by lra.
    rewrite (Rabs_left (tmax - t0)) in Hr by lra.
    destruct (nonexact_run_gen n (mkSt t0 (- Rabs dt0) 0 ST_RUNNING k (- Rabs dt0)) (- Rabs dt0) (-1)) as [dl Hl];
      cbn [t dt dtld status steps lfd]; auto.
    + right; split; [reflexivity|lra].
    + intros j Hj. specialize (Hjn j Hj). nra.
    + lra.
    + cbn [nzero RNum]. rewrite Hl. exists dl. reflexivity.
Qed.
End NonExact.

(* ------------------------------------------------------------------ more fuel never changes a result *)
Lemma loop_fuel_mono tmax exact fuel : forall s r m,
  loop RNum c12 c200 stepper quiet tmax false exact true fuel s = Some r ->
  loop RNum c12 c200 stepper quiet tmax false exact true (fuel + m) s = Some r.
Proof.
  induction fuel as [|f IH]; intros s r m H.
  - rewrite (loop_eq RNum c12 c200 stepper quiet tmax exact) in H |- *.
    destruct (0 <=? status _)%Z; [exact H|discriminate].
  - rewrite (loop_eq RNum c12 c200 stepper quiet tmax exact) in H.
    rewrite (loop_eq RNum c12 c200 stepper quiet tmax exact (S f + m)).
    destruct (0 <=? status _)%Z; [exact H|].
    cbn [Nat.add]. apply IH. exact H.
Qed.

Lemma integrate_fuel_mono tmax exact fuel m t0 dt0 k r :
  integrate RNum c12 c200 stepper quiet tmax false exact true fuel t0 dt0 k = Some r ->
  integrate RNum c12 c200 stepper quiet tmax false exact true (fuel + m) t0 dt0 k = Some r.
Proof.
  unfold integrate. cbn [quiet].
  destruct (loop _ _ _ _ _ _ _ _ _ fuel _) as [s|] eqn:E; [|discriminate].
  intros H. rewrite (loop_fuel_mono _ _ _ _ _ m E). exact H.
Qed.

(* ------------------------------------------------------------------ sequences of exact-finish calls *)
(* a plan: the targets of the successive calls, each with the number n of FULL steps its call takes
   (n is determined by the distance and |dt|; see step_count_exists); a target equal to the current time is
   allowed (that call is a no-op) *)
Fixpoint plan_ok (t0 adt : R) (plan : list (R * nat)) : Prop :=
  match plan with
  | [] => True
  | (tm, n) :: rest =>
      ((tm = t0 /\ n = 0%nat) \/ (tm <> t0 /\ INR n * adt < Rabs (tm - t0) <= (INR n + 1) * adt))
      /\ plan_ok tm adt rest
  end.
Fixpoint plan_steps (t0 : R) (plan : list (R * nat)) : nat :=
  match plan with
  | [] => 0%nat
  | (tm, n) :: rest => ((if Req_EM_T tm t0 then 0 else n + 1) + plan_steps tm rest)%nat
  end.
Fixpoint plan_fuel (plan : list (R * nat)) : nat :=
  match plan with [] => 0%nat | (_, n) :: rest => Nat.max (S (S n)) (plan_fuel rest) end.

Lemma seq_fuel_mono : forall tg F m s r,
  integrate_seq RNum c12 c200 stepper quiet true F tg s = Some r ->
  integrate_seq RNum c12 c200 stepper quiet true (F + m) tg s = Some r.
Proof.
  induction tg as [|tm' tg IHt]; intros F m s r Er; [exact Er|].
  cbn [integrate_seq] in *.
  destruct (integrate RNum c12 c200 stepper quiet tm' false true true F (t s) (dt s) (steps s)) as [s2|] eqn:E2; [|discriminate].
  rewrite (integrate_fuel_mono _ _ _ m _ _ _ _ E2).
  destruct (status s2 =? 0)%Z; [apply IHt; exact Er|exact Er].
Qed.

Theorem seq_exact_finish : forall plan s,
  dt s <> 0 -> plan_ok (t s) (Rabs (dt s)) plan ->
  exists r, integrate_seq RNum c12 c200 stepper quiet true (plan_fuel plan) (map fst plan) s = Some r /\
            t r = last (map fst plan) (t s) /\ Rabs (dt r) = Rabs (dt s) /\
            steps r = (steps s + plan_steps (t s) plan)%nat /\
            (plan <> [] -> status r = ST_SUCCESS).
Proof.
  induction plan as [|[tm n] rest IH]; intros s Hd Hok.
  - exists s. cbn. repeat split; auto; try lia. intros H; contradiction.
  - cbn [plan_ok] in Hok. destruct Hok as [Hcase Hrest].
    cbn [map fst integrate_seq plan_fuel].
    assert (Hcall : exists dl d', integrate RNum c12 c200 stepper quiet tm false true true
                      (Nat.max (S (S n)) (plan_fuel rest)) (t s) (dt s) (steps s)
                    = Some (mkSt tm d' dl ST_SUCCESS (steps s + (if Req_EM_T tm (t s) then 0 else n + 1)) d')
                    /\ Rabs d' = Rabs (dt s)).
    { destruct Hcase as [[-> ->]|[Hne Hr]].
      - exists 0, (dt s). split; [|reflexivity].
        destruct (Req_EM_T (t s) (t s)) as [_|C]; [|contradiction].
        replace (steps s + 0)%nat with (steps s) by lia.
        (* no-op: holds for any stepper since no step is taken *)
        unfold integrate. cbn [neqb RNum quiet]. rewrite Reqb_true by reflexivity.
        rewrite (loop_eq RNum c12 c200 stepper quiet (t s) true).
        unfold check_exit. cbn [status t dt dtld steps lfd Z.leb ST_RUNNING Z.compare].
        unfold dtsign, geb. cbn [nltb nleb neqb nmul nadd nneg none nzero RNum].
        destruct (Rlt_dec (dt s) 0) as [Hneg|Hpos].
        + rewrite (Rltb_true (dt s) 0) by exact Hneg. rewrite Rleb_true by lra.
          rewrite Reqb_true by reflexivity. reflexivity.
        + rewrite (Rltb_false (dt s) 0) by exact Hpos. rewrite Rleb_true by lra.
          rewrite Reqb_true by reflexivity. reflexivity.
      - destruct (exact_finish_any tm (t s) (dt s) n (steps s) Hd Hne Hr) as [dl E].
        exists dl, (oriented tm (t s) (dt s)).
        destruct (Req_EM_T tm (t s)) as [C|_]; [contradiction|].
        split.
        + replace (Nat.max (S (S n)) (plan_fuel rest)) with (S (S n) + (Nat.max (S (S n)) (plan_fuel rest) - S (S n)))%nat by lia.
          apply integrate_fuel_mono. rewrite E. f_equal. f_equal. lia.
        + unfold oriented. destruct (Rlt_dec (t s) tm); [apply Rabs_Rabsolu|].
          rewrite Rabs_Ropp. apply Rabs_Rabsolu. }
    destruct Hcall as [dl [d' [E Habs]]].
    rewrite E. cbn [status ST_SUCCESS Z.eqb].
    set (s1 := mkSt tm d' dl 0%Z (steps s + (if Req_EM_T tm (t s) then 0 else n + 1)) d').
    assert (Hd1 : dt s1 <> 0).
    { subst s1. cbn [dt]. intros C. pose proof (Rabs_pos_lt _ Hd) as Hp. rewrite <- Habs, C, Rabs_R0 in Hp. lra. }
    assert (Hok1 : plan_ok (t s1) (Rabs (dt s1)) rest) by (subst s1; cbn [t dt]; rewrite Habs; exact Hrest).
    destruct (IH s1 Hd1 Hok1) as [r [Er [Ht [Hdt [Hsteps Hstat]]]]].
    exists r.
    assert (Er' : integrate_seq RNum c12 c200 stepper quiet true (Nat.max (S (S n)) (plan_fuel rest)) (map fst rest) s1 = Some r).
    { replace (Nat.max (S (S n)) (plan_fuel rest)) with (plan_fuel rest + (Nat.max (S (S n)) (plan_fuel rest) - plan_fuel rest))%nat by lia.
      apply seq_fuel_mono. exact Er. }
    split; [exact Er'|].
    subst s1. cbn [t dt steps] in *.
    split; [cbn [map fst]; rewrite last_cons_default; exact Ht|].
    split; [rewrite Hdt; exact Habs|].
    split; [cbn [plan_steps]; lia|].
    intros _. destruct rest as [|p rest2].
    + cbn in Er. inversion Er. reflexivity.
    + apply Hstat. discriminate.
Qed.

End Gen.

(* the step count n of a plan entry always exists (and is unique): the hypotheses of the theorems above
   restrict nothing *)
Lemma step_count_exists (x a : R) : 0 < a -> 0 < x -> exists n, INR n * a < x <= (INR n + 1) * a.
Proof.
  intros Ha Hx.
  assert (Hq : 0 < x / a) by (apply Rdiv_lt_0_compat; assumption).
  destruct (archimed (x / a)) as [Hup1 Hup2].
  set (z := up (x / a)) in *.
  assert (Hz : (0 < z)%Z). { apply lt_IZR. lra. }
  (* z - 1 <= x/a < z *)
  destruct (Req_EM_T (x / a) (IZR z - 1)) as [Heq|Hneq].
  - (* x/a = z-1 exactly: n = z-2, provided z >= 2 *)
    assert (Hz2 : (2 <= z)%Z). { apply le_IZR. assert (0 < IZR z - 1) by lra. assert (1 < IZR z) by lra.
      apply lt_IZR in H0. apply IZR_le. lia. }
    exists (Z.to_nat (z - 2)). rewrite INR_IZR_INZ, Z2Nat.id by lia. rewrite minus_IZR.
    assert (x = (IZR z - 1) * a). { rewrite <- Heq. field. lra. }
    rewrite H. split; nra.
  - exists (Z.to_nat (z - 1)). rewrite INR_IZR_INZ, Z2Nat.id by lia. rewrite minus_IZR.
    assert (Hx' : x = (x / a) * a) by (field; lra).
    assert (IZR z - 1 < x / a) by lra.
    split; rewrite Hx' at 1.
    + apply Rmult_lt_compat_r; lra.
    + replace (IZR z - 1 + 1) with (IZR z) by lra. apply Rmult_le_compat_r; lra.
Qed.

(* ------------------------------------------------------------------ time never moves against the direction *)
(* the times at the step boundaries visited by one call (the state is examined by check_exit at each of them) *)
Section Trace.
Variable stepper : R -> R -> R -> R * R * R.
Hypothesis Hstep : stepper_ok stepper.
Let c12 : R := 1 / 1000000000000.
Let c200 : R := c12 / 10 ^ 188.
Let quiet : nat -> option Z := fun _ => None.
Variable tmax : R.
Variable exact : bool.

Fixpoint loop_ts (fuel : nat) (s : @st R) : list R :=
  let s1 := check_exit RNum c12 c200 tmax false exact true s in
  if (0 <=? status s1)%Z then [t s1]
  else match fuel with
       | O => [t s1]
       | S f => t s1 :: loop_ts f (do_step stepper quiet s1)
       end.

Fixpoint mono (sg : R) (l : list R) : Prop :=
  match l with
  | a :: ((b :: _) as r) => sg * a <= sg * b /\ mono sg r
  | _ => True
  end.

Lemma loop_ts_eq fuel s :
  loop_ts fuel s = let s1 := check_exit RNum c12 c200 tmax false exact true s in
                   if (0 <=? status s1)%Z then [t s1]
                   else match fuel with O => [t s1] | S f => t s1 :: loop_ts f (do_step stepper quiet s1) end.
Proof. destruct fuel; reflexivity. Qed.

Lemma loop_ts_hd fuel s : exists r, loop_ts fuel s = t s :: r.
Proof.
  rewrite loop_ts_eq. cbv zeta. rewrite (check_t RNum c12 c200 tmax exact s).
  destruct (0 <=? status _)%Z; [exists []; reflexivity|].
  destruct fuel; [exists []; reflexivity|]. eexists. reflexivity.
Qed.

(* Invariant of a run in direction sg: dt points in direction sg, OR the target has been reached.
   check_exit changes dt only to tmax - t in the branch where the next step would overshoot and t <> tmax, where
   sg*(tmax - t) > 0 provided t has not passed tmax: sg*t <= sg*tmax is part of the invariant. *)
Definition inv (sg : R) (s : @st R) : Prop :=
  (status s < 0)%Z /\ dir sg (dt s) /\ sg * t s <= sg * tmax.

Lemma check_keeps_dir sg s : inv sg s ->
  let s1 := check_exit RNum c12 c200 tmax false exact true s in
  t s1 = t s /\ ((0 <= status s1)%Z \/ (inv sg s1 /\ sg * (t s1 + dt s1) <= sg * tmax \/ inv sg s1 /\ exact = false)).
Proof.
  intros (Hst & Hdir & Hle). cbv zeta. split; [apply (check_t RNum c12 c200 tmax exact s)|].
  unfold check_exit. apply Z.leb_gt in Hst. rewrite Hst.
  rewrite (dtsign_dir sg (dt s) Hdir). unfold geb. cbn [nltb nleb neqb nmul nadd nsub nabs nneg none nzero RNum].
  apply Z.leb_gt in Hst.
  destruct exact.
  - destruct (Rleb (tmax * sg) ((t s + dt s) * sg)) eqn:E1.
    + destruct (Reqb (t s) tmax) eqn:E2; [left; cbn; unfold ST_SUCCESS; lia|].
      assert (Hne : t s <> tmax) by (unfold Reqb in E2; destruct (Req_EM_T (t s) tmax); [discriminate|assumption]).
      assert (Hlt2 : sg * t s < sg * tmax).
      { destruct (Rle_lt_or_eq_dec _ _ Hle) as [H|H]; [exact H|]. exfalso. apply Hne.
        destruct Hdir as [[-> _]|[-> _]]; lra. }
      assert (Hd2 : dir sg (tmax - t s)).
      { destruct Hdir as [[-> Hd]|[-> Hd]]; [left|right]; split; try reflexivity; lra. }
      destruct (status s =? ST_LAST_STEP)%Z.
      * destruct (Rltb _ _); [left; cbn; unfold ST_SUCCESS; lia|].
        right. left. cbn [t dt status]. split; [split; [exact Hst|split; [exact Hd2|exact Hle]]|].
        destruct Hdir as [[-> Hd]|[-> Hd]]; lra.
      * right. left. cbn [t dt status]. split; [split; [reflexivity|split; [exact Hd2|exact Hle]]|].
        destruct Hdir as [[-> Hd]|[-> Hd]]; lra.
    + assert (Hlt : sg * (t s + dt s) <= sg * tmax).
      { unfold Rleb in E1. destruct (Rle_dec (tmax * sg) ((t s + dt s) * sg)); [discriminate|]. lra. }
      destruct (status s =? ST_LAST_STEP)%Z; right; left; cbn [t dt status].
      * split; [split; [reflexivity|split; [exact Hdir|exact Hle]]|exact Hlt].
      * split; [split; [exact Hst|split; [exact Hdir|exact Hle]]|exact Hlt].
  - destruct (Rleb (tmax * sg) (t s * sg)); [left; cbn; unfold ST_SUCCESS; lia|].
    right. right. split; [split; [exact Hst|split; [exact Hdir|exact Hle]]|reflexivity].
Qed.

(* with exact finishing every boundary lies between the start and tmax and they are visited in order; without it the
   boundaries are visited in order (the last one may lie beyond tmax) *)
Theorem loop_ts_monotone : forall fuel sg s, inv sg s -> mono sg (loop_ts fuel s).
Proof.
  induction fuel as [|f IH]; intros sg s Hinv.
  - rewrite loop_ts_eq. cbv zeta. destruct (0 <=? status _)%Z; exact I.
  - rewrite loop_ts_eq. cbv zeta.
    destruct (check_keeps_dir sg s Hinv) as [Ht Hc]. cbv zeta in Ht, Hc.
    set (s1 := check_exit RNum c12 c200 tmax false exact true s) in *.
    destruct (0 <=? status s1)%Z eqn:E; [exact I|].
    apply Z.leb_gt in E.
    destruct (do_step_gen stepper Hstep s1) as [l' [Es _]].
    unfold quiet. rewrite Es. fold quiet.
    set (s2 := mkSt (t s1 + dt s1) (dt s1) l' (status s1) (S (steps s1)) (lfd s1)).
    destruct (loop_ts_hd f s2) as [r Er].
    assert (Hhead : forall P : Prop, (sg * t s1 <= sg * t s2) -> mono sg (loop_ts f s2) -> mono sg (t s1 :: loop_ts f s2)).
    { intros _ H1 H2. rewrite Er in H2 |- *. cbn [mono]. split; assumption. }
    destruct Hc as [Hc|[[Hi Hle]|[Hi He]]]; [lia| |].
    + destruct Hi as (Hs1 & Hd1 & Hl1).
      apply (Hhead True); [subst s2; cbn [t]; destruct Hd1 as [[-> Hd]|[-> Hd]]; lra|].
      apply IH. subst s2. repeat split; cbn [status dt t]; [exact Hs1|exact Hd1|exact Hle].
    + destruct Hi as (Hs1 & Hd1 & Hl1).
      apply (Hhead True); [subst s2; cbn [t]; destruct Hd1 as [[-> Hd]|[-> Hd]]; lra|].
      (* without exact finishing the state after the step may lie beyond tmax: the next check then stops *)
      destruct (Rle_dec (sg * (t s1 + dt s1)) (sg * tmax)) as [Hin|Hout].
      * apply IH. subst s2. repeat split; cbn [status dt t]; assumption.
      * rewrite loop_ts_eq. cbv zeta.
        assert (Hstop : (0 <=? status (check_exit RNum c12 c200 tmax false exact true s2))%Z = true).
        { subst s2. unfold check_exit. rewrite He. cbn [status t dt]. apply Z.leb_gt in Hs1. rewrite Hs1.
          rewrite (dtsign_dir sg (dt s1) Hd1). unfold geb. cbn [nleb nmul RNum].
          rewrite Rleb_true by lra. reflexivity. }
        rewrite Hstop. exact I.
Qed.
End Trace.
