(* C08 proofs.  Part 1 is structural: it holds for EVERY arithmetic instance (in particular binary64)
   and every stepper, because it only follows the control flow of reb_check_exit / integrate_raw. *)
From Coq Require Import ZArith List Bool Lia.
From RV Require Import Common.Num C08.Model.
Import ListNotations.

Section Structural.
Context {T : Type} (N : Num T).
Context (c1em12 c1em200 : T).
Context (stepper : T -> T -> T -> T * T * T).
Context (hb : nat -> option Z).
Context (tmax : T) (exact : bool).

Local Notation check := (check_exit N c1em12 c1em200 tmax false exact true).
Local Notation lp := (loop N c1em12 c1em200 stepper hb tmax false exact true).
Local Notation dostep := (do_step stepper hb).

Lemma loop_eq fuel s :
  lp fuel s = if (0 <=? status (check s))%Z then Some (check s)
              else match fuel with O => None | S f => lp f (dostep (check s)) end.
Proof. destruct fuel; reflexivity. Qed.

(* "within the fuzz of the target": exactly what the code tests *)
Definition tscale : T :=
  let tscale0 := nmul N c1em12 (nabs N tmax) in
  if nltb N tscale0 c1em200 then c1em12 else tscale0.
Definition close (x : T) : Prop :=
  neqb N x tmax = true \/ nltb N (nabs N (nsub N x tmax)) tscale = true.

Lemma check_t s : t (check s) = t s.
Proof.
  unfold check_exit. repeat match goal with |- context [if ?b then _ else _] => destruct b end; reflexivity.
Qed.

Lemma check_steps s : steps (check s) = steps s.
Proof.
  unfold check_exit. repeat match goal with |- context [if ?b then _ else _] => destruct b end; reflexivity.
Qed.

(* SUCCESS is only ever assigned next to the target *)
Lemma check_success s :
  exact = true -> status s <> 0%Z -> status (check s) = 0%Z -> close (t s).
Proof.
  intros He Hs. subst exact. unfold check_exit, close, tscale.
  destruct (0 <=? status s)%Z eqn:E0; cbn [status].
  { intros H. apply Z.leb_le in E0. lia. }
  apply Z.leb_gt in E0.
  destruct (geb N _ _) eqn:E1.
  - destruct (neqb N (t s) tmax) eqn:E2; cbn [status]; [intros _; left; reflexivity|].
    destruct (status s =? ST_LAST_STEP)%Z eqn:E3.
    + destruct (nltb N (nmul N c1em12 (nabs N tmax)) c1em200) eqn:E4;
        destruct (nltb N (nabs N (nsub N (t s) tmax)) _) eqn:E5; cbn [status]; intros H;
        solve [right; reflexivity | lia].
    + cbn [status]. unfold ST_LAST_STEP. intros H; lia.
  - destruct (status s =? ST_LAST_STEP)%Z eqn:E3; cbn [status]; unfold ST_RUNNING; intros H; lia.
Qed.

Lemma check_status_nonneg_keeps s : (0 <= status s)%Z -> check s = s.
Proof. intros H. unfold check_exit. apply Z.leb_le in H. rewrite H. reflexivity. Qed.

(* the time-based logic never produces an error/exit code *)
Lemma check_neg_nonpos s : (status s < 0)%Z -> (status (check s) <= 0)%Z.
Proof.
  intros Hs. unfold check_exit. destruct (0 <=? status s)%Z eqn:E0; [apply Z.leb_le in E0; lia|].
  destruct exact.
  - repeat match goal with |- context [if ?b then _ else _] => destruct b end; cbn [status];
      unfold ST_SUCCESS, ST_LAST_STEP, ST_RUNNING; lia.
  - repeat match goal with |- context [if ?b then _ else _] => destruct b end; cbn [status];
      unfold ST_SUCCESS; lia.
Qed.

(* events raised at step boundaries are error/exit codes > 0 *)
Definition events_positive : Prop := forall k c, hb k = Some c -> (0 < c)%Z.

Lemma dostep_status s : events_positive -> (status s < 0)%Z -> status (dostep s) <> 0%Z.
Proof.
  intros Hev Hs. unfold do_step. destruct (stepper _ _ _) as [[t' dt'] dtld'].
  cbn [status]. destruct (hb (S (steps s))) as [c|] eqn:E; [apply Hev in E; lia|lia].
Qed.

Opaque check_exit.

Theorem loop_success_close : forall fuel s r,
  exact = true -> events_positive -> status s <> 0%Z ->
  lp fuel s = Some r -> status r = 0%Z -> close (t r).
Proof.
  induction fuel as [|f IH]; intros s r He Hev Hs H Hr; rewrite loop_eq in H.
  - destruct (0 <=? status (check s))%Z eqn:E; [|discriminate]. injection H as <-.
    rewrite check_t. apply check_success; auto.
  - destruct (0 <=? status (check s))%Z eqn:E.
    + injection H as <-. rewrite check_t. apply check_success; auto.
    + apply Z.leb_gt in E. apply (IH (dostep (check s)) r He Hev); [apply dostep_status; auto|exact H|exact Hr].
Qed.

Lemma loop_nonneg fuel s : (0 <= status s)%Z -> lp fuel s = Some s.
Proof.
  intros H. rewrite loop_eq. rewrite check_status_nonneg_keeps by exact H.
  apply Z.leb_le in H; rewrite H; reflexivity.
Qed.

(* The status returned names the FIRST step boundary of this call at which an exit condition was
   raised: an exit code c > 0 is returned at the boundary k that raised it (hb k = Some c) and no
   boundary before k raised anything. *)
Theorem loop_first_event : forall fuel s r,
  events_positive -> (status s < 0)%Z ->
  lp fuel s = Some r -> (0 < status r)%Z ->
  hb (steps r) = Some (status r) /\ (steps s < steps r)%nat /\
  forall j, (steps s < j)%nat /\ (j < steps r)%nat -> hb j = None.
Proof.
  induction fuel as [|f IH]; intros s r Hev Hs H Hr; rewrite loop_eq in H.
  - destruct (0 <=? status (check s))%Z eqn:E; [|discriminate]. injection H as <-.
    pose proof (check_neg_nonpos s Hs). lia.
  - destruct (0 <=? status (check s))%Z eqn:E.
    + injection H as <-. pose proof (check_neg_nonpos s Hs). lia.
    + apply Z.leb_gt in E.
      assert (Hst : steps (dostep (check s)) = S (steps s)).
      { unfold do_step. destruct (stepper _ _ _) as [[t' dt'] dtld']. cbn [steps]. rewrite check_steps. reflexivity. }
      destruct (hb (S (steps s))) as [c|] eqn:Eh.
      * assert (Hc : status (dostep (check s)) = c).
        { unfold do_step. destruct (stepper _ _ _) as [[t' dt'] dtld']. cbn [status]. rewrite check_steps, Eh. reflexivity. }
        pose proof (Hev _ _ Eh) as Hpos.
        rewrite loop_nonneg in H by lia. injection H as <-.
        rewrite Hst, Hc. split; [exact Eh|]. split; [lia|]. intros j Hj. lia.
      * assert (Hc : status (dostep (check s)) = status (check s)).
        { unfold do_step. destruct (stepper _ _ _) as [[t' dt'] dtld']. cbn [status]. rewrite check_steps, Eh. reflexivity. }
        assert (Hneg : (status (dostep (check s)) < 0)%Z) by lia.
        destruct (IH (dostep (check s)) r Hev Hneg H Hr) as (I1 & I2 & I3).
        split; [exact I1|]. split; [lia|]. intros j Hj.
        destruct (Nat.eq_dec j (S (steps s))) as [->|Hne]; [exact Eh|]. apply I3. lia.
Qed.

(* integrate(): when it reports SUCCESS with exact finishing requested, the time is at the target or
   within the code's fuzz of it -- for every arithmetic (binary64 included), every stepper, every
   sequence of boundary events, every starting state. *)
Theorem integrate_success_close fuel t0 dt0 k r :
  exact = true -> events_positive ->
  integrate N c1em12 c1em200 stepper hb tmax false exact true fuel t0 dt0 k = Some r ->
  status r = 0%Z -> close (t r).
Proof.
  intros He Hev H Hr. unfold integrate in H.
  set (dt1 := if neqb N tmax t0 then dt0 else if nltb N t0 tmax then nabs N dt0 else nneg N (nabs N dt0)) in *.
  set (s0 := match hb k with
             | Some c => mkSt t0 dt1 (nzero N) c k dt1
             | None => mkSt t0 dt1 (nzero N) ST_RUNNING k dt1 end) in *.
  destruct (lp fuel s0) as [s|] eqn:E; [|discriminate].
  injection H as <-. rewrite He in Hr |- *. cbn [t status] in *.
  apply (loop_success_close fuel s0 s He Hev); auto.
  unfold s0. destruct (hb k) as [c|] eqn:Eh; cbn [status]; [apply Hev in Eh; lia|unfold ST_RUNNING; lia].
Qed.
Transparent check_exit.
End Structural.
