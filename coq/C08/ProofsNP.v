(* C08: the "no particles" exit condition as part of the history.  Structural (every arithmetic, every stepper):
   - the loops of Model.v are the np = (fun _ => true) instances of loop_np / integrate_np / integrate_seq_np;
   - loop_np stops at the FIRST boundary at which the simulation is empty, and then returns NO_PARTICLES whatever
     else became true at that boundary (the target reached, an exit code raised by the heartbeat);
   - at a boundary that still holds particles the outcome is the one of the particle-free model. *)
From Coq Require Import ZArith List Bool Lia.
From RV Require Import Common.Num C08.Model C08.Proofs.
Import ListNotations.

Section NP.
Context {T : Type} (N : Num T).
Context (c1em12 c1em200 : T).
Context (stepper : T -> T -> T -> T * T * T).
Context (hb : nat -> option Z) (np : nat -> bool).
Context (tmax : T) (exact : bool).

Local Notation checkb := (check_exit N c1em12 c1em200 tmax false exact).
Local Notation lpn := (loop_np N c1em12 c1em200 stepper hb np tmax false exact).
Local Notation lp := (loop N c1em12 c1em200 stepper hb tmax false exact true).
Local Notation dostep := (do_step stepper hb).

Lemma loop_np_eq fuel s :
  lpn fuel s = if (0 <=? status (checkb (np (steps s)) s))%Z then Some (checkb (np (steps s)) s)
               else match fuel with O => None | S f => lpn f (dostep (checkb (np (steps s)) s)) end.
Proof. destruct fuel; reflexivity. Qed.

Lemma checkb_false_status s : status (checkb false s) = ST_NO_PARTICLES.
Proof. unfold check_exit. reflexivity. Qed.

Lemma checkb_steps b s : steps (checkb b s) = steps s.
Proof.
  destruct b; [apply (check_steps N c1em12 c1em200 tmax exact)|].
  pose proof (check_steps N c1em12 c1em200 tmax exact s) as H.
  unfold check_exit in *. cbn [steps] in *. exact H.
Qed.

Lemma dostep_steps s : steps (dostep s) = S (steps s).
Proof. unfold do_step. destruct (stepper _ _ _) as [[t' dt'] dtld']. reflexivity. Qed.

(* with particles at every boundary the general loop is the loop of the particle-free model *)
Lemma loop_np_all_true : (forall k, np k = true) -> forall fuel s, lpn fuel s = lp fuel s.
Proof.
  intros Hnp. induction fuel as [|f IH]; intros s; cbn [loop_np loop]; rewrite Hnp; [reflexivity|].
  destruct (0 <=? status _)%Z; [reflexivity|apply IH].
Qed.

(* the loop stops at the FIRST empty boundary: every boundary it went past held particles; and the boundary at which
   it returned decides the outcome: empty => NO_PARTICLES (overriding SUCCESS and every exit code of that boundary) *)
Theorem loop_np_first_empty : forall fuel s r,
  lpn fuel s = Some r ->
  (steps s <= steps r)%nat /\
  (forall j, (steps s <= j)%nat /\ (j < steps r)%nat -> np j = true) /\
  (np (steps r) = false -> status r = ST_NO_PARTICLES).
Proof.
  induction fuel as [|f IH]; intros s r H; rewrite loop_np_eq in H.
  - destruct (0 <=? status _)%Z eqn:E; [|discriminate]. injection H as <-.
    rewrite checkb_steps. split; [lia|]. split; [intros j Hj; lia|].
    intros Hn. rewrite Hn. apply checkb_false_status.
  - destruct (0 <=? status _)%Z eqn:E.
    + injection H as <-. rewrite checkb_steps. split; [lia|]. split; [intros j Hj; lia|].
      intros Hn. rewrite Hn. apply checkb_false_status.
    + assert (Hp : np (steps s) = true).
      { destruct (np (steps s)) eqn:En; [reflexivity|]. rewrite checkb_false_status in E. discriminate. }
      destruct (IH _ _ H) as (I1 & I2 & I3).
      rewrite dostep_steps, checkb_steps in I1, I2.
      split; [lia|]. split; [|exact I3].
      intros j Hj. destruct (Nat.eq_dec j (steps s)) as [->|Hne]; [exact Hp|]. apply I2. lia.
Qed.

(* ... and when the boundary of return still holds particles, the run is a run of the particle-free model *)
Theorem loop_np_nonempty_is_plain : forall fuel s r,
  lpn fuel s = Some r -> np (steps r) = true -> lp fuel s = Some r.
Proof.
  induction fuel as [|f IH]; intros s r H Hn; rewrite loop_np_eq in H;
    rewrite (loop_eq N c1em12 c1em200 stepper hb tmax exact).
  - destruct (0 <=? status (checkb (np (steps s)) s))%Z eqn:E; [|discriminate]. injection H as <-.
    rewrite checkb_steps in Hn. rewrite Hn in *. rewrite E. reflexivity.
  - destruct (0 <=? status (checkb (np (steps s)) s))%Z eqn:E.
    + injection H as <-. rewrite checkb_steps in Hn. rewrite Hn in *. rewrite E. reflexivity.
    + assert (Hp : np (steps s) = true).
      { destruct (np (steps s)) eqn:En; [reflexivity|]. rewrite checkb_false_status in E. discriminate. }
      rewrite Hp in *. rewrite E. apply IH; assumption.
Qed.

(* the status of a call: a positive status is NO_PARTICLES raised by the first empty boundary, or the exit code the
   heartbeat raised at the boundary where the loop stopped with no earlier boundary raising anything (Proofs.v) *)
Theorem loop_np_status : forall fuel s r,
  events_positive hb -> (status s < 0)%Z ->
  lpn fuel s = Some r -> (0 < status r)%Z ->
  (np (steps r) = false /\ status r = ST_NO_PARTICLES) \/
  (np (steps r) = true /\ hb (steps r) = Some (status r) /\ (steps s < steps r)%nat /\
   forall j, (steps s < j)%nat /\ (j < steps r)%nat -> hb j = None).
Proof.
  intros fuel s r Hev Hs H Hr.
  destruct (np (steps r)) eqn:En.
  - right. split; [reflexivity|].
    apply (loop_first_event N c1em12 c1em200 stepper hb tmax exact fuel s r Hev Hs); [|exact Hr].
    apply loop_np_nonempty_is_plain; assumption.
  - left. split; [reflexivity|]. apply (loop_np_first_empty fuel s r H). exact En.
Qed.
End NP.

(* integrate / integrate_seq are the all-particles instances, away from the degenerate arguments that integrate_np
   refuses (zero or NaN step, NaN target) *)
Lemma integrate_np_all_true {T} (N : Num T) c1 c2 stepper hb np tmax exact fuel t0 dt0 k :
  (forall j, np j = true) -> degenerate N tmax t0 dt0 = false ->
  integrate_np N c1 c2 stepper hb np tmax false exact fuel t0 dt0 k
  = integrate N c1 c2 stepper hb tmax false exact true fuel t0 dt0 k.
Proof.
  intros Hnp Hd. unfold integrate_np, integrate. rewrite Hd.
  rewrite loop_np_all_true by exact Hnp. reflexivity.
Qed.

(* integrate(): an empty simulation at the boundary where the call returns is reported as NO_PARTICLES -- in
   particular when that boundary is also the target (integrating to the current time included: no step is taken) *)
Theorem integrate_np_empty_reported {T} (N : Num T) c1 c2 stepper hb np tmax exact fuel t0 dt0 k r :
  integrate_np N c1 c2 stepper hb np tmax false exact fuel t0 dt0 k = Some r ->
  (k <= steps r)%nat /\ (forall j, (k <= j)%nat /\ (j < steps r)%nat -> np j = true) /\
  (np (steps r) = false -> status r = ST_NO_PARTICLES).
Proof.
  unfold integrate_np. destruct (degenerate N tmax t0 dt0).
  { intros H. injection H as <-. cbn [steps status]. split; [lia|]. split; [intros j Hj; lia|].
    intros Hn. rewrite Hn. reflexivity. }
  intros H.
  match type of H with match loop_np _ _ _ _ _ _ _ _ _ ?f ?s0 with _ => _ end = _ => 
    destruct (loop_np N c1 c2 stepper hb np tmax false exact f s0) as [s|] eqn:E; [|discriminate];
    assert (Hk : steps s0 = k) by (destruct (hb k); reflexivity) end.
  destruct (loop_np_first_empty N c1 c2 stepper hb np tmax exact _ _ _ E) as (I1 & I2 & I3).
  rewrite Hk in I1, I2.
  injection H as <-. destruct exact; cbn [steps status]; auto.
Qed.

(* degenerate arguments: the call returns at once, whatever the fuel: no step, time untouched, an error status *)
Theorem integrate_np_degenerate {T} (N : Num T) c1 c2 stepper hb np tmax exact fuel t0 dt0 k :
  degenerate N tmax t0 dt0 = true ->
  exists r, integrate_np N c1 c2 stepper hb np tmax false exact fuel t0 dt0 k = Some r /\
            steps r = k /\ t r = t0 /\ (0 < status r)%Z /\
            (np k = true -> status r = ST_GENERIC_ERROR).
Proof.
  intros Hd. unfold integrate_np. rewrite Hd. eexists. split; [reflexivity|]. cbn [steps t status].
  repeat split; destruct (np k); unfold ST_GENERIC_ERROR, ST_NO_PARTICLES; try lia; try reflexivity; discriminate.
Qed.

(* sequences of calls: the same, when no call of the (particle-free) run is entered with degenerate arguments *)
Section SeqPlain.
Context {T : Type} (N : Num T) (c1 c2 : T) (stepper : T -> T -> T -> T * T * T) (hb : nat -> option Z) (exact : bool).
Fixpoint nondeg_seq (fuel : nat) (targets : list T) (s : @st T) : Prop :=
  match targets with
  | [] => True
  | tm :: rest =>
      degenerate N tm (t s) (dt s) = false /\
      match integrate N c1 c2 stepper hb tm false exact true fuel (t s) (dt s) (steps s) with
      | Some s1 => if (status s1 =? 0)%Z then nondeg_seq fuel rest s1 else True
      | None => True
      end
  end.
Lemma integrate_seq_np_all_true np fuel :
  (forall j, np j = true) -> forall targets s, nondeg_seq fuel targets s ->
  integrate_seq_np N c1 c2 stepper hb np exact fuel targets s = integrate_seq N c1 c2 stepper hb exact fuel targets s.
Proof.
  intros Hnp. induction targets as [|tm rest IH]; intros s Hnd; cbn [integrate_seq_np integrate_seq]; [reflexivity|].
  cbn [nondeg_seq] in Hnd. destruct Hnd as [Hd Hrest].
  rewrite integrate_np_all_true by assumption.
  destruct (integrate _ _ _ _ _ _ _ _ _ _ _ _ _) as [s1|]; [|reflexivity].
  destruct (status s1 =? 0)%Z; [apply IH; exact Hrest|reflexivity].
Qed.
End SeqPlain.
