(* C08 proofs over the Coq reals (exact arithmetic) for a fixed-step integrator that advances
   t += dt (step_full): no-op at the target, exact finishing, step count, step size restored. *)
From Coq Require Import ZArith List Bool Lia Reals Lra.
From RV Require Import Common.Num Common.RealNum C08.Model.
Import ListNotations.
Open Scope R_scope.

Lemma Rltb_true a b : a < b -> Rltb a b = true.
Proof. intros. unfold Rltb. destruct (Rlt_dec a b); [reflexivity|lra]. Qed.
Lemma Rltb_false a b : ~ a < b -> Rltb a b = false.
Proof. intros. unfold Rltb. destruct (Rlt_dec a b); [lra|reflexivity]. Qed.
Lemma Rleb_true a b : a <= b -> Rleb a b = true.
Proof. intros. unfold Rleb. destruct (Rle_dec a b); [reflexivity|lra]. Qed.
Lemma Rleb_false a b : ~ a <= b -> Rleb a b = false.
Proof. intros. unfold Rleb. destruct (Rle_dec a b); [lra|reflexivity]. Qed.
Lemma Reqb_true a b : a = b -> Reqb a b = true.
Proof. intros. unfold Reqb. destruct (Req_EM_T a b); [reflexivity|lra]. Qed.
Lemma Reqb_false a b : a <> b -> Reqb a b = false.
Proof. intros. unfold Reqb. destruct (Req_EM_T a b); [lra|reflexivity]. Qed.

Section RealRuns.
Variable tmax : R.
Variable exact : bool.
Let c12 : R := 1 / 1000000000000.
Let c200 : R := c12 / 10 ^ 188.
Let quiet : nat -> option Z := fun _ => None.

Local Notation check := (check_exit RNum c12 c200 tmax false exact true).
Local Notation lp := (loop RNum c12 c200 (step_full RNum) quiet tmax false exact true).
Local Notation integ := (integrate RNum c12 c200 (step_full RNum) quiet tmax false exact true).

Lemma lp_eq fuel s :
  lp fuel s = if (0 <=? status (check s))%Z then Some (check s)
              else match fuel with O => None | S f => lp f (do_step (step_full RNum) quiet (check s)) end.
Proof. destruct fuel; reflexivity. Qed.

(* ---- integrating to the current time is a no-op: no step, t and dt unchanged (dt_last_done is reset to 0) *)
Theorem noop_at_target fuel dt0 k :
  integ fuel tmax dt0 k = Some (mkSt tmax dt0 0 ST_SUCCESS k dt0).
Proof.
  unfold integrate. cbn [neqb RNum]. rewrite Reqb_true by reflexivity. cbn [quiet].
  rewrite lp_eq. unfold check_exit. cbn [status t dt dtld steps lfd Z.leb ST_RUNNING Z.compare].
  unfold dtsign, geb. cbn [nltb nleb neqb nmul nadd nneg none nzero RNum].
  destruct exact.
  - destruct (Rlt_dec dt0 0) as [Hneg|Hpos].
    + rewrite (Rltb_true dt0 0) by exact Hneg. rewrite Rleb_true by lra.
      rewrite Reqb_true by reflexivity. reflexivity.
    + rewrite (Rltb_false dt0 0) by exact Hpos. rewrite Rleb_true by lra.
      rewrite Reqb_true by reflexivity. reflexivity.
  - destruct (Rlt_dec dt0 0) as [Hneg|Hpos].
    + rewrite (Rltb_true dt0 0) by exact Hneg. rewrite Rleb_true by lra. reflexivity.
    + rewrite (Rltb_false dt0 0) by exact Hpos. rewrite Rleb_true by lra. reflexivity.
Qed.

End RealRuns.

Section ExactRuns.
Variable tmax : R.
Let c12 : R := 1 / 1000000000000.
Let c200 : R := c12 / 10 ^ 188.
Let quiet : nat -> option Z := fun _ => None.
Local Notation check := (check_exit RNum c12 c200 tmax false true true).
Local Notation lp := (loop RNum c12 c200 (step_full RNum) quiet tmax false true true).
Local Notation integ := (integrate RNum c12 c200 (step_full RNum) quiet tmax false true true).

Lemma lpx_eq fuel s :
  lp fuel s = if (0 <=? status (check s))%Z then Some (check s)
              else match fuel with O => None | S f => lp f (do_step (step_full RNum) quiet (check s)) end.
Proof. destruct fuel; reflexivity. Qed.

(* ---- exact finishing with a fixed step d > 0: n full steps, one shortened step, lands exactly on tmax,
   n+1 steps in total where n is determined by  t0 + n d < tmax <= t0 + (n+1) d ; dt restored to d *)
Lemma exact_run_aux : forall n s d,
  0 < d -> dt s = d -> lfd s = d -> (dtld s = 0 \/ dtld s = d) -> status s = ST_RUNNING ->
  t s + INR n * d < tmax <= t s + (INR n + 1) * d ->
  exists dl, lp (S (S n)) s = Some (mkSt tmax (tmax - (t s + INR n * d)) dl ST_SUCCESS (steps s + n + 1) d).
Proof.
  induction n as [|n IH]; intros s d Hd Hdt Hlfd Hdtld Hst Hrange.
  - (* the next step would overshoot: LAST_STEP, dt := tmax - t, step, SUCCESS *)
    cbn [INR] in *. rewrite lpx_eq.
    assert (Hc : check s = mkSt (t s) (tmax - t s) (dtld s) ST_LAST_STEP (steps s) d).
    { unfold check_exit. rewrite Hst. cbn [Z.leb ST_RUNNING Z.compare Z.eqb ST_LAST_STEP].
      unfold dtsign, geb. cbn [nltb nleb neqb nmul nadd nsub nneg none nzero RNum]. rewrite Hdt.
      rewrite (Rltb_false d 0) by lra. rewrite Rleb_true by lra. rewrite Reqb_false by lra.
      destruct Hdtld as [H0|H0]; rewrite H0.
      - rewrite Reqb_true by reflexivity. rewrite Hlfd. reflexivity.
      - rewrite Reqb_false by lra. reflexivity. }
    rewrite Hc. cbn [status ST_LAST_STEP Z.leb Z.compare].
    unfold do_step, step_full. cbn [t dt dtld status steps lfd quiet nadd RNum].
    rewrite lpx_eq.
    assert (Hc2 : check (mkSt (t s + (tmax - t s)) (tmax - t s) (tmax - t s) ST_LAST_STEP (S (steps s)) d)
                  = mkSt (t s + (tmax - t s)) (tmax - t s) (tmax - t s) ST_SUCCESS (S (steps s)) d).
    { unfold check_exit. cbn [status t dt dtld steps lfd Z.leb ST_LAST_STEP Z.compare].
      unfold dtsign, geb. cbn [nltb nleb neqb nmul nadd nsub nneg none nzero RNum].
      rewrite (Rltb_false (tmax - t s) 0) by lra. rewrite Rleb_true by lra.
      rewrite Reqb_true by lra. reflexivity. }
    rewrite Hc2. cbn [status ST_SUCCESS Z.leb Z.compare].
    exists (tmax - t s). f_equal. f_equal; try lra. lia.
  - (* a full step fits *)
    rewrite S_INR in Hrange. rewrite lpx_eq.
    assert (Hc : check s = s).
    { unfold check_exit. rewrite Hst. cbn [Z.leb ST_RUNNING Z.compare Z.eqb ST_LAST_STEP].
      unfold dtsign, geb. cbn [nltb nleb neqb nmul nadd nsub nneg none nzero RNum]. rewrite Hdt.
      rewrite (Rltb_false d 0) by lra.
      assert (0 <= INR n) by apply pos_INR.
      rewrite Rleb_false by nra. reflexivity. }
    rewrite Hc, Hst. cbn [ST_RUNNING Z.leb Z.compare].
    set (s' := do_step (step_full RNum) quiet s).
    assert (Hs' : s' = mkSt (t s + d) d d ST_RUNNING (S (steps s)) d).
    { unfold s', do_step, step_full. cbn [quiet nadd RNum]. rewrite Hdt, Hst, Hlfd. reflexivity. }
    destruct (IH s' d Hd) as [dl Hl]; try (rewrite Hs'; cbn [t dt dtld status steps lfd]; auto; fail).
    + rewrite Hs'. cbn [t]. lra.
    + exists dl. rewrite Hl. rewrite Hs'. cbn [t steps]. rewrite S_INR. f_equal. f_equal; [lra|lia].
Qed.

Theorem exact_finish t0 d n k :
  0 < d -> t0 + INR n * d < tmax <= t0 + (INR n + 1) * d ->
  exists dl, integ (S (S n)) t0 d k = Some (mkSt tmax d dl ST_SUCCESS (k + n + 1) d).
Proof.
  intros Hd Hr. unfold integrate. cbn [neqb nltb nabs nneg RNum quiet].
  assert (0 <= INR n) by apply pos_INR.
  rewrite Reqb_false by nra. rewrite Rltb_true by nra. rewrite Rabs_pos_eq by lra.
  destruct (exact_run_aux n (mkSt t0 d 0 ST_RUNNING k d) d Hd eq_refl eq_refl (or_introl eq_refl) eq_refl Hr) as [dl Hl].
  cbn [nzero RNum]. rewrite Hl. exists dl. reflexivity.
Qed.
End ExactRuns.

(* ---- without exact finishing: stops at the first step boundary at or past tmax, i.e. overshoots by < d;
   the number of steps is the one implied by the step size; dt untouched *)
Section NonExact.
Variable tmax : R.
Let c12 : R := 1 / 1000000000000.
Let c200 : R := c12 / 10 ^ 188.
Let quiet : nat -> option Z := fun _ => None.
Local Notation check := (check_exit RNum c12 c200 tmax false false true).
Local Notation lp := (loop RNum c12 c200 (step_full RNum) quiet tmax false false true).
Local Notation integ := (integrate RNum c12 c200 (step_full RNum) quiet tmax false false true).

Lemma lpn_eq fuel s :
  lp fuel s = if (0 <=? status (check s))%Z then Some (check s)
              else match fuel with O => None | S f => lp f (do_step (step_full RNum) quiet (check s)) end.
Proof. destruct fuel; reflexivity. Qed.

Lemma nonexact_run_aux : forall n s d,
  0 < d -> dt s = d -> status s = ST_RUNNING ->
  (forall j, (j < n)%nat -> t s + INR j * d < tmax) -> tmax <= t s + INR n * d ->
  exists dl, lp n s = Some (mkSt (t s + INR n * d) d dl ST_SUCCESS (steps s + n) (lfd s)).
Proof.
  induction n as [|n IH]; intros s d Hd Hdt Hst Hlt Hge.
  - cbn [INR] in *. rewrite lpn_eq.
    assert (Hc : check s = mkSt (t s) (dt s) (dtld s) ST_SUCCESS (steps s) (lfd s)).
    { unfold check_exit. rewrite Hst. cbn [Z.leb ST_RUNNING Z.compare].
      unfold dtsign, geb. cbn [nltb nleb neqb nmul nadd nsub nneg none nzero RNum]. rewrite Hdt.
      rewrite (Rltb_false d 0) by lra. rewrite Rleb_true by lra. reflexivity. }
    rewrite Hc. cbn [status ST_SUCCESS Z.leb Z.compare]. exists (dtld s). f_equal. rewrite Hdt. f_equal; [lra|lia].
  - rewrite lpn_eq.
    assert (H0 : t s < tmax). { specialize (Hlt 0%nat ltac:(lia)). cbn [INR] in Hlt. lra. }
    assert (Hc : check s = s).
    { unfold check_exit. rewrite Hst. cbn [Z.leb ST_RUNNING Z.compare].
      unfold dtsign, geb. cbn [nltb nleb neqb nmul nadd nsub nneg none nzero RNum]. rewrite Hdt.
      rewrite (Rltb_false d 0) by lra. rewrite Rleb_false by lra. reflexivity. }
    rewrite Hc, Hst. cbn [ST_RUNNING Z.leb Z.compare].
    set (s' := do_step (step_full RNum) quiet s).
    assert (Hs' : s' = mkSt (t s + d) d d ST_RUNNING (S (steps s)) (lfd s)).
    { unfold s', do_step, step_full. cbn [quiet nadd RNum]. rewrite Hdt, Hst. reflexivity. }
    destruct (IH s' d Hd) as [dl Hl].
    + rewrite Hs'. reflexivity.
    + rewrite Hs'. reflexivity.
    + intros j Hj. rewrite Hs'. cbn [t]. specialize (Hlt (S j) ltac:(lia)). rewrite S_INR in Hlt. lra.
    + rewrite Hs'. cbn [t]. rewrite S_INR in Hge. lra.
    + exists dl. rewrite Hl, Hs'. cbn [t steps lfd]. rewrite S_INR. f_equal. f_equal; [lra|lia].
Qed.

Theorem nonexact_finish t0 d n k :
  0 < d -> t0 < tmax ->
  (forall j, (j < n)%nat -> t0 + INR j * d < tmax) -> tmax <= t0 + INR n * d ->
  exists dl, integ n t0 d k = Some (mkSt (t0 + INR n * d) d dl ST_SUCCESS (k + n) d).
Proof.
  intros Hd Ht Hlt Hge. unfold integrate. cbn [neqb nltb nabs nneg RNum quiet].
  rewrite Reqb_false by lra. rewrite Rltb_true by lra. rewrite Rabs_pos_eq by lra.
  destruct (nonexact_run_aux n (mkSt t0 d 0 ST_RUNNING k d) d Hd eq_refl eq_refl Hlt Hge) as [dl Hl].
  cbn [nzero RNum]. rewrite Hl. exists dl. reflexivity.
Qed.
End NonExact.

(* ---- splitting an integration (no exact finishing) into two consecutive calls visits the same step
   boundaries: same end time, same total number of steps, same step size *)
Theorem split_same_steps t0 t1 t2 d n1 n2 k :
  0 < d -> t0 < t1 -> t1 <= t2 ->
  (forall j, (j < n1)%nat -> t0 + INR j * d < t1) -> t1 <= t0 + INR n1 * d ->
  (forall j, (j < n2)%nat -> (t0 + INR n1 * d) + INR j * d < t2) -> t2 <= (t0 + INR n1 * d) + INR n2 * d ->
  (t0 + INR n1 * d < t2 \/ n2 = 0%nat) ->
  let c12 := 1 / 1000000000000 in let c200 := c12 / 10 ^ 188 in
  exists dl1 dl2 dl3,
    integrate RNum c12 c200 (step_full RNum) (fun _ => None) t1 false false true n1 t0 d k
      = Some (mkSt (t0 + INR n1 * d) d dl1 ST_SUCCESS (k + n1) d) /\
    (n2 = 0%nat \/
     integrate RNum c12 c200 (step_full RNum) (fun _ => None) t2 false false true n2 (t0 + INR n1 * d) d (k + n1)
      = Some (mkSt (t0 + INR (n1 + n2) * d) d dl2 ST_SUCCESS (k + (n1 + n2)) d)) /\
    integrate RNum c12 c200 (step_full RNum) (fun _ => None) t2 false false true (n1 + n2) t0 d k
      = Some (mkSt (t0 + INR (n1 + n2) * d) d dl3 ST_SUCCESS (k + (n1 + n2)) d).
Proof.
  intros Hd H01 H12 Hlt1 Hge1 Hlt2 Hge2 Hcase c12 c200.
  destruct (nonexact_finish t1 t0 d n1 k Hd H01 Hlt1 Hge1) as [dl1 E1].
  assert (Hdirect : exists dl3, integrate RNum c12 c200 (step_full RNum) (fun _ => None) t2 false false true (n1 + n2) t0 d k
      = Some (mkSt (t0 + INR (n1 + n2) * d) d dl3 ST_SUCCESS (k + (n1 + n2)) d)).
  { apply nonexact_finish; auto; try lra.
    - intros j Hj. destruct (Nat.lt_ge_cases j n1) as [Hj1|Hj1].
      + specialize (Hlt1 j Hj1). lra.
      + replace j with (n1 + (j - n1))%nat by lia. rewrite plus_INR.
        specialize (Hlt2 (j - n1)%nat ltac:(lia)). lra.
    - rewrite plus_INR. lra. }
  destruct Hdirect as [dl3 E3].
  destruct n2 as [|n2'].
  - exists dl1, 0, dl3. split; [exact E1|]. split; [left; reflexivity|exact E3].
  - destruct Hcase as [Hc|Hc]; [|discriminate].
    destruct (nonexact_finish t2 (t0 + INR n1 * d) d (S n2') (k + n1) Hd Hc Hlt2 Hge2) as [dl2 E2].
    exists dl1, dl2, dl3. split; [exact E1|]. split; [|exact E3]. right.
    subst c12 c200. cbv zeta in *. etransitivity; [exact E2|]. f_equal. f_equal; [rewrite plus_INR; lra|lia].
Qed.
