(* C08 model: reb_simulation_integrate_raw + reb_check_exit (src/rebound.c), Num-polymorphic.
   Only the time/step-size/status bookkeeping is modelled; the integrator is a parameter
   [stepper : t -> dt -> dt_last_done -> (t', dt', dt_last_done')] (its concrete time-update kinds
   are in Run.v) and exit conditions raised at step boundaries (escape, encounter, collision,
   user stop, SIGINT) are a parameter [hb : step index -> option status].
   Not modelled: PAUSED/SCREENSHOT UI states, usleep, MPI; N == 0 is the history [np] of loop_np below,
   tmax = INFINITY is the flag [tmax_inf].  copysign(1.,dt) is modelled as (dt<0 ? -1 : 1), i.e.
   dt = -0.0 is excluded.  Definitions only. *)
From Coq Require Import ZArith List Bool.
From RV Require Import Common.Num.
Import ListNotations.

Definition ST_LAST_STEP : Z := (-2)%Z.
Definition ST_RUNNING : Z := (-1)%Z.
Definition ST_SUCCESS : Z := 0%Z.
Definition ST_GENERIC_ERROR : Z := 1%Z.
Definition ST_NO_PARTICLES : Z := 2%Z.

Section Integrate.
Context {T : Type} (N : Num T).
Context (c1em12 c1em200 : T).          (* the literals 1e-12 and 1e-200 *)
Context (stepper : T -> T -> T -> T * T * T).
Context (hb : nat -> option Z).         (* status raised by the heartbeat after step number k (1-based count of steps done) *)
Context (tmax : T) (tmax_inf : bool) (exact : bool) (has_particles : bool).

Record st := mkSt { t : T; dt : T; dtld : T; status : Z; steps : nat; lfd : T }.

Definition dtsign (d : T) : T := if nltb N d (nzero N) then nneg N (none N) else none N.
Definition geb (a b : T) : bool := nleb N b a.

(* reb_check_exit *)
Definition check_exit (s : st) : st :=
  let sg := dtsign (dt s) in
  let s1 :=
    if (0 <=? status s)%Z then s
    else if tmax_inf then s
    else if exact then
      if geb (nmul N (nadd N (t s) (dt s)) sg) (nmul N tmax sg) then
        if neqb N (t s) tmax then mkSt (t s) (dt s) (dtld s) ST_SUCCESS (steps s) (lfd s)
        else if (status s =? ST_LAST_STEP)%Z then
          let tscale0 := nmul N c1em12 (nabs N tmax) in
          let tscale := if nltb N tscale0 c1em200 then c1em12 else tscale0 in
          if nltb N (nabs N (nsub N (t s) tmax)) tscale
          then mkSt (t s) (dt s) (dtld s) ST_SUCCESS (steps s) (lfd s)
          else mkSt (t s) (nsub N tmax (t s)) (dtld s) (status s) (steps s) (lfd s)
        else
          let l := if neqb N (dtld s) (nzero N) then lfd s else dtld s in
          mkSt (t s) (nsub N tmax (t s)) (dtld s) ST_LAST_STEP (steps s) l
      else if (status s =? ST_LAST_STEP)%Z then mkSt (t s) (dt s) (dtld s) ST_RUNNING (steps s) (lfd s)
      else s
    else if geb (nmul N (t s) sg) (nmul N tmax sg)
         then mkSt (t s) (dt s) (dtld s) ST_SUCCESS (steps s) (lfd s)
         else s in
  if has_particles then s1 else mkSt (t s1) (dt s1) (dtld s1) ST_NO_PARTICLES (steps s1) (lfd s1).

(* reb_simulation_step + reb_run_heartbeat: time bookkeeping and boundary events *)
Definition do_step (s : st) : st :=
  let '(t', dt', dtld') := stepper (t s) (dt s) (dtld s) in
  let k := S (steps s) in
  let stat := match hb k with Some c => c | None => status s end in
  mkSt t' dt' dtld' stat k (lfd s).

(* while(reb_check_exit(...)<0){ step; heartbeat } with explicit fuel; None = out of fuel *)
Fixpoint loop (fuel : nat) (s : st) : option st :=
  let s1 := check_exit s in
  if (0 <=? status s1)%Z then Some s1
  else match fuel with
       | O => None
       | S f => loop f (do_step s1)
       end.

(* reb_simulation_integrate_raw. t0, dt0: r->t, r->dt on entry; steps0: steps_done on entry *)
Definition integrate (fuel : nat) (t0 dt0 : T) (steps0 : nat) : option st :=
  let dt1 := if neqb N tmax t0 then dt0
             else if nltb N t0 tmax then nabs N dt0 else nneg N (nabs N dt0) in
  let s0 := mkSt t0 dt1 (nzero N) ST_RUNNING steps0 dt1 in
  let s0 := match hb steps0 with Some c => mkSt t0 dt1 (nzero N) c steps0 dt1 | None => s0 end in
  match loop fuel s0 with
  | None => None
  | Some s => Some (if exact then mkSt (t s) (lfd s) (dtld s) (status s) (steps s) (lfd s) else s)
  end.
End Integrate.

Arguments t {T} _. Arguments dt {T} _. Arguments dtld {T} _. Arguments status {T} _.
Arguments steps {T} _. Arguments lfd {T} _. Arguments mkSt {T} _ _ _ _ _ _.

(* a sequence of integrate calls on one simulation: t, dt and steps_done are carried from call to call
   (dt_last_done too in the library, but integrate_raw resets it to 0 on entry); the sequence stops at the
   first call that does not return SUCCESS (that is what the caller sees) *)
Section Seq.
Context {T : Type} (N : Num T).
Context (c1em12 c1em200 : T) (stepper : T -> T -> T -> T * T * T) (hb : nat -> option Z) (exact : bool).
Fixpoint integrate_seq (fuel : nat) (targets : list T) (s : @st T) : option (@st T) :=
  match targets with
  | [] => Some s
  | tm :: rest =>
      match integrate N c1em12 c1em200 stepper hb tm false exact true fuel (t s) (dt s) (steps s) with
      | None => None
      | Some s1 => if (status s1 =? 0)%Z then integrate_seq fuel rest s1 else Some s1
      end
  end.
End Seq.


(* The same loop with the particle count made part of the history: [np k] says whether the simulation still holds
   particles at the step boundary after k steps (steps_done, absolute).  reb_check_exit tests !r->N AFTER the time
   test, so an empty simulation overrides every other outcome of that boundary, SUCCESS included.  [loop] /
   [integrate] / [integrate_seq] above are the instances np = (fun _ => true) (ProofsNP.v). *)
Section IntegrateNP.
Context {T : Type} (N : Num T).
Context (c1em12 c1em200 : T) (stepper : T -> T -> T -> T * T * T) (hb : nat -> option Z) (np : nat -> bool).
Context (tmax : T) (tmax_inf : bool) (exact : bool).
Fixpoint loop_np (fuel : nat) (s : @st T) : option (@st T) :=
  let s1 := check_exit N c1em12 c1em200 tmax tmax_inf exact (np (steps s)) s in
  if (0 <=? status s1)%Z then Some s1
  else match fuel with
       | O => None
       | S f => loop_np f (do_step stepper hb s1)
       end.
(* the argument test of reb_simulation_integrate_raw (/repo 7f3beee): no step can bring t closer to tmax when the step
   is zero or NaN or the target is NaN (x is NaN iff x == x fails).  The error it raises is seen by the first
   reb_check_exit, which returns GENERIC_ERROR before any step -- unless the simulation is empty (NO_PARTICLES is
   tested last) *)
Definition isnan (x : T) : bool := negb (neqb N x x).
Definition degenerate (t0 dt0 : T) : bool :=
  isnan dt0 || isnan tmax || (neqb N dt0 (nzero N) && negb (neqb N tmax t0)).
Definition integrate_np (fuel : nat) (t0 dt0 : T) (steps0 : nat) : option (@st T) :=
  let dt1 := if neqb N tmax t0 then dt0
             else if nltb N t0 tmax then nabs N dt0 else nneg N (nabs N dt0) in
  if degenerate t0 dt0
  then Some (mkSt t0 dt1 (nzero N) (if np steps0 then ST_GENERIC_ERROR else ST_NO_PARTICLES) steps0 dt1)
  else
  let s0 := mkSt t0 dt1 (nzero N) ST_RUNNING steps0 dt1 in
  let s0 := match hb steps0 with Some c => mkSt t0 dt1 (nzero N) c steps0 dt1 | None => s0 end in
  match loop_np fuel s0 with
  | None => None
  | Some s => Some (if exact then mkSt (t s) (lfd s) (dtld s) (status s) (steps s) (lfd s) else s)
  end.
End IntegrateNP.

Section SeqNP.
Context {T : Type} (N : Num T).
Context (c1em12 c1em200 : T) (stepper : T -> T -> T -> T * T * T) (hb : nat -> option Z) (np : nat -> bool) (exact : bool).
Fixpoint integrate_seq_np (fuel : nat) (targets : list T) (s : @st T) : option (@st T) :=
  match targets with
  | [] => Some s
  | tm :: rest =>
      match integrate_np N c1em12 c1em200 stepper hb np tm false exact fuel (t s) (dt s) (steps s) with
      | None => None
      | Some s1 => if (status s1 =? 0)%Z then integrate_seq_np fuel rest s1 else Some s1
      end
  end.
End SeqNP.

(* concrete time-update kinds of the integrators (see DESIGN C08) *)
Section Steppers.
Context {T : Type} (N : Num T).
Definition two := nadd N (none N) (none N).
(* leapfrog, WHFast, SEI:  t += dt/2 (part1);  t += dt/2 (part2);  dt_last_done = dt *)
Definition step_half (t dt dtld : T) : T * T * T :=
  (nadd N (nadd N t (ndiv N dt two)) (ndiv N dt two), dt, dt).
(* NONE, SABA, EOS, JANUS, MERCURIUS, TRACE (no rejection), WHFast512:  t += dt;  dt_last_done = dt *)
Definition step_full (t dt dtld : T) : T * T * T := (nadd N t dt, dt, dt).
(* t += dt;  dt_last_done untouched: JANUS before /repo 6b44a1d (it now sets dt_last_done = dt like the others);
   kept as a member of the stepper class of ProofsDir.v *)
Definition step_janus (t dt dtld : T) : T * T * T := (nadd N t dt, dt, dtld).
End Steppers.
