(* C08: binary64 instance used by the correspondence check. *)
From Coq Require Import ZArith List Bool PrimFloat.
From RV Require Import Common.Num Common.FloatNum Gen.C08Consts C08.Model.
Import ListNotations.
Open Scope float_scope.

Definition c1em12f : float := c08_rel.     (* regenerated from reb_check_exit: 1e-12 *)
Definition c1em200f : float := c08_floor. (* regenerated from reb_check_exit: 1e-200 *)

(* kind: 0 = t+=dt/2 twice (leapfrog, whfast, sei); 1 = t+=dt (none, saba, eos, ...); 2 = janus *)
Definition stepper_of (kind : nat) : float -> float -> float -> float * float * float :=
  match kind with
  | O => step_half FNum
  | S O => step_full FNum
  | _ => step_janus FNum
  end.

(* events: list of (absolute steps_done count, status code) *)
Definition hb_of (ev : list (nat * Z)) (k : nat) : option Z :=
  match find (fun e => Nat.eqb (fst e) k) ev with Some e => Some (snd e) | None => None end.

(* result: [t; dt; dt_last_done], status, steps ; fuel exhausted -> status -99 *)
Definition run1 (kind : nat) (ev : list (nat * Z)) (tmax : float) (exact : bool)
           (t0 dt0 : float) (steps0 : nat) (fuel : nat) : list float * Z * nat :=
  match integrate FNum c1em12f c1em200f (stepper_of kind) (hb_of ev) tmax false exact true fuel t0 dt0 steps0 with
  | Some s => ([t s; dt s; dtld s], status s, steps s)
  | None => ([], (-99)%Z, O)
  end.

(* a sequence of integrate calls on one simulation (Model.integrate_seq: t, dt, steps_done carried over; stops at
   the first call that does not return SUCCESS) *)
(* particles present at the boundary after k steps: all of them vanish at boundary [gone] (None: never) *)
Definition np_of (gone : option nat) (k : nat) : bool :=
  match gone with Some g => Nat.ltb k g | None => true end.

Definition run_seq_np (kind : nat) (ev : list (nat * Z)) (gone : option nat) (exact : bool) (t0 dt0 : float) (steps0 : nat)
         (fuel : nat) (targets : list float) : list float * Z * nat :=
  match targets with
  | [] => ([t0; dt0], 0%Z, steps0)
  | _ =>
    match integrate_seq_np FNum c1em12f c1em200f (stepper_of kind) (hb_of ev) (np_of gone) exact fuel targets
                        (mkSt t0 dt0 0 0%Z steps0 dt0) with
    | Some s => ([t s; dt s; dtld s], status s, steps s)
    | None => ([], (-99)%Z, O)
    end
  end.

Definition run_seq (kind : nat) (ev : list (nat * Z)) (exact : bool) (t0 dt0 : float) (steps0 : nat)
         (fuel : nat) (targets : list float) : list float * Z * nat :=
  match targets with
  | [] => ([t0; dt0], 0%Z, steps0)
  | _ =>
    match integrate_seq FNum c1em12f c1em200f (stepper_of kind) (hb_of ev) exact fuel targets
                        (mkSt t0 dt0 0 0%Z steps0 dt0) with
    | Some s => ([t s; dt s; dtld s], status s, steps s)
    | None => ([], (-99)%Z, O)
    end
  end.

Definition ok_case (c : (list float * Z * nat) * (list float * Z * nat)) : bool :=
  let '((a, sa, na), (b, sb, nb)) := c in
  andb (same_list a b) (andb (Z.eqb sa sb) (Nat.eqb na nb)).
Fixpoint bad_from (n : nat) (l : list ((list float * Z * nat) * (list float * Z * nat))) : list nat :=
  match l with
  | [] => []
  | c :: r => if ok_case c then bad_from (S n) r else n :: bad_from (S n) r
  end.
Definition bad l := bad_from 0 l.
