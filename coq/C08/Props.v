(* C08 property theorems ONLY. *)
From Coq Require Import ZArith List Bool Reals Lra.
From RV Require Import Common.Num Common.RealNum C08.Model C08.Proofs C08.ProofsR.
Import ListNotations.

(* (1) Structural, for EVERY arithmetic (binary64 included), every integrator, every event sequence:
   SUCCESS with exact finishing  =>  t == tmax or |t - tmax| < (1e-12*|tmax|, or 1e-12 if that is < 1e-200). *)
Theorem C08_success_within_fuzz :
  forall (T : Type) (N : Num T) (c1em12 c1em200 : T) stepper hb (tmax : T) exact fuel t0 dt0 k r,
  exact = true -> events_positive hb ->
  integrate N c1em12 c1em200 stepper hb tmax false exact true fuel t0 dt0 k = Some r ->
  status r = 0%Z -> close N c1em12 c1em200 tmax (t r).
Proof. intros T N c1 c2 stepper hb tmax exact. exact (integrate_success_close N c1 c2 stepper hb tmax exact). Qed.
Print Assumptions C08_success_within_fuzz.

(* (2) Structural: an exit code returned by the loop was raised at the boundary where the loop stopped,
   and no earlier boundary of this call raised anything: the status names the FIRST such boundary. *)
Theorem C08_status_first_boundary :
  forall (T : Type) (N : Num T) (c1em12 c1em200 : T) stepper hb (tmax : T) exact fuel s r,
  events_positive hb -> (status s < 0)%Z ->
  loop N c1em12 c1em200 stepper hb tmax false exact true fuel s = Some r -> (0 < status r)%Z ->
  hb (steps r) = Some (status r) /\ (steps s < steps r)%nat /\
  forall j, (steps s < j)%nat /\ (j < steps r)%nat -> hb j = None.
Proof. intros T N c1 c2 stepper hb tmax exact. exact (loop_first_event N c1 c2 stepper hb tmax exact). Qed.
Print Assumptions C08_status_first_boundary.

Open Scope R_scope.
(* (3) exact arithmetic, fixed step t += dt: integrating to the current time takes no step and leaves
   t and dt unchanged (dt_last_done is reset to 0 -- stated, not hidden), in both finishing modes *)
Theorem C08_noop_at_target : forall tmax exact fuel dt0 k,
  integrate RNum (1 / 1000000000000) (1 / 1000000000000 / 10 ^ 188) (step_full RNum) (fun _ => None)
            tmax false exact true fuel tmax dt0 k = Some (mkSt tmax dt0 0 ST_SUCCESS k dt0).
Proof. exact noop_at_target. Qed.
Print Assumptions C08_noop_at_target.

(* (4) exact finishing: ends exactly at tmax after n+1 steps where t0 + n d < tmax <= t0 + (n+1) d; dt restored *)
Theorem C08_exact_finish : forall tmax t0 d n k,
  0 < d -> t0 + INR n * d < tmax <= t0 + (INR n + 1) * d ->
  exists dl, integrate RNum (1 / 1000000000000) (1 / 1000000000000 / 10 ^ 188) (step_full RNum) (fun _ => None)
               tmax false true true (S (S n)) t0 d k = Some (mkSt tmax d dl ST_SUCCESS (k + n + 1) d).
Proof. exact exact_finish. Qed.
Print Assumptions C08_exact_finish.

(* (5) without exact finishing: stops at the first boundary at or past tmax (overshoot < d), n steps *)
Theorem C08_nonexact_finish : forall tmax t0 d n k,
  0 < d -> t0 < tmax ->
  (forall j, (j < n)%nat -> t0 + INR j * d < tmax) -> tmax <= t0 + INR n * d ->
  exists dl, integrate RNum (1 / 1000000000000) (1 / 1000000000000 / 10 ^ 188) (step_full RNum) (fun _ => None)
               tmax false false true n t0 d k = Some (mkSt (t0 + INR n * d) d dl ST_SUCCESS (k + n) d).
Proof. exact nonexact_finish. Qed.
Print Assumptions C08_nonexact_finish.

(* (6) splitting into consecutive calls visits the same step boundaries *)
Theorem C08_split_same_steps : forall t0 t1 t2 d n1 n2 k,
  0 < d -> t0 < t1 -> t1 <= t2 ->
  (forall j, (j < n1)%nat -> t0 + INR j * d < t1) -> t1 <= t0 + INR n1 * d ->
  (forall j, (j < n2)%nat -> (t0 + INR n1 * d) + INR j * d < t2) -> t2 <= (t0 + INR n1 * d) + INR n2 * d ->
  (t0 + INR n1 * d < t2 \/ n2 = 0%nat) ->
  let c12 := 1 / 1000000000000 in let c200 := c12 / 10 ^ 188 in
  exists dl1 dl2 dl3,
    integrate RNum c12 c200 (step_full RNum) (fun _ => None) t1 false false true n1 t0 d k
      = Some (mkSt (t0 + INR n1 * d) d dl1 ST_SUCCESS (k + n1) d) /\
    (n2 = 0%nat \/
     integrate RNum c12 c200 (step_full RNum) (fun _ => None) t2 false false true n2 (t0 + INR n1 * d) d (k + n1)
      = Some (mkSt (t0 + INR (n1 + n2) * d) d dl2 ST_SUCCESS (k + (n1 + n2)) d)) /\
    integrate RNum c12 c200 (step_full RNum) (fun _ => None) t2 false false true (n1 + n2) t0 d k
      = Some (mkSt (t0 + INR (n1 + n2) * d) d dl3 ST_SUCCESS (k + (n1 + n2)) d).
Proof. exact split_same_steps. Qed.
Print Assumptions C08_split_same_steps.

(* non-vacuity: concrete numbers meeting the hypotheses of (4) and (5) *)
Example C08_hypotheses_inhabited :
  (0 < 1/4 /\ 0 + INR 3 * (1/4) < 9/10 <= 0 + (INR 3 + 1) * (1/4)) /\
  events_positive (fun k => if Nat.eqb k 5 then Some 4%Z else None).
Proof.
  split.
  - cbn [INR]. lra.
  - intros k c. destruct (Nat.eqb k 5); intros H; inversion H. reflexivity.
Qed.
