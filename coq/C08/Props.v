(* C08 property theorems ONLY. *)
From Coq Require Import ZArith List Bool Reals Lra.
From RV Require Import Common.Num Common.RealNum C08.Model C08.Proofs C08.ProofsNP C08.ProofsR C08.ProofsDir.
Import ListNotations.

(* (1) Structural, for EVERY arithmetic (binary64 included), every integrator, every event sequence:
   SUCCESS with exact finishing  =>  t == tmax or |t - tmax| < (1e-12*|tmax|, or 1e-12 if that is < 1e-200). *)
Theorem C08_success_within_fuzz :
  forall (T : Type) (N : Num T) (c1em12 c1em200 : T) stepper hb (tmax : T) exact fuel t0 dt0 k r,
  exact = true -> events_positive hb ->
  integrate N c1em12 c1em200 stepper hb tmax false exact true fuel t0 dt0 k = Some r ->
  status r = 0%Z -> close N c1em12 c1em200 tmax (t r).
Proof. intros T N c1 c2 stepper hb tmax exact. exact (integrate_success_close N c1 c2 stepper hb tmax exact). Qed.
Print Assumptions C08_success_within_fuzz.

(* (2) Structural: an exit code returned by the loop was raised at the boundary where the loop stopped,
   and no earlier boundary of this call raised anything: the status names the FIRST such boundary. *)
Theorem C08_status_first_boundary :
  forall (T : Type) (N : Num T) (c1em12 c1em200 : T) stepper hb (tmax : T) exact fuel s r,
  events_positive hb -> (status s < 0)%Z ->
  loop N c1em12 c1em200 stepper hb tmax false exact true fuel s = Some r -> (0 < status r)%Z ->
  hb (steps r) = Some (status r) /\ (steps s < steps r)%nat /\
  forall j, (steps s < j)%nat /\ (j < steps r)%nat -> hb j = None.
Proof. intros T N c1 c2 stepper hb tmax exact. exact (loop_first_event N c1 c2 stepper hb tmax exact). Qed.
Print Assumptions C08_status_first_boundary.

(* (2b) "no particles" as an exit condition, with the particle count part of the history (np k = the simulation still
   holds particles at the boundary after k steps): the loop stops at the FIRST empty boundary, every boundary it went
   past held particles, and an empty boundary is reported as NO_PARTICLES whatever else became true there -- the
   target being reached (SUCCESS) and exit codes raised by the heartbeat included; a positive status is either that,
   or the heartbeat's code of (2) *)
Theorem C08_no_particles_first_empty_boundary :
  forall (T : Type) (N : Num T) (c1em12 c1em200 : T) stepper hb np (tmax : T) exact fuel s r,
  loop_np N c1em12 c1em200 stepper hb np tmax false exact fuel s = Some r ->
  (steps s <= steps r)%nat /\
  (forall j, (steps s <= j)%nat /\ (j < steps r)%nat -> np j = true) /\
  (np (steps r) = false -> status r = ST_NO_PARTICLES).
Proof. intros T N c1 c2 stepper hb np tmax exact. exact (loop_np_first_empty N c1 c2 stepper hb np tmax exact). Qed.
Print Assumptions C08_no_particles_first_empty_boundary.
Theorem C08_status_names_first_condition :
  forall (T : Type) (N : Num T) (c1em12 c1em200 : T) stepper hb np (tmax : T) exact fuel s r,
  events_positive hb -> (status s < 0)%Z ->
  loop_np N c1em12 c1em200 stepper hb np tmax false exact fuel s = Some r -> (0 < status r)%Z ->
  (np (steps r) = false /\ status r = ST_NO_PARTICLES) \/
  (np (steps r) = true /\ hb (steps r) = Some (status r) /\ (steps s < steps r)%nat /\
   forall j, (steps s < j)%nat /\ (j < steps r)%nat -> hb j = None).
Proof. intros T N c1 c2 stepper hb np tmax exact. exact (loop_np_status N c1 c2 stepper hb np tmax exact). Qed.
Print Assumptions C08_status_names_first_condition.
(* the whole call, integrating to the current time included (no step is taken, the empty simulation is still reported);
   and the particle-free theorems of this file are about the instance np = (fun _ => true) of the same functions *)
Theorem C08_integrate_reports_empty :
  forall (T : Type) (N : Num T) c1 c2 stepper hb np (tmax : T) exact fuel t0 dt0 k r,
  integrate_np N c1 c2 stepper hb np tmax false exact fuel t0 dt0 k = Some r ->
  (k <= steps r)%nat /\ (forall j, (k <= j)%nat /\ (j < steps r)%nat -> np j = true) /\
  (np (steps r) = false -> status r = ST_NO_PARTICLES).
Proof. intros T N c1 c2 stepper hb np tmax exact fuel t0 dt0 k r. exact (integrate_np_empty_reported N c1 c2 stepper hb np tmax exact fuel t0 dt0 k r). Qed.
Print Assumptions C08_integrate_reports_empty.
Theorem C08_np_model_extends_plain :
  forall (T : Type) (N : Num T) c1 c2 stepper hb np exact fuel, (forall j, np j = true) ->
  (forall tmax t0 dt0 k, degenerate N tmax t0 dt0 = false ->
     integrate_np N c1 c2 stepper hb np tmax false exact fuel t0 dt0 k
     = integrate N c1 c2 stepper hb tmax false exact true fuel t0 dt0 k) /\
  (forall targets s, nondeg_seq N c1 c2 stepper hb exact fuel targets s ->
     integrate_seq_np N c1 c2 stepper hb np exact fuel targets s
     = integrate_seq N c1 c2 stepper hb exact fuel targets s).
Proof.
  intros T N c1 c2 stepper hb np exact fuel Hnp. split.
  - intros tmax t0 dt0 k Hd. exact (integrate_np_all_true N c1 c2 stepper hb np tmax exact fuel t0 dt0 k Hnp Hd).
  - exact (integrate_seq_np_all_true N c1 c2 stepper hb exact np fuel Hnp).
Qed.
(* degenerate arguments (a NaN step, a NaN target, a zero step with target <> current time): integrate() returns at once
   with an error status, no step taken, time untouched -- it does not run forever (/repo 7f3beee) *)
Theorem C08_degenerate_arguments_refused :
  forall (T : Type) (N : Num T) c1 c2 stepper hb np (tmax : T) exact fuel t0 dt0 k,
  degenerate N tmax t0 dt0 = true ->
  exists r, integrate_np N c1 c2 stepper hb np tmax false exact fuel t0 dt0 k = Some r /\
            steps r = k /\ t r = t0 /\ (0 < status r)%Z /\ (np k = true -> status r = ST_GENERIC_ERROR).
Proof. intros T N c1 c2 stepper hb np tmax exact fuel t0 dt0 k. exact (integrate_np_degenerate N c1 c2 stepper hb np tmax exact fuel t0 dt0 k). Qed.
Print Assumptions C08_degenerate_arguments_refused.
Print Assumptions C08_np_model_extends_plain.

Open Scope R_scope.
(* (3) exact arithmetic, fixed step t += dt: integrating to the current time takes no step and leaves
   t and dt unchanged (dt_last_done is reset to 0 -- stated, not hidden), in both finishing modes *)
Theorem C08_noop_at_target : forall tmax exact fuel dt0 k,
  integrate RNum (1 / 1000000000000) (1 / 1000000000000 / 10 ^ 188) (step_full RNum) (fun _ => None)
            tmax false exact true fuel tmax dt0 k = Some (mkSt tmax dt0 0 ST_SUCCESS k dt0).
Proof. exact noop_at_target. Qed.
Print Assumptions C08_noop_at_target.

(* (4) exact finishing: ends exactly at tmax after n+1 steps where t0 + n d < tmax <= t0 + (n+1) d; dt restored *)
Theorem C08_exact_finish : forall tmax t0 d n k,
  0 < d -> t0 + INR n * d < tmax <= t0 + (INR n + 1) * d ->
  exists dl, integrate RNum (1 / 1000000000000) (1 / 1000000000000 / 10 ^ 188) (step_full RNum) (fun _ => None)
               tmax false true true (S (S n)) t0 d k = Some (mkSt tmax d dl ST_SUCCESS (k + n + 1) d).
Proof. exact exact_finish. Qed.
Print Assumptions C08_exact_finish.

(* (5) without exact finishing: stops at the first boundary at or past tmax (overshoot < d), n steps *)
Theorem C08_nonexact_finish : forall tmax t0 d n k,
  0 < d -> t0 < tmax ->
  (forall j, (j < n)%nat -> t0 + INR j * d < tmax) -> tmax <= t0 + INR n * d ->
  exists dl, integrate RNum (1 / 1000000000000) (1 / 1000000000000 / 10 ^ 188) (step_full RNum) (fun _ => None)
               tmax false false true n t0 d k = Some (mkSt (t0 + INR n * d) d dl ST_SUCCESS (k + n) d).
Proof. exact nonexact_finish. Qed.
Print Assumptions C08_nonexact_finish.

(* (6) splitting into consecutive calls visits the same step boundaries *)
Theorem C08_split_same_steps : forall t0 t1 t2 d n1 n2 k,
  0 < d -> t0 < t1 -> t1 <= t2 ->
  (forall j, (j < n1)%nat -> t0 + INR j * d < t1) -> t1 <= t0 + INR n1 * d ->
  (forall j, (j < n2)%nat -> (t0 + INR n1 * d) + INR j * d < t2) -> t2 <= (t0 + INR n1 * d) + INR n2 * d ->
  (t0 + INR n1 * d < t2 \/ n2 = 0%nat) ->
  let c12 := 1 / 1000000000000 in let c200 := c12 / 10 ^ 188 in
  exists dl1 dl2 dl3,
    integrate RNum c12 c200 (step_full RNum) (fun _ => None) t1 false false true n1 t0 d k
      = Some (mkSt (t0 + INR n1 * d) d dl1 ST_SUCCESS (k + n1) d) /\
    (n2 = 0%nat \/
     integrate RNum c12 c200 (step_full RNum) (fun _ => None) t2 false false true n2 (t0 + INR n1 * d) d (k + n1)
      = Some (mkSt (t0 + INR (n1 + n2) * d) d dl2 ST_SUCCESS (k + (n1 + n2)) d)) /\
    integrate RNum c12 c200 (step_full RNum) (fun _ => None) t2 false false true (n1 + n2) t0 d k
      = Some (mkSt (t0 + INR (n1 + n2) * d) d dl3 ST_SUCCESS (k + (n1 + n2)) d).
Proof. exact split_same_steps. Qed.
Print Assumptions C08_split_same_steps.

(* (7) EITHER direction of time, ANY sign of the user's dt, ANY integrator whose time update is in the class
   "t += dt, dt unchanged, dt_last_done := dt or untouched": exact finishing lands exactly on tmax after n+1 steps,
   n |dt| < |tmax - t0| <= (n+1) |dt|, and dt comes back as the user's |dt| oriented towards tmax *)
Theorem C08_exact_finish_any_direction : forall stepper, stepper_ok stepper -> forall tmax t0 dt0 n k,
  dt0 <> 0 -> tmax <> t0 ->
  INR n * Rabs dt0 < Rabs (tmax - t0) <= (INR n + 1) * Rabs dt0 ->
  exists dl, integrate RNum (1 / 1000000000000) (1 / 1000000000000 / 10 ^ 188) stepper (fun _ => None)
               tmax false true true (S (S n)) t0 dt0 k
             = Some (mkSt tmax (oriented tmax t0 dt0) dl ST_SUCCESS (k + n + 1) (oriented tmax t0 dt0)).
Proof. exact exact_finish_any. Qed.
Print Assumptions C08_exact_finish_any_direction.

(* (8) the same without exact finishing: n steps with (n-1)|dt| < |tmax - t0| <= n|dt|, never against the direction *)
Theorem C08_nonexact_finish_any_direction : forall stepper, stepper_ok stepper -> forall tmax t0 dt0 n k,
  dt0 <> 0 -> tmax <> t0 ->
  (INR n - 1) * Rabs dt0 < Rabs (tmax - t0) <= INR n * Rabs dt0 ->
  exists dl, integrate RNum (1 / 1000000000000) (1 / 1000000000000 / 10 ^ 188) stepper (fun _ => None)
               tmax false false true n t0 dt0 k
             = Some (mkSt (t0 + INR n * oriented_n tmax t0 dt0) (oriented_n tmax t0 dt0) dl ST_SUCCESS (k + n)
                          (oriented_n tmax t0 dt0)).
Proof. exact nonexact_finish_any. Qed.
Print Assumptions C08_nonexact_finish_any_direction.

(* (9) state carried across calls: ANY sequence of exact-finish calls on one simulation (targets ahead of, behind
   or equal to the current time, in any order) ends every call on its target with SUCCESS, takes the implied
   number of steps, and always leaves |dt| equal to the user's |dt| *)
Theorem C08_seq_exact_finish : forall stepper, stepper_ok stepper -> forall plan s,
  dt s <> 0 -> plan_ok (t s) (Rabs (dt s)) plan ->
  exists r, integrate_seq RNum (1 / 1000000000000) (1 / 1000000000000 / 10 ^ 188) stepper (fun _ => None) true
                          (plan_fuel plan) (map fst plan) s = Some r /\
            t r = last (map fst plan) (t s) /\ Rabs (dt r) = Rabs (dt s) /\
            steps r = (steps s + plan_steps (t s) plan)%nat /\
            (plan <> [] -> status r = ST_SUCCESS).
Proof. exact seq_exact_finish. Qed.
Print Assumptions C08_seq_exact_finish.

(* (10) the three time-update kinds of the library's fixed-step integrators are in the class, and the step count
   of every plan entry exists: the hypotheses of (7)-(9) restrict nothing *)
Theorem C08_steppers_in_class :
  stepper_ok (step_full RNum) /\ stepper_ok (step_half RNum) /\ stepper_ok (step_janus RNum).
Proof. exact (conj step_full_ok (conj step_half_ok step_janus_ok)). Qed.
Print Assumptions C08_steppers_in_class.
Theorem C08_step_count_exists : forall x a, 0 < a -> 0 < x -> exists n, INR n * a < x <= (INR n + 1) * a.
Proof. exact step_count_exists. Qed.
Print Assumptions C08_step_count_exists.

(* (12) time never moves against the direction of integration: the times at the successive step boundaries of one call
   are monotone in the direction sg of the call (both finishing modes, every stepper of the class), as long as the
   call starts on the near side of the target with dt pointing towards it (which integrate_raw establishes) *)
Theorem C08_time_monotone : forall stepper, stepper_ok stepper -> forall tmax exact fuel sg s,
  inv tmax sg s -> mono sg (loop_ts stepper tmax exact fuel s).
Proof. intros stepper H tmax exact fuel sg s. exact (loop_ts_monotone stepper H tmax exact fuel sg s). Qed.
Print Assumptions C08_time_monotone.

(* (11) the fuzz of (1) is the advertised one: the constants in reb_check_exit (regenerated from the C text on every
   run; the binary64 instance compared with the library uses these regenerated values) are 1e-12 relative, with the
   absolute fallback 1e-12 below 1e-200 *)
From Coq Require Import String.
From RV Require Import Gen.C08Consts.
Theorem C08_fuzz_constants_are_the_advertised :
  c08_rel_text = "1e-12"%string /\ c08_floor_text = "1e-200"%string /\ c08_abs_text = "1e-12"%string /\
  c08_abs = c08_rel.
Proof. repeat split; reflexivity. Qed.

(* non-vacuity: concrete numbers meeting the hypotheses of (4) and (5) *)
Example C08_hypotheses_inhabited :
  (0 < 1/4 /\ 0 + INR 3 * (1/4) < 9/10 <= 0 + (INR 3 + 1) * (1/4)) /\
  events_positive (fun k => if Nat.eqb k 5 then Some 4%Z else None) /\
  (* a plan for (9): dt = -1/4 (pointing away), targets 9/10 (forward, 3 full steps), 9/10 again (no-op), 0 (backward) *)
  plan_ok 0 (Rabs (-1/4)) [(9/10, 3%nat); (9/10, 0%nat); (0, 3%nat)].
Proof.
  split; [|split].
  - cbn [INR]. lra.
  - intros k c. destruct (Nat.eqb k 5); intros H; inversion H. reflexivity.
  - replace (Rabs (-1/4)) with (1/4) by (rewrite Rabs_left; lra).
    cbn [plan_ok INR]. repeat split.
    + right. split; [lra|]. rewrite Rabs_pos_eq; lra.
    + left. split; reflexivity.
    + right. split; [lra|]. rewrite Rabs_left; lra.
Qed.
