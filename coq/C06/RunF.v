(* C06: binary64 instance of the threshold cadence (interval mode), evaluated by the correspondence cases:
   snapshot times followed by the final accumulated threshold simulationarchive_next. *)
From Coq Require Import List PrimFloat.
From RV Require Import Common.Num Common.FloatNum C06.CadenceNum.
Import ListNotations.

(* the branch is guarded by  if (r->simulationarchive_auto_interval != 0.)  : interval 0 means "no automatic snapshots"
   (a NaN interval passes the guard; its threshold test is then false for ever after the first snapshot) *)
Definition run_thrF (sign I next : float) (xs : list float) : list float :=
  if PrimFloat.eqb I PrimFloat.zero then [next]
  else let '(out, fin) := run_thr FNum sign I next xs in map fst out ++ [fin].
