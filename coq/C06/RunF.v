(* C06: binary64 instance of the threshold cadence (interval mode), evaluated by the correspondence cases:
   snapshot times followed by the final accumulated threshold simulationarchive_next. *)
From Coq Require Import List PrimFloat.
From RV Require Import Common.Num Common.FloatNum C06.CadenceNum.
Import ListNotations.

Definition run_thrF (sign I next : float) (xs : list float) : list float :=
  let '(out, fin) := run_thr FNum sign I next xs in map fst out ++ [fin].
