(* C06: cadence of automatic snapshots in step mode (reb_simulationarchive_heartbeat, auto_step branch). *)
From Coq Require Import List NArith Bool Arith Lia.
From RV Require Import C06.Model.
Import ListNotations.
Open Scope N_scope.

(* invariant: s <= next < s + auto, next = s0 (mod auto); a snapshot is written at s iff next = s *)
Lemma hb_run_spec : forall auto n next s x, 0 < auto -> s <= next -> next < s + auto ->
  (In x (hb_run auto next s n) <-> (s <= x < s + N.of_nat n /\ next <= x /\ (x - next) mod auto = 0)).
Proof.
  intros auto n. induction n as [|n IH]; intros next s x HA HL HU.
  - cbn [hb_run In]. split; [intros []|]. lia.
  - cbn [hb_run]. unfold hb_step. destruct (N.leb_spec next s) as [Hle|Hgt].
    + assert (next = s) by lia. subst next. cbn [app In].
      rewrite (IH (s + auto) (s + 1) x HA); [|lia|lia]. split.
      * intros [<-|(H1 & H2 & H3)].
        -- replace (s - s) with 0 by lia. rewrite N.mod_0_l by lia. lia.
        -- split; [lia|]. split; [lia|].
           replace (x - s) with ((x - (s + auto)) + 1 * auto) by lia. rewrite N.mod_add by lia. exact H3.
      * intros (H1 & H2 & H3). destruct (N.eq_dec x s) as [->|NE]; [left; reflexivity|right].
        assert (auto <= x - s).
        { destruct (N.lt_ge_cases (x - s) auto) as [Hlt|]; [|assumption].
          rewrite N.mod_small in H3 by exact Hlt. lia. }
        split; [lia|]. split; [lia|].
        replace (x - s) with ((x - (s + auto)) + 1 * auto) in H3 by lia. rewrite N.mod_add in H3 by lia. exact H3.
    + cbn [app]. rewrite (IH next (s + 1) x HA); [|lia|lia]. split.
      * intros (H1 & H2 & H3). lia.
      * intros (H1 & H2 & H3). lia.
Qed.

Lemma cadence_step : forall auto s0 n x, 0 < auto ->
  In x (hb_run auto s0 s0 n) <-> (s0 <= x < s0 + N.of_nat n /\ (x - s0) mod auto = 0).
Proof.
  intros auto s0 n x HA. rewrite (hb_run_spec auto n s0 s0 x HA); [|lia|lia]. split; [intros (A & B & C)|intros (A & C)]; repeat split; try lia; assumption.
Qed.
