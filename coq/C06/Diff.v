(* C06: the delta produced by binary_diff, overlaid on the first snapshot, is the new snapshot
   (as a map from field type to payload), for ANY two field lists with pairwise distinct types. *)
From Coq Require Import List NArith Bool Arith Lia.
From RV Require Import C06.Model.
Import ListNotations.
Open Scope N_scope.

(* ---------- lookup / upsert / remove *)
Lemma lookup_upsert : forall f m t,
  lookup t (upsert f m) = if ftype f =? t then Some (fdata f) else lookup t m.
Proof.
  intros f m t. induction m as [|g r IH]; cbn [upsert lookup].
  - reflexivity.
  - destruct (N.eqb_spec (ftype g) (ftype f)) as [E|E]; cbn [lookup].
    + rewrite E. destruct (N.eqb_spec (ftype f) t); reflexivity.
    + rewrite IH. destruct (N.eqb_spec (ftype g) t) as [E1|E1]; [|reflexivity].
      destruct (N.eqb_spec (ftype f) t) as [E2|E2]; [congruence|reflexivity].
Qed.

Lemma lookup_remove : forall u m t,
  lookup t (remove_type u m) = if u =? t then None else lookup t m.
Proof.
  intros u m t. unfold remove_type. induction m as [|g r IH]; cbn [filter lookup].
  - destruct (u =? t); reflexivity.
  - destruct (N.eqb_spec (ftype g) u) as [E|E]; cbn [negb].
    + rewrite IH. destruct (N.eqb_spec u t) as [E1|E1]; [reflexivity|].
      destruct (N.eqb_spec (ftype g) t); [congruence|reflexivity].
    + cbn [lookup]. rewrite IH. destruct (N.eqb_spec (ftype g) t) as [E1|E1]; [|reflexivity].
      destruct (N.eqb_spec u t); [congruence|reflexivity].
Qed.

Definition ne (d : list N) : option (list N) := match d with [] => None | _ => Some d end.

Lemma lookup_apply : forall m f t,
  lookup t (apply_field m f) = if ftype f =? t then ne (fdata f) else lookup t m.
Proof.
  intros m f t. unfold apply_field, ne. destruct (fdata f) eqn:D.
  - apply lookup_remove.
  - rewrite lookup_upsert, D. reflexivity.
Qed.

(* effect of a delta on one type *)
Fixpoint eff (t : N) (delta : list field) (init : option (list N)) : option (list N) :=
  match delta with
  | [] => init
  | f :: r => eff t r (if ftype f =? t then ne (fdata f) else init)
  end.

Lemma eff_app : forall t a b i, eff t (a ++ b) i = eff t b (eff t a i).
Proof. intros t a. induction a as [|f r IH]; intros; cbn [app eff]; [reflexivity|apply IH]. Qed.

Lemma lookup_overlay : forall delta base t, lookup t (overlay base delta) = eff t delta (lookup t base).
Proof.
  unfold overlay. induction delta as [|f r IH]; intros base t; cbn [fold_left eff]; [reflexivity|].
  rewrite IH, lookup_apply. reflexivity.
Qed.

(* ---------- find_type *)
Lemma lookup_None_notin : forall t l, lookup t l = None <-> ~ In t (types l).
Proof.
  intros t l. induction l as [|f r IH]; cbn [lookup types map In].
  - split; [intros _ []|reflexivity].
  - destruct (N.eqb_spec (ftype f) t) as [E|E].
    + split; [discriminate|]. intros H. exfalso. apply H. left. exact E.
    + rewrite IH. split; [intros H [H1|H1]; [congruence|auto]|intros H H1; apply H; right; exact H1].
Qed.

Lemma find_type_Some : forall t l f r, find_type t l = Some (f, r) ->
  ftype f = t /\ lookup t l = Some (fdata f) /\ (forall x, In x r -> In x l).
Proof.
  intros t l. induction l as [|g q IH]; intros f r H; cbn [find_type lookup] in *; [discriminate|].
  destruct (N.eqb_spec (ftype g) t) as [E|E].
  - inversion H; subst. repeat split; auto. intros x Hx. right. exact Hx.
  - destruct (IH _ _ H) as (A & B & C). repeat split; auto. intros x Hx. right. auto.
Qed.

Lemma find_type_None : forall t l, find_type t l = None -> lookup t l = None.
Proof.
  intros t l. induction l as [|g q IH]; intros H; cbn [find_type lookup] in *; [reflexivity|].
  destruct (ftype g =? t); [discriminate|auto].
Qed.

Lemma In_lookup_nodup : forall l f, NoDup (types l) -> In f l -> lookup (ftype f) l = Some (fdata f).
Proof.
  induction l as [|g q IH]; intros f ND HI; [destruct HI|].
  cbn [types map] in ND. inversion ND as [|? ? Hn ND']; subst. cbn [lookup].
  destruct HI as [->|HI].
  - rewrite N.eqb_refl. reflexivity.
  - destruct (N.eqb_spec (ftype g) (ftype f)) as [E|E].
    + exfalso. apply Hn. rewrite E. apply in_map. exact HI.
    + apply IH; assumption.
Qed.

(* ---------- the two passes *)
Section P.
Variable peq : N -> list N -> list N -> bool.

Lemma differ_ext : forall f1 f2, differ peq f1 f2 = differ peq (mkF (ftype f1) (fdata f1)) (mkF (ftype f1) (fdata f2)).
Proof. intros. unfold differ, fsize. reflexivity. Qed.

(* what the first loop finds for f1 *)
Definition found1 (s2 c2 : list field) (t1 : N) : option (field * list field) :=
  match c2 with
  | f2 :: c2' => if ftype f2 =? t1 then Some (f2, c2') else find_type t1 s2
  | [] => find_type t1 s2
  end.

Lemma found1_spec : forall s2 c2 t1, NoDup (types s2) -> incl c2 s2 ->
  match found1 s2 c2 t1 with
  | Some (f2, c2') => ftype f2 = t1 /\ lookup t1 s2 = Some (fdata f2) /\ incl c2' s2
  | None => lookup t1 s2 = None
  end.
Proof.
  intros s2 c2 t1 ND HI. unfold found1.
  assert (F : match find_type t1 s2 with
              | Some (f2, c2') => ftype f2 = t1 /\ lookup t1 s2 = Some (fdata f2) /\ incl c2' s2
              | None => lookup t1 s2 = None end).
  { destruct (find_type t1 s2) as [[f2 r]|] eqn:E.
    - destruct (find_type_Some _ _ _ _ E) as (A & B & C). repeat split; [exact A|exact B|exact C].
    - apply find_type_None. exact E. }
  destruct c2 as [|f2 c2']; [exact F|].
  destruct (N.eqb_spec (ftype f2) t1) as [E|E]; [|exact F].
  repeat split; [exact E| |].
  - rewrite <- E. apply In_lookup_nodup; [exact ND|]. apply HI. left. reflexivity.
  - intros x Hx. apply HI. right. exact Hx.
Qed.

Lemma pass1_unfold : forall s2 f1 r1 c2,
  pass1 peq s2 (f1 :: r1) c2 =
  match found1 s2 c2 (ftype f1) with
  | None => mkF (ftype f1) [] :: pass1 peq s2 r1 s2
  | Some (f2, c2') => (if differ peq f1 f2 then [f2] else []) ++ pass1 peq s2 r1 c2'
  end.
Proof. intros. unfold found1. cbn [pass1]. destruct c2; reflexivity. Qed.

Lemma pass1_eff : forall s2 l1 c2 init t,
  NoDup (types s2) -> NoDup (types l1) -> incl c2 s2 ->
  eff t (pass1 peq s2 l1 c2) init =
  match lookup t l1 with
  | None => init
  | Some d1 => match lookup t s2 with
               | None => None
               | Some d2 => if differ peq (mkF t d1) (mkF t d2) then ne d2 else init
               end
  end.
Proof.
  intros s2 l1. induction l1 as [|f1 r1 IH]; intros c2 init t ND2 ND1 HI.
  - reflexivity.
  - cbn [types map] in ND1. inversion ND1 as [|? ? Hn ND1']; subst.
    rewrite pass1_unfold. pose proof (found1_spec s2 c2 (ftype f1) ND2 HI) as FS.
    cbn [lookup]. destruct (found1 s2 c2 (ftype f1)) as [[f2 c2']|].
    + destruct FS as (T2 & L2 & HI').
      rewrite eff_app, (IH c2' _ t ND2 ND1' HI').
      destruct (N.eqb_spec (ftype f1) t) as [E|E].
      * subst t. assert (LN : lookup (ftype f1) r1 = None) by (apply lookup_None_notin; exact Hn).
        rewrite LN, L2. rewrite (differ_ext f1 f2).
        destruct (differ peq _ _); cbn [eff]; [|reflexivity].
        rewrite T2, N.eqb_refl. reflexivity.
      * assert (X : eff t (if differ peq f1 f2 then [f2] else []) init = init).
        { destruct (differ peq f1 f2); cbn [eff]; [|reflexivity].
          rewrite T2. destruct (N.eqb_spec (ftype f1) t); [contradiction|reflexivity]. }
        rewrite X. reflexivity.
    + cbn [eff ftype fdata ne]. rewrite (IH s2 _ t ND2 ND1' (incl_refl _)).
      destruct (N.eqb_spec (ftype f1) t) as [E|E].
      * subst t. assert (LN : lookup (ftype f1) r1 = None) by (apply lookup_None_notin; exact Hn).
        rewrite LN, FS. reflexivity.
      * reflexivity.
Qed.

Definition found2 (s1 c1 : list field) (t2 : N) : bool :=
  match c1 with
  | f1 :: _ => if ftype f1 =? t2 then true else match find_type t2 s1 with Some _ => true | None => false end
  | [] => match find_type t2 s1 with Some _ => true | None => false end
  end.

Lemma found2_spec : forall s1 c1 t2, incl c1 s1 ->
  found2 s1 c1 t2 = match lookup t2 s1 with Some _ => true | None => false end.
Proof.
  intros s1 c1 t2 HI. unfold found2.
  assert (F : match find_type t2 s1 with Some _ => true | None => false end
              = match lookup t2 s1 with Some _ => true | None => false end).
  { destruct (find_type t2 s1) as [[f r]|] eqn:E.
    - destruct (find_type_Some _ _ _ _ E) as (_ & B & _). rewrite B. reflexivity.
    - rewrite (find_type_None _ _ E). reflexivity. }
  destruct c1 as [|f1 c1']; [exact F|].
  destruct (N.eqb_spec (ftype f1) t2) as [E|E]; [|exact F].
  destruct (lookup t2 s1) eqn:L; [reflexivity|].
  exfalso. apply lookup_None_notin in L. apply L. rewrite <- E. apply in_map. apply HI. left. reflexivity.
Qed.

Lemma pass2_unfold : forall s1 f2 r2 c1,
  exists c1', incl c1 s1 -> incl c1' s1 /\
  pass2 s1 (f2 :: r2) c1 = (if found2 s1 c1 (ftype f2) then [] else [f2]) ++ pass2 s1 r2 c1'.
Proof.
  intros s1 f2 r2 c1. unfold found2. cbn [pass2]. destruct c1 as [|f1 c1'].
  - exists s1. intros _. split; [apply incl_refl|]. destruct (find_type (ftype f2) s1); reflexivity.
  - destruct (ftype f1 =? ftype f2).
    + exists c1'. intros HI. split; [intros x Hx; apply HI; right; exact Hx|reflexivity].
    + exists s1. intros _. split; [apply incl_refl|]. destruct (find_type (ftype f2) s1); reflexivity.
Qed.

Lemma pass2_eff : forall s1 l2 c1 init t,
  NoDup (types l2) -> incl c1 s1 ->
  eff t (pass2 s1 l2 c1) init =
  match lookup t l2 with
  | None => init
  | Some d2 => match lookup t s1 with Some _ => init | None => ne d2 end
  end.
Proof.
  intros s1 l2. induction l2 as [|f2 r2 IH]; intros c1 init t ND HI.
  - reflexivity.
  - cbn [types map] in ND. inversion ND as [|? ? Hn ND']; subst.
    destruct (pass2_unfold s1 f2 r2 c1) as (c1' & HU). destruct (HU HI) as (HI' & EQ). rewrite EQ.
    rewrite eff_app, (IH c1' _ t ND' HI'), (found2_spec s1 c1 (ftype f2) HI). cbn [lookup].
    destruct (N.eqb_spec (ftype f2) t) as [E|E].
    + subst t. assert (LN : lookup (ftype f2) r2 = None) by (apply lookup_None_notin; exact Hn).
      rewrite LN. destruct (lookup (ftype f2) s1); cbn [eff]; [reflexivity|].
      rewrite N.eqb_refl. reflexivity.
    + assert (X : eff t (if match lookup (ftype f2) s1 with Some _ => true | None => false end then [] else [f2]) init = init).
      { destruct (lookup (ftype f2) s1); cbn [eff]; [reflexivity|].
        destruct (N.eqb_spec (ftype f2) t); [contradiction|reflexivity]. }
      rewrite X. reflexivity.
Qed.

(* ---------- main theorem *)
(* relation between the payload obtained by overlaying and the payload of the live state *)
Definition same_field (t : N) (s0 : list field) (got want : option (list N)) : Prop :=
  match got, want with
  | None, None => True
  | Some a, Some b => a = b \/ (lookup t s0 = Some a /\ length a = length b /\ peq t a b = true)
  | _, _ => False
  end.

Definition wf_fields (s : list field) : Prop := NoDup (types s) /\ forall f, In f s -> fdata f <> [].

Lemma lookup_nonempty : forall s t d, (forall f, In f s -> fdata f <> []) -> lookup t s = Some d -> ne d = Some d.
Proof.
  induction s as [|f r IH]; intros t d H L; cbn [lookup] in L; [discriminate|].
  destruct (ftype f =? t).
  - inversion L; subst. specialize (H f (or_introl eq_refl)). destruct (fdata f); [contradiction|reflexivity].
  - apply (IH t d); [intros g Hg; apply H; right; exact Hg|exact L].
Qed.

Theorem diff_overlay : forall s0 s, NoDup (types s0) -> wf_fields s ->
  forall t, same_field t s0 (lookup t (overlay s0 (binary_diff peq s0 s))) (lookup t s).
Proof.
  intros s0 s ND0 [ND NE] t. unfold binary_diff.
  rewrite lookup_overlay, eff_app.
  rewrite (pass1_eff s s0 s _ t ND ND0 (incl_refl _)).
  rewrite (pass2_eff s0 s s0 _ t ND (incl_refl _)).
  unfold same_field.
  destruct (lookup t s) as [d|] eqn:L; destruct (lookup t s0) as [d0|] eqn:L0.
  - (* in both *)
    unfold differ, fsize. cbn [fdata ftype].
    destruct (N.eqb_spec (N.of_nat (length d0)) (N.of_nat (length d))) as [E|E].
    + destruct (peq t d0 d) eqn:P; cbn [negb].
      * right. repeat split; [lia|exact P].
      * rewrite (lookup_nonempty s t d NE L). left. reflexivity.
    + rewrite (lookup_nonempty s t d NE L). left. reflexivity.
  - rewrite (lookup_nonempty s t d NE L). left. reflexivity.
  - exact I.
  - exact I.
Qed.

(* with an exact comparison (memcmp) the overlay reproduces the live state exactly *)
Corollary diff_overlay_exact : (forall t a b, length a = length b -> peq t a b = true -> a = b) ->
  forall s0 s, NoDup (types s0) -> wf_fields s ->
  forall t, lookup t (overlay s0 (binary_diff peq s0 s)) = lookup t s.
Proof.
  intros EX s0 s ND0 WF t. pose proof (diff_overlay s0 s ND0 WF t) as H. unfold same_field in H.
  destruct (lookup t (overlay s0 (binary_diff peq s0 s))) as [a|]; destruct (lookup t s) as [b|]; try contradiction; [|reflexivity].
  destruct H as [->|(_ & LEN & P)]; [reflexivity|]. rewrite (EX t a b LEN P). reflexivity.
Qed.
End P.
