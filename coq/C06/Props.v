(* C06 property theorems ONLY (each closed by an already proved lemma) + assumptions. *)
From Coq Require Import Reals List NArith Bool Arith Lia.
From RV Require Import Common.Num Common.RealNum C05.Types Gen.Descriptors C06.Model C06.Run C06.Diff C06.Index Gen.C06Heartbeat C06.Heartbeat C06.Cadence C06.CadenceR C06.CadenceNum C06.Members C06.Time C07.Prefix C06.Writer.
Import ListNotations.
Open Scope N_scope.

(* Overlaying the delta computed by the transcribed reb_binary_diff (cursor behaviour included) on snapshot 0
   gives the live state, field by field, for ANY two field lists with pairwise distinct types: fields changed,
   grown, shrunk, new, vanished (size-0 header clears), reordered.  A field that is not re-emitted is equal
   to the live one up to the comparison function peq the encoder used. *)
Theorem C06_diff_overlay : forall peq s0 s, NoDup (types s0) -> wf_fields s ->
  forall t, same_field peq t s0 (lookup t (overlay s0 (binary_diff peq s0 s))) (lookup t s).
Proof. exact diff_overlay. Qed.
Print Assumptions C06_diff_overlay.

(* with an exact comparison (memcmp, all fields except particles / var_config) the snapshot IS the live state *)
Theorem C06_diff_overlay_exact : forall peq,
  (forall t a b, length a = length b -> peq t a b = true -> a = b) ->
  forall s0 s, NoDup (types s0) -> wf_fields s ->
  forall t, lookup t (overlay s0 (binary_diff peq s0 s)) = lookup t s.
Proof. exact diff_overlay_exact. Qed.
Print Assumptions C06_diff_overlay_exact.

(* the comparison the C code uses for particles (bitwise per member, pointer members ignored) records a change
   between +0.0 and -0.0 (model-level regression guard for the defect fixed by e4b5f07) *)
Example C06_signed_zero_is_a_difference :
  real_peq 85 86 85 (repeat 0 128) (repeat 0 23 ++ [128] ++ repeat 0 104) = false /\
  real_peq 85 86 85 (repeat 0 128) (repeat 0 96 ++ [1;2;3;4;5;6;7;8] ++ repeat 0 24) = true.
Proof. split; vm_compute; reflexivity. Qed.

(* The comparison of particle / var_config records is regenerated from the current binarydiff.c + rebound.h:
   records the encoder considers equal agree on every compared byte range, and on the current tree the compared
   members are ALL non-address members, each double compared bitwise.  Hence a field that is not re-emitted differs
   from the live one at most in address members (c, ap, sim), which are not state. *)
Theorem C06_compared_ranges_sound : forall rs p q, ranges_differ rs p q = false ->
  forall o l, In (o, l) rs -> sub o l p = sub o l q.
Proof. exact ranges_sound. Qed.
Print Assumptions C06_compared_ranges_sound.

Theorem C06_compared_members_complete :
  members_complete particle_members particle_diff_members particle_diff_bitwise &&
  members_complete varconfig_members varconfig_diff_members varconfig_diff_bitwise = true.
Proof. exact gen_members_complete. Qed.
Print Assumptions C06_compared_members_complete.

(* index builder on an archive made of any number of appended blobs: count, offsets, and per-snapshot time =
   the t field of the delta if it has one, else the time of snapshot 0 (the encoder omits t only when equal) *)
Theorem C06_index_of_appends : forall c, wf_cfg c -> forall h fs0 ds,
  wf_header c h -> wf_d c fs0 -> Forall (small_d c) ds -> N.of_nat (length ds) < 2^32 ->
  let file := archive c h fs0 ds in
  index_loop c (S (length file)) true file 0 []
  = ((0, tof c fs0 0) :: offs c (tof c fs0 0) (lenN (h ++ ser fs0 ++ endhdr c) + 12) ds, false, false).
Proof. exact index_of_chain. Qed.
Print Assumptions C06_index_of_appends.

(* the time the index records for an appended snapshot (t field of its delta, else the time of snapshot 0:
   C06_index_of_appends) IS the live time of that snapshot, for the delta the encoder produces, whenever the
   comparison used for the t field is exact (memcmp) *)
Theorem C06_index_time_is_live_time : forall c peq s0 s tb0 tb,
  NoDup (types s0) -> NoDup (types s) ->
  lookup (ty_t c) s0 = Some tb0 -> lookup (ty_t c) s = Some tb -> tb <> [] ->
  (length tb0 = length tb -> peq (ty_t c) tb0 tb = true -> tb0 = tb) ->
  tof c (binary_diff peq s0 s) (de tb0) = de tb.
Proof. exact index_time_live. Qed.
Print Assumptions C06_index_time_is_live_time.

(* the model writer produces the chain layout: save_append (= reb_simulation_save_to_file on an existing file: walk
   over blob 0, corruption test, in-place trailer patch, diff, END, trailer) applied to an intact archive appends one
   blob; hence every file produced from a first snapshot by any number of appends is an `archive` and
   C06_index_of_appends applies to it *)
Theorem C06_writer_produces_chain : forall c, wf_cfg c -> forall peq h fs0 h' ss ds,
  wf_header c h -> wf_d c fs0 -> length h' = 64%nat -> Forall (small_d c) ds ->
  Forall (fun s' => wf_d c s' /\ small_d c (binary_diff peq fs0 s')) ss ->
  N.of_nat (length ds + length ss) < 2^32 ->
  fold_left (fun file s' => save_append peq c file (stream_of c h' s')) ss (archive c h fs0 ds)
  = archive c h fs0 (ds ++ map (binary_diff peq fs0) ss).
Proof. exact writer_layout. Qed.
Print Assumptions C06_writer_produces_chain.

Theorem C06_first_file_is_archive : forall c h fs0, first_file c h fs0 = archive c h fs0 [].
Proof. exact first_file_archive. Qed.

(* the cadence state a snapshot stores is the live one: in all three branches of the heartbeat (statement order
   regenerated from simulationarchive.c) the threshold is advanced before the save, so snapshot.next(_step) equals the
   value the live simulation continues with *)
Theorem C06_snapshot_stores_live_schedule : forall (T : Type) (adv : T -> T) (next : T),
  hb_exec adv hb_order_interval next None = (adv next, Some (adv next)) /\
  hb_exec adv hb_order_step next None = (adv next, Some (adv next)) /\
  hb_exec adv hb_order_walltime next None = (adv next, Some (adv next)).
Proof. exact stores_live_schedule. Qed.
Print Assumptions C06_snapshot_stores_live_schedule.

Theorem C06_hb_step_is_exec : forall auto next s, (next <=? s)%N = true ->
  hb_step auto next s = (true, fst (hb_exec (fun x => (x + auto)%N) hb_order_step next None)).
Proof. exact hb_step_is_exec. Qed.

(* "is a snapshot due" is tested with <= in all three branches (operator regenerated from the C text) ... *)
Theorem C06_thresholds_compared_with_le :
  hb_cmp_interval = CmpLe /\ hb_cmp_step = CmpLe /\ hb_cmp_walltime = CmpLe.
Proof. exact thresholds_compared_with_le. Qed.

(* ... hence overdue => written at the first opportunity: a heartbeat that finds next_step in the past (the simulation
   moved past it without a heartbeat: manual step()/steps(k), or a phase without an attached archive) writes the
   snapshot now and stays on the original grid; a threshold in the future writes nothing *)
Theorem C06_overdue_written_at_once : forall auto next x r, (next <= x)%N ->
  exists out fin, hb_seq hb_cmp_step auto next (x :: r) = (x :: out, fin) /\
                  hb_seq hb_cmp_step auto (next + auto)%N r = (out, fin).
Proof. exact overdue_written_at_once. Qed.
Print Assumptions C06_overdue_written_at_once.
Theorem C06_not_due_no_snapshot : forall auto next x r, (x < next)%N ->
  hb_seq hb_cmp_step auto next (x :: r) = hb_seq hb_cmp_step auto next r.
Proof. exact not_due_no_snapshot. Qed.
Theorem C06_hb_seq_consecutive : forall auto n next s,
  fst (hb_seq hb_cmp_step auto next (nseq s n)) = hb_run auto next s n.
Proof. exact hb_seq_consecutive. Qed.

(* automatic snapshots by step count: exactly at steps_done = s0 + j*auto *)
Theorem C06_cadence_step : forall auto s0 n x, 0 < auto ->
  In x (hb_run auto s0 s0 n) <-> (s0 <= x < s0 + N.of_nat n /\ (x - s0) mod auto = 0).
Proof. exact cadence_step. Qed.
Print Assumptions C06_cadence_step.

(* automatic snapshots by interval, over the reals, for heartbeat times ts that increase by at most one interval
   per step, starting with a pending threshold next > p (p = time of the previous heartbeat; times and thresholds
   multiplied by sign(dt), see CadenceR.v): the thresholds answered are next, next+I, next+2I, ... (one snapshot
   per k, no gaps, no repeats) and each snapshot is taken exactly at the FIRST heartbeat whose time reached it *)
Theorem C06_cadence_interval_one_per_k : forall (I : R) ts next,
  map snd (runI I next ts) = thresholds I next (length (runI I next ts)).
Proof. exact interval_thresholds. Qed.
Print Assumptions C06_cadence_interval_one_per_k.

Theorem C06_cadence_interval_first_boundary : forall (I : R) ts p next, (0 < I)%R -> (p < next)%R -> incr I p ts ->
  forall s T, In (s, T) (runI I next ts) ->
  (T <= s)%R /\ (forall u, In u ts -> (u < s)%R -> (u < T)%R) /\ (p < T)%R.
Proof. exact interval_first. Qed.
Print Assumptions C06_cadence_interval_first_boundary.

(* corners of the cadence domain (what the code does, tied bit for bit by tools/c06.py 'autoF' / 'automix' / 'disabled'):
   interval (walltime, step) = 0: the branch guard auto != 0 is false, nothing is ever written (RunF.run_thrF guard);
   interval < 0 with dt > 0 (or > 0 with dt < 0): the threshold moves away, EVERY heartbeat writes a snapshot;
   interval = NaN: one snapshot at the first heartbeat, then never (threshold NaN); interval = inf or longer than the run:
   one snapshot; subnormal interval: absorbed, every heartbeat; step = 1: every heartbeat; step >= 2^63: one snapshot
   (next_step does not wrap before steps_done reaches it).  The theorems C06_cadence_interval_* require 0 < I and steps
   <= I; outside of that only the bit-exact tie speaks. *)

(* the heartbeat threshold logic is ONE Num-polymorphic term (CadenceNum.run_thr): its binary64 instance is compared
   bit for bit with the library (snapshot times and the accumulated simulationarchive_next, incl. absorbed tiny
   intervals); its real instance is runI, for dt > 0 and (negated) for dt < 0, so the two cadence theorems above are
   statements about that term *)
Theorem C06_cadence_term_forward : forall (I : R) ts next, fst (run_thr RNum 1%R I next ts) = runI I next ts.
Proof. exact run_thr_R_forward. Qed.
Theorem C06_cadence_term_backward : forall (I : R) ts next,
  map (fun p => (- fst p, - snd p)%R) (fst (run_thr RNum (-1)%R I next ts)) = runI I (- next)%R (map Ropp ts).
Proof. exact run_thr_R_backward. Qed.
Print Assumptions C06_cadence_term_backward.

(* walltime cadence: same term with sign 1 over r->walltime; after a restart the attach function sets
   next = walltime unconditionally, so the first heartbeat writes a snapshot at once (documented duplicate) *)
Theorem C06_walltime_restart_snapshots_immediately : forall (W wall : R) r,
  exists out fin, run_thr RNum 1%R W wall (wall :: r) = ((wall, wall) :: out, fin).
Proof. exact walltime_restart_snapshots_immediately. Qed.

(* Non-vacuity: a two-delta archive with a vanished field and a t field satisfies every hypothesis. *)
Example C06_hypotheses_inhabited :
  let c := mkCfg 9999 1329743186 2 3 in
  let h := le 4 1329743186 ++ repeat 32 60 in
  let s0 := [mkF 2 [0;0;0;0;0;0;240;63]; mkF 85 [1;2;3]; mkF 40 [7]] in
  let s := [mkF 2 [0;0;0;0;0;0;0;64]; mkF 40 [7]; mkF 90 [4;4]] in
  wf_cfg c /\ wf_header c h /\ wf_d c s0 /\ NoDup (types s0) /\ wf_fields s /\
  Forall (small_d c) [binary_diff (fun _ => leqb) s0 s; []] /\
  binary_diff (fun _ => leqb) s0 s = [mkF 2 [0;0;0;0;0;0;0;64]; mkF 85 []; mkF 90 [4;4]].
Proof.
  cbv zeta. split; [constructor; cbn; lia|]. split.
  { eexists _, _. split; [vm_compute; reflexivity|reflexivity]. }
  assert (W : forall f, In f [mkF 2 [0;0;0;0;0;0;240;63]; mkF 85 [1;2;3]; mkF 40 [7]; mkF 2 [0;0;0;0;0;0;0;64]; mkF 85 []; mkF 90 [4;4]] ->
              wf_field (mkCfg 9999 1329743186 2 3) f).
  { intros f Hf. cbn in Hf. unfold wf_field.
    repeat (destruct Hf as [<-|Hf]; [cbn; repeat split; try lia; try discriminate; intros; try discriminate; try lia|]); destruct Hf. }
  split; [repeat constructor; apply W; cbn; tauto|].
  split; [repeat constructor; cbn; intuition discriminate|].
  split. { split; [repeat constructor; cbn; intuition discriminate|]. intros f Hf. cbn in Hf. intuition (subst; discriminate). }
  split; [|vm_compute; reflexivity].
  repeat constructor; try (vm_compute; reflexivity); try (apply W; cbn; tauto).
Qed.
