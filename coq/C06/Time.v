(* C06: the time the index records for an appended snapshot is the live time of that snapshot:
   the t field of its delta if the encoder emitted one, else the time of snapshot 0 (emitted iff different). *)
From Coq Require Import List NArith Bool Arith Lia.
From RV Require Import C06.Model C06.Diff C06.Index.
Import ListNotations.
Open Scope N_scope.

Section T.
Variable c : cfg.
Variable peq : N -> list N -> list N -> bool.

Lemma tof_eff : forall delta d0,
  (forall f, In f delta -> ftype f = ty_t c -> fdata f <> []) ->
  exists d, eff (ty_t c) delta (Some d0) = Some d /\ tof c delta (de d0) = de d.
Proof.
  induction delta as [|f r IH]; intros d0 H.
  - exists d0. split; reflexivity.
  - cbn [eff tof]. destruct (N.eqb_spec (ftype f) (ty_t c)) as [E|E].
    + assert (NE : fdata f <> []) by (apply H; [left; reflexivity|exact E]).
      unfold ne. destruct (fdata f) as [|x l] eqn:D; [contradiction|].
      apply IH. intros g Hg. apply H. right. exact Hg.
    + apply IH. intros g Hg. apply H. right. exact Hg.
Qed.

Lemma pass2_in : forall s1 l2 c1 f, In f (pass2 s1 l2 c1) -> In f l2.
Proof.
  intros s1 l2. induction l2 as [|f2 r2 IH]; intros c1 f H; cbn [pass2] in H; [destruct H|].
  destruct c1 as [|f1 c1'].
  - destruct (find_type (ftype f2) s1); [right; eapply IH; exact H|].
    destruct H as [<-|H]; [left; reflexivity|right; eapply IH; exact H].
  - destruct (ftype f1 =? ftype f2); [right; eapply IH; exact H|].
    destruct (find_type (ftype f2) s1); [right; eapply IH; exact H|].
    destruct H as [<-|H]; [left; reflexivity|right; eapply IH; exact H].
Qed.

Lemma pass1_t_nonempty : forall s2 tb, NoDup (types s2) -> lookup (ty_t c) s2 = Some tb -> tb <> [] ->
  forall l1 c2 f, incl c2 s2 -> In f (pass1 peq s2 l1 c2) -> ftype f = ty_t c -> fdata f <> [].
Proof.
  intros s2 tb ND L NE. induction l1 as [|f1 r1 IH]; intros c2 f HI H T; [destruct H|].
  rewrite pass1_unfold in H. pose proof (found1_spec s2 c2 (ftype f1) ND HI) as FS.
  destruct (found1 s2 c2 (ftype f1)) as [[f2 c2']|].
  - destruct FS as (T2 & L2 & HI'). apply in_app_or in H. destruct H as [H|H].
    + destruct (differ peq f1 f2); [|destruct H]. destruct H as [<-|[]].
      rewrite <- T2, T in L2. rewrite L in L2. inversion L2; subst. exact NE.
    + eapply IH; eassumption.
  - destruct H as [<-|H].
    + cbn [ftype] in T. rewrite T in FS. rewrite L in FS. discriminate.
    + eapply IH; [apply incl_refl|exact H|exact T].
Qed.

Theorem index_time_live : forall s0 s tb0 tb,
  NoDup (types s0) -> NoDup (types s) ->
  lookup (ty_t c) s0 = Some tb0 -> lookup (ty_t c) s = Some tb -> tb <> [] ->
  (length tb0 = length tb -> peq (ty_t c) tb0 tb = true -> tb0 = tb) ->
  tof c (binary_diff peq s0 s) (de tb0) = de tb.
Proof.
  intros s0 s tb0 tb ND0 ND L0 L NE EX.
  destruct (tof_eff (binary_diff peq s0 s) tb0) as (d & E & T).
  - intros f Hf Tf. unfold binary_diff in Hf. apply in_app_or in Hf. destruct Hf as [Hf|Hf].
    + eapply (pass1_t_nonempty s tb ND L NE s0 s f (incl_refl _)); eassumption.
    + apply pass2_in in Hf. pose proof (In_lookup_nodup s f ND Hf) as LF. rewrite Tf, L in LF.
      inversion LF; subst. exact NE.
  - rewrite T. f_equal. unfold binary_diff in E. rewrite eff_app in E.
    rewrite (pass1_eff peq s s0 s _ (ty_t c) ND ND0 (incl_refl _)) in E.
    rewrite (pass2_eff s0 s s0 _ (ty_t c) ND (incl_refl _)) in E.
    rewrite L0, L in E. unfold differ, fsize in E. cbn [fdata ftype] in E.
    assert (NT : ne tb = Some tb) by (destruct tb; [contradiction|reflexivity]).
    destruct (N.eqb_spec (N.of_nat (length tb0)) (N.of_nat (length tb))) as [EL|EL].
    + destruct (peq (ty_t c) tb0 tb) eqn:P; cbn [negb] in E.
      * inversion E as [E1]. rewrite <- E1. apply EX; [lia|reflexivity].
      * rewrite NT in E. inversion E. reflexivity.
    + rewrite NT in E. inversion E. reflexivity.
Qed.
End T.
