(* C06: threshold cadences of reb_simulationarchive_heartbeat (auto_interval and auto_walltime branches) as ONE
   Num-polymorphic Gallina term.  The binary64 instance (FNum) is compared bit for bit with the library (snapshot
   times and the accumulated threshold simulationarchive_next); the real instance (RNum) is shown equal to runI of
   CadenceR.v, for both directions of time, so the cadence theorems are about this very term. *)
From Coq Require Import List Reals Lra.
From RV Require Import Common.Num Common.RealNum C06.CadenceR.
Import ListNotations.

Section G.
Context {T : Type} (Nm : Num T).
(* interval branch:  sign = dt>0 ? 1 : -1;  if (sign*next <= sign*t) { next += sign*interval; snapshot }
   walltime branch:  the same with sign = 1, x = r->walltime, I = auto_walltime *)
Definition hb_thr (sign I next x : T) : bool * T :=
  if nleb Nm (nmul Nm sign next) (nmul Nm sign x) then (true, nadd Nm next (nmul Nm sign I)) else (false, next).

(* heartbeats at the successive values xs; result: (value at the snapshot, threshold answered) list, final threshold *)
Fixpoint run_thr (sign I next : T) (xs : list T) : list (T * T) * T :=
  match xs with
  | [] => ([], next)
  | x :: r => let '(snap, next') := hb_thr sign I next x in
              let '(out, fin) := run_thr sign I next' r in
              ((if snap then [(x, next)] else []) ++ out, fin)
  end.

(* running the heartbeats of a prefix and then of the rest = running them all: the only state carried over is the
   threshold.  Holds for every arithmetic (reals, binary64) and both directions of time. *)
Lemma run_thr_app : forall sign I a b next,
  run_thr sign I next (a ++ b) =
  (fst (run_thr sign I next a) ++ fst (run_thr sign I (snd (run_thr sign I next a)) b),
   snd (run_thr sign I (snd (run_thr sign I next a)) b)).
Proof.
  intros sign I. induction a as [|x r IH]; intros b next.
  - cbn [app run_thr fst snd]. destruct (run_thr sign I next b). reflexivity.
  - cbn [app run_thr]. destruct (hb_thr sign I next x) as [snap next'].
    rewrite IH. destruct (run_thr sign I next' r) as [o1 n1]. cbn [fst snd].
    destruct (run_thr sign I n1 b) as [o2 n2]. cbn [fst snd]. rewrite app_assoc. reflexivity.
Qed.
End G.

Open Scope R_scope.

Lemma run_thr_R_forward : forall I ts next, fst (run_thr RNum 1 I next ts) = runI I next ts.
Proof.
  intros I. induction ts as [|t r IH]; intros next; cbn [run_thr runI]; [reflexivity|].
  unfold hb_thr. cbn [nleb nmul nadd RNum]. unfold Rleb.
  destruct (Rle_dec (1 * next) (1 * t)) as [A|A]; destruct (Rle_dec next t) as [B|B]; try (exfalso; lra).
  - specialize (IH (next + 1 * I)). destruct (run_thr RNum 1 I (next + 1 * I) r) as [out fin]. cbn [fst] in *.
    cbn [app]. f_equal. rewrite IH. f_equal. lra.
  - specialize (IH next). destruct (run_thr RNum 1 I next r) as [out fin]. cbn [fst app] in *. exact IH.
Qed.

(* backward integrations (dt < 0): the same statement about the negated times and thresholds *)
Lemma run_thr_R_backward : forall I ts next,
  map (fun p => (- fst p, - snd p)) (fst (run_thr RNum (-1) I next ts)) = runI I (- next) (map Ropp ts).
Proof.
  intros I. induction ts as [|t r IH]; intros next; cbn [run_thr runI map]; [reflexivity|].
  unfold hb_thr. cbn [nleb nmul nadd RNum]. unfold Rleb.
  destruct (Rle_dec (-1 * next) (-1 * t)) as [A|A]; destruct (Rle_dec (- next) (- t)) as [B|B]; try (exfalso; lra).
  - specialize (IH (next + -1 * I)). destruct (run_thr RNum (-1) I (next + -1 * I) r) as [out fin]. cbn [fst] in *.
    cbn [app map fst snd]. f_equal. rewrite IH. f_equal. lra.
  - specialize (IH next). destruct (run_thr RNum (-1) I next r) as [out fin]. cbn [fst app] in *. exact IH.
Qed.

(* walltime cadence after a restart: reb_simulation_save_to_file_walltime sets next = walltime unconditionally, so
   the very first heartbeat of the continued run writes a snapshot (the library documents this duplicate) *)
Lemma walltime_restart_snapshots_immediately : forall W wall r,
  exists out fin, run_thr RNum 1 W wall (wall :: r) = ((wall, wall) :: out, fin).
Proof.
  intros W wall r. cbn [run_thr]. unfold hb_thr. cbn [nleb nmul nadd RNum]. unfold Rleb.
  destruct (Rle_dec (1 * wall) (1 * wall)) as [A|A]; [|exfalso; lra].
  destruct (run_thr RNum 1 W (wall + 1 * W) r) as [out fin]. exists out, fin. reflexivity.
Qed.
