(* C06: byte-level lemmas (encodings, field walk) and the index of a chain of appended snapshots. *)
From Coq Require Import List NArith Bool Arith Lia.
From RV Require Import C06.Model.
Import ListNotations.
Open Scope N_scope.

(* ---------- encodings *)
Lemma de_le : forall n v, v < 256 ^ N.of_nat n -> de (le n v) = v.
Proof.
  induction n as [|n IH]; intros v H.
  - cbn in *. lia.
  - cbn [le de]. rewrite IH.
    + pose proof (N.div_mod' v 256). lia.
    + rewrite Nat2N.inj_succ, N.pow_succ_r' in H. apply N.div_lt_upper_bound; lia.
Qed.

Lemma le_length : forall n v, length (le n v) = n.
Proof. induction n; intros; cbn [le length]; [reflexivity|rewrite IHn; reflexivity]. Qed.

Lemma hdr_length : forall t n, length (hdr t n) = 16%nat.
Proof. intros. unfold hdr. rewrite !app_length, !le_length. reflexivity. Qed.

Lemma read_hdr_hdr : forall t n r, t < 2^32 -> n < 2^64 -> read_hdr (hdr t n ++ r) = Some (t, n, r).
Proof.
  intros t n r Ht Hn.
  change (read_hdr (hdr t n ++ r)) with (Some (de (le 4 t), de (le 8 n), r)).
  rewrite !de_le; [reflexivity|exact Hn|exact Ht].
Qed.

Lemma read_hdr_short : forall s, (length s < 16)%nat -> read_hdr s = None.
Proof.
  intros s H. unfold read_hdr.
  do 16 (destruct s as [|? s]; [reflexivity|]). cbn [length] in H. lia.
Qed.

Lemma read_hdr_app : forall a b t n r, read_hdr a = Some (t, n, r) -> read_hdr (a ++ b) = Some (t, n, r ++ b).
Proof.
  intros a b t n r H. unfold read_hdr in *.
  do 16 (destruct a as [|? a]; [discriminate|]). inversion H; subst. reflexivity.
Qed.

Lemma lenN_app : forall A (a b : list A), lenN (a ++ b) = lenN a + lenN b.
Proof. intros. unfold lenN. rewrite app_length. lia. Qed.

Lemma skipN_app : forall A (a b : list A), skipN (lenN a) (a ++ b) = b.
Proof.
  intros. unfold skipN. rewrite lenN_app.
  destruct (N.ltb_spec (lenN a + lenN b) (lenN a)); [lia|].
  unfold lenN. rewrite Nat2N.id. rewrite skipn_app, skipn_all, Nat.sub_diag. reflexivity.
Qed.

Lemma takeN_app : forall A (a b : list A), takeN (lenN a) (a ++ b) = a.
Proof.
  intros. unfold takeN. rewrite lenN_app.
  destruct (N.ltb_spec (lenN a + lenN b) (lenN a)); [lia|].
  unfold lenN. rewrite Nat2N.id. rewrite firstn_app, firstn_all, Nat.sub_diag. cbn. apply app_nil_r.
Qed.

Lemma skipN_beyond : forall A n (l : list A), lenN l <= n -> skipN n l = [].
Proof.
  intros A n l H. unfold skipN. destruct (N.ltb_spec (lenN l) n); [reflexivity|].
  assert (n = lenN l) by lia. subst. unfold lenN. rewrite Nat2N.id. apply skipn_all.
Qed.

Lemma ser_cons : forall f r, ser (f :: r) = hdr (ftype f) (fsize f) ++ fdata f ++ ser r.
Proof. intros. unfold ser. cbn [flat_map]. unfold ser1. rewrite <- app_assoc. reflexivity. Qed.

Lemma lenN_ser_cons : forall f r, lenN (ser (f :: r)) = 16 + fsize f + lenN (ser r).
Proof.
  intros. rewrite ser_cons, !lenN_app. unfold lenN at 1. rewrite hdr_length. unfold fsize, lenN. lia.
Qed.

Lemma ser_length_ge : forall fs, (length fs <= length (ser fs))%nat.
Proof.
  induction fs as [|f r IH]; [cbn; lia|]. rewrite ser_cons, !app_length, hdr_length. cbn [length]. lia.
Qed.

(* ---------- well-formedness *)
Record wf_cfg (c : cfg) : Prop := {
  end_small : ty_end c < 2^32;
  end_header : ty_end c <> ty_header c;
  end_t : ty_end c <> ty_t c }.

Definition wf_field (c : cfg) (f : field) : Prop :=
  ftype f <> ty_end c /\ ftype f <> ty_header c /\ ftype f < 2^32 /\ fsize f < 2^64 /\
  (ftype f = ty_t c -> fdata f <> []).
Definition wf_d (c : cfg) (d : list field) : Prop := Forall (wf_field c) d.

(* the time recorded for a blob: payload of its last t field, else the initial value (0: calloc) *)
Fixpoint tof (c : cfg) (fs : list field) (t0 : N) : N :=
  match fs with
  | [] => t0
  | f :: r => tof c r (if ftype f =? ty_t c then de (fdata f) else t0)
  end.

Section W.
Variable c : cfg.
Hypothesis WC : wf_cfg c.

Lemma neqb : forall a b : N, a <> b -> (a =? b) = false.
Proof. intros. apply N.eqb_neq. assumption. Qed.

Lemma walk_end : forall fuel tail pos t0,
  walk_blob c (S fuel) (endhdr c ++ tail) pos t0 = WOk (pos + 16) tail t0.
Proof.
  intros. cbn [walk_blob]. unfold endhdr. rewrite read_hdr_hdr; [|apply WC|reflexivity].
  rewrite (neqb _ _ (end_header c WC)), (neqb _ _ (end_t c WC)), N.eqb_refl. reflexivity.
Qed.

Lemma walk_ser : forall fs fuel tail pos t0, wf_d c fs -> (length fs < fuel)%nat ->
  walk_blob c fuel (ser fs ++ endhdr c ++ tail) pos t0 = WOk (pos + lenN (ser fs) + 16) tail (tof c fs t0).
Proof.
  induction fs as [|f r IH]; intros fuel tail pos t0 WF HF.
  - destruct fuel; [cbn in HF; lia|]. cbn [ser flat_map app tof]. rewrite walk_end. f_equal. unfold lenN. cbn. lia.
  - destruct fuel; [cbn in HF; lia|]. inversion WF as [|? ? Hf WF']; subst.
    destruct Hf as (NE & NH & TS & SS & TN).
    rewrite lenN_ser_cons, ser_cons. rewrite <- !app_assoc. cbn [walk_blob].
    rewrite read_hdr_hdr; [|exact TS|exact SS].
    rewrite (neqb _ _ NH), (neqb _ _ NE).
    change (fsize f) with (lenN (fdata f)).
    rewrite skipN_app, takeN_app. cbn [tof].
    destruct (N.eqb_spec (ftype f) (ty_t c)) as [E|E].
    + rewrite lenN_app. destruct (N.ltb_spec (lenN (fdata f) + lenN (ser r ++ endhdr c ++ tail)) (lenN (fdata f))); [lia|].
      assert (Z : (lenN (fdata f) =? 0) = false).
      { apply N.eqb_neq. specialize (TN E). unfold lenN. destruct (fdata f); [contradiction|cbn; lia]. }
      rewrite Z. rewrite IH; [|exact WF'|cbn in HF; lia]. f_equal. lia.
    + rewrite IH; [|exact WF'|cbn in HF; lia]. f_equal. lia.
Qed.

(* ---------- the chain of appended blobs *)
Definition blen (d : list field) : N := lenN (ser d) + 16.
Fixpoint chain (idx prev : N) (ds : list (list field)) : list N :=
  match ds with
  | [] => trailer idx prev 0
  | d :: r => trailer idx prev (blen d) ++ ser d ++ endhdr c ++ chain (idx + 1) (blen d) r
  end.
Definition archive (h : list N) (fs0 : list field) (ds : list (list field)) : list N :=
  h ++ ser fs0 ++ endhdr c ++ chain 0 0 ds.

(* expected index entries of the appended blobs, the first one starting at offset p *)
Fixpoint offs (T0 p : N) (ds : list (list field)) : list (N * N) :=
  match ds with
  | [] => []
  | d :: r => (p, tof c d T0) :: offs T0 (p + blen d + 12) r
  end.

Lemma tfirst_snoc : forall acc x y, tfirst ((acc ++ [x]) ++ y) = tfirst (acc ++ [x]).
Proof. intros [|a acc] x y; reflexivity. Qed.

Lemma firstn_exact : forall A n (a b : list A), length a = n -> firstn n (a ++ b) = a.
Proof. intros A n a b H. subst n. rewrite firstn_app, Nat.sub_diag, firstn_all. cbn. apply app_nil_r. Qed.
Lemma skipn_exact : forall A n (a b : list A), length a = n -> skipn n (a ++ b) = b.
Proof. intros A n a b H. subst n. rewrite skipn_app, Nat.sub_diag, skipn_all. reflexivity. Qed.

Lemma trailer_length : forall i p n, length (trailer i p n) = 12%nat.
Proof. intros. unfold trailer. rewrite !app_length, !le_length. reflexivity. Qed.

Lemma read_blob_trailer : forall i p n tail, i < 2^32 -> p < 2^32 -> n < 2^32 ->
  read_blob (trailer i p n ++ tail) = mkB true 12 i p n.
Proof.
  intros i p n tail Hi Hp Hn.
  unfold read_blob.
  cbv zeta. rewrite (firstn_exact N 12 (trailer i p n) tail (trailer_length i p n)).
  unfold lenN. rewrite app_length, trailer_length.
  replace (12 <=? N.of_nat (12 + length tail)) with true by (symmetry; apply N.leb_le; lia).
  unfold trailer.
  rewrite (firstn_exact _ 4 (le 4 i) _ (le_length 4 i)).
  rewrite (skipn_exact _ 4 (le 4 i) _ (le_length 4 i)).
  rewrite (firstn_exact _ 4 (le 4 p) _ (le_length 4 p)).
  replace (skipn 8 (le 4 i ++ le 4 p ++ le 4 n)) with (le 4 n).
  2:{ rewrite app_assoc. symmetry. apply skipn_exact. rewrite app_length, !le_length. reflexivity. }
  replace (firstn 4 (le 4 n)) with (le 4 n) by (symmetry; apply firstn_all2; rewrite le_length; lia).
  rewrite !de_le; [reflexivity|exact Hn|exact Hp|exact Hi].
Qed.

Lemma skipn12_trailer : forall i p n tail, skipn 12 (trailer i p n ++ tail) = tail.
Proof. intros. apply skipn_exact. apply trailer_length. Qed.

Definition small_d (d : list field) : Prop := wf_d c d /\ blen d < 2^32.

Lemma chain_head : forall idx prev ds, exists nx tail,
  chain idx prev ds = trailer idx prev nx ++ tail /\
  match ds with [] => nx = 0 /\ tail = [] | d :: r => nx = blen d /\ tail = ser d ++ endhdr c ++ chain (idx + 1) (blen d) r end.
Proof.
  intros. destruct ds as [|d r]; cbn [chain].
  - exists 0, []. rewrite app_nil_r. auto.
  - eexists _, _. split; [reflexivity|auto].
Qed.

(* the for-loop of the index builder standing at the start of a blob body whose walk succeeds *)
Lemma index_chain : forall ds fuel first body pos acc idx prev t,
  (forall tail, walk_blob c (S (length (body ++ tail))) (body ++ tail) pos (if (first : bool) then 0 else tfirst acc)
                = WOk (pos + lenN body) tail t) ->
  (first = false -> prev = lenN body) ->
  idx + N.of_nat (length ds) < 2^32 -> prev < 2^32 -> Forall small_d ds -> (length ds < fuel)%nat ->
  index_loop c fuel first (body ++ chain idx prev ds) pos acc
  = (acc ++ (pos, t) :: offs (tfirst (acc ++ [(pos, t)])) (pos + lenN body + 12) ds, false, false).
Proof.
  induction ds as [|d r IH]; intros fuel first body pos acc idx prev t HW HP HI HPs SM HF.
  - destruct fuel; [cbn in HF; lia|]. cbn [chain index_loop]. rewrite HW.
    rewrite <- (app_nil_r (trailer idx prev 0)).
    rewrite read_blob_trailer; [|cbn [length] in HI; lia|exact HPs|reflexivity].
    cbn [b_len b_prev b_ok b_next negb offs].
    assert (C : (negb first && negb (prev + 12 =? pos + lenN body + 12 - pos)) = false).
    { destruct first; [reflexivity|]. rewrite (HP eq_refl). cbn [negb andb].
      replace (pos + lenN body + 12 - pos) with (lenN body + 12) by lia. rewrite N.eqb_refl. reflexivity. }
    rewrite C. cbn [N.eqb orb]. reflexivity.
  - destruct fuel; [cbn in HF; lia|]. cbn [chain index_loop]. rewrite HW.
    inversion SM as [|? ? [WD SB] SM']; subst.
    rewrite read_blob_trailer; [|cbn [length] in HI; lia|exact HPs|exact SB].
    cbn [b_len b_prev b_ok b_next negb offs].
    assert (C : (negb first && negb (prev + 12 =? pos + lenN body + 12 - pos)) = false).
    { destruct first; [reflexivity|]. rewrite (HP eq_refl). cbn [negb andb].
      replace (pos + lenN body + 12 - pos) with (lenN body + 12) by lia. rewrite N.eqb_refl. reflexivity. }
    rewrite C.
    assert (NZ : (blen d =? 0) = false) by (apply N.eqb_neq; unfold blen; lia).
    rewrite NZ. cbn [orb]. rewrite skipn12_trailer.
    rewrite app_assoc.
    assert (BL : lenN (ser d ++ endhdr c) = blen d).
    { rewrite lenN_app. unfold blen, endhdr, lenN. rewrite hdr_length. lia. }
    rewrite (IH fuel false (ser d ++ endhdr c) (pos + lenN body + 12) (acc ++ [(pos, t)]) (idx + 1) (blen d)
                (tof c d (tfirst (acc ++ [(pos, t)])))).
    + rewrite BL, tfirst_snoc. rewrite <- app_assoc. reflexivity.
    + intros tail. rewrite BL. rewrite <- app_assoc. rewrite walk_ser; [|exact WD|].
      * f_equal. unfold blen. lia.
      * pose proof (ser_length_ge d). rewrite !app_length. lia.
    + intros _. rewrite BL. reflexivity.
    + cbn [length] in HI. lia.
    + exact SB.
    + exact SM'.
    + cbn [length] in HF. lia.
Qed.

(* the 64-byte header parses as a field of type HEADER followed by 48 bytes *)
Definition wf_header (h : list N) : Prop :=
  exists sz r, read_hdr h = Some (ty_header c, sz, r) /\ length r = 48%nat.

Lemma walk_first : forall h fs0 tail, wf_header h -> wf_d c fs0 ->
  walk_blob c (S (length ((h ++ ser fs0 ++ endhdr c) ++ tail))) ((h ++ ser fs0 ++ endhdr c) ++ tail) 0 0
  = WOk (0 + lenN (h ++ ser fs0 ++ endhdr c)) tail (tof c fs0 0).
Proof.
  intros h fs0 tail (sz & r & RH & LR) WF.
  assert (LH : length h = 64%nat).
  { unfold read_hdr in RH. do 16 (destruct h as [|? h]; [discriminate|]). inversion RH; subst. cbn [length]. lia. }
  rewrite <- !app_assoc. cbn [walk_blob]. rewrite (read_hdr_app _ _ _ _ _ RH). rewrite N.eqb_refl.
  replace 48 with (lenN r) by (unfold lenN; rewrite LR; reflexivity). rewrite skipN_app.
  rewrite walk_ser; [|exact WF|].
  - f_equal. rewrite !lenN_app. unfold endhdr, lenN. rewrite hdr_length, LH. lia.
  - pose proof (ser_length_ge fs0). rewrite !app_length. lia.
Qed.

(* build_index of an archive made of any number of appended blobs: count, offsets and times *)
Theorem index_of_chain : forall h fs0 ds, wf_header h -> wf_d c fs0 -> Forall small_d ds ->
  N.of_nat (length ds) < 2^32 ->
  let file := archive h fs0 ds in
  index_loop c (S (length file)) true file 0 []
  = ((0, tof c fs0 0) :: offs (tof c fs0 0) (lenN (h ++ ser fs0 ++ endhdr c) + 12) ds, false, false).
Proof.
  intros h fs0 ds WH WF SM HL file. unfold file, archive.
  replace (h ++ ser fs0 ++ endhdr c ++ chain 0 0 ds) with ((h ++ ser fs0 ++ endhdr c) ++ chain 0 0 ds)
    by (rewrite <- !app_assoc; reflexivity).
  rewrite (index_chain ds _ true (h ++ ser fs0 ++ endhdr c) 0 [] 0 0 (tof c fs0 0)).
  - reflexivity.
  - intros tail. apply walk_first; assumption.
  - discriminate.
  - lia.
  - reflexivity.
  - exact SM.
  - assert (forall i p, (length ds <= length (chain i p ds))%nat).
    { induction ds as [|d r IHr]; intros i p; cbn [chain length]; [lia|].
      inversion SM; subst. rewrite !app_length. specialize (IHr H2 ltac:(cbn [length] in HL; lia) (i + 1) (blen d)).
      unfold trailer. rewrite !app_length, !le_length. lia. }
    rewrite app_length. specialize (H 0 0). lia.
Qed.
End W.
