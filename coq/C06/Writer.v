(* C06: the model writer (save_append = reb_simulation_save_to_file on an existing file) applied to an intact archive
   in chain layout produces the chain layout with one more blob: every archive the model writer can produce from a
   first snapshot by any number of appends satisfies the hypotheses of index_of_appends. *)
From Coq Require Import List NArith Bool Arith Lia.
From RV Require Import C06.Model C06.Index C07.Crash C07.Prefix.
Import ListNotations.
Open Scope N_scope.

Section W.
Variable c : cfg.
Hypothesis WC : wf_cfg c.
Variable peq : N -> list N -> list N -> bool.

Lemma skipN_at : forall A (X Y : list A) n, n = lenN X -> skipN n (X ++ Y) = Y.
Proof. intros. subst. apply skipN_app. Qed.
Lemma takeN_at : forall A (X Y : list A) n, n = lenN X -> takeN n (X ++ Y) = X.
Proof. intros. subst. apply takeN_app. Qed.

Lemma lenN_endhdr : lenN (endhdr c) = 16.
Proof. unfold endhdr, lenN. rewrite hdr_length. reflexivity. Qed.
Lemma lenN_trailer : forall i p n, lenN (trailer i p n) = 12.
Proof. intros. unfold lenN. rewrite trailer_length. reflexivity. Qed.

(* ---------- the walk over blob 0 at the top of the append path *)
Lemma old_walk_ser : forall fs fuel tail pos, wf_d c fs -> (length fs < fuel)%nat ->
  old_walk c fuel (ser fs ++ endhdr c ++ tail) pos = Some (pos + lenN (ser fs) + 16).
Proof.
  induction fs as [|f r IH]; intros fuel tail pos WF HF.
  - destruct fuel; [cbn in HF; lia|]. cbn [ser flat_map app old_walk]. unfold endhdr.
    rewrite read_hdr_hdr; [|apply WC|reflexivity]. rewrite N.eqb_refl. f_equal. unfold lenN. cbn. lia.
  - destruct fuel; [cbn in HF; lia|]. inversion WF as [|? ? Hf WF']; subst.
    destruct Hf as (NE & NH & TS & SS & TN).
    rewrite lenN_ser_cons, ser_cons. rewrite <- !app_assoc. cbn [old_walk].
    rewrite read_hdr_hdr; [|exact TS|exact SS]. rewrite (neqb _ _ NE).
    change (fsize f) with (lenN (fdata f)). rewrite skipN_app.
    rewrite IH; [|exact WF'|cbn [length] in HF; lia]. f_equal. lia.
Qed.

Definition wf_h (h : list N) : Prop := wf_header c h.
Lemma wf_h_len : forall h, wf_h h -> length h = 64%nat.
Proof.
  intros h (sz & r & RH & LR). unfold read_hdr in RH. do 16 (destruct h as [|? h]; [discriminate|]).
  inversion RH; subst. cbn [length]. lia.
Qed.

Lemma old_walk_first : forall h fs0 tail, wf_h h -> wf_d c fs0 ->
  let file := h ++ ser fs0 ++ endhdr c ++ tail in
  old_walk c (S (length file)) (skipN 64 file) 64 = Some (lenN (h ++ ser fs0 ++ endhdr c)).
Proof.
  intros h fs0 tail WH WF file. pose proof (wf_h_len h WH) as LH. unfold file.
  rewrite (skipN_at _ h) by (unfold lenN; rewrite LH; reflexivity).
  rewrite old_walk_ser; [|exact WF|pose proof (ser_length_ge fs0); rewrite !app_length; lia].
  f_equal. rewrite !lenN_app, lenN_endhdr. unfold lenN at 2. rewrite LH. lia.
Qed.

(* ---------- parsing a stream back into its fields *)
Lemma parse_ser : forall fs fuel tail, wf_d c fs -> (length fs < fuel)%nat ->
  parse_fields c fuel (ser fs ++ endhdr c ++ tail) = fs.
Proof.
  induction fs as [|f r IH]; intros fuel tail WF HF.
  - destruct fuel; [cbn in HF; lia|]. cbn [ser flat_map app parse_fields]. unfold endhdr.
    rewrite read_hdr_hdr; [|apply WC|reflexivity]. rewrite N.eqb_refl. reflexivity.
  - destruct fuel; [cbn in HF; lia|]. inversion WF as [|? ? Hf WF']; subst.
    destruct Hf as (NE & NH & TS & SS & TN).
    rewrite ser_cons. rewrite <- !app_assoc. cbn [parse_fields].
    rewrite read_hdr_hdr; [|exact TS|exact SS]. rewrite (neqb _ _ NE).
    change (fsize f) with (lenN (fdata f)). rewrite skipN_app, takeN_app.
    rewrite IH; [|exact WF'|cbn [length] in HF; lia]. destruct f. reflexivity.
Qed.

Lemma parse_stream_ser : forall h fs tail, length h = 64%nat -> wf_d c fs ->
  parse_stream c (h ++ ser fs ++ endhdr c ++ tail) = fs.
Proof.
  intros h fs tail LH WF. unfold parse_stream.
  rewrite (skipn_exact _ 64 h _ LH).
  apply parse_ser; [exact WF|]. pose proof (ser_length_ge fs). rewrite !app_length. lia.
Qed.

(* a stream as reb_simulation_save_to_stream writes it *)
Definition stream_of (h : list N) (fs : list field) : list N := h ++ ser fs ++ endhdr c ++ trailer 0 0 0.

(* ---------- the corruption test on an intact archive does not fire *)
Lemma chain_snoc : forall ds d idx prev,
  chain c idx prev (ds ++ [d]) =
  cpre c idx prev ds ++ trailer (idx + N.of_nat (length ds)) (lastp prev ds) (blen d) ++ ser d ++ endhdr c ++
  trailer (idx + N.of_nat (length ds) + 1) (blen d) 0.
Proof.
  intros. rewrite <- chainE_full, chainE_split. unfold app_bytes. reflexivity.
Qed.

Lemma lastp_small : forall ds p, p < 2^32 -> Forall (small_d c) ds -> lastp p ds < 2^32.
Proof.
  induction ds as [|d r IH]; intros p HP SM; cbn [lastp]; [exact HP|].
  inversion SM as [|? ? [_ SB] SM']; subst. apply IH; assumption.
Qed.

Lemma read_blob_trailer0 : forall i p n, i < 2^32 -> p < 2^32 -> n < 2^32 ->
  read_blob (trailer i p n) = mkB true 12 i p n.
Proof. intros. rewrite <- (app_nil_r (trailer i p n)). apply read_blob_trailer; assumption. Qed.

Lemma tail_ok_nil : forall pre, tail_corrupt c (pre ++ trailer 0 0 0) false = false.
Proof.
  intros pre. unfold tail_corrupt. cbv zeta. rewrite !lenN_app, !lenN_trailer.
  destruct (N.ltb_spec (lenN pre + 12) 12); [lia|].
  rewrite (skipN_at _ pre) by lia.
  rewrite read_blob_trailer0 by reflexivity.
  cbn [b_prev b_next andb orb negb]. reflexivity.
Qed.

Lemma tail_ok_snoc : forall Y i p d i2, i < 2^32 -> p < 2^32 -> i2 < 2^32 -> small_d c d ->
  tail_corrupt c (Y ++ trailer i p (blen d) ++ ser d ++ endhdr c ++ trailer i2 (blen d) 0) true = false.
Proof.
  intros Y i p d i2 Hi Hp Hi2 [WD SB].
  set (T1 := trailer i p (blen d)). set (T2 := trailer i2 (blen d) 0).
  set (file := Y ++ T1 ++ ser d ++ endhdr c ++ T2).
  assert (LN : lenN file = lenN Y + 12 + blen d + 12).
  { unfold file. rewrite !lenN_app. unfold T1, T2. rewrite !lenN_trailer, lenN_endhdr. unfold blen. lia. }
  assert (S1 : skipN (lenN Y + 12 + blen d + 12 - 12) file = T2).
  { replace file with ((Y ++ T1 ++ ser d ++ endhdr c) ++ T2) by (unfold file; rewrite <- !app_assoc; reflexivity).
    apply skipN_at. rewrite !lenN_app. unfold T1. rewrite lenN_trailer, lenN_endhdr. unfold blen. lia. }
  assert (S2 : skipN (lenN Y + 12 + blen d + 12 - 28) file = endhdr c ++ T2).
  { replace file with ((Y ++ T1 ++ ser d) ++ endhdr c ++ T2) by (unfold file; rewrite <- !app_assoc; reflexivity).
    apply skipN_at. rewrite !lenN_app. unfold T1. rewrite lenN_trailer. unfold blen. lia. }
  assert (S3 : skipN (lenN Y + 12 + blen d + 12 - 24 - blen d) file = T1 ++ ser d ++ endhdr c ++ T2).
  { unfold file. apply skipN_at. lia. }
  unfold tail_corrupt. cbv zeta. rewrite !LN.
  destruct (N.ltb_spec (lenN Y + 12 + blen d + 12) 12); [lia|].
  assert (RB : read_blob T2 = mkB true 12 i2 (blen d) 0) by (unfold T2; apply read_blob_trailer0; [assumption|assumption|reflexivity]).
  rewrite !S1, !RB.
  cbn [b_prev b_next andb orb negb].
  assert (BZ : (blen d =? 0) = false) by (apply N.eqb_neq; unfold blen; lia).
  rewrite BZ. cbn [andb orb negb N.eqb].
  destruct (N.ltb_spec (lenN Y + 12 + blen d + 12) 28) as [XX|XX]; [unfold blen in XX; lia|].
  rewrite S2. unfold endhdr at 1. rewrite read_hdr_hdr; [|apply WC|reflexivity].
  rewrite !N.eqb_refl. cbn [negb orb].
  destruct (N.ltb_spec (lenN Y + 12 + blen d + 12) (24 + blen d)); [lia|].
  rewrite S3. unfold T1. rewrite read_blob_trailer; [|exact Hi|exact Hp|exact SB].
  cbn [b_ok b_next negb orb]. rewrite N.eqb_refl. reflexivity.
Qed.

(* archive = everything before the last trailer ++ last trailer *)
Lemma archive_split : forall h fs0 ds,
  archive c h fs0 ds = ((h ++ ser fs0 ++ endhdr c) ++ cpre c 0 0 ds) ++ trailer (N.of_nat (length ds)) (lastp 0 ds) 0.
Proof.
  intros. unfold archive. rewrite chain_chainE, chainE_split. rewrite <- !app_assoc.
  replace (0 + N.of_nat (length ds)) with (N.of_nat (length ds)) by lia. reflexivity.
Qed.

Lemma archive_snoc : forall h fs0 ds d,
  archive c h fs0 (ds ++ [d]) =
  ((h ++ ser fs0 ++ endhdr c) ++ cpre c 0 0 ds) ++ app_bytes c (N.of_nat (length ds)) (lastp 0 ds) d.
Proof.
  intros. unfold archive. rewrite chain_snoc. unfold app_bytes. rewrite <- !app_assoc.
  replace (0 + N.of_nat (length ds)) with (N.of_nat (length ds)) by lia. reflexivity.
Qed.

Lemma patch_at_end : forall (X T B : list N), lenN T <= lenN B ->
  patch (X ++ T) (lenN X) B = X ++ B.
Proof.
  intros X T B H. unfold patch. rewrite takeN_app, skipN_app_plus. rewrite skipN_beyond by exact H.
  rewrite app_nil_r. reflexivity.
Qed.

(* the corruption test does not fire on an intact archive *)
Lemma tail_ok_archive : forall h fs0 ds, Forall (small_d c) ds -> N.of_nat (length ds) < 2^32 ->
  tail_corrupt c (archive c h fs0 ds) (match ds with [] => false | _ => true end) = false.
Proof.
  intros h fs0 ds SM HL. destruct ds as [|d0 r].
  - rewrite archive_split. cbn [length cpre lastp N.of_nat]. rewrite app_nil_r. apply tail_ok_nil.
  - destruct (@exists_last _ (d0 :: r)) as (ds' & dl & EQ); [discriminate|]. rewrite EQ in *.
    rewrite archive_snoc. unfold app_bytes.
    apply Forall_app in SM. destruct SM as [SM' SL]. inversion SL as [|? ? SDL _]; subst.
    rewrite app_length in HL. cbn [length] in HL.
    apply tail_ok_snoc; try assumption; try lia.
    apply lastp_small; [reflexivity|exact SM'].
Qed.

(* THE WRITER PRODUCES THE CHAIN LAYOUT: appending the stream of any state to an intact archive *)
Theorem save_append_chain : forall h fs0 ds h' s',
  wf_h h -> wf_d c fs0 -> Forall (small_d c) ds -> length h' = 64%nat -> wf_d c s' ->
  small_d c (binary_diff peq fs0 s') -> N.of_nat (length ds) + 1 < 2^32 ->
  write_trace peq c (archive c h fs0 ds) (stream_of h' s') = Some (append_trace c h fs0 ds (binary_diff peq fs0 s')) /\
  save_append peq c (archive c h fs0 ds) (stream_of h' s') = archive c h fs0 (ds ++ [binary_diff peq fs0 s']).
Proof.
  intros h fs0 ds h' s' WH WF SM LH' WS SD HL.
  set (d' := binary_diff peq fs0 s') in *.
  set (pre := h ++ ser fs0 ++ endhdr c).
  assert (WT : write_trace peq c (archive c h fs0 ds) (stream_of h' s') = Some (append_trace c h fs0 ds d')).
  { unfold write_trace.
    assert (OW : old_walk c (S (length (archive c h fs0 ds))) (skipN 64 (archive c h fs0 ds)) 64 = Some (lenN pre)).
    { unfold archive. apply old_walk_first; assumption. }
    rewrite OW. cbv zeta.
    assert (SK : skipN (lenN pre) (archive c h fs0 ds) = chain c 0 0 ds).
    { unfold archive, pre. rewrite !app_assoc. rewrite <- (app_assoc h). rewrite <- !app_assoc.
      replace (h ++ ser fs0 ++ endhdr c ++ chain c 0 0 ds) with ((h ++ ser fs0 ++ endhdr c) ++ chain c 0 0 ds)
        by (rewrite <- !app_assoc; reflexivity).
      apply skipN_app. }
    rewrite SK.
    destruct (chain_head c 0 0 ds) as (nx & tl & EQ & M). rewrite EQ.
    assert (NX : nx < 2^32 /\ (0 <? nx) = match ds with [] => false | _ => true end).
    { destruct ds as [|d0 r]; destruct M as [-> _]; [split; reflexivity|].
      inversion SM as [|? ? [_ SB] _]; subst. split; [exact SB|]. apply N.ltb_lt. unfold blen. lia. }
    destruct NX as [NX1 NX2].
    rewrite read_blob_trailer; [|reflexivity|reflexivity|exact NX1]. cbn [b_ok].
    rewrite SK, EQ. rewrite read_blob_trailer; [|reflexivity|reflexivity|exact NX1]. cbn [b_ok b_next negb].
    rewrite NX2. rewrite tail_ok_archive; [|exact SM|lia].
    assert (TK : takeN (lenN pre) (archive c h fs0 ds) = pre).
    { unfold archive, pre.
      replace (h ++ ser fs0 ++ endhdr c ++ chain c 0 0 ds) with ((h ++ ser fs0 ++ endhdr c) ++ chain c 0 0 ds)
        by (rewrite <- !app_assoc; reflexivity).
      apply takeN_app. }
    rewrite TK.
    assert (P0 : parse_stream c pre = fs0).
    { unfold pre. replace (h ++ ser fs0 ++ endhdr c) with (h ++ ser fs0 ++ endhdr c ++ []) by (rewrite app_nil_r; reflexivity).
      apply parse_stream_ser; [apply wf_h_len; exact WH|exact WF]. }
    assert (P1 : parse_stream c (stream_of h' s') = s') by (unfold stream_of; apply parse_stream_ser; assumption).
    rewrite P0, P1. fold d'.
    assert (RB : read_blob (skipN (lenN (archive c h fs0 ds) - 12) (archive c h fs0 ds))
                 = mkB true 12 (N.of_nat (length ds)) (lastp 0 ds) 0).
    { rewrite archive_split. set (X := (h ++ ser fs0 ++ endhdr c) ++ cpre c 0 0 ds).
      rewrite lenN_app, lenN_trailer. replace (lenN X + 12 - 12) with (lenN X) by lia. rewrite skipN_app.
      apply read_blob_trailer0; [lia|apply lastp_small; [reflexivity|exact SM]|reflexivity]. }
    rewrite RB. cbn [b_index b_prev]. unfold append_trace, app_bytes, last_idx, blen. reflexivity. }
  split; [exact WT|].
  unfold save_append. rewrite WT. unfold append_trace. cbn [fst snd].
  rewrite archive_split at 1 2. rewrite lenN_app, lenN_trailer.
  set (X := (h ++ ser fs0 ++ endhdr c) ++ cpre c 0 0 ds).
  replace (lenN X + 12 - 12) with (lenN X) by lia.
  rewrite patch_at_end.
  - rewrite archive_snoc. reflexivity.
  - rewrite lenN_trailer. unfold lenN. rewrite app_bytes_length. lia.
Qed.

(* any number of appends, starting from any archive in chain layout (in particular from the first file) *)
Theorem writer_layout : forall h fs0 h' ss ds,
  wf_h h -> wf_d c fs0 -> length h' = 64%nat -> Forall (small_d c) ds ->
  Forall (fun s' => wf_d c s' /\ small_d c (binary_diff peq fs0 s')) ss ->
  N.of_nat (length ds + length ss) < 2^32 ->
  fold_left (fun file s' => save_append peq c file (stream_of h' s')) ss (archive c h fs0 ds)
  = archive c h fs0 (ds ++ map (binary_diff peq fs0) ss).
Proof.
  intros h fs0 h' ss. induction ss as [|s' r IH]; intros ds WH WF LH SM SS HL.
  - cbn [fold_left map]. rewrite app_nil_r. reflexivity.
  - cbn [fold_left map]. inversion SS as [|? ? [WS SD] SS']; subst.
    destruct (save_append_chain h fs0 ds h' s' WH WF SM LH WS SD) as [_ SA]; [cbn [length] in HL; lia|].
    rewrite SA. rewrite IH; try assumption.
    + rewrite <- app_assoc. reflexivity.
    + apply Forall_app. split; [exact SM|constructor; [exact SD|constructor]].
    + rewrite app_length. cbn [length] in *. lia.
Qed.

Lemma first_file_archive : forall h fs0, first_file c h fs0 = archive c h fs0 [].
Proof. reflexivity. Qed.
End W.
