(* C06: cadence of automatic snapshots in interval mode, over the reals (exact arithmetic).
   reb_simulationarchive_heartbeat, auto_interval branch:  if (sign*next <= sign*t) { next += sign*interval; snapshot }.
   With t' = sign*t, next' = sign*next (sign = +1 for dt>0, -1 for dt<0) this is the test  next' <= t'  and the
   update next' += interval, which is what is modelled here.  ts are the times of the successive heartbeats
   (step boundaries). *)
From Coq Require Import Reals Lra List.
Import ListNotations.
Open Scope R_scope.

(* snapshots as (time of the snapshot, threshold it answers) *)
Fixpoint runI (I next : R) (ts : list R) : list (R * R) :=
  match ts with
  | [] => []
  | t :: r => if Rle_dec next t then (t, next) :: runI I (next + I) r else runI I next r
  end.

Fixpoint thresholds (I x : R) (n : nat) : list R :=
  match n with O => [] | S n' => x :: thresholds I (x + I) n' end.

(* one snapshot per k: the thresholds answered are t_start, t_start + I, t_start + 2I, ... without gaps or repeats *)
Lemma interval_thresholds : forall I ts next,
  map snd (runI I next ts) = thresholds I next (length (runI I next ts)).
Proof.
  intros I. induction ts as [|t r IH]; intros next; cbn [runI]; [reflexivity|].
  destruct (Rle_dec next t); [|apply IH]. cbn [map snd length thresholds]. f_equal. apply IH.
Qed.

(* heartbeat times strictly increase, by at most one interval per step *)
Fixpoint incr (I p : R) (ts : list R) : Prop :=
  match ts with [] => True | t :: r => p < t <= p + I /\ incr I t r end.

Lemma incr_gt : forall I ts p u, 0 < I -> incr I p ts -> In u ts -> p < u.
Proof.
  intros I. induction ts as [|t r IH]; intros p u HI H Hu; [destruct Hu|].
  destruct H as [[H1 H2] H3]. destruct Hu as [<-|Hu]; [exact H1|].
  specialize (IH t u HI H3 Hu). lra.
Qed.

(* each snapshot is taken exactly at the FIRST heartbeat whose time has reached its threshold *)
Lemma interval_first : forall I ts p next, 0 < I -> p < next -> incr I p ts ->
  forall s T, In (s, T) (runI I next ts) ->
  T <= s /\ (forall u, In u ts -> u < s -> u < T) /\ p < T.
Proof.
  intros I. induction ts as [|t r IH]; intros p next HI HP HN s T HIn; cbn [runI] in HIn; [destruct HIn|].
  destruct HN as [[H1 H2] H3].
  destruct (Rle_dec next t) as [LE|GT].
  - destruct HIn as [E|HIn].
    + inversion E; subst. split; [exact LE|]. split; [|exact HP].
      intros u [<-|Hu] Hlt; [lra|]. pose proof (incr_gt I r s u HI H3 Hu). lra.
    + assert (HP' : t < next + I) by lra.
      destruct (IH t (next + I) HI HP' H3 s T HIn) as (A & B & C). split; [exact A|]. split; [|lra].
      intros u [<-|Hu] Hlt; [exact C|apply B; assumption].
  - assert (HP' : t < next) by lra.
    destruct (IH t next HI HP' H3 s T HIn) as (A & B & C). split; [exact A|]. split; [|lra].
    intros u [<-|Hu] Hlt; [exact C|apply B; assumption].
Qed.
