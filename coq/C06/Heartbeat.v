(* C06: what a snapshot written by the heartbeat stores as its cadence state.  The ORDER of the two statements of a
   due branch (advance the threshold / save) is regenerated from the C text (Gen/C06Heartbeat.v). *)
From Coq Require Import List NArith.
From RV Require Import Gen.C06Heartbeat C06.Model.
Import ListNotations.

(* run the statements of a due branch: [next] is the live threshold (simulationarchive_next / next_step), Save records
   the value of the threshold that is written into the snapshot *)
Fixpoint hb_exec {T : Type} (adv : T -> T) (ss : list hb_stmt) (next : T) (stored : option T) : T * option T :=
  match ss with
  | [] => (next, stored)
  | Advance :: r => hb_exec adv r (adv next) stored
  | Save :: r => hb_exec adv r next (Some next)
  end.

(* for all three cadences, on the current source: the snapshot stores exactly the schedule the live simulation
   continues with (threshold advanced BEFORE the save), so a restored snapshot is not "due" again *)
Lemma stores_live_schedule : forall (T : Type) (adv : T -> T) (next : T),
  hb_exec adv hb_order_interval next None = (adv next, Some (adv next)) /\
  hb_exec adv hb_order_step next None = (adv next, Some (adv next)) /\
  hb_exec adv hb_order_walltime next None = (adv next, Some (adv next)).
Proof. intros. repeat split; reflexivity. Qed.

(* the step-mode heartbeat of Model.v (hb_step) is this execution *)
Lemma hb_step_is_exec : forall auto next s, (next <=? s)%N = true ->
  hb_step auto next s = (true, fst (hb_exec (fun x => (x + auto)%N) hb_order_step next None)).
Proof. intros auto next s H. unfold hb_step. rewrite H. reflexivity. Qed.
