(* C06: what a snapshot written by the heartbeat stores as its cadence state.  The ORDER of the two statements of a
   due branch (advance the threshold / save) is regenerated from the C text (Gen/C06Heartbeat.v). *)
From Coq Require Import List NArith.
From RV Require Import Gen.C06Heartbeat C06.Model.
Import ListNotations.

(* run the statements of a due branch: [next] is the live threshold (simulationarchive_next / next_step), Save records
   the value of the threshold that is written into the snapshot *)
Fixpoint hb_exec {T : Type} (adv : T -> T) (ss : list hb_stmt) (next : T) (stored : option T) : T * option T :=
  match ss with
  | [] => (next, stored)
  | Advance :: r => hb_exec adv r (adv next) stored
  | Save :: r => hb_exec adv r next (Some next)
  end.

(* for all three cadences, on the current source: the snapshot stores exactly the schedule the live simulation
   continues with (threshold advanced BEFORE the save), so a restored snapshot is not "due" again *)
Lemma stores_live_schedule : forall (T : Type) (adv : T -> T) (next : T),
  hb_exec adv hb_order_interval next None = (adv next, Some (adv next)) /\
  hb_exec adv hb_order_step next None = (adv next, Some (adv next)) /\
  hb_exec adv hb_order_walltime next None = (adv next, Some (adv next)).
Proof. intros. repeat split; reflexivity. Qed.

(* the step-mode heartbeat of Model.v (hb_step) is this execution *)
Lemma hb_step_is_exec : forall auto next s, (next <=? s)%N = true ->
  hb_step auto next s = (true, fst (hb_exec (fun x => (x + auto)%N) hb_order_step next None)).
Proof. intros auto next s H. unfold hb_step. rewrite H. reflexivity. Qed.

(* ---------- the test "is a snapshot due": regenerated comparison operator *)
Definition cmpN (c : hb_cmp) (a b : N) : bool :=
  match c with
  | CmpLe => (a <=? b)%N | CmpEq => (a =? b)%N | CmpGe => (b <=? a)%N | CmpLt => (a <? b)%N | CmpGt => (b <? a)%N
  end.

(* all models of this development (Model.hb_step: <=?, CadenceNum.hb_thr: nleb) assume "threshold <= current value";
   on the current source this is what all three branches test *)
Lemma thresholds_compared_with_le :
  hb_cmp_interval = CmpLe /\ hb_cmp_step = CmpLe /\ hb_cmp_walltime = CmpLe.
Proof. repeat split; reflexivity. Qed.

(* heartbeats at ARBITRARY successive steps_done values xs: integrate() calls with manual step()/steps(k) or phases
   without an attached archive in between.  Result: steps_done of the snapshots written, final next_step *)
Fixpoint hb_seq (c : hb_cmp) (auto next : N) (xs : list N) : list N * N :=
  match xs with
  | [] => ([], next)
  | x :: r => if cmpN c next x
              then let '(out, fin) := hb_seq c auto (next + auto)%N r in (x :: out, fin)
              else hb_seq c auto next r
  end.

(* overdue => written at the first opportunity: a heartbeat that finds the threshold in the past (the simulation moved
   past it without a heartbeat) writes the snapshot now, and keeps the original grid (next_step advances by auto) *)
Lemma overdue_written_at_once : forall auto next x r, (next <= x)%N ->
  exists out fin, hb_seq hb_cmp_step auto next (x :: r) = (x :: out, fin) /\
                  hb_seq hb_cmp_step auto (next + auto)%N r = (out, fin).
Proof.
  intros auto next x r H. cbn [hb_seq]. unfold hb_cmp_step, cmpN.
  rewrite (proj2 (N.leb_le next x) H).
  destruct (hb_seq CmpLe auto (next + auto)%N r) as [out fin]. exists out, fin. split; reflexivity.
Qed.

Lemma not_due_no_snapshot : forall auto next x r, (x < next)%N ->
  hb_seq hb_cmp_step auto next (x :: r) = hb_seq hb_cmp_step auto next r.
Proof.
  intros auto next x r H. cbn [hb_seq]. unfold hb_cmp_step, cmpN.
  rewrite (proj2 (N.leb_gt next x) H). reflexivity.
Qed.

(* on consecutive heartbeats (one integrate() call) hb_seq is the hb_run of Model.v / cadence_step *)
Fixpoint nseq (s : N) (n : nat) : list N := match n with O => [] | S n' => s :: nseq (s + 1)%N n' end.
Lemma hb_seq_consecutive : forall auto n next s, fst (hb_seq hb_cmp_step auto next (nseq s n)) = hb_run auto next s n.
Proof.
  intros auto. induction n as [|n IH]; intros next s; [reflexivity|].
  cbn [nseq hb_seq hb_run]. unfold hb_step, hb_cmp_step, cmpN.
  destruct (next <=? s)%N.
  - specialize (IH (next + auto)%N (s + 1)%N). unfold hb_cmp_step in IH.
    destruct (hb_seq CmpLe auto (next + auto)%N (nseq (s + 1)%N n)) as [out fin]. cbn [fst app] in *. rewrite IH. reflexivity.
  - cbn [app]. apply IH.
Qed.
