(* C06/C07 model: the Simulationarchive delta encoder, reader overlay, file append (with corruption
   detection / repair), index builder, write trace and crash images.
   Transcribed from /repo/src/binarydiff.c (reb_binary_diff, output_option 0),
   /repo/src/simulationarchive.c (reb_simulation_save_to_file, reb_read_simulationarchive_from_stream_with_messages)
   and /repo/src/input.c (reb_input_fields).  Definitions only; proofs are in Diff.v / Index.v / Crash.v.

   Two levels:
     * field level: a snapshot is a list of fields (type, payload bytes).  binary_diff works on two parsed
       field lists and keeps the C cursor behaviour (pos2 continues after a match, restarts at the first
       field for a search, is reset to the first field after a vanished field; second pass for new fields).
     * byte level: files and streams are lists of bytes (N < 256); 16-byte field headers
       (uint32 type, 4 bytes padding, uint64 size), 12-byte trailers (int32 index, offset_prev, offset_next).
   Field type numbers (END, HEADER, t, ...) are parameters (record cfg): the harness reads them from the
   descriptor table of the library built from the current tree. *)
From Coq Require Import List NArith Bool Arith.
Import ListNotations.
Open Scope N_scope.

Record cfg := mkCfg { ty_end : N; ty_header : N; ty_t : N; ty_saversion : N }.

Record field := mkF { ftype : N; fdata : list N }.
Definition fsize (f : field) : N := N.of_nat (length (fdata f)).
Definition types (l : list field) : list N := map ftype l.

(* ------------------------------------------------------------------ field level: reb_binary_diff *)
Section Diff.
(* payload comparison used when the sizes agree (memcmp, except member-wise for particles / var_config) *)
Variable peq : N -> list N -> list N -> bool.

Definition differ (f1 f2 : field) : bool :=
  if fsize f1 =? fsize f2 then negb (peq (ftype f1) (fdata f1) (fdata f2)) else true.

(* the inner search loops: scan from the first field until the type is found or END is reached.
   Returns the field and the cursor just behind it. *)
Fixpoint find_type (t : N) (l : list field) : option (field * list field) :=
  match l with
  | [] => None
  | f :: r => if ftype f =? t then Some (f, r) else find_type t r
  end.

(* first loop of reb_binary_diff.  l1: fields of buf1 still to visit (pos1); c2: fields of buf2 from pos2
   on ([] = pos2 stands on the END field of buf2); s2: all fields of buf2 (pos2 = 64). *)
Fixpoint pass1 (s2 l1 c2 : list field) : list field :=
  match l1 with
  | [] => []
  | f1 :: r1 =>
      let found :=
        match c2 with
        | f2 :: c2' => if ftype f2 =? ftype f1 then Some (f2, c2') else find_type (ftype f1) s2
        | [] => find_type (ftype f1) s2       (* field2 = END: types differ, search from pos2 = 64 *)
        end in
      match found with
      | None => mkF (ftype f1) [] :: pass1 s2 r1 s2            (* vanished: header with size 0; pos2 = 64 *)
      | Some (f2, c2') => (if differ f1 f2 then [f2] else []) ++ pass1 s2 r1 c2'
      end
  end.

(* second loop: fields present in buf2 but not in buf1.  c1: cursor in buf1. *)
Fixpoint pass2 (s1 l2 c1 : list field) : list field :=
  match l2 with
  | [] => []
  | f2 :: r2 =>
      match c1 with
      | f1 :: c1' =>
          if ftype f1 =? ftype f2 then pass2 s1 r2 c1'
          else match find_type (ftype f2) s1 with
               | Some _ => pass2 s1 r2 s1                      (* found: not new; pos1 = 64 *)
               | None => f2 :: pass2 s1 r2 s1
               end
      | [] => match find_type (ftype f2) s1 with
              | Some _ => pass2 s1 r2 s1
              | None => f2 :: pass2 s1 r2 s1
              end
      end
  end.

Definition binary_diff (s1 s2 : list field) : list field := pass1 s2 s1 s2 ++ pass2 s1 s2 s1.
End Diff.

(* ------------------------------------------------------------------ field level: reader overlay *)
(* reb_input_fields applied to a delta: every field overwrites the member of its type; a pointer field of
   size 0 leaves an empty array, which the writer does not emit: the type is absent from the state. *)
Fixpoint lookup (t : N) (l : list field) : option (list N) :=
  match l with
  | [] => None
  | f :: r => if ftype f =? t then Some (fdata f) else lookup t r
  end.
Fixpoint upsert (f : field) (m : list field) : list field :=
  match m with
  | [] => [f]
  | g :: r => if ftype g =? ftype f then f :: r else g :: upsert f r
  end.
Definition remove_type (t : N) (m : list field) : list field := filter (fun g => negb (ftype g =? t)) m.
Definition apply_field (m : list field) (f : field) : list field :=
  match fdata f with [] => remove_type (ftype f) m | _ => upsert f m end.
Definition overlay (base delta : list field) : list field := fold_left apply_field delta base.

(* ------------------------------------------------------------------ byte level: encodings *)
Fixpoint le (n : nat) (v : N) : list N :=
  match n with O => [] | S n' => (v mod 256) :: le n' (v / 256) end.
Fixpoint de (l : list N) : N :=
  match l with [] => 0 | b :: r => b + 256 * de r end.

Definition hdr (t n : N) : list N := le 4 t ++ [0;0;0;0] ++ le 8 n.
Definition read_hdr (s : list N) : option (N * N * list N) :=
  match s with
  | a0::a1::a2::a3::_::_::_::_::b0::b1::b2::b3::b4::b5::b6::b7::r =>
      Some (de [a0;a1;a2;a3], de [b0;b1;b2;b3;b4;b5;b6;b7], r)
  | _ => None
  end.
Definition ser1 (f : field) : list N := hdr (ftype f) (fsize f) ++ fdata f.
Definition ser (l : list field) : list N := flat_map ser1 l.
Definition trailer (idx prev next : N) : list N := le 4 idx ++ le 4 prev ++ le 4 next.

Definition lenN {A} (l : list A) : N := N.of_nat (length l).
(* fseek(SEEK_CUR, n) on a regular file: never fails, may go beyond EOF (then the next fread fails) *)
Definition skipN {A} (n : N) (l : list A) : list A := if lenN l <? n then [] else skipn (N.to_nat n) l.
Definition takeN {A} (n : N) (l : list A) : list A := if lenN l <? n then l else firstn (N.to_nat n) l.

(* fread(&blob, 12, 1, f) into a zero-initialised struct: a short read still copies the bytes it got *)
Record blob := mkB { b_ok : bool; b_len : N; b_index : N; b_prev : N; b_next : N }.
Definition read_blob (s : list N) : blob :=
  let b := firstn 12 s in
  mkB (12 <=? lenN s) (lenN b) (de (firstn 4 b)) (de (firstn 4 (skipn 4 b))) (de (firstn 4 (skipn 8 b))).

(* parse the fields of a stream (behind the 64-byte header) up to END; used to hand buf_old / buf_new to
   binary_diff.  Fuel: one unit per field. *)
Fixpoint parse_fields (c : cfg) (fuel : nat) (s : list N) : list field :=
  match fuel with
  | O => []
  | S fuel' =>
      match read_hdr s with
      | None => []
      | Some (t, n, r) => if t =? ty_end c then [] else mkF t (takeN n r) :: parse_fields c fuel' (skipN n r)
      end
  end.
Definition parse_stream (c : cfg) (s : list N) : list field := parse_fields c (length s) (skipn 64 s).

(* ------------------------------------------------------------------ byte level: index builder *)
Inductive walkres := WErr | WOk (pos : N) (rest : list N) (t : N).
(* the do{...}while(blob_finished==0 && read_error==0) loop of the index builder *)
Fixpoint walk_blob (c : cfg) (fuel : nat) (rest : list N) (pos t : N) : walkres :=
  match fuel with
  | O => WErr
  | S fuel' =>
      match read_hdr rest with
      | None => WErr
      | Some (ty, sz, r) =>
          if ty =? ty_header c then walk_blob c fuel' (skipN 48 r) (pos + 64) t
          else if ty =? ty_t c then
            if lenN r <? sz then WErr                              (* r2 != 1 *)
            else if sz =? 0 then WErr                              (* fread of 0 bytes returns 0 *)
            else walk_blob c fuel' (skipN sz r) (pos + 16 + sz) (de (takeN sz r))
          else if ty =? ty_end c then WOk (pos + 16) r t
          else walk_blob c fuel' (skipN sz r) (pos + 16 + sz) t
      end
  end.

Record index := mkI { i_blobs : list (N * N) ; i_corrupt : bool }.   (* (offset, t bits) per snapshot *)
Inductive openres := OErr | OOk (i : index).

(* sa->t[0]: the time recorded for the first accepted blob *)
Definition tfirst (acc : list (N * N)) : N := match acc with (_, t) :: _ => t | [] => 0 end.

(* the for(i...) loop.  first: i == 0.  Result: accepted blobs, read_error, corrupt warning.
   For i > 0 the time entry starts as sa->t[0] (a delta without a t field has the first snapshot's time). *)
Fixpoint index_loop (c : cfg) (fuel : nat) (first : bool) (rest : list N) (pos : N) (acc : list (N * N))
  : list (N * N) * bool * bool :=
  match fuel with
  | O => (acc, true, false)
  | S fuel' =>
      match walk_blob c (S (length rest)) rest pos (if first then 0 else tfirst acc) with
      | WErr => (acc, true, false)
      | WOk pos' rest' t =>
          let b := read_blob rest' in
          let pos'' := pos' + b_len b in
          if negb first && negb (b_prev b + 12 =? pos'' - pos) then (acc, true, negb (b_ok b))
          else
            let acc' := acc ++ [(pos, t)] in
            if (b_next b =? 0) || negb (b_ok b) then (acc', false, negb (b_ok b))
            else index_loop c fuel' false (skipn 12 rest') pos'' acc'
      end
  end.

(* first loop of the reader ("Get version"): value of the simulationarchive_version field of blob 0 and
   whether the walk hit EOF *)
Fixpoint version_walk (c : cfg) (fuel : nat) (rest : list N) (v : N) : N * bool :=
  match fuel with
  | O => (v, true)
  | S fuel' =>
      match read_hdr rest with
      | None => (v, true)
      | Some (ty, sz, r) =>
          if ty =? ty_end c then (v, false)
          else if ty =? ty_header c then version_walk c fuel' (skipN 48 r) v
          else if ty =? ty_saversion c then version_walk c fuel' (skipN sz r) (if lenN r <? sz then de r else de (takeN sz r))
          else version_walk c fuel' (skipN sz r) v
      end
  end.

Definition open_archive (c : cfg) (file : list N) : openres :=
  let '(v, eof) := version_walk c (S (length file)) file 0 in
  if v <? 2 then OErr
  else
    let '(acc, rerr, warn) := index_loop c (S (length file)) true file 0 [] in
    if rerr then match acc with [] => OErr | _ => OOk (mkI acc true) end
    else OOk (mkI acc (warn || eof)).

(* ------------------------------------------------------------------ byte level: save_to_file *)
Definition endhdr (c : cfg) : list N := hdr (ty_end c) 0.
Definition first_file (c : cfg) (h : list N) (fs : list field) : list N :=
  h ++ ser fs ++ endhdr c ++ trailer 0 0 0.

(* the walk over blob 0 at the top of the append path: position just behind END, or failure *)
Fixpoint old_walk (c : cfg) (fuel : nat) (rest : list N) (pos : N) : option N :=
  match fuel with
  | O => None
  | S fuel' =>
      match read_hdr rest with
      | None => None
      | Some (ty, sz, r) =>
          if ty =? ty_end c then Some (pos + 16 + sz) else old_walk c fuel' (skipN sz r) (pos + 16 + sz)
      end
  end.

(* the tail walk of the repair: from a position just behind an END field, follow offset_next.
   Returns last_blob. *)
Fixpoint repair_walk (c : cfg) (fuel : nat) (file : list N) (pos last : N) : N :=
  match fuel with
  | O => last
  | S fuel' =>
      if pos <? 16 then last
      else match read_hdr (skipN (pos - 16) file) with
           | None => last
           | Some (ty, _, r) =>
               if negb (ty =? ty_end c) then last
               else let b := read_blob r in
                    if negb (b_ok b) then last
                    else if 0 <? b_next b then repair_walk c fuel' file (pos + 12 + b_next b) (pos + 12)
                         else pos + 12
           end
  end.

Section Save.
Variable peq : N -> list N -> list N -> bool.

(* corruption test on the last trailer (file_corrupt) *)
Definition tail_corrupt (c : cfg) (file : list N) (more : bool) : bool :=
  let n := lenN file in
  if n <? 12 then true else
  let b := read_blob (skipN (n - 12) file) in
  if (more && (b_prev b =? 0)) || negb (b_next b =? 0) then true
  else if more then
    if n <? 28 then true else
    match read_hdr (skipN (n - 28) file) with
    | None => true
    | Some (ty, sz, _) =>
        let c1 := negb (ty =? ty_end c) || negb (sz =? 0) in
        if n <? 24 + b_prev b then true
        else let b2 := read_blob (skipN (n - 24 - b_prev b) file) in
             c1 || negb (b_ok b2) || negb (b_next b2 =? b_prev b)
    end
  else false.

(* one write operation: (offset, bytes).  None: "recovery attempt has failed" (no complete first snapshot), nothing written *)
Definition write_trace (c : cfg) (file new : list N) : option (N * list N) :=
  match old_walk c (S (length file)) (skipN 64 file) 64 with
  | None => None
  | Some size_old =>
      (* the file ends inside the trailer of the first snapshot (interrupted first write): that trailer is all zeros
         by construction; it is completed in place and the append goes on (commit 3b30990) *)
      let file := if b_ok (read_blob (skipN size_old file)) then file else takeN size_old file ++ trailer 0 0 0 in
      let b0 := read_blob (skipN size_old file) in
      let more := 0 <? b_next b0 in
      let d := ser (binary_diff peq (parse_stream c (takeN size_old file)) (parse_stream c new)) in
      let w := if tail_corrupt c file more
               then repair_walk c (S (length file)) file size_old (size_old + 12)
               else lenN file in
      let b := read_blob (skipN (w - 12) file) in
      let nx := lenN d + 16 in
      Some (w - 12, trailer (b_index b) (b_prev b) nx ++ d ++ endhdr c ++ trailer (b_index b + 1) nx 0)
  end.

(* the file after the first k bytes of the write operation reached it *)
Definition patch (file : list N) (off : N) (bytes : list N) : list N :=
  takeN off file ++ bytes ++ skipN (off + lenN bytes) file.
Definition crash_image (file : list N) (tr : N * list N) (k : nat) : list N :=
  patch file (fst tr) (firstn k (snd tr)).
Definition save_append (c : cfg) (file new : list N) : list N :=
  match write_trace c file new with
  | None => file
  | Some tr => patch file (fst tr) (snd tr)
  end.
End Save.

(* ------------------------------------------------------------------ heartbeat cadence (step mode) *)
(* reb_simulationarchive_heartbeat, simulationarchive_auto_step branch: state (next_step); called with the
   current steps_done after every step (and once before the first).  Returns (snapshot?, next_step'). *)
Definition hb_step (auto next steps_done : N) : bool * N :=
  if next <=? steps_done then (true, next + auto) else (false, next).
(* run heartbeats for steps_done = s, s+1, ..., s+n-1 ; list of steps_done values at which a snapshot is written *)
Fixpoint hb_run (auto next s : N) (n : nat) : list N :=
  match n with
  | O => []
  | S n' => let '(snap, next') := hb_step auto next s in
            (if snap then [s] else []) ++ hb_run auto next' (s + 1) n'
  end.
