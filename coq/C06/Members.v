(* C06: the record comparison regenerated from binarydiff.c compares every non-pointer member, bitwise. *)
From Coq Require Import List NArith Bool Arith.
From Coq Require String.
From RV Require Import C05.Types Gen.Descriptors C06.Model C06.Run.
Import ListNotations.

Lemma leqb_eq : forall a b, leqb a b = true -> a = b.
Proof.
  induction a as [|x a IH]; intros [|y b] H; cbn [leqb] in H; try discriminate; [reflexivity|].
  apply andb_true_iff in H. destruct H as [H1 H2]. apply N.eqb_eq in H1. subst. f_equal. apply IH. exact H2.
Qed.

(* records that the encoder considers equal agree on every compared byte range *)
Lemma ranges_sound : forall rs p q, ranges_differ rs p q = false ->
  forall o l, In (o, l) rs -> sub o l p = sub o l q.
Proof.
  intros rs p q H o l HI. unfold ranges_differ in H.
  destruct (leqb (sub o l p) (sub o l q)) eqn:E; [apply leqb_eq; exact E|].
  exfalso. assert (X : existsb (fun ol => negb (leqb (sub (fst ol) (snd ol) p) (sub (fst ol) (snd ol) q))) rs = true).
  { apply existsb_exists. exists (o, l). split; [exact HI|]. cbn [fst snd]. rewrite E. reflexivity. }
  rewrite X in H. discriminate.
Qed.

(* every member of the record that is not an address is in the compared list, and every compared double is
   compared with memcmp (bit pattern), on the CURRENT source *)
Definition is_ptr (m : member) : bool := ckind_eqb (m_kind m) KPtr || ckind_eqb (m_kind m) KFunPtr.
Definition mem_str (s : String.string) (l : list String.string) : bool := existsb (String.eqb s) l.
Definition members_complete (ms : list member) (compared bitwise : list String.string) : bool :=
  forallb (fun m => is_ptr m || (mem_str (m_path m) compared &&
                                 (negb (ckind_eqb (m_kind m) KDouble) || mem_str (m_path m) bitwise))) ms
  && forallb (fun s => existsb (fun m => String.eqb (m_path m) s && negb (is_ptr m)) ms) compared.

Lemma gen_members_complete :
  members_complete particle_members particle_diff_members particle_diff_bitwise &&
  members_complete varconfig_members varconfig_diff_members varconfig_diff_bitwise = true.
Proof. vm_compute. reflexivity. Qed.

(* the byte ranges actually used by the model: one per non-pointer member *)
Lemma gen_ranges_count :
  (length particle_ranges =? 13)%nat && (length varconfig_ranges =? 6)%nat = true.
Proof. vm_compute. reflexivity. Qed.
