(* C06/C07: the payload comparison of reb_binary_diff as it is in the C code (memcmp, except member-wise
   comparison of struct reb_particle and struct reb_variational_configuration, bitwise per member,
   pointer members ignored), and
   the entry points evaluated by the correspondence cases. *)
From Coq Require Import List NArith Bool Arith.
From Coq Require String.
From RV Require Import C05.Types Gen.Descriptors C06.Model.
Import ListNotations.
Open Scope N_scope.

Fixpoint leqb (a b : list N) : bool :=
  match a, b with
  | [], [] => true
  | x :: a', y :: b' => (x =? y) && leqb a' b'
  | _, _ => false
  end.

Definition sub (off len : nat) (l : list N) : list N := firstn len (skipn off l).

(* The members compared by reb_particle_diff and by the var_config branch of reb_binary_diff are REGENERATED from
   the current binarydiff.c / rebound.h (coq/Gen/Descriptors.v, tools/translate_descriptors.py, fail-closed):
   member names -> (offset, size) byte ranges, each compared bitwise.  (That every compared double really is
   compared with memcmp on the current tree is the regenerated fact checked in Props.v.) *)
Definition ranges (ms : list member) (names : list String.string) : list (nat * nat) :=
  flat_map (fun m => if existsb (String.eqb (m_path m)) names then [(N.to_nat (m_off m), N.to_nat (m_size m))] else []) ms.
Definition ranges_differ (rs : list (nat * nat)) (p q : list N) : bool :=
  existsb (fun ol => negb (leqb (sub (fst ol) (snd ol) p) (sub (fst ol) (snd ol) q))) rs.
Definition particle_ranges := ranges particle_members particle_diff_members.
Definition varconfig_ranges := ranges varconfig_members varconfig_diff_members.
Definition particle_differ := ranges_differ particle_ranges.
Definition varconfig_differ := ranges_differ varconfig_ranges.

(* for (i=0; i<size/esize; i++) differ |= elem_differ(a[i], b[i]) *)
Fixpoint chunks_differ (fuel esize : nat) (elem : list N -> list N -> bool) (a b : list N) : bool :=
  match fuel with
  | O => false
  | S fuel' =>
      if (length a <? esize)%nat then false
      else elem (firstn esize a) (firstn esize b) || chunks_differ fuel' esize elem (skipn esize a) (skipn esize b)
  end.

Definition real_peq (tp tv : N) (t : N) (a b : list N) : bool :=
  if t =? tp then negb (chunks_differ (length a) (N.to_nat particle_size) particle_differ a b)
  else if t =? tv then negb (chunks_differ (length a) (N.to_nat varconfig_size) varconfig_differ a b)
  else leqb a b.

Record rcfg := mkR { rc : cfg; r_tp : N; r_tv : N }.

(* (a) bytes of reb_binary_diff(old, new, output_option 0) *)
Definition diff_bytes (r : rcfg) (old new : list N) : list N :=
  ser (binary_diff (real_peq (r_tp r) (r_tv r)) (parse_stream (rc r) old) (parse_stream (rc r) new)).

(* (b) index as the library exposes it: error flag, corrupt warning, (offset, t bits) list *)
Definition open_flat (r : rcfg) (file : list N) : bool * bool * list (N * N) :=
  match open_archive (rc r) file with
  | OErr => (false, false, [])
  | OOk i => (true, i_corrupt i, i_blobs i)
  end.

(* (c) file after reb_simulation_save_to_file(r, existing file) *)
Definition append_file (r : rcfg) (file new : list N) : list N :=
  save_append (real_peq (r_tp r) (r_tv r)) (rc r) file new.
Definition trace_of (r : rcfg) (file new : list N) : option (N * list N) :=
  write_trace (real_peq (r_tp r) (r_tv r)) (rc r) file new.

(* comparison helpers for generated case files: indices of cases whose two sides differ *)
Fixpoint bad_from {A} (eqb : A -> A -> bool) (i : nat) (l : list (A * A)) : list nat :=
  match l with
  | [] => []
  | (a, b) :: r => (if eqb a b then [] else [i]) ++ bad_from eqb (S i) r
  end.
Definition bad_bytes (l : list (list N * list N)) : list nat := bad_from leqb 0 l.

Definition pair_eqb (a b : N * N) : bool := (fst a =? fst b) && (snd a =? snd b).
Fixpoint plist_eqb (a b : list (N * N)) : bool :=
  match a, b with
  | [], [] => true
  | x :: a', y :: b' => pair_eqb x y && plist_eqb a' b'
  | _, _ => false
  end.
Definition open_eqb (a b : bool * bool * list (N * N)) : bool :=
  let '(oa, ca, la) := a in let '(ob, cb, lb) := b in Bool.eqb oa ob && Bool.eqb ca cb && plist_eqb la lb.
Definition bad_open (l : list ((bool * bool * list (N * N)) * (bool * bool * list (N * N)))) : list nat :=
  bad_from open_eqb 0 l.

(* crash sweep: for one append (file, new) and a list of cut offsets, the model's prediction of what opening
   each crash image gives *)
Definition crash_opens (r : rcfg) (file new : list N) (cuts : list nat) : list (bool * bool * list (N * N)) :=
  match trace_of r file new with
  | None => []
  | Some tr => map (fun k => open_flat r (crash_image file tr k)) cuts
  end.
(* crash of the very first write (fopen "wb" + one sequential write of the stream) *)
Definition crash_first_opens (r : rcfg) (stream : list N) (cuts : list nat) : list (bool * bool * list (N * N)) :=
  map (fun k => open_flat r (firstn k stream)) cuts.
