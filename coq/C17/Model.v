(* C17 — executable model of reb_binary_diff (src/binarydiff.c) with output_option 1/2, i.e. of its return
   value are_different, over the field lists obtained by the framing loop (C05.Model.dec_fields), and of
   reb_simulation_copy = reader (writer s), reb_simulation_diff = reb_binary_diff (writer a) (writer b). *)
From Coq Require Import NArith List String Bool Arith.
From RV Require Import C05.Types C05.Model C05.Table Gen.Descriptors.
Import ListNotations.
Open Scope N_scope.

(* ---------- C comparison `!=` on doubles, over the 64-bit patterns *)
Definition is_nan (v : N) : bool := ((v / 4503599627370496) mod 2048 =? 2047) && negb (v mod 4503599627370496 =? 0).
Definition is_zero (v : N) : bool := v mod 9223372036854775808 =? 0.
Definition dbl_ne (a b : N) : bool := is_nan a || is_nan b || negb ((a =? b) || (is_zero a && is_zero b)).

Definition slice (off sz : N) (r : bytes) : bytes := take sz (drop off r).

(* one compared member of a record: (member, bitwise).  bitwise = compared with memcmp(&p1.m,&p2.m,sizeof) —
   the bit patterns; otherwise the C operator != (value comparison for doubles, bit comparison for integers) *)
Definition cmember := (member * bool)%type.
Definition member_ne (mb : cmember) (r1 r2 : bytes) : bool :=
  let m := fst mb in
  let a := slice (m_off m) (m_size m) r1 in
  let b := slice (m_off m) (m_size m) r2 in
  match m_kind m, snd mb with
  | KDouble, false => dbl_ne (le_dec a) (le_dec b)
  | _, _ => negb (bytes_eqb a b)
  end.

(* for (i=0; i<size/sizeof(record); i++) fields_differ |= member-wise comparison *)
Fixpoint recs_ne (n : nat) (rsz : N) (ms : list cmember) (p1 p2 : bytes) : bool :=
  match n with
  | O => false
  | S n => existsb (fun m => member_ne m (take rsz p1) (take rsz p2)) ms || recs_ne n rsz ms (drop rsz p1) (drop rsz p2)
  end.

Definition compared (all : list member) (names bitw : list string) : list cmember :=
  map (fun m => (m, existsb (String.eqb (m_path m)) bitw))
      (filter (fun m => existsb (String.eqb (m_path m)) names) all).

Section Diff.
Variable tbl : list desc.
Variable pid vid : N.                 (* ids of the rows named "particles" and "var_config" *)
Variable prsz vrsz : N.               (* sizeof(struct reb_particle), sizeof(struct reb_variational_configuration) *)
Variable pms vms : list cmember.      (* members compared by reb_particle_diff / by the var_config branch *)
Variable wall : string.

(* reb_binary_field_descriptor_for_type scans the whole table including the END row *)
Definition name_of (ty : N) : string :=
  match find (fun d => d_id d =? ty) tbl with Some d => d_name d | None => EmptyString end.
Definition is_wall (ty : N) : bool := String.prefix wall (name_of ty).

Definition fdiff (f1 f2 : field) : bool :=
  let p1 := f_payload f1 in let p2 := f_payload f2 in
  if len p1 =? len p2 then
    if f_type f1 =? pid then recs_ne (N.to_nat (len p1 / prsz)) prsz pms p1 p2
    else if f_type f1 =? vid then recs_ne (N.to_nat (len p1 / vrsz)) vrsz vms p1 p2
    else negb (bytes_eqb p1 p2)
  else true.

Fixpoint find_idx (fs : list field) (ty : N) (i : nat) : option (nat * field) :=
  match fs with
  | [] => None
  | f :: r => if f_type f =? ty then Some (i, f) else find_idx r ty (S i)
  end.

(* first loop: every field of stream 1 is looked up in stream 2 (cursor pos2, restart from the beginning on a
   type mismatch), compared, and reported unless its name starts with "walltime" *)
Fixpoint loop1 (fs1 fs2 : list field) (pos2 : nat) : bool :=
  match fs1 with
  | [] => false
  | f1 :: r =>
      let hit := match nth_error fs2 pos2 with
                 | Some f2 => if f_type f2 =? f_type f1 then Some (pos2, f2) else find_idx fs2 (f_type f1) O
                 | None => find_idx fs2 (f_type f1) O
                 end in
      match hit with
      | None => orb true (loop1 r fs2 O)
      | Some (j, f2) => orb (fdiff f1 f2 && negb (is_wall (f_type f1))) (loop1 r fs2 (S j))
      end
  end.

(* second loop: fields of stream 2 that do not occur in stream 1 *)
Fixpoint loop2 (fs2 fs1 : list field) (pos1 : nat) : bool :=
  match fs2 with
  | [] => false
  | f2 :: r =>
      match nth_error fs1 pos1 with
      | Some f1 =>
          if f_type f1 =? f_type f2 then loop2 r fs1 (S pos1)
          else match find_idx fs1 (f_type f2) O with
               | Some _ => loop2 r fs1 O
               | None => orb true (loop2 r fs1 O)
               end
      | None =>
          match find_idx fs1 (f_type f2) O with
          | Some _ => loop2 r fs1 O
          | None => orb true (loop2 r fs1 O)
          end
      end
  end.

Definition are_different (fs1 fs2 : list field) : bool := loop1 fs1 fs2 O || loop2 fs2 fs1 O.

End Diff.

(* instantiation for the current tree *)
Definition pid_gen : N := id_of_name table "particles".
Definition vid_gen : N := id_of_name table "var_config".
Definition pms_gen : list cmember := compared particle_members particle_diff_members particle_diff_bitwise.
Definition vms_gen : list cmember := compared varconfig_members varconfig_diff_members varconfig_diff_bitwise.

Definition are_different_gen : list field -> list field -> bool :=
  are_different table pid_gen vid_gen particle_size varconfig_size pms_gen vms_gen walltime_prefix.

(* on raw streams: skip the 64-byte header like the C code (pos = 64), then frame *)
Definition stream_fields (b : bytes) : option (list field) :=
  match decode hdr_id end_id (drop header_size b) with Some (fs, _) => Some fs | None => None end.

Definition diff_streams (b1 b2 : bytes) : option bool :=
  match stream_fields b1, stream_fields b2 with
  | Some f1, Some f2 => Some (are_different_gen f1 f2)
  | _, _ => None
  end.
