(* C17 property theorems ONLY (each closed by an already proved lemma) + assumptions. *)
From Coq Require Import NArith List String Bool.
From RV Require Import C05.Types C05.Model C05.Table C05.Roundtrip C05.Whole C05.Run C05.WholeGen C17.Model C17.Proofs C17.Complete C17.Relink Gen.Descriptors.
Import ListNotations.
Open Scope N_scope.

(* 1. Meaning of the return value of reb_binary_diff (output_option 1/2) for any table, any two field lists
   (types unique in the second): it is 1 iff a field of stream 1 is absent from stream 2, or a field of
   stream 2 is absent from stream 1, or a common field that is not a walltime* field differs (fdiff). *)
Theorem C17_are_different_iff : forall tbl pid vid prsz vrsz pms vms wall fs1 fs2, NoDup (map f_type fs2) ->
  (are_different tbl pid vid prsz vrsz pms vms wall fs1 fs2 = true <->
   (exists f1, In f1 fs1 /\ lookup fs2 (f_type f1) = None) \/
   (exists f2, In f2 fs2 /\ lookup fs1 (f_type f2) = None) \/
   (exists f1 f2, In f1 fs1 /\ lookup fs2 (f_type f1) = Some f2 /\
                  fdiff pid vid prsz vrsz pms vms f1 f2 = true /\ is_wall tbl wall (f_type f1) = false)).
Proof. exact are_different_iff. Qed.
Print Assumptions C17_are_different_iff.

(* 2. Per field, soundness and completeness for every field other than "particles"/"var_config":
   reported iff the payload bytes differ. *)
Theorem C17_fdiff_generic : forall pid vid prsz vrsz pms vms f1 f2, f_type f1 <> pid -> f_type f1 <> vid ->
  (fdiff pid vid prsz vrsz pms vms f1 f2 = true <-> f_payload f1 <> f_payload f2).
Proof. exact fdiff_generic. Qed.
Print Assumptions C17_fdiff_generic.

(* 3. Record fields: the verdict depends only on the byte ranges of the compared members ... *)
Theorem C17_records_only_compared_members : forall ms rsz n p1 p1' p2 p2',
  (forall i, (i < n)%nat -> members_agree ms (take rsz (Nat.iter i (drop rsz) p1)) (take rsz (Nat.iter i (drop rsz) p1'))) ->
  (forall i, (i < n)%nat -> members_agree ms (take rsz (Nat.iter i (drop rsz) p2)) (take rsz (Nat.iter i (drop rsz) p2'))) ->
  recs_ne n rsz ms p1 p2 = recs_ne n rsz ms p1' p2'.
Proof. exact recs_ne_only_compared_members. Qed.
Print Assumptions C17_records_only_compared_members.

(* ... and on the current tree the compared members are exactly the non-pointer members of struct reb_particle
   and struct reb_variational_configuration (regenerated from binarydiff.c and rebound.h): no address is ever
   compared, no value member is forgotten. *)
Theorem C17_compared_members_exact :
  strs_eqb particle_diff_members (nonptr_names particle_members) &&
  strs_eqb varconfig_diff_members (nonptr_names varconfig_members) &&
  bitwise_ok particle_members particle_diff_members particle_diff_bitwise &&
  bitwise_ok varconfig_members varconfig_diff_members varconfig_diff_bitwise = true.
Proof. exact gen_diff_members_complete. Qed.
Print Assumptions C17_compared_members_exact.

(* 4. A stream never differs from itself (hence sim == copy and sim == restored snapshot, given C05's round trip):
   full strength on the current tree, because every compared double (particle members, var_config.lrescale) is
   compared bitwise (regenerated fact gen_all_bitwise; a `!=` on a double coming back breaks this theorem).
   The general statement for any member lists needs the hypothesis "no NaN in a member compared with !=". *)
Theorem C17_self_equal : forall fs, NoDup (map f_type fs) -> are_different_gen fs fs = false.
Proof. exact gen_self_equal. Qed.
Print Assumptions C17_self_equal.

Theorem C17_self_equal_any_member_list : forall tbl pid vid prsz vrsz pms vms wall fs,
  NoDup (map f_type fs) -> forallb (field_no_nan pid vid prsz vrsz pms vms) fs = true ->
  are_different tbl pid vid prsz vrsz pms vms wall fs fs = false.
Proof. exact are_different_refl. Qed.
Print Assumptions C17_self_equal_any_member_list.

(* 5. Record fields, soundness and completeness on the current tree: reported iff the bytes of some compared
   (= non-pointer) member of some record differ.  Together with 2 this is "a difference is reported iff a
   persisted non-address quantity differs". *)
Theorem C17_records_reported_iff_member_bytes_differ : forall ms rsz, all_bitwise ms = true -> forall n p1 p2,
  (recs_ne n rsz ms p1 p2 = true <->
   exists i m, (i < n)%nat /\ In m ms /\
     slice (m_off (fst m)) (m_size (fst m)) (rec_at rsz i p1) <> slice (m_off (fst m)) (m_size (fst m)) (rec_at rsz i p2)).
Proof. exact recs_ne_bitwise_iff. Qed.
Print Assumptions C17_records_reported_iff_member_bytes_differ.

Theorem C17_all_compared_doubles_bitwise : all_bitwise pms_gen && all_bitwise vms_gen = true.
Proof. exact gen_all_bitwise. Qed.
Print Assumptions C17_all_compared_doubles_bitwise.

(* 6. copy_equal_view: copy s = reader (writer s) (reb_simulation_copy_with_messages) has the same persisted view as s
   and compares equal to it, for every well-formed memory of the regenerated table (C05's whole-table theorem). *)
Theorem C17_copy_equal_view : forall m m0 fp hdrpl,
  mem_wf particle_size table m -> init_ok table m0 ->
  let copy := rfields legacy_maxrad_id table m0 (mkfield hdr_id hdrpl :: gen_view m fp) in
  gen_view copy fp = gen_view m fp /\ are_different_gen (gen_view m fp) (gen_view copy fp) = false.
Proof. exact gen_copy_equal_view. Qed.
Print Assumptions C17_copy_equal_view.

(* 7. diff_complete_per_field: for EVERY row of the regenerated table whose name does not start with "walltime",
   a difference in that field alone (any byte for ordinary fields; the bytes of a value member of some record, or
   the record count, for particles / var_config) makes reb_binary_diff return 1 ... *)
Theorem C17_diff_complete_per_field : forall d, In d (live table) -> String.prefix walltime_prefix (d_name d) = false ->
  forall fs1 fs2 f1 f2, NoDup (map f_type fs2) ->
  In f1 fs1 -> f_type f1 = d_id d -> lookup fs2 (d_id d) = Some f2 ->
  persisted_difference f1 f2 -> are_different_gen fs1 fs2 = true.
Proof. exact gen_diff_complete_per_field. Qed.
Print Assumptions C17_diff_complete_per_field.

(* ... and conversely a reported difference is a missing field or a persisted_difference of a non-walltime field. *)
Theorem C17_diff_sound_per_field : forall fs1 fs2, NoDup (map f_type fs2) -> are_different_gen fs1 fs2 = true ->
  (exists f1, In f1 fs1 /\ lookup fs2 (f_type f1) = None) \/
  (exists f2, In f2 fs2 /\ lookup fs1 (f_type f2) = None) \/
  (exists f1 f2, In f1 fs1 /\ lookup fs2 (f_type f1) = Some f2 /\ persisted_difference f1 f2 /\
                 is_wall table walltime_prefix (f_type f1) = false).
Proof. exact gen_diff_sound_per_field. Qed.
Print Assumptions C17_diff_sound_per_field.

(* 8. Independence of a copy / restored simulation at the level of ADDRESS-VALUED members: the reader's final fix-up
   loops, modelled as loops over the records.  For every record index l < n (n = N_var_config resp. N, unbounded) and
   every byte offset i of the record: after the loop the byte is the re-linked value where the loop body assigns a
   member, and the original byte elsewhere - in particular no record keeps the source's address. *)
Theorem C17_relink_loop_all_records : forall g rsz n p l i,
  (n * rsz <= List.length p)%nat -> (l < n)%nat -> (i < rsz)%nat ->
  nth (l * rsz + i) (relink_loop n rsz g p) 0%N = match g i with Some x => x | None => nth (l * rsz + i) p 0%N end.
Proof. exact relink_loop_spec. Qed.
Print Assumptions C17_relink_loop_all_records.

(* ... and the loops regenerated from input.c are complete: each runs over the array's own count member and assigns
   EVERY address-valued member of the record type (from the struct layouts: particles: c, ap, sim; var_config: sim),
   for both record arrays whose address-valued members are dereferenced. *)
Theorem C17_relinks_complete :
  forallb relink_ok reader_relinks &&
  forallb (fun nm => existsb (fun r => String.eqb (fst (fst r)) nm) reader_relinks) ["particles"%string; "var_config"%string] = true.
Proof. exact gen_relinks_complete. Qed.
Print Assumptions C17_relinks_complete.

(* 9. Independence of a copy at the level of the descriptor table: NO row of the regenerated table makes the reader copy
   an address verbatim.  Each row is classified from the regenerated dtypes, C types and record layouts: no address at
   all / member freshly allocated by the reader with address-free elements / freshly allocated AND every address-valued
   element member re-linked by a regenerated fix-up loop (exactly particles, var_config) / audited: embedded reb_particle
   records whose c, ap, sim hold no address (exactly ri_whfast.p_jh, ri_whfast512.pjh0; checked on every stream by the
   searcher).  A new row whose reader path would copy an address falls into COPIES_ADDRESS and breaks the theorem.
   And the reader writes no member outside the table rows (and their count members), so every other pointer member of
   the copy keeps the NULL of reb_simulation_init. *)
Theorem C17_no_row_copies_an_address : forallb (fun d => class_ok (row_class d)) (live table) = true.
Proof. exact gen_no_verbatim_address. Qed.
Print Assumptions C17_no_row_copies_an_address.

Theorem C17_relinked_and_audited_rows :
  rows_of FreshAndRelinked = ["particles"%string; "var_config"%string] /\
  rows_of AuditedZero = ["ri_whfast.p_jh"%string; "ri_whfast512.pjh0"%string].
Proof. exact gen_relinked_and_audited_rows. Qed.
Print Assumptions C17_relinked_and_audited_rows.

Theorem C17_reader_writes_only_row_members : forall legacy tbl f k v, In (k, v) (writes legacy tbl f) ->
  (exists d, find_desc tbl (f_type f) = Some d /\ (fst k = d_member d \/ fst k = d_count d)) \/
  fst k = "max_radius0"%string \/ fst k = "max_radius1"%string.
Proof. exact reader_writes_only_row_members. Qed.
Print Assumptions C17_reader_writes_only_row_members.

(* 10. CORNER excluded by the hypothesis "types unique in stream 2" of 1, 4, 7: with a duplicated type the verdict of the
   code depends on its cursor and is NOT the lookup-based specification.  The model follows the code (cursor); here the
   field of stream 1 is compared with the SECOND occurrence in stream 2 (the one at the cursor), found equal, and no
   difference is reported although the first occurrence differs.  Writer output never has duplicates (C05_table_ok). *)
Example C17_duplicate_types_corner :
  let a := mkfield 3 [1] in let a' := mkfield 3 [2] in let b := mkfield 5 [9] in
  are_different_gen [b; a'] [a; b; a'] = false /\
  existsb (rep1 table pid_gen vid_gen particle_size varconfig_size pms_gen vms_gen walltime_prefix [a; b; a']) [b; a'] = true.
Proof. split; vm_compute; reflexivity. Qed.

(* Non-vacuity of the hypotheses of 1, 2, 4: two one-particle streams differing in x. *)
Example C17_hypotheses_inhabited :
  let f1 := mkfield pid_gen (le_enc 8 4607182418800017408 ++ repeat 0 120) in
  let f2 := mkfield pid_gen (le_enc 8 4611686018427387904 ++ repeat 0 120) in
  let g := mkfield 3 (le_enc 8 4607182418800017408) in
  NoDup (map f_type [f1; g]) /\ forallb (field_no_nan pid_gen vid_gen particle_size varconfig_size pms_gen vms_gen) [f1; g] = true /\
  are_different_gen [f1; g] [f1; g] = false /\ are_different_gen [f1; g] [f2; g] = true /\ f_type g <> pid_gen /\ f_type g <> vid_gen.
Proof.
  cbv zeta. split; [|split; [|split; [|split; [|split]]]]; try (vm_compute; reflexivity); try (vm_compute; discriminate).
  repeat constructor; cbn; vm_compute; intuition discriminate.
Qed.
