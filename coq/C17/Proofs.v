(* C17 — what the return value of reb_binary_diff means. *)
From Coq Require Import NArith List String Bool Arith Lia ZifyBool.
From RV Require Import C05.Types C05.Model C05.Table C17.Model Gen.Descriptors.
Import ListNotations.
Open Scope N_scope.

Lemma bytes_eqb_eq : forall a b, bytes_eqb a b = true <-> a = b.
Proof.
  induction a; destruct b; cbn [bytes_eqb]; split; intros H; try discriminate; auto.
  - apply andb_true_iff in H. destruct H as [H1 H2]. apply N.eqb_eq in H1. apply IHa in H2. subst; auto.
  - inversion H; subst. rewrite N.eqb_refl. cbn. apply IHa. reflexivity.
Qed.

Definition lookup (fs : list field) (ty : N) : option field := find (fun f => f_type f =? ty) fs.

Lemma find_idx_lookup : forall fs ty i,
  match find_idx fs ty i with Some (_, f) => lookup fs ty = Some f | None => lookup fs ty = None end.
Proof.
  induction fs as [|f fs IH]; intros ty i; cbn [find_idx lookup find]; auto.
  destruct (f_type f =? ty); auto. apply IH.
Qed.

Lemma nth_error_lookup : forall fs p f, NoDup (map f_type fs) -> nth_error fs p = Some f -> lookup fs (f_type f) = Some f.
Proof.
  induction fs as [|g fs IH]; intros p f ND H; [destruct p; discriminate|].
  inversion ND as [|? ? Hn ND']; subst. cbn [lookup find].
  destruct p; cbn [nth_error] in H.
  - inversion H; subst. rewrite N.eqb_refl. reflexivity.
  - destruct (f_type g =? f_type f) eqn:E.
    + apply N.eqb_eq in E. exfalso. apply Hn. rewrite E. apply in_map. eapply nth_error_In; eauto.
    + eapply IH; eauto.
Qed.

Lemma iter_shift : forall {A} (f : A -> A) i x, Nat.iter (S i) f x = Nat.iter i f (f x).
Proof. induction i; intros; cbn [Nat.iter nat_rect] in *; auto. unfold Nat.iter in *. cbn [nat_rect] in *. rewrite <- IHi. reflexivity. Qed.

Section Spec.
Variable tbl : list desc.
Variable pid vid prsz vrsz : N.
Variable pms vms : list cmember.
Variable wall : string.
Notation fdiff := (fdiff pid vid prsz vrsz pms vms).
Notation is_wall := (is_wall tbl wall).
Notation loop1 := (loop1 tbl pid vid prsz vrsz pms vms wall).
Notation are_different := (are_different tbl pid vid prsz vrsz pms vms wall).

(* what loop 1 reports about one field of stream 1 *)
Definition rep1 (fs2 : list field) (f1 : field) : bool :=
  match lookup fs2 (f_type f1) with
  | None => true                                            (* vanished field *)
  | Some f2 => fdiff f1 f2 && negb (is_wall (f_type f1))
  end.
(* what loop 2 reports about one field of stream 2 *)
Definition rep2 (fs1 : list field) (f2 : field) : bool :=
  match lookup fs1 (f_type f2) with None => true | Some _ => false end.

Lemma loop1_spec : forall fs2, NoDup (map f_type fs2) -> forall fs1 p, loop1 fs1 fs2 p = existsb (rep1 fs2) fs1.
Proof.
  intros fs2 ND. induction fs1 as [|f1 r IH]; intros p; cbn [C17.Model.loop1 existsb]; auto.
  unfold rep1 at 1.
  destruct (nth_error fs2 p) as [f2|] eqn:En.
  - destruct (f_type f2 =? f_type f1) eqn:E.
    + apply N.eqb_eq in E. pose proof (nth_error_lookup fs2 p f2 ND En) as L. rewrite E in L. rewrite L.
      rewrite IH. reflexivity.
    + pose proof (find_idx_lookup fs2 (f_type f1) O) as L.
      destruct (find_idx fs2 (f_type f1) 0) as [[j g]|]; rewrite L, IH; reflexivity.
  - pose proof (find_idx_lookup fs2 (f_type f1) O) as L.
    destruct (find_idx fs2 (f_type f1) 0) as [[j g]|]; rewrite L, IH; reflexivity.
Qed.

Lemma loop2_spec : forall fs1 fs2 p, loop2 fs2 fs1 p = existsb (rep2 fs1) fs2.
Proof.
  intros fs1. induction fs2 as [|f2 r IH]; intros p; cbn [loop2 existsb]; auto.
  unfold rep2 at 1.
  pose proof (find_idx_lookup fs1 (f_type f2) O) as L.
  destruct (nth_error fs1 p) as [f1|] eqn:En.
  - destruct (f_type f1 =? f_type f2) eqn:E.
    + apply N.eqb_eq in E.
      assert (exists g, lookup fs1 (f_type f2) = Some g) as [g Hg].
      { destruct (lookup fs1 (f_type f2)) eqn:Lk; eauto. exfalso.
        unfold lookup in Lk. eapply find_none in Lk; [|eapply nth_error_In; eauto].
        cbn in Lk. rewrite E, N.eqb_refl in Lk. discriminate. }
      rewrite Hg, IH. reflexivity.
    + destruct (find_idx fs1 (f_type f2) 0) as [[j g]|]; rewrite L, IH; reflexivity.
  - destruct (find_idx fs1 (f_type f2) 0) as [[j g]|]; rewrite L, IH; reflexivity.
Qed.

(* The return value: some field of stream 1 is absent from stream 2 or differs from its counterpart (and is
   not a walltime field), or some field of stream 2 is absent from stream 1. *)
Theorem are_different_spec : forall fs1 fs2, NoDup (map f_type fs2) ->
  are_different fs1 fs2 = existsb (rep1 fs2) fs1 || existsb (rep2 fs1) fs2.
Proof. intros. unfold C17.Model.are_different. rewrite loop1_spec, loop2_spec; auto. Qed.

Theorem are_different_iff : forall fs1 fs2, NoDup (map f_type fs2) ->
  (are_different fs1 fs2 = true <->
   (exists f1, In f1 fs1 /\ lookup fs2 (f_type f1) = None) \/
   (exists f2, In f2 fs2 /\ lookup fs1 (f_type f2) = None) \/
   (exists f1 f2, In f1 fs1 /\ lookup fs2 (f_type f1) = Some f2 /\ fdiff f1 f2 = true /\ is_wall (f_type f1) = false)).
Proof.
  intros fs1 fs2 ND. rewrite are_different_spec by auto. rewrite orb_true_iff, !existsb_exists.
  split.
  - intros [[f1 [Hin H]]|[f2 [Hin H]]].
    + unfold rep1 in H. destruct (lookup fs2 (f_type f1)) as [f2|] eqn:L.
      * right; right. exists f1, f2. apply andb_true_iff in H. destruct H as [H1 H2].
        apply negb_true_iff in H2. auto.
      * left. eauto.
    + unfold rep2 in H. destruct (lookup fs1 (f_type f2)) eqn:L; [discriminate|]. right; left; eauto.
  - intros [[f1 [Hin H]]|[[f2 [Hin H]]|[f1 [f2 (Hin & L & Hd & Hw)]]]].
    + left. exists f1. split; auto. unfold rep1. rewrite H. reflexivity.
    + right. exists f2. split; auto. unfold rep2. rewrite H. reflexivity.
    + left. exists f1. split; auto. unfold rep1. rewrite L, Hd, Hw. reflexivity.
Qed.

(* generic fields (everything except "particles" and "var_config"): memcmp, i.e. bytewise *)
Theorem fdiff_generic : forall f1 f2, f_type f1 <> pid -> f_type f1 <> vid ->
  (fdiff f1 f2 = true <-> f_payload f1 <> f_payload f2).
Proof.
  intros f1 f2 Hp Hv. unfold C17.Model.fdiff.
  destruct (f_type f1 =? pid) eqn:E1; [apply N.eqb_eq in E1; contradiction|].
  destruct (f_type f1 =? vid) eqn:E2; [apply N.eqb_eq in E2; contradiction|].
  destruct (len (f_payload f1) =? len (f_payload f2)) eqn:El.
  - rewrite negb_true_iff. split.
    + intros H Heq. apply bytes_eqb_eq in Heq. congruence.
    + intros H. destruct (bytes_eqb (f_payload f1) (f_payload f2)) eqn:B; auto. apply bytes_eqb_eq in B. contradiction.
  - split; auto. intros _ Heq. rewrite Heq, N.eqb_refl in El. discriminate.
Qed.

(* record fields: the comparison looks only at the compared members' byte ranges *)
Definition members_agree (ms : list cmember) (r1 r2 : bytes) : Prop :=
  forall m, In m ms -> slice (m_off (fst m)) (m_size (fst m)) r1 = slice (m_off (fst m)) (m_size (fst m)) r2.

Lemma member_ne_ext : forall (m : cmember) r1 r1' r2 r2',
  slice (m_off (fst m)) (m_size (fst m)) r1 = slice (m_off (fst m)) (m_size (fst m)) r1' ->
  slice (m_off (fst m)) (m_size (fst m)) r2 = slice (m_off (fst m)) (m_size (fst m)) r2' ->
  member_ne m r1 r2 = member_ne m r1' r2'.
Proof. intros. unfold member_ne. rewrite H, H0. reflexivity. Qed.

Lemma existsb_ext_in : forall {A} (f g : A -> bool) l, (forall a, In a l -> f a = g a) -> existsb f l = existsb g l.
Proof. induction l; intros H; cbn [existsb]; auto. rewrite H by (left; auto). rewrite IHl; auto. intros; apply H; right; auto. Qed.

(* "never on account of memory addresses": two payload pairs whose records agree on every compared
   (= non-pointer, see C05.Table.gen_diff_members_complete) member give the same verdict *)
Theorem recs_ne_only_compared_members : forall ms rsz n p1 p1' p2 p2',
  (forall i, (i < n)%nat -> members_agree ms (take rsz (Nat.iter i (drop rsz) p1)) (take rsz (Nat.iter i (drop rsz) p1'))) ->
  (forall i, (i < n)%nat -> members_agree ms (take rsz (Nat.iter i (drop rsz) p2)) (take rsz (Nat.iter i (drop rsz) p2'))) ->
  recs_ne n rsz ms p1 p2 = recs_ne n rsz ms p1' p2'.
Proof.
  intros ms rsz. induction n; intros p1 p1' p2 p2' H1 H2; cbn [recs_ne]; auto.
  f_equal.
  - apply existsb_ext_in. intros m Hm. apply member_ne_ext.
    + apply (H1 O ltac:(lia) m Hm).
    + apply (H2 O ltac:(lia) m Hm).
  - apply IHn; intros i Hi.
    + specialize (H1 (S i) ltac:(lia)). rewrite !iter_shift in H1. exact H1.
    + specialize (H2 (S i) ltac:(lia)). rewrite !iter_shift in H2. exact H2.
Qed.

(* a record field equals itself unless a compared double is a NaN *)
Definition no_nan_member (mb : cmember) (r : bytes) : bool :=
  match m_kind (fst mb), snd mb with
  | KDouble, false => negb (is_nan (le_dec (slice (m_off (fst mb)) (m_size (fst mb)) r)))
  | _, _ => true
  end.

Fixpoint recs_no_nan (n : nat) (rsz : N) (ms : list cmember) (p : bytes) : bool :=
  match n with O => true | S n => forallb (fun m => no_nan_member m (take rsz p)) ms && recs_no_nan n rsz ms (drop rsz p) end.

Lemma bytes_eqb_refl : forall a, bytes_eqb a a = true.
Proof. intros; apply bytes_eqb_eq; reflexivity. Qed.

Lemma recs_ne_refl : forall ms rsz n p, recs_no_nan n rsz ms p = true -> recs_ne n rsz ms p p = false.
Proof.
  intros ms rsz. induction n; intros p H; cbn [recs_ne recs_no_nan] in *; auto.
  apply andb_true_iff in H. destruct H as [H1 H2]. rewrite (IHn _ H2), orb_false_r.
  rewrite forallb_forall in H1.
  destruct (existsb (fun m => member_ne m (take rsz p) (take rsz p)) ms) eqn:E; auto.
  apply existsb_exists in E. destruct E as [m [Hm Hne]]. specialize (H1 m Hm).
  unfold member_ne in Hne. unfold no_nan_member in H1.
  destruct (m_kind (fst m)), (snd m); try (rewrite bytes_eqb_refl in Hne; discriminate).
  unfold dbl_ne in Hne. apply negb_true_iff in H1. rewrite H1, N.eqb_refl in Hne. cbn in Hne. discriminate.
Qed.

Definition field_no_nan (f : field) : bool :=
  if f_type f =? pid then recs_no_nan (N.to_nat (len (f_payload f) / prsz)) prsz pms (f_payload f)
  else if f_type f =? vid then recs_no_nan (N.to_nat (len (f_payload f) / vrsz)) vrsz vms (f_payload f)
  else true.

Theorem fdiff_refl : forall f, field_no_nan f = true -> fdiff f f = false.
Proof.
  intros f H. unfold C17.Model.fdiff, field_no_nan in *. rewrite N.eqb_refl.
  destruct (f_type f =? pid). { apply recs_ne_refl; auto. }
  destruct (f_type f =? vid). { apply recs_ne_refl; auto. }
  rewrite bytes_eqb_refl. reflexivity.
Qed.

(* a stream never differs from itself (copy / restored snapshot write the same fields) unless NaN *)
Theorem are_different_refl : forall fs, NoDup (map f_type fs) -> forallb field_no_nan fs = true ->
  are_different fs fs = false.
Proof.
  intros fs ND Hn. rewrite are_different_spec by auto.
  rewrite forallb_forall in Hn.
  assert (L : forall f, In f fs -> lookup fs (f_type f) = Some f).
  { intros f Hin. apply In_nth_error in Hin. destruct Hin as [p Hp]. eapply nth_error_lookup; eauto. }
  apply orb_false_iff. split.
  - destruct (existsb (rep1 fs) fs) eqn:E; auto. apply existsb_exists in E. destruct E as [f [Hin H]].
    unfold rep1 in H. rewrite (L f Hin) in H. rewrite fdiff_refl in H by auto. discriminate.
  - destruct (existsb (rep2 fs) fs) eqn:E; auto. apply existsb_exists in E. destruct E as [f [Hin H]].
    unfold rep2 in H. rewrite (L f Hin) in H. discriminate.
Qed.

End Spec.

(* current tree: every compared double is compared bitwise (memcmp), so no NaN hypothesis is needed *)
Definition all_bitwise (ms : list cmember) : bool :=
  forallb (fun mb : cmember => match m_kind (fst mb), snd mb with KDouble, false => false | _, _ => true end) ms.

Lemma recs_no_nan_bitwise : forall ms rsz n p, all_bitwise ms = true -> recs_no_nan n rsz ms p = true.
Proof.
  intros ms rsz. induction n; intros p H; cbn [recs_no_nan]; auto.
  rewrite IHn by auto. rewrite andb_true_r. apply forallb_forall. intros m Hm.
  unfold all_bitwise in H. rewrite forallb_forall in H. specialize (H m Hm). unfold no_nan_member.
  destruct (m_kind (fst m)), (snd m); auto; discriminate.
Qed.

Lemma gen_all_bitwise : all_bitwise pms_gen && all_bitwise vms_gen = true.
Proof. vm_compute. reflexivity. Qed.

Lemma gen_self_equal : forall fs, NoDup (map f_type fs) -> are_different_gen fs fs = false.
Proof.
  intros fs ND. unfold are_different_gen. apply are_different_refl; auto.
  apply forallb_forall. intros f _. unfold field_no_nan.
  pose proof gen_all_bitwise as H. apply andb_true_iff in H. destruct H as [Hp Hv].
  destruct (f_type f =? pid_gen). { apply recs_no_nan_bitwise; auto. }
  destruct (f_type f =? vid_gen). { apply recs_no_nan_bitwise; auto. }
  reflexivity.
Qed.

(* with bitwise members a record field is reported iff some compared member of some record differs in its bytes *)
Definition rec_at (rsz : N) (i : nat) (p : bytes) : bytes := take rsz (Nat.iter i (drop rsz) p).

Lemma member_ne_bitwise : forall (m : cmember) r1 r2,
  match m_kind (fst m), snd m with KDouble, false => false | _, _ => true end = true ->
  (member_ne m r1 r2 = true <-> slice (m_off (fst m)) (m_size (fst m)) r1 <> slice (m_off (fst m)) (m_size (fst m)) r2).
Proof.
  intros m r1 r2 H. unfold member_ne.
  assert (E : forall a b, negb (bytes_eqb a b) = true <-> a <> b).
  { intros a b. rewrite negb_true_iff. split.
    - intros Hn Heq. apply bytes_eqb_eq in Heq. congruence.
    - intros Hn. destruct (bytes_eqb a b) eqn:B; auto. apply bytes_eqb_eq in B. contradiction. }
  destruct (m_kind (fst m)), (snd m); try discriminate H; apply E.
Qed.

Lemma recs_ne_bitwise_iff : forall ms rsz, all_bitwise ms = true -> forall n p1 p2,
  (recs_ne n rsz ms p1 p2 = true <->
   exists i m, (i < n)%nat /\ In m ms /\
     slice (m_off (fst m)) (m_size (fst m)) (rec_at rsz i p1) <> slice (m_off (fst m)) (m_size (fst m)) (rec_at rsz i p2)).
Proof.
  intros ms rsz Hb. unfold all_bitwise in Hb. rewrite forallb_forall in Hb.
  induction n; intros p1 p2; cbn [recs_ne].
  - split; [discriminate | intros (i & m & Hi & _); lia].
  - rewrite orb_true_iff, existsb_exists, IHn. split.
    + intros [[m [Hm Hne]] | (i & m & Hi & Hm & Hne)].
      * exists O, m. split; [lia|]. split; auto. apply member_ne_bitwise in Hne; auto.
      * exists (S i), m. split; [lia|]. split; auto. unfold rec_at in *. rewrite !iter_shift. exact Hne.
    + intros (i & m & Hi & Hm & Hne). destruct i.
      * left. exists m. split; auto. apply member_ne_bitwise; auto.
      * right. exists i, m. split; [lia|]. split; auto. unfold rec_at in *. rewrite !iter_shift in Hne. exact Hne.
Qed.
