(* C17 — corollaries on the regenerated table: a copy has an equal view; every single-field difference of any
   persisted, non-walltime field is reported. *)
From Coq Require Import NArith List String Bool Arith Lia ZifyBool.
From RV Require Import C05.Types C05.Model C05.Table C05.Codec C05.Roundtrip C05.Whole C05.Run C05.WholeGen
                       C17.Model C17.Proofs Gen.Descriptors.
Import ListNotations.
Open Scope N_scope.

Lemma nodupb_NoDup : forall l, nodupb N.eqb l = true -> NoDup l.
Proof.
  induction l as [|x l IH]; intros H; [constructor|].
  cbn [nodupb] in H. apply andb_true_iff in H. destruct H as [H1 H2]. constructor; auto.
  intros Hin. apply negb_true_iff in H1.
  assert (existsb (N.eqb x) l = true) by (apply existsb_exists; exists x; split; auto; apply N.eqb_refl).
  congruence.
Qed.

Lemma NoDup_app_intro_single : forall {A} (l : list A) x, NoDup l -> ~ In x l -> NoDup (l ++ [x]).
Proof.
  induction l as [|a l IH]; intros x ND Hn; cbn [app].
  - constructor; [intros []|constructor].
  - inversion ND; subst. constructor.
    + intros Hin. apply in_app_or in Hin. destruct Hin as [Hin|[->|[]]]; [contradiction|]. apply Hn. left; reflexivity.
    + apply IH; auto. intros Hin. apply Hn. right; auto.
Qed.

Lemma wdesc_shape : forall psz m d, wdesc psz m d = [] \/ exists f, wdesc psz m d = [f] /\ f_type f = d_id d.
Proof.
  intros. unfold wdesc. destruct (d_dt d); cbn [simple_size];
    repeat match goal with
           | |- context [if ?c then _ else _] => destruct c
           | |- context [match ?c with _ => _ end] => destruct c
           end; auto; right; eexists; split; reflexivity.
Qed.

Lemma mview_types : forall psz m l,
  NoDup (map d_id l) ->
  NoDup (map f_type (flat_map (wdesc psz m) l)) /\
  (forall t, In t (map f_type (flat_map (wdesc psz m) l)) -> exists d, In d l /\ d_id d = t /\ wdesc psz m d <> []).
Proof.
  induction l as [|d l IH]; intros ND; cbn [flat_map map].
  - split; [constructor | intros t []].
  - inversion ND as [|? ? Hn ND']; subst. destruct (IH ND') as [IH1 IH2].
    destruct (wdesc_shape psz m d) as [E|[f [E Ef]]]; rewrite E; cbn [app map].
    + split; auto. intros t Ht. destruct (IH2 t Ht) as [d' [A [B C]]]. exists d'. split; [right; auto|auto].
    + split.
      * constructor; auto. intros Hin. destruct (IH2 _ Hin) as [d' [A [B C]]]. apply Hn. rewrite <- Ef, <- B. apply in_map; auto.
      * intros t [Ht|Ht].
        -- exists d. split; [left; auto|]. split; [congruence|]. rewrite E. discriminate.
        -- destruct (IH2 t Ht) as [d' [A [B C]]]. exists d'. split; [right; auto|auto].
Qed.

Lemma gen_ids_nodup : NoDup (map d_id (live table)).
Proof. apply nodupb_NoDup. vm_compute. reflexivity. Qed.

Lemma gen_fp_row_silent : forallb (fun d => negb (d_id d =? fp_id) || negb (writes_member (d_dt d))) (live table) = true.
Proof. vm_compute. reflexivity. Qed.

Lemma silent_row : forall psz m d, writes_member (d_dt d) = false -> wdesc psz m d = [].
Proof. intros psz m d H. unfold wdesc. destruct (d_dt d); try discriminate H; reflexivity. Qed.

Lemma gen_view_nodup : forall m fp, NoDup (map f_type (gen_view m fp)).
Proof.
  intros m fp. unfold gen_view, view. cbn [mem fp_used]. rewrite map_app. cbn [map fp_field f_type].
  destruct (mview_types particle_size m (live table) gen_ids_nodup) as [ND Hsub].
  apply NoDup_app_intro_single; auto.
  intros Hin. destruct (Hsub _ Hin) as [d [Hd [Hid Hne]]].
  pose proof gen_fp_row_silent as H. rewrite forallb_forall in H. specialize (H d Hd).
  rewrite Hid, N.eqb_refl in H. cbn [negb orb] in H. apply negb_true_iff in H.
  apply Hne. apply silent_row; auto.
Qed.

(* copy s = reader (writer s): the copy's view compares equal to the source's, for every well-formed memory *)
Theorem gen_copy_equal_view : forall m m0 fp hdrpl,
  gen_mem_wf m -> gen_init_ok m0 ->
  let copy := rfields legacy_maxrad_id table m0 (mkfield hdr_id hdrpl :: gen_view m fp) in
  gen_view copy fp = gen_view m fp /\ are_different_gen (gen_view m fp) (gen_view copy fp) = false.
Proof.
  intros m m0 fp hdrpl Hwf Hinit copy.
  assert (Hv : gen_view copy fp = gen_view m fp).
  { unfold copy, rfields. cbn [flat_map]. rewrite gen_header_writes_nothing. cbn [app].
    unfold gen_view. apply (whole_view_roundtrip particle_size legacy_maxrad_id fp_id table gen_whole_table_ok); auto. }
  split; auto. rewrite Hv. apply gen_self_equal. apply gen_view_nodup.
Qed.

(* ---------- completeness per field *)
Notation fdiff_gen := (fdiff pid_gen vid_gen particle_size varconfig_size pms_gen vms_gen).

Definition rec_differs (rsz : N) (ms : list cmember) (p1 p2 : bytes) : Prop :=
  len p1 <> len p2 \/
  exists i m, (i < N.to_nat (len p1 / rsz))%nat /\ In m ms /\
    slice (m_off (fst m)) (m_size (fst m)) (rec_at rsz i p1) <> slice (m_off (fst m)) (m_size (fst m)) (rec_at rsz i p2).

(* what counts as a difference of a persisted field: for particles / var_config some value (non-pointer) member of
   some record differs in its bytes (or the number of records differs); for every other field any byte differs *)
Definition persisted_difference (f1 f2 : field) : Prop :=
  if f_type f1 =? pid_gen then rec_differs particle_size pms_gen (f_payload f1) (f_payload f2)
  else if f_type f1 =? vid_gen then rec_differs varconfig_size vms_gen (f_payload f1) (f_payload f2)
  else f_payload f1 <> f_payload f2.

Lemma fdiff_complete : forall f1 f2, persisted_difference f1 f2 -> fdiff_gen f1 f2 = true.
Proof.
  intros f1 f2 H. unfold persisted_difference in H.
  pose proof gen_all_bitwise as Hb. apply andb_true_iff in Hb. destruct Hb as [Hp Hv].
  destruct (f_type f1 =? pid_gen) eqn:E1.
  - unfold C17.Model.fdiff. rewrite E1. destruct (len (f_payload f1) =? len (f_payload f2)) eqn:El; auto.
    destruct H as [H|(i & m & Hi & Hm & Hne)]; [apply N.eqb_eq in El; contradiction|].
    apply (recs_ne_bitwise_iff pms_gen particle_size Hp). eauto.
  - destruct (f_type f1 =? vid_gen) eqn:E2.
    + unfold C17.Model.fdiff. rewrite E1, E2. destruct (len (f_payload f1) =? len (f_payload f2)) eqn:El; auto.
      destruct H as [H|(i & m & Hi & Hm & Hne)]; [apply N.eqb_eq in El; contradiction|].
      apply (recs_ne_bitwise_iff vms_gen varconfig_size Hv). eauto.
    + apply fdiff_generic; auto; apply N.eqb_neq; auto.
Qed.

Lemma fdiff_sound : forall f1 f2, fdiff_gen f1 f2 = true -> persisted_difference f1 f2.
Proof.
  intros f1 f2 H. unfold persisted_difference.
  pose proof gen_all_bitwise as Hb. apply andb_true_iff in Hb. destruct Hb as [Hp Hv].
  destruct (f_type f1 =? pid_gen) eqn:E1.
  - unfold C17.Model.fdiff in H. rewrite E1 in H. destruct (len (f_payload f1) =? len (f_payload f2)) eqn:El.
    + right. apply (recs_ne_bitwise_iff pms_gen particle_size Hp) in H. exact H.
    + left. apply N.eqb_neq; auto.
  - destruct (f_type f1 =? vid_gen) eqn:E2.
    + unfold C17.Model.fdiff in H. rewrite E1, E2 in H. destruct (len (f_payload f1) =? len (f_payload f2)) eqn:El.
      * right. apply (recs_ne_bitwise_iff vms_gen varconfig_size Hv) in H. exact H.
      * left. apply N.eqb_neq; auto.
    + apply fdiff_generic in H; auto; apply N.eqb_neq; auto.
Qed.

(* rows whose name does not start with "walltime" are not exempted (computed over the regenerated table) *)
Lemma gen_wall_rows : forallb (fun d => String.prefix walltime_prefix (d_name d) || negb (is_wall table walltime_prefix (d_id d))) (live table) = true.
Proof. vm_compute. reflexivity. Qed.

Theorem gen_diff_complete_per_field : forall d, In d (live table) -> String.prefix walltime_prefix (d_name d) = false ->
  forall fs1 fs2 f1 f2, NoDup (map f_type fs2) ->
  In f1 fs1 -> f_type f1 = d_id d -> lookup fs2 (d_id d) = Some f2 ->
  persisted_difference f1 f2 -> are_different_gen fs1 fs2 = true.
Proof.
  intros d Hd Hw fs1 fs2 f1 f2 ND Hin Hty Hl Hdiff.
  unfold are_different_gen. apply are_different_iff; auto.
  right; right. exists f1, f2. rewrite Hty. repeat split; auto.
  - apply fdiff_complete; auto.
  - pose proof gen_wall_rows as H. rewrite forallb_forall in H. specialize (H d Hd). rewrite Hw in H.
    cbn [orb] in H. apply negb_true_iff in H. exact H.
Qed.

(* and conversely nothing else is reported for a common field: soundness per field *)
Theorem gen_diff_sound_per_field : forall fs1 fs2, NoDup (map f_type fs2) -> are_different_gen fs1 fs2 = true ->
  (exists f1, In f1 fs1 /\ lookup fs2 (f_type f1) = None) \/
  (exists f2, In f2 fs2 /\ lookup fs1 (f_type f2) = None) \/
  (exists f1 f2, In f1 fs1 /\ lookup fs2 (f_type f1) = Some f2 /\ persisted_difference f1 f2 /\
                 is_wall table walltime_prefix (f_type f1) = false).
Proof.
  intros fs1 fs2 ND H. unfold are_different_gen in H. apply are_different_iff in H; auto.
  destruct H as [H|[H|(f1 & f2 & A & B & C & D)]]; auto.
  right; right. exists f1, f2. repeat split; auto. apply fdiff_sound; auto.
Qed.
