(* C17 — the reader's final fix-up loops (after finish_fields in reb_input_fields): every address-valued member of
   every restored record is re-linked: for l < count: array[l].member := NULL | address of the NEW simulation.
   The loops are modelled as loops over the records; the loop headers, arrays, members and values are regenerated
   from input.c (Gen.Descriptors.reader_relinks; any other statement shape makes the translator fail). *)
From Coq Require Import NArith List String Bool Arith Lia ZifyBool.
From RV Require Import C05.Types C05.Model C05.Table C05.Run Gen.Descriptors.
Import ListNotations.

Fixpoint mapi_nat (i : nat) (f : nat -> N -> N) (l : list N) : list N :=
  match l with [] => [] | b :: r => f i b :: mapi_nat (S i) f r end.

(* one loop body: the bytes of the record at the offsets where g is defined are overwritten *)
Definition relink_rec (g : nat -> option N) (rec : list N) : list N :=
  mapi_nat 0 (fun i b => match g i with Some x => x | None => b end) rec.

(* for (l = 0; l < n; l++) body(record l) *)
Fixpoint relink_loop (n rsz : nat) (g : nat -> option N) (p : list N) : list N :=
  match n with
  | O => p
  | S n => relink_rec g (firstn rsz p) ++ relink_loop n rsz g (skipn rsz p)
  end.

Lemma mapi_nat_length : forall f l i, List.length (mapi_nat i f l) = List.length l.
Proof. induction l; intros; cbn [mapi_nat List.length]; auto. Qed.

Lemma nth_mapi_nat : forall f l i k, (k < List.length l)%nat -> nth k (mapi_nat i f l) 0%N = f (i + k)%nat (nth k l 0%N).
Proof.
  induction l; intros i k H; cbn [List.length] in H; [lia|].
  destruct k; cbn [mapi_nat nth].
  - rewrite Nat.add_0_r. reflexivity.
  - rewrite IHl by lia. f_equal. lia.
Qed.

Lemma nth_firstn' : forall (l : list N) n k, (k < n)%nat -> nth k (firstn n l) 0%N = nth k l 0%N.
Proof.
  induction l; intros n k H; destruct n; try lia; cbn [firstn nth]; auto.
  destruct k; auto. apply IHl. lia.
Qed.

Lemma nth_skipn' : forall (l : list N) n k, nth k (skipn n l) 0%N = nth (n + k) l 0%N.
Proof.
  induction l; intros n k; destruct n; cbn [skipn nth Nat.add]; auto.
  destruct k; reflexivity.
Qed.

(* THE LOOP INVARIANT, for every record index l < n and every byte offset i < rsz: the byte is the re-linked value
   where the loop body assigns one, and the original byte elsewhere.  Unbounded in n. *)
Theorem relink_loop_spec : forall g rsz n p l i,
  (n * rsz <= List.length p)%nat -> (l < n)%nat -> (i < rsz)%nat ->
  nth (l * rsz + i) (relink_loop n rsz g p) 0%N = match g i with Some x => x | None => nth (l * rsz + i) p 0%N end.
Proof.
  intros g rsz. induction n; intros p l i Hlen Hl Hi; [lia|].
  cbn [relink_loop].
  assert (Hf : List.length (firstn rsz p) = rsz) by (rewrite firstn_length; nia).
  destruct l.
  - cbn [Nat.mul Nat.add]. rewrite app_nth1 by (unfold relink_rec; rewrite mapi_nat_length; lia).
    unfold relink_rec. rewrite nth_mapi_nat by lia. cbn [Nat.add]. rewrite nth_firstn' by lia. reflexivity.
  - rewrite app_nth2 by (unfold relink_rec; rewrite mapi_nat_length; nia).
    unfold relink_rec at 1. rewrite mapi_nat_length, Hf.
    replace (S l * rsz + i - rsz)%nat with (l * rsz + i)%nat by nia.
    rewrite IHn; try lia. 2:{ rewrite skipn_length. nia. }
    rewrite nth_skipn'. replace (rsz + (l * rsz + i))%nat with (S l * rsz + i)%nat by nia. reflexivity.
Qed.

(* ---------- instantiation from the regenerated description *)
Open Scope N_scope.
Definition value_bytes (addr : N) (v : relink_value) : bytes := le_enc 8 (match v with RNull => 0 | RSelf => addr end).

(* offset -> assigned byte, from the members the loop body assigns *)
Definition assign_of (layout : list member) (sets : list (string * relink_value)) (addr : N) (i : nat) : option N :=
  let hit := find (fun s => match member_of layout (fst s) with
                            | Some m => (m_off m <=? N.of_nat i) && (N.of_nat i <? m_off m + m_size m)
                            | None => false end) sets in
  match hit with
  | Some s => match member_of layout (fst s) with
              | Some m => Some (nth (i - N.to_nat (m_off m)) (value_bytes addr (snd s)) 0)
              | None => None end
  | None => None
  end.

Definition layout_of (arr : string) : option (list member * N) :=
  if String.eqb arr "particles" then Some (particle_members, particle_size)
  else if String.eqb arr "var_config" then Some (varconfig_members, varconfig_size) else None.

Definition relink_field (addr : N) (f : field) : field :=
  match find (fun r => id_of_name table (fst (fst r)) =? f_type f) reader_relinks with
  | Some r => match layout_of (fst (fst r)) with
              | Some (lay, rsz) =>
                  mkfield (f_type f) (relink_loop (N.to_nat (len (f_payload f) / rsz)) (N.to_nat rsz) (assign_of lay (snd r) addr) (f_payload f))
              | None => f end
  | None => f
  end.

(* the regenerated loops are complete: each loop runs over the array's own count member (directly or through
   the count assignment N_allocated := N that precedes it), and its body assigns EVERY address-valued member of the
   record type (taken from the struct layout) exactly once; both record arrays with address-valued members that
   the library or the Python layer dereferences (particles, var_config) have such a loop *)
Definition ptr_names (ms : list member) : list string :=
  map m_path (filter (fun m => match m_kind m with KPtr | KFunPtr => true | _ => false end) ms).
Definition same_set (a b : list string) : bool :=
  forallb (fun x => existsb (String.eqb x) b) a && forallb (fun x => existsb (String.eqb x) a) b && (List.length a =? List.length b)%nat.
Definition relink_ok (r : string * string * list (string * relink_value)) : bool :=
  match layout_of (fst (fst r)), find (fun d => String.eqb (d_name d) (fst (fst r))) table with
  | Some (lay, _), Some d =>
      same_set (map fst (snd r)) (ptr_names lay) &&
      (String.eqb (snd (fst r)) (d_count d) ||
       existsb (fun cs => String.eqb (fst cs) (snd (fst r)) && String.eqb (snd cs) (d_count d)) reader_count_sets)
  | _, _ => false
  end.
Lemma gen_relinks_complete :
  forallb relink_ok reader_relinks &&
  forallb (fun nm => existsb (fun r => String.eqb (fst (fst r)) nm) reader_relinks) ["particles"%string; "var_config"%string] = true.
Proof. vm_compute. reflexivity. Qed.

(* every var_config record l (all l < N_var_config) gets sim := addr; every particle record gets c, ap := NULL, sim := addr *)
Lemma gen_assign_values : forall addr, addr < 18446744073709551616 ->
  (forall i, (i < 8)%nat -> assign_of varconfig_members [("sim"%string, RSelf)] addr i = Some (nth i (le_enc 8 addr) 0)) /\
  (forall i, (8 <= i < 40)%nat -> assign_of varconfig_members [("sim"%string, RSelf)] addr i = None).
Proof.
  intros addr _. split; intros i Hi.
  - do 8 (destruct i as [|i]; [reflexivity|]). lia.
  - do 8 (destruct i as [|i]; [lia|]). do 32 (destruct i as [|i]; [reflexivity|]). lia.
Qed.

(* correspondence glue: Coq reader + Coq fix-up loops + Coq writer vs library save(restored), UNMASKED for the record
   fields (so the actual addresses are compared); addr = address of the restored struct reb_simulation *)
Definition relink_corr (b0 b r : bytes) (addr : N) : N :=
  match dec b0, dec b, dec r with
  | Some (_ :: f0, _), Some (_ :: fs, _), Some (_ :: fr, _) =>
      let m := mem_of (mem_of empty_mem f0) fs in
      let v := map (relink_field addr) (gen_view m false) in
      let pick := fun l => filter (fun f => (f_type f =? id_of_name table "particles") || (f_type f =? id_of_name table "var_config")) l in
      if fields_eqb (pick v) (pick fr) then 0 else 1
  | _, _, _ => 8
  end.

(* ---------- no address is copied verbatim: classification of every row of the regenerated table by what the
   reader does with addresses.
   * simple rows (fread into the struct): the member's C type holds no address, except embedded reb_particle records;
   * array / fixed rows: the member itself is freshly (re)allocated by the reader (realloc / malloc in the pointer
     branches of reb_input_fields, i.e. owned by the new simulation); the ELEMENTS hold no address, or are records
     whose address-valued members are all re-linked by a regenerated fix-up loop (reader_relinks);
   * audited exceptions: records of struct reb_particle in ri_whfast.p_jh / ri_whfast512.pjh0 are copied bytewise
     including their c/ap/sim members, which hold no address (p_jh is zeroed on allocation, the transforms write value
     members only; pjh0 lives in the zero-initialised struct) - checked on every library stream by the searcher. *)
Open Scope N_scope.
Definition has_ptr (ty : string) : bool :=
  match find (fun e => String.eqb (fst e) ty) type_has_pointer with Some e => snd e | None => true end.

Definition verbatim_audited : list string := ["ri_whfast.p_jh"%string; "ri_whfast512.pjh0"%string].

Inductive addr_class := NoAddress | FreshAllocation | FreshAndRelinked | AuditedZero | COPIES_ADDRESS.

Definition row_class (d : desc) : addr_class :=
  if negb (writes_member (d_dt d)) then NoAddress else
  match member_of sim_members (d_member d) with
  | None => COPIES_ADDRESS
  | Some m =>
      if is_simple (d_dt d) then
        match m_kind m with
        | KPtr | KFunPtr => COPIES_ADDRESS
        | KStruct | KArr => if has_ptr (m_tyname m)
                            then (if existsb (String.eqb (d_name d)) verbatim_audited then AuditedZero else COPIES_ADDRESS)
                            else NoAddress
        | _ => NoAddress
        end
      else (* pointer dtypes: the member is a pointer (or reb_dp7 of pointers) that the reader allocates itself *)
        match d_dt d with
        | DDp7 => FreshAllocation                                   (* seven double arrays *)
        | _ => if has_ptr (m_tyname m)
               then (if existsb (fun r => String.eqb (fst (fst r)) (d_name d)) reader_relinks then FreshAndRelinked
                     else if existsb (String.eqb (d_name d)) verbatim_audited then AuditedZero else COPIES_ADDRESS)
               else FreshAllocation
        end
  end.

Definition class_ok (c : addr_class) : bool := match c with COPIES_ADDRESS => false | _ => true end.

Lemma gen_no_verbatim_address : forallb (fun d => class_ok (row_class d)) (live table) = true.
Proof. vm_compute. reflexivity. Qed.

(* the rows in each class, for the record (computed) *)
Definition rows_of (c : addr_class) : list string :=
  map d_name (filter (fun d => match row_class d, c with
                               | FreshAndRelinked, FreshAndRelinked | AuditedZero, AuditedZero => true | _, _ => false end) (live table)).
Lemma gen_relinked_and_audited_rows :
  rows_of FreshAndRelinked = ["particles"%string; "var_config"%string] /\
  rows_of AuditedZero = ["ri_whfast.p_jh"%string; "ri_whfast512.pjh0"%string].
Proof. vm_compute. split; reflexivity. Qed.

(* every pointer-valued member of struct reb_simulation that is NOT the member of a table row is never written by the
   reader model (writes only produces keys of table rows and their count members): it keeps the value of
   reb_simulation_init, i.e. NULL - so nothing outside the table can alias the source either *)
Lemma reader_writes_only_row_members : forall legacy tbl f k v, In (k, v) (writes legacy tbl f) ->
  (exists d, find_desc tbl (f_type f) = Some d /\ (fst k = d_member d \/ fst k = d_count d)) \/
  fst k = "max_radius0"%string \/ fst k = "max_radius1"%string.
Proof.
  intros legacy tbl f k v H. unfold writes in H.
  destruct (find_desc tbl (f_type f)) as [d|] eqn:E.
  - assert (Hparts : forall ks q pl, In (k, v) (split_parts ks q pl) -> In k ks).
    { induction ks; intros q pl Hin; cbn [split_parts] in Hin; [contradiction|].
      destruct Hin as [Hin|Hin]; [inversion Hin; left; reflexivity | right; eapply IHks; eauto]. }
    assert (Hpk : In k (parts d) -> fst k = d_member d).
    { unfold parts. destruct (d_dt d); cbn [map In]; intros Hk; repeat (destruct Hk as [<-|Hk]; [reflexivity|]); contradiction. }
    destruct (d_dt d) eqn:Edt;
      try (destruct H as [H|[]]; inversion H; left; exists d; split; auto; left; reflexivity);
      try (apply in_app_or in H; destruct H as [H|[H|[]]];
           [ left; exists d; split; auto; left; apply Hpk; eapply Hparts; eauto
           | inversion H; left; exists d; split; auto; right; reflexivity ]);
      try (destruct (f_type f =? legacy); [destruct H as [H|[H|[]]]; inversion H; auto | contradiction]).
  - destruct (f_type f =? legacy); [destruct H as [H|[H|[]]]; inversion H; auto | contradiction].
Qed.
