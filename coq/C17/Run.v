(* C17 — glue for the correspondence: the model's verdict on two library streams vs reb_binary_diff's return value *)
From Coq Require Import NArith List String Bool Arith.
From RV Require Import C05.Types C05.Model C05.Table C05.Run C17.Model Gen.Descriptors.
Import ListNotations.
Open Scope N_scope.

Definition diff_case (b1 b2 : bytes) (expected : bool) : N :=
  match diff_streams b1 b2 with
  | Some r => if Bool.eqb r expected then 0 else 1
  | None => 2
  end.
