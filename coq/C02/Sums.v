(* C02: vectors over R, finite sums of vectors over lists, array (nth_d/upd) lemmas. *)
From Coq Require Import List ZArith Bool Reals Lra Lia PeanoNat.
From RV Require Import Common.Num Common.RealNum C02.Model.
Import ListNotations.
Open Scope R_scope.

Definition RV3 : Type := (R * R * R)%type.
Definition vzero : RV3 := (0, 0, 0).
Definition vadd (a b : RV3) : RV3 :=
  let '(a1, a2, a3) := a in let '(b1, b2, b3) := b in (a1 + b1, a2 + b2, a3 + b3).
Definition vscale (c : R) (d : RV3) : RV3 := let '(x, y, z) := d in (c * x, c * y, c * z).
Definition vneg (d : RV3) : RV3 := let '(x, y, z) := d in (- x, - y, - z).

Lemma vadd_0_l a : vadd vzero a = a.
Proof. destruct a as [[x y] z]; unfold vadd, vscale, vneg, vzero; f_equal; [f_equal|]; ring. Qed.
Lemma vadd_0_r a : vadd a vzero = a.
Proof. destruct a as [[x y] z]; unfold vadd, vscale, vneg, vzero; f_equal; [f_equal|]; ring. Qed.
Lemma vadd_comm a b : vadd a b = vadd b a.
Proof. destruct a as [[x y] z], b as [[u v] w]; unfold vadd, vscale, vneg, vzero; f_equal; [f_equal|]; ring. Qed.
Lemma vadd_assoc a b c : vadd a (vadd b c) = vadd (vadd a b) c.
Proof. destruct a as [[x y] z], b as [[u v] w], c as [[p q] r]; unfold vadd, vscale, vneg, vzero; f_equal; [f_equal|]; ring. Qed.
Lemma vadd_swap a b c d : vadd (vadd a b) (vadd c d) = vadd (vadd a c) (vadd b d).
Proof. destruct a as [[x y] z], b as [[u v] w], c as [[p q] r], d as [[e f] g]; unfold vadd, vscale, vneg, vzero; f_equal; [f_equal|]; ring. Qed.
Lemma vadd_rot a s b : vadd a (vadd s b) = vadd b (vadd s a).
Proof. destruct a as [[x y] z], b as [[u v] w], s as [[p q] r]; unfold vadd, vscale, vneg, vzero; f_equal; [f_equal|]; ring. Qed.
Lemma vscale_0 d : vscale 0 d = vzero.
Proof. destruct d as [[x y] z]; unfold vadd, vscale, vneg, vzero; f_equal; [f_equal|]; ring. Qed.
Lemma vscale_add c1 c2 d : vscale (c1 + c2) d = vadd (vscale c1 d) (vscale c2 d).
Proof. destruct d as [[x y] z]; unfold vadd, vscale, vneg, vzero; f_equal; [f_equal|]; ring. Qed.
Lemma vscale_vneg c d : vscale c (vneg d) = vscale (- c) d.
Proof. destruct d as [[x y] z]; unfold vadd, vscale, vneg, vzero; f_equal; [f_equal|]; ring. Qed.

Arguments vadd : simpl never.
Arguments vscale : simpl never.
Arguments vneg : simpl never.

(* ---------------- sums over lists ---------------- *)
Definition VSum {A : Type} (l : list A) (g : A -> RV3) : RV3 :=
  fold_right (fun x s => vadd (g x) s) vzero l.

Lemma VSum_nil {A} (g : A -> RV3) : VSum [] g = vzero.
Proof. reflexivity. Qed.
Lemma VSum_cons {A} (x : A) l g : VSum (x :: l) g = vadd (g x) (VSum l g).
Proof. reflexivity. Qed.
Lemma VSum_one {A} (x : A) g : VSum [x] g = g x.
Proof. rewrite VSum_cons, VSum_nil. apply vadd_0_r. Qed.
Arguments VSum : simpl never.

Lemma VSum_app {A} (l1 l2 : list A) g : VSum (l1 ++ l2) g = vadd (VSum l1 g) (VSum l2 g).
Proof. induction l1 as [|x l IH]; cbn [app]. - now rewrite VSum_nil, vadd_0_l. - rewrite !VSum_cons, IH. apply vadd_assoc. Qed.
Lemma VSum_ext {A} (l : list A) g h : (forall x, In x l -> g x = h x) -> VSum l g = VSum l h.
Proof. induction l as [|x l IH]; intros H; [reflexivity|]. rewrite !VSum_cons. rewrite H by (left; auto). f_equal. apply IH; intros; apply H; right; auto. Qed.
Lemma VSum_zero {A} (l : list A) : VSum l (fun _ => vzero) = vzero.
Proof. induction l as [|x l IH]; [reflexivity|]. rewrite VSum_cons, IH. apply vadd_0_l. Qed.
Lemma VSum_vadd {A} (l : list A) g h : VSum l (fun x => vadd (g x) (h x)) = vadd (VSum l g) (VSum l h).
Proof. induction l as [|x l IH]. - now rewrite !VSum_nil, vadd_0_l. - rewrite !VSum_cons, IH. apply vadd_swap. Qed.
Lemma VSum_map {A B} (f : A -> B) (l : list A) g : VSum (map f l) g = VSum l (fun x => g (f x)).
Proof. induction l as [|x l IH]; cbn [map]; [reflexivity|]. now rewrite !VSum_cons, IH. Qed.
Lemma VSum_flat_map {A B} (f : A -> list B) (l : list A) g :
  VSum (flat_map f l) g = VSum l (fun x => VSum (f x) g).
Proof. induction l as [|x l IH]; cbn [flat_map]; [reflexivity|]. now rewrite VSum_app, VSum_cons, IH. Qed.
Lemma VSum_if {A} (l : list A) (b : bool) g :
  VSum l (fun x => if b then g x else vzero) = if b then VSum l g else vzero.
Proof. destruct b; [reflexivity|apply VSum_zero]. Qed.
Lemma VSum_swap {A B} (l1 : list A) (l2 : list B) (g : A -> B -> RV3) :
  VSum l1 (fun a => VSum l2 (fun b => g a b)) = VSum l2 (fun b => VSum l1 (fun a => g a b)).
Proof.
  induction l1 as [|x l IH].
  - rewrite VSum_nil. symmetry. apply VSum_zero.
  - rewrite VSum_cons, IH. rewrite <- VSum_vadd. apply VSum_ext. intros; now rewrite VSum_cons.
Qed.

(* a sum over the index range [a,b) written as an indicator sum over [0,n) *)
Lemma VSum_range (a b n : nat) g : (b <= n)%nat ->
  VSum (seq a (b - a)) g = VSum (seq 0 n) (fun j => if (a <=? j)%nat && (j <? b)%nat then g j else vzero).
Proof.
  revert b; induction n as [|n IH]; intros b Hb.
  - replace (b - a)%nat with 0%nat by lia. reflexivity.
  - rewrite seq_S, VSum_app, VSum_one. cbn [Nat.add].
    destruct (Nat.eq_dec b (S n)) as [->|Hne].
    + destruct (le_lt_dec a n) as [Han|Han].
      * replace (S n - a)%nat with (S (n - a)) by lia. rewrite seq_S, VSum_app, VSum_one.
        replace (a + (n - a))%nat with n by lia.
        rewrite (IH n (Nat.le_refl n)). f_equal.
        -- apply VSum_ext. intros j Hj. apply in_seq in Hj.
           destruct (a <=? j)%nat; cbn [andb]; [|reflexivity].
           destruct (Nat.ltb_spec j n), (Nat.ltb_spec j (S n)); try lia; reflexivity.
        -- destruct (Nat.leb_spec a n), (Nat.ltb_spec n (S n)); try lia. reflexivity.
      * replace (S n - a)%nat with 0%nat by lia. cbn [seq]. rewrite VSum_nil.
        rewrite VSum_ext with (h := fun _ => vzero).
        -- rewrite VSum_zero. destruct (Nat.leb_spec a n); try lia. cbn [andb]. now rewrite vadd_0_l.
        -- intros j Hj. apply in_seq in Hj. destruct (Nat.leb_spec a j); try lia. reflexivity.
    + rewrite (IH b) by lia. destruct (Nat.ltb_spec n b); try lia. rewrite andb_false_r.
      now rewrite vadd_0_r.
Qed.

(* picking one index out of an indicator sum *)
Lemma VSum_pick (n k : nat) g :
  VSum (seq 0 n) (fun j => if (k =? j)%nat then g j else vzero) = if (k <? n)%nat then g k else vzero.
Proof.
  induction n as [|n IH]; [reflexivity|].
  rewrite seq_S, VSum_app, IH, VSum_one. cbn [Nat.add].
  destruct (Nat.eqb_spec k n) as [->|Hne].
  - destruct (Nat.ltb_spec n n), (Nat.ltb_spec n (S n)); try lia. now rewrite vadd_0_l.
  - rewrite vadd_0_r. destruct (Nat.ltb_spec k n), (Nat.ltb_spec k (S n)); try lia; reflexivity.
Qed.

(* symmetric integer range: the sum over -n..n of g(-a) is the sum of g(a) *)
Lemma VSum_zr_sym (n : nat) (g : Z -> RV3) : VSum (zr n) (fun a => g (- a)%Z) = VSum (zr n) g.
Proof.
  induction n as [|n IH]; [reflexivity|].
  cbn [zr]. rewrite !VSum_cons, !VSum_app, !VSum_one, IH.
  cbn [Z.opp]. apply vadd_rot.
Qed.

(* ---------------- arrays ---------------- *)
Lemma upd_length {A} (l : list A) i v : length (upd l i v) = length l.
Proof. revert i; induction l as [|x l IH]; destruct i; cbn; auto. Qed.
Lemma nth_upd {A} (d : A) (l : list A) i v k : (k < length l)%nat ->
  nth_d d (upd l i v) k = if (k =? i)%nat then v else nth_d d l k.
Proof.
  revert i k; induction l as [|x l IH]; intros i k Hk; cbn in Hk; [lia|].
  destruct i, k; cbn; auto. apply IH. lia.
Qed.
Lemma nth_repeat {A} (d : A) n k : nth_d d (repeat d n) k = d.
Proof. revert k; induction n; destruct k; cbn; auto. Qed.

Lemma fold_left_flat_map {A B S} (f : S -> B -> S) (g : A -> list B) (l : list A) (s : S) :
  fold_left f (flat_map g l) s = fold_left (fun s x => fold_left f (g x) s) l s.
Proof. revert s; induction l as [|x l IH]; intros s; cbn; [reflexivity|]. now rewrite fold_left_app, IH. Qed.
Lemma fold_left_map {A B S} (f : S -> B -> S) (g : A -> B) (l : list A) (s : S) :
  fold_left f (map g l) s = fold_left (fun s x => f s (g x)) l s.
Proof. revert s; induction l as [|x l IH]; intros s; cbn; [reflexivity|]. apply IH. Qed.
Lemma fold_left_ext {A S} (f g : S -> A -> S) (l : list A) (s : S) :
  (forall s x, In x l -> f s x = g s x) -> fold_left f l s = fold_left g l s.
Proof. revert s; induction l as [|x l IH]; intros s H; cbn; [reflexivity|]. rewrite H by (left; auto). apply IH. intros; apply H; right; auto. Qed.
Lemma fold_left_inv {A S} (P : S -> Prop) (f : S -> A -> S) (l : list A) (s : S) :
  P s -> (forall s x, In x l -> P s -> P (f s x)) -> P (fold_left f l s).
Proof. revert s; induction l as [|x l IH]; intros s H0 H; cbn; [exact H0|]. apply IH. - apply H; [left; auto|exact H0]. - intros; apply H; [right|]; auto. Qed.
