(* C02: the model instantiated at binary64, with the glue that turns the flat lists written by the
   harness into particle records and back, as evaluated by the correspondence check. *)
From Coq Require Import List ZArith Bool PrimFloat.
From RV Require Import Common.Num Common.FloatNum C02.Model.
Import ListNotations.

Definition mkps (ms xs ys zs : list float) : list (Part float) :=
  map (fun q => let '(m, x, y, z) := q in mkP m x y z) (combine (combine (combine ms xs) ys) zs).
Definition flat (acc : list (float * float * float)) : list float :=
  flat_map (fun v => let '(a, b, c) := v in [a; b; c]) acc.
Fixpoint unflat (l : list float) : list (float * float * float) :=
  match l with
  | a :: b :: c :: r => (a, b, c) :: unflat r
  | _ => []
  end.
Definition fnth (l : list float) : nat -> float := nth_d PrimFloat.zero l.
Definition ksf (ks : list (list bool)) : nat -> nat -> bool := fun i j => nth_d false (nth_d [] ks i) j.

Definition runNone ms xs ys zs := flat (grav_none FNum (mkps ms xs ys zs)).
Definition runBasic G soft bx by_ bz nx ny nz ign nact tp ms xs ys zs :=
  flat (grav_basic FNum G soft bx by_ bz nx ny nz ign nact tp (mkps ms xs ys zs)).
(* result: accelerations, then the compensation array gravity_cs *)
Definition runComp G soft ign nact tp ms xs ys zs :=
  let '(acc, cs) := grav_compensated FNum G soft ign nact tp (mkps ms xs ys zs) in flat acc ++ flat cs.
Definition runJac G nact tp ms xs ys zs acc0 :=
  flat (grav_jacobi FNum G nact tp (mkps ms xs ys zs) (unflat acc0)).
Definition runMerc0 G soft dcrit nact tp ms xs ys zs :=
  flat (grav_merc0 FNum G soft (L_mercury FNum) (fnth dcrit) nact tp (mkps ms xs ys zs)).
Definition runMerc1 G soft dcrit emap encN encNact tp ms xs ys zs acc0 :=
  flat (grav_merc1 FNum G soft (L_mercury FNum) (fnth dcrit) emap encN encNact tp (mkps ms xs ys zs) (unflat acc0)).
Definition runTrace0 G soft ks nact tp ms xs ys zs :=
  flat (grav_trace0 FNum G soft (ksf ks) nact tp (mkps ms xs ys zs)).
Definition runTrace1 G soft ks emap encN encNact tp ms xs ys zs acc0 :=
  flat (grav_trace1 FNum G soft (ksf ks) emap encN encNact tp (mkps ms xs ys zs) (unflat acc0)).
(* the changeover function alone: reb_integrator_mercurius_L_mercury(r, d, dcrit) *)
Definition runL (d dcrit : float) : list float := [L_mercury FNum d dcrit].
Definition runL4 (d dcrit : float) : list float := [L_C4 FNum d dcrit].
Definition runL5 (d dcrit : float) : list float := [L_C5 FNum d dcrit].
(* L_infinity with the two exp values as oracle inputs; also returns y so that the harness' own y is checked *)
Definition runLinf (e1 e2 d dcrit : float) : list float := [L_infinity FNum e1 e2 d dcrit; L_arg FNum d dcrit].
