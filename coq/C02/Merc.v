(* C02: the MERCURIUS splitting.  Mode 0 weights every planet-planet pair by L, mode 1 by (1-L):
   for EVERY changeover function L (and every dcrit) the two parts add up to the unweighted pair sum,
   because L + (1-L) = 1.  Also: range / end-point / monotonicity facts of the polynomial L_mercury. *)
From Coq Require Import List ZArith Bool Reals Lra Lia PeanoNat Psatz.
From RV Require Import Common.Num Common.RealNum C02.Model C02.Sums C02.Loops C02.Spec C02.Basic.
Import ListNotations.
Open Scope R_scope.

Definition optv (o : option R) : R := match o with Some p => p | None => 0 end.
Lemma Aterm_optv pf gb s2 ps k j :
  Aterm pf gb s2 ps k j = vscale (- optv (pref pf gb s2 ps k j) * mass ps j) (dvec gb ps k j).
Proof.
  unfold Aterm. destruct (pref pf gb s2 ps k j); cbn [optv]; [reflexivity|].
  replace (- 0 * mass ps j) with 0 by ring. now rewrite vscale_0.
Qed.
Lemma Bterm_optv pf gb s2 ps k j :
  Bterm pf gb s2 ps k j = vscale (optv (pref pf gb s2 ps k j) * mass ps k) (dvec gb ps k j).
Proof.
  unfold Bterm. destruct (pref pf gb s2 ps k j); cbn [optv]; [reflexivity|].
  replace (0 * mass ps k) with 0 by ring. now rewrite vscale_0.
Qed.

Lemma if_vadd (c : bool) (a b : RV3) :
  vadd (if c then a else vzero) (if c then b else vzero) = if c then vadd a b else vzero.
Proof. destruct c; [reflexivity|apply vadd_0_l]. Qed.

(* Two prefactor functions whose values add up to a third one (None = the pair is skipped = 0):
   the two loop nests add up to the third, whatever the accumulators start from. *)
Section Split.
Variables (pf0 pf1 pfb : nat -> nat -> R -> option R) (gb : option RV3) (s2 : R) (ps : list (Part R)).
Hypothesis Hsplit : forall i j r, optv (pf0 i j r) + optv (pf1 i j r) = optv (pfb i j r).

Lemma Aterm_split k j : vadd (Aterm pf0 gb s2 ps k j) (Aterm pf1 gb s2 ps k j) = Aterm pfb gb s2 ps k j.
Proof. rewrite !Aterm_optv, <- vscale_add. f_equal. unfold pref. rewrite <- Hsplit. ring. Qed.
Lemma Bterm_split k j : vadd (Bterm pf0 gb s2 ps k j) (Bterm pf1 gb s2 ps k j) = Bterm pfb gb s2 ps k j.
Proof. rewrite !Bterm_optv, <- vscale_add. f_equal. unfold pref. rewrite <- Hsplit. ring. Qed.

Theorem pair_split_sum tp si sj na nr (acc0 acc1 : list RV3) k :
  (na <= nr)%nat -> (k < nr)%nat -> (nr <= length acc0)%nat -> (nr <= length acc1)%nat ->
  vadd (nth_d vzero (pair_loops RNum pf0 (fun i => i) gb s2 ps tp si sj na nr acc0) k)
       (nth_d vzero (pair_loops RNum pf1 (fun i => i) gb s2 ps tp si sj na nr acc1) k)
  = vadd (nth_d vzero acc0 k)
         (nth_d vzero (pair_loops RNum pfb (fun i => i) gb s2 ps tp si sj na nr acc1) k).
Proof.
  intros Hna Hk H0 H1. rewrite !pair_loops_sum by assumption.
  rewrite vadd_swap. rewrite <- vadd_assoc. f_equal. f_equal.
  rewrite <- VSum_vadd. apply VSum_ext. intros j _.
  rewrite vadd_swap, !if_vadd, Aterm_split, Bterm_split. reflexivity.
Qed.
End Split.

(* MERCURIUS: L + (1-L) = 1, for every L and dcrit *)
Lemma merc_split G Lf dcrit : forall i j r,
  optv (pf_merc0 RNum G Lf dcrit i j r) + optv (pf_merc1 RNum G Lf dcrit i j r) = optv (pf_basic RNum G i j r).
Proof. intros. unfold pf_merc0, pf_merc1, pf_basic. cbn [optv nmul ndiv nsub none RNum]. unfold Rdiv. ring. Qed.
(* TRACE: a pair is in exactly one of the two parts, for every K matrix *)
Lemma trace_split G Ks : forall i j r,
  optv (pf_trace0 RNum G Ks i j r) + optv (pf_trace1 RNum G Ks i j r) = optv (pf_basic RNum G i j r).
Proof. intros. unfold pf_trace0, pf_trace1, pf_basic. destruct (Ks j i); cbn [optv]; ring. Qed.

(* the loop nest only looks at the index map on the indices it visits *)
Lemma pair_loops_mp_ext pf mp gb soft2 ps tp si sj na nr (acc : list RV3) :
  (na <= nr)%nat -> (forall i, (i < nr)%nat -> mp i = i) ->
  pair_loops RNum pf mp gb soft2 ps tp si sj na nr acc = pair_loops RNum pf (fun i => i) gb soft2 ps tp si sj na nr acc.
Proof.
  intros Hna Hmp. unfold pair_loops, for_range.
  assert (E1 : forall a, fold_left (fun s i => fold_left (fun s j => pair_step RNum pf true gb soft2 ps (mp i) (mp j) s) (seq sj (i - sj)) s) (seq si (na - si)) a
                 = fold_left (fun s i => fold_left (fun s j => pair_step RNum pf true gb soft2 ps i j s) (seq sj (i - sj)) s) (seq si (na - si)) a).
  { intros a. apply fold_left_ext. intros s i Hi. apply in_seq in Hi. apply fold_left_ext. intros s' j Hj. apply in_seq in Hj.
    rewrite !Hmp by lia. reflexivity. }
  rewrite E1. apply fold_left_ext. intros s i Hi. apply in_seq in Hi. apply fold_left_ext. intros s' j Hj. apply in_seq in Hj.
  rewrite !Hmp by lia. reflexivity.
Qed.

Lemma nth_d_seq n i : (i < n)%nat -> nth_d 0%nat (seq 0 n) i = i.
Proof.
  assert (H : forall n a i, (i < n)%nat -> nth_d 0%nat (seq a n) i = (a + i)%nat).
  { induction n0 as [|m IH]; intros a j Hj; [lia|]. destruct j; cbn [seq nth_d]; [lia|]. rewrite IH by lia. lia. }
  intros Hi. now rewrite H.
Qed.

Lemma for_range_length {A} (a b : nat) (f : nat -> list A -> list A) (s : list A) :
  (forall i s, length (f i s) = length s) -> length (for_range a b f s) = length s.
Proof.
  intros H. unfold for_range. apply (fold_left_inv (fun s' : list A => length s' = length s)); [reflexivity|].
  intros s' x _ Hs. now rewrite H.
Qed.
Lemma star_loop_length sp soft2 mp encN ps (acc : list RV3) :
  length (star_loop RNum sp soft2 mp encN ps acc) = length acc.
Proof.
  unfold star_loop. rewrite for_range_length; [apply upd_length|]. intros; apply upd_length.
Qed.

(* MERCURIUS with every particle in the encounter map (identity map): mode-0 force + mode-1 force =
   the star term of mode 1 + the unweighted planet-planet pair sum, for every L and dcrit *)
Theorem mercurius_parts_sum G soft Lf dcrit nact tp ps (acc0 : list RV3) k :
  let n := length ps in
  (nact <= n)%nat -> (k < n)%nat -> length acc0 = n ->
  vadd (nth_d vzero (grav_merc0 RNum G soft Lf dcrit nact tp ps) k)
       (nth_d vzero (grav_merc1 RNum G soft Lf dcrit (seq 0 n) n nact tp ps acc0) k)
  = nth_d vzero (pair_loops RNum (pf_basic RNum G) (fun i => i) None (soft * soft) ps tp 2 1 nact n
                   (star_loop RNum (fun r m0 => - G / (r * r * r) * m0) (soft * soft) (nth_d 0%nat (seq 0 n)) n ps acc0)) k.
Proof.
  intros n Hna Hk Hlen. unfold grav_merc0, grav_merc1. fold n. cbn [nmul nneg ndiv RNum].
  rewrite (pair_loops_mp_ext _ (nth_d 0%nat (seq 0 n))) by (auto; intros; now apply nth_d_seq).
  rewrite (pair_split_sum _ _ _ _ _ _ (merc_split G Lf dcrit)); try assumption.
  - unfold zeros. change (v0 RNum) with vzero. rewrite nth_repeat. apply vadd_0_l.
  - unfold zeros. rewrite repeat_length. lia.
  - rewrite star_loop_length. lia.
Qed.

(* TRACE with the identity encounter map: interaction part + Kepler part = star term + full pair sum,
   for every matrix current_Ks *)
Theorem trace_parts_sum G soft Ks nact tp ps (acc0 : list RV3) k :
  let n := length ps in
  (nact <= n)%nat -> (k < n)%nat -> length acc0 = n ->
  vadd (nth_d vzero (grav_trace0 RNum G soft Ks nact tp ps) k)
       (nth_d vzero (grav_trace1 RNum G soft Ks (seq 0 n) n nact tp ps acc0) k)
  = nth_d vzero (pair_loops RNum (pf_basic RNum G) (fun i => i) None (soft * soft) ps tp 2 1 nact n
                   (star_loop RNum (fun r m0 => - G * m0 / (r * r * r)) (soft * soft) (nth_d 0%nat (seq 0 n)) n ps acc0)) k.
Proof.
  intros n Hna Hk Hlen. unfold grav_trace0, grav_trace1. fold n. cbn [nmul nneg ndiv RNum].
  rewrite (pair_loops_mp_ext _ (nth_d 0%nat (seq 0 n))) by (auto; intros; now apply nth_d_seq).
  rewrite (pair_split_sum _ _ _ _ _ _ (trace_split G Ks)); try assumption.
  - unfold zeros. change (v0 RNum) with vzero. rewrite nth_repeat. apply vadd_0_l.
  - unfold zeros. rewrite repeat_length. lia.
  - rewrite star_loop_length. lia.
Qed.

(* ---------------- the polynomial changeover function ---------------- *)
Definition Lpoly (y : R) : R := 10 * (y * y * y) - 15 * (y * y * y * y) + 6 * (y * y * y * y * y).

Lemma L_mercury_R d dc :
  L_mercury RNum d dc =
  let y := (d - 1 / 10 * dc) / (9 / 10 * dc) in
  if Rlt_dec y 0 then 0 else if Rlt_dec 1 y then 1 else Lpoly y.
Proof.
  unfold L_mercury, ndec, Lpoly. cbn [nofZ nsub nmul ndiv nadd nltb nzero none RNum]. unfold Rltb.
  cbv zeta. destruct (Rlt_dec _ 0); [reflexivity|]. destruct (Rlt_dec 1 _); reflexivity.
Qed.

Lemma Lpoly_range y : 0 <= y <= 1 -> 0 <= Lpoly y <= 1.
Proof.
  intros [H0 H1]. unfold Lpoly. split.
  - replace (10 * (y * y * y) - 15 * (y * y * y * y) + 6 * (y * y * y * y * y))
      with (y * y * y * (6 * (y - 5/4) * (y - 5/4) + 5/8)) by field. 
    assert (0 <= (y - 5/4) * (y - 5/4)) by apply Rle_0_sqr.
    apply Rmult_le_pos; [apply Rmult_le_pos; [apply Rmult_le_pos|]; assumption|lra].
  - assert (E : 1 - (10 * (y * y * y) - 15 * (y * y * y * y) + 6 * (y * y * y * y * y))
                = (1 - y) * (1 - y) * (1 - y) * (6 * (y + 1/4) * (y + 1/4) + 5/8)) by field.
    assert (0 <= (1 - y) * (1 - y) * (1 - y) * (6 * (y + 1/4) * (y + 1/4) + 5/8)).
    { assert (0 <= (y + 1/4) * (y + 1/4)) by apply Rle_0_sqr.
      apply Rmult_le_pos; [apply Rmult_le_pos; [apply Rmult_le_pos|]; lra|lra]. }
    lra.
Qed.
Lemma Lpoly_ends : Lpoly 0 = 0 /\ Lpoly 1 = 1.
Proof. unfold Lpoly. split; ring. Qed.
(* monotone: L(y2) - L(y1) = integral of 30 t^2 (1-t)^2 >= 0, shown algebraically *)
Lemma Lpoly_mono y1 y2 : 0 <= y1 -> y1 <= y2 -> y2 <= 1 -> Lpoly y1 <= Lpoly y2.
Proof.
  intros H0 H12 H1. unfold Lpoly.
  set (h := y2 - y1). assert (Hh : 0 <= h) by (unfold h; lra).
  replace y2 with (y1 + h) by (unfold h; ring).
  assert (E : 10 * ((y1 + h) * (y1 + h) * (y1 + h)) - 15 * ((y1 + h) * (y1 + h) * (y1 + h) * (y1 + h)) + 6 * ((y1 + h) * (y1 + h) * (y1 + h) * (y1 + h) * (y1 + h))
            - (10 * (y1 * y1 * y1) - 15 * (y1 * y1 * y1 * y1) + 6 * (y1 * y1 * y1 * y1 * y1))
            = h * (30 * (y1*(1-y1)) * (y1*(1-y1)) + 30 * (y1*(1-y1)) * (1 - 2*y1) * h + 10 * (1 - 6*y1*(1-y1)) * h * h
                   + 15 * (2*y1 - 1) * h * h * h + 6 * h * h * h * h)) by ring.
  (* the bracket is the integral of 30 (y1+t)^2 (1-y1-t)^2 over t in [0,h] divided by h: a sum of squares *)
  assert (Q : 0 <= 30 * (y1*(1-y1)) * (y1*(1-y1)) + 30 * (y1*(1-y1)) * (1 - 2*y1) * h + 10 * (1 - 6*y1*(1-y1)) * h * h
                   + 15 * (2*y1 - 1) * h * h * h + 6 * h * h * h * h).
  { pose (a := y1 * (1 - y1)). pose (b := 1 - 2 * y1).
    assert (E2 : 30 * (y1*(1-y1)) * (y1*(1-y1)) + 30 * (y1*(1-y1)) * (1 - 2*y1) * h + 10 * (1 - 6*y1*(1-y1)) * h * h
                   + 15 * (2*y1 - 1) * h * h * h + 6 * h * h * h * h
       = 30 * ((a + b * h / 2 - h * h / 3) * (a + b * h / 2 - h * h / 3)) + (h * h) * (5 / 2 * ((b - h) * (b - h)) + h * h / 6))
      by (unfold a, b; field).
    rewrite E2.
    assert (0 <= (a + b * h / 2 - h * h / 3) * (a + b * h / 2 - h * h / 3)) by apply Rle_0_sqr.
    assert (0 <= h * h) by apply Rle_0_sqr.
    assert (0 <= (b - h) * (b - h)) by apply Rle_0_sqr.
    assert (0 <= (h * h) * (5 / 2 * ((b - h) * (b - h)) + h * h / 6)) by (apply Rmult_le_pos; lra).
    lra. }
  assert (0 <= h * (30 * (y1*(1-y1)) * (y1*(1-y1)) + 30 * (y1*(1-y1)) * (1 - 2*y1) * h + 10 * (1 - 6*y1*(1-y1)) * h * h
                   + 15 * (2*y1 - 1) * h * h * h + 6 * h * h * h * h)) by (apply Rmult_le_pos; assumption).
  lra.
Qed.

Theorem L_mercury_range d dc : 0 <= L_mercury RNum d dc <= 1.
Proof.
  rewrite L_mercury_R. cbv zeta. destruct (Rlt_dec _ 0); [lra|]. destruct (Rlt_dec 1 _); [lra|].
  apply Lpoly_range. lra.
Qed.
Theorem L_mercury_ends d dc : 0 < dc ->
  (d <= 1 / 10 * dc -> L_mercury RNum d dc = 0) /\ (dc <= d -> L_mercury RNum d dc = 1).
Proof.
  intros Hdc. rewrite L_mercury_R. cbv zeta.
  assert (Hden : 0 < 9 / 10 * dc) by lra.
  split; intros H.
  - assert (Hy : (d - 1 / 10 * dc) / (9 / 10 * dc) <= 0).
    { unfold Rdiv. replace 0 with (0 * / (9 / 10 * dc)) by ring. apply Rmult_le_compat_r; [left; now apply Rinv_0_lt_compat|lra]. }
    destruct (Rlt_dec _ 0); [reflexivity|]. destruct (Rlt_dec 1 _); [lra|].
    replace ((d - 1 / 10 * dc) / (9 / 10 * dc)) with 0 by lra. apply Lpoly_ends.
  - assert (Hy : 1 <= (d - 1 / 10 * dc) / (9 / 10 * dc)).
    { assert (Hinv : 0 < / (9 / 10 * dc)) by now apply Rinv_0_lt_compat.
      assert (Hle : 9 / 10 * dc <= d - 1 / 10 * dc) by lra.
      pose proof (Rmult_le_compat_r (/ (9 / 10 * dc)) _ _ (Rlt_le _ _ Hinv) Hle) as Hm.
      rewrite Rinv_r in Hm by lra. exact Hm. }
    destruct (Rlt_dec _ 0); [lra|]. destruct (Rlt_dec 1 _); [reflexivity|].
    replace ((d - 1 / 10 * dc) / (9 / 10 * dc)) with 1 by lra. apply Lpoly_ends.
Qed.
