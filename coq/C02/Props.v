(* C02 property theorems ONLY (each closed by an already proved lemma) + assumptions. *)
From Coq Require Import List ZArith Bool Reals Lra Lia.
From RV Require Import Common.Num Common.RealNum C02.Model C02.Sums C02.Loops C02.Spec C02.Basic C02.Momentum C02.Merc C02.Comp C02.Torque C02.Jacobi C02.Lfun C02.WHJac C02.SubMap C02.TreeModel C02.TreeWalk.
From RV Require C15.Tree.
From RV Require Gen.GravPrologue C02.Prologue.
From RV Require C04.Model C04.Proofs.
Import ListNotations.
Open Scope R_scope.

(* REB_GRAVITY_BASIC = the specified softened pairwise sum over all ghost boxes, per particle, for every N,
   0<=N_active<=N, testparticle_type, gravity_ignore_terms in {0,1,2}, ghost counts, G, softening, masses
   (zero masses, coincident particles included: no side condition on the positions). *)
Theorem C02_basic_eq_spec : forall (G eps bx by_ bz : R) (ign nact : nat) (tp : bool) (ps : list (Part R)),
  (ign <= 2)%nat -> (nact <= length ps)%nat ->
  forall (nx ny nz k : nat), (k < length ps)%nat ->
  nth_d vzero (grav_basic RNum G eps bx by_ bz nx ny nz ign nact tp ps) k =
  acc_spec G eps bx by_ bz nx ny nz ign nact tp ps k.
Proof. exact basic_eq_spec. Qed.
Print Assumptions C02_basic_eq_spec.

(* all particles active: sum_i m_i a_i = 0 (any ghost counts, ignore_terms, testparticle_type) *)
Theorem C02_basic_momentum_zero : forall G eps bx by_ bz nx ny nz ign tp ps,
  mom ps (grav_basic RNum G eps bx by_ bz nx ny nz ign (length ps) tp ps) = vzero.
Proof. exact basic_momentum_zero. Qed.
Print Assumptions C02_basic_momentum_zero.

(* the same for the WHFast part of MERCURIUS (any L, dcrit) and the interaction part of TRACE (any K matrix) *)
Theorem C02_split_momentum_zero : forall G soft tp ps,
  (forall Lf dcrit, mom ps (grav_merc0 RNum G soft Lf dcrit (length ps) tp ps) = vzero) /\
  (forall Ks, mom ps (grav_trace0 RNum G soft Ks (length ps) tp ps) = vzero).
Proof. intros; split; intros; [apply merc0_momentum_zero|apply trace0_momentum_zero]. Qed.
Print Assumptions C02_split_momentum_zero.

(* what the loop nest shared by BASIC/MERCURIUS/TRACE computes, for every prefactor function, start indices,
   N_active, testparticle_type: initial value + sum over partners selected by the loop bounds *)
Theorem C02_loop_nest_sum : forall pf gb soft2 ps tp si sj na nr (acc : list RV3) k,
  (na <= nr)%nat -> (k < nr)%nat -> (nr <= length acc)%nat ->
  nth_d vzero (pair_loops RNum pf (fun i => i) gb soft2 ps tp si sj na nr acc) k =
  vadd (nth_d vzero acc k)
       (VSum (seq 0 nr) (fun j => vadd (if cA si sj na nr k j then Aterm pf gb soft2 ps k j else vzero)
                                       (if cB tp si sj na nr k j then Bterm pf gb soft2 ps j k else vzero))).
Proof. exact pair_loops_sum. Qed.
Print Assumptions C02_loop_nest_sum.

(* MERCURIUS: mode-0 force + mode-1 force = star term + unweighted pair sum, for EVERY changeover function *)
Theorem C02_mercurius_parts_sum : forall G soft (Lf : R -> R -> R) (dcrit : nat -> R) nact tp ps (acc0 : list RV3) k,
  let n := length ps in
  (nact <= n)%nat -> (k < n)%nat -> length acc0 = n ->
  vadd (nth_d vzero (grav_merc0 RNum G soft Lf dcrit nact tp ps) k)
       (nth_d vzero (grav_merc1 RNum G soft Lf dcrit (seq 0 n) n nact tp ps acc0) k)
  = nth_d vzero (pair_loops RNum (pf_basic RNum G) (fun i => i) None (soft * soft) ps tp 2 1 nact n
                   (star_loop RNum (fun r m0 => - G / (r * r * r) * m0) (soft * soft) (nth_d 0%nat (seq 0 n)) n ps acc0)) k.
Proof. exact mercurius_parts_sum. Qed.
Print Assumptions C02_mercurius_parts_sum.

(* TRACE: interaction-step force + Kepler-step force = star term + full pair sum, for EVERY matrix current_Ks *)
Theorem C02_trace_parts_sum : forall G soft (Ks : nat -> nat -> bool) nact tp ps (acc0 : list RV3) k,
  let n := length ps in
  (nact <= n)%nat -> (k < n)%nat -> length acc0 = n ->
  vadd (nth_d vzero (grav_trace0 RNum G soft Ks nact tp ps) k)
       (nth_d vzero (grav_trace1 RNum G soft Ks (seq 0 n) n nact tp ps acc0) k)
  = nth_d vzero (pair_loops RNum (pf_basic RNum G) (fun i => i) None (soft * soft) ps tp 2 1 nact n
                   (star_loop RNum (fun r m0 => - G * m0 / (r * r * r)) (soft * soft) (nth_d 0%nat (seq 0 n)) n ps acc0)) k.
Proof. exact trace_parts_sum. Qed.
Print Assumptions C02_trace_parts_sum.

(* the polynomial changeover function of MERCURIUS: range, end points, monotone polynomial piece *)
Theorem C02_L_mercury_range : forall d dc, 0 <= L_mercury RNum d dc <= 1.
Proof. exact L_mercury_range. Qed.
Print Assumptions C02_L_mercury_range.
Theorem C02_L_mercury_ends : forall d dc, 0 < dc ->
  (d <= 1 / 10 * dc -> L_mercury RNum d dc = 0) /\ (dc <= d -> L_mercury RNum d dc = 1).
Proof. exact L_mercury_ends. Qed.
Print Assumptions C02_L_mercury_ends.
Theorem C02_L_mercury_poly_monotone : forall y1 y2, 0 <= y1 -> y1 <= y2 -> y2 <= 1 -> Lpoly y1 <= Lpoly y2.
Proof. exact Lpoly_mono. Qed.
Print Assumptions C02_L_mercury_poly_monotone.

(* ---------------- round 2 ---------------- *)
(* REB_GRAVITY_COMPENSATED over R.  gravity_cs is zeroed at the start of every call (gravity.c, the loop
   `cs[i].x = 0.` over i < N_real), so no hypothesis on its previous contents is needed; every Kahan correction
   vanishes identically, the array ends as zeros, and each particle gets the specified sum = BASIC without ghosts. *)
Theorem C02_compensated_cs_zero : forall G eps ign nact tp ps,
  snd (grav_compensated RNum G eps ign nact tp ps) = repeat vzero (length ps).
Proof. exact compensated_cs_zero. Qed.
Print Assumptions C02_compensated_cs_zero.
Theorem C02_compensated_eq_spec : forall G eps ign nact tp ps, (ign <= 2)%nat -> (nact <= length ps)%nat ->
  forall k, (k < length ps)%nat ->
  nth_d vzero (fst (grav_compensated RNum G eps ign nact tp ps)) k = acc_spec G eps 0 0 0 0 0 0 ign nact tp ps k.
Proof. intros. rewrite acc_spec_noghost. now apply compensated_eq_spec. Qed.
Print Assumptions C02_compensated_eq_spec.
Theorem C02_compensated_eq_basic : forall G eps ign nact tp ps, (ign <= 2)%nat -> (nact <= length ps)%nat ->
  forall bx by_ bz k, (k < length ps)%nat ->
  nth_d vzero (fst (grav_compensated RNum G eps ign nact tp ps)) k =
  nth_d vzero (grav_basic RNum G eps bx by_ bz 0 0 0 ign nact tp ps) k.
Proof. exact compensated_eq_basic. Qed.
Print Assumptions C02_compensated_eq_basic.

(* All particles active, no ghost boxes: zero net force and zero net torque, sum m_i x_i x a_i = 0.
   Obtained by showing that the loop nest IS a C04 pair list with back-reaction (C04.Model.pair_force), so that
   C04's pair_force_zero (and with it C04's conservation theorems) applies to the real loops. *)
Theorem C02_nest_is_c04_pair_force : forall (pf : nat -> nat -> R -> option R) (soft2 : R) (ps : list (Part R)) (tp : bool) (si sj : nat),
  let n := length ps in
  pair_loops RNum pf (fun i => i) None soft2 ps tp si sj n n (zeros RNum n) =
  C04.Model.pair_force RNum (map lift ps) (flat_map (cpair pf soft2 ps) (pairs_of tp si sj n n)) /\
  Forall (C04.Proofs.valid_pair (length (map lift ps))) (flat_map (cpair pf soft2 ps) (pairs_of tp si sj n n)).
Proof. exact nest_is_pair_force. Qed.
Print Assumptions C02_nest_is_c04_pair_force.
Theorem C02_basic_force_torque_zero : forall G eps bx by_ bz ign tp ps,
  let a := grav_basic RNum G eps bx by_ bz 0 0 0 ign (length ps) tp ps in
  let qs := map lift ps in
  C04.Proofs.Sa C04.Proofs.Fx qs a = 0 /\ C04.Proofs.Sa C04.Proofs.Fy qs a = 0 /\ C04.Proofs.Sa C04.Proofs.Fz qs a = 0 /\
  C04.Proofs.Sa C04.Proofs.Tx qs a = 0 /\ C04.Proofs.Sa C04.Proofs.Ty qs a = 0 /\ C04.Proofs.Sa C04.Proofs.Tz qs a = 0.
Proof. exact basic_force_torque_zero. Qed.
Print Assumptions C02_basic_force_torque_zero.
(* the same for any prefactor function (MERCURIUS mode 0 with any L, TRACE mode 0 with any K) *)
Theorem C02_nest_force_torque_zero : forall (pf : nat -> nat -> R -> option R) (soft2 : R) (ps : list (Part R)) (tp : bool) (si sj : nat),
  let a := pair_loops RNum pf (fun i => i) None soft2 ps tp si sj (length ps) (length ps) (zeros RNum (length ps)) in
  let qs := map lift ps in
  C04.Proofs.Sa C04.Proofs.Fx qs a = 0 /\ C04.Proofs.Sa C04.Proofs.Fy qs a = 0 /\ C04.Proofs.Sa C04.Proofs.Fz qs a = 0 /\
  C04.Proofs.Sa C04.Proofs.Tx qs a = 0 /\ C04.Proofs.Sa C04.Proofs.Ty qs a = 0 /\ C04.Proofs.Sa C04.Proofs.Tz qs a = 0.
Proof. exact nest_force_torque_zero. Qed.
Print Assumptions C02_nest_force_torque_zero.

(* REB_GRAVITY_JACOBI (as of /repo 5e0a0a8: the direct term follows N_active / testparticle_type), every N, every
   0 <= N_active <= N and testparticle_type, whatever the accelerations held before: particle k receives
   (the specification with gravity_ignore_terms = 1, that N_active and testparticle_type, no softening, no ghost boxes)
   +  jacobi_terms k  =  sum over j >= 2, j >= k of  G * w * Q_j / |Q_j|^3  with
   Q_j = x_j - R_j/M_j (R_j = sum_{i<j} m_i x_i, M_j = sum_{i<j} m_i), w = -m_j for k < j and w = M_j for k = j.
   This is the split that WHFast composes: with REB_GRAVITY_BASIC + ignore_terms = 1 the same Jacobi terms are
   added by reb_whfast_interaction_step instead (that equivalence, in Jacobi coordinates, is NOT proved here). *)
Theorem C02_jacobi_decomp : forall G nact tp (ps : list (Part R)) (acc0 : list RV3) k,
  (nact <= length ps)%nat -> length acc0 = length ps -> (k < length ps)%nat ->
  nth_d vzero (grav_jacobi RNum G nact tp ps acc0) k =
  vadd (acc_spec G 0 0 0 0 0 0 0 1 nact tp ps k) (jacobi_terms G ps k).
Proof. intros. rewrite acc_spec_noghost. now apply jacobi_decomp. Qed.
Print Assumptions C02_jacobi_decomp.

(* the C4 / C5 changeover functions: range for all arguments, monotone polynomial pieces on [0,1] *)
Theorem C02_L_C4_C5_range : forall d dc, 0 <= L_C4 RNum d dc <= 1 /\ 0 <= L_C5 RNum d dc <= 1.
Proof. intros; split; [apply L_C4_range|apply L_C5_range]. Qed.
Print Assumptions C02_L_C4_C5_range.
Theorem C02_L_C4_C5_poly_monotone : forall y1 y2, 0 <= y1 -> y1 <= y2 -> y2 <= 1 ->
  C4poly y1 <= C4poly y2 /\ C5poly y1 <= C5poly y2.
Proof. intros; split; [now apply C4_mono|now apply C5_mono]. Qed.
Print Assumptions C02_L_C4_C5_poly_monotone.

(* ---------------- round 3 ---------------- *)
(* The WHFast composition, in Jacobi coordinates.  Jacc ps c a = component c of C12's forward Jacobi map (the recurrence of
   reb_particles_transform_inertial_to_jacobi_acc, tied bit-exactly in C12 and again inside C02.WHModel) applied to the
   acceleration list a; JQ ps i = Jacobi position of particle i; Mf (mass_ ps) (S i) = m_0 + ... + m_i = eta_i;
   wh_rj3iM = the R instance of the prefactor rji*rj2i*G*eta of reb_whfast_interaction_step (C02.WHModel, tied bit-exactly).
   For every N, all particles active, no softening, non-vanishing interior mass sums, every component c and every i >= 1:
     Jacobi(a_JACOBI)_i = Jacobi(a_BASIC with gravity_ignore_terms=1)_i + [i>1] rj3iM * Q_i
   i.e. the kick WHFast applies with REB_GRAVITY_JACOBI equals the kick it applies with REB_GRAVITY_BASIC + its Jacobi term. *)
Theorem C02_jacobi_eq_basic_plus_whterm : forall G (ps : list (Part R)),
  (forall k, (1 <= k < length ps)%nat -> Mf (mass_ ps) k <> 0) ->
  forall (acc0 : list RV3) bx by_ bz tp c i, length acc0 = length ps -> (1 <= i < length ps)%nat ->
  nth_d 0 (Jacc ps c (grav_jacobi RNum G (length ps) tp ps acc0)) i =
  nth_d 0 (Jacc ps c (grav_basic RNum G 0 bx by_ bz 0 0 0 1 (length ps) tp ps)) i
  + (if (1 <? i)%nat then proj c (vscale (wh_rj3iM G 0 (Mf (mass_ ps) (S i)) (JQ ps i)) (JQ ps i)) else 0).
Proof. exact jacobi_eq_basic_plus_whterm. Qed.
Print Assumptions C02_jacobi_eq_basic_plus_whterm.

(* MERCURIUS / TRACE with a PROPER encounter sub-map (any list of distinct in-range indices starting with 0; any N).
   sub_ps / sub_acc / sub_dcrit / sub_Ks = particles, previous accelerations, dcrit, K matrix gathered through the map.
   (a) on the mapped indices mode 1 computes what the identity-map routine computes on the gathered sub-system, so that
       L*F + (1-L)*F = F for every pair of the sub-map: mode-0 loops of the sub-system + mode 1 = star term + full pair sum;
   (b) every particle outside the map keeps its previous acceleration. *)
Theorem C02_mercurius_submap_parts_sum : forall (G soft : R) (emap : list nat) (encN encNact : nat) (tp : bool)
    (ps : list (Part R)) (acc0 : list RV3),
  (forall a b : nat, (a < encN)%nat -> (b < encN)%nat -> nth_d 0%nat emap a = nth_d 0%nat emap b -> a = b) ->
  nth_d 0%nat emap 0 = 0%nat -> (1 <= encN)%nat -> (encNact <= encN)%nat ->
  (forall c : nat, (c < encN)%nat -> (nth_d 0%nat emap c < length ps)%nat) -> length acc0 = length ps ->
  forall (Lf : R -> R -> R) (dcrit : nat -> R) (a : nat), (a < encN)%nat ->
  vadd (nth_d vzero (grav_merc0 RNum G soft Lf (sub_dcrit emap dcrit) encNact tp (sub_ps emap encN ps)) a)
       (nth_d vzero (grav_merc1 RNum G soft Lf dcrit emap encN encNact tp ps acc0) (nth_d 0%nat emap a)) =
  nth_d vzero (pair_loops RNum (pf_basic RNum G) (fun i => i) None (soft * soft) (sub_ps emap encN ps) tp 2 1 encNact encN
                 (star_loop RNum (fun r m0 => - G / (r * r * r) * m0) (soft * soft) (nth_d 0%nat (seq 0 encN)) encN
                    (sub_ps emap encN ps) (sub_acc emap encN acc0))) a.
Proof. exact mercurius_submap_parts_sum. Qed.
Print Assumptions C02_mercurius_submap_parts_sum.
Theorem C02_trace_submap_parts_sum : forall (G soft : R) (emap : list nat) (encN encNact : nat) (tp : bool)
    (ps : list (Part R)) (acc0 : list RV3),
  (forall a b : nat, (a < encN)%nat -> (b < encN)%nat -> nth_d 0%nat emap a = nth_d 0%nat emap b -> a = b) ->
  nth_d 0%nat emap 0 = 0%nat -> (1 <= encN)%nat -> (encNact <= encN)%nat ->
  (forall c : nat, (c < encN)%nat -> (nth_d 0%nat emap c < length ps)%nat) -> length acc0 = length ps ->
  forall (Ks : nat -> nat -> bool) (a : nat), (a < encN)%nat ->
  vadd (nth_d vzero (grav_trace0 RNum G soft (sub_Ks emap Ks) encNact tp (sub_ps emap encN ps)) a)
       (nth_d vzero (grav_trace1 RNum G soft Ks emap encN encNact tp ps acc0) (nth_d 0%nat emap a)) =
  nth_d vzero (pair_loops RNum (pf_basic RNum G) (fun i => i) None (soft * soft) (sub_ps emap encN ps) tp 2 1 encNact encN
                 (star_loop RNum (fun r m0 => - G * m0 / (r * r * r)) (soft * soft) (nth_d 0%nat (seq 0 encN)) encN
                    (sub_ps emap encN ps) (sub_acc emap encN acc0))) a.
Proof. exact trace_submap_parts_sum. Qed.
Print Assumptions C02_trace_submap_parts_sum.
Theorem C02_submap_outside_untouched : forall (G soft : R) (emap : list nat) (encN encNact : nat) (tp : bool)
    (ps : list (Part R)) (acc0 : list RV3),
  (forall a b : nat, (a < encN)%nat -> (b < encN)%nat -> nth_d 0%nat emap a = nth_d 0%nat emap b -> a = b) ->
  nth_d 0%nat emap 0 = 0%nat -> (1 <= encN)%nat -> (encNact <= encN)%nat ->
  (forall c : nat, (c < encN)%nat -> (nth_d 0%nat emap c < length ps)%nat) -> length acc0 = length ps ->
  forall k, (k < length ps)%nat -> (forall c, (c < encN)%nat -> nth_d 0%nat emap c <> k) ->
  (forall Lf dcrit, nth_d vzero (grav_merc1 RNum G soft Lf dcrit emap encN encNact tp ps acc0) k = nth_d vzero acc0 k) /\
  (forall Ks, nth_d vzero (grav_trace1 RNum G soft Ks emap encN encNact tp ps acc0) k = nth_d vzero acc0 k).
Proof. intros; split; intros; [now apply merc1_submap_outside|now apply trace1_submap_outside]. Qed.
Print Assumptions C02_submap_outside_untouched.

(* REB_GRAVITY_TREE (C02.TreeModel.walk = reb_calculate_acceleration_for_particle_from_cell on C15's oct-tree with C15's
   gdata as node->m,mx,my,mz; tied bit-exactly, accelerations and cell data, for all opening angles).
   (a) ANY opening angle: the walk adds one monopole term per terminal cell (accepted inner cell: its (m, centre of mass);
       visited leaf: the particle, nothing for the particle itself), and the leaves of the terminal cells are exactly the leaves
       of the tree, each once: every particle is counted exactly once, in one visited leaf or one accepted cell.
       (C15_gravity_data_sums: an accepted cell's m / centre of mass are the sums over exactly those particles.) *)
Theorem C02_tree_walk_cover : forall (part : nat -> R * R * R * R) (G soft2 theta2 : R) (t : C15.Tree.cell) (w : R) (pt : nat) (gb a : RV3),
  walk RNum part G soft2 theta2 w t pt gb a = vadd a (VSum (cover part theta2 w t gb) (mono part G soft2 pt gb)) /\
  flat_map C15.Tree.leaves (cover part theta2 w t gb) = C15.Tree.leaves t.
Proof. intros; split; [apply walk_cover|apply cover_leaves]. Qed.
Print Assumptions C02_tree_walk_cover.
(* (b) opening_angle2 = 0, root size <> 0, every particle index exactly once among the leaves of the forest (C15's once_b,
       checked on every dumped forest): the TREE routine gives every particle the specified direct sum over all ghost boxes
       (all particles active, gravity_ignore_terms = 0), for every N, root layout and ghost count. *)
Theorem C02_tree_theta0_eq_spec : forall (G eps bx by_ bz : R) (nx ny nz : nat) (w : R) (roots : list (option C15.Tree.cell)) (ps : list (Part R)),
  w <> 0 -> NoDup (forest_leaves roots) -> length (forest_leaves roots) = length ps ->
  (forall p, In p (forest_leaves roots) -> (p < length ps)%nat) ->
  forall (tp : bool) (k : nat), (k < length ps)%nat ->
  nth_d vzero (grav_tree RNum (part_of ps) G (eps * eps) 0 bx by_ bz nx ny nz w roots (length ps)) k =
  acc_spec G eps bx by_ bz nx ny nz 0 (length ps) tp ps k.
Proof. intros. apply tree_theta0_eq_spec; auto. now apply once_perm. Qed.
Print Assumptions C02_tree_theta0_eq_spec.

(* L_infinity (libm exp enters as oracle values e1 = exp(-1/y), e2 = exp(-1/(1-y)), tied bit-exactly with the values of
   glibc's exp): range [0,1] for any positive oracle values, in particular for the real exponential; 0 below, 1 above. *)
Theorem C02_L_infinity_range : forall e1 e2 d dc, 0 < e1 -> 0 < e2 -> 0 <= L_infinity RNum e1 e2 d dc <= 1.
Proof. exact L_infinity_range. Qed.
Print Assumptions C02_L_infinity_range.
Theorem C02_L_infinity_exp : forall d dc, let y := L_arg RNum d dc in
  0 <= L_infinity RNum (exp (- 1 / y)) (exp (- 1 / (1 - y))) d dc <= 1 /\
  (forall e1 e2, (y < 0 -> L_infinity RNum e1 e2 d dc = 0) /\ (1 < y -> L_infinity RNum e1 e2 d dc = 1)).
Proof. intros d dc y. split; [apply L_infinity_exp_range|intros; apply L_infinity_outside]. Qed.
Print Assumptions C02_L_infinity_exp.

(* The prologue of reb_calculate_acceleration (regenerated from gravity.c by tools/translate_gravprologue.py on every run):
   for every gravity value and every integrator value of rebound.h, the routine the switch dispatches on is r->gravity AFTER
   the MERCURIUS-fallback rule, and r->gravity holds that same value at the switch: the routine whose model is proved above is
   the one selected by the post-rule field (no stale copy of the selector). *)
Theorem C02_dispatch_is_post_rule : forall integ g,
  In integ Gen.GravPrologue.integrator_values -> In g Gen.GravPrologue.gravity_values ->
  C02.Prologue.dispatched integ g = Some (C02.Prologue.rule integ g, C02.Prologue.rule integ g).
Proof. exact C02.Prologue.dispatch_is_post_rule_all. Qed.
Print Assumptions C02_dispatch_is_post_rule.

(* ---------------- edges of the domain ----------------
   DOMAIN of the theorems above: N_active = -1 (resolved to N before the model is entered) or 0 <= N_active <= N, i.e. a partition
   of the particles into active ones (index < N_active) and test particles; gravity_ignore_terms in {0,1,2}; N_var = 0.
   N = 0, 1, 2, N_active = 0 (no active particle: all accelerations 0 for type 0 and for type 1), 1, N-1, N are inside the domain
   and covered by the theorems (the hypotheses k < N, nact <= N are satisfiable there) and by the enumerated correspondence.
   What the CODE does at corners the real-number theorems do not speak about (all tied bit-for-bit by the edge cases of the
   correspondence: coincident particles, +-0, subnormal, huge, inf, NaN coordinates / masses / G / softening / dcrit / dt):
   - coincident particles with zero softening: _r = 0, prefact = G/0 = inf, inf*0 = NaN in the accelerations of that pair; the
     theorems over R hold formally there only because Coq's division is total (stated in C02_basic_eq_spec);
   - zero interior mass sum in the Jacobi recurrences (hypothesis of C02_jacobi_eq_basic_plus_whterm): 1/0 = inf, NaN follows;
   - root size 0 (hypothesis w <> 0 of C02_tree_theta0_eq_spec): no cell is ever opened (0 > 0 is false);
   - dcrit <= 0 or d = dcrit = 0 in the changeover functions (hypothesis 0 < dc of C02_L_mercury_ends): y is +-inf or NaN;
     for NaN both comparisons fail and the polynomial of NaN (NaN) is returned;
   - gravity_ignore_terms >= 3 (outside the domain): theorem below. *)
Theorem C02_ignore_terms_out_of_range : forall G eps bx by_ bz nx ny nz nact tp (ps : list (Part R)) k,
  grav_basic RNum G eps bx by_ bz nx ny nz (3 + k) nact tp ps = grav_basic RNum G eps bx by_ bz nx ny nz 1 nact tp ps /\
  grav_compensated RNum G eps (3 + k) nact tp ps = grav_compensated RNum G eps 0 nact tp ps.
Proof. intros. split; reflexivity. Qed.
Print Assumptions C02_ignore_terms_out_of_range.
(* N_active = 0: nothing pulls on anything (the specification is the empty sum), for every N, type and ignore_terms *)
Theorem C02_no_active_particle : forall G eps bx by_ bz nx ny nz ign tp (ps : list (Part R)) k,
  (ign <= 2)%nat -> (k < length ps)%nat ->
  nth_d vzero (grav_basic RNum G eps bx by_ bz nx ny nz ign 0 tp ps) k = vzero.
Proof.
  intros. rewrite basic_eq_spec by (auto; lia). unfold acc_spec.
  rewrite VSum_ext with (h := fun _ => vzero); [apply VSum_zero|]. intros g _.
  rewrite VSum_ext with (h := fun _ => vzero); [apply VSum_zero|]. intros j _.
  unfold src. cbn [Nat.ltb Nat.leb]. now rewrite andb_false_r, andb_false_r.
Qed.
Print Assumptions C02_no_active_particle.

(* Non-vacuity: a 4-body system with a zero-mass body, N_active = 2, ignore_terms = 1 meets the hypotheses,
   and the specified sum for the test particle 3 is not trivially zero. *)
Example C02_hypotheses_inhabited :
  let ps := [mkP 1 0 0 0; mkP (1/1000) 1 0 0; mkP 0 0 2 0; mkP 3 0 0 5] in
  (1 <= 2)%nat /\ (2 <= length ps)%nat /\ (3 < length ps)%nat /\
  src 2 false 1 3 0 = true /\ src 2 false 1 3 2 = false /\ src 2 false 1 0 1 = false /\ src 2 true 1 0 3 = true /\
  fst (fst (acc_spec 1 0 0 0 0 0 0 0 1 2 false ps 0)) = 0.
Proof.
  cbv zeta. repeat split; try (cbn; lia); try reflexivity.
  unfold acc_spec, boxes. cbn [zr flat_map map app length seq]. rewrite !VSum_cons, !VSum_nil.
  cbn [src ignored Nat.eqb Nat.ltb Nat.leb negb andb orb nth_d]. unfold newton, shift, vscale, vadd, vzero.
  cbn [px py pz pm fst snd]. ring.
Qed.
