(* C02: binary64 instance of the WHFast interaction-step model, with list glue for the correspondence cases. *)
From Coq Require Import List ZArith Bool PrimFloat.
From RV Require Import Common.Num Common.FloatNum C02.WHModel.
Import ListNotations.

Fixpoint mkpj (ms xs ys zs vxs vys vzs : list float) : list (PJ (T := float)) :=
  match ms, xs, ys, zs, vxs, vys, vzs with
  | m :: ms, x :: xs, y :: ys, z :: zs, vx :: vxs, vy :: vys, vz :: vzs =>
      (m, (x, y, z), (vx, vy, vz)) :: mkpj ms xs ys zs vxs vys vzs
  | _, _, _, _, _, _, _ => []
  end.
Definition runWH G soft dt gj nact ms ax ay az pms pxs pys pzs pvxs pvys pvzs : list float :=
  flat_map (fun v => let '(a, b, c) := v in [a; b; c])
    (wh_interaction_jacobi FNum G soft dt gj nact ms ax ay az (mkpj pms pxs pys pzs pvxs pvys pvzs)).
