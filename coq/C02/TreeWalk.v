(* C02: the tree walk over the reals.
   (a) For ANY opening angle the walk is a sum of monopole terms over its terminal cells (accepted inner cells and
       visited leaves), and the leaves of the terminal cells are exactly the leaves of the tree, each once and in order:
       every particle is counted exactly once, in exactly one visited leaf or one accepted cell.
   (b) opening_angle2 = 0 (and a non-zero root size): every inner cell is opened, the terminal cells are the leaves,
       and REB_GRAVITY_TREE gives each particle the specified direct sum (C02.Spec.acc_spec, all particles active,
       gravity_ignore_terms = 0) whenever every particle index occurs exactly once among the leaves of the forest. *)
From Coq Require Import List ZArith Bool Reals Lra Lia PeanoNat Permutation.
From RV Require Import Common.Num Common.RealNum C02.Model C02.Sums C02.Loops C02.Spec C02.Basic C02.TreeModel.
From RV Require Import C15.Tree.
Import ListNotations.
Open Scope R_scope.

(* induction principle for the nested type C15.Tree.cell *)
Section CellInd.
Variable P : cell -> Prop.
Hypothesis HL : forall p, P (Leaf p).
Hypothesis HN : forall n oct, Forall (fun o => match o with None => True | Some d => P d end) oct -> P (Node n oct).
Definition Qo (o : option cell) : Prop := match o with None => True | Some d => P d end.
Fixpoint cell_rect' (t : cell) : P t :=
  match t with
  | Leaf p => HL p
  | Node n oct =>
      HN n oct ((fix go (l : list (option cell)) : Forall Qo l :=
                   match l with
                   | [] => @Forall_nil _ Qo
                   | o :: r => @Forall_cons _ Qo o r
                                 (match o as o' return Qo o' with None => I | Some d => cell_rect' d end) (go r)
                   end) oct)
  end.
End CellInd.

Lemma VSum_perm {A} (l1 l2 : list A) g : Permutation l1 l2 -> VSum l1 g = VSum l2 g.
Proof.
  induction 1 as [|x l l' _ IH|x y l|l l' l'' _ IH1 _ IH2]; [reflexivity| | |congruence].
  - rewrite !VSum_cons. now rewrite IH.
  - rewrite !VSum_cons. rewrite !vadd_assoc. f_equal. apply vadd_comm.
Qed.

Section Walk.
Variable part : nat -> R * R * R * R.
Variables (G soft2 theta2 : R).

(* pull of the point mass g = (m, x, y, z) on a unit mass at gb *)
Definition Fm (gb : RV3) (g : R * R * R * R) : RV3 :=
  let '(m, x, y, z) := g in
  let '(gx, gy, gz) := gb in
  let r := sqrt ((gx - x) * (gx - x) + (gy - y) * (gy - y) + (gz - z) * (gz - z) + soft2) in
  vscale (- G / (r * r * r) * m) (gx - x, gy - y, gz - z).

Definition r2of (gb : RV3) (g : R * R * R * R) : R :=
  let '(m, x, y, z) := g in
  let '(gx, gy, gz) := gb in (gx - x) * (gx - x) + (gy - y) * (gy - y) + (gz - z) * (gz - z).

(* the opening criterion node->w*node->w > opening_angle2*r2 *)
Definition opened (w : R) (t : cell) (gb : RV3) : bool := Rltb (theta2 * r2of gb (gdata RNum part t)) (w * w).

(* terminal cells of the walk, in visiting order *)
Fixpoint cover (w : R) (t : cell) (gb : RV3) {struct t} : list cell :=
  match t with
  | Leaf _ => [t]
  | Node _ oct =>
      if opened w t gb then flat_map (fun o => match o with None => [] | Some d => cover (w / (1 + 1)) d gb end) oct
      else [t]
  end.

(* what a terminal cell contributes to particle pt *)
Definition mono (pt : nat) (gb : RV3) (c : cell) : RV3 :=
  match c with
  | Leaf p => if (p =? pt)%nat then vzero else Fm gb (part p)
  | Node _ _ => Fm gb (gdata RNum part c)
  end.

Lemma cell_kick_R a m x y z gb :
  let '(gx, gy, gz) := gb in
  cell_kick RNum G soft2 a m (gx - x, gy - y, gz - z) ((gx - x) * (gx - x) + (gy - y) * (gy - y) + (gz - z) * (gz - z))
  = vadd a (Fm gb (m, x, y, z)).
Proof.
  destruct gb as [[gx gy] gz], a as [[ax ay] az]. unfold cell_kick, Fm. cbn [nadd nsub nmul ndiv nneg nsqrt RNum].
  unfold vadd, vscale. reflexivity.
Qed.

Lemma walk_leaf w p pt gb a :
  walk RNum part G soft2 theta2 w (Leaf p) pt gb a = vadd a (mono pt gb (Leaf p)).
Proof.
  cbn [walk gdata mono]. destruct (part p) as [[[m x] y] z] eqn:E. destruct gb as [[gx gy] gz].
  cbn [nsub nmul nadd RNum]. destruct (p =? pt)%nat; [now rewrite vadd_0_r|].
  apply (cell_kick_R a m x y z (gx, gy, gz)).
Qed.

Lemma walk_node w n oct pt gb a :
  walk RNum part G soft2 theta2 w (Node n oct) pt gb a =
  if opened w (Node n oct) gb
  then fold_left (fun a o => match o with None => a | Some d => walk RNum part G soft2 theta2 (w / (1 + 1)) d pt gb a end) oct a
  else vadd a (mono pt gb (Node n oct)).
Proof.
  unfold opened, mono, r2of. cbn [walk].
  destruct (gdata RNum part (Node n oct)) as [[[m x] y] z]. destruct gb as [[gx gy] gz].
  cbn [nsub nmul nadd ndiv nltb none RNum].
  destruct (Rltb _ _); [reflexivity|]. apply (cell_kick_R a m x y z (gx, gy, gz)).
Qed.

(* (a1) the walk is the sum of the monopole terms of its terminal cells *)
Theorem walk_cover t : forall w pt gb a,
  walk RNum part G soft2 theta2 w t pt gb a = vadd a (VSum (cover w t gb) (mono pt gb)).
Proof.
  induction t as [p|n oct IH] using cell_rect'; intros w pt gb a.
  - rewrite walk_leaf. cbn [cover]. now rewrite VSum_one.
  - rewrite walk_node. cbn [cover]. destruct (opened w (Node n oct) gb); [|now rewrite VSum_one].
    clear n. revert a. induction IH as [|o oct Ho _ IHo]; intros a; cbn [fold_left flat_map].
    + now rewrite VSum_nil, vadd_0_r.
    + rewrite IHo. rewrite VSum_app, vadd_assoc. f_equal.
      destruct o as [d|]; [apply Ho|]. now rewrite VSum_nil, vadd_0_r.
Qed.

(* (a2) every particle of the tree lies in exactly one terminal cell (same list, same order) *)
Theorem cover_leaves t : forall w gb, flat_map leaves (cover w t gb) = leaves t.
Proof.
  induction t as [p|n oct IH] using cell_rect'; intros w gb.
  - reflexivity.
  - cbn [cover]. destruct (opened w (Node n oct) gb); [|cbn [flat_map]; apply app_nil_r].
    cbn [leaves]. clear n. induction IH as [|o oct Ho _ IHo]; cbn [flat_map]; [reflexivity|].
    rewrite flat_map_app, IHo. f_equal. destruct o as [d|]; [apply Ho|reflexivity].
Qed.

(* (b) zero opening angle: all inner cells are opened *)
Hypothesis Htheta : theta2 = 0.

Lemma opened_theta0 w t gb : w <> 0 -> opened w t gb = true.
Proof.
  intros Hw. unfold opened, Rltb. rewrite Htheta, Rmult_0_l.
  destruct (Rlt_dec 0 (w * w)) as [|H]; [reflexivity|]. exfalso. apply H.
  pose proof (Rle_0_sqr w). unfold Rsqr in *. assert (w * w <> 0) by (intro E; apply Rmult_integral in E; tauto). lra.
Qed.

Theorem cover_theta0 t : forall w gb, w <> 0 -> cover w t gb = map Leaf (leaves t).
Proof.
  induction t as [p|n oct IH] using cell_rect'; intros w gb Hw.
  - reflexivity.
  - cbn [cover]. rewrite opened_theta0 by exact Hw. cbn [leaves].
    assert (Hw2 : w / (1 + 1) <> 0) by (unfold Rdiv; apply Rmult_integral_contrapositive_currified; [exact Hw|apply Rinv_neq_0_compat; lra]).
    clear n. induction IH as [|o oct Ho _ IHo]; cbn [flat_map]; [reflexivity|].
    rewrite map_app, IHo. f_equal. destruct o as [d|]; [now apply Ho|reflexivity].
Qed.

Definition direct (pt : nat) (gb : RV3) (p : nat) : RV3 := if (p =? pt)%nat then vzero else Fm gb (part p).

Theorem walk_theta0 t w pt gb a : w <> 0 ->
  walk RNum part G soft2 theta2 w t pt gb a = vadd a (VSum (leaves t) (direct pt gb)).
Proof. intros Hw. rewrite walk_cover, cover_theta0 by exact Hw. now rewrite VSum_map. Qed.

Definition forest_leaves (roots : list (option cell)) : list nat := flat_map oleaves roots.

Lemma walk_roots_theta0 w roots pt gb : w <> 0 -> forall a,
  walk_roots RNum part G soft2 theta2 w roots pt gb a = vadd a (VSum (forest_leaves roots) (direct pt gb)).
Proof.
  intros Hw. unfold walk_roots, forest_leaves. induction roots as [|o roots IH]; intros a; cbn [fold_left flat_map].
  - now rewrite VSum_nil, vadd_0_r.
  - rewrite IH, VSum_app, vadd_assoc. f_equal. destruct o as [t|]; cbn [oleaves].
    + now apply walk_theta0.
    + now rewrite VSum_nil, vadd_0_r.
Qed.
End Walk.

(* ---------------- the whole TREE branch with opening_angle2 = 0 ---------------- *)
Lemma once_perm (l : list nat) n : NoDup l -> length l = n -> (forall p, In p l -> (p < n)%nat) -> Permutation l (seq 0 n).
Proof.
  intros Hnd Hl Hr. apply NoDup_Permutation_bis; [exact Hnd|rewrite seq_length; lia|].
  intros p Hp. apply in_seq. specialize (Hr p Hp). lia.
Qed.

Lemma upd_each (f : nat -> RV3 -> RV3) l : forall (acc : list RV3), NoDup l -> (forall i, In i l -> (i < length acc)%nat) ->
  let res := fold_left (fun acc i => upd acc i (f i (nth_d vzero acc i))) l acc in
  length res = length acc /\
  (forall k, In k l -> nth_d vzero res k = f k (nth_d vzero acc k)) /\
  (forall k, ~ In k l -> (k < length acc)%nat -> nth_d vzero res k = nth_d vzero acc k).
Proof.
  induction l as [|x l IH]; intros acc Hnd Hl; cbn [fold_left].
  - cbv zeta. repeat split; auto. intros k [].
  - inversion Hnd as [|? ? Hx Hnd']; subst.
    set (acc1 := upd acc x (f x (nth_d vzero acc x))).
    assert (L1 : length acc1 = length acc) by apply upd_length.
    destruct (IH acc1 Hnd') as (L & Hin & Hout); [intros i Hi; rewrite L1; apply Hl; now right|].
    cbv zeta in *. split; [lia|]. split.
    + intros k [->|Hk].
      * rewrite Hout by (auto; rewrite L1; apply Hl; now left). unfold acc1. rewrite nth_upd by (apply Hl; now left).
        now rewrite Nat.eqb_refl.
      * rewrite Hin by exact Hk. unfold acc1. rewrite nth_upd by (apply Hl; now right).
        destruct (Nat.eqb_spec k x); [subst; tauto|reflexivity].
    + intros k Hk Hlt. cbn [In] in Hk. rewrite Hout by (try tauto; lia). unfold acc1. rewrite nth_upd by exact Hlt.
      destruct (Nat.eqb_spec k x); [subst; tauto|reflexivity].
Qed.

Section TreeSpec.
Variables (G eps bx by_ bz : R) (nx ny nz : nat) (w : R) (roots : list (option cell)) (ps : list (Part R)).
Let n := length ps.
Definition part_of (i : nat) : R * R * R * R := let p := nth_d (P0 RNum) ps i in (pm p, px p, py p, pz p).
Hypothesis Hw : w <> 0.
Hypothesis Honce : Permutation (forest_leaves roots) (seq 0 n).

Definition gb_of (g : Z * Z * Z) (i : nat) : RV3 :=
  let '(sx, sy, sz) := shift bx by_ bz g in let p := nth_d (P0 RNum) ps i in (sx + px p, sy + py p, sz + pz p).

Lemma tree_one_box g (acc : list RV3) k : length acc = n -> (k < n)%nat ->
  nth_d vzero (for_range 0 n (fun i acc =>
        let '(sx, sy, sz) := ghostbox RNum bx by_ bz g in
        let '(_, x, y, z) := part_of i in
        let gb := (nadd RNum sx x, nadd RNum sy y, nadd RNum sz z) in
        upd acc i (walk_roots RNum part_of G (eps * eps) 0 w roots i gb (nth_d (v0 RNum) acc i))) acc) k
  = vadd (nth_d vzero acc k) (VSum (seq 0 n) (direct part_of G (eps * eps) k (gb_of g k))).
Proof.
  intros Hl Hk. unfold for_range. replace (n - 0)%nat with n by lia.
  pose (f := fun i (a : RV3) => walk_roots RNum part_of G (eps * eps) 0 w roots i (gb_of g i) a).
  rewrite fold_left_ext with (g := fun acc i => upd acc i (f i (nth_d vzero acc i))).
  2:{ intros s i _. unfold f, gb_of, part_of. rewrite shift_ghostbox. destruct (shift bx by_ bz g) as [[sx sy] sz]. reflexivity. }
  destruct (upd_each f (seq 0 n) acc (seq_NoDup n 0)) as (_ & Hin & _); [intros i Hi; apply in_seq in Hi; lia|].
  cbv zeta in Hin. rewrite Hin by (apply in_seq; lia). unfold f.
  rewrite (walk_roots_theta0 part_of G (eps * eps) 0 eq_refl w roots k (gb_of g k) Hw).
  f_equal. apply VSum_perm. exact Honce.
Qed.

Lemma tree_all_boxes bl : forall (acc : list RV3) k, length acc = n -> (k < n)%nat ->
  nth_d vzero (fold_left (fun acc g =>
      for_range 0 n (fun i acc =>
        let '(sx, sy, sz) := ghostbox RNum bx by_ bz g in
        let '(_, x, y, z) := part_of i in
        let gb := (nadd RNum sx x, nadd RNum sy y, nadd RNum sz z) in
        upd acc i (walk_roots RNum part_of G (eps * eps) 0 w roots i gb (nth_d (v0 RNum) acc i))) acc) bl acc) k
  = vadd (nth_d vzero acc k) (VSum bl (fun g => VSum (seq 0 n) (direct part_of G (eps * eps) k (gb_of g k)))).
Proof.
  induction bl as [|g bl IH]; intros acc k Hl Hk; cbn [fold_left].
  - now rewrite VSum_nil, vadd_0_r.
  - rewrite IH; [|clear IH|exact Hk].
    + rewrite tree_one_box by assumption. rewrite VSum_cons, <- vadd_assoc. reflexivity.
    + unfold for_range. apply (fold_left_inv (fun s : list RV3 => length s = n)); [exact Hl|].
      intros s i _ Hs. destruct (ghostbox RNum bx by_ bz g) as [[sx sy] sz]. destruct (part_of i) as [[[m x] y] z].
      now rewrite upd_length.
Qed.

(* the direct term is the Newtonian term of the specification *)
Lemma direct_newton g k j tp : (k < n)%nat -> (j < n)%nat ->
  direct part_of G (eps * eps) k (gb_of g k) j =
  if src n tp 0 k j then newton G eps (shift bx by_ bz g) (nth_d (P0 RNum) ps k) (nth_d (P0 RNum) ps j) else vzero.
Proof.
  intros Hk Hj. unfold direct, src, ignored. rewrite (Nat.eqb_sym k j).
  destruct (Nat.eqb_spec j k) as [E|E]; cbn [negb andb]; [reflexivity|].
  destruct (Nat.ltb_spec j n); [|lia]. cbn [orb].
  unfold gb_of, part_of, Fm, newton. destruct (shift bx by_ bz g) as [[sx sy] sz].
  set (pk := nth_d (P0 RNum) ps k). set (pj := nth_d (P0 RNum) ps j).
  replace (sx + px pk - px pj) with (px pk + sx - px pj) by ring.
  replace (sy + py pk - py pj) with (py pk + sy - py pj) by ring.
  replace (sz + pz pk - pz pj) with (pz pk + sz - pz pj) by ring.
  f_equal. unfold Rdiv. ring.
Qed.

Theorem tree_theta0_eq_spec tp k : (k < n)%nat ->
  nth_d vzero (grav_tree RNum part_of G (eps * eps) 0 bx by_ bz nx ny nz w roots n) k =
  acc_spec G eps bx by_ bz nx ny nz 0 n tp ps k.
Proof.
  intros Hk. unfold grav_tree. rewrite tree_all_boxes; [|apply repeat_length|exact Hk].
  unfold zeros. change (v0 RNum) with vzero. rewrite nth_repeat, vadd_0_l.
  unfold acc_spec. fold n. apply VSum_ext. intros g _. apply VSum_ext. intros j Hj. apply in_seq in Hj.
  apply direct_newton; lia.
Qed.
End TreeSpec.
