(* C02: REB_GRAVITY_BASIC equals the specification, for every N, N_active, testparticle_type,
   gravity_ignore_terms in {0,1,2} and ghost-box counts. *)
From Coq Require Import List ZArith Bool Reals Lra Lia PeanoNat ZifyBool.
From RV Require Import Common.Num Common.RealNum C02.Model C02.Sums C02.Loops C02.Spec.
Import ListNotations.
Open Scope R_scope.

Lemma sep_some s pi pj :
  sep RNum (Some s) pi pj =
  (let '(sx, sy, sz) := s in (px pi + sx - px pj, py pi + sy - py pj, pz pi + sz - pz pj)).
Proof. destruct s as [[sx sy] sz]. unfold sep. cbn. f_equal; [f_equal|]; ring. Qed.

Lemma Aterm_basic G eps s ps k j :
  Aterm (pf_basic RNum G) (Some s) (eps * eps) ps k j = newton G eps s (part ps k) (part ps j).
Proof.
  unfold Aterm, pref, pf_basic, dvec, mass, newton. rewrite sep_some. destruct s as [[sx sy] sz].
  unfold norm_soft. cbn [nadd nmul ndiv nsqrt nneg RNum].
  f_equal. unfold Rdiv. ring.
Qed.

Lemma Bterm_basic G eps s ps k j :
  Bterm (pf_basic RNum G) (Some s) (eps * eps) ps j k = newton G eps (vneg s) (part ps k) (part ps j).
Proof.
  unfold Bterm, pref, pf_basic, dvec, mass, newton. rewrite sep_some. destruct s as [[sx sy] sz].
  unfold norm_soft, vneg. cbn [nadd nmul ndiv nsqrt nneg RNum].
  set (xk := px (part ps k)). set (yk := py (part ps k)). set (zk := pz (part ps k)).
  set (xj := px (part ps j)). set (yj := py (part ps j)). set (zj := pz (part ps j)).
  replace ((xk + - sx - xj) * (xk + - sx - xj) + (yk + - sy - yj) * (yk + - sy - yj) + (zk + - sz - zj) * (zk + - sz - zj) + eps * eps)
    with ((xj + sx - xk) * (xj + sx - xk) + (yj + sy - yk) * (yj + sy - yk) + (zj + sz - zk) * (zj + sz - zk) + eps * eps) by ring.
  set (r := sqrt _). unfold vscale. f_equal; [f_equal|]; unfold Rdiv; ring.
Qed.

(* the start indices of the C loops select exactly the sources of the specification *)
Lemma cA_src ign na nr tp k j : (ign <= 2)%nat -> (na <= nr)%nat -> (k < nr)%nat -> (j < nr)%nat ->
  cA (starti_of ign) (startj_of ign) na nr k j = src na tp ign k j && (j <? k)%nat.
Proof.
  intros Hi Hna Hk Hj. unfold cA, src, ignored, starti_of, startj_of.
  destruct ign as [|[|[|ign]]]; try lia; destruct tp; lia.
Qed.
Lemma cB_src ign na nr tp k j : (ign <= 2)%nat -> (na <= nr)%nat -> (k < nr)%nat -> (j < nr)%nat ->
  cB tp (starti_of ign) (startj_of ign) na nr k j = src na tp ign k j && (k <? j)%nat.
Proof.
  intros Hi Hna Hk Hj. unfold cB, src, ignored, starti_of, startj_of.
  destruct ign as [|[|[|ign]]]; try lia; destruct tp; lia.
Qed.

Lemma pair_loops_length pf gb soft2 ps tp si sj na nr (acc : list RV3) :
  length (pair_loops RNum pf (fun i => i) gb soft2 ps tp si sj na nr acc) = length acc.
Proof. rewrite pair_loops_run. apply run_pairs_length. Qed.

Lemma shift_ghostbox bx by_ bz g : ghostbox RNum bx by_ bz g = shift bx by_ bz g.
Proof. destruct g as [[a b] c]. reflexivity. Qed.
Definition negbox (g : Z * Z * Z) : Z * Z * Z := let '(a, b, c) := g in ((- a)%Z, (- b)%Z, (- c)%Z).
Lemma shift_negbox bx by_ bz g : shift bx by_ bz (negbox g) = vneg (shift bx by_ bz g).
Proof. destruct g as [[a b] c]. unfold shift, negbox, vneg. rewrite !opp_IZR. f_equal; [f_equal|]; ring. Qed.

Lemma VSum_boxes_sym nx ny nz (F : Z * Z * Z -> RV3) :
  VSum (boxes nx ny nz) (fun g => F (negbox g)) = VSum (boxes nx ny nz) F.
Proof.
  unfold boxes. rewrite !VSum_flat_map.
  rewrite <- (VSum_zr_sym nx (fun a => VSum (flat_map (fun j => map (fun k => (a, j, k)) (zr nz)) (zr ny)) F)).
  apply VSum_ext. intros a _. rewrite !VSum_flat_map.
  rewrite <- (VSum_zr_sym ny (fun b => VSum (map (fun k => ((- a)%Z, b, k)) (zr nz)) F)).
  apply VSum_ext. intros b _. rewrite !VSum_map.
  rewrite <- (VSum_zr_sym nz (fun c => F ((- a)%Z, (- b)%Z, c))).
  reflexivity.
Qed.

Section Basic.
Variables (G eps bx by_ bz : R) (ign nact : nat) (tp : bool) (ps : list (Part R)).
Hypothesis Hign : (ign <= 2)%nat.
Hypothesis Hna : (nact <= length ps)%nat.

Let n := length ps.
Definition box_term (k : nat) (s : RV3) : RV3 :=
  VSum (seq 0 n) (fun j =>
    vadd (if src nact tp ign k j && (j <? k)%nat then newton G eps s (part ps k) (part ps j) else vzero)
         (if src nact tp ign k j && (k <? j)%nat then newton G eps (vneg s) (part ps k) (part ps j) else vzero)).

Lemma one_box (acc : list RV3) g k : length acc = n -> (k < n)%nat ->
  nth_d vzero (pair_loops RNum (pf_basic RNum G) (fun i => i) (Some (ghostbox RNum bx by_ bz g)) (eps * eps) ps tp
                 (starti_of ign) (startj_of ign) nact n acc) k =
  vadd (nth_d vzero acc k) (box_term k (shift bx by_ bz g)).
Proof.
  intros Hlen Hk. rewrite pair_loops_sum by (fold n; lia). f_equal. unfold box_term.
  apply VSum_ext. intros j Hj. apply in_seq in Hj.
  rewrite (cA_src ign nact n tp) by lia. rewrite (cB_src ign nact n tp) by lia.
  rewrite shift_ghostbox, Aterm_basic, Bterm_basic. reflexivity.
Qed.

Lemma all_boxes bl : forall (acc : list RV3) k, length acc = n -> (k < n)%nat ->
  nth_d vzero (fold_left (fun acc g =>
      pair_loops RNum (pf_basic RNum G) (fun i => i) (Some (ghostbox RNum bx by_ bz g)) (eps * eps) ps tp
                 (starti_of ign) (startj_of ign) nact n acc) bl acc) k =
  vadd (nth_d vzero acc k) (VSum bl (fun g => box_term k (shift bx by_ bz g))).
Proof.
  induction bl as [|g bl IH]; intros acc k Hlen Hk; cbn [fold_left].
  - now rewrite VSum_nil, vadd_0_r.
  - rewrite IH by (rewrite ?pair_loops_length; auto). rewrite one_box by auto.
    rewrite VSum_cons, <- vadd_assoc. reflexivity.
Qed.

Theorem basic_eq_spec nx ny nz k : (k < n)%nat ->
  nth_d vzero (grav_basic RNum G eps bx by_ bz nx ny nz ign nact tp ps) k =
  acc_spec G eps bx by_ bz nx ny nz ign nact tp ps k.
Proof.
  intros Hk. unfold grav_basic. fold n. cbn [nmul RNum].
  rewrite all_boxes; [|apply repeat_length|exact Hk].
  unfold zeros. change (v0 RNum) with vzero. rewrite nth_repeat, vadd_0_l.
  unfold box_term, acc_spec. fold n.
  (* split every box into its i-side and j-side parts, mirror the boxes of the j-side part *)
  pose (F := fun g' => VSum (seq 0 n) (fun j => if src nact tp ign k j && (k <? j)%nat
                 then newton G eps (shift bx by_ bz g') (part ps k) (part ps j) else vzero)).
  rewrite VSum_ext with (h := fun g => vadd
     (VSum (seq 0 n) (fun j => if src nact tp ign k j && (j <? k)%nat then newton G eps (shift bx by_ bz g) (part ps k) (part ps j) else vzero))
     (F (negbox g)))
    by (intros g _; unfold F; rewrite VSum_vadd, shift_negbox; reflexivity).
  rewrite VSum_vadd, (VSum_boxes_sym nx ny nz F), <- VSum_vadd. unfold F.
  apply VSum_ext. intros g _. rewrite <- VSum_vadd. apply VSum_ext. intros j _.
  rewrite if_or_disj.
  - replace (src nact tp ign k j && (j <? k)%nat || src nact tp ign k j && (k <? j)%nat) with (src nact tp ign k j); [reflexivity|].
    unfold src. destruct (Nat.eqb_spec k j); cbn [negb andb]; [reflexivity|].
    destruct (negb _ && _); cbn [andb orb]; [|reflexivity]. destruct (Nat.ltb_spec j k), (Nat.ltb_spec k j); try reflexivity; lia.
  - destruct (src nact tp ign k j); cbn [andb]; [|reflexivity]. destruct (Nat.ltb_spec j k), (Nat.ltb_spec k j); try reflexivity; lia.
Qed.
End Basic.
