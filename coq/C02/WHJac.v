(* C02: the WHFast composition.  In Jacobi coordinates (C12's forward Jacobi map, the same scalar recurrence that
   reb_particles_transform_inertial_to_jacobi_acc applies to ax, ay, az) the accelerations of REB_GRAVITY_JACOBI equal
   those of REB_GRAVITY_BASIC with gravity_ignore_terms = 1 plus the term  G * eta_i * Q_i / |Q_i|^3  that
   reb_whfast_interaction_step adds for i > 1 when gravity != REB_GRAVITY_JACOBI  (all particles active, no
   softening; eta_i = m_0 + ... + m_i, Q_i = Jacobi position of i). *)
From Coq Require Import List ZArith Bool Reals Lra Lia PeanoNat ZifyBool.
From RV Require Import Common.Num Common.RealNum C02.Model C02.Sums C02.Loops C02.Spec C02.Basic C02.Comp C02.Jacobi.
From RV Require C12.Model C02.WHModel.
Import ListNotations.
Open Scope R_scope.

Inductive axis := AX | AY | AZ.
Definition proj (c : axis) (v : RV3) : R :=
  let '(x, y, z) := v in match c with AX => x | AY => y | AZ => z end.
Definition coord (c : axis) (p : Part R) : R := match c with AX => px p | AY => py p | AZ => pz p end.
Lemma proj_vadd c a b : proj c (vadd a b) = proj c a + proj c b.
Proof. destruct a as [[? ?] ?], b as [[? ?] ?], c; reflexivity. Qed.
Lemma proj_vscale c k a : proj c (vscale k a) = k * proj c a.
Proof. destruct a as [[? ?] ?], c; reflexivity. Qed.
Lemma proj_vzero c : proj c vzero = 0.
Proof. destruct c; reflexivity. Qed.

Lemma vscale_vzero c : vscale c vzero = vzero.
Proof. unfold vscale, vzero. f_equal; [f_equal|]; ring. Qed.
Lemma VSum_vscale {A} (l : list A) c g : VSum l (fun x => vscale c (g x)) = vscale c (VSum l g).
Proof.
  induction l as [|x l IH]; [rewrite !VSum_nil; unfold vscale, vzero; f_equal; [f_equal|]; ring|].
  rewrite !VSum_cons, IH. destruct (g x) as [[? ?] ?], (VSum l g) as [[? ?] ?]. unfold vadd, vscale. f_equal; [f_equal|]; ring.
Qed.
Lemma VSum_seq_S n (g : nat -> RV3) : VSum (seq 0 (S n)) g = vadd (VSum (seq 0 n) g) (g n).
Proof. rewrite seq_S, VSum_app, VSum_one. reflexivity. Qed.

(* ---------------- C12's forward Jacobi recurrence in closed form ---------------- *)
Section Closed.
Variables m q : nat -> R.
Fixpoint Mf (i : nat) : R := match i with O => 0 | S k => Mf k + m k end.
Fixpoint Sf (i : nat) : R := match i with O => 0 | S k => Sf k + m k * q k end.

Lemma jac_act_seq k : forall a, (forall i, (a <= i < a + k)%nat -> Mf i <> 0) ->
  C12.Model.jac_fwd_act RNum (map (fun i => (m i, q i)) (seq a k)) (Mf a) (Sf a) =
  (map (fun i => q i - Sf i / Mf i) (seq a k), (Mf (a + k), Sf (a + k))).
Proof.
  induction k as [|k IH]; intros a H; cbn [seq map C12.Model.jac_fwd_act].
  - rewrite Nat.add_0_r. reflexivity.
  - cbn [nadd nsub nmul ndiv none RNum].
    assert (Ha : Mf a <> 0) by (apply H; lia).
    replace (Sf a * ((Mf a + m a) * (1 / Mf a)) + m a * (q a - Sf a * (1 / Mf a))) with (Sf (S a))
      by (cbn [Sf]; field; exact Ha).
    change (Mf a + m a) with (Mf (S a)).
    rewrite IH by (intros; apply H; lia).
    replace (S a + k)%nat with (a + S k)%nat by lia. f_equal. f_equal. unfold Rdiv. ring.
Qed.
End Closed.

Lemma combine_map_seq {A B} (f : nat -> A) (g : nat -> B) l :
  combine (map f l) (map g l) = map (fun i => (f i, g i)) l.
Proof. induction l as [|x l IH]; cbn; [reflexivity|]. now rewrite IH. Qed.
Lemma map_nth_seq {A B} (f : A -> B) (d : A) (l : list A) :
  map f l = map (fun i => f (nth_d d l i)) (seq 0 (length l)).
Proof.
  induction l as [|x l IH]; [reflexivity|]. cbn [length seq map nth_d]. f_equal.
  rewrite IH, <- seq_shift, map_map. reflexivity.
Qed.
Lemma nth_d_map_seq {B} (d : B) (f : nat -> B) k : forall a i, (i < k)%nat -> nth_d d (map f (seq a k)) i = f (a + i)%nat.
Proof.
  induction k as [|k IH]; intros a i Hi; [lia|]. destruct i; cbn [seq map nth_d].
  - now rewrite Nat.add_0_r.
  - rewrite IH by lia. f_equal. lia.
Qed.

(* the whole routine jac_fwd with all particles active, entry i >= 1 *)
Lemma jac_fwd_closed (m q : nat -> R) n i :
  (forall k, (1 <= k < n)%nat -> Mf m k <> 0) -> (1 <= i < n)%nat ->
  nth_d 0 (fst (C12.Model.jac_fwd RNum (map m (seq 0 n)) (map q (seq 0 n)) n)) i = q i - Sf m q i / Mf m i.
Proof.
  intros HM Hi. destruct n as [|n]; [lia|]. cbn [seq map]. unfold C12.Model.jac_fwd.
  replace (S n - 1)%nat with n by lia.
  rewrite <- !seq_shift, !map_map.
  rewrite !firstn_all2 by (rewrite map_length, seq_length; lia).
  rewrite skipn_all2 by (rewrite map_length, seq_length; lia).
  rewrite <- (map_map S m), <- (map_map S q), !seq_shift, combine_map_seq.
  cbn [nmul RNum].
  replace (m 0%nat) with (Mf m 1) at 1 by (cbn; ring). replace (m 0%nat * q 0%nat) with (Sf m q 1) by (cbn; ring).
  rewrite jac_act_seq by (intros; apply HM; lia).
  cbn [fst C12.Model.jac_fwd_tp map]. rewrite app_nil_r.
  destruct i as [|i]; [lia|]. cbn [nth_d]. rewrite (nth_d_map_seq 0) by lia. reflexivity.
Qed.

(* ---------------- the algebra of the Jacobi terms ---------------- *)
Section WH.
Variables (G : R) (ps : list (Part R)).
Let n := length ps.
Definition mass_ (i : nat) : R := pm (part ps i).
Hypothesis HM : forall k, (1 <= k < n)%nat -> Mf mass_ k <> 0.

Lemma Msum_Mf i : Msum ps i = Mf mass_ i.
Proof. induction i as [|i IH]; [reflexivity|]. cbn [Msum Mf]. now rewrite IH. Qed.
Lemma Rsum_Sf i : Rsum ps i = (Sf mass_ (fun k => px (part ps k)) i, Sf mass_ (fun k => py (part ps k)) i, Sf mass_ (fun k => pz (part ps k)) i).
Proof. induction i as [|i IH]; [reflexivity|]. cbn [Rsum Sf]. rewrite IH. reflexivity. Qed.

(* Jacobi position of particle j (j >= 1): Q_j = x_j - R_j/M_j *)
Definition Qj (j : nat) : RV3 := jq (Rsum ps j) (Msum ps j) (part ps j).
(* T_j = G Q_j/|Q_j|^3 for j >= 2, 0 otherwise *)
Definition Tz (j : nat) : RV3 :=
  if (1 <? j)%nat then
    let '(qx, qy, qz) := Qj j in
    let dr := sqrt (qx * qx + qy * qy + qz * qz) in vscale (G / (dr * dr * dr)) (Qj j)
  else vzero.
Definition wjk (k j : nat) : R := if (k <? j)%nat then - mass_ j else Mf mass_ j.
Definition Us (i : nat) : RV3 := VSum (seq 0 n) (fun j => if (i <=? j)%nat then vscale (mass_ j) (Tz j) else vzero).
Definition dk (k : nat) : RV3 := jacobi_terms G ps k.

Lemma jterm_Tz j k : (1 <? j)%nat = true -> jterm G ps (Rsum ps j) (Msum ps j) j k = vscale (wjk k j) (Tz j).
Proof.
  intros H. unfold jterm, Tz, Qj, wjk. rewrite H. rewrite <- Msum_Mf. unfold mass_.
  destruct (jq (Rsum ps j) (Msum ps j) (part ps j)) as [[qx qy] qz]. cbv zeta.
  set (dr := sqrt _). unfold vscale. destruct (k <? j)%nat; (f_equal; [f_equal|]; unfold Rdiv; ring).
Qed.

Lemma dk_sum k : dk k = VSum (seq 0 n) (fun j => if (k <=? j)%nat then vscale (wjk k j) (Tz j) else vzero).
Proof.
  unfold dk, jacobi_terms. fold n. apply VSum_ext. intros j _.
  destruct (1 <? j)%nat eqn:E; cbn [andb].
  - destruct (k <=? j)%nat; [|reflexivity]. now apply jterm_Tz.
  - destruct (k <=? j)%nat; [|reflexivity]. unfold Tz. rewrite E. now rewrite vscale_vzero.
Qed.

Lemma Us_step i : (i < n)%nat -> Us i = vadd (vscale (mass_ i) (Tz i)) (Us (S i)).
Proof.
  intros Hi. unfold Us.
  rewrite VSum_ext with (h := fun j => vadd (if (i =? j)%nat then vscale (mass_ j) (Tz j) else vzero)
                                             (if (S i <=? j)%nat then vscale (mass_ j) (Tz j) else vzero)).
  - rewrite VSum_vadd, VSum_pick. destruct (Nat.ltb_spec i n); [reflexivity|lia].
  - intros j _. destruct (Nat.leb_spec i j), (Nat.eqb_spec i j), (Nat.leb_spec (S i) j); try lia; now rewrite ?vadd_0_l, ?vadd_0_r.
Qed.
Lemma dk_step i : (i < n)%nat -> dk i = vadd (vscale (Mf mass_ i) (Tz i)) (vscale (-1) (Us (S i))).
Proof.
  intros Hi. rewrite dk_sum. unfold Us. rewrite <- VSum_vscale.
  rewrite VSum_ext with (h := fun j => vadd (if (i =? j)%nat then vscale (Mf mass_ j) (Tz j) else vzero)
                                             (vscale (-1) (if (S i <=? j)%nat then vscale (mass_ j) (Tz j) else vzero))).
  - rewrite VSum_vadd, VSum_pick. destruct (Nat.ltb_spec i n); [reflexivity|lia].
  - intros j _. unfold wjk.
    destruct (Nat.leb_spec i j), (Nat.eqb_spec i j), (Nat.leb_spec (S i) j), (Nat.ltb_spec i j); try lia;
      destruct (Tz j) as [[t1 t2] t3]; unfold vadd, vscale, vzero; apply triple_eq; ring.
Qed.

(* sum_{k<i} m_k d_k = - M_i U_i *)
Lemma weighted_dk i : (i <= n)%nat ->
  VSum (seq 0 i) (fun k => vscale (mass_ k) (dk k)) = vscale (- Mf mass_ i) (Us i).
Proof.
  induction i as [|i IH]; intros Hi.
  - cbn [seq]. rewrite VSum_nil. cbn [Mf]. destruct (Us 0) as [[? ?] ?]. unfold vscale, vzero. f_equal; [f_equal|]; ring.
  - rewrite VSum_seq_S, IH by lia. rewrite (Us_step i) by lia. rewrite (dk_step i) by lia. cbn [Mf].
    destruct (Tz i) as [[t1 t2] t3], (Us (S i)) as [[u1 u2] u3]. unfold vadd, vscale. f_equal; [f_equal|]; ring.
Qed.

(* Jacobi coordinate of the Jacobi terms: (M_i + m_i) T_i *)
Lemma jacobi_of_terms i : (1 <= i < n)%nat ->
  vadd (dk i) (vscale (- / Mf mass_ i) (VSum (seq 0 i) (fun k => vscale (mass_ k) (dk k)))) = vscale (Mf mass_ (S i)) (Tz i).
Proof.
  intros Hi. rewrite weighted_dk by lia. rewrite (Us_step i) by lia. rewrite (dk_step i) by lia. cbn [Mf].
  assert (H : Mf mass_ i <> 0) by (apply HM; lia).
  destruct (Tz i) as [[t1 t2] t3], (Us (S i)) as [[u1 u2] u3]. unfold vadd, vscale. f_equal; [f_equal|]; field; exact H.
Qed.
End WH.

(* ---------------- the term added by reb_whfast_interaction_step, over R ---------------- *)
(* the R instance of the modelled prefactor rj3iM = rji*rj2i*G*eta (C02.WHModel.wh_rj3iM, tied bit-exactly) *)
Definition wh_rj3iM (G soft eta : R) (Q : RV3) : R := C02.WHModel.wh_rj3iM RNum G soft eta Q.

Lemma sumsq_zero x y z : x * x + y * y + z * z = 0 -> x = 0 /\ y = 0 /\ z = 0.
Proof.
  intros H. pose proof (Rle_0_sqr x). pose proof (Rle_0_sqr y). pose proof (Rle_0_sqr z). unfold Rsqr in *.
  assert (x * x = 0) by lra. assert (y * y = 0) by lra. assert (z * z = 0) by lra.
  repeat split; apply Rmult_integral in H3, H4, H5; tauto.
Qed.

Lemma wh_term_Tz G eta (Q : RV3) :
  vscale (wh_rj3iM G 0 eta Q) Q =
  vscale eta (let '(qx, qy, qz) := Q in let dr := sqrt (qx * qx + qy * qy + qz * qz) in vscale (G / (dr * dr * dr)) Q).
Proof.
  destruct Q as [[x y] z]. unfold wh_rj3iM, C02.WHModel.wh_rj3iM. cbn [nadd nmul ndiv nsqrt none RNum]. cbv zeta.
  replace (x * x + y * y + z * z + 0 * 0) with (x * x + y * y + z * z) by ring.
  set (r2 := x * x + y * y + z * z).
  assert (H0 : 0 <= r2). { pose proof (Rle_0_sqr x). pose proof (Rle_0_sqr y). pose proof (Rle_0_sqr z). unfold Rsqr in *. unfold r2. lra. }
  destruct (Req_dec r2 0) as [Hz|Hnz].
  - destruct (sumsq_zero x y z Hz) as (-> & -> & ->). unfold vscale. f_equal; [f_equal|]; ring.
  - assert (Hpos : 0 < r2) by lra.
    assert (Hs : sqrt r2 <> 0) by (apply Rgt_not_eq, sqrt_lt_R0; exact Hpos).
    replace (1 / r2) with (/ r2) by (unfold Rdiv; ring).
    rewrite sqrt_inv by exact Hpos.
    assert (E : r2 = sqrt r2 * sqrt r2) by (symmetry; apply sqrt_sqrt; exact H0).
    set (s := sqrt r2) in *. rewrite E. unfold vscale. f_equal; [f_equal|]; field; exact Hs.
Qed.

(* ---------------- the theorem ---------------- *)
Section Final.
Variables (G : R) (ps : list (Part R)).
Let n := length ps.
Hypothesis HM : forall k, (1 <= k < n)%nat -> Mf (mass_ ps) k <> 0.

(* C12's Jacobi map applied to one component of a list of vectors / of the positions *)
Definition Jacc (c : axis) (a : list RV3) : list R :=
  fst (C12.Model.jac_fwd RNum (map pm ps) (map (proj c) a) n).
Definition Jpos (c : axis) : list R :=
  fst (C12.Model.jac_fwd RNum (map pm ps) (map (coord c) ps) n).
Definition JQ (i : nat) : RV3 := (nth_d 0 (Jpos AX) i, nth_d 0 (Jpos AY) i, nth_d 0 (Jpos AZ) i).

Lemma Jacc_closed c (a : list RV3) i : length a = n -> (1 <= i < n)%nat ->
  nth_d 0 (Jacc c a) i =
  proj c (vadd (nth_d vzero a i) (vscale (- / Mf (mass_ ps) i) (VSum (seq 0 i) (fun k => vscale (mass_ ps k) (nth_d vzero a k))))).
Proof.
  intros Hl Hi. unfold Jacc.
  rewrite (map_nth_seq pm (P0 RNum) ps). rewrite (map_nth_seq (proj c) vzero a). rewrite Hl. fold n.
  rewrite (jac_fwd_closed (fun i => pm (nth_d (P0 RNum) ps i)) (fun i => proj c (nth_d vzero a i)) n i HM Hi).
  rewrite proj_vadd, proj_vscale. unfold Rdiv. 
  assert (E : forall j, Sf (fun i0 => pm (nth_d (P0 RNum) ps i0)) (fun i0 => proj c (nth_d vzero a i0)) j
                        = proj c (VSum (seq 0 j) (fun k => vscale (mass_ ps k) (nth_d vzero a k)))).
  { induction j as [|j IH]; [cbn [seq]; rewrite VSum_nil, proj_vzero; reflexivity|].
    cbn [Sf]. rewrite IH, VSum_seq_S, proj_vadd, proj_vscale. reflexivity. }
  rewrite E. unfold mass_, part. ring.
Qed.

Lemma JQ_Qj i : (1 <= i < n)%nat -> JQ i = Qj ps i.
Proof.
  intros Hi. unfold JQ, Jpos, Qj, jq. rewrite Rsum_Sf, Msum_Mf.
  rewrite (map_nth_seq pm (P0 RNum) ps). fold n.
  rewrite !(map_nth_seq (coord _) (P0 RNum) ps). fold n.
  rewrite !(jac_fwd_closed (fun i => pm (nth_d (P0 RNum) ps i)) _ n i HM Hi). reflexivity.
Qed.

Theorem jacobi_eq_basic_plus_whterm (acc0 : list RV3) bx by_ bz tp c i :
  length acc0 = n -> (1 <= i < n)%nat ->
  nth_d 0 (Jacc c (grav_jacobi RNum G n tp ps acc0)) i =
  nth_d 0 (Jacc c (grav_basic RNum G 0 bx by_ bz 0 0 0 1 n tp ps)) i
  + (if (1 <? i)%nat then proj c (vscale (wh_rj3iM G 0 (Mf (mass_ ps) (S i)) (JQ i)) (JQ i)) else 0).
Proof.
  intros Hl Hi.
  assert (LJ : length (grav_jacobi RNum G n tp ps acc0) = n).
  { unfold grav_jacobi. fold n.
    destruct (outer_fold G n tp ps n 0 acc0) as [acc' [st [E [L _]]]].
    change (fold_left (fun s j => ostep G n tp ps j s) (seq 0 n) (acc0, (vzero, 0)) = (acc', st)) in E.
    unfold for_range. replace (n - 0)%nat with n by lia.
    match goal with |- length (fst ?t) = _ => replace t with (acc', st) by (rewrite <- E; reflexivity) end.
    cbn [fst]. transitivity (length acc0); [exact L|exact Hl]. }
  assert (LB : length (grav_basic RNum G 0 bx by_ bz 0 0 0 1 n tp ps) = n).
  { unfold grav_basic, boxes. cbn [zr flat_map map app fold_left]. fold n. rewrite pair_loops_length. apply repeat_length. }
  rewrite !Jacc_closed by assumption.
  (* pointwise: a_JAC[k] = a_BASIC[k] + d_k *)
  assert (P : forall k, (k < n)%nat -> nth_d vzero (grav_jacobi RNum G n tp ps acc0) k =
             vadd (nth_d vzero (grav_basic RNum G 0 bx by_ bz 0 0 0 1 n tp ps) k) (dk G ps k)).
  { intros k Hk. rewrite jacobi_decomp by (fold n; auto).
    rewrite (basic_eq_spec G 0 bx by_ bz 1 n tp ps) by (fold n; lia). rewrite acc_spec_noghost. reflexivity. }
  rewrite P by lia.
  rewrite VSum_ext with (l := seq 0 i) (h := fun k => vadd (vscale (mass_ ps k) (nth_d vzero (grav_basic RNum G 0 bx by_ bz 0 0 0 1 n tp ps) k))
                                                              (vscale (mass_ ps k) (dk G ps k))).
  2:{ intros k Hk. apply in_seq in Hk. rewrite P by lia.
      destruct (nth_d vzero _ k) as [[? ?] ?], (dk G ps k) as [[? ?] ?]. unfold vadd, vscale. f_equal; [f_equal|]; ring. }
  rewrite VSum_vadd.
  set (aB := nth_d vzero (grav_basic RNum G 0 bx by_ bz 0 0 0 1 n tp ps) i).
  set (SB := VSum (seq 0 i) (fun k => vscale (mass_ ps k) (nth_d vzero (grav_basic RNum G 0 bx by_ bz 0 0 0 1 n tp ps) k))).
  pose proof (jacobi_of_terms G ps HM i Hi) as K. fold n in K.
  set (SD := VSum (seq 0 i) (fun k => vscale (mass_ ps k) (dk G ps k))) in *.
  transitivity (proj c (vadd aB (vscale (- / Mf (mass_ ps) i) SB)) + proj c (vscale (Mf (mass_ ps) (S i)) (Tz G ps i))).
  { rewrite <- K. rewrite <- proj_vadd. f_equal.
    destruct aB as [[? ?] ?], SB as [[? ?] ?], SD as [[? ?] ?], (dk G ps i) as [[? ?] ?]. unfold vadd, vscale. f_equal; [f_equal|]; ring. }
  f_equal. unfold Tz. destruct (1 <? i)%nat.
  - rewrite JQ_Qj by exact Hi. rewrite wh_term_Tz. reflexivity.
  - rewrite proj_vscale, proj_vzero. ring.
Qed.
End Final.
