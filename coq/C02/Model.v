(* C02 model: src/gravity.c reb_calculate_acceleration (the non-OPENMP paths, which are what is
   compiled), src/boundary.c reb_boundary_get_ghostbox (OPEN/PERIODIC), and the MERCURIUS changeover
   polynomial of src/integrator_mercurius.c, transcribed loop for loop and in source operation
   order, polymorphic in Num.  Definitions only.

   Particles are records (m,x,y,z); the accelerations are a list of triples that the loops update
   in place (nth_d/upd = array read/write).  `for_range a b f` is `for (i=a; i<b; i++)`.

   All BASIC / MERCURIUS / TRACE branches of the C file are one loop nest
       for i in [starti, N_active):  for j in [startj, i):        pair with back-reaction
       for i in [max(N_active,starti), N_real): for j in [startj, N_active):  pair, back-reaction iff testparticle_type
   that differs only in the start indices, the index map (encounter_map) and how the scalar
   prefactor is formed from _r: [pair_loops] is that nest, the routines are its instances. *)
From Coq Require Import List ZArith Bool.
From RV Require Import Common.Num.
Import ListNotations.

Record Part (T : Type) : Type := mkP { pm : T; px : T; py : T; pz : T }.
Arguments mkP {T} _ _ _ _.
Arguments pm {T} _.
Arguments px {T} _.
Arguments py {T} _.
Arguments pz {T} _.

Definition for_range {S : Type} (a b : nat) (f : nat -> S -> S) (s : S) : S :=
  fold_left (fun s i => f i s) (seq a (b - a)) s.

(* the integers -n, ..., n in increasing order: for (g=-n; g<=n; g++) *)
Fixpoint zr (n : nat) : list Z :=
  match n with
  | O => [0%Z]
  | S k => (Z.neg (Pos.of_succ_nat k)) :: zr k ++ [Z.pos (Pos.of_succ_nat k)]
  end.

Section Grav.
Context {T : Type} (N : Num T).
Local Notation "a + b" := (nadd N a b).
Local Notation "a - b" := (nsub N a b).
Local Notation "a * b" := (nmul N a b).
Local Notation "a / b" := (ndiv N a b).
Local Notation "- a" := (nneg N a).
Local Notation "1" := (none N).
Local Notation "0" := (nzero N).

Definition V3 : Type := (T * T * T)%type.
Definition v0 : V3 := (0, 0, 0).
Definition P0 : Part T := mkP 0 0 0 0.
Definition zeros (n : nat) : list V3 := repeat v0 n.

(* particles[i].a{x,y,z} += c * d{x,y,z} *)
Definition kick (acc : list V3) (i : nat) (c : T) (d : V3) : list V3 :=
  let '(ax, ay, az) := nth_d v0 acc i in
  let '(dx, dy, dz) := d in
  upd acc i (ax + c * dx, ay + c * dy, az + c * dz).
(* particles[i].a{x,y,z} -= c * d{x,y,z} *)
Definition kick_sub (acc : list V3) (i : nat) (c : T) (d : V3) : list V3 :=
  let '(ax, ay, az) := nth_d v0 acc i in
  let '(dx, dy, dz) := d in
  upd acc i (ax - c * dx, ay - c * dy, az - c * dz).

(* MAX(a,b) of gravity.c: ((a) > (b) ? (a) : (b)) *)
Definition fmax (a b : T) : T := if nltb N b a then a else b.

(* separation of particle i (shifted by the ghost box, if the routine has one) from j, and
   _r = sqrt(dx*dx + dy*dy + dz*dz + softening2) *)
Definition sep (gb : option V3) (pi pj : Part T) : V3 :=
  match gb with
  | Some (gx, gy, gz) => ((gx + px pi) - px pj, (gy + py pi) - py pj, (gz + pz pi) - pz pj)
  | None => (px pi - px pj, py pi - py pj, pz pi - pz pj)
  end.
Definition norm_soft (soft2 : T) (d : V3) : T :=
  let '(dx, dy, dz) := d in nsqrt N (dx * dx + dy * dy + dz * dz + soft2).

(* one pair (i,j): pf i j _r = Some prefact, or None for `continue`.
   prefactj = -prefact*m_j ; prefacti = prefact*m_i ; i is kicked, j is kicked iff back. *)
Definition pair_step (pf : nat -> nat -> T -> option T) (back : bool) (gb : option V3) (soft2 : T)
    (ps : list (Part T)) (i j : nat) (acc : list V3) : list V3 :=
  let pi := nth_d P0 ps i in
  let pj := nth_d P0 ps j in
  let d := sep gb pi pj in
  let r := norm_soft soft2 d in
  match pf i j r with
  | None => acc
  | Some prefact =>
      let prefactj := (- prefact) * pm pj in
      let prefacti := prefact * pm pi in
      let acc1 := kick acc i prefactj d in
      if back then kick acc1 j prefacti d else acc1
  end.

(* the loop nest shared by BASIC (per ghost box), MERCURIUS mode 0/1 and TRACE mode 0/1.
   mp: index map (identity, or encounter_map). *)
Definition pair_loops (pf : nat -> nat -> T -> option T) (mp : nat -> nat) (gb : option V3) (soft2 : T)
    (ps : list (Part T)) (tptype : bool) (starti startj nact nreal : nat) (acc : list V3) : list V3 :=
  let acc :=
    for_range starti nact (fun i acc =>
      for_range startj i (fun j acc => pair_step pf true gb soft2 ps (mp i) (mp j) acc) acc) acc in
  let startitestp := Nat.max nact starti in
  for_range startitestp nreal (fun i acc =>
    for_range startj nact (fun j acc => pair_step pf tptype gb soft2 ps (mp i) (mp j) acc) acc) acc.

(* ---------------- ghost boxes (boundary.c, REB_BOUNDARY_OPEN / PERIODIC) ---------------- *)
Definition ghostbox (bx by_ bz : T) (g : Z * Z * Z) : V3 :=
  let '(i, j, k) := g in (bx * nofZ N i, by_ * nofZ N j, bz * nofZ N k).
Definition boxes (nx ny nz : nat) : list (Z * Z * Z) :=
  flat_map (fun i => flat_map (fun j => map (fun k => (i, j, k)) (zr nz)) (zr ny)) (zr nx).

(* ---------------- REB_GRAVITY_NONE ---------------- *)
Definition grav_none (ps : list (Part T)) : list V3 := zeros (length ps).

(* ---------------- REB_GRAVITY_BASIC ---------------- *)
Definition pf_basic (G : T) : nat -> nat -> T -> option T := fun _ _ r => Some (G / (r * r * r)).
Definition starti_of (ign : nat) : nat := match ign with O => 1 | _ => 2 end.
Definition startj_of (ign : nat) : nat := match ign with 2 => 1 | _ => 0 end.

(* nact = _N_active (N_active==-1 already resolved to N), N_var = 0 *)
Definition grav_basic (G soft : T) (bx by_ bz : T) (nx ny nz : nat) (ign : nat) (nact : nat) (tptype : bool)
    (ps : list (Part T)) : list V3 :=
  let soft2 := soft * soft in
  let n := length ps in
  fold_left (fun acc g =>
      pair_loops (pf_basic G) (fun i => i) (Some (ghostbox bx by_ bz g)) soft2 ps tptype
                 (starti_of ign) (startj_of ign) nact n acc)
    (boxes nx ny nz) (zeros n).

(* ---------------- REB_GRAVITY_COMPENSATED ---------------- *)
(* y = i - c ; t = a + y ; c' = (t - a) - y ; a' = t *)
Definition kahan1 (a c i : T) : T * T :=
  let y := i - c in let t := a + y in (t, (t - a) - y).
Definition kkick (st : list V3 * list V3) (i : nat) (c : T) (d : V3) : list V3 * list V3 :=
  let '(acc, cs) := st in
  let '(ax, ay, az) := nth_d v0 acc i in
  let '(cx, cy, cz) := nth_d v0 cs i in
  let '(dx, dy, dz) := d in
  let '(ax', cx') := kahan1 ax cx (c * dx) in
  let '(ay', cy') := kahan1 ay cy (c * dy) in
  let '(az', cz') := kahan1 az cz (c * dz) in
  (upd acc i (ax', ay', az'), upd cs i (cx', cy', cz')).
(* the two `continue` tests of the compensated loops *)
Definition comp_skip (ign i j : nat) : bool :=
  (Nat.eqb ign 1 && ((Nat.eqb j 1 && Nat.eqb i 0) || (Nat.eqb i 1 && Nat.eqb j 0)))
  || (Nat.eqb ign 2 && (Nat.eqb j 0 || Nat.eqb i 0)).
Definition comp_pair (G soft2 : T) (back : bool) (ps : list (Part T)) (i j : nat)
    (st : list V3 * list V3) : list V3 * list V3 :=
  let pi := nth_d P0 ps i in
  let pj := nth_d P0 ps j in
  let '(dx, dy, dz) := sep None pi pj in
  let r2 := dx * dx + dy * dy + dz * dz + soft2 in
  let r := nsqrt N r2 in
  let prefact := G / (r2 * r) in
  let prefacti := prefact * pm pi in
  let prefactj := (- prefact) * pm pj in
  let st1 := kkick st i prefactj (dx, dy, dz) in
  if back then kkick st1 j prefacti (dx, dy, dz) else st1.
Definition grav_compensated (G soft : T) (ign : nat) (nact : nat) (tptype : bool) (ps : list (Part T))
    : list V3 * list V3 :=
  let soft2 := soft * soft in
  let n := length ps in
  let st := (zeros n, zeros n) in
  let st :=
    for_range 0 nact (fun i st =>
      for_range (S i) nact (fun j st =>
        if comp_skip ign i j then st else comp_pair G soft2 true ps i j st) st) st in
  for_range nact n (fun i st =>
    for_range 0 nact (fun j st =>
      if comp_skip ign i j then st else comp_pair G soft2 tptype ps i j st) st) st.

(* ---------------- REB_GRAVITY_JACOBI ---------------- *)
(* state: (acc, (Rjx,Rjy,Rjz), Mj) *)
Definition jac_inner (G : T) (nact : nat) (tptype : bool) (ps : list (Part T)) (j : nat) (Rj : V3) (Mj : T) (i : nat) (acc : list V3)
    : list V3 :=
  let pi := nth_d P0 ps i in
  let pj := nth_d P0 ps j in
  let acc :=
    if Nat.ltb 1 j then
      let '(Rjx, Rjy, Rjz) := Rj in
      let Qjx := px pj - Rjx / Mj in
      let Qjy := py pj - Rjy / Mj in
      let Qjz := pz pj - Rjz / Mj in
      let dr := nsqrt N (Qjx * Qjx + Qjy * Qjy + Qjz * Qjz) in
      let dQjdri := if Nat.ltb i j then - (pm pj) else Mj in
      let prefact := G * dQjdri / (dr * dr * dr) in
      kick acc i prefact (Qjx, Qjy, Qjz)
    else acc in
  if negb (Nat.eqb i j) && (negb (Nat.eqb i 0) || negb (Nat.eqb j 1)) then
    (* if (i>=_N_active) continue;  j_is_testparticle = (j>=_N_active) *)
    if Nat.leb nact i then acc else
    let '(dx, dy, dz) := sep None pi pj in
    let dr := nsqrt N (dx * dx + dy * dy + dz * dz) in
    let prefact := G / (dr * dr * dr) in
    let prefacti := prefact * pm pi in
    let prefactj := prefact * pm pj in
    let acc1 := if negb (Nat.leb nact j) || tptype then kick_sub acc i prefactj (dx, dy, dz) else acc in
    kick acc1 j prefacti (dx, dy, dz)
  else acc.
(* nact = _N_active (N_active == -1 resolved to N) *)
Definition grav_jacobi (G : T) (nact : nat) (tptype : bool) (ps : list (Part T)) (acc0 : list V3) : list V3 :=
  let n := length ps in
  fst (for_range 0 n (fun j (st : list V3 * (V3 * T)) =>
    let '(acc, (Rj, Mj)) := st in
    let acc := upd acc j v0 in
    let acc := for_range 0 (S j) (jac_inner G nact tptype ps j Rj Mj) acc in
    let pj := nth_d P0 ps j in
    let '(Rjx, Rjy, Rjz) := Rj in
    (acc, ((Rjx + pm pj * px pj, Rjy + pm pj * py pj, Rjz + pm pj * pz pj), Mj + pm pj)))
  (acc0, (v0, 0))).

(* ---------------- REB_GRAVITY_MERCURIUS ---------------- *)
(* reb_integrator_mercurius_L_mercury *)
Definition L_mercury (d dcrit : T) : T :=
  let y := (d - ndec N 1 10 * dcrit) / (ndec N 9 10 * dcrit) in
  if nltb N y 0 then 0
  else if nltb N 1 y then 1
  else nofZ N 10 * (y * y * y) - nofZ N 15 * (y * y * y * y) + nofZ N 6 * (y * y * y * y * y).

Definition pf_merc0 (G : T) (Lf : T -> T -> T) (dcrit : nat -> T) : nat -> nat -> T -> option T :=
  fun i j r => let L := Lf r (fmax (dcrit i) (dcrit j)) in Some (G * L / (r * r * r)).
Definition pf_merc1 (G : T) (Lf : T -> T -> T) (dcrit : nat -> T) : nat -> nat -> T -> option T :=
  fun i j r => let L := Lf r (fmax (dcrit i) (dcrit j)) in Some (G * (1 - L) / (r * r * r)).

(* mode 0 (WHFast part) *)
Definition grav_merc0 (G soft : T) (Lf : T -> T -> T) (dcrit : nat -> T) (nact : nat) (tptype : bool)
    (ps : list (Part T)) : list V3 :=
  let n := length ps in
  pair_loops (pf_merc0 G Lf dcrit) (fun i => i) None (soft * soft) ps tptype 2 1 nact n (zeros n).

(* "acceleration due to star" loop of mode 1; starpref _r m0 is the prefactor expression *)
Definition star_loop (starpref : T -> T -> T) (soft2 : T) (mp : nat -> nat) (encN : nat) (ps : list (Part T))
    (acc : list V3) : list V3 :=
  let m0 := pm (nth_d P0 ps 0) in
  for_range 1 encN (fun i acc =>
    let mi := mp i in
    let p := nth_d P0 ps mi in
    let r := norm_soft soft2 (px p, py p, pz p) in
    let prefact := starpref r m0 in
    upd acc mi (prefact * px p, prefact * py p, prefact * pz p)) (upd acc 0 v0).

(* mode 1 (IAS15 part): only particles in the encounter map are written; acc0 = previous contents *)
Definition grav_merc1 (G soft : T) (Lf : T -> T -> T) (dcrit : nat -> T) (emap : list nat) (encN encNact : nat)
    (tptype : bool) (ps : list (Part T)) (acc0 : list V3) : list V3 :=
  let soft2 := soft * soft in
  let mp := nth_d O emap in
  let acc := star_loop (fun r m0 => (- G) / (r * r * r) * m0) soft2 mp encN ps acc0 in
  pair_loops (pf_merc1 G Lf dcrit) mp None soft2 ps tptype 2 1 encNact encN acc.

(* ---------------- REB_GRAVITY_TRACE ---------------- *)
(* Ks i j = (current_Ks[i*N+j] != 0) *)
Definition pf_trace0 (G : T) (Ks : nat -> nat -> bool) : nat -> nat -> T -> option T :=
  fun i j r => if Ks j i then None else Some (G / (r * r * r)).
Definition pf_trace1 (G : T) (Ks : nat -> nat -> bool) : nat -> nat -> T -> option T :=
  fun mi mj r => if Ks mj mi then Some (G / (r * r * r)) else None.
Definition grav_trace0 (G soft : T) (Ks : nat -> nat -> bool) (nact : nat) (tptype : bool) (ps : list (Part T))
    : list V3 :=
  let n := length ps in
  pair_loops (pf_trace0 G Ks) (fun i => i) None (soft * soft) ps tptype 2 1 nact n (zeros n).
Definition grav_trace1 (G soft : T) (Ks : nat -> nat -> bool) (emap : list nat) (encN encNact : nat)
    (tptype : bool) (ps : list (Part T)) (acc0 : list V3) : list V3 :=
  let soft2 := soft * soft in
  let mp := nth_d O emap in
  let acc := star_loop (fun r m0 => (- G) * m0 / (r * r * r)) soft2 mp encN ps acc0 in
  pair_loops (pf_trace1 G Ks) mp None soft2 ps tptype 2 1 encNact encN acc.
(* reb_integrator_mercurius_L_C4 / L_C5 (changeover functions of Hernandez 2019) *)
Definition L_C4 (d dcrit : T) : T :=
  let y := (d - ndec N 1 10 * dcrit) / (ndec N 9 10 * dcrit) in
  if nltb N y 0 then 0
  else if nltb N 1 y then 1
  else (nofZ N 70 * y * y * y * y - nofZ N 315 * y * y * y + nofZ N 540 * y * y - nofZ N 420 * y + nofZ N 126)
       * y * y * y * y * y.
Definition L_C5 (d dcrit : T) : T :=
  let y := (d - ndec N 1 10 * dcrit) / (ndec N 9 10 * dcrit) in
  if nltb N y 0 then 0
  else if nltb N 1 y then 1
  else (nofZ N (-252) * y * y * y * y * y + nofZ N 1386 * y * y * y * y - nofZ N 3080 * y * y * y
        + nofZ N 3465 * y * y - nofZ N 1980 * y + nofZ N 462) * y * y * y * y * y * y.
(* reb_integrator_mercurius_L_infinity.  libm's exp is not modelled: e1 and e2 are oracle arguments standing for
   exp(-1./y) and exp(-1./(1.-y)) (static double f(double x){ if (x<0) return 0; return exp(-1./x); }) *)
Definition f_inf (x e : T) : T := if nltb N x 0 then 0 else e.
Definition L_infinity (e1 e2 : T) (d dcrit : T) : T :=
  let y := (d - ndec N 1 10 * dcrit) / (ndec N 9 10 * dcrit) in
  if nltb N y 0 then 0
  else if nltb N 1 y then 1
  else f_inf y e1 / (f_inf y e1 + f_inf (1 - y) e2).
(* the argument y of the changeover functions (what the harness feeds to exp) *)
Definition L_arg (d dcrit : T) : T := (d - ndec N 1 10 * dcrit) / (ndec N 9 10 * dcrit).
End Grav.
