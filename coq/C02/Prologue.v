(* C02: the prologue of reb_calculate_acceleration (regenerated: Gen/GravPrologue.v).  Semantics of the three statement
   kinds, and the theorem: for every gravity value and every integrator value of rebound.h, the routine that the switch
   dispatches on is the value of r->gravity AFTER the fallback rules (MERCURIUS / JACOBI / TRACE gravity with an integrator that does not own it -> BASIC), and that is also what r->gravity holds when the switch is reached.  A prologue that dispatches on a local read
   before the rule makes the theorem false. *)
From Coq Require Import ZArith List Bool.
From RV Require Import Gen.GravPrologue.
Import ListNotations.
Open Scope Z_scope.

(* state: r->gravity and the locals read from it *)
Definition pstate : Type := (Z * list (nat * Z))%type.
Fixpoint lookup (n : nat) (l : list (nat * Z)) : option Z :=
  match l with [] => None | (k, v) :: r => if Nat.eqb k n then Some v else lookup n r end.
Definition eval_sel (s : psel) (st : pstate) : option Z :=
  match s with Field => Some (fst st) | Local n => lookup n (snd st) end.

Definition exec1 (integ : Z) (st : pstate) (c : pstmt) : option pstate :=
  match c with
  | SOther => Some st
  | SRead n => Some (fst st, (n, fst st) :: snd st)
  | SRule s ixs gy gz =>
      match eval_sel s st with
      | None => None
      | Some g => if forallb (fun ix => negb (integ =? ix)) ixs && (g =? gy) then Some (gz, snd st) else Some st
      end
  end.
Fixpoint exec (integ : Z) (st : pstate) (l : list pstmt) : option pstate :=
  match l with [] => Some st | c :: r => match exec1 integ st c with None => None | Some st' => exec integ st' r end end.

(* the selection rules as a function of r->gravity: the fallback rules of the prologue, each reading and writing the FIELD,
   applied in source order (which locals the C text routes the value through is deliberately not part of this) *)
Definition rule (integ g : Z) : Z :=
  fold_left (fun g c => match c with
                        | SRule _ ixs gy gz => if forallb (fun ix => negb (integ =? ix)) ixs && (g =? gy) then gz else g
                        | _ => g
                        end) prologue g.

(* (value dispatched on, r->gravity at the switch) *)
Definition dispatched (integ g : Z) : option (Z * Z) :=
  match exec integ (g, []) prologue with
  | None => None
  | Some st => match eval_sel dispatch_on st with None => None | Some d => Some (d, fst st) end
  end.

Definition prologue_ok : bool :=
  forallb (fun integ => forallb (fun g =>
     match dispatched integ g with
     | Some (d, f) => (d =? rule integ g) && (f =? rule integ g)
     | None => false
     end) gravity_values) integrator_values.

Theorem dispatch_is_post_rule : prologue_ok = true.
Proof. vm_compute. reflexivity. Qed.

Theorem dispatch_is_post_rule_all integ g : In integ integrator_values -> In g gravity_values ->
  dispatched integ g = Some (rule integ g, rule integ g).
Proof.
  intros Hi Hg. pose proof dispatch_is_post_rule as H. unfold prologue_ok in H.
  rewrite forallb_forall in H. specialize (H integ Hi). rewrite forallb_forall in H. specialize (H g Hg).
  destruct (dispatched integ g) as [[d f]|]; [|discriminate].
  apply andb_prop in H. destruct H as [H1 H2]. apply Z.eqb_eq in H1, H2. now subst.
Qed.
