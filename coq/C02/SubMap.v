(* C02: MERCURIUS mode 1 / TRACE Kepler mode with a PROPER encounter sub-map.  The routines address the particles through
   encounter_map; restricted to the mapped indices they compute exactly what the same routine computes, with the identity
   map, on the gathered sub-system (particles, dcrit / K matrix and accelerations gathered through the map), and they leave
   every other particle's acceleration untouched.  Hence for every pair of the sub-map L*F + (1-L)*F = F: the
   changeover-weighted force of the sub-system (mode 0 loops on the sub-system) plus the mode-1 force equals star term +
   full pair sum of the sub-system, for every L, dcrit, K matrix and any N. *)
From Coq Require Import List ZArith Bool Reals Lra Lia PeanoNat.
From RV Require Import Common.Num Common.RealNum C02.Model C02.Sums C02.Loops C02.Spec C02.Basic C02.Merc.
Import ListNotations.
Open Scope R_scope.

Lemma nth_map_seq0 {B} (d : B) (f : nat -> B) k : forall a i, (i < k)%nat -> nth_d d (map f (seq a k)) i = f (a + i)%nat.
Proof.
  induction k as [|k IH]; intros a i Hi; [lia|]. destruct i; cbn [seq map nth_d].
  - now rewrite Nat.add_0_r.
  - rewrite IH by lia. f_equal. lia.
Qed.

Section Gather.
Variable mp : nat -> nat.
Variable nr : nat.
Hypothesis Hinj : forall a b, (a < nr)%nat -> (b < nr)%nat -> mp a = mp b -> a = b.

Definition gather {A} (d : A) (l : list A) : list A := map (fun a => nth_d d l (mp a)) (seq 0 nr).
Lemma gather_length {A} (d : A) l : length (gather d l) = nr.
Proof. unfold gather. now rewrite map_length, seq_length. Qed.
Lemma gather_nth {A} (d : A) l a : (a < nr)%nat -> nth_d d (gather d l) a = nth_d d l (mp a).
Proof. intros H. unfold gather. now rewrite nth_map_seq0. Qed.

Lemma eqb_inj a b : (a < nr)%nat -> (b < nr)%nat -> (mp a =? mp b)%nat = (a =? b)%nat.
Proof.
  intros Ha Hb. destruct (Nat.eqb_spec (mp a) (mp b)) as [E|E], (Nat.eqb_spec a b) as [F|F]; try reflexivity.
  - elim F. now apply Hinj.
  - subst. now elim E.
Qed.

Variable pf : nat -> nat -> R -> option R.
Variable gb : option RV3.
Variable soft2 : R.
Variable ps : list (Part R).
Let ps' := gather (P0 RNum) ps.
Let pf' : nat -> nat -> R -> option R := fun i j r => pf (mp i) (mp j) r.

Definition mapq (q : nat * nat * bool) : nat * nat * bool := let '(i, j, b) := q in (mp i, mp j, b).

Lemma rows_run_mp bk sj a b up (acc : list RV3) :
  fold_left (fun acc q => step3 pf gb soft2 ps acc (mapq q)) (rows bk sj a b up) acc =
  for_range a b (fun i acc => for_range sj (up i) (fun j acc => pair_step RNum pf bk gb soft2 ps (mp i) (mp j) acc) acc) acc.
Proof.
  unfold rows, for_range. rewrite fold_left_flat_map. apply fold_left_ext. intros s i _.
  rewrite fold_left_map. reflexivity.
Qed.
Lemma pair_loops_run_mp tp si sj na (acc : list RV3) :
  pair_loops RNum pf mp gb soft2 ps tp si sj na nr acc = fold_left (step3 pf gb soft2 ps) (map mapq (pairs_of tp si sj na nr)) acc.
Proof. rewrite fold_left_map. unfold pair_loops, pairs_of. rewrite fold_left_app, !rows_run_mp. reflexivity. Qed.

Lemma pairs_of_bounds tp si sj na i j b : (na <= nr)%nat ->
  In (i, j, b) (pairs_of tp si sj na nr) -> (i < nr)%nat /\ (j < nr)%nat.
Proof.
  intros Hna Hin. unfold pairs_of, rows in Hin. apply in_app_or in Hin. destruct Hin as [Hin|Hin];
    apply in_flat_map in Hin; destruct Hin as [i' [Hi' Hin]]; apply in_map_iff in Hin;
    destruct Hin as [j' [Heq Hj']]; inversion Heq; subst; apply in_seq in Hi'; apply in_seq in Hj'; lia.
Qed.

Lemma terms_gather i j : (i < nr)%nat -> (j < nr)%nat ->
  Aterm pf gb soft2 ps (mp i) (mp j) = Aterm pf' gb soft2 ps' i j /\
  Bterm pf gb soft2 ps (mp i) (mp j) = Bterm pf' gb soft2 ps' i j.
Proof.
  intros Hi Hj. unfold Aterm, Bterm, pref, dvec, mass, part, pf', ps'. rewrite !gather_nth by assumption. split; reflexivity.
Qed.

(* mapped indices: the same as the identity-map nest on the gathered sub-system *)
Theorem pair_loops_gather tp si sj na (acc : list RV3) a :
  (na <= nr)%nat -> (a < nr)%nat -> (forall c, (c < nr)%nat -> (mp c < length acc)%nat) ->
  nth_d vzero (pair_loops RNum pf mp gb soft2 ps tp si sj na nr acc) (mp a) =
  nth_d vzero (pair_loops RNum pf' (fun i => i) gb soft2 ps' tp si sj na nr (gather vzero acc)) a.
Proof.
  intros Hna Ha Hlen. rewrite pair_loops_run_mp, pair_loops_run.
  rewrite run_pairs_nth by (apply Hlen; exact Ha). rewrite run_pairs_nth by (rewrite gather_length; exact Ha).
  rewrite gather_nth by exact Ha. f_equal. rewrite VSum_map. apply VSum_ext.
  intros [[i j] b] Hin. destruct (pairs_of_bounds _ _ _ _ _ _ _ Hna Hin) as [Hi Hj].
  cbn [mapq contrib3]. unfold contrib. rewrite !eqb_inj by assumption.
  destruct (terms_gather i j Hi Hj) as [-> ->]. reflexivity.
Qed.

(* every other particle is untouched *)
Theorem pair_loops_outside tp si sj na (acc : list RV3) k :
  (na <= nr)%nat -> (k < length acc)%nat -> (forall c, (c < nr)%nat -> mp c <> k) ->
  nth_d vzero (pair_loops RNum pf mp gb soft2 ps tp si sj na nr acc) k = nth_d vzero acc k.
Proof.
  intros Hna Hk Hout. rewrite pair_loops_run_mp, run_pairs_nth by exact Hk. rewrite VSum_map.
  rewrite VSum_ext with (h := fun _ => vzero); [rewrite VSum_zero; apply vadd_0_r|].
  intros [[i j] b] Hin. destruct (pairs_of_bounds _ _ _ _ _ _ _ Hna Hin) as [Hi Hj].
  cbn [mapq contrib3]. unfold contrib.
  destruct (Nat.eqb_spec k (mp i)) as [E|_]; [elim (Hout i Hi); auto|].
  destruct (Nat.eqb_spec k (mp j)) as [E|_]; [elim (Hout j Hj); auto|].
  rewrite andb_false_r. apply vadd_0_l.
Qed.

(* ---- the "acceleration due to star" loop ---- *)
Variable sp : R -> R -> R.
Hypothesis Hmp0 : mp 0%nat = 0%nat.
Hypothesis Hnr : (1 <= nr)%nat.

Definition star_val (p : Part R) (m0 : R) : RV3 :=
  let r := norm_soft RNum soft2 (px p, py p, pz p) in
  let prefact := sp r m0 in (prefact * px p, prefact * py p, prefact * pz p).

Lemma star_fold l : forall (acc : list RV3),
  NoDup (map mp l) -> (forall c, In c l -> (mp c < length acc)%nat) ->
  let res := fold_left (fun acc i => upd acc (mp i) (star_val (nth_d (P0 RNum) ps (mp i)) (pm (nth_d (P0 RNum) ps 0)))) l acc in
  length res = length acc /\
  (forall c, In c l -> nth_d vzero res (mp c) = star_val (nth_d (P0 RNum) ps (mp c)) (pm (nth_d (P0 RNum) ps 0))) /\
  (forall k, ~ In k (map mp l) -> nth_d vzero res k = nth_d vzero acc k).
Proof.
  induction l as [|x l IH]; intros acc Hnd Hlen; cbn [fold_left].
  - cbn. repeat split; auto. intros c [].
  - cbn [map] in Hnd. inversion Hnd as [|? ? Hx Hnd']; subst.
    set (acc1 := upd acc (mp x) _).
    destruct (IH acc1 Hnd') as (L & Hin & Hout).
    { intros c Hc. unfold acc1. rewrite upd_length. apply Hlen. now right. }
    cbv zeta. split; [rewrite L; unfold acc1; apply upd_length|]. split.
    + intros c [->|Hc].
      * rewrite Hout by exact Hx. unfold acc1. rewrite nth_upd by (apply Hlen; now left). now rewrite Nat.eqb_refl.
      * now apply Hin.
    + intros k Hk. cbn [map In] in Hk. rewrite Hout by tauto. unfold acc1.
      destruct (Nat.lt_ge_cases k (length acc)) as [Hlt|Hge].
      * rewrite nth_upd by exact Hlt. destruct (Nat.eqb_spec k (mp x)); [subst; tauto|reflexivity].
      * assert (E : forall (l0 : list RV3) i v, (length l0 <= k)%nat -> nth_d vzero (upd l0 i v) k = nth_d vzero l0 k).
        { clear. intros l0. revert k. induction l0 as [|y l0 IH]; intros k i v H; [reflexivity|].
          destruct i, k; cbn in *; try lia; auto. apply IH. lia. }
        now apply E.
Qed.

Lemma NoDup_map_seq a m : (a + m <= nr)%nat -> NoDup (map mp (seq a m)).
Proof.
  revert a; induction m as [|m IH]; intros a H; cbn [seq map]; constructor.
  - intros Hin. apply in_map_iff in Hin. destruct Hin as [c [E Hc]]. apply in_seq in Hc.
    assert (c = a) by (apply Hinj; lia). lia.
  - apply IH. lia.
Qed.

Lemma star_loop_R (acc : list RV3) :
  star_loop RNum sp soft2 mp nr ps acc =
  fold_left (fun acc i => upd acc (mp i) (star_val (nth_d (P0 RNum) ps (mp i)) (pm (nth_d (P0 RNum) ps 0)))) (seq 1 (nr - 1))
            (upd acc 0 vzero).
Proof. reflexivity. Qed.

Theorem star_loop_gather (acc : list RV3) a :
  (a < nr)%nat -> (forall c, (c < nr)%nat -> (mp c < length acc)%nat) ->
  nth_d vzero (star_loop RNum sp soft2 mp nr ps acc) (mp a) =
  nth_d vzero (star_loop RNum sp soft2 (fun i => i) nr ps' (gather vzero acc)) a.
Proof.
  intros Ha Hlen.
  assert (Hinj' : forall a b, (a < nr)%nat -> (b < nr)%nat -> (fun i : nat => i) a = (fun i : nat => i) b -> a = b) by auto.
  rewrite star_loop_R.
  destruct (star_fold (seq 1 (nr - 1)) (upd acc 0 vzero)) as (L & Hin & Hout).
  { apply NoDup_map_seq. lia. } { intros c Hc. apply in_seq in Hc. rewrite upd_length. apply Hlen. lia. }
  (* right-hand side: the same fold with the identity map on the gathered system *)
  assert (R0 : star_loop RNum sp soft2 (fun i => i) nr ps' (gather vzero acc) =
     fold_left (fun acc i => upd acc i (star_val (nth_d (P0 RNum) ps' i) (pm (nth_d (P0 RNum) ps' 0)))) (seq 1 (nr - 1))
               (upd (gather vzero acc) 0 vzero)) by reflexivity.
  rewrite R0. clear R0.
  assert (FR : forall l (acc' : list RV3), NoDup l -> (forall c, In c l -> (c < length acc')%nat) ->
     let res := fold_left (fun acc i => upd acc i (star_val (nth_d (P0 RNum) ps' i) (pm (nth_d (P0 RNum) ps' 0)))) l acc' in
     (forall c, In c l -> nth_d vzero res c = star_val (nth_d (P0 RNum) ps' c) (pm (nth_d (P0 RNum) ps' 0))) /\
     (forall k, ~ In k l -> nth_d vzero res k = nth_d vzero acc' k)).
  { induction l as [|x l IH]; intros acc' Hnd Hl; cbn [fold_left]; [split; [intros c []|auto]|].
    inversion Hnd as [|? ? Hx Hnd']; subst.
    destruct (IH (upd acc' x (star_val (nth_d (P0 RNum) ps' x) (pm (nth_d (P0 RNum) ps' 0)))) Hnd') as (Hi & Ho).
    { intros c Hc. rewrite upd_length. apply Hl. now right. }
    cbv zeta. split.
    - intros c [->|Hc]; [|now apply Hi]. rewrite Ho by exact Hx. rewrite nth_upd by (apply Hl; now left). now rewrite Nat.eqb_refl.
    - intros k Hk. cbn [In] in Hk. rewrite Ho by tauto.
      destruct (Nat.lt_ge_cases k (length acc')) as [Hlt|Hge].
      + rewrite nth_upd by exact Hlt. destruct (Nat.eqb_spec k x); [subst; tauto|reflexivity].
      + assert (E : forall (l0 : list RV3) i v, (length l0 <= k)%nat -> nth_d vzero (upd l0 i v) k = nth_d vzero l0 k).
        { clear. intros l0. revert k. induction l0 as [|y l0 IH]; intros k i v H; [reflexivity|].
          destruct i, k; cbn in *; try lia; auto. apply IH. lia. }
        now apply E. }
  destruct (FR (seq 1 (nr - 1)) (upd (gather vzero acc) 0 vzero)) as (Hin' & Hout').
  { apply seq_NoDup. } { intros c Hc. apply in_seq in Hc. rewrite upd_length, gather_length. lia. }
  cbv zeta in *.
  destruct a as [|a].
  - (* the star: zeroed on both sides *)
    rewrite Hmp0. rewrite Hout.
    + rewrite Hout' by (intros Hc; apply in_seq in Hc; lia).
      rewrite !nth_upd; [reflexivity|rewrite gather_length; lia|]. rewrite <- Hmp0. apply Hlen. lia.
    + intros Hc. apply in_map_iff in Hc. destruct Hc as [c [E Hc]]. apply in_seq in Hc.
      rewrite <- Hmp0 in E. apply Hinj in E; lia.
  - rewrite Hin by (apply in_seq; lia). rewrite Hin' by (apply in_seq; lia).
    unfold ps'. rewrite !gather_nth by lia. rewrite Hmp0. reflexivity.
Qed.

Theorem star_loop_outside (acc : list RV3) k :
  (k < length acc)%nat -> (forall c, (c < nr)%nat -> (mp c < length acc)%nat) -> (forall c, (c < nr)%nat -> mp c <> k) ->
  nth_d vzero (star_loop RNum sp soft2 mp nr ps acc) k = nth_d vzero acc k.
Proof.
  intros Hk Hlen Hout0. rewrite star_loop_R.
  destruct (star_fold (seq 1 (nr - 1)) (upd acc 0 vzero)) as (L & Hin & Hout).
  { apply NoDup_map_seq. lia. }
  { intros c Hc. apply in_seq in Hc. rewrite upd_length. apply Hlen. lia. }
  cbv zeta in *. rewrite Hout.
  - rewrite nth_upd by exact Hk. destruct (Nat.eqb_spec k 0) as [->|]; [|reflexivity].
    elim (Hout0 0%nat); [lia|exact Hmp0].
  - intros Hc. apply in_map_iff in Hc. destruct Hc as [c [E Hc]]. apply in_seq in Hc. apply (Hout0 c); [lia|exact E].
Qed.
End Gather.

Lemma list_ext_nth {A} (d : A) : forall l1 l2 : list A, length l1 = length l2 ->
  (forall i, (i < length l1)%nat -> nth_d d l1 i = nth_d d l2 i) -> l1 = l2.
Proof.
  induction l1 as [|x l1 IH]; intros [|y l2] Hl H; cbn in Hl; try lia; [reflexivity|].
  f_equal; [apply (H 0%nat); cbn; lia|]. apply IH; [lia|]. intros i Hi. apply (H (S i)). cbn. lia.
Qed.

Lemma star_loop_mp_ext sp soft2 mp encN ps (acc : list RV3) :
  (forall i, (i < encN)%nat -> mp i = i) ->
  star_loop RNum sp soft2 mp encN ps acc = star_loop RNum sp soft2 (fun i => i) encN ps acc.
Proof.
  intros H. unfold star_loop, for_range. apply fold_left_ext. intros s i Hi. apply in_seq in Hi. rewrite H by lia. reflexivity.
Qed.

Section SubParts.
Variables (G soft : R) (emap : list nat) (encN encNact : nat) (tp : bool) (ps : list (Part R)) (acc0 : list RV3).
Let mp := nth_d 0%nat emap.
Let n := length ps.
Hypothesis Hinj : forall a b, (a < encN)%nat -> (b < encN)%nat -> mp a = mp b -> a = b.
Hypothesis Hmp0 : mp 0%nat = 0%nat.
Hypothesis HencN : (1 <= encN)%nat.
Hypothesis Hact : (encNact <= encN)%nat.
Hypothesis Hrange : forall c, (c < encN)%nat -> (mp c < n)%nat.
Hypothesis Hlen : length acc0 = n.

(* the gathered sub-system *)
Definition sub_ps : list (Part R) := gather mp encN (P0 RNum) ps.
Definition sub_acc : list RV3 := gather mp encN vzero acc0.

(* generic: star loop + nest through the map = the same on the sub-system with the identity list map *)
Lemma submap_gather (pf : nat -> nat -> R -> option R) (sp : R -> R -> R) a : (a < encN)%nat ->
  nth_d vzero (pair_loops RNum pf mp None (soft * soft) ps tp 2 1 encNact encN (star_loop RNum sp (soft * soft) mp encN ps acc0)) (mp a) =
  nth_d vzero (pair_loops RNum (fun i j r => pf (mp i) (mp j) r) (nth_d 0%nat (seq 0 encN)) None (soft * soft) sub_ps tp 2 1 encNact encN
                 (star_loop RNum sp (soft * soft) (nth_d 0%nat (seq 0 encN)) encN sub_ps sub_acc)) a.
Proof.
  intros Ha.
  assert (Hl1 : forall c, (c < encN)%nat -> (mp c < length (star_loop RNum sp (soft * soft)%R mp encN ps acc0))%nat).
  { intros c Hc. rewrite star_loop_length, Hlen. now apply Hrange. }
  rewrite (pair_loops_gather mp encN Hinj) by assumption.
  rewrite (pair_loops_mp_ext _ (nth_d 0%nat (seq 0 encN))) by (auto; intros; now apply nth_d_seq).
  rewrite (star_loop_mp_ext _ _ (nth_d 0%nat (seq 0 encN))) by (intros; now apply nth_d_seq).
  f_equal. f_equal. apply (list_ext_nth vzero).
  - rewrite gather_length, star_loop_length. unfold sub_acc. now rewrite gather_length.
  - intros i Hi. rewrite gather_length in Hi. rewrite gather_nth by exact Hi.
    apply (star_loop_gather mp encN Hinj pf (soft * soft) ps sp Hmp0 HencN acc0 i Hi).
    intros c Hc. rewrite Hlen. now apply Hrange.
Qed.

Lemma submap_outside (pf : nat -> nat -> R -> option R) (sp : R -> R -> R) k : (k < n)%nat -> (forall c, (c < encN)%nat -> mp c <> k) ->
  nth_d vzero (pair_loops RNum pf mp None (soft * soft) ps tp 2 1 encNact encN (star_loop RNum sp (soft * soft) mp encN ps acc0)) k =
  nth_d vzero acc0 k.
Proof.
  intros Hk Hout.
  rewrite (pair_loops_outside mp encN) by (rewrite ?star_loop_length, ?Hlen; assumption).
  apply (star_loop_outside mp encN Hinj pf (soft * soft) ps sp Hmp0 HencN); rewrite ?Hlen; assumption.
Qed.

(* ---- MERCURIUS ---- *)
Variables (Lf : R -> R -> R) (dcrit : nat -> R).
Definition sub_dcrit : nat -> R := fun c => dcrit (mp c).

Theorem merc1_submap_gather a : (a < encN)%nat ->
  nth_d vzero (grav_merc1 RNum G soft Lf dcrit emap encN encNact tp ps acc0) (mp a) =
  nth_d vzero (grav_merc1 RNum G soft Lf sub_dcrit (seq 0 encN) encN encNact tp sub_ps sub_acc) a.
Proof. intros Ha. unfold grav_merc1. cbn [nmul RNum]. fold mp. now apply submap_gather. Qed.

Theorem merc1_submap_outside k : (k < n)%nat -> (forall c, (c < encN)%nat -> mp c <> k) ->
  nth_d vzero (grav_merc1 RNum G soft Lf dcrit emap encN encNact tp ps acc0) k = nth_d vzero acc0 k.
Proof. intros Hk Ho. unfold grav_merc1. cbn [nmul RNum]. fold mp. now apply submap_outside. Qed.

(* L*F + (1-L)*F = F for every pair of the sub-map *)
Theorem mercurius_submap_parts_sum a : (a < encN)%nat ->
  vadd (nth_d vzero (grav_merc0 RNum G soft Lf sub_dcrit encNact tp sub_ps) a)
       (nth_d vzero (grav_merc1 RNum G soft Lf dcrit emap encN encNact tp ps acc0) (mp a))
  = nth_d vzero (pair_loops RNum (pf_basic RNum G) (fun i => i) None (soft * soft) sub_ps tp 2 1 encNact encN
                   (star_loop RNum (fun r m0 => - G / (r * r * r) * m0) (soft * soft) (nth_d 0%nat (seq 0 encN)) encN sub_ps sub_acc)) a.
Proof.
  intros Ha. rewrite merc1_submap_gather by exact Ha.
  assert (L : length sub_ps = encN) by apply gather_length.
  pose proof (mercurius_parts_sum G soft Lf sub_dcrit encNact tp sub_ps sub_acc a) as H. cbv zeta in H. rewrite L in H.
  apply H; [exact Hact|exact Ha|apply gather_length].
Qed.

(* ---- TRACE ---- *)
Variable Ks : nat -> nat -> bool.
Definition sub_Ks : nat -> nat -> bool := fun a b => Ks (mp a) (mp b).

Theorem trace1_submap_gather a : (a < encN)%nat ->
  nth_d vzero (grav_trace1 RNum G soft Ks emap encN encNact tp ps acc0) (mp a) =
  nth_d vzero (grav_trace1 RNum G soft sub_Ks (seq 0 encN) encN encNact tp sub_ps sub_acc) a.
Proof. intros Ha. unfold grav_trace1. cbn [nmul RNum]. fold mp. now apply submap_gather. Qed.

Theorem trace1_submap_outside k : (k < n)%nat -> (forall c, (c < encN)%nat -> mp c <> k) ->
  nth_d vzero (grav_trace1 RNum G soft Ks emap encN encNact tp ps acc0) k = nth_d vzero acc0 k.
Proof. intros Hk Ho. unfold grav_trace1. cbn [nmul RNum]. fold mp. now apply submap_outside. Qed.

Theorem trace_submap_parts_sum a : (a < encN)%nat ->
  vadd (nth_d vzero (grav_trace0 RNum G soft sub_Ks encNact tp sub_ps) a)
       (nth_d vzero (grav_trace1 RNum G soft Ks emap encN encNact tp ps acc0) (mp a))
  = nth_d vzero (pair_loops RNum (pf_basic RNum G) (fun i => i) None (soft * soft) sub_ps tp 2 1 encNact encN
                   (star_loop RNum (fun r m0 => - G * m0 / (r * r * r)) (soft * soft) (nth_d 0%nat (seq 0 encN)) encN sub_ps sub_acc)) a.
Proof.
  intros Ha. rewrite trace1_submap_gather by exact Ha.
  assert (L : length sub_ps = encN) by apply gather_length.
  pose proof (trace_parts_sum G soft sub_Ks encNact tp sub_ps sub_acc a) as H. cbv zeta in H. rewrite L in H.
  apply H; [exact Hact|exact Ha|apply gather_length].
Qed.
End SubParts.
