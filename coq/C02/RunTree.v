(* C02: binary64 instance of the tree-gravity model with list glue for the correspondence cases. *)
From Coq Require Import List ZArith Bool PrimFloat.
From RV Require Import Common.Num Common.FloatNum C02.Model C02.TreeModel.
From RV Require Import C15.Tree.
Import ListNotations.

Definition partf (l : list (float * float * float * float)) : nat -> float * float * float * float :=
  fun i => nth_d (zero, zero, zero, zero) l i.

(* accelerations of all particles, then (m, mx, my, mz) of every cell of every root in pre-order *)
Definition runTree G soft theta2 bx by_ bz nx ny nz root_size (roots : list (option cell))
    (parts : list (float * float * float * float)) : list float :=
  let part := partf parts in
  flat_map (fun v => let '(a, b, c) := v in [a; b; c])
    (grav_tree FNum part G (PrimFloat.mul soft soft) theta2 bx by_ bz nx ny nz root_size roots (length parts))
  ++ flat_map (fun o => match o with
                        | None => []
                        | Some t => flat_map (fun g => let '(m, mx, my, mz) := g in [m; mx; my; mz]) (gall FNum part t)
                        end) roots.
