(* C02: the loop nest of gravity.c with all particles active IS a C04 pair list with back-reaction
   (C04.Model.pair_force), so C04's pair_force_zero applies to the real loops: zero net force and zero
   net torque (sum m_i x_i x a_i = 0) for BASIC without ghost boxes, and for the MERCURIUS / TRACE
   interaction parts, for every prefactor function. *)
From Coq Require Import List ZArith Bool Reals Lra Lia PeanoNat.
From RV Require Import Common.Num Common.RealNum C02.Model C02.Sums C02.Loops C02.Spec.
From RV Require C04.Model C04.Proofs.
Import ListNotations.
Open Scope R_scope.

Definition lift (p : Part R) : C04.Model.part (T := R) := C04.Model.mkPart (pm p) (px p) (py p) (pz p) 0 0 0.

Lemma nth_d_map {A B} (f : A -> B) (d : A) (l : list A) i : nth_d (f d) (map f l) i = f (nth_d d l i).
Proof. revert i; induction l as [|x l IH]; intros [|i]; cbn; auto. Qed.

Section Bridge.
Variable pf : nat -> nat -> R -> option R.
Variable soft2 : R.
Variable ps : list (Part R).

Definition cpair (q : nat * nat * bool) : list (nat * nat * R) :=
  let '(i, j, _) := q in
  match pref pf None soft2 ps i j with Some p => [(i, j, p)] | None => [] end.

Lemma pair_step_c04 i j (acc : list RV3) :
  fold_left (C04.Model.pair_acc RNum (map lift ps)) (cpair (i, j, true)) acc =
  pair_step RNum pf true None soft2 ps i j acc.
Proof.
  unfold cpair, pair_step, pref, dvec, part.
  destruct (pf i j _) as [p|]; [|reflexivity]. cbn [fold_left].
  unfold C04.Model.pair_acc.
  change (C04.Model.p0 RNum) with (lift (P0 RNum)). rewrite !nth_d_map.
  unfold kick, sep. cbn [lift C04.Model.pm C04.Model.px C04.Model.py C04.Model.pz].
  change (v0 RNum) with (nzero RNum, nzero RNum, nzero RNum).
  unfold V3, C04.Model.vec, RV3 in *.
  destruct (nth_d (nzero RNum, nzero RNum, nzero RNum) acc i) as [[ax ay] az].
  reflexivity.
Qed.

Lemma run_c04 l : forall acc : list RV3, (forall i j b, In (i, j, b) l -> b = true) ->
  fold_left (step3 pf None soft2 ps) l acc =
  fold_left (C04.Model.pair_acc RNum (map lift ps)) (flat_map cpair l) acc.
Proof.
  induction l as [|[[i j] b] l IH]; intros acc H; cbn [fold_left flat_map]; [reflexivity|].
  rewrite fold_left_app. rewrite (H i j b (or_introl eq_refl)). rewrite pair_step_c04.
  cbn [step3]. apply IH. intros; eapply H; right; eauto.
Qed.

Lemma cpair_valid n l :
  (forall i j b, In (i, j, b) l -> (i < n)%nat /\ (j < n)%nat /\ i <> j) ->
  Forall (C04.Proofs.valid_pair n) (flat_map cpair l).
Proof.
  intros H. apply Forall_forall. intros [[i j] p] Hin. apply in_flat_map in Hin.
  destruct Hin as [[[i' j'] b] [Hq Hin]]. unfold cpair in Hin.
  destruct (pref pf None soft2 ps i' j'); [|destruct Hin].
  destruct Hin as [E|[]]. inversion E; subst. unfold C04.Proofs.valid_pair. eapply H; eauto.
Qed.

Lemma pairs_all_active tp si sj n :
  forall i j b, In (i, j, b) (pairs_of tp si sj n n) -> b = true /\ (i < n)%nat /\ (j < n)%nat /\ i <> j.
Proof.
  intros i j b Hin. unfold pairs_of, rows in Hin. apply in_app_or in Hin. destruct Hin as [Hin|Hin].
  - apply in_flat_map in Hin. destruct Hin as [i' [Hi' Hin]]. apply in_map_iff in Hin.
    destruct Hin as [j' [Heq Hj']]. inversion Heq; subst. apply in_seq in Hi'. apply in_seq in Hj'. repeat split; lia.
  - apply in_flat_map in Hin. destruct Hin as [i' [Hi' Hin]]. apply in_seq in Hi'. lia.
Qed.

(* all particles active: the nest started from zero is a C04 pair force *)
Theorem nest_is_pair_force tp si sj :
  let n := length ps in
  pair_loops RNum pf (fun i => i) None soft2 ps tp si sj n n (zeros RNum n) =
  C04.Model.pair_force RNum (map lift ps) (flat_map cpair (pairs_of tp si sj n n)) /\
  Forall (C04.Proofs.valid_pair (length (map lift ps))) (flat_map cpair (pairs_of tp si sj n n)).
Proof.
  intros n. split.
  - rewrite pair_loops_run, run_c04 by (intros i j b H; now apply pairs_all_active in H).
    unfold C04.Model.pair_force. f_equal. unfold zeros, n. rewrite map_map.
    clear. induction ps as [|p l IH]; cbn; [reflexivity|]. now rewrite IH.
  - rewrite map_length. apply cpair_valid. intros i j b H. apply pairs_all_active in H. tauto.
Qed.

Theorem nest_force_torque_zero tp si sj :
  let a := pair_loops RNum pf (fun i => i) None soft2 ps tp si sj (length ps) (length ps) (zeros RNum (length ps)) in
  let qs := map lift ps in
  C04.Proofs.Sa C04.Proofs.Fx qs a = 0 /\ C04.Proofs.Sa C04.Proofs.Fy qs a = 0 /\ C04.Proofs.Sa C04.Proofs.Fz qs a = 0 /\
  C04.Proofs.Sa C04.Proofs.Tx qs a = 0 /\ C04.Proofs.Sa C04.Proofs.Ty qs a = 0 /\ C04.Proofs.Sa C04.Proofs.Tz qs a = 0.
Proof.
  cbv zeta. destruct (nest_is_pair_force tp si sj) as [E V]. cbv zeta in E. rewrite E.
  destruct (C04.Proofs.pair_force_zero _ _ V) as (_ & H). exact H.
Qed.
End Bridge.

(* the zero ghost box is no shift *)
Lemma pair_step_box0 pf b bx by_ bz soft2 ps i j (acc : list RV3) :
  pair_step RNum pf b (Some (ghostbox RNum bx by_ bz (0, 0, 0)%Z)) soft2 ps i j acc =
  pair_step RNum pf b None soft2 ps i j acc.
Proof.
  unfold pair_step.
  assert (E : sep RNum (Some (ghostbox RNum bx by_ bz (0, 0, 0)%Z)) (nth_d (P0 RNum) ps i) (nth_d (P0 RNum) ps j)
              = sep RNum None (nth_d (P0 RNum) ps i) (nth_d (P0 RNum) ps j)).
  { unfold sep, ghostbox. cbn [nadd nsub nmul nofZ RNum]. f_equal; [f_equal|]; ring. }
  rewrite E. reflexivity.
Qed.

Lemma basic_noghost_nest G eps bx by_ bz ign nact tp ps :
  grav_basic RNum G eps bx by_ bz 0 0 0 ign nact tp ps =
  pair_loops RNum (pf_basic RNum G) (fun i => i) None (eps * eps) ps tp (starti_of ign) (startj_of ign) nact (length ps)
             (zeros RNum (length ps)).
Proof.
  unfold grav_basic, boxes. cbn [zr flat_map map app fold_left nmul RNum].
  unfold pair_loops, for_range.
  assert (E : forall bk a m lo (up : nat -> nat) (acc : list RV3),
     fold_left (fun s i => fold_left (fun s j => pair_step RNum (pf_basic RNum G) bk (Some (ghostbox RNum bx by_ bz (0, 0, 0)%Z)) (eps * eps) ps i j s) (seq lo (up i - lo)) s) (seq a m) acc
   = fold_left (fun s i => fold_left (fun s j => pair_step RNum (pf_basic RNum G) bk None (eps * eps) ps i j s) (seq lo (up i - lo)) s) (seq a m) acc).
  { intros. apply fold_left_ext. intros s i _. apply fold_left_ext. intros s' j _. apply pair_step_box0. }
  rewrite (E true _ _ _ (fun i => i)). rewrite (E tp _ _ _ (fun _ => nact)). reflexivity.
Qed.

(* BASIC, all particles active, no ghost boxes: zero net force and zero net torque *)
Theorem basic_force_torque_zero G eps bx by_ bz ign tp ps :
  let a := grav_basic RNum G eps bx by_ bz 0 0 0 ign (length ps) tp ps in
  let qs := map lift ps in
  C04.Proofs.Sa C04.Proofs.Fx qs a = 0 /\ C04.Proofs.Sa C04.Proofs.Fy qs a = 0 /\ C04.Proofs.Sa C04.Proofs.Fz qs a = 0 /\
  C04.Proofs.Sa C04.Proofs.Tx qs a = 0 /\ C04.Proofs.Sa C04.Proofs.Ty qs a = 0 /\ C04.Proofs.Sa C04.Proofs.Tz qs a = 0.
Proof. cbv zeta. rewrite basic_noghost_nest. apply nest_force_torque_zero. Qed.
