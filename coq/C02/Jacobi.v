(* C02: REB_GRAVITY_JACOBI over the reals, for every N: each particle receives
     (direct sum of all pairs except {0,1}, unsoftened, all particles active = the specification with
      gravity_ignore_terms = 1)  +  (the Jacobi terms: for every j >= 2, with Q_j = x_j - R_j/M_j the position
      of j relative to the centre of mass of particles 0..j-1 and M_j their mass,
      -G m_j Q_j/|Q_j|^3 on every i < j and +G M_j Q_j/|Q_j|^3 on j),
   whatever the accelerations held before the call. *)
From Coq Require Import List ZArith Bool Reals Lra Lia PeanoNat ZifyBool.
From RV Require Import Common.Num Common.RealNum C02.Model C02.Sums C02.Loops C02.Spec C02.Basic C02.Comp.
Import ListNotations.
Open Scope R_scope.

Lemma kick_sub_length acc i c d : length (kick_sub RNum acc i c d) = length acc.
Proof.
  unfold kick_sub. destruct (nth_d (v0 RNum) acc i) as [[ax ay] az]. destruct d as [[dx dy] dz]. apply upd_length.
Qed.
Lemma kick_sub_nth acc i c d k : (k < length acc)%nat ->
  nth_d vzero (kick_sub RNum acc i c d) k = vadd (nth_d vzero acc k) (if (k =? i)%nat then vscale (- c) d else vzero).
Proof.
  intros Hk. unfold kick_sub.
  destruct (nth_d (v0 RNum) acc i) as [[ax ay] az] eqn:E. destruct d as [[dx dy] dz].
  rewrite nth_upd by exact Hk. destruct (Nat.eqb_spec k i) as [->|Hne].
  - change (nth_d vzero acc i) with (nth_d (v0 RNum) acc i). rewrite E.
    unfold vadd, vscale. cbn [nsub nmul RNum]. f_equal; [f_equal|]; ring.
  - now rewrite vadd_0_r.
Qed.

Lemma triple_eq (a b c a' b' c' : R) : a = a' -> b = b' -> c = c' -> (a, b, c) = (a', b', c').
Proof. intros; subst; reflexivity. Qed.

Ltac vsolve :=
  rewrite ?vadd_0_l, ?vadd_0_r;
  repeat match goal with |- context [vscale ?c ?d] => generalize (vscale c d); intros [[? ?] ?] end;
  repeat match goal with |- context [nth_d ?a ?b ?c] => generalize (nth_d a b c); intros [[? ?] ?] end;
  unfold vadd, vzero; try reflexivity; (f_equal; [f_equal|]; ring).

(* generic: rows of (outer i, inner j) steps that add X i j to particle i and Y i j to particle j *)
Section GenRows.
Variables X Y : nat -> nat -> RV3.
Definition contribXY (i j k : nat) : RV3 :=
  vadd (if (k =? i)%nat then X i j else vzero) (if (k =? j)%nat then Y i j else vzero).
Lemma rowsXY_sum a b nr lo up k :
  (b <= nr)%nat -> (forall i, (i < b)%nat -> (up i <= nr)%nat) -> (k < nr)%nat ->
  VSum (seq a (b - a)) (fun i => VSum (seq (lo i) (up i - lo i)) (fun j => contribXY i j k)) =
  VSum (seq 0 nr) (fun j =>
    vadd (if (a <=? k)%nat && (k <? b)%nat && ((lo k <=? j)%nat && (j <? up k)%nat) then X k j else vzero)
         (if ((a <=? j)%nat && (j <? b)%nat) && ((lo j <=? k)%nat && (k <? up j)%nat) then Y j k else vzero)).
Proof.
  intros Hb Hup Hk.
  rewrite VSum_ext with (h := fun i =>
    vadd (if (k =? i)%nat then VSum (seq (lo i) (up i - lo i)) (X i) else vzero)
         (if ((lo i <=? k)%nat && (k <? up i)%nat) then Y i k else vzero)).
  2:{ intros i Hi. apply in_seq in Hi. unfold contribXY. rewrite VSum_vadd. f_equal.
      - apply VSum_if.
      - rewrite (VSum_range (lo i) (up i) nr) by (apply Hup; lia).
        rewrite VSum_ext with (h := fun j => if (k =? j)%nat then
             (if ((lo i <=? k)%nat && (k <? up i)%nat) then Y i k else vzero) else vzero).
        + rewrite VSum_pick. destruct (Nat.ltb_spec k nr); [reflexivity|lia].
        + intros j _. destruct (Nat.eqb_spec k j) as [->|Hne]; [reflexivity|]. now destruct (_ && _). }
  rewrite VSum_vadd, VSum_vadd. f_equal.
  - rewrite (VSum_range a b nr) by exact Hb.
    rewrite VSum_ext with (h := fun i => if (k =? i)%nat then
         (if (a <=? k)%nat && (k <? b)%nat then VSum (seq (lo k) (up k - lo k)) (X k) else vzero) else vzero).
    + rewrite VSum_pick. destruct (Nat.ltb_spec k nr); [|lia].
      destruct ((a <=? k)%nat && (k <? b)%nat) eqn:E.
      * cbn [andb]. apply andb_prop in E. destruct E as [_ E]. apply Nat.ltb_lt in E.
        apply VSum_range. apply Hup. exact E.
      * cbn [andb]. symmetry. apply VSum_zero.
    + intros i _. destruct (Nat.eqb_spec k i) as [->|Hne]; [reflexivity|]. now destruct (_ && _).
  - rewrite (VSum_range a b nr) by exact Hb. apply VSum_ext. intros j _.
    destruct ((a <=? j)%nat && (j <? b)%nat); reflexivity.
Qed.
End GenRows.

Section Jac.
Variables (G : R) (nact : nat) (tp : bool) (ps : list (Part R)).
Let n := length ps.

(* running sums of the outer loop: R_j = sum_{i<j} m_i x_i, M_j = sum_{i<j} m_i *)
Fixpoint Rsum (j : nat) : RV3 :=
  match j with
  | O => vzero
  | S j' => let p := part ps j' in let '(rx, ry, rz) := Rsum j' in
            (rx + pm p * px p, ry + pm p * py p, rz + pm p * pz p)
  end.
Fixpoint Msum (j : nat) : R :=
  match j with O => 0 | S j' => Msum j' + pm (part ps j') end.

(* Q_j = x_j - R_j/M_j *)
Definition jq (Rj : RV3) (Mj : R) (pj : Part R) : RV3 :=
  let '(rx, ry, rz) := Rj in (px pj - rx / Mj, py pj - ry / Mj, pz pj - rz / Mj).
Definition jterm (Rj : RV3) (Mj : R) (j i : nat) : RV3 :=
  let q := jq Rj Mj (part ps j) in
  let '(qx, qy, qz) := q in
  let dr := sqrt (qx * qx + qy * qy + qz * qz) in
  vscale (G * (if (i <? j)%nat then - pm (part ps j) else Mj) / (dr * dr * dr)) q.
Definition dcond (i j : nat) : bool := negb (i =? j)%nat && (negb (i =? 0)%nat || negb (j =? 1)%nat).
Definition dpref (i j : nat) : R :=
  let '(dx, dy, dz) := sep RNum None (part ps i) (part ps j) in
  let dr := sqrt (dx * dx + dy * dy + dz * dz) in G / (dr * dr * dr).
(* outer index j, inner index i: Xt goes to particle j, Yt to particle i *)
Definition Xt (Rj : RV3) (Mj : R) (j i : nat) : RV3 :=
  if dcond i j && (i <? nact)%nat then vscale (dpref i j * pm (part ps i)) (sep RNum None (part ps i) (part ps j)) else vzero.
Definition Yt (Rj : RV3) (Mj : R) (j i : nat) : RV3 :=
  vadd (if (1 <? j)%nat then jterm Rj Mj j i else vzero)
       (if dcond i j && (i <? nact)%nat && ((j <? nact)%nat || tp)
        then vscale (- (dpref i j * pm (part ps j))) (sep RNum None (part ps i) (part ps j)) else vzero).

Lemma jac_inner_length Rj Mj j i (acc : list RV3) :
  length (jac_inner RNum G nact tp ps j Rj Mj i acc) = length acc.
Proof.
  unfold jac_inner. destruct Rj as [[rx ry] rz].
  destruct (negb _ && _).
  - destruct (nact <=? i)%nat.
    + destruct (1 <? j)%nat; rewrite ?kick_length; reflexivity.
    + destruct (sep RNum None _ _) as [[dx dy] dz]. rewrite kick_length.
      destruct (negb (nact <=? j)%nat || tp); rewrite ?kick_sub_length; destruct (1 <? j)%nat; rewrite ?kick_length; reflexivity.
  - destruct (1 <? j)%nat; rewrite ?kick_length; reflexivity.
Qed.

Lemma jac_inner_nth Rj Mj j i (acc : list RV3) k : (k < length acc)%nat ->
  nth_d vzero (jac_inner RNum G nact tp ps j Rj Mj i acc) k =
  vadd (nth_d vzero acc k) (contribXY (Xt Rj Mj) (Yt Rj Mj) j i k).
Proof.
  intros Hk. unfold jac_inner, contribXY, Xt, Yt, dcond, dpref, jterm, jq, part. destruct Rj as [[rx ry] rz].
  cbn [nsub nmul ndiv nsqrt nneg nadd RNum].
  set (pi := nth_d (P0 RNum) ps i). set (pj := nth_d (P0 RNum) ps j).
  match goal with |- context [if (1 <? j)%nat then ?a else acc] => set (acc1 := if (1 <? j)%nat then a else acc) end.
  assert (L1 : length acc1 = length acc) by (unfold acc1; destruct (1 <? j)%nat; rewrite ?kick_length; reflexivity).
  assert (N1 : nth_d vzero acc1 k = vadd (nth_d vzero acc k)
      (if (k =? i)%nat then (if (1 <? j)%nat then
         vscale (G * (if (i <? j)%nat then - pm pj else Mj) /
                 (sqrt ((px pj - rx / Mj) * (px pj - rx / Mj) + (py pj - ry / Mj) * (py pj - ry / Mj) + (pz pj - rz / Mj) * (pz pj - rz / Mj)) *
                  sqrt ((px pj - rx / Mj) * (px pj - rx / Mj) + (py pj - ry / Mj) * (py pj - ry / Mj) + (pz pj - rz / Mj) * (pz pj - rz / Mj)) *
                  sqrt ((px pj - rx / Mj) * (px pj - rx / Mj) + (py pj - ry / Mj) * (py pj - ry / Mj) + (pz pj - rz / Mj) * (pz pj - rz / Mj))))
                (px pj - rx / Mj, py pj - ry / Mj, pz pj - rz / Mj) else vzero) else vzero)).
  { unfold acc1. destruct (1 <? j)%nat.
    - rewrite kick_nth by exact Hk. reflexivity.
    - destruct (k =? i)%nat; now rewrite vadd_0_r. }
  clearbody acc1.
  destruct (negb (i =? j)%nat && (negb (i =? 0)%nat || negb (j =? 1)%nat)); cbn [andb].
  - destruct (Nat.leb_spec nact i) as [Hi|Hi]; destruct (Nat.ltb_spec i nact); try lia; cbn [andb].
    + rewrite N1. destruct (k =? i)%nat, (k =? j)%nat, (1 <? j)%nat; vsolve.
    + destruct (sep RNum None pi pj) as [[dx dy] dz].
      destruct (Nat.leb_spec nact j) as [Hj|Hj]; destruct (Nat.ltb_spec j nact); try lia; cbn [negb orb]; destruct tp; cbn [orb];
        rewrite kick_nth by (rewrite ?kick_sub_length, L1; exact Hk); rewrite ?kick_sub_nth by (rewrite L1; exact Hk);
        rewrite N1; destruct (k =? i)%nat, (k =? j)%nat, (1 <? j)%nat; vsolve.
  - rewrite N1. destruct (k =? i)%nat, (k =? j)%nat, (1 <? j)%nat; vsolve.
Qed.

(* one outer iteration *)
Definition ostep (j : nat) (st : list RV3 * (RV3 * R)) : list RV3 * (RV3 * R) :=
  let '(acc, (Rj, Mj)) := st in
  let acc := upd acc j (v0 RNum) in
  let acc := for_range 0 (S j) (jac_inner RNum G nact tp ps j Rj Mj) acc in
  let pj := nth_d (P0 RNum) ps j in
  let '(Rjx, Rjy, Rjz) := Rj in
  (acc, ((Rjx + pm pj * px pj, Rjy + pm pj * py pj, Rjz + pm pj * pz pj), Mj + pm pj)).

Definition Cj (j k : nat) : RV3 :=
  VSum (seq 0 (S j)) (fun i => contribXY (Xt (Rsum j) (Msum j)) (Yt (Rsum j) (Msum j)) j i k).

Lemma inner_fold Rj Mj j l : forall (acc : list RV3) k, (k < length acc)%nat ->
  length (fold_left (fun s i => jac_inner RNum G nact tp ps j Rj Mj i s) l acc) = length acc /\
  nth_d vzero (fold_left (fun s i => jac_inner RNum G nact tp ps j Rj Mj i s) l acc) k =
  vadd (nth_d vzero acc k) (VSum l (fun i => contribXY (Xt Rj Mj) (Yt Rj Mj) j i k)).
Proof.
  induction l as [|i l IH]; intros acc k Hk; cbn [fold_left].
  - rewrite VSum_nil, vadd_0_r. auto.
  - destruct (IH (jac_inner RNum G nact tp ps j Rj Mj i acc) k) as [L E]; [rewrite jac_inner_length; exact Hk|].
    rewrite L, E, jac_inner_length, jac_inner_nth by exact Hk. split; [reflexivity|].
    rewrite VSum_cons, <- vadd_assoc. reflexivity.
Qed.

Lemma ostep_spec j (acc : list RV3) :
  exists acc', ostep j (acc, (Rsum j, Msum j)) = (acc', (Rsum (S j), Msum (S j))) /\
    length acc' = length acc /\
    forall k, (k < length acc)%nat ->
      nth_d vzero acc' k = vadd (if (k =? j)%nat then vzero else nth_d vzero acc k) (Cj j k).
Proof.
  unfold ostep. cbn [Rsum Msum]. unfold part. destruct (Rsum j) as [[rx ry] rz] eqn:ER.
  eexists. split; [reflexivity|]. unfold for_range.
  split.
  - destruct (length acc) eqn:E0.
    + destruct acc; [|discriminate]. cbn [upd].
      apply (fold_left_inv (fun s : list RV3 => length s = 0%nat)); [reflexivity|].
      intros s x _ Hs. rewrite jac_inner_length. exact Hs.
    + destruct (inner_fold (rx, ry, rz) (Msum j) j (seq 0 (S j - 0)) (upd acc j (v0 RNum)) 0) as [L _];
        [rewrite upd_length; lia|]. etransitivity; [exact L|]. rewrite upd_length. exact E0.
  - intros k Hk.
    destruct (inner_fold (rx, ry, rz) (Msum j) j (seq 0 (S j - 0)) (upd acc j (v0 RNum)) k) as [_ E];
      [rewrite upd_length; exact Hk|].
    etransitivity; [exact E|]. rewrite nth_upd by exact Hk. unfold Cj. rewrite ER. replace (S j - 0)%nat with (S j) by lia.
    reflexivity.
Qed.

Lemma Cj_zero j k : (j < k)%nat -> Cj j k = vzero.
Proof.
  intros H. unfold Cj. rewrite VSum_ext with (h := fun _ => vzero); [apply VSum_zero|].
  intros i Hi. apply in_seq in Hi. unfold contribXY.
  destruct (Nat.eqb_spec k j); [lia|]. destruct (Nat.eqb_spec k i); [lia|]. apply vadd_0_l.
Qed.

Lemma outer_fold m : forall a (acc : list RV3),
  exists acc' st, fold_left (fun s j => ostep j s) (seq a m) (acc, (Rsum a, Msum a)) = (acc', st) /\
    length acc' = length acc /\
    forall k, (k < length acc)%nat ->
      nth_d vzero acc' k = vadd (if (a <=? k)%nat && (k <? a + m)%nat then vzero else nth_d vzero acc k)
                                (VSum (seq a m) (fun j => Cj j k)).
Proof.
  induction m as [|m IH]; intros a acc; cbn [seq fold_left].
  - exists acc, (Rsum a, Msum a). split; [reflexivity|]. split; [reflexivity|]. intros k Hk.
    rewrite VSum_nil, vadd_0_r. destruct (Nat.leb_spec a k), (Nat.ltb_spec k (a + 0)); try lia; reflexivity.
  - destruct (ostep_spec a acc) as [acc1 [E1 [L1 N1]]]. rewrite E1.
    destruct (IH (S a) acc1) as [acc' [st [E [L N]]]]. exists acc', st. split; [exact E|]. split; [lia|].
    intros k Hk. rewrite N by lia. rewrite N1 by exact Hk. rewrite VSum_cons.
    destruct (Nat.eqb_spec k a) as [->|Hne].
    + destruct (Nat.leb_spec (S a) a), (Nat.leb_spec a a), (Nat.ltb_spec a (a + S m)); try lia. cbn [andb].
      rewrite vadd_assoc. reflexivity.
    + destruct (Nat.leb_spec (S a) k), (Nat.leb_spec a k), (Nat.ltb_spec k (S a + m)), (Nat.ltb_spec k (a + S m)); try lia; cbn [andb];
        first [ rewrite Cj_zero by lia; now rewrite !vadd_0_l | rewrite vadd_assoc; reflexivity ].
Qed.

(* the Jacobi terms received by particle k *)
Definition jacobi_terms (k : nat) : RV3 :=
  VSum (seq 0 n) (fun j => if (1 <? j)%nat && (k <=? j)%nat then jterm (Rsum j) (Msum j) j k else vzero).

Theorem jacobi_decomp (acc0 : list RV3) k : (nact <= n)%nat -> length acc0 = n -> (k < n)%nat ->
  nth_d vzero (grav_jacobi RNum G nact tp ps acc0) k =
  vadd (acc_spec0 G 0 1 nact tp ps k) (jacobi_terms k).
Proof.
  intros Hna Hlen Hk. unfold grav_jacobi, for_range. fold n. replace (n - 0)%nat with n by lia.
  destruct (outer_fold n 0 acc0) as [acc' [st [E [L N]]]].
  change (fold_left (fun s j => ostep j s) (seq 0 n) (acc0, (vzero, 0)) = (acc', st)) in E.
  change (v0 RNum) with vzero. change (nzero RNum) with 0.
  match goal with |- nth_d vzero (fst ?t) k = _ => replace t with (acc', st) by (rewrite <- E; reflexivity) end.
  cbn [fst]. rewrite N by lia.
  destruct (Nat.leb_spec 0 k), (Nat.ltb_spec k (0 + n)); try lia. cbn [andb]. rewrite vadd_0_l.
  (* sum over outer j, inner i <= j  ->  sum over partners *)
  unfold Cj.
  pose (X := fun j i => Xt (Rsum j) (Msum j) j i). pose (Y := fun j i => Yt (Rsum j) (Msum j) j i).
  rewrite VSum_ext with (h := fun j => VSum (seq ((fun _ => 0%nat) j) (S j - (fun _ => 0%nat) j)) (fun i => contribXY X Y j i k))
    by (intros j _; replace (S j - 0)%nat with (S j) by lia; reflexivity).
  replace n with (n - 0)%nat at 1 by lia.
  rewrite (rowsXY_sum X Y 0 n n (fun _ => 0%nat) S k); [|lia|intros; lia|exact Hk].
  unfold acc_spec0, jacobi_terms. fold n. rewrite <- VSum_vadd. apply VSum_ext. intros j Hj. apply in_seq in Hj.
  unfold X, Y, Xt, Yt. fold (part ps k). fold (part ps j).
  (* the two direct contributions are the same Newtonian term *)
  assert (EA : vscale (- (dpref k j * pm (part ps j))) (sep RNum None (part ps k) (part ps j))
               = newton G 0 vzero (part ps k) (part ps j)).
  { unfold dpref, newton, vzero, sep. cbn [nsub RNum]. rewrite Rmult_0_l, !Rplus_0_r.
    f_equal. unfold Rdiv. ring. }
  assert (EB : vscale (dpref j k * pm (part ps j)) (sep RNum None (part ps j) (part ps k))
               = newton G 0 vzero (part ps k) (part ps j)).
  { unfold dpref, newton, vzero, sep. cbn [nsub RNum]. rewrite Rmult_0_l, !Rplus_0_r.
    set (xk := px (part ps k)). set (yk := py (part ps k)). set (zk := pz (part ps k)).
    set (xj := px (part ps j)). set (yj := py (part ps j)). set (zj := pz (part ps j)).
    replace ((xk - xj) * (xk - xj) + (yk - yj) * (yk - yj) + (zk - zj) * (zk - zj))
      with ((xj - xk) * (xj - xk) + (yj - yk) * (yj - yk) + (zj - zk) * (zj - zk)) by ring.
    set (r := sqrt _). unfold vscale. f_equal; [f_equal|]; unfold Rdiv; ring. }
  rewrite EA, EB. set (v := newton G 0 vzero (part ps k) (part ps j)).
  set (jt := jterm (Rsum j) (Msum j) j k).
  unfold src, ignored, dcond. clearbody v jt. destruct v as [[v1 v2] v3], jt as [[j1 j2] j3]. destruct tp.
  all: repeat match goal with
  | |- context [(?a =? ?b)%nat] => destruct (Nat.eqb_spec a b); try lia
  | |- context [(?a <=? ?b)%nat] => destruct (Nat.leb_spec a b); try lia
  | |- context [(?a <? ?b)%nat] => destruct (Nat.ltb_spec a b); try lia
  end; cbn [negb andb orb]; unfold vadd, vzero; apply triple_eq; ring.
Qed.
End Jac.
