(* C02: reb_whfast_interaction_step, REB_WHFAST_COORDINATES_JACOBI branch without variational particles
   (src/integrator_whfast.c), loop for loop, Num-polymorphic.  The inertial accelerations are first taken to Jacobi
   coordinates by reb_particles_transform_inertial_to_jacobi_acc = C12.Model.jac_fwd on each of ax, ay, az (masses of
   `particles`), then every p_j[i], i >= 1, is kicked; when gravity != REB_GRAVITY_JACOBI the Jacobi term is added for i > 1. *)
From Coq Require Import List ZArith Bool.
From RV Require Import Common.Num.
From RV Require C12.Model.
Import ListNotations.

Section WHM.
Context {T : Type} (N : Num T).
Local Notation "a + b" := (nadd N a b).
Local Notation "a * b" := (nmul N a b).
Local Notation "a / b" := (ndiv N a b).
Local Notation "1" := (none N).

(* rj2i = 1./(x*x + y*y + z*z + softening*softening); rji = sqrt(rj2i); rj3iM = rji*rj2i*G*eta *)
Definition wh_rj3iM (G soft eta : T) (Q : T * T * T) : T :=
  let '(x, y, z) := Q in
  let rj2i := 1 / (x * x + y * y + z * z + soft * soft) in
  let rji := nsqrt N rj2i in
  rji * rj2i * G * eta.

(* one p_j entry: (m, (x,y,z), (vx,vy,vz)); pja: its Jacobi acceleration *)
Definition PJ : Type := (T * (T * T * T) * (T * T * T))%type.

Fixpoint wh_loop (G soft dt : T) (grav_jacobi : bool) (nact : nat) (i : nat) (eta : T)
    (l : list (PJ * (T * T * T))) : list (T * T * T) :=
  match l with
  | [] => []
  | ((mj, Q, (vx, vy, vz)), (ax, ay, az)) :: r =>
      let eta := if Nat.ltb i nact then eta + mj else eta in
      let vx := vx + dt * ax in
      let vy := vy + dt * ay in
      let vz := vz + dt * az in
      let v :=
        if negb grav_jacobi && Nat.ltb 1 i then
          let '(x, y, z) := Q in
          let prefac1 := dt * wh_rj3iM G soft eta Q in
          (vx + prefac1 * x, vy + prefac1 * y, vz + prefac1 * z)
        else (vx, vy, vz) in
      v :: wh_loop G soft dt grav_jacobi nact (S i) eta r
  end.

(* ms, ax, ay, az: particles[i].m/ax/ay/az; pj: p_j[0..N-1]; result: p_j[i].v for i = 1..N-1 *)
Definition wh_interaction_jacobi (G soft dt : T) (grav_jacobi : bool) (nact : nat)
    (ms ax ay az : list T) (pj : list PJ) : list (T * T * T) :=
  let jx := fst (C12.Model.jac_fwd N ms ax nact) in
  let jy := fst (C12.Model.jac_fwd N ms ay nact) in
  let jz := fst (C12.Model.jac_fwd N ms az nact) in
  let ja := combine (combine jx jy) jz in
  match ms with
  | [] => []
  | m0 :: _ => wh_loop G soft dt grav_jacobi nact 1 m0 (combine (tl pj) (tl ja))
  end.
End WHM.
