(* C02: Newton's third law.  Every pair step with back-reaction leaves sum_i m_i a_i unchanged, so the
   loop nest (for ANY prefactor function: BASIC, MERCURIUS mode 0, TRACE mode 0) conserves it when all
   particles are active, and BASIC produces sum_i m_i a_i = 0. *)
From Coq Require Import List ZArith Bool Reals Lra Lia PeanoNat.
From RV Require Import Common.Num Common.RealNum C02.Model C02.Sums C02.Loops C02.Spec.
Import ListNotations.
Open Scope R_scope.

Lemma kick_cons_0 a acc c d :
  kick RNum (a :: acc) 0 c d = vadd a (vscale c d) :: acc.
Proof. unfold kick. cbn [nth_d upd]. destruct a as [[ax ay] az], d as [[dx dy] dz]. reflexivity. Qed.
Lemma kick_cons_S a acc i c d :
  kick RNum (a :: acc) (S i) c d = a :: kick RNum acc i c d.
Proof.
  unfold kick. cbn [nth_d upd]. destruct (nth_d (v0 RNum) acc i) as [[ax ay] az], d as [[dx dy] dz]. reflexivity.
Qed.

Lemma mom_cons p ps a acc : mom (p :: ps) (a :: acc) = vadd (vscale (pm p) a) (mom ps acc).
Proof. reflexivity. Qed.

Lemma mom_kick ps : forall (acc : list RV3) i c d, length acc = length ps -> (i < length ps)%nat ->
  mom ps (kick RNum acc i c d) = vadd (mom ps acc) (vscale (pm (nth_d (P0 RNum) ps i) * c) d).
Proof.
  induction ps as [|p ps IH]; intros acc i c d Hlen Hi; cbn [length] in *; [lia|].
  destruct acc as [|a acc]; cbn [length] in Hlen; [lia|].
  destruct i as [|i].
  - rewrite kick_cons_0, !mom_cons. cbn [nth_d].
    destruct a as [[ax ay] az], d as [[dx dy] dz], (mom ps acc) as [[mx my] mz].
    unfold vadd, vscale. f_equal; [f_equal|]; ring.
  - rewrite kick_cons_S, !mom_cons. cbn [nth_d]. rewrite IH by lia. apply vadd_assoc.
Qed.

Lemma mom_zeros ps : mom ps (repeat vzero (length ps)) = vzero.
Proof.
  induction ps as [|p ps IH]; [reflexivity|]. cbn [length repeat]. rewrite mom_cons, IH.
  unfold vscale, vzero, vadd. f_equal; [f_equal|]; ring.
Qed.

Section Mom.
Variable pf : nat -> nat -> R -> option R.
Variable gb : option RV3.
Variable soft2 : R.
Variable ps : list (Part R).

Lemma mom_pair_step i j (acc : list RV3) : length acc = length ps -> (i < length ps)%nat -> (j < length ps)%nat ->
  mom ps (pair_step RNum pf true gb soft2 ps i j acc) = mom ps acc.
Proof.
  intros Hlen Hi Hj. unfold pair_step. destruct (pf i j _) as [p|]; [|reflexivity].
  rewrite mom_kick by (rewrite ?kick_length; auto). rewrite mom_kick by auto.
  cbn [nmul nneg RNum]. rewrite <- vadd_assoc, <- vscale_add.
  match goal with |- vadd _ (vscale ?c _) = _ => replace c with 0 by ring end.
  now rewrite vscale_0, vadd_0_r.
Qed.

Lemma mom_run l : forall acc : list RV3, length acc = length ps ->
  (forall i j b, In (i, j, b) l -> (i < length ps)%nat /\ (j < length ps)%nat /\ b = true) ->
  mom ps (fold_left (step3 pf gb soft2 ps) l acc) = mom ps acc.
Proof.
  induction l as [|[[i j] b] l IH]; intros acc Hlen H; cbn [fold_left]; [reflexivity|].
  destruct (H i j b (or_introl eq_refl)) as [Hi [Hj ->]].
  rewrite IH.
  - cbn [step3]. now apply mom_pair_step.
  - cbn [step3]. now rewrite pair_step_length.
  - intros; apply H; right; auto.
Qed.

(* all particles active: the loop nest (any start indices) conserves sum m a *)
Theorem pair_loops_momentum tp si sj (acc : list RV3) : length acc = length ps ->
  mom ps (pair_loops RNum pf (fun i => i) gb soft2 ps tp si sj (length ps) (length ps) acc) = mom ps acc.
Proof.
  intros Hlen. rewrite pair_loops_run. apply mom_run; [exact Hlen|].
  intros i j b Hin. unfold pairs_of, rows in Hin. apply in_app_or in Hin. destruct Hin as [Hin|Hin].
  - apply in_flat_map in Hin. destruct Hin as [i' [Hi' Hin]]. apply in_map_iff in Hin.
    destruct Hin as [j' [Heq Hj']]. inversion Heq; subst. apply in_seq in Hi'. apply in_seq in Hj'. repeat split; lia.
  - apply in_flat_map in Hin. destruct Hin as [i' [Hi' Hin]]. apply in_seq in Hi'. lia.
Qed.
End Mom.

Theorem basic_momentum_zero G eps bx by_ bz nx ny nz ign tp ps :
  mom ps (grav_basic RNum G eps bx by_ bz nx ny nz ign (length ps) tp ps) = vzero.
Proof.
  unfold grav_basic.
  apply (fold_left_inv (fun acc : list RV3 => length acc = length ps /\ mom ps acc = vzero)).
  - split; [apply repeat_length|apply mom_zeros].
  - intros acc g _ [Hlen Hm]. split.
    + rewrite pair_loops_run, run_pairs_length. exact Hlen.
    + rewrite pair_loops_momentum by exact Hlen. exact Hm.
Qed.

Theorem merc0_momentum_zero G soft Lf dcrit tp ps :
  mom ps (grav_merc0 RNum G soft Lf dcrit (length ps) tp ps) = vzero.
Proof.
  unfold grav_merc0. rewrite pair_loops_momentum by apply repeat_length. apply mom_zeros.
Qed.

Theorem trace0_momentum_zero G soft Ks tp ps :
  mom ps (grav_trace0 RNum G soft Ks (length ps) tp ps) = vzero.
Proof.
  unfold grav_trace0. rewrite pair_loops_momentum by apply repeat_length. apply mom_zeros.
Qed.
