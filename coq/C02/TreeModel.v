(* C02 model of REB_GRAVITY_TREE (gravity.c: the TREE branch of reb_calculate_acceleration,
   reb_calculate_acceleration_for_particle, reb_calculate_acceleration_for_particle_from_cell; QUADRUPOLE is not
   defined in the library build and not modelled), Num-polymorphic, in source operation order.  The tree is C15's
   functional oct-tree (C15.Tree.cell: Leaf pt | Node cnt oct[8]); node->m, mx, my, mz are C15's gdata (the model of
   reb_simulation_update_tree_gravity_data_in_cell); node->w is root_size halved at every level (tree.c:
   node->w = parent->w/2.).  Definitions only. *)
From Coq Require Import List ZArith Bool.
From RV Require Import Common.Num C02.Model.
From RV Require C15.Tree.
Import ListNotations.

Section TreeGrav.
Context {T : Type} (N : Num T).
Local Notation "a + b" := (nadd N a b).
Local Notation "a - b" := (nsub N a b).
Local Notation "a * b" := (nmul N a b).
Local Notation "a / b" := (ndiv N a b).
Local Notation "- a" := (nneg N a).

Variable part : nat -> T * T * T * T.        (* (m, x, y, z) of particle i *)
Variables (G soft2 theta2 : T).              (* r->G, softening*softening, r->opening_angle2 *)

(* prefact = -G/(_r*_r*_r)*node->m with _r = sqrt(r2 + softening2); a += prefact*d *)
Definition cell_kick (a : V3 (T := T)) (m : T) (d : V3 (T := T)) (r2 : T) : V3 (T := T) :=
  let '(ax, ay, az) := a in
  let '(dx, dy, dz) := d in
  let r := nsqrt N (r2 + soft2) in
  let prefact := (- G) / (r * r * r) * m in
  (ax + prefact * dx, ay + prefact * dy, az + prefact * dz).

(* reb_calculate_acceleration_for_particle_from_cell(r, pt, node, gb); w = node->w; a = particles[pt].a *)
Fixpoint walk (w : T) (t : C15.Tree.cell) (pt : nat) (gb : V3 (T := T)) (a : V3 (T := T)) {struct t} : V3 (T := T) :=
  let '(m, mx, my, mz) := C15.Tree.gdata N part t in
  let '(gx, gy, gz) := gb in
  let dx := gx - mx in
  let dy := gy - my in
  let dz := gz - mz in
  let r2 := dx * dx + dy * dy + dz * dz in
  match t with
  | C15.Tree.Node _ oct =>
      if nltb N (theta2 * r2) (w * w) then
        fold_left (fun a o => match o with None => a | Some d => walk (w / (none N + none N)) d pt gb a end) oct a
      else cell_kick a m (dx, dy, dz) r2
  | C15.Tree.Leaf p =>
      if Nat.eqb p pt then a else cell_kick a m (dx, dy, dz) r2
  end.

(* reb_calculate_acceleration_for_particle: all non-NULL root cells, each of width root_size *)
Definition walk_roots (root_size : T) (roots : list (option C15.Tree.cell)) (pt : nat) (gb : V3 (T := T)) (a : V3 (T := T)) : V3 (T := T) :=
  fold_left (fun a o => match o with None => a | Some t => walk root_size t pt gb a end) roots a.

(* the TREE branch: zero, then for every ghost box and every particle i: gb += x_i; walk *)
Definition grav_tree (bx by_ bz : T) (nx ny nz : nat) (root_size : T) (roots : list (option C15.Tree.cell)) (n : nat)
    : list (V3 (T := T)) :=
  fold_left (fun acc g =>
      for_range 0 n (fun i acc =>
        let '(sx, sy, sz) := ghostbox N bx by_ bz g in
        let '(_, x, y, z) := part i in
        let gb := (sx + x, sy + y, sz + z) in
        upd acc i (walk_roots root_size roots i gb (nth_d (v0 N) acc i))) acc)
    (boxes nx ny nz) (zeros N n).
End TreeGrav.
