(* C02: the mathematical specification of the accelerations (over the reals).
     acc_spec i = sum over ghost boxes b, sum over j in sources(i) of
                  - G m_j (x_i + shift_b - x_j) / (|x_i + shift_b - x_j|^2 + eps^2)^(3/2)
   sources(i) is the predicate [src]: who pulls on whom, given N_active, testparticle_type and
   gravity_ignore_terms. *)
From Coq Require Import List ZArith Bool Reals PeanoNat.
From RV Require Import Common.Num Common.RealNum C02.Model C02.Sums.
Import ListNotations.
Open Scope R_scope.

(* the pair {i,j} is left out of the sum (it is integrated by the Kepler solver instead):
   gravity_ignore_terms = 1: the pair {0,1}; = 2: every pair containing particle 0 *)
Definition ignored (ign i j : nat) : bool :=
  match ign with
  | 1%nat => ((i =? 0)%nat && (j =? 1)%nat) || ((i =? 1)%nat && (j =? 0)%nat)
  | 2%nat => (i =? 0)%nat || (j =? 0)%nat
  | _ => false
  end.

(* j is a source of acceleration for i: j is another particle, the pair is not ignored, and
   j is active (index < N_active), or j is a test particle of type 1 and i is active. *)
Definition src (nact : nat) (tp : bool) (ign i j : nat) : bool :=
  negb (i =? j)%nat && negb (ignored ign i j) && ((j <? nact)%nat || (tp && (i <? nact)%nat)).

(* softened Newtonian pull of the point mass pj on a unit mass at (pi + s) *)
Definition newton (G eps : R) (s : RV3) (pi pj : Part R) : RV3 :=
  let '(sx, sy, sz) := s in
  let dx := px pi + sx - px pj in
  let dy := py pi + sy - py pj in
  let dz := pz pi + sz - pz pj in
  let r := sqrt (dx * dx + dy * dy + dz * dz + eps * eps) in
  vscale (- (G * pm pj) / (r * r * r)) (dx, dy, dz).

(* shift of ghost box (a,b,c): boxsize times the integer index *)
Definition shift (bx by_ bz : R) (g : Z * Z * Z) : RV3 :=
  let '(a, b, c) := g in (bx * IZR a, by_ * IZR b, bz * IZR c).

Definition acc_spec (G eps bx by_ bz : R) (nx ny nz : nat) (ign nact : nat) (tp : bool)
    (ps : list (Part R)) (i : nat) : RV3 :=
  VSum (boxes nx ny nz) (fun g =>
    VSum (seq 0 (length ps)) (fun j =>
      if src nact tp ign i j
      then newton G eps (shift bx by_ bz g) (nth_d (P0 RNum) ps i) (nth_d (P0 RNum) ps j)
      else vzero)).

(* total momentum change rate: sum_i m_i a_i *)
Definition mom (ps : list (Part R)) (acc : list RV3) : RV3 :=
  VSum (combine ps acc) (fun q => vscale (pm (fst q)) (snd q)).
