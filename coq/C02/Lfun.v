(* C02: the C4 and C5 changeover polynomials of Hernandez (2019) used by MERCURIUS (L_C4, L_C5): monotone on
   [0,1] (derivatives 630 y^4 (1-y)^4 and 2772 y^5 (1-y)^5 via Coquelicot + the mean value theorem), hence range
   [0,1]; and the range of the modelled functions L_C4 / L_C5 for all arguments. *)
From Coq Require Import Reals Lra Psatz.
From Coquelicot Require Import Coquelicot.
From RV Require Import Common.Num Common.RealNum C02.Model.
Open Scope R_scope.
Definition C4poly (y : R) : R := (70*y*y*y*y - 315*y*y*y + 540*y*y - 420*y + 126)*y*y*y*y*y.
Definition C5poly (y : R) : R := (-252*y*y*y*y*y + 1386*y*y*y*y - 3080*y*y*y + 3465*y*y - 1980*y + 462)*y*y*y*y*y*y.
Lemma C4_deriv y : is_derive C4poly y (630 * ((y*y)*(y*y)) * (((1-y)*(1-y))*((1-y)*(1-y)))).
Proof. unfold C4poly. auto_derive; [exact I | ]. ring. Qed.
Lemma C5_deriv y : is_derive C5poly y (2772 * (y*((y*y)*(y*y))) * ((1-y)*(((1-y)*(1-y))*((1-y)*(1-y))))).
Proof. unfold C5poly. auto_derive; [exact I | ]. ring. Qed.

Lemma mono_from_deriv (f df : R -> R) (a b : R) :
  (forall x, is_derive f x (df x)) -> (forall x, a <= x <= b -> 0 <= df x) ->
  forall y1 y2, a <= y1 -> y1 <= y2 -> y2 <= b -> f y1 <= f y2.
Proof.
  intros Hd Hpos y1 y2 H1 H12 H2. destruct (Rle_lt_or_eq_dec _ _ H12) as [Hlt | ->]; [ | lra].
  destruct (MVT_cor2 f df y1 y2 Hlt (fun c _ => proj1 (is_derive_Reals _ _ _) (Hd c))) as [c [E [Hc1 Hc2]]].
  assert (0 <= df c) by (apply Hpos; lra).
  assert (0 <= df c * (y2 - y1)) by (apply Rmult_le_pos; lra). lra.
Qed.

Lemma C4_mono y1 y2 : 0 <= y1 -> y1 <= y2 -> y2 <= 1 -> C4poly y1 <= C4poly y2.
Proof.
  apply (mono_from_deriv C4poly _ 0 1 C4_deriv). intros x _.
  assert (0 <= (x*x)*(x*x)) by apply Rle_0_sqr. assert (0 <= ((1-x)*(1-x))*((1-x)*(1-x))) by apply Rle_0_sqr.
  apply Rmult_le_pos; [apply Rmult_le_pos; lra | assumption].
Qed.
Lemma C5_mono y1 y2 : 0 <= y1 -> y1 <= y2 -> y2 <= 1 -> C5poly y1 <= C5poly y2.
Proof.
  apply (mono_from_deriv C5poly _ 0 1 C5_deriv). intros x [Hx0 Hx1].
  assert (0 <= (x*x)*(x*x)) by apply Rle_0_sqr. assert (0 <= ((1-x)*(1-x))*((1-x)*(1-x))) by apply Rle_0_sqr.
  apply Rmult_le_pos; [apply Rmult_le_pos; [lra | apply Rmult_le_pos; lra] | apply Rmult_le_pos; lra].
Qed.
Lemma C4_range y : 0 <= y <= 1 -> 0 <= C4poly y <= 1.
Proof.
  intros [H0 H1]. assert (E0 : C4poly 0 = 0) by (unfold C4poly; ring). assert (E1 : C4poly 1 = 1) by (unfold C4poly; ring).
  pose proof (C4_mono 0 y (Rle_refl 0) H0 H1). pose proof (C4_mono y 1 H0 H1 (Rle_refl 1)). lra.
Qed.
Lemma C5_range y : 0 <= y <= 1 -> 0 <= C5poly y <= 1.
Proof.
  intros [H0 H1]. assert (E0 : C5poly 0 = 0) by (unfold C5poly; ring). assert (E1 : C5poly 1 = 1) by (unfold C5poly; ring).
  pose proof (C5_mono 0 y (Rle_refl 0) H0 H1). pose proof (C5_mono y 1 H0 H1 (Rle_refl 1)). lra.
Qed.


Lemma L_C4_R d dc :
  L_C4 RNum d dc =
  let y := (d - 1 / 10 * dc) / (9 / 10 * dc) in
  if Rlt_dec y 0 then 0 else if Rlt_dec 1 y then 1 else C4poly y.
Proof.
  unfold L_C4, ndec, C4poly. cbn [nofZ nsub nmul ndiv nadd nltb nzero none RNum]. unfold Rltb.
  cbv zeta. destruct (Rlt_dec _ 0); [reflexivity | ]. destruct (Rlt_dec 1 _); reflexivity.
Qed.
Lemma L_C5_R d dc :
  L_C5 RNum d dc =
  let y := (d - 1 / 10 * dc) / (9 / 10 * dc) in
  if Rlt_dec y 0 then 0 else if Rlt_dec 1 y then 1 else C5poly y.
Proof.
  unfold L_C5, ndec, C5poly. cbn [nofZ nsub nmul ndiv nadd nltb nzero none RNum]. unfold Rltb.
  cbv zeta. destruct (Rlt_dec _ 0); [reflexivity | ]. destruct (Rlt_dec 1 _); reflexivity.
Qed.
Theorem L_C4_range d dc : 0 <= L_C4 RNum d dc <= 1.
Proof.
  rewrite L_C4_R. cbv zeta. destruct (Rlt_dec _ 0); [lra | ]. destruct (Rlt_dec 1 _); [lra | ].
  apply C4_range. lra.
Qed.
Theorem L_C5_range d dc : 0 <= L_C5 RNum d dc <= 1.
Proof.
  rewrite L_C5_R. cbv zeta. destruct (Rlt_dec _ 0); [lra | ]. destruct (Rlt_dec 1 _); [lra | ].
  apply C5_range. lra.
Qed.

(* L_infinity: with e1 = exp(-1/y), e2 = exp(-1/(1-y)) (any positive reals) the value lies in [0,1]; 0 below, 1 above *)
Theorem L_infinity_range e1 e2 d dc : 0 < e1 -> 0 < e2 -> 0 <= L_infinity RNum e1 e2 d dc <= 1.
Proof.
  intros H1 H2. unfold L_infinity, f_inf, ndec. cbn [nofZ nsub nmul ndiv nadd nltb nzero none RNum]. unfold Rltb.
  set (y := (d - 1 / 10 * dc) / (9 / 10 * dc)).
  destruct (Rlt_dec y 0); [lra | ]. destruct (Rlt_dec 1 y); [lra | ].
  destruct (Rlt_dec y 0); [lra | ]. destruct (Rlt_dec (1 - y) 0); [lra | ].
  assert (Hs : 0 < e1 + e2) by lra.
  split.
  - apply Rlt_le. apply Rdiv_lt_0_compat; assumption.
  - apply (Rmult_le_reg_r (e1 + e2)); [exact Hs | ]. unfold Rdiv. rewrite Rmult_assoc, Rinv_l by lra. lra.
Qed.
Theorem L_infinity_exp_range d dc :
  let y := L_arg RNum d dc in 0 <= L_infinity RNum (exp (- 1 / y)) (exp (- 1 / (1 - y))) d dc <= 1.
Proof. intros y. apply L_infinity_range; apply exp_pos. Qed.
Theorem L_infinity_outside e1 e2 d dc :
  let y := L_arg RNum d dc in (y < 0 -> L_infinity RNum e1 e2 d dc = 0) /\ (1 < y -> L_infinity RNum e1 e2 d dc = 1).
Proof.
  unfold L_arg, L_infinity, ndec. cbn [nofZ nsub nmul ndiv nadd nltb nzero none RNum]. unfold Rltb.
  set (y := (d - 1 / 10 * dc) / (9 / 10 * dc)). cbv zeta. split; intros H.
  - destruct (Rlt_dec y 0); [reflexivity | lra].
  - destruct (Rlt_dec y 0); [lra | ]. destruct (Rlt_dec 1 y); [reflexivity | lra].
Qed.
