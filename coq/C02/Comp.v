(* C02: REB_GRAVITY_COMPENSATED over the reals.  gravity_cs is zeroed at the start of every call
   (gravity.c: the `cs[i].x = 0.` loop over i < N_real), so the array's contents between calls never
   matter; in exact arithmetic every Kahan correction (t - a) - y is identically 0, the array stays 0,
   and the accelerations are the specified pairwise sum (= BASIC without ghost boxes). *)
From Coq Require Import List ZArith Bool Reals Lra Lia PeanoNat ZifyBool.
From RV Require Import Common.Num Common.RealNum C02.Model C02.Sums C02.Loops C02.Spec C02.Basic.
Import ListNotations.
Open Scope R_scope.

Lemma upd_repeat {A} (d : A) n i : upd (repeat d n) i d = repeat d n.
Proof. revert i; induction n as [|n IH]; intros [|i]; cbn; try reflexivity. now rewrite IH. Qed.

(* one compensated update with a zero compensation array = the plain update, and the array stays zero *)
Lemma kkick_zero (acc : list RV3) n i c d :
  kkick RNum (acc, repeat vzero n) i c d = (kick RNum acc i c d, repeat vzero n).
Proof.
  unfold kkick, kick.
  match goal with |- context [nth_d ?d acc i] => destruct (nth_d d acc i) as [[ax ay] az] end.
  change (nth_d (v0 RNum) (repeat vzero n) i) with (nth_d vzero (repeat vzero n) i). rewrite nth_repeat.
  destruct d as [[dx dy] dz].
  unfold vzero at 1. unfold kahan1. cbn [nadd nsub nmul RNum].
  f_equal.
  - f_equal. f_equal; [f_equal|]; ring.
  - rewrite <- (upd_repeat vzero n i) at 2. f_equal. unfold vzero. f_equal; [f_equal|]; ring.
Qed.

(* prefactor of the compensated loops: `continue` tests + G/(r2*r) *)
Definition pf_comp (G : R) (ign : nat) : nat -> nat -> R -> option R :=
  fun i j r => if comp_skip ign i j then None else Some (G / (r * r * r)).

Lemma comp_pair_zero G eps ign back ps i j (acc : list RV3) n :
  (if comp_skip ign i j then (acc, repeat vzero n) else comp_pair RNum G (eps * eps) back ps i j (acc, repeat vzero n))
  = (pair_step RNum (pf_comp G ign) back None (eps * eps) ps i j acc, repeat vzero n).
Proof.
  unfold pair_step, pf_comp. destruct (comp_skip ign i j); [reflexivity|].
  unfold comp_pair, norm_soft.
  destruct (sep RNum None (nth_d (P0 RNum) ps i) (nth_d (P0 RNum) ps j)) as [[dx dy] dz].
  cbn [nadd nmul ndiv nsqrt nneg RNum].
  assert (Hr2 : 0 <= dx * dx + dy * dy + dz * dz + eps * eps).
  { pose proof (Rle_0_sqr dx). pose proof (Rle_0_sqr dy). pose proof (Rle_0_sqr dz). pose proof (Rle_0_sqr eps).
    unfold Rsqr in *. lra. }
  set (r2 := dx * dx + dy * dy + dz * dz + eps * eps) in *.
  replace (r2 * sqrt r2) with (sqrt r2 * sqrt r2 * sqrt r2) by (rewrite sqrt_sqrt by exact Hr2; reflexivity).
  rewrite kkick_zero. destruct back; [rewrite kkick_zero|]; reflexivity.
Qed.

(* iteration space of the compensated loops *)
Definition rows2 (bk : bool) (a b : nat) (lo up : nat -> nat) : list (nat * nat * bool) :=
  flat_map (fun i => map (fun j => (i, j, bk)) (seq (lo i) (up i - lo i))) (seq a (b - a)).

Section CompLoops.
Variable pf : nat -> nat -> R -> option R.
Variable gb : option RV3.
Variable soft2 : R.
Variable ps : list (Part R).

Lemma rows2_run bk a b lo up acc :
  fold_left (step3 pf gb soft2 ps) (rows2 bk a b lo up) acc =
  for_range a b (fun i acc => for_range (lo i) (up i) (fun j acc => pair_step RNum pf bk gb soft2 ps i j acc) acc) acc.
Proof.
  unfold rows2, for_range. rewrite fold_left_flat_map. apply fold_left_ext. intros s i _.
  rewrite fold_left_map. reflexivity.
Qed.

Lemma rows2_sum bk a b nr lo up k :
  (b <= nr)%nat -> (forall i, (i < b)%nat -> (up i <= nr)%nat) -> (k < nr)%nat ->
  VSum (rows2 bk a b lo up) (contrib3 pf gb soft2 ps k) =
  VSum (seq 0 nr) (fun j =>
    vadd (if (a <=? k)%nat && (k <? b)%nat && ((lo k <=? j)%nat && (j <? up k)%nat) then Aterm pf gb soft2 ps k j else vzero)
         (if bk && ((a <=? j)%nat && (j <? b)%nat) && ((lo j <=? k)%nat && (k <? up j)%nat) then Bterm pf gb soft2 ps j k else vzero)).
Proof.
  intros Hb Hup Hk. unfold rows2. rewrite VSum_flat_map.
  rewrite VSum_ext with (h := fun i =>
    vadd (if (k =? i)%nat then VSum (seq (lo i) (up i - lo i)) (Aterm pf gb soft2 ps i) else vzero)
         (if bk && ((lo i <=? k)%nat && (k <? up i)%nat) then Bterm pf gb soft2 ps i k else vzero)).
  2:{ intros i Hi. apply in_seq in Hi. rewrite VSum_map. cbn [contrib3]. unfold contrib. rewrite VSum_vadd. f_equal.
      - apply VSum_if.
      - rewrite (VSum_range (lo i) (up i) nr) by (apply Hup; lia).
        rewrite VSum_ext with (h := fun j => if (k =? j)%nat then
             (if bk && ((lo i <=? k)%nat && (k <? up i)%nat) then Bterm pf gb soft2 ps i k else vzero) else vzero).
        + rewrite VSum_pick. destruct (Nat.ltb_spec k nr); [reflexivity|lia].
        + intros j _. destruct (Nat.eqb_spec k j) as [->|Hne].
          * rewrite andb_true_r. destruct bk; cbn [andb]; [|now destruct (_ && _)]. reflexivity.
          * rewrite andb_false_r. now destruct (_ && _). }
  rewrite VSum_vadd, VSum_vadd. f_equal.
  - rewrite (VSum_range a b nr) by exact Hb.
    rewrite VSum_ext with (h := fun i => if (k =? i)%nat then
         (if (a <=? k)%nat && (k <? b)%nat then VSum (seq (lo k) (up k - lo k)) (Aterm pf gb soft2 ps k) else vzero) else vzero).
    + rewrite VSum_pick. destruct (Nat.ltb_spec k nr); [|lia].
      destruct ((a <=? k)%nat && (k <? b)%nat) eqn:E.
      * cbn [andb]. apply andb_prop in E. destruct E as [_ E]. apply Nat.ltb_lt in E.
        apply VSum_range. apply Hup. exact E.
      * cbn [andb]. symmetry. apply VSum_zero.
    + intros i _. destruct (Nat.eqb_spec k i) as [->|Hne]; [reflexivity|]. now destruct (_ && _).
  - rewrite (VSum_range a b nr) by exact Hb. apply VSum_ext. intros j _.
    destruct bk; cbn [andb]; [|now destruct (_ && _)].
    destruct ((a <=? j)%nat && (j <? b)%nat); reflexivity.
Qed.
End CompLoops.

Lemma sep_none pi pj :
  sep RNum None pi pj = (px pi + 0 - px pj, py pi + 0 - py pj, pz pi + 0 - pz pj).
Proof. unfold sep. cbn. f_equal; [f_equal|]; ring. Qed.

Lemma Aterm_comp G eps ign ps k j :
  Aterm (pf_comp G ign) None (eps * eps) ps k j =
  if comp_skip ign k j then vzero else newton G eps vzero (part ps k) (part ps j).
Proof.
  unfold Aterm, pref, pf_comp. destruct (comp_skip ign k j); [reflexivity|].
  unfold dvec, mass, newton, vzero. rewrite sep_none. unfold norm_soft. cbn [nadd nmul ndiv nsqrt nneg RNum].
  f_equal. unfold Rdiv. ring.
Qed.
Lemma Bterm_comp G eps ign ps k j :
  Bterm (pf_comp G ign) None (eps * eps) ps j k =
  if comp_skip ign j k then vzero else newton G eps vzero (part ps k) (part ps j).
Proof.
  unfold Bterm, pref, pf_comp. destruct (comp_skip ign j k); [reflexivity|].
  unfold dvec, mass, newton, vzero. rewrite sep_none. unfold norm_soft. cbn [nadd nmul ndiv nsqrt nneg RNum].
  set (xk := px (part ps k)). set (yk := py (part ps k)). set (zk := pz (part ps k)).
  set (xj := px (part ps j)). set (yj := py (part ps j)). set (zj := pz (part ps j)).
  replace ((xk + 0 - xj) * (xk + 0 - xj) + (yk + 0 - yj) * (yk + 0 - yj) + (zk + 0 - zj) * (zk + 0 - zj) + eps * eps)
    with ((xj + 0 - xk) * (xj + 0 - xk) + (yj + 0 - yk) * (yj + 0 - yk) + (zj + 0 - zk) * (zj + 0 - zk) + eps * eps) by ring.
  set (r := sqrt _). unfold vscale. f_equal; [f_equal|]; unfold Rdiv; ring.
Qed.

(* the specified sum without ghost boxes *)
Definition acc_spec0 (G eps : R) (ign nact : nat) (tp : bool) (ps : list (Part R)) (i : nat) : RV3 :=
  VSum (seq 0 (length ps)) (fun j =>
    if src nact tp ign i j then newton G eps vzero (nth_d (P0 RNum) ps i) (nth_d (P0 RNum) ps j) else vzero).

Lemma acc_spec_noghost G eps bx by_ bz ign nact tp ps k :
  acc_spec G eps bx by_ bz 0 0 0 ign nact tp ps k = acc_spec0 G eps ign nact tp ps k.
Proof.
  unfold acc_spec, acc_spec0, boxes. cbn [zr flat_map map app]. rewrite VSum_one.
  apply VSum_ext. intros j _. destruct (src nact tp ign k j); [|reflexivity].
  f_equal. unfold shift, vzero. f_equal; [f_equal|]; ring.
Qed.

Section Compensated.
Variables (G eps : R) (ign nact : nat) (tp : bool) (ps : list (Part R)).
Hypothesis Hign : (ign <= 2)%nat.
Hypothesis Hna : (nact <= length ps)%nat.
Let n := length ps.

(* the compensated routine = (plain pair loops over its own iteration order, zero compensation array) *)
Lemma compensated_as_pairs :
  grav_compensated RNum G eps ign nact tp ps =
  (fold_left (step3 (pf_comp G ign) None (eps * eps) ps)
     (rows2 true 0 nact S (fun _ => nact) ++ rows2 tp nact n (fun _ => 0%nat) (fun _ => nact)) (repeat vzero n),
   repeat vzero n).
Proof.
  unfold grav_compensated. fold n. cbn [nmul RNum]. unfold zeros. change (v0 RNum) with vzero.
  rewrite fold_left_app, !rows2_run.
  assert (E : forall bk a b lo up (acc : list RV3),
    for_range a b (fun i st => for_range (lo i) (up i) (fun j st =>
        if comp_skip ign i j then st else comp_pair RNum G (eps * eps) bk ps i j st) st) (acc, repeat vzero n)
    = (for_range a b (fun i acc => for_range (lo i) (up i) (fun j acc =>
        pair_step RNum (pf_comp G ign) bk None (eps * eps) ps i j acc) acc) acc, repeat vzero n)).
  { intros bk a b lo up. unfold for_range.
    assert (Inner : forall l i (acc : list RV3),
      fold_left (fun st j => if comp_skip ign i j then st else comp_pair RNum G (eps * eps) bk ps i j st) l (acc, repeat vzero n)
      = (fold_left (fun acc j => pair_step RNum (pf_comp G ign) bk None (eps * eps) ps i j acc) l acc, repeat vzero n)).
    { induction l as [|j l IH]; intros i acc; cbn [fold_left]; [reflexivity|].
      destruct (comp_skip ign i j) eqn:E.
      - pose proof (comp_pair_zero G eps ign bk ps i j acc n) as H. rewrite E in H. rewrite H. apply IH.
      - pose proof (comp_pair_zero G eps ign bk ps i j acc n) as H. rewrite E in H. rewrite H. apply IH. }
    generalize (seq a (b - a)). induction l as [|i l IH]; intros acc; cbn [fold_left]; [reflexivity|].
    rewrite Inner. apply IH. }
  rewrite (E true 0%nat nact S (fun _ => nact)). rewrite (E tp nact n (fun _ => 0%nat) (fun _ => nact)). reflexivity.
Qed.

Theorem compensated_cs_zero : snd (grav_compensated RNum G eps ign nact tp ps) = repeat vzero n.
Proof. rewrite compensated_as_pairs. reflexivity. Qed.

Theorem compensated_eq_spec k : (k < n)%nat ->
  nth_d vzero (fst (grav_compensated RNum G eps ign nact tp ps)) k = acc_spec0 G eps ign nact tp ps k.
Proof.
  intros Hk. rewrite compensated_as_pairs. cbn [fst].
  rewrite run_pairs_nth by (rewrite repeat_length; exact Hk).
  rewrite nth_repeat, vadd_0_l, VSum_app.
  rewrite (rows2_sum _ _ _ _ true 0 nact n S (fun _ => nact) k); [|fold n; lia|intros; fold n; lia|exact Hk].
  rewrite (rows2_sum _ _ _ _ tp nact n n (fun _ => 0%nat) (fun _ => nact) k); [|lia|intros; fold n; lia|exact Hk].
  rewrite <- VSum_vadd. unfold acc_spec0. fold n. apply VSum_ext. intros j Hj. apply in_seq in Hj.
  rewrite !Aterm_comp, !Bterm_comp. fold (part ps k). fold (part ps j).
  set (v := newton G eps vzero (part ps k) (part ps j)).
  assert (Hcases : forall c1 c2 c3 c4 s1 s2 : bool,
     (c1 && negb s1 || c3 && negb s1 || c2 && negb s2 || c4 && negb s2 = src nact tp ign k j) ->
     (c1 && c3 = false) -> (c2 && c4 = false) -> ((c1 || c3) && negb s1 && ((c2 || c4) && negb s2) = false) ->
     vadd (vadd (if c1 then (if s1 then vzero else v) else vzero) (if c2 then (if s2 then vzero else v) else vzero))
          (vadd (if c3 then (if s1 then vzero else v) else vzero) (if c4 then (if s2 then vzero else v) else vzero))
     = if src nact tp ign k j then v else vzero).
  { intros c1 c2 c3 c4 s1 s2 H1 H2 H3 H4. rewrite <- H1.
    destruct c1, c2, c3, c4, s1, s2; cbn in *; try discriminate; rewrite ?vadd_0_l, ?vadd_0_r; reflexivity. }
  apply Hcases.
  - unfold src, ignored, comp_skip. destruct ign as [|[|[|?]]]; try lia; destruct tp; lia.
  - lia.
  - destruct tp; lia.
  - unfold comp_skip. destruct ign as [|[|[|?]]]; try lia; destruct tp; lia.
Qed.

(* COMPENSATED = BASIC without ghost boxes, particle by particle *)
Theorem compensated_eq_basic bx by_ bz k : (k < n)%nat ->
  nth_d vzero (fst (grav_compensated RNum G eps ign nact tp ps)) k =
  nth_d vzero (grav_basic RNum G eps bx by_ bz 0 0 0 ign nact tp ps) k.
Proof.
  intros Hk. rewrite compensated_eq_spec by exact Hk.
  rewrite (basic_eq_spec G eps bx by_ bz ign nact tp ps Hign Hna 0 0 0 k Hk).
  symmetry. apply acc_spec_noghost.
Qed.
End Compensated.
