(* C02: what the shared loop nest [pair_loops] computes over the reals, for every prefactor function:
   acc'[k] = acc[k] + sum over partners j of the i-side / j-side terms (pair_loops_sum). *)
From Coq Require Import List ZArith Bool Reals Lra Lia PeanoNat.
From RV Require Import Common.Num Common.RealNum C02.Model C02.Sums.
Import ListNotations.
Open Scope R_scope.

Lemma kick_length acc i c d : length (kick RNum acc i c d) = length acc.
Proof.
  unfold kick. destruct (nth_d (v0 RNum) acc i) as [[ax ay] az]. destruct d as [[dx dy] dz]. apply upd_length.
Qed.
Lemma kick_nth acc i c d k : (k < length acc)%nat ->
  nth_d vzero (kick RNum acc i c d) k = vadd (nth_d vzero acc k) (if (k =? i)%nat then vscale c d else vzero).
Proof.
  intros Hk. unfold kick.
  destruct (nth_d (v0 RNum) acc i) as [[ax ay] az] eqn:E. destruct d as [[dx dy] dz].
  rewrite nth_upd by exact Hk. destruct (Nat.eqb_spec k i) as [->|Hne].
  - change (nth_d vzero acc i) with (nth_d (v0 RNum) acc i). rewrite E. reflexivity.
  - now rewrite vadd_0_r.
Qed.

Section PairLoops.
Variable pf : nat -> nat -> R -> option R.
Variable gb : option RV3.
Variable soft2 : R.
Variable ps : list (Part R).

Definition part (i : nat) : Part R := nth_d (P0 RNum) ps i.
Definition dvec (i j : nat) : RV3 := sep RNum gb (part i) (part j).
Definition pref (i j : nat) : option R := pf i j (norm_soft RNum soft2 (dvec i j)).
Definition mass (i : nat) : R := pm (part i).
(* what the pair (i,j) adds to particle i, and to particle j *)
Definition Aterm (i j : nat) : RV3 :=
  match pref i j with Some p => vscale (- p * mass j) (dvec i j) | None => vzero end.
Definition Bterm (i j : nat) : RV3 :=
  match pref i j with Some p => vscale (p * mass i) (dvec i j) | None => vzero end.
Definition contrib (b : bool) (i j k : nat) : RV3 :=
  vadd (if (k =? i)%nat then Aterm i j else vzero) (if b && (k =? j)%nat then Bterm i j else vzero).

Lemma pair_step_length b i j acc : length (pair_step RNum pf b gb soft2 ps i j acc) = length acc.
Proof.
  unfold pair_step. destruct (pf i j _); [|reflexivity]. destruct b; rewrite ?kick_length; reflexivity.
Qed.

Lemma pair_step_nth b i j acc k : (k < length acc)%nat ->
  nth_d vzero (pair_step RNum pf b gb soft2 ps i j acc) k = vadd (nth_d vzero acc k) (contrib b i j k).
Proof.
  intros Hk. unfold pair_step, contrib, Aterm, Bterm, pref, mass, dvec, part.
  destruct (pf i j _) as [p|].
  - destruct b; cbn [andb].
    + rewrite kick_nth by (rewrite kick_length; exact Hk). rewrite kick_nth by exact Hk.
      rewrite <- vadd_assoc. reflexivity.
    + rewrite kick_nth by exact Hk. now rewrite vadd_0_r.
  - destruct b; cbn [andb]; destruct (k =? i)%nat, (k =? j)%nat; now rewrite ?vadd_0_r.
Qed.

Definition step3 (acc : list RV3) (q : nat * nat * bool) : list RV3 :=
  let '(i, j, b) := q in pair_step RNum pf b gb soft2 ps i j acc.
Definition contrib3 (k : nat) (q : nat * nat * bool) : RV3 := let '(i, j, b) := q in contrib b i j k.

Lemma run_pairs_length l : forall acc, length (fold_left step3 l acc) = length acc.
Proof.
  induction l as [|[[i j] b] l IH]; intros acc; cbn [fold_left]; [reflexivity|].
  rewrite IH. apply pair_step_length.
Qed.
Lemma run_pairs_nth l : forall acc k, (k < length acc)%nat ->
  nth_d vzero (fold_left step3 l acc) k = vadd (nth_d vzero acc k) (VSum l (contrib3 k)).
Proof.
  induction l as [|[[i j] b] l IH]; intros acc k Hk; cbn [fold_left].
  - now rewrite VSum_nil, vadd_0_r.
  - rewrite IH by (cbn [step3]; rewrite pair_step_length; exact Hk).
    cbn [step3]. rewrite pair_step_nth by exact Hk. rewrite VSum_cons, <- vadd_assoc. reflexivity.
Qed.

(* the iteration space of the loop nest, in loop order *)
Definition rows (bk : bool) (sj a b : nat) (up : nat -> nat) : list (nat * nat * bool) :=
  flat_map (fun i => map (fun j => (i, j, bk)) (seq sj (up i - sj))) (seq a (b - a)).
Definition pairs_of (tp : bool) (si sj na nr : nat) : list (nat * nat * bool) :=
  rows true sj si na (fun i => i) ++ rows tp sj (Nat.max na si) nr (fun _ => na).

Lemma rows_run bk sj a b up acc :
  fold_left step3 (rows bk sj a b up) acc =
  for_range a b (fun i acc => for_range sj (up i) (fun j acc => pair_step RNum pf bk gb soft2 ps i j acc) acc) acc.
Proof.
  unfold rows, for_range. rewrite fold_left_flat_map. apply fold_left_ext. intros s i _.
  rewrite fold_left_map. reflexivity.
Qed.

Lemma pair_loops_run tp si sj na nr acc :
  pair_loops RNum pf (fun i => i) gb soft2 ps tp si sj na nr acc = fold_left step3 (pairs_of tp si sj na nr) acc.
Proof. unfold pair_loops, pairs_of. rewrite fold_left_app, !rows_run. reflexivity. Qed.

(* sum of the contributions of a block of rows to particle k, as a sum over partners j *)
Lemma rows_sum bk sj a b nr up k :
  (b <= nr)%nat -> (forall i, (i < b)%nat -> (up i <= nr)%nat) -> (k < nr)%nat ->
  VSum (rows bk sj a b up) (contrib3 k) =
  VSum (seq 0 nr) (fun j =>
    vadd (if (a <=? k)%nat && (k <? b)%nat && ((sj <=? j)%nat && (j <? up k)%nat) then Aterm k j else vzero)
         (if bk && ((a <=? j)%nat && (j <? b)%nat) && ((sj <=? k)%nat && (k <? up j)%nat) then Bterm j k else vzero)).
Proof.
  intros Hb Hup Hk. unfold rows. rewrite VSum_flat_map.
  rewrite VSum_ext with (h := fun i =>
    vadd (if (k =? i)%nat then VSum (seq sj (up i - sj)) (Aterm i) else vzero)
         (if bk && ((sj <=? k)%nat && (k <? up i)%nat) then Bterm i k else vzero)).
  2:{ intros i Hi. apply in_seq in Hi. rewrite VSum_map. cbn [contrib3]. unfold contrib. rewrite VSum_vadd. f_equal.
      - apply VSum_if.
      - rewrite (VSum_range sj (up i) nr) by (apply Hup; lia).
        rewrite VSum_ext with (h := fun j => if (k =? j)%nat then
             (if bk && ((sj <=? k)%nat && (k <? up i)%nat) then Bterm i k else vzero) else vzero).
        + rewrite VSum_pick. destruct (Nat.ltb_spec k nr); [reflexivity|lia].
        + intros j _. destruct (Nat.eqb_spec k j) as [->|Hne].
          * rewrite andb_true_r. destruct bk; cbn [andb]; [|now destruct (_ && _)]. reflexivity.
          * rewrite andb_false_r. now destruct (_ && _). }
  rewrite VSum_vadd, VSum_vadd. f_equal.
  - rewrite (VSum_range a b nr) by exact Hb.
    rewrite VSum_ext with (h := fun i => if (k =? i)%nat then
         (if (a <=? k)%nat && (k <? b)%nat then VSum (seq sj (up k - sj)) (Aterm k) else vzero) else vzero).
    + rewrite VSum_pick. destruct (Nat.ltb_spec k nr); [|lia].
      destruct ((a <=? k)%nat && (k <? b)%nat) eqn:E.
      * cbn [andb]. apply andb_prop in E. destruct E as [_ E]. apply Nat.ltb_lt in E.
        apply VSum_range. apply Hup. exact E.
      * cbn [andb]. symmetry. apply VSum_zero.
    + intros i _. destruct (Nat.eqb_spec k i) as [->|Hne]; [reflexivity|]. now destruct (_ && _).
  - rewrite (VSum_range a b nr) by exact Hb. apply VSum_ext. intros j _.
    destruct bk; cbn [andb]; [|now destruct (_ && _)].
    destruct ((a <=? j)%nat && (j <? b)%nat); reflexivity.
Qed.

(* start/stop conditions of the nest, as predicates on (particle k, partner j) *)
Definition cA (si sj na nr k j : nat) : bool :=
  ((si <=? k)%nat && (k <? na)%nat && ((sj <=? j)%nat && (j <? k)%nat))
  || ((Nat.max na si <=? k)%nat && (k <? nr)%nat && ((sj <=? j)%nat && (j <? na)%nat)).
Definition cB (tp : bool) (si sj na nr k j : nat) : bool :=
  (true && ((si <=? j)%nat && (j <? na)%nat) && ((sj <=? k)%nat && (k <? j)%nat))
  || (tp && ((Nat.max na si <=? j)%nat && (j <? nr)%nat) && ((sj <=? k)%nat && (k <? na)%nat)).

Lemma if_or_disj (c1 c2 : bool) (v : RV3) : c1 && c2 = false ->
  vadd (if c1 then v else vzero) (if c2 then v else vzero) = if c1 || c2 then v else vzero.
Proof. destruct c1, c2; cbn; intros H; try discriminate; now rewrite ?vadd_0_l, ?vadd_0_r. Qed.

Theorem pair_loops_sum tp si sj na nr (acc : list RV3) k :
  (na <= nr)%nat -> (k < nr)%nat -> (nr <= length acc)%nat ->
  nth_d vzero (pair_loops RNum pf (fun i => i) gb soft2 ps tp si sj na nr acc) k =
  vadd (nth_d vzero acc k)
       (VSum (seq 0 nr) (fun j => vadd (if cA si sj na nr k j then Aterm k j else vzero)
                                       (if cB tp si sj na nr k j then Bterm j k else vzero))).
Proof.
  intros Hna Hk Hlen. rewrite pair_loops_run, run_pairs_nth by lia. f_equal.
  unfold pairs_of. rewrite VSum_app.
  rewrite (rows_sum true sj si na nr (fun i => i) k); [|lia|intros; lia|lia].
  rewrite (rows_sum tp sj (Nat.max na si) nr nr (fun _ => na) k); [|lia|intros; lia|lia].
  rewrite <- VSum_vadd. apply VSum_ext. intros j _. rewrite vadd_swap. unfold cA, cB. f_equal.
  - apply if_or_disj.
    destruct (Nat.ltb_spec k na), (Nat.leb_spec (Nat.max na si) k); cbn; rewrite ?andb_false_r; try reflexivity; lia.
  - apply if_or_disj.
    destruct (Nat.ltb_spec j na), (Nat.leb_spec (Nat.max na si) j); cbn; rewrite ?andb_false_r; try reflexivity.
    lia.
Qed.
End PairLoops.
