(* C13: the merge and hard-sphere resolvers over the Coq reals. *)
From Coq Require Import List ZArith Reals Lra Lia Psatz Bool.
From RV Require Import Common.Num Common.RealNum C13.Model.
Import ListNotations.
Open Scope R_scope.

(* ------------------------------------------------------------------ merge *)
Definition mom (p : particle R) : R * R * R := (pm p * pvx p, pm p * pvy p, pm p * pvz p).
Definition mpos (p : particle R) : R * R * R := (pm p * px p, pm p * py p, pm p * pz p).
Definition add3 (a b : R * R * R) : R * R * R :=
  let '(a1, a2, a3) := a in let '(b1, b2, b3) := b in (a1 + b1, a2 + b2, a3 + b3).

(* index that survives / index that is removed *)
Definition keep_ix (p1 p2 : Z) : Z := if (p2 <? p1)%Z then p2 else p1.
Definition gone_ix (p1 p2 : Z) : Z := if (p2 <? p1)%Z then p1 else p2.

Lemma tr3 (a b c a' b' c' : R) : a = a' -> b = b' -> c = c' -> (a, b, c) = (a', b', c').
Proof. congruence. Qed.

Lemma Reqb_false a b : a <> b -> Reqb a b = false.
Proof. intros H. unfold Reqb. destruct (Req_EM_T a b); [contradiction|reflexivity]. Qed.

Lemma Reqb_true a b : a = b -> Reqb a b = true.
Proof. intros H. unfold Reqb. destruct (Req_EM_T a b); [reflexivity|contradiction]. Qed.

(* mass sum non-zero, or two massless (test) particles (then the code merges at the midpoint with the mean velocity) *)
Definition mass_ok (a b : particle R) : Prop := pm a + pm b <> 0 \/ (pm a = 0 /\ pm b = 0).

Theorem merge_conserves_gen t cb ps p1 p2 a b :
  zth ps p1 = Some a -> zth ps p2 = Some b -> plc a <> t -> plc b <> t -> mass_ok a b ->
  exists q,
    merge RNum t cb ps p1 p2 = (upd ps (Z.to_nat (keep_ix p1 p2)) q, (if (p2 <? p1)%Z then 1 else 2)%Z) /\
    pm q = pm a + pm b /\ mom q = add3 (mom a) (mom b) /\ mpos q = add3 (mpos a) (mpos b) /\
    pr q = cb /\ plc q = t /\ phash q = phash (if (p2 <? p1)%Z then b else a) /\
    (pm a = 0 -> pm b = 0 ->
       px q = (px a + px b) / 2 /\ py q = (py a + py b) / 2 /\ pz q = (pz a + pz b) / 2 /\
       pvx q = (pvx a + pvx b) / 2 /\ pvy q = (pvy a + pvy b) / 2 /\ pvz q = (pvz a + pvz b) / 2).
Proof.
  intros Z1 Z2 La Lb Hm. unfold merge, keep_ix. rewrite Z1, Z2.
  cbn [neqb RNum]. rewrite (Reqb_false _ _ La), (Reqb_false _ _ Lb). cbn [orb].
  destruct Hm as [Hm|[Ha Hb]].
  - destruct (p2 <? p1)%Z.
    + cbn [nadd nzero RNum]. rewrite (Reqb_false (pm b + pm a) 0) by lra.
      eexists; (split; [reflexivity|]);
        unfold mom, mpos, add3; cbn [setp pm pvx pvy pvz px py pz pr plc phash nadd nmul ndiv none RNum];
        (split; [lra|]); (split; [apply tr3; field; lra|]); (split; [apply tr3; field; lra|]); repeat split; try reflexivity; exfalso; lra.
    + cbn [nadd nzero RNum]. rewrite (Reqb_false (pm a + pm b) 0) by lra.
      eexists; (split; [reflexivity|]);
        unfold mom, mpos, add3; cbn [setp pm pvx pvy pvz px py pz pr plc phash nadd nmul ndiv none RNum];
        (split; [lra|]); (split; [apply tr3; field; lra|]); (split; [apply tr3; field; lra|]); repeat split; try reflexivity; exfalso; lra.
  - destruct (p2 <? p1)%Z.
    + cbn [nadd nzero RNum]. rewrite (Reqb_true (pm b + pm a) 0) by lra.
      eexists; (split; [reflexivity|]);
        unfold mom, mpos, add3; cbn [setp pm pvx pvy pvz px py pz pr plc phash nadd nmul ndiv none RNum]; rewrite Ha, Hb;
        (split; [lra|]); (split; [apply tr3; lra|]); (split; [apply tr3; lra|]); repeat split; try reflexivity; lra.
    + cbn [nadd nzero RNum]. rewrite (Reqb_true (pm a + pm b) 0) by lra.
      eexists; (split; [reflexivity|]);
        unfold mom, mpos, add3; cbn [setp pm pvx pvy pvz px py pz pr plc phash nadd nmul ndiv none RNum]; rewrite Ha, Hb;
        (split; [lra|]); (split; [apply tr3; lra|]); (split; [apply tr3; lra|]); repeat split; try reflexivity; lra.
Qed.

Theorem merge_conserves_thm t cb ps p1 p2 a b :
  zth ps p1 = Some a -> zth ps p2 = Some b -> plc a <> t -> plc b <> t -> pm a + pm b <> 0 ->
  exists q,
    merge RNum t cb ps p1 p2 = (upd ps (Z.to_nat (keep_ix p1 p2)) q, (if (p2 <? p1)%Z then 1 else 2)%Z) /\
    pm q = pm a + pm b /\ mom q = add3 (mom a) (mom b) /\ mpos q = add3 (mpos a) (mpos b) /\
    pr q = cb /\ plc q = t /\ phash q = phash (if (p2 <? p1)%Z then b else a).
Proof.
  intros Z1 Z2 La Lb Hm.
  destruct (merge_conserves_gen t cb ps p1 p2 a b Z1 Z2 La Lb (or_introl Hm)) as (q & H1 & H2 & H3 & H4 & H5 & H6 & H7 & _).
  exists q. repeat split; assumption.
Qed.

(* the outcome removes exactly one of the two indices: the larger one *)
Lemma merge_outcome_bits p1 p2 :
  let o := (if (p2 <? p1)%Z then 1 else 2)%Z in
  (Z.testbit o 0 = (p2 <? p1)%Z) /\ (Z.testbit o 1 = negb (p2 <? p1)%Z).
Proof. destruct (p2 <? p1)%Z; split; reflexivity. Qed.

(* particles already merged in this step are left alone (the last_collision == t guard) *)
Lemma merge_guard t cb ps p1 p2 a b :
  zth ps p1 = Some a -> zth ps p2 = Some b -> (plc a = t \/ plc b = t) -> merge RNum t cb ps p1 p2 = (ps, 0%Z).
Proof.
  intros Z1 Z2 H. unfold merge. rewrite Z1, Z2. cbn [neqb RNum]. unfold Reqb.
  destruct H as [->| ->].
  - destruct (Req_EM_T t t); [reflexivity|contradiction].
  - destruct (Req_EM_T (plc a) t); [reflexivity|]. destruct (Req_EM_T t t); [reflexivity|contradiction].
Qed.

(* ------------------------------------------------------------------ hard sphere *)
Section HS.
Variables (t eps mcv st ct sp cp : R) (g : vec6 R) (p1 p2 q1 q2 : particle R).
Let x21 := px p1 + gx g - px p2.
Let y21 := py p1 + gy g - py p2.
Let z21 := pz p1 + gz g - pz p2.
Let vx21 := pvx p1 + gvx g - pvx p2.
Let vy21 := pvy p1 + gvy g - pvy p2.
Let vz21 := pvz p1 + gvz g - pvz p2.
Let vn := cp * vx21 + sp * (ct * vy21 + st * vz21).
Let dv := hs_dvx2 RNum eps mcv p1 p2 x21 y21 z21 vn.
(* p1pf and p2pf of the code: the mass fractions, or 1/2 each for two massless particles *)
Let A := if negb (Reqb (pm p1 + pm p2) 0) then pm p2 / (pm p1 + pm p2) else 1 / 2.
Let B := if negb (Reqb (pm p1 + pm p2) 0) then pm p1 / (pm p1 + pm p2) else 1 / 2.

Hypothesis HS : hardsphere RNum t eps mcv st ct sp cp g p1 p2 = Some (q1, q2).

Lemma hs_shape :
  vx21 * x21 + vy21 * y21 + vz21 * z21 <= 0 /\
  x21 * x21 + y21 * y21 + z21 * z21 <= (pr p1 + pr p2) * (pr p1 + pr p2) /\
  pvx q1 = pvx p1 + A * (cp * dv) /\ pvy q1 = pvy p1 + A * (ct * (sp * dv)) /\ pvz q1 = pvz p1 + A * (st * (sp * dv)) /\
  pvx q2 = pvx p2 - B * (cp * dv) /\ pvy q2 = pvy p2 - B * (ct * (sp * dv)) /\ pvz q2 = pvz p2 - B * (st * (sp * dv)) /\
  pm q1 = pm p1 /\ pm q2 = pm p2 /\
  (px q1, py q1, pz q1) = (px p1, py p1, pz p1) /\ (px q2, py q2, pz q2) = (px p2, py p2, pz p2).
Proof.
  revert HS. unfold hardsphere, hs_x21, hs_v21. cbn [nadd nsub nmul ndiv nzero none nltb RNum].
  fold x21 y21 z21 vx21 vy21 vz21.
  unfold Rltb.
  destruct (Rlt_dec ((pr p1 + pr p2) * (pr p1 + pr p2)) (x21 * x21 + y21 * y21 + z21 * z21)); [discriminate|].
  destruct (Rlt_dec 0 (vx21 * x21 + vy21 * y21 + vz21 * z21)); [discriminate|].
  intros H. injection H as <- <-. cbn [setp pvx pvy pvz pm px py pz].
  repeat split; try lra; reflexivity.
Qed.

Lemma AB_sum : A + B = 1.
Proof.
  unfold A, B, Reqb. destruct (Req_EM_T (pm p1 + pm p2) 0) as [E|E]; cbn [negb]; [lra|field; exact E].
Qed.
Lemma AB_frac : pm p1 + pm p2 <> 0 -> A = pm p2 / (pm p1 + pm p2) /\ B = pm p1 / (pm p1 + pm p2).
Proof. intros H. unfold A, B. rewrite (Reqb_false _ _ H). cbn [negb]. split; reflexivity. Qed.
Lemma AB_massless : pm p1 = 0 -> pm p2 = 0 -> A = 1 / 2 /\ B = 1 / 2.
Proof. intros H1 H2. unfold A, B. rewrite (Reqb_true (pm p1 + pm p2) 0) by lra. cbn [negb]. split; reflexivity. Qed.

Theorem hs_momentum : pm p1 + pm p2 <> 0 ->
  pm q1 * pvx q1 + pm q2 * pvx q2 = pm p1 * pvx p1 + pm p2 * pvx p2 /\
  pm q1 * pvy q1 + pm q2 * pvy q2 = pm p1 * pvy p1 + pm p2 * pvy p2 /\
  pm q1 * pvz q1 + pm q2 * pvz q2 = pm p1 * pvz p1 + pm p2 * pvz p2.
Proof.
  intros Hm. destruct hs_shape as (_ & _ & X1 & Y1 & Z1 & X2 & Y2 & Z2 & M1 & M2 & _).
  destruct (AB_frac Hm) as [EA EB]. rewrite X1, Y1, Z1, X2, Y2, Z2, M1, M2, EA, EB. repeat split; field; exact Hm.
Qed.

Lemma dv_lower : - ((1 + eps) * vn) <= dv.
Proof.
  unfold dv, hs_dvx2. cbn [nadd nsub nmul ndiv nneg nsqrt none nltb RNum]. unfold Rltb.
  repeat match goal with |- context [Rlt_dec ?a ?b] => destruct (Rlt_dec a b) end; lra.
Qed.

Definition ke (a b : particle R) : R :=
  / 2 * pm a * (pvx a * pvx a + pvy a * pvy a + pvz a * pvz a) +
  / 2 * pm b * (pvx b * pvx b + pvy b * pvy b + pvz b * pvz b).

Lemma n_unit : ct * ct + st * st = 1 -> cp * cp + sp * sp = 1 ->
  cp * cp + (ct * sp) * (ct * sp) + (st * sp) * (st * sp) = 1.
Proof. intros H1 H2. replace (cp * cp + ct * sp * (ct * sp) + st * sp * (st * sp)) with (cp * cp + sp * sp * (ct * ct + st * st)) by ring. rewrite H1. lra. Qed.

Theorem hs_elastic :
  eps = 1 -> mcv = 0 -> ct * ct + st * st = 1 -> cp * cp + sp * sp = 1 ->
  gvx g = 0 -> gvy g = 0 -> gvz g = 0 -> pm p1 + pm p2 <> 0 ->
  ke q1 q2 = ke p1 p2.
Proof.
  intros He Hc H1 H2 G1 G2 G3 Hm.
  destruct hs_shape as (_ & _ & X1 & Y1 & Z1 & X2 & Y2 & Z2 & M1 & M2 & _).
  pose proof (n_unit H1 H2) as Hn.
  assert (Hke : ke q1 q2 = ke p1 p2 + pm p1 * pm p2 / (pm p1 + pm p2) * dv *
            (2 * vn + dv * (cp * cp + (ct * sp) * (ct * sp) + (st * sp) * (st * sp))) / 2).
  { destruct (AB_frac Hm) as [EA EB]. unfold ke. rewrite X1, Y1, Z1, X2, Y2, Z2, M1, M2, EA, EB. unfold vn, vx21, vy21, vz21. rewrite G1, G2, G3. field. exact Hm. }
  rewrite Hke, Hn.
  assert (Hd : dv = - (2 * vn) \/ dv = 0).
  { unfold dv, hs_dvx2. rewrite He, Hc. cbn [nadd nsub nmul ndiv nneg nsqrt none nltb RNum]. unfold Rltb.
    repeat match goal with |- context [Rlt_dec ?a ?b] => destruct (Rlt_dec a b) end;
      first [left; ring | right; ring]. }
  destruct Hd as [-> | ->]; field; exact Hm.
Qed.

(* libm's atan2/sin/cos deliver spherical coordinates of the separation vector:
   (x21, y21, z21) = Rr (cos phi, sin phi cos theta, sin phi sin theta), Rr >= 0 *)
(* holds for every pair of masses, two massless particles included (the code then shares the impulse equally) *)
Theorem hs_separating_any Rr :
  0 <= Rr -> x21 = Rr * cp -> y21 = Rr * (sp * ct) -> z21 = Rr * (sp * st) ->
  ct * ct + st * st = 1 -> cp * cp + sp * sp = 1 -> 0 <= eps ->
  0 <= (pvx q1 + gvx g - pvx q2) * x21 + (pvy q1 + gvy g - pvy q2) * y21 + (pvz q1 + gvz g - pvz q2) * z21.
Proof.
  intros HR EX EY EZ H1 H2 He.
  destruct hs_shape as (Happ & _ & X1 & Y1 & Z1 & X2 & Y2 & Z2 & _).
  pose proof (n_unit H1 H2) as Hn. pose proof dv_lower as Hd.
  assert (HAB : A + B = 1) by apply AB_sum.
  assert (E1 : vx21 * x21 + vy21 * y21 + vz21 * z21 = Rr * vn) by (rewrite EX, EY, EZ; unfold vn; ring).
  assert (E2 : (pvx q1 + gvx g - pvx q2) * x21 + (pvy q1 + gvy g - pvy q2) * y21 + (pvz q1 + gvz g - pvz q2) * z21
               = Rr * vn + Rr * dv * (A + B) * (cp * cp + (ct * sp) * (ct * sp) + (st * sp) * (st * sp))).
  { rewrite X1, Y1, Z1, X2, Y2, Z2. rewrite EX, EY, EZ. unfold vn, vx21, vy21, vz21. ring. }
  rewrite E2, HAB, Hn. rewrite E1 in Happ.
  (* Rr*vn <= 0, dv >= -(1+eps) vn, Rr >= 0, eps >= 0 *)
  assert (0 <= Rr * (dv + (1 + eps) * vn)) by (apply Rmult_le_pos; lra).
  assert (0 <= eps * (- (Rr * vn))) by (apply Rmult_le_pos; lra).
  nra.
Qed.
Theorem hs_separating Rr :
  0 <= Rr -> x21 = Rr * cp -> y21 = Rr * (sp * ct) -> z21 = Rr * (sp * st) ->
  ct * ct + st * st = 1 -> cp * cp + sp * sp = 1 -> 0 <= eps -> pm p1 + pm p2 <> 0 ->
  0 <= (pvx q1 + gvx g - pvx q2) * x21 + (pvy q1 + gvy g - pvy q2) * y21 + (pvz q1 + gvz g - pvz q2) * z21.
Proof. intros HR EX EY EZ H1 H2 He _. apply (hs_separating_any Rr); assumption. Qed.

(* ---- general coefficient of restitution (no minimum_collision_velocity clamp: mcv = 0 and the normal component of the
   relative velocity is not positive, which the spherical-coordinate identities make equivalent to "approaching") *)
Lemma dv_unclamped : mcv = 0 -> vn <= 0 -> 0 <= 1 + eps -> dv = - ((1 + eps) * vn).
Proof.
  intros Hc Hv He. unfold dv, hs_dvx2. rewrite Hc. cbn [nadd nsub nmul ndiv nneg nsqrt none nltb RNum]. unfold Rltb.
  assert (Hd : 0 <= - ((1 + eps) * vn)) by (assert (0 <= (1 + eps) * (- vn)) by (apply Rmult_le_pos; lra); lra).
  repeat match goal with |- context [Rlt_dec ?a ?b] => destruct (Rlt_dec a b) end; try reflexivity; exfalso;
    match goal with H : - ((1 + eps) * vn) < ?m |- _ => assert (m = 0) by ring; lra end.
Qed.

(* Newton's law of restitution: the normal component of the relative velocity is reversed and scaled by eps *)
Theorem hs_restitution_any :
  mcv = 0 -> vn <= 0 -> 0 <= 1 + eps -> ct * ct + st * st = 1 -> cp * cp + sp * sp = 1 ->
  cp * (pvx q1 + gvx g - pvx q2) + sp * (ct * (pvy q1 + gvy g - pvy q2) + st * (pvz q1 + gvz g - pvz q2)) = - eps * vn.
Proof.
  intros Hc Hv He H1 H2.
  destruct hs_shape as (_ & _ & X1 & Y1 & Z1 & X2 & Y2 & Z2 & _).
  pose proof (n_unit H1 H2) as Hn. pose proof (dv_unclamped Hc Hv He) as Hd.
  assert (HAB : A + B = 1) by apply AB_sum.
  assert (E : cp * (pvx q1 + gvx g - pvx q2) + sp * (ct * (pvy q1 + gvy g - pvy q2) + st * (pvz q1 + gvz g - pvz q2))
              = vn + dv * (A + B) * (cp * cp + (ct * sp) * (ct * sp) + (st * sp) * (st * sp))).
  { rewrite X1, Y1, Z1, X2, Y2, Z2. unfold vn, vx21, vy21, vz21. ring. }
  rewrite E, HAB, Hn, Hd. ring.
Qed.
Theorem hs_restitution :
  mcv = 0 -> vn <= 0 -> 0 <= 1 + eps -> ct * ct + st * st = 1 -> cp * cp + sp * sp = 1 -> pm p1 + pm p2 <> 0 ->
  cp * (pvx q1 + gvx g - pvx q2) + sp * (ct * (pvy q1 + gvy g - pvy q2) + st * (pvz q1 + gvz g - pvz q2)) = - eps * vn.
Proof. intros Hc Hv He H1 H2 _. apply hs_restitution_any; assumption. Qed.

(* kinetic energy: loses exactly (1 - eps^2) of the energy of the normal relative motion (reduced mass mu) *)
Theorem hs_energy :
  mcv = 0 -> vn <= 0 -> 0 <= 1 + eps -> ct * ct + st * st = 1 -> cp * cp + sp * sp = 1 ->
  gvx g = 0 -> gvy g = 0 -> gvz g = 0 -> pm p1 + pm p2 <> 0 ->
  ke q1 q2 = ke p1 p2 - pm p1 * pm p2 / (pm p1 + pm p2) * (1 - eps * eps) * (vn * vn) / 2.
Proof.
  intros Hc Hv He H1 H2 G1 G2 G3 Hm.
  destruct hs_shape as (_ & _ & X1 & Y1 & Z1 & X2 & Y2 & Z2 & M1 & M2 & _).
  pose proof (n_unit H1 H2) as Hn. pose proof (dv_unclamped Hc Hv He) as Hd.
  assert (Hke : ke q1 q2 = ke p1 p2 + pm p1 * pm p2 / (pm p1 + pm p2) * dv *
            (2 * vn + dv * (cp * cp + (ct * sp) * (ct * sp) + (st * sp) * (st * sp))) / 2).
  { destruct (AB_frac Hm) as [EA EB]. unfold ke. rewrite X1, Y1, Z1, X2, Y2, Z2, M1, M2, EA, EB. unfold vn, vx21, vy21, vz21. rewrite G1, G2, G3. field. exact Hm. }
  rewrite Hke, Hn, Hd. field. exact Hm.
Qed.

(* two massless particles: each receives half of the velocity change (finite), masses stay 0 *)
Theorem hs_massless : pm p1 = 0 -> pm p2 = 0 ->
  pvx q1 - pvx p1 = - (pvx q2 - pvx p2) /\ pvy q1 - pvy p1 = - (pvy q2 - pvy p2) /\ pvz q1 - pvz p1 = - (pvz q2 - pvz p2) /\
  pvx q1 = pvx p1 + cp * dv / 2 /\ pm q1 = 0 /\ pm q2 = 0.
Proof.
  intros H1 H2. destruct hs_shape as (_ & _ & X1 & Y1 & Z1 & X2 & Y2 & Z2 & M1 & M2 & _).
  destruct (AB_massless H1 H2) as [EA EB]. rewrite X1, Y1, Z1, X2, Y2, Z2, M1, M2, EA, EB. repeat split; lra.
Qed.
End HS.

(* normal component (along the rotated x axis) of the relative velocity of p1 (with the ghost-box velocity) w.r.t. p2 *)
Definition hs_vn (st ct sp cp : R) (g : vec6 R) (p1 p2 : particle R) : R :=
  cp * (pvx p1 + gvx g - pvx p2) + sp * (ct * (pvy p1 + gvy g - pvy p2) + st * (pvz p1 + gvz g - pvz p2)).
