(* C13: the LINE (and LINETREE leaf) criterion over R is "the two straight paths of the last step
   came within the sum of the radii", and the LINE search enumerates exactly the pairs i<j passing it. *)
From Coq Require Import List ZArith Reals Lra Lia Psatz Bool.
From RV Require Import Common.Num Common.RealNum C13.Model C13.Search.
Import ListNotations.
Open Scope R_scope.

Section Quad.
(* f s = |d - s dt v|^2 = A - 2 s dt B + s^2 dt^2 C with A = d.d, B = d.v, C = v.v *)
Variables A B C dt : R.
Hypothesis HC : 0 <= C.
Hypothesis HB0 : C = 0 -> B = 0.
Hypothesis Hdt : dt <> 0.
Definition qf (s : R) : R := A - 2 * s * dt * B + s * s * dt * dt * C.
Local Notation tc := (B / C).
Local Notation ss := (B / C / dt).

Lemma B_ss : B = ss * dt * C.
Proof.
  destruct (Req_dec C 0) as [E|E].
  - rewrite (HB0 E), E. unfold Rdiv. ring.
  - field. split; assumption.
Qed.
Lemma qf_ss : qf ss = A - 2 * tc * B + tc * tc * C.
Proof. unfold qf. generalize (B / C). intros t. field. exact Hdt. Qed.

Lemma qf_lower s : 0 <= s <= 1 ->
  (0 <= ss <= 1 -> qf ss <= qf s) /\ (ss < 0 -> qf 0 <= qf s) /\ (1 < ss -> qf 1 <= qf s).
Proof.
  intros Hs. pose proof B_ss as HB. unfold qf.
  assert (HK : 0 <= dt * dt * C) by (apply Rmult_le_pos; [apply (Rle_0_sqr dt)|exact HC]).
  clear HB0. remember (B / C / dt) as u eqn:Eu. clear Eu. rewrite HB. clear HB.
  remember (dt * dt * C) as K eqn:EK.
  split; [|split]; intros Hss.
  - assert (E : A - 2 * s * dt * (u * dt * C) + s * s * dt * dt * C
                = A - 2 * u * dt * (u * dt * C) + u * u * dt * dt * C + K * ((s - u) * (s - u))) by (rewrite EK; ring).
    rewrite E. clear E EK. assert (0 <= K * ((s - u) * (s - u))) by (apply Rmult_le_pos; [exact HK|apply (Rle_0_sqr (s - u))]). lra.
  - assert (E : A - 2 * s * dt * (u * dt * C) + s * s * dt * dt * C
                = A - 2 * 0 * dt * (u * dt * C) + 0 * 0 * dt * dt * C + K * (s * (s - 2 * u))) by (rewrite EK; ring).
    rewrite E. clear E EK. assert (0 <= K * (s * (s - 2 * u))) by (apply Rmult_le_pos; [exact HK|apply Rmult_le_pos; lra]). lra.
  - assert (E : A - 2 * s * dt * (u * dt * C) + s * s * dt * dt * C
                = A - 2 * 1 * dt * (u * dt * C) + 1 * 1 * dt * dt * C + K * ((1 - s) * (2 * u - s - 1))) by (rewrite EK; ring).
    rewrite E. clear E EK. assert (0 <= K * ((1 - s) * (2 * u - s - 1))) by (apply Rmult_le_pos; [exact HK|apply Rmult_le_pos; lra]). lra.
Qed.

(* the code's rmin2_ab, with MIN(a,b) = (a > b ? b : a) *)
Definition rmin_code : R :=
  let m := cmin RNum (qf 0) (qf 1) in
  if Rleb 0 (tc / dt) && Rleb (tc / dt) 1 then cmin RNum m (A - 2 * tc * B + tc * tc * C) else m.

Lemma cmin_spec a b : cmin RNum a b <= a /\ cmin RNum a b <= b /\ (cmin RNum a b = a \/ cmin RNum a b = b).
Proof. unfold cmin. cbn [nltb RNum]. unfold Rltb. destruct (Rlt_dec b a); repeat split; auto; lra. Qed.

Theorem rmin_code_is_min X : rmin_code <= X <-> exists s, 0 <= s <= 1 /\ qf s <= X.
Proof.
  unfold rmin_code. unfold Rleb.
  destruct (cmin_spec (qf 0) (qf 1)) as (M0 & M1 & Mc).
  split.
  - intros H.
    assert (End : cmin RNum (qf 0) (qf 1) <= X -> exists s, 0 <= s <= 1 /\ qf s <= X).
    { intros H'. destruct Mc as [E|E]; rewrite E in H'; [exists 0|exists 1]; (split; [lra|exact H']). }
    destruct (Rle_dec 0 ss) as [L0|L0]; destruct (Rle_dec ss 1) as [L1|L1]; cbn [andb] in H; try (apply End; exact H).
    destruct (cmin_spec (cmin RNum (qf 0) (qf 1)) (A - 2 * tc * B + tc * tc * C)) as (_ & _ & [E|E]); rewrite E in H.
    + apply End; exact H.
    + exists ss. split; [lra|]. rewrite qf_ss. exact H.
  - intros (s & Hs & Hq). destruct (qf_lower s Hs) as (Q1 & Q2 & Q3).
    destruct (Rle_dec 0 ss) as [L0|L0]; destruct (Rle_dec ss 1) as [L1|L1]; cbn [andb].
    + rewrite <- qf_ss. destruct (cmin_spec (cmin RNum (qf 0) (qf 1)) (qf ss)) as (_ & M2 & _).
      specialize (Q1 (conj L0 L1)). clear Q2 Q3. lra.
    + assert (H : 1 < ss) by (clear Q1 Q2 Q3; lra). specialize (Q3 H). clear Q1 Q2. lra.
    + assert (H : ss < 0) by (clear Q1 Q2 Q3; lra). specialize (Q2 H). clear Q1 Q3. lra.
    + assert (H : ss < 0) by (clear Q1 Q2 Q3; lra). specialize (Q2 H). clear Q1 Q3. lra.
Qed.
End Quad.

(* squared distance between the image of p1 (end position g, shifted by the ghost box) and p2 at the fraction s
   of the last step, both moving on straight lines *)
Definition dist2_at (dt : R) (g : vec6 R) (p2 : particle R) (s : R) : R :=
  let dx := gx g - px p2 in let dy := gy g - py p2 in let dz := gz g - pz p2 in
  let vx := gvx g - pvx p2 in let vy := gvy g - pvy p2 in let vz := gvz g - pvz p2 in
  (dx - s * dt * vx) * (dx - s * dt * vx) + (dy - s * dt * vy) * (dy - s * dt * vy) + (dz - s * dt * vz) * (dz - s * dt * vz).

Theorem line_test_real dt g r1 p2 : dt <> 0 ->
  (line_test RNum dt g r1 p2 = true <->
   exists s, 0 <= s <= 1 /\ dist2_at dt g p2 s <= (r1 + pr p2) * (r1 + pr p2)).
Proof.
  intros Hdt.
  set (dx := gx g - px p2). set (dy := gy g - py p2). set (dz := gz g - pz p2).
  set (vx := gvx g - pvx p2). set (vy := gvy g - pvy p2). set (vz := gvz g - pvz p2).
  set (A := dx * dx + dy * dy + dz * dz). set (B := dx * vx + dy * vy + dz * vz). set (C := vx * vx + vy * vy + vz * vz).
  assert (HC : 0 <= C) by (unfold C; nra).
  assert (HB0 : C = 0 -> B = 0).
  { unfold C, B. intros E. assert (vx = 0) by nra. assert (vy = 0) by nra. assert (vz = 0) by nra. subst vx vy vz.
    rewrite H, H0, H1. ring. }
  assert (Eq : line_rmin2 RNum dt g p2 = rmin_code A B C dt).
  { unfold line_rmin2, rmin_code, qf. cbn [nadd nsub nmul ndiv nzero none nleb RNum].
    fold dx dy dz vx vy vz. fold A B C.
    replace (A - 2 * 0 * dt * B + 0 * 0 * dt * dt * C) with A by ring.
    replace ((dx - dt * vx) * (dx - dt * vx) + (dy - dt * vy) * (dy - dt * vy) + (dz - dt * vz) * (dz - dt * vz))
      with (A - 2 * 1 * dt * B + 1 * 1 * dt * dt * C) by (unfold A, B, C; ring).
    replace ((dx - B / C * vx) * (dx - B / C * vx) + (dy - B / C * vy) * (dy - B / C * vy) + (dz - B / C * vz) * (dz - B / C * vz))
      with (A - 2 * (B / C) * B + B / C * (B / C) * C) by (unfold A, B, C; ring).
    reflexivity. }
  unfold line_test. cbn [nadd nmul nltb RNum]. rewrite Eq. unfold Rltb.
  destruct (Rlt_dec ((r1 + pr p2) * (r1 + pr p2)) (rmin_code A B C dt)) as [L|L]; cbn [negb].
  - split; [discriminate|]. intros (s & Hs & Hq).
    assert (rmin_code A B C dt <= (r1 + pr p2) * (r1 + pr p2)).
    { apply (rmin_code_is_min A B C dt HC HB0 Hdt). exists s. split; [exact Hs|].
      unfold dist2_at in Hq. fold dx dy dz vx vy vz in Hq. unfold qf, A, B, C. nra. }
    lra.
  - split; [|reflexivity]. intros _.
    assert (Hr : rmin_code A B C dt <= (r1 + pr p2) * (r1 + pr p2)) by lra.
    apply (rmin_code_is_min A B C dt HC HB0 Hdt) in Hr. destruct Hr as (s & Hs & Hq).
    exists s. split; [exact Hs|]. unfold dist2_at. fold dx dy dz vx vy vz. unfold qf, A, B, C in Hq. nra.
Qed.

(* LINE enumerates exactly the pairs i<j (each unordered pair once per ghost box) that pass the test *)
Section EnumLine.
Context {T : Type} (N : Num T).
Definition line_hit (gbf : Z -> Z -> Z -> vec6 T) (dt : T) (ps : list (particle T)) (a b c : Z) (i j : nat) : bool :=
  line_test N dt (gb_shift N (gbf a b c) (znth_p N ps i)) (pr (znth_p N ps i)) (znth_p N ps j).

Theorem line_enumerates gbf ngx ngy ngz dt ps e :
  In e (search_line N gbf ngx ngy ngz dt ps) <->
  exists a b c i j,
    e = (Z.of_nat i, Z.of_nat j, gbid a b c) /\
    In a (ring (gcol ngx)) /\ In b (ring (gcol ngy)) /\ In c (ring (gcol ngz)) /\
    (i < j)%nat /\ (j < length ps)%nat /\ line_hit gbf dt ps a b c i j = true.
Proof.
  unfold search_line, line_hit. split.
  - intros H. apply in_flat_map in H. destruct H as (a & Ha & H).
    apply in_flat_map in H. destruct H as (b & Hb & H).
    apply in_flat_map in H. destruct H as (c & Hc & H).
    apply in_flat_map in H. destruct H as (i & Hi & H).
    apply in_flat_map in H. destruct H as (j & Hj & H).
    apply in_seq in Hi. apply in_seq in Hj.
    destruct (line_test N _ _ _ _) eqn:Et; [|contradiction].
    destruct H as [<-|[]]. exists a, b, c, i, j. repeat split; auto; lia.
  - intros (a & b & c & i & j & -> & Ha & Hb & Hc & Hi & Hj & Ht).
    apply in_flat_map. exists a. split; [exact Ha|].
    apply in_flat_map. exists b. split; [exact Hb|].
    apply in_flat_map. exists c. split; [exact Hc|].
    apply in_flat_map. exists i. split; [apply in_seq; lia|].
    apply in_flat_map. exists j. split; [apply in_seq; lia|].
    rewrite Ht. left. reflexivity.
Qed.
End EnumLine.
