(* C13: what the code does in the degenerate corners that the theorems over R exclude by hypothesis, shown on the binary64
   instance of the model (the same Gallina terms that are compared bit for bit with the library). *)
From Coq Require Import List ZArith Bool PrimFloat.
From RV Require Import Common.Num Common.FloatNum C13.Model C13.LoopNA C13.Run C13.Fixup.
Import ListNotations.
Open Scope float_scope.

Definition tp (x vx : float) (h : Z) : fp := mkF x 0 0 vx 0 0 0 0x1.999999999999ap-4 0 h.      (* massless, r = 0.1 *)

(* m_a + m_b = 0 with two massless (test) particles (outside the hypothesis m_a + m_b <> 0 of C13_merge_conserves, covered by
   C13_merge_conserves_massless over R): the survivor sits at the midpoint with the mean velocity, everything finite *)
Lemma merge_massless_midpoint :
  let '(ps', o) := merge FNum 1 0x1.999999999999ap-4 [tp 5 0x1.999999999999ap-4 1000; tp 0x1.499999999999ap+2 (-0x1.999999999999ap-4) 1001] 0%Z 1%Z in
  o = 2%Z /\ map (fun p : fp => (px p, pvx p, pm p)) (firstn 1 ps') = [(0x1.44ccccccccccdp+2, 0, 0)].
Proof. vm_compute. split; reflexivity. Qed.

(* m_1 + m_2 = 0 in a hard-sphere bounce: both get half of the velocity change; here (restitution 1) the velocities are exchanged *)
Lemma hardsphere_massless_exchange :
  match hardsphere FNum 1 1 0 0 1 0 (-1) (mkV6 0 0 0 0 0 0) (tp 5 0x1.999999999999ap-4 1000) (tp 0x1.499999999999ap+2 (-0x1.999999999999ap-4) 1001) with
  | Some (q1, q2) => (pvx q1, pvx q2)
  | None => (nan, nan)
  end = (-0x1.999999999999ap-4, 0x1.999999999999ap-4).
Proof. vm_compute. reflexivity. Qed.

(* a particle with a NaN coordinate passes the DIRECT pair test against every partner it is compared with here: the test is
   written as "skip if r2 > sr*sr / if dv.dx > 0" and both comparisons are false for NaN *)
Lemma direct_test_nan_passes :
  direct_test FNum (mkV6 nan 0 0 0 0 0) 0 (mkF 1000 1000 1000 0 0 0 1 0 0 7%Z) = true.
Proof. vm_compute. reflexivity. Qed.

(* LINE with dt_last_done = 0 (hypothesis dt <> 0 of C13_line_complete_and_sound): t_closest/dt is NaN or infinite, the
   closest-approach branch is skipped and the test is the overlap test at the (identical) end positions *)
Lemma line_dt_zero_is_overlap_test :
  line_test FNum 0 (mkV6 0 0 0 1 0 0) 0x1p-1 (mkF 0x1.8p-1 0 0 0 0 0 1 0x1p-2 0 7%Z) = true /\
  line_test FNum 0 (mkV6 0 0 0 1 0 0) 0x1p-1 (mkF 0x1.8p+0 0 0 0 0 0 1 0x1p-2 0 7%Z) = false /\
  line_test FNum 0 (mkV6 0 0 0 0 0 0) 0x1p-1 (mkF 0x1.8p-1 0 0 0 0 0 1 0x1p-2 0 7%Z) = true.
Proof. vm_compute. repeat split; reflexivity. Qed.

(* the smallest particle numbers: nothing is found, nothing is resolved *)
Lemma search_empty :
  search_direct FNum (gb_periodic FNum 1 1 1) 1 1 1 [] = [] /\
  search_direct FNum (gb_periodic FNum 1 1 1) 1 1 1 [tp 0 0 1%Z] = [] /\
  search_line FNum (gb_periodic FNum 1 1 1) 1 1 1 1 [tp 0 0 1%Z] = [] /\
  loop_ids false false false (-1) [] [] [] = ([], [], (-1)%Z).
Proof. vm_compute. repeat split; reflexivity. Qed.

(* the loop with and without the forcing of its local keep_sorted variable for a hybrid integrator (removal is sorted either way) *)
Lemma hybrid_renumbering :
  let ids := [1000; 1001; 1002; 1003; 1004]%Z in
  let pend := [(1, 0, 13); (2, 3, 13)]%Z in
  let run k := let '(_, _, _, log) := resolve_loop_k (fun p : idp => fst p) (fun p : idp => (fst p, true)) res_outs false true k
                                        (fun e => e) (-1)%Z [1; 2]%Z (map (fun i => (i, false)) ids) pend in map ev_id log in
  run true = [(1001, 1000, 13, 1); (1002, 1003, 13, 2)]%Z /\ run false = [(1001, 1000, 13, 1); (1003, 1004, 13, 2)]%Z.
Proof. vm_compute. split; reflexivity. Qed.
