(* C13 model, part 2 (definitions only): the tree walks of REB_COLLISION_TREE / REB_COLLISION_LINETREE,
   reb_tree_get_nearest_neighbour_in_cell and reb_tree_check_for_overlapping_trajectories_in_cell, over a tree
   decorated with the geometry the C code reads from struct reb_treecell (x, y, z, w of NON-leaf cells; a leaf is
   only asked for its particle index c->pt).  Children are visited in the order oct[0..7]; every leaf that passes
   the pair test is appended (the nearest_r2 filter is commented out in the source). *)
From Coq Require Import List ZArith Bool.
From RV Require Import Common.Num C13.Model.
Import ListNotations.

Inductive gcell (T : Type) : Type :=
| GL (pt : nat)                                             (* c->pt >= 0 *)
| GN (x y z w : T) (oct : list (option (gcell T))).         (* c->pt < 0; oct[o] == NULL is None *)
Arguments GL {T}. Arguments GN {T}.

Fixpoint gleaves {T} (t : gcell T) : list nat :=
  match t with
  | GL p => [p]
  | GN _ _ _ _ oct => flat_map (fun o => match o with None => [] | Some d => gleaves d end) oct
  end.

Section Walk.
Context {T : Type} (N : Num T).
Local Notation "a + b" := (nadd N a b).
Local Notation "a - b" := (nsub N a b).
Local Notation "a * b" := (nmul N a b).

(* the literal 0.86602540378443 *)
Definition kappa_lit : T := ndec N 86602540378443 100000000000000.

(* "Check if we need to decent into daughter cells": r2 < rp*rp with rp = reach + kap*c->w *)
Definition descend (kap : T) (g : vec6 T) (reach : T) (x y z w : T) : bool :=
  let dx := gx g - x in let dy := gy g - y in let dz := gz g - z in
  let r2 := dx*dx + dy*dy + dz*dz in
  let rp := reach + kap * w in
  nltb N r2 (rp * rp).

(* reb_tree_get_nearest_neighbour_in_cell: i = collision_nearest->p1, g = shifted ghost box of p1, gid = ghost box id.
   reach = p1_r + r->max_radius1 *)
Fixpoint tree_walk (kap : T) (ps : list (particle T)) (i : nat) (g : vec6 T) (gid : Z) (p1r reach : T) (t : gcell T)
  : list entry :=
  match t with
  | GL pt => if Nat.eqb pt i then []
             else if direct_test N g p1r (znth_p N ps pt) then [(Z.of_nat i, Z.of_nat pt, gid)] else []
  | GN x y z w oct =>
      if descend kap g reach x y z w
      then flat_map (fun o => match o with None => [] | Some d => tree_walk kap ps i g gid p1r reach d end) oct
      else []
  end.

(* reb_tree_check_for_overlapping_trajectories_in_cell.  reach = p1_r_plus_dtv + max_radius1 + maxdrift *)
Fixpoint linetree_walk (kap dt : T) (ps : list (particle T)) (i : nat) (g : vec6 T) (gid : Z) (p1r reach : T) (t : gcell T)
  : list entry :=
  match t with
  | GL pt => if Nat.eqb pt i then []
             else if line_test N dt g p1r (znth_p N ps pt) then [(Z.of_nat i, Z.of_nat pt, gid)] else []
  | GN x y z w oct =>
      if descend kap g reach x y z w
      then flat_map (fun o => match o with None => [] | Some d => linetree_walk kap dt ps i g gid p1r reach d end) oct
      else []
  end.

(* REB_COLLISION_TREE: for i: for gbx,gby,gbz in the clamped ring: for ri: walk root ri (NULL roots skipped) *)
Definition search_tree (kap : T) (gbf : Z -> Z -> Z -> vec6 T) (ngx ngy ngz : Z) (mr1 : T)
           (ps : list (particle T)) (roots : list (option (gcell T))) : list entry :=
  flat_map (fun i =>
    let p1 := znth_p N ps i in
    flat_map (fun a => flat_map (fun b => flat_map (fun c =>
      let g := gb_shift N (gbf a b c) p1 in
      flat_map (fun ro => match ro with None => [] | Some t => tree_walk kap ps i g (gbid a b c) (pr p1) (pr p1 + mr1) t end)
               roots)
      (ring (gcol ngz))) (ring (gcol ngy))) (ring (gcol ngx)))
    (seq 0 (length ps)).

(* MAX(a,b) ((a) > (b) ? (a) : (b)) *)
Definition cmax (a b : T) : T := if nltb N b a then a else b.
Definition speed2 (p : particle T) : T := pvx p * pvx p + pvy p * pvy p + pvz p * pvz p.
Definition vmax2_of (ps : list (particle T)) : T := fold_left (fun m p => cmax m (speed2 p)) ps (nzero N).

(* REB_COLLISION_LINETREE *)
Definition search_linetree (kap : T) (gbf : Z -> Z -> Z -> vec6 T) (ngx ngy ngz : Z) (mr1 dt : T)
           (ps : list (particle T)) (roots : list (option (gcell T))) : list entry :=
  let maxdrift := nabs N dt * nsqrt N (vmax2_of ps) in
  flat_map (fun i =>
    let p1 := znth_p N ps i in
    let p1_r_plus_dtv := pr p1 + nabs N dt * nsqrt N (speed2 p1) in
    flat_map (fun a => flat_map (fun b => flat_map (fun c =>
      let g := gb_shift N (gbf a b c) p1 in
      flat_map (fun ro => match ro with None => [] | Some t =>
                            linetree_walk kap dt ps i g (gbid a b c) (pr p1) (p1_r_plus_dtv + mr1 + maxdrift) t end)
               roots)
      (ring (gcol ngz))) (ring (gcol ngy))) (ring (gcol ngx)))
    (seq 0 (length ps)).
End Walk.
