(* C13: the resolve loop with its index fix-up refines the identity-level loop.
   Particles are viewed as (ghost id, flagged-for-removal). *)
From Coq Require Import ZArith List Bool Lia ZifyBool Permutation.
From RV Require Import Common.Num C13.Model C13.LoopNA.
Import ListNotations.
Open Scope Z_scope.

(* ------------------------------------------------------------------ list / zth facts *)
Lemma upd_app_len {A} (l1 : list A) x l2 y : upd (l1 ++ x :: l2) (length l1) y = l1 ++ y :: l2.
Proof. induction l1; cbn; [reflexivity | f_equal; auto]. Qed.
Lemma upd_map {A B} (f : A -> B) l k x : map f (upd l k x) = upd (map f l) k (f x).
Proof. revert k; induction l; destruct k; cbn; auto; f_equal; auto. Qed.
Lemma firstn_len_app {A} (l1 l2 : list A) : firstn (length l1) (l1 ++ l2) = l1.
Proof. induction l1; cbn; [destruct l2; reflexivity | f_equal; auto]. Qed.
Lemma skipn_len_app {A} (l1 l2 : list A) : skipn (length l1) (l1 ++ l2) = l2.
Proof. induction l1; cbn; auto. Qed.
Lemma skipn_Slen_app {A} (l1 : list A) x l2 : skipn (S (length l1)) (l1 ++ x :: l2) = l2.
Proof. induction l1; cbn; auto. Qed.
Lemma nth_error_len_app {A} (l : list A) q : nth_error (l ++ [q]) (length l) = Some q.
Proof. induction l; cbn; auto. Qed.

Lemma zth_some {A} (l : list A) i x : zth l i = Some x <-> 0 <= i /\ nth_error l (Z.to_nat i) = Some x.
Proof.
  unfold zth. destruct (i <? 0) eqn:E; split; intros H.
  - discriminate. - lia. - split; [lia | exact H]. - tauto.
Qed.
Lemma zth_range {A} (l : list A) i x : zth l i = Some x -> 0 <= i < zlen l.
Proof.
  intros H. apply zth_some in H. destruct H as [H0 H].
  assert (Z.to_nat i < length l)%nat by (apply nth_error_Some; congruence). unfold zlen. lia.
Qed.
Lemma zth_in_left {A} (l1 l2 : list A) i x : zth l1 i = Some x -> zth (l1 ++ l2) i = Some x.
Proof.
  intros H. pose proof (zth_range _ _ _ H) as R. apply zth_some in H. apply zth_some. split; [tauto|].
  rewrite nth_error_app1; [tauto | unfold zlen in R; lia].
Qed.
Lemma zth_in_right {A} (l1 l2 : list A) j x : zth l2 j = Some x -> zth (l1 ++ l2) (zlen l1 + j) = Some x.
Proof.
  intros H. apply zth_some in H. destruct H as [H0 H]. apply zth_some. unfold zlen. split; [lia|].
  rewrite nth_error_app2 by lia. replace (Z.to_nat (Z.of_nat (length l1) + j) - length l1)%nat with (Z.to_nat j) by lia.
  exact H.
Qed.
Lemma zth_cons_0 {A} (x : A) l : zth (x :: l) 0 = Some x.
Proof. reflexivity. Qed.
Lemma zth_cons_S {A} (y : A) l i x : zth l i = Some x -> zth (y :: l) (i + 1) = Some x.
Proof.
  intros H. apply zth_some in H. destruct H as [H0 H]. apply zth_some. split; [lia|].
  replace (Z.to_nat (i + 1)) with (S (Z.to_nat i)) by lia. exact H.
Qed.
Lemma zth_app_inv {A} (l1 l2 : list A) i x : zth (l1 ++ l2) i = Some x ->
  (zth l1 i = Some x) \/ (zlen l1 <= i /\ zth l2 (i - zlen l1) = Some x).
Proof.
  intros H. apply zth_some in H. destruct H as [H0 H].
  destruct (Z_lt_dec i (zlen l1)) as [L|L]; unfold zlen in *.
  - left. apply zth_some. split; [lia|]. rewrite nth_error_app1 in H by lia. exact H.
  - right. split; [lia|]. apply zth_some. split; [lia|]. rewrite nth_error_app2 in H by lia.
    replace (Z.to_nat (i - Z.of_nat (length l1))) with (Z.to_nat i - length l1)%nat by lia. exact H.
Qed.
Lemma zth_cons_inv {A} (y : A) l i x : zth (y :: l) i = Some x -> (i = 0 /\ x = y) \/ (0 < i /\ zth l (i - 1) = Some x).
Proof.
  intros H. apply zth_some in H. destruct H as [H0 H].
  destruct (Z.to_nat i) eqn:E.
  - left. cbn in H. split; [lia | congruence].
  - right. split; [lia|]. apply zth_some. split; [lia|]. replace (Z.to_nat (i - 1)) with n by lia. exact H.
Qed.
Lemma zth_nil {A} i : @zth A [] i = None.
Proof. unfold zth. destruct (i <? 0); auto. destruct (Z.to_nat i); reflexivity. Qed.
Lemma zth_map {A B} (f : A -> B) l i : zth (map f l) i = option_map f (zth l i).
Proof. unfold zth. destruct (i <? 0); auto. apply nth_error_map. Qed.
Lemma zlen_app {A} (l1 l2 : list A) : zlen (l1 ++ l2) = zlen l1 + zlen l2.
Proof. unfold zlen. rewrite app_length. lia. Qed.
Lemma zlen_cons {A} (x : A) l : zlen (x :: l) = 1 + zlen l.
Proof. unfold zlen. cbn [length]. lia. Qed.
Lemma zlen_nonneg {A} (l : list A) : 0 <= zlen l.
Proof. unfold zlen. lia. Qed.

(* ------------------------------------------------------------------ the (id, flagged) view *)
Notation V := (Z * bool)%type.
Definition flagV (x : V) : V := (fst x, true).
Definition idsV (v : list V) : list Z := map fst v.
Definition liveids (v : list V) : list Z := map fst (filter (fun x => negb (snd x)) v).
Definition rmV := remove_particle_na (P:=V) flagV.
(* where the particle that sat at index i sits after particle k was removed *)
Definition rmi (tree keep : bool) (k nnew i : Z) : Z := if tree then i else remap keep k nnew i.

Lemma liveids_app a b : liveids (a ++ b) = liveids a ++ liveids b.
Proof. unfold liveids. rewrite filter_app, map_app. reflexivity. Qed.

Lemma removeV_spec tree keep v k a :
  tree && keep = false -> NoDup (idsV v) -> zth v k = Some (a, false) ->
  exists v', rmV tree keep v k = (v', true) /\ NoDup (idsV v') /\
    (forall i x, i <> k -> zth v i = Some x -> zth v' (rmi tree keep k (zlen v') i) = Some x) /\
    Permutation (a :: liveids v') (liveids v).
Proof.
  intros Htk Hnd Hk. pose proof (zth_range _ _ _ Hk) as Hr.
  apply zth_some in Hk. destruct Hk as [Hk0 Hk].
  destruct (nth_error_split _ _ Hk) as (l1 & l2 & E & Hl1). subst v.
  assert (HK : k = zlen l1) by (unfold zlen; lia).
  assert (HKn : Z.to_nat k = length l1) by lia.
  unfold rmV, remove_particle_na. rewrite HKn. rewrite HKn in Hk.
  destruct ((zlen (l1 ++ (a, false) :: l2) <=? k) || (k <? 0)) eqn:E1; [lia|].
  rewrite (andb_comm keep tree), Htk.
  destruct ((zlen (l1 ++ (a, false) :: l2) =? 1) && negb tree) eqn:E2.
  { (* r->N == 1, no tree *)
    apply andb_prop in E2. destruct E2 as [E2 _].
    rewrite zlen_app, zlen_cons in E2. pose proof (zlen_nonneg l1). pose proof (zlen_nonneg l2).
    assert (l1 = []) by (destruct l1; [auto | rewrite zlen_cons in *; pose proof (zlen_nonneg l1); lia]).
    assert (l2 = []) by (destruct l2; [auto | rewrite zlen_cons in *; pose proof (zlen_nonneg l2); lia]).
    subst. exists []. split; [reflexivity|]. split; [constructor|]. split.
    - intros i x Hi Hz. cbn in Hz. apply zth_cons_inv in Hz. destruct Hz as [[-> _]|[_ Hz]].
      + cbn in Hi. exfalso. apply Hi. reflexivity.
      + rewrite zth_nil in Hz. discriminate.
    - cbn. apply Permutation_refl. }
  destruct keep.
  { (* keep_sorted: shift down *)
    destruct tree; [discriminate|]. clear E2.
    rewrite firstn_len_app, skipn_Slen_app. exists (l1 ++ l2). split; [reflexivity|]. split; [|split].
    - unfold idsV in *. rewrite map_app in *. cbn in Hnd. eapply NoDup_remove_1; eauto.
    - intros i x Hi Hz. unfold rmi, remap.
      apply zth_app_inv in Hz. destruct Hz as [Hz|[Hge Hz]].
      + pose proof (zth_range _ _ _ Hz). destruct (i >? k) eqn:E3; [lia|]. apply zth_in_left. exact Hz.
      + apply zth_cons_inv in Hz. destruct Hz as [[Hz _]|[Hgt Hz]]; [lia|].
        destruct (i >? k) eqn:E3; [|lia].
        replace (i - 1) with (zlen l1 + (i - zlen l1 - 1)) by lia. apply zth_in_right. exact Hz.
    - rewrite !liveids_app. cbn. apply Permutation_middle. }
  destruct tree.
  { (* tree: flag only *)
    rewrite Hk. unfold flagV. cbn [fst]. rewrite upd_app_len.
    exists (l1 ++ (a, true) :: l2). split; [reflexivity|]. split; [|split].
    - unfold idsV in *. rewrite map_app in *. exact Hnd.
    - intros i x Hi Hz. unfold rmi.
      apply zth_app_inv in Hz. destruct Hz as [Hz|[Hge Hz]].
      + apply zth_in_left. exact Hz.
      + apply zth_cons_inv in Hz. destruct Hz as [[Hz _]|[Hgt Hz]]; [lia|].
        replace i with (zlen l1 + ((i - zlen l1 - 1) + 1)) by lia. apply zth_in_right. apply zth_cons_S. exact Hz.
    - rewrite !liveids_app. cbn. apply Permutation_middle. }
  (* swap with last *)
  destruct (exists_last (l:=(a, false) :: l2)) as (m & q & Em); [discriminate|].
  destruct m as [|y m'].
  { (* removed particle is the last one *)
    cbn in Em. injection Em as Eq El2. subst q.
    assert (l2 = []) by (destruct l2; [auto|discriminate]). subst l2.
    assert (Hn' : (length (l1 ++ [(a, false)]) - 1)%nat = length l1) by (rewrite app_length; cbn; lia).
    rewrite Hn'. rewrite nth_error_len_app, upd_app_len, firstn_len_app.
    exists l1. split; [reflexivity|]. split; [|split].
    - unfold idsV in *. rewrite map_app in Hnd. cbn in Hnd. apply NoDup_remove_1 in Hnd. rewrite app_nil_r in Hnd. exact Hnd.
    - intros i x Hi Hz. unfold rmi, remap.
      apply zth_app_inv in Hz. destruct Hz as [Hz|[Hge Hz]].
      + pose proof (zth_range _ _ _ Hz). destruct (i =? zlen l1) eqn:E3; [lia|]. exact Hz.
      + apply zth_cons_inv in Hz. destruct Hz as [[Hz _]|[Hgt Hz]]; [lia|]. rewrite zth_nil in Hz. discriminate.
    - rewrite liveids_app. cbn. apply Permutation_cons_append. }
  cbn in Em. injection Em as Ey El2. subst y l2.
  assert (Ev : l1 ++ (a, false) :: m' ++ [q] = (l1 ++ (a, false) :: m') ++ [q]) by (rewrite <- app_assoc; reflexivity).
  assert (Hn' : (length (l1 ++ (a, false) :: m' ++ [q]) - 1)%nat = length (l1 ++ (a, false) :: m')).
  { rewrite Ev, app_length. cbn. lia. }
  assert (Hq : nth_error (l1 ++ (a, false) :: m' ++ [q]) (length (l1 ++ (a, false) :: m')) = Some q)
    by (rewrite Ev; apply nth_error_len_app).
  rewrite Hn', Hq.
  assert (Eu : upd (l1 ++ (a, false) :: m' ++ [q]) (length l1) q = (l1 ++ q :: m') ++ [q]).
  { rewrite upd_app_len. rewrite <- app_assoc. reflexivity. }
  rewrite Eu.
  assert (Hl : length (l1 ++ (a, false) :: m') = length (l1 ++ q :: m')) by (rewrite !app_length; reflexivity).
  rewrite Hl, firstn_len_app.
  exists (l1 ++ q :: m'). split; [reflexivity|]. split; [|split].
  - unfold idsV in *. rewrite !map_app in *. cbn in *. rewrite map_app in Hnd. cbn in Hnd.
    apply NoDup_remove_1 in Hnd.
    eapply Permutation_NoDup; [|exact Hnd].
    apply Permutation_app_head. apply Permutation_sym. apply Permutation_cons_append.
  - intros i x Hi Hz. unfold rmi, remap.
    assert (Hzl : zlen (l1 ++ q :: m') = zlen l1 + 1 + zlen m') by (rewrite zlen_app, zlen_cons; lia).
    rewrite Hzl.
    apply zth_app_inv in Hz. destruct Hz as [Hz|[Hge Hz]].
    + pose proof (zth_range _ _ _ Hz). pose proof (zlen_nonneg m').
      destruct (i =? zlen l1 + 1 + zlen m') eqn:E3; [lia|]. apply zth_in_left. exact Hz.
    + apply zth_cons_inv in Hz. destruct Hz as [[Hz _]|[Hgt Hz]]; [lia|].
      apply zth_app_inv in Hz. destruct Hz as [Hz|[Hge2 Hz]].
      * pose proof (zth_range _ _ _ Hz).
        destruct (i =? zlen l1 + 1 + zlen m') eqn:E3; [lia|].
        replace i with (zlen l1 + ((i - zlen l1 - 1) + 1)) by lia. apply zth_in_right. apply zth_cons_S. exact Hz.
      * apply zth_cons_inv in Hz. destruct Hz as [[Hz ->]|[Hgt2 Hz]]; [|rewrite zth_nil in Hz; discriminate].
        destruct (i =? zlen l1 + 1 + zlen m') eqn:E3; [|lia].
        replace k with (zlen l1 + 0) by lia. apply zth_in_right. apply zth_cons_0.
  - rewrite !liveids_app. cbn [liveids].
    change (liveids ((a, false) :: m' ++ [q])) with (a :: liveids (m' ++ [q])).
    change (liveids (q :: m')) with (liveids ([q] ++ m')).
    rewrite !liveids_app.
    eapply Permutation_trans; [apply Permutation_middle|].
    apply Permutation_app_head. apply perm_skip. apply Permutation_app_comm.
Qed.

(* ------------------------------------------------------------------ pending entries under a removal *)
Definition live_at (v : list V) (i : Z) : Prop := exists a, zth v i = Some (a, false).
Definition wf_entry (v : list V) (e : entry) : Prop :=
  let '(p1, p2, _) := e in (p1 = -1 /\ p2 = -1) \/ (live_at v p1 /\ live_at v p2 /\ p1 <> p2).
(* the identity pair an index pair denotes *)
Definition den (v : list V) (e : entry) : option (Z * Z * Z) :=
  let '(p1, p2, gb) := e in
  match zth v p1, zth v p2 with Some a, Some b => Some (fst a, fst b, gb) | _, _ => None end.
Definition memz (a : Z) (l : list Z) : bool := existsb (Z.eqb a) l.
(* an identity pair survives iff neither id has been removed *)
Definition mask (rmd : list Z) (d : Z * Z * Z) : option (Z * Z * Z) :=
  let '(a, b, _) := d in if memz a rmd || memz b rmd then None else Some d.

Lemma ids_inj v i j x y : NoDup (idsV v) -> zth v i = Some x -> zth v j = Some y -> fst x = fst y -> i = j.
Proof.
  intros Hnd Hi Hj E. apply zth_some in Hi, Hj. destruct Hi as [Hi0 Hi], Hj as [Hj0 Hj].
  assert (Z.to_nat i = Z.to_nat j).
  { apply (proj1 (NoDup_nth_error (idsV v)) Hnd).
    - apply nth_error_Some. unfold idsV. rewrite nth_error_map, Hi. discriminate.
    - unfold idsV. rewrite !nth_error_map, Hi, Hj. cbn. congruence. }
  lia.
Qed.

Lemma fixup_tomb tree keep k nnew g : 0 <= k -> 0 <= nnew -> fixup tree keep k nnew (-1, -1, g) = (-1, -1, g).
Proof.
  intros. unfold fixup, tomb_if, remap.
  destruct (-1 =? k) eqn:E; [lia|]. cbn [orb].
  destruct tree; [reflexivity|]. destruct keep.
  - destruct (-1 >? k) eqn:E2; [lia|]. reflexivity.
  - destruct (-1 =? nnew) eqn:E2; [lia|]. reflexivity.
Qed.
Lemma fixup_hit tree keep k nnew p1 p2 g : 0 <= k -> 0 <= nnew -> p1 = k \/ p2 = k ->
  fixup tree keep k nnew (p1, p2, g) = (-1, -1, g).
Proof.
  intros Hk Hn Hh. unfold fixup, tomb_if.
  assert (E : (p1 =? k) || (p2 =? k) = true) by lia. rewrite E.
  change (let '(q1, q2, gb) := (-1, -1, g) in
          if tree then (q1, q2, gb) else (remap keep k nnew q1, remap keep k nnew q2, gb)) with (fixup tree keep k nnew (-1, -1, g)) || idtac.
  unfold remap. destruct tree; [reflexivity|]. destruct keep.
  - destruct (-1 >? k) eqn:E2; [lia|]. reflexivity.
  - destruct (-1 =? nnew) eqn:E2; [lia|]. reflexivity.
Qed.
Lemma fixup_miss tree keep k nnew p1 p2 g : p1 <> k -> p2 <> k ->
  fixup tree keep k nnew (p1, p2, g) = (rmi tree keep k nnew p1, rmi tree keep k nnew p2, g).
Proof.
  intros H1 H2. unfold fixup, tomb_if, rmi.
  assert (E : (p1 =? k) || (p2 =? k) = false) by lia. rewrite E. destruct tree; reflexivity.
Qed.

Lemma memz_cons a x l : memz a (x :: l) = (a =? x) || memz a l.
Proof. reflexivity. Qed.
Lemma memz_In a l : memz a l = true <-> In a l.
Proof.
  unfold memz. rewrite existsb_exists. split.
  - intros (x & Hx & E). apply Z.eqb_eq in E. subst. exact Hx.
  - intros H. exists a. split; [exact H | apply Z.eqb_refl].
Qed.

Lemma fixup_entry tree keep v v' k a rmd e d :
  NoDup (idsV v) -> NoDup (idsV v') -> zth v k = Some (a, false) ->
  (forall i x, i <> k -> zth v i = Some x -> zth v' (rmi tree keep k (zlen v') i) = Some x) ->
  wf_entry v e -> den v e = mask rmd d ->
  wf_entry v' (fixup tree keep k (zlen v') e) /\ den v' (fixup tree keep k (zlen v') e) = mask (a :: rmd) d.
Proof.
  intros Hnd Hnd' Hk Hmv Hwf Hden.
  pose proof (zth_range _ _ _ Hk) as Hkr. pose proof (zlen_nonneg v') as Hn'.
  destruct e as [[p1 p2] g]. destruct d as [[da db] dg].
  assert (Htomb : forall g0, den v' (-1, -1, g0) = None) by reflexivity.
  destruct Hwf as [[-> ->]|(L1 & L2 & Hne)].
  - rewrite fixup_tomb by lia. split; [left; auto|]. rewrite Htomb.
    cbn in Hden. unfold mask in *. rewrite !memz_cons.
    destruct (memz da rmd || memz db rmd) eqn:E; [|discriminate].
    assert (E' : (da =? a) || memz da rmd || ((db =? a) || memz db rmd) = true).
    { destruct (memz da rmd), (memz db rmd), (da =? a), (db =? a); cbn in *; congruence. }
    rewrite E'. reflexivity.
  - destruct L1 as [a1 Z1]. destruct L2 as [a2 Z2].
    cbn [den] in Hden. rewrite Z1, Z2 in Hden. cbn [fst] in Hden. unfold mask in Hden.
    destruct (memz da rmd || memz db rmd) eqn:E; [discriminate|].
    injection Hden as <- <- <-.
    destruct (Z.eq_dec p1 k) as [->|N1]; [|destruct (Z.eq_dec p2 k) as [->|N2]].
    + rewrite fixup_hit by (auto; lia). split; [left; auto|]. rewrite Htomb.
      assert (a1 = a) by congruence. subst a1. unfold mask. rewrite !memz_cons, Z.eqb_refl. reflexivity.
    + rewrite fixup_hit by (auto; lia). split; [left; auto|]. rewrite Htomb.
      assert (a2 = a) by congruence. subst a2. unfold mask. rewrite !memz_cons, Z.eqb_refl.
      rewrite orb_true_r. reflexivity.
    + rewrite fixup_miss by auto.
      pose proof (Hmv _ _ N1 Z1) as M1. pose proof (Hmv _ _ N2 Z2) as M2.
      split.
      * right. split; [eexists; eauto|]. split; [eexists; eauto|].
        intros Eq. rewrite Eq in M1. rewrite M1 in M2. injection M2 as Ea.
        apply Hne. apply (ids_inj v p1 p2 (a1, false) (a2, false) Hnd Z1 Z2). exact Ea.
      * cbn [den]. rewrite M1, M2. cbn [fst]. unfold mask. rewrite !memz_cons.
        assert (a1 <> a) by (intros ->; apply N1; apply (ids_inj v p1 k (a, false) (a, false) Hnd Z1 Hk); reflexivity).
        assert (a2 <> a) by (intros ->; apply N2; apply (ids_inj v p2 k (a, false) (a, false) Hnd Z2 Hk); reflexivity).
        destruct (a1 =? a) eqn:E1; [lia|]. destruct (a2 =? a) eqn:E2; [lia|].
        apply orb_false_elim in E. destruct E as [Ea Eb]. rewrite Ea, Eb. reflexivity.
Qed.

(* ------------------------------------------------------------------ the identity-level loop (specification) *)
(* id-level event: id1, id2, gb, outcome *)
Definition idev := (Z * Z * Z * Z)%type.
Definition ev_id (ev : event) : idev := let '(_, _, gb, i1, i2, o) := ev in (i1, i2, gb, o).
Definition rem_of (a b o : Z) : list Z := (if Z.testbit o 1 then [b] else []) ++ (if Z.testbit o 0 then [a] else []).
(* ids removed so far, given the ids removed before the log starts *)
Fixpoint racc (L : list idev) (rmd : list Z) : list Z :=
  match L with [] => rmd | (a, b, _, o) :: L' => racc L' (rem_of a b o ++ rmd) end.
(* [replay D L rmd]: L is exactly the sequence of calls made by the loop that walks the identity pairs D in order,
   skips a pair iff one of its ids has been removed, and otherwise calls resolve and removes what the outcome says *)
Fixpoint replay (D : list (Z * Z * Z)) (L : list idev) (rmd : list Z) : Prop :=
  match D with
  | [] => L = []
  | (a, b, g) :: D' =>
      if memz a rmd || memz b rmd then replay D' L rmd
      else match L with
           | (a', b', g', o) :: L' => a' = a /\ b' = b /\ g' = g /\ replay D' L' (rem_of a b o ++ rmd)
           | [] => False
           end
  end.
(* no id is handed to resolve after it was removed; the two ids of a call differ *)
Fixpoint never_after (L : list idev) (rmd : list Z) : Prop :=
  match L with
  | [] => True
  | (a, b, _, o) :: L' => ~ In a rmd /\ ~ In b rmd /\ a <> b /\ never_after L' (rem_of a b o ++ rmd)
  end.

Lemma replay_never_after D : Forall (fun d : Z * Z * Z => fst (fst d) <> snd (fst d)) D ->
  forall L rmd, replay D L rmd -> never_after L rmd.
Proof.
  induction 1 as [|[[a b] g] D' Hab HF IH]; intros L rmd HR; cbn in HR.
  - subst. exact I.
  - destruct (memz a rmd || memz b rmd) eqn:E; [apply IH; exact HR|].
    destruct L as [|[[[a' b'] g'] o] L']; [contradiction|]. destruct HR as (-> & -> & -> & HR).
    apply orb_false_elim in E. destruct E as [Ea Eb]. cbn. cbn in Hab.
    split; [rewrite <- memz_In; congruence|]. split; [rewrite <- memz_In; congruence|]. split; [exact Hab|].
    apply IH. exact HR.
Qed.
Lemma never_after_nodup L : forall rmd, never_after L rmd -> NoDup rmd -> NoDup (racc L rmd).
Proof.
  induction L as [|[[[a b] g] o] L' IH]; intros rmd HN Hnd; cbn [never_after racc] in *; [exact Hnd|].
  destruct HN as (Ha & Hb & Hab & HN). apply IH; [exact HN|].
  unfold rem_of. destruct (Z.testbit o 1), (Z.testbit o 0); cbn [app]; auto.
  - constructor; [cbn; intros [E|E]; [congruence|auto]|]. constructor; auto.
  - constructor; auto.
  - constructor; auto.
Qed.

(* ------------------------------------------------------------------ the refinement theorem *)
Section Refine.
Context {P St : Type} (pid : P -> Z) (isflag : P -> bool) (flag : P -> P)
        (res : St -> list P -> entry -> St * list P * Z).
Hypothesis flag_pid : forall p, pid (flag p) = pid p.
Hypothesis flag_set : forall p, isflag (flag p) = true.
Definition view (ps : list P) : list V := map (fun p => (pid p, isflag p)) ps.
(* the resolver does not add, remove, reorder or flag particles *)
Hypothesis res_frame : forall s ps e s' ps' o, res s ps e = (s', ps', o) -> view ps' = view ps.

Lemma zlen_view ps : zlen (view ps) = zlen ps.
Proof. unfold zlen, view. rewrite map_length. reflexivity. Qed.

Lemma remove_view tree keep ps k :
  rmV tree keep (view ps) k =
  (view (fst (remove_particle_na flag tree keep ps k)), snd (remove_particle_na flag tree keep ps k)).
Proof.
  unfold rmV, remove_particle_na. rewrite zlen_view.
  destruct ((zlen ps <=? k) || (k <? 0)); [reflexivity|].
  destruct (keep && tree); [reflexivity|].
  destruct ((zlen ps =? 1) && negb tree); [reflexivity|].
  destruct keep.
  - cbn [fst snd]. unfold view. rewrite map_app, firstn_map, skipn_map. reflexivity.
  - destruct tree.
    + cbn [fst snd]. unfold view. rewrite nth_error_map. destruct (nth_error ps (Z.to_nat k)) as [p|]; cbn [option_map]; [|reflexivity].
      rewrite upd_map. unfold flagV. cbn [fst]. rewrite flag_pid, flag_set. reflexivity.
    + cbn [fst snd]. unfold view. rewrite map_length, nth_error_map.
      destruct (nth_error ps (length ps - 1)) as [q|]; cbn [option_map].
      * rewrite <- firstn_map, upd_map. reflexivity.
      * rewrite firstn_map. reflexivity.
Qed.

Definition inv (v : list V) (fx : entry -> entry) (rmd : list Z) (rest : list entry) (D : list (Z * Z * Z)) : Prop :=
  NoDup (idsV v) /\ Forall2 (fun e d => wf_entry v (fx e) /\ den v (fx e) = mask rmd d) rest D.

Lemma stage tree keep fx ps k other a rmd rest D ps' other' fx' :
  tree && keep = false -> inv (view ps) fx rmd rest D -> zth (view ps) k = Some (a, false) ->
  remove_stage_na flag tree keep fx ps k other = (ps', other', fx') ->
  inv (view ps') fx' (a :: rmd) rest D /\
  Permutation (liveids (view ps') ++ a :: rmd) (liveids (view ps) ++ rmd) /\
  (forall x, other <> k -> zth (view ps) other = Some x -> zth (view ps') other' = Some x).
Proof.
  intros Htk [Hnd HF] Hk HS. unfold remove_stage_na in HS.
  destruct (removeV_spec tree keep _ _ _ Htk Hnd Hk) as (v' & Hrm & Hnd' & Hmv & Hperm).
  rewrite remove_view in Hrm. destruct (remove_particle_na flag tree keep ps k) as [psx b]. cbn [fst snd] in Hrm.
  injection Hrm as Hv Hb. subst b. injection HS as <- <- <-. rewrite <- zlen_view, Hv.
  split; [|split].
  - split; [exact Hnd'|]. induction HF as [|e d rest' D' [Hw Hd] HF IH]; constructor; auto.
    apply (fixup_entry tree keep (view ps) v' k a rmd (fx e) d); auto.
  - eapply Permutation_trans; [apply Permutation_sym, Permutation_middle|].
    change (a :: liveids v' ++ rmd) with ((a :: liveids v') ++ rmd). apply Permutation_app_tail. exact Hperm.
  - intros x Ho Hz. specialize (Hmv _ _ Ho Hz). unfold rmi in Hmv. destruct tree; exact Hmv.
Qed.

Lemma cond_stage (b : bool) tree keep fx ps k other a rmd rest D ps' other' fx' :
  tree && keep = false -> inv (view ps) fx rmd rest D -> zth (view ps) k = Some (a, false) ->
  (if b then remove_stage_na flag tree keep fx ps k other else (ps, other, fx)) = (ps', other', fx') ->
  inv (view ps') fx' ((if b then [a] else []) ++ rmd) rest D /\
  Permutation (liveids (view ps') ++ (if b then [a] else []) ++ rmd) (liveids (view ps) ++ rmd) /\
  (forall x, other <> k -> zth (view ps) other = Some x -> zth (view ps') other' = Some x).
Proof.
  intros Htk Hinv Hk HS. destruct b.
  - cbn [app]. eapply stage; eauto.
  - injection HS as <- <- <-. cbn [app]. split; [exact Hinv|]. split; [apply Permutation_refl|auto].
Qed.

Lemma idat_view ps i x : zth (view ps) i = Some x -> idat pid ps i = fst x.
Proof.
  unfold view, idat. rewrite zth_map. destruct (zth ps i); cbn; [|discriminate]. intros H. injection H as <-. reflexivity.
Qed.

Lemma loop_refines tree keep : tree && keep = false ->
  forall pend fx s ps rmd D s' psf log,
  inv (view ps) fx rmd pend D ->
  resolve_loop_na pid flag res tree keep fx s ps pend = (s', psf, log) ->
  replay D (map ev_id log) rmd /\ NoDup (idsV (view psf)) /\
  Permutation (liveids (view psf) ++ racc (map ev_id log) rmd) (liveids (view ps) ++ rmd).
Proof.
  intros Htk. induction pend as [|e0 rest IH]; intros fx s ps rmd D s' psf log [Hnd HF] HL.
  - inversion HF; subst. cbn in HL. injection HL as <- <- <-. cbn. split; [reflexivity|]. split; [exact Hnd|apply Permutation_refl].
  - inversion HF as [|e0' d0 rest' D' [Hwf Hden] HF']; subst.
    cbn [resolve_loop_na] in HL. destruct (fx e0) as [[p1 p2] g] eqn:Efx. destruct d0 as [[da db] dg].
    destruct (negb (p1 =? -1) && negb (p2 =? -1)) eqn:Et.
    + destruct Hwf as [[-> ->]|([a1 Z1] & [a2 Z2] & Hne)]; [discriminate|].
      cbn [den] in Hden. rewrite Z1, Z2 in Hden. cbn [fst] in Hden.
      unfold mask in Hden. cbn [replay].
      destruct (memz da rmd || memz db rmd) eqn:Em; [discriminate|]. injection Hden as <- <- <-.
      destruct (res s ps (p1, p2, g)) as [[s1 psr] o] eqn:Er.
      pose proof (res_frame _ _ _ _ _ _ Er) as Hfr.
      destruct (if Z.testbit o 0 then remove_stage_na flag tree keep fx psr p1 p2 else (psr, p2, fx))
        as [[ps1 p2a] fx1] eqn:S1.
      destruct (if Z.testbit o 1 then remove_stage_na flag tree keep fx1 ps1 p2a p1 else (ps1, p1, fx1))
        as [[ps2 p1x] fx2] eqn:S2.
      destruct (resolve_loop_na pid flag res tree keep fx2 s1 ps2 rest) as [[s2 psf2] log2] eqn:HL2.
      injection HL as <- <- <-.
      assert (I0 : inv (view psr) fx rmd rest D') by (rewrite Hfr; split; assumption).
      rewrite <- Hfr in Z1, Z2.
      destruct (cond_stage _ _ _ _ _ _ _ _ _ _ _ _ _ _ Htk I0 Z1 S1) as (I1 & P1 & O1).
      specialize (O1 _ (fun E => Hne (eq_sym E)) Z2).
      destruct (cond_stage _ _ _ _ _ _ _ _ _ _ _ _ _ _ Htk I1 O1 S2) as (I2 & P2 & _).
      destruct (IH _ _ _ _ _ _ _ _ I2 HL2) as (R & N & PP).
      assert (Erm : (if Z.testbit o 1 then [a2] else []) ++ (if Z.testbit o 0 then [a1] else []) ++ rmd
                    = rem_of a1 a2 o ++ rmd) by (unfold rem_of; rewrite app_assoc; reflexivity).
      rewrite Erm in *.
      cbn [map ev_id racc]. rewrite Hfr in Z1, Z2.
      rewrite (idat_view _ _ _ Z1), (idat_view _ _ _ Z2). cbn [fst].
      split; [auto|]. split; [exact N|].
      eapply Permutation_trans; [exact PP|]. eapply Permutation_trans; [exact P2|].
      rewrite <- Hfr. exact P1.
    + destruct Hwf as [[-> ->]|([a1 Z1] & [a2 Z2] & Hne)].
      * cbn in Hden. unfold mask in Hden. cbn [replay].
        destruct (memz da rmd || memz db rmd) eqn:Em; [|discriminate].
        eapply IH; [split; eassumption | exact HL].
      * exfalso. pose proof (zth_range _ _ _ Z1). pose proof (zth_range _ _ _ Z2).
        destruct (p1 =? -1) eqn:E1; [lia|]. destruct (p2 =? -1) eqn:E2; [lia|]. discriminate.
Qed.

(* ---- top level: start of the loop (no rewriting yet, nothing removed yet) *)
Definition idz (v : list V) (i : Z) : Z := match zth v i with Some x => fst x | None => -1 end.
Definition den0 (v : list V) (e : entry) : Z * Z * Z := let '(p1, p2, g) := e in (idz v p1, idz v p2, g).
(* what every search branch produces: two different valid indices of particles not flagged for removal *)
Definition live_entry (v : list V) (e : entry) : Prop :=
  let '(p1, p2, _) := e in live_at v p1 /\ live_at v p2 /\ p1 <> p2.

Theorem loop_refines_top tree keep ps pend s s' psf log :
  tree && keep = false -> NoDup (idsV (view ps)) -> Forall (live_entry (view ps)) pend ->
  resolve_loop_na pid flag res tree keep (fun e => e) s ps pend = (s', psf, log) ->
  replay (map (den0 (view ps)) pend) (map ev_id log) [] /\
  never_after (map ev_id log) [] /\
  NoDup (idsV (view psf)) /\ NoDup (racc (map ev_id log) []) /\
  Permutation (liveids (view psf) ++ racc (map ev_id log) []) (liveids (view ps)).
Proof.
  intros Htk Hnd HF HL.
  assert (I : inv (view ps) (fun e => e) [] pend (map (den0 (view ps)) pend)).
  { clear HL. split; [exact Hnd|]. induction HF as [|[[p1 p2] g] r ([a1 Z1] & [a2 Z2] & Hne) HF IH]; cbn [map]; [solve [constructor]|]. constructor; [|exact IH].
    split; [right; split; [eexists; eauto|split; [eexists; eauto|exact Hne]]|].
    cbn [den den0]. unfold idz. rewrite Z1, Z2. reflexivity. }
  assert (Dd : Forall (fun d : Z * Z * Z => fst (fst d) <> snd (fst d)) (map (den0 (view ps)) pend)).
  { clear I HL. induction HF as [|[[p1 p2] g] r ([a1 Z1] & [a2 Z2] & Hne) HF IH]; cbn [map]; [solve [constructor]|]. constructor; [|exact IH].
    cbn [den0 fst snd]. unfold idz. rewrite Z1, Z2. cbn [fst]. intros E. apply Hne.
    apply (ids_inj (view ps) p1 p2 (a1, false) (a2, false) Hnd Z1 Z2). exact E. }
  destruct (loop_refines tree keep Htk _ _ _ _ _ _ _ _ _ I HL) as (R & N & PP).
  pose proof (replay_never_after _ Dd _ _ R) as NA.
  split; [exact R|]. split; [exact NA|]. split; [exact N|]. split; [apply never_after_nodup; [exact NA|constructor]|].
  rewrite app_nil_r in PP. exact PP.
Qed.
End Refine.
