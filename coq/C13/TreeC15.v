(* C13: link to C15's tree model.  A dumped tree accepted by C15's proved-sound checker wf_b (exact integer geometry,
   unit length un) is, after scaling to reals, well-formed in the sense the walks need (TreeWalk.gwf). *)
From Coq Require Import List ZArith Reals Lra Lia Bool.
From RV Require Import Common.Num Common.RealNum C13.Model C13.TreeModel C13.TreeWalk.
From RV Require Import C15.Tree C15.TreeProofs C15.PruneProofs.
Import ListNotations.
Open Scope R_scope.

(* the decorated tree the walks read, from C15's dumped cell (integer units) *)
Fixpoint of_dcell (un : R) (d : dcell) : gcell R :=
  match d with
  | D x y z w pt oct =>
      if (0 <=? pt)%Z then GL (Z.to_nat pt)
      else GN (un * IZR x) (un * IZR y) (un * IZR z) (un * IZR w)
              (map (fun o => match o with None => None | Some e => Some (of_dcell un e) end) oct)
  end.

Lemma flat_map_opt_ext {A B C} (f : A -> option B) (g : A -> option C) (lf : B -> list nat) (lg : C -> list nat) (l : list (option A)) :
  (forall e, In (Some e) l -> match f e with None => [] | Some b => lf b end = match g e with None => [] | Some c => lg c end) ->
  flat_map (fun o => match o with None => [] | Some b => lf b end) (map (fun o => match o with None => None | Some e => f e end) l)
  = flat_map (fun o => match o with None => [] | Some c => lg c end) (map (fun o => match o with None => None | Some e => g e end) l).
Proof.
  induction l as [|o r IH]; intros H; [reflexivity|]. cbn [map flat_map]. f_equal.
  - destruct o as [e|]; [apply H; left; reflexivity|reflexivity].
  - apply IH. intros e He. apply H. right. exact He.
Qed.

Section Link.
Variables (u : Z) (pos : nat -> P3) (un : R) (ps : list (particle R)).
Hypothesis un_pos : 0 < un.
(* the particle coordinates are the integer coordinates times the unit *)
Hypothesis pos_ok : forall p, let '(x, y, z) := pos p in
  px (znth_p RNum ps p) = un * IZR x /\ py (znth_p RNum ps p) = un * IZR y /\ pz (znth_p RNum ps p) = un * IZR z.

Lemma inside_real l c p x y z : c = (x, y, z) -> inside u l c (pos p) ->
  in_cube (un * IZR x) (un * IZR y) (un * IZR z) (un * IZR (2 * hw u l)) (znth_p RNum ps p).
Proof.
  intros -> H. pose proof (pos_ok p) as Hp. destruct (pos p) as [[qx qy] qz]. destruct Hp as (E1 & E2 & E3).
  unfold inside in H. destruct H as (H1 & H2 & H3). unfold in_cube. rewrite E1, E2, E3.
  rewrite mult_IZR.
  assert (A : forall a b h : Z, (Z.abs (a - b) <= h)%Z -> - (un * (2 * IZR h) / 2) <= un * IZR a - un * IZR b <= un * (2 * IZR h) / 2).
  { intros a b h Hab. assert (L1 : (- h <= a - b)%Z) by lia. assert (L2 : (a - b <= h)%Z) by lia.
    apply IZR_le in L1, L2. rewrite opp_IZR in L1. rewrite minus_IZR in L1, L2. nra. }
  repeat split; apply A; assumption.
Qed.

Theorem wf_gwf : forall l c d W,
  wf u pos l c (erase d) -> dgeom u l c d -> un * IZR (2 * hw u l) <= W -> (0 <= hw u l)%Z ->
  gleaves (of_dcell un d) = leaves (erase d) /\ gwf ps W (of_dcell un d).
Proof.
  induction l as [|l' IH]; intros c [x y z w pt oct] W Hwf Hg HW Hh.
  - cbn [of_dcell erase] in *. destruct (0 <=? pt)%Z; [cbn; auto|]. cbn in Hwf. contradiction.
  - cbn [of_dcell]. destruct (0 <=? pt)%Z eqn:E.
    + rewrite erase_leaf by exact E. cbn. auto.
    + rewrite erase_node in * by exact E. rewrite wf_node_S in Hwf. destruct Hwf as (Hlen & Hcnt & H2 & Hch).
      cbn [dgeom] in Hg. destruct Hg as (Hc & Hw & Hgch).
      assert (Hh' : (0 <= hw u l')%Z) by (rewrite hw_S in Hh; lia).
      assert (HW' : un * IZR (2 * hw u l') <= W).
      { rewrite hw_S in HW. assert (IZR (2 * hw u l') <= IZR (2 * (2 * hw u l'))) by (apply IZR_le; lia). nra. }
      assert (Hchild : forall e, In (Some e) oct ->
                 gleaves (of_dcell un e) = leaves (erase e) /\ gwf ps W (of_dcell un e)).
      { intros e He. apply In_nth_error in He. destruct He as (o & Ho).
        apply (IH (childc u c l' o) e W); auto.
        apply Hch. rewrite nth_error_map, Ho. reflexivity. }
      assert (Hleaves : gleaves (GN (un * IZR x) (un * IZR y) (un * IZR z) (un * IZR w)
                           (map (fun o => match o with None => None | Some e => Some (of_dcell un e) end) oct))
                        = leaves (Node (- pt) (map (fun o => match o with None => None | Some e => Some (erase e) end) oct))).
      { cbn [gleaves leaves].
        apply (flat_map_opt_ext (fun e => Some (of_dcell un e)) (fun e => Some (erase e)) gleaves leaves oct).
        intros e He. exact (proj1 (Hchild e He)). }
      split; [exact Hleaves|].
      cbn [gwf]. split; [|split].
      * subst w. split; [|exact HW]. apply Rmult_le_pos; [lra|]. apply IZR_le. lia.
      * intros p Hp. rewrite Hleaves in Hp. subst w.
        apply (inside_real (S l') c p x y z); [symmetry; exact Hc|].
        eapply wf_leaf_inside; [|exact Hp]. rewrite wf_node_S. repeat split; eauto.
      * clear Hleaves Hcnt Hlen Hch Hgch. induction oct as [|o r IHr]; cbn [map]; [exact I|]. split.
        -- destruct o as [e|]; [|exact I]. apply (Hchild e). left. reflexivity.
        -- apply IHr. intros e He. apply Hchild. right. exact He.
Qed.

(* what the harness establishes by evaluating C15's checker on the dump *)
Corollary wf_b_gwf l c d W :
  wf_b u pos l c d = true -> un * IZR (2 * hw u l) <= W -> (0 <= hw u l)%Z ->
  gleaves (of_dcell un d) = leaves (erase d) /\ gwf ps W (of_dcell un d).
Proof. intros H HW Hh. destruct (wf_b_sound u pos l c d H) as [H1 H2]. apply (wf_gwf l c d W); assumption. Qed.
End Link.
