(* C13: geometry of the tree-walk pruning test (TREE and LINETREE) over R, and the max_radius bookkeeping of
   reb_simulation_add.  The tree data structure itself is not modelled. *)
From Coq Require Import Reals Lra Psatz List Permutation.
From RV Require Import Common.Num Common.RealNum C13.Model.
Import ListNotations.
Open Scope R_scope.

Definition nrm (x y z : R) : R := sqrt (x * x + y * y + z * z).
Lemma nrm_pos x y z : 0 <= nrm x y z.
Proof. apply sqrt_pos. Qed.
Lemma nrm_sq x y z : nrm x y z * nrm x y z = x * x + y * y + z * z.
Proof. unfold nrm. apply sqrt_sqrt. nra. Qed.
Lemma le_of_sq a b : 0 <= b -> a * a <= b * b -> a <= b.
Proof. intros Hb H. destruct (Rle_dec a b); [assumption|]. exfalso. nra. Qed.

Lemma cauchy_schwarz x1 y1 z1 x2 y2 z2 : x1 * x2 + y1 * y2 + z1 * z2 <= nrm x1 y1 z1 * nrm x2 y2 z2.
Proof.
  pose proof (nrm_pos x1 y1 z1) as P1. pose proof (nrm_pos x2 y2 z2) as P2.
  apply le_of_sq; [apply Rmult_le_pos; assumption|].
  replace (nrm x1 y1 z1 * nrm x2 y2 z2 * (nrm x1 y1 z1 * nrm x2 y2 z2))
    with ((nrm x1 y1 z1 * nrm x1 y1 z1) * (nrm x2 y2 z2 * nrm x2 y2 z2)) by ring.
  rewrite !nrm_sq.
  pose proof (Rle_0_sqr (x1 * y2 - x2 * y1)) as Q1. pose proof (Rle_0_sqr (x1 * z2 - x2 * z1)) as Q2.
  pose proof (Rle_0_sqr (y1 * z2 - y2 * z1)) as Q3. unfold Rsqr in *.
  assert (E : (x1 * x1 + y1 * y1 + z1 * z1) * (x2 * x2 + y2 * y2 + z2 * z2)
              = (x1 * x2 + y1 * y2 + z1 * z2) * (x1 * x2 + y1 * y2 + z1 * z2)
                + ((x1 * y2 - x2 * y1) * (x1 * y2 - x2 * y1) + (x1 * z2 - x2 * z1) * (x1 * z2 - x2 * z1)
                   + (y1 * z2 - y2 * z1) * (y1 * z2 - y2 * z1))) by ring.
  rewrite E. lra.
Qed.

Lemma nrm_tri x1 y1 z1 x2 y2 z2 : nrm (x1 + x2) (y1 + y2) (z1 + z2) <= nrm x1 y1 z1 + nrm x2 y2 z2.
Proof.
  pose proof (nrm_pos x1 y1 z1) as P1. pose proof (nrm_pos x2 y2 z2) as P2.
  pose proof (cauchy_schwarz x1 y1 z1 x2 y2 z2) as CS.
  apply le_of_sq; [lra|]. rewrite nrm_sq.
  replace ((nrm x1 y1 z1 + nrm x2 y2 z2) * (nrm x1 y1 z1 + nrm x2 y2 z2))
    with (nrm x1 y1 z1 * nrm x1 y1 z1 + nrm x2 y2 z2 * nrm x2 y2 z2 + 2 * (nrm x1 y1 z1 * nrm x2 y2 z2)) by ring.
  rewrite !nrm_sq. nra.
Qed.

(* a point of the cubic cell (centre c, width w) is within the half diagonal sqrt(3)/2 w of the centre *)
Lemma cube_half_diagonal ex ey ez w : 0 <= w ->
  - (w / 2) <= ex <= w / 2 -> - (w / 2) <= ey <= w / 2 -> - (w / 2) <= ez <= w / 2 ->
  nrm ex ey ez <= sqrt 3 / 2 * w.
Proof.
  intros Hw Hx Hy Hz. pose proof (sqrt_pos 3) as S3.
  apply le_of_sq; [apply Rmult_le_pos; lra|]. rewrite nrm_sq.
  replace (sqrt 3 / 2 * w * (sqrt 3 / 2 * w)) with ((sqrt 3 * sqrt 3) * (w * w) / 4) by field.
  rewrite sqrt_sqrt by lra. nra.
Qed.

(* the code's test "if (r2 < rp*rp) descend": when it fails (cell pruned) and rp >= 0, the distance is >= rp *)
Lemma pruned_distance ux uy uz rp : 0 <= rp -> ~ (ux * ux + uy * uy + uz * uz < rp * rp) -> rp <= nrm ux uy uz.
Proof. intros Hrp H. apply le_of_sq; [apply nrm_pos|]. rewrite nrm_sq. lra. Qed.

(* General pruning lemma.  g = (shifted) end position of p1, c/w = cell, q = end position of a particle inside the
   cell, g' and q' = positions of the two particles at any moment of the last step (|g-g'| <= D1, |q'-q| <= D2;
   D1 = D2 = 0 for TREE; D1 = |dt||v1|, D2 = maxdrift >= |dt||vq| for LINETREE), kap = the constant multiplying w.
   If the cell is pruned, the two particles are at least  p_r + r_q - (sqrt3/2 - kap) w  apart at that moment. *)
Theorem prune_general kap gx gy gz cx cy cz w qx qy qz g'x g'y g'z q'x q'y q'z p_r mr1 rq D1 D2 :
  0 <= w ->
  - (w / 2) <= qx - cx <= w / 2 -> - (w / 2) <= qy - cy <= w / 2 -> - (w / 2) <= qz - cz <= w / 2 ->
  nrm (gx - g'x) (gy - g'y) (gz - g'z) <= D1 -> nrm (q'x - qx) (q'y - qy) (q'z - qz) <= D2 -> rq <= mr1 ->
  p_r + D1 + mr1 + D2 + kap * w <= nrm (gx - cx) (gy - cy) (gz - cz) ->
  p_r + rq - (sqrt 3 / 2 - kap) * w <= nrm (g'x - q'x) (g'y - q'y) (g'z - q'z).
Proof.
  intros Hw Hx Hy Hz HD1 HD2 Hrq Hpr.
  pose proof (cube_half_diagonal _ _ _ _ Hw Hx Hy Hz) as Hc.
  pose proof (nrm_tri (gx - g'x) (gy - g'y) (gz - g'z) (g'x - cx) (g'y - cy) (g'z - cz)) as T1.
  pose proof (nrm_tri (g'x - q'x) (g'y - q'y) (g'z - q'z) (q'x - cx) (q'y - cy) (q'z - cz)) as T2.
  pose proof (nrm_tri (q'x - qx) (q'y - qy) (q'z - qz) (qx - cx) (qy - cy) (qz - cz)) as T3.
  replace (gx - g'x + (g'x - cx)) with (gx - cx) in T1 by ring.
  replace (gy - g'y + (g'y - cy)) with (gy - cy) in T1 by ring.
  replace (gz - g'z + (g'z - cz)) with (gz - cz) in T1 by ring.
  replace (g'x - q'x + (q'x - cx)) with (g'x - cx) in T2 by ring.
  replace (g'y - q'y + (q'y - cy)) with (g'y - cy) in T2 by ring.
  replace (g'z - q'z + (q'z - cz)) with (g'z - cz) in T2 by ring.
  replace (q'x - qx + (qx - cx)) with (q'x - cx) in T3 by ring.
  replace (q'y - qy + (qy - cy)) with (q'y - cy) in T3 by ring.
  replace (q'z - qz + (qz - cz)) with (q'z - cz) in T3 by ring.
  lra.
Qed.

(* sound whenever the constant is at least the half diagonal factor *)
Corollary prune_sound kap gx gy gz cx cy cz w qx qy qz g'x g'y g'z q'x q'y q'z p_r mr1 rq D1 D2 :
  sqrt 3 / 2 <= kap -> 0 <= w ->
  - (w / 2) <= qx - cx <= w / 2 -> - (w / 2) <= qy - cy <= w / 2 -> - (w / 2) <= qz - cz <= w / 2 ->
  nrm (gx - g'x) (gy - g'y) (gz - g'z) <= D1 -> nrm (q'x - qx) (q'y - qy) (q'z - qz) <= D2 -> rq <= mr1 ->
  p_r + D1 + mr1 + D2 + kap * w <= nrm (gx - cx) (gy - cy) (gz - cz) ->
  p_r + rq <= nrm (g'x - q'x) (g'y - q'y) (g'z - q'z).
Proof.
  intros Hk Hw Hx Hy Hz HD1 HD2 Hrq Hpr.
  pose proof (prune_general kap gx gy gz cx cy cz w qx qy qz g'x g'y g'z q'x q'y q'z p_r mr1 rq D1 D2
                Hw Hx Hy Hz HD1 HD2 Hrq Hpr) as H.
  assert (0 <= (kap - sqrt 3 / 2) * w) by (apply Rmult_le_pos; lra). lra.
Qed.

(* the literal of collision.c *)
Definition kappa_code : R := 86602540378443 / 100000000000000.
(* it is a truncation of sqrt(3)/2 = 0.8660254037844386..., i.e. slightly SMALLER than the half diagonal factor *)
Lemma kappa_code_short : kappa_code < sqrt 3 / 2 /\ sqrt 3 / 2 - kappa_code <= 1 / 100000000000000.
Proof.
  unfold kappa_code.
  assert (L : 2 * (86602540378443 / 100000000000000) < sqrt 3).
  { rewrite <- (sqrt_square (2 * (86602540378443 / 100000000000000))) by lra. apply sqrt_lt_1_alt. lra. }
  assert (U : sqrt 3 <= 2 * (86602540378443 / 100000000000000) + 2 / 100000000000000).
  { rewrite <- (sqrt_square (2 * (86602540378443 / 100000000000000) + 2 / 100000000000000)) by lra. apply sqrt_le_1_alt. lra. }
  split; lra.
Qed.

(* with the code's constant the pruning is sound up to a depth of 1e-14 w *)
Corollary prune_sound_code gx gy gz cx cy cz w qx qy qz g'x g'y g'z q'x q'y q'z p_r mr1 rq D1 D2 :
  0 <= w ->
  - (w / 2) <= qx - cx <= w / 2 -> - (w / 2) <= qy - cy <= w / 2 -> - (w / 2) <= qz - cz <= w / 2 ->
  nrm (gx - g'x) (gy - g'y) (gz - g'z) <= D1 -> nrm (q'x - qx) (q'y - qy) (q'z - qz) <= D2 -> rq <= mr1 ->
  p_r + D1 + mr1 + D2 + kappa_code * w <= nrm (gx - cx) (gy - cy) (gz - cz) ->
  p_r + rq - w / 100000000000000 <= nrm (g'x - q'x) (g'y - q'y) (g'z - q'z).
Proof.
  intros Hw Hx Hy Hz HD1 HD2 Hrq Hpr.
  pose proof (prune_general kappa_code gx gy gz cx cy cz w qx qy qz g'x g'y g'z q'x q'y q'z p_r mr1 rq D1 D2
                Hw Hx Hy Hz HD1 HD2 Hrq Hpr) as H.
  destruct kappa_code_short as [_ K].
  assert ((sqrt 3 / 2 - kappa_code) * w <= 1 / 100000000000000 * w) by (apply Rmult_le_compat_r; assumption).
  lra.
Qed.

(* ---------------------------------------------------------------- max_radius0 / max_radius1 bookkeeping *)
(* reb_simulation_add: if (pt.r>=max_radius0){max_radius1 = max_radius0; max_radius0 = pt.r;}
                       else if (pt.r>=max_radius1) max_radius1 = pt.r;   — nothing else writes these fields *)
Definition add_radius (st : R * R) (r : R) : R * R :=
  let '(m0, m1) := st in
  if Rle_dec m0 r then (r, m0) else if Rle_dec m1 r then (m0, r) else (m0, m1).

(* it is the real-number instance of the Num-polymorphic model that is compared with the library *)
Lemma add_radius_is_model st r : add_radius st r = add_radius_num RNum st r.
Proof.
  destruct st as [m0 m1]. unfold add_radius, add_radius_num. cbn [nleb RNum]. unfold Rleb.
  destruct (Rle_dec m0 r); [reflexivity|]. destruct (Rle_dec m1 r); reflexivity.
Qed.

(* m0 bounds every radius; if some radius exceeds m1, all the OTHER radii are <= m1 *)
Definition radii_ok (st : R * R) (l : list R) : Prop :=
  let '(m0, m1) := st in
  m1 <= m0 /\ Forall (fun y => y <= m0) l /\
  (forall x l', Permutation l (x :: l') -> m1 < x -> Forall (fun y => y <= m1) l').

Lemma Forall_perm {A} (Q : A -> Prop) l l' : Permutation l l' -> Forall Q l -> Forall Q l'.
Proof. intros HP HF. rewrite Forall_forall in *. intros x Hx. apply HF. eapply Permutation_in; [apply Permutation_sym; exact HP|exact Hx]. Qed.

Lemma radii_init : radii_ok (0, 0) [].
Proof.
  cbn. split; [lra|]. split; [constructor|]. intros x l' HP. apply Permutation_nil in HP. discriminate.
Qed.

Lemma radii_add st l r : radii_ok st l -> radii_ok (add_radius st r) (r :: l).
Proof.
  destruct st as [m0 m1]. intros (H10 & HF & HP). unfold add_radius.
  destruct (Rle_dec m0 r) as [L0|L0]; [|destruct (Rle_dec m1 r) as [L1|L1]]; cbn.
  - split; [exact L0|]. split.
    + constructor; [lra|]. eapply Forall_impl; [|exact HF]. cbn. intros; lra.
    + intros x l' Hp Hx.
      assert (Hin : In x (r :: l)) by (eapply Permutation_in; [apply Permutation_sym; exact Hp|left; reflexivity]).
      destruct Hin as [<-|Hin].
      * apply Permutation_cons_inv in Hp. eapply Forall_perm; eauto.
      * rewrite Forall_forall in HF. specialize (HF _ Hin). lra.
  - split; [lra|]. split; [constructor; [lra|exact HF]|].
    intros x l' Hp Hx.
    assert (Hin : In x (r :: l)) by (eapply Permutation_in; [apply Permutation_sym; exact Hp|left; reflexivity]).
    destruct Hin as [E|Hin]; [lra|].
    destruct (in_split _ _ Hin) as (a & b & ->).
    assert (Pl : Permutation (a ++ x :: b) (x :: a ++ b)) by (apply Permutation_sym, Permutation_middle).
    assert (F1 : Forall (fun y => y <= m1) (a ++ b)) by (apply (HP x); [exact Pl|lra]).
    assert (Pl' : Permutation (r :: a ++ b) l').
    { apply (Permutation_cons_inv (a:=x)). eapply Permutation_trans; [apply perm_swap|].
      eapply Permutation_trans; [|exact Hp]. apply perm_skip. apply Permutation_sym. exact Pl. }
    eapply Forall_perm; [exact Pl'|]. constructor; [lra|]. eapply Forall_impl; [|exact F1]. cbn. intros; lra.
  - split; [exact H10|]. split; [constructor; [lra|exact HF]|].
    intros x l' Hp Hx.
    assert (Hin : In x (r :: l)) by (eapply Permutation_in; [apply Permutation_sym; exact Hp|left; reflexivity]).
    destruct Hin as [E|Hin]; [lra|].
    destruct (in_split _ _ Hin) as (a & b & ->).
    assert (Pl : Permutation (a ++ x :: b) (x :: a ++ b)) by (apply Permutation_sym, Permutation_middle).
    assert (F1 : Forall (fun y => y <= m1) (a ++ b)) by (apply (HP x); [exact Pl|lra]).
    assert (Pl' : Permutation (r :: a ++ b) l').
    { apply (Permutation_cons_inv (a:=x)). eapply Permutation_trans; [apply perm_swap|].
      eapply Permutation_trans; [|exact Hp]. apply perm_skip. apply Permutation_sym. exact Pl. }
    eapply Forall_perm; [exact Pl'|]. constructor; [lra|exact F1].
Qed.

(* removing any particle (either discipline: the array is a permutation of x :: rest) keeps the bounds valid *)
Lemma radii_remove st l x l' : radii_ok st l -> Permutation l (x :: l') -> radii_ok st l'.
Proof.
  destruct st as [m0 m1]. intros (H10 & HF & HP) Hp. split; [exact H10|]. split.
  - pose proof (Forall_perm _ _ _ Hp HF) as F. inversion F; assumption.
  - intros y l'' Hp' Hy.
    assert (P2 : Permutation l (y :: x :: l'')).
    { eapply Permutation_trans; [exact Hp|]. eapply Permutation_trans; [apply perm_skip; exact Hp'|]. apply perm_swap. }
    pose proof (HP _ _ P2 Hy) as F. inversion F; assumption.
Qed.

(* what the pruning needs: of any two particles, at least one has a radius <= max_radius1
   (the walk started at the other one then uses a sufficient search radius) *)
Lemma radii_pair st l x y l' : radii_ok st l -> Permutation l (x :: y :: l') -> x <= snd st \/ y <= snd st.
Proof.
  destruct st as [m0 m1]. intros (H10 & HF & HP) Hp. cbn [snd].
  destruct (Rle_dec x m1) as [L|L]; [left; exact L|right].
  assert (F : Forall (fun z => z <= m1) (y :: l')) by (apply (HP x); [exact Hp|lra]).
  inversion F; assumption.
Qed.

(* reb_collision_resolve_merge (since the fix) applies the same rule to the merged radius c right after computing it.
   The two progenitor radii ri, rj leave the array (rj at once, or, with a tree, stays on its flagged slot until the
   next tree update), c enters: the bounds stay valid for ANY value of c.  They are upper bounds, not the exact
   largest/second largest radius: removals and merges never lower them. *)
Lemma radii_merge st l ri rj rest c : radii_ok st l -> Permutation l (ri :: rj :: rest) ->
  radii_ok (add_radius st c) (c :: rest) /\ radii_ok (add_radius st c) (c :: rj :: rest).
Proof.
  intros H Hp. pose proof (radii_remove _ _ _ _ H Hp) as H1.
  split; apply radii_add; [|exact H1]. eapply radii_remove; [exact H1|apply Permutation_refl].
Qed.
