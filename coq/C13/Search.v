(* C13: the DIRECT search enumerates exactly the ordered pairs and ghost boxes that pass the code's test
   (for every arithmetic), and over R the test is "overlapping and not separating". *)
From Coq Require Import List ZArith Reals Lra Lia Bool.
From RV Require Import Common.Num Common.RealNum C13.Model.
Import ListNotations.

Lemma In_ring n k : (0 <= n)%Z -> (In k (ring n) <-> (- n <= k <= n)%Z).
Proof.
  intros Hn. unfold ring. rewrite in_map_iff. split.
  - intros (j & <- & Hj). apply in_seq in Hj. lia.
  - intros H. exists (Z.to_nat (k + n)). split; [lia|]. apply in_seq. lia.
Qed.

Section Enum.
Context {T : Type} (N : Num T).

Definition direct_hit (gbf : Z -> Z -> Z -> vec6 T) (ps : list (particle T)) (a b c : Z) (i j : nat) : bool :=
  direct_test N (gb_shift N (gbf a b c) (znth_p N ps i)) (pr (znth_p N ps i)) (znth_p N ps j).

Theorem direct_enumerates gbf ngx ngy ngz ps e :
  In e (search_direct N gbf ngx ngy ngz ps) <->
  exists a b c i j,
    e = (Z.of_nat i, Z.of_nat j, gbid a b c) /\
    In a (ring (gcol ngx)) /\ In b (ring (gcol ngy)) /\ In c (ring (gcol ngz)) /\
    (i < length ps)%nat /\ (j < length ps)%nat /\ i <> j /\ direct_hit gbf ps a b c i j = true.
Proof.
  unfold search_direct, direct_hit. split.
  - intros H. apply in_flat_map in H. destruct H as (a & Ha & H).
    apply in_flat_map in H. destruct H as (b & Hb & H).
    apply in_flat_map in H. destruct H as (c & Hc & H).
    apply in_flat_map in H. destruct H as (i & Hi & H).
    apply in_flat_map in H. destruct H as (j & Hj & H).
    apply in_seq in Hi. apply in_seq in Hj.
    destruct (Nat.eqb i j) eqn:Eij; [contradiction|]. apply Nat.eqb_neq in Eij.
    destruct (direct_test N _ _ _) eqn:Et; [|contradiction].
    destruct H as [<-|[]]. exists a, b, c, i, j. repeat split; auto; lia.
  - intros (a & b & c & i & j & -> & Ha & Hb & Hc & Hi & Hj & Hne & Ht).
    apply in_flat_map. exists a. split; [exact Ha|].
    apply in_flat_map. exists b. split; [exact Hb|].
    apply in_flat_map. exists c. split; [exact Hc|].
    apply in_flat_map. exists i. split; [apply in_seq; lia|].
    apply in_flat_map. exists j. split; [apply in_seq; lia|].
    apply Nat.eqb_neq in Hne. rewrite Hne, Ht. left. reflexivity.
Qed.
End Enum.

Open Scope R_scope.
(* over R: the test is  |d|^2 <= (r1+r2)^2  and  dv.d <= 0  with d, dv taken between the shifted image of p1 and p2 *)
Theorem direct_test_real (g : vec6 R) (r1 : R) (p2 : particle R) :
  direct_test RNum g r1 p2 = true <->
  (gx g - px p2) * (gx g - px p2) + (gy g - py p2) * (gy g - py p2) + (gz g - pz p2) * (gz g - pz p2)
     <= (r1 + pr p2) * (r1 + pr p2) /\
  (gvx g - pvx p2) * (gx g - px p2) + (gvy g - pvy p2) * (gy g - py p2) + (gvz g - pvz p2) * (gz g - pz p2) <= 0.
Proof.
  unfold direct_test. cbn [nadd nsub nmul nzero nltb RNum]. unfold Rltb.
  repeat match goal with |- context [Rlt_dec ?a ?b] => destruct (Rlt_dec a b) end;
    split; intros H; try discriminate; try reflexivity; try lra.
Qed.
