(* C13 model: src/collision.c (reb_collision_search: DIRECT / LINE pair tests, ghost ring, shuffle,
   resolve loop with the index fix-up; reb_collision_resolve_merge / _hardsphere) and the part of
   src/particle.c:reb_simulation_remove_particle the loop relies on (integrator not MERCURIUS/TRACE,
   N_var = 0, no free_particle_ap).  Transcribed statement for statement.  Definitions only. *)
From Coq Require Import List ZArith Bool.
From RV Require Import Common.Num.
Import ListNotations.
Open Scope Z_scope.

(* ------------------------------------------------------------------------------------------
   1. The pending-collision array and the resolve loop (discrete part)
   ------------------------------------------------------------------------------------------ *)
(* struct reb_collision {p1; p2; gb}: the ghost box is kept as an opaque identifier. *)
Definition entry := (Z * Z * Z)%type.

(* array access with a C int index *)
Definition zth {A} (l : list A) (i : Z) : option A :=
  if i <? 0 then None else nth_error l (Z.to_nat i).
Definition zlen {A} (l : list A) : Z := Z.of_nat (length l).

(* what the recording callback sees: p1, p2, gb, ghost ids of particles[p1], particles[p2], outcome *)
Definition event := (Z * Z * Z * Z * Z * Z)%type.

Section Loop.
Context {P St : Type}.
Variable pid : P -> Z.        (* ghost identity: used by the specification and the log only *)
Variable flag : P -> P.       (* particles[index].y = nan("")  (tree: removal deferred to update_tree) *)
(* r->collision_resolve: may change particle data, returns the outcome int *)
Variable res : St -> list P -> entry -> St * list P * Z.

Definition idat (ps : list P) (i : Z) : Z :=
  match zth ps i with Some p => pid p | None => -1 end.

(* reb_simulation_remove_particle(r, index, keep_sorted); tree = (r->tree_root != NULL); nact = r->N_active (-1: all).
   Returns the new array, the new N_active and the int result. *)
Definition dec_if (index nact : Z) : Z := if index <? nact then nact - 1 else nact.   (* if(index<r->N_active) r->N_active--; *)
Definition remove_particle (tree keep : bool) (nact : Z) (ps : list P) (index : Z) : list P * Z * bool :=
  let k := Z.to_nat index in
  if (zlen ps <=? index) || (index <? 0) then (ps, nact, false)       (* out of range: error, 0 *)
  else if keep && tree then (ps, nact, false)                          (* "cannot remove ... keep sorted": 0, nothing touched *)
  else if (zlen ps =? 1) && negb tree then ([], dec_if index nact, true)   (* r->N==1 && no tree: r->N = 0 *)
  else if keep then (firstn k ps ++ skipn (S k) ps, dec_if index nact, true)   (* shift down *)
  else if tree then
    (match nth_error ps k with Some p => upd ps k (flag p) | None => ps end, nact, true)
  else
    let n' := (length ps - 1)%nat in                                  (* r->N-- ; particles[index] = particles[r->N] *)
    (firstn n' (match nth_error ps n' with Some q => upd ps k q | None => ps end),
     (if nact >? Z.of_nat n' then Z.of_nat n' else nact),             (* if(r->N_active>(int)r->N) r->N_active = r->N; *)
     true).

(* "Skip collisions which involve the removed particle" *)
Definition tomb_if (rem : Z) (e : entry) : entry :=
  let '(p1, p2, gb) := e in
  if (p1 =? rem) || (p2 =? rem) then (-1, -1, gb) else e.

(* "Adjust collisions": keep_sorted: if (p > rem) p--;  else: if (p == (int)(r->N - r->N_var)) p = rem,
   where r->N is the particle count AFTER the removal. *)
Definition remap (keep : bool) (rem nnew p : Z) : Z :=
  if keep then (if p >? rem then p - 1 else p) else (if p =? nnew then rem else p).

(* body of the "for j=i+1..": tombstone test first, then (no tree only) the index adjustment *)
Definition fixup (tree keep : bool) (rem nnew : Z) (e : entry) : entry :=
  let '(p1, p2, gb) := tomb_if rem e in
  if tree then (p1, p2, gb) else (remap keep rem nnew p1, remap keep rem nnew p2, gb).

(* One "if (outcome & b){ removed = reb_simulation_remove_particle(r, k, keep_sorted); if (removed){...} }" block:
   returns the new array, the updated index of the other particle of the current collision (only the first
   block updates c.p2; the code leaves it alone when a tree exists) and the rewriting of the later entries. *)
(* hyb = (r->integrator == REB_INTEGRATOR_MERCURIUS || r->integrator == REB_INTEGRATOR_TRACE).
   [keep] is the loop's local variable collision_resolve_keep_sorted: it selects the renumbering rule of the pending entries and
   is passed to reb_simulation_remove_particle, which on its own forces keep_sorted = 1 for the hybrid integrators. *)
Definition remove_stage (tree hyb keep : bool) (fx : entry -> entry) (nact : Z) (ps : list P) (k other : Z)
  : list P * Z * Z * (entry -> entry) :=
  let '(psx, nactx, removed) := remove_particle tree (keep || hyb) nact ps k in
  if removed then
    (psx, nactx, (if tree then other else remap keep k (zlen psx) other), fun e => fixup tree keep k (zlen psx) (fx e))
  else (psx, nactx, other, fx).

(* The loop "for (int i=0;i<collisions_N;i++)".  The C code rewrites the later array entries in place
   after each removal; here the rewriting function [fx] is accumulated and applied when an entry is
   read (same values: entry j has been rewritten by exactly the removals that happened before it is
   read, in the same order).  [pend] is the array in processing order (after the shuffle). *)
Fixpoint resolve_loop_k (tree hyb keep : bool) (fx : entry -> entry) (nact : Z) (s : St) (ps : list P) (pend : list entry)
  : St * list P * Z * list event :=
  match pend with
  | [] => (s, ps, nact, [])
  | e0 :: rest =>
    let '(p1, p2, gb) := fx e0 in
    if negb (p1 =? -1) && negb (p2 =? -1) then
      let '(s1, psr, o) := res s ps (p1, p2, gb) in
      let ev := (p1, p2, gb, idat ps p1, idat ps p2, o) in
      (* if (outcome & 1): remove p1, update c.p2 *)
      let '(ps1, na1, p2a, fx1) := if Z.testbit o 0 then remove_stage tree hyb keep fx nact psr p1 p2 else (psr, nact, p2, fx) in
      (* if (outcome & 2): remove (the updated) p2 *)
      let '(ps2, na2, _, fx2) := if Z.testbit o 1 then remove_stage tree hyb keep fx1 na1 ps1 p2a p1 else (ps1, na1, p1, fx1) in
      let '(s', psf, naf, log) := resolve_loop_k tree hyb keep fx2 na2 s1 ps2 rest in
      (s', psf, naf, ev :: log)
    else resolve_loop_k tree hyb keep fx nact s ps rest
  end.

(* unsigned int collision_resolve_keep_sorted = r->collision_resolve_keep_sorted;
   if (MERCURIUS || TRACE){ collision_resolve_keep_sorted = 1; }   — [keepuser] is the user's setting *)
Definition resolve_loop (tree hyb keepuser : bool) := resolve_loop_k tree hyb (keepuser || hyb).
End Loop.

(* ------------------------------------------------------------------------------------------
   2. "randomize": rand_r (glibc stdlib/rand_r.c, copied in rebound.c for _WIN32) and the swap loop
   ------------------------------------------------------------------------------------------ *)
Definition u32 (z : Z) : Z := z mod 4294967296.
Definition rand_r (seed : Z) : Z * Z :=
  let n1 := u32 (u32 (seed * 1103515245) + 12345) in
  let r1 := (n1 / 65536) mod 2048 in
  let n2 := u32 (u32 (n1 * 1103515245) + 12345) in
  let r2 := Z.lxor (r1 * 1024) ((n2 / 65536) mod 1024) in
  let n3 := u32 (u32 (n2 * 1103515245) + 12345) in
  let r3 := Z.lxor (r2 * 1024) ((n3 / 65536) mod 1024) in
  (r3, n3).

Definition swap_nth {A} (l : list A) (i j : nat) : list A :=
  match nth_error l i, nth_error l j with
  | Some a, Some b => upd (upd l i b) j a
  | _, _ => l
  end.

(* for (i=0;i<collisions_N;i++){ new = rand_r(&seed)%collisions_N; swap(collisions[i], collisions[new]); } *)
Fixpoint shuffle_from {A} (todo : nat) (i : nat) (seed : Z) (l : list A) : list A * Z :=
  match todo with
  | O => (l, seed)
  | S t => let '(rv, seed') := rand_r seed in
           let nw := Z.to_nat (rv mod zlen l) in
           shuffle_from t (S i) seed' (swap_nth l i nw)
  end.
Definition shuffle {A} (seed : Z) (l : list A) : list A * Z := shuffle_from (length l) 0 seed l.

(* ------------------------------------------------------------------------------------------
   3. Numerical part: particles, ghost boxes, the DIRECT and LINE pair tests, merge, hardsphere
   ------------------------------------------------------------------------------------------ *)
Record particle (T : Type) := mkP {
  px : T; py : T; pz : T; pvx : T; pvy : T; pvz : T; pm : T; pr : T; plc : T;   (* plc = last_collision *)
  phash : Z }.
Arguments mkP {T}. Arguments px {T}. Arguments py {T}. Arguments pz {T}. Arguments pvx {T}.
Arguments pvy {T}. Arguments pvz {T}. Arguments pm {T}. Arguments pr {T}. Arguments plc {T}. Arguments phash {T}.

Record vec6 (T : Type) := mkV6 { gx : T; gy : T; gz : T; gvx : T; gvy : T; gvz : T }.
Arguments mkV6 {T}. Arguments gx {T}. Arguments gy {T}. Arguments gz {T}.
Arguments gvx {T}. Arguments gvy {T}. Arguments gvz {T}.

(* identifier of ghost box (gbx,gby,gbz) in the innermost ring *)
Definition gbid (a b c : Z) : Z := (a + 1) * 9 + (b + 1) * 3 + (c + 1).
(* -n .. n *)
Definition ring (n : Z) : list Z := map (fun k => Z.of_nat k - n) (seq 0 (Z.to_nat (2 * n + 1))).
(* int N_ghost_xcol = (r->N_ghost_x>1?1:r->N_ghost_x); *)
Definition gcol (n : Z) : Z := if n >? 1 then 1 else n.

Section Numeric.
Context {T : Type} (N : Num T).
Local Notation "a + b" := (nadd N a b).
Local Notation "a - b" := (nsub N a b).
Local Notation "a * b" := (nmul N a b).
Local Notation "a / b" := (ndiv N a b).
Local Notation "1" := (none N).
Local Notation "0" := (nzero N).

(* reb_boundary_get_ghostbox for REB_BOUNDARY_OPEN / REB_BOUNDARY_PERIODIC *)
Definition gb_periodic (bx by_ bz : T) (a b c : Z) : vec6 T :=
  mkV6 (bx * nofZ N a) (by_ * nofZ N b) (bz * nofZ N c) 0 0 0.

(* gb += p1 *)
Definition gb_shift (g : vec6 T) (p1 : particle T) : vec6 T :=
  mkV6 (gx g + px p1) (gy g + py p1) (gz g + pz p1) (gvx g + pvx p1) (gvy g + pvy p1) (gvz g + pvz p1).

(* DIRECT inner-loop test; g = shifted ghost box of p1.  true = the pair is appended *)
Definition direct_test (g : vec6 T) (r1 : T) (p2 : particle T) : bool :=
  let dx := gx g - px p2 in let dy := gy g - py p2 in let dz := gz g - pz p2 in
  let sr := r1 + pr p2 in
  let r2 := dx*dx + dy*dy + dz*dz in
  if nltb N (sr*sr) r2 then false else            (* if (r2>sr*sr) continue; *)
  let dvx := gvx g - pvx p2 in let dvy := gvy g - pvy p2 in let dvz := gvz g - pvz p2 in
  if nltb N 0 (dvx*dx + dvy*dy + dvz*dz) then false else true.   (* if (... >0) continue; *)

Definition znth_p (ps : list (particle T)) (i : nat) : particle T :=
  nth_d (mkP 0 0 0 0 0 0 0 0 0 (-1)%Z) ps i.

(* REB_COLLISION_DIRECT, N = Ninner = r->N (no MERCURIUS/TRACE map). gbf = reb_boundary_get_ghostbox *)
Definition search_direct (gbf : Z -> Z -> Z -> vec6 T) (ngx ngy ngz : Z) (ps : list (particle T)) : list entry :=
  let n := length ps in
  flat_map (fun a => flat_map (fun b => flat_map (fun c =>
    flat_map (fun i =>
      let p1 := znth_p ps i in
      let g := gb_shift (gbf a b c) p1 in
      flat_map (fun j =>
        if Nat.eqb i j then []
        else if direct_test g (pr p1) (znth_p ps j) then [(Z.of_nat i, Z.of_nat j, gbid a b c)] else [])
        (seq 0 n))
      (seq 0 n))
    (ring (gcol ngz))) (ring (gcol ngy))) (ring (gcol ngx)).

(* MIN(a,b) ((a) > (b) ? (b) : (a)) *)
Definition cmin (a b : T) : T := if nltb N b a then b else a.

(* LINE inner-loop test (also the leaf test of LINETREE); true = the pair is appended *)
Definition line_rmin2 (dt : T) (g : vec6 T) (p2 : particle T) : T :=
  let dx1 := gx g - px p2 in let dy1 := gy g - py p2 in let dz1 := gz g - pz p2 in
  let r1 := dx1*dx1 + dy1*dy1 + dz1*dz1 in
  let dvx1 := gvx g - pvx p2 in let dvy1 := gvy g - pvy p2 in let dvz1 := gvz g - pvz p2 in
  let dx2 := dx1 - dt*dvx1 in let dy2 := dy1 - dt*dvy1 in let dz2 := dz1 - dt*dvz1 in
  let r2 := dx2*dx2 + dy2*dy2 + dz2*dz2 in
  let tc := (dx1*dvx1 + dy1*dvy1 + dz1*dvz1) / (dvx1*dvx1 + dvy1*dvy1 + dvz1*dvz1) in
  let rmin := cmin r1 r2 in
  if nleb N 0 (tc/dt) && nleb N (tc/dt) 1 then
    let dx3 := dx1 - tc*dvx1 in let dy3 := dy1 - tc*dvy1 in let dz3 := dz1 - tc*dvz1 in
    let r3 := dx3*dx3 + dy3*dy3 + dz3*dz3 in
    cmin rmin r3
  else rmin.
Definition line_test (dt : T) (g : vec6 T) (r1 : T) (p2 : particle T) : bool :=
  let rsum := r1 + pr p2 in
  negb (nltb N (rsum*rsum) (line_rmin2 dt g p2)).   (* if (rmin2_ab>rsum*rsum) continue; *)

(* REB_COLLISION_LINE: j = i+1 .. N-1 *)
Definition search_line (gbf : Z -> Z -> Z -> vec6 T) (ngx ngy ngz : Z) (dt : T) (ps : list (particle T)) : list entry :=
  let n := length ps in
  flat_map (fun a => flat_map (fun b => flat_map (fun c =>
    flat_map (fun i =>
      let p1 := znth_p ps i in
      let g := gb_shift (gbf a b c) p1 in
      flat_map (fun j =>
        if line_test dt g (pr p1) (znth_p ps j) then [(Z.of_nat i, Z.of_nat j, gbid a b c)] else [])
        (seq (S i) (n - S i)))
      (seq 0 n))
    (ring (gcol ngz))) (ring (gcol ngy))) (ring (gcol ngx)).

(* ---- reb_collision_resolve_merge (track_energy_offset = 0).  t = r->t ; cb = the libm result
   cbrt(pi->r^3 + pj->r^3) (oracle argument).  Returns the new array and the outcome. *)
Definition setp (p : particle T) (x y z vx vy vz m r lc : T) : particle T :=
  mkP x y z vx vy vz m r lc (phash p).

Definition merge (t cb : T) (ps : list (particle T)) (p1 p2 : Z) : list (particle T) * Z :=
  match zth ps p1, zth ps p2 with
  | Some a, Some b =>
    if neqb N (plc a) t || neqb N (plc b) t then (ps, 0%Z)
    else
      let swap := (p2 <? p1)%Z in
      let i := if swap then p2 else p1 in
      let '(pi, pj) := if swap then (b, a) else (a, b) in
      (* double wi = pi->m, wj = pj->m; if (wi + wj == 0.){ wi = 1.; wj = 1.; }  (two massless particles: midpoint) *)
      let '(wi, wj) := if neqb N (pm pi + pm pj) 0 then (1, 1) else (pm pi, pm pj) in
      let invmass := 1 / (wi + wj) in
      let vx := (pvx pi * wi + pvx pj * wj) * invmass in
      let vy := (pvy pi * wi + pvy pj * wj) * invmass in
      let vz := (pvz pi * wi + pvz pj * wj) * invmass in
      let x := (px pi * wi + px pj * wj) * invmass in
      let y := (py pi * wi + py pj * wj) * invmass in
      let z := (pz pi * wi + pz pj * wj) * invmass in
      let m := pm pi + pm pj in
      (upd ps (Z.to_nat i) (setp pi x y z vx vy vz m cb t), if swap then 1%Z else 2%Z)
  | _, _ => (ps, 0%Z)
  end.
(* the argument of cbrt, so that the harness can apply libm to exactly the model's value *)
Definition merge_cbrt_arg (pi pj : particle T) : T :=
  pr pi * pr pi * pr pi + pr pj * pr pj * pr pj.

(* ---- reb_collision_resolve_hardsphere.  g = c.gb (unshifted) ; eps = coefficient of restitution
   (1 if no callback) ; mcv = r->minimum_collision_velocity ; (st,ct) = sin/cos(atan2(z21,y21)),
   (sp,cp) = sin/cos(atan2(y21n,x21)) are libm results (oracle arguments).
   Returns the two updated particles (last_collision = t) or None for "return 0" before any change. *)
Definition hs_x21 (g : vec6 T) (p1 p2 : particle T) : T * T * T :=
  (px p1 + gx g - px p2, py p1 + gy g - py p2, pz p1 + gz g - pz p2).
Definition hs_v21 (g : vec6 T) (p1 p2 : particle T) : T * T * T :=
  (pvx p1 + gvx g - pvx p2, pvy p1 + gvy g - pvy p2, pvz p1 + gvz g - pvz p2).

Definition hs_dvx2 (eps mcv : T) (p1 p2 : particle T) (x21 y21 z21 vx21nn : T) : T :=
  let dvx2 := nneg N ((1 + eps) * vx21nn) in
  let minr := if nltb N (pr p2) (pr p1) then pr p2 else pr p1 in
  let maxr := if nltb N (pr p1) (pr p2) then pr p2 else pr p1 in
  let mindv := minr * mcv in
  let r_ := nsqrt N (x21*x21 + y21*y21 + z21*z21) in
  let mindv := mindv * (1 - (r_ - maxr) / minr) in
  let mindv := if nltb N (maxr * mcv) mindv then maxr * mcv else mindv in
  if nltb N dvx2 mindv then mindv else dvx2.

Definition hardsphere (t eps mcv st ct sp cp : T) (g : vec6 T) (p1 p2 : particle T)
  : option (particle T * particle T) :=
  let '(x21, y21, z21) := hs_x21 g p1 p2 in
  let rp := pr p1 + pr p2 in
  if nltb N (rp*rp) (x21*x21 + y21*y21 + z21*z21) then None else
  let '(vx21, vy21, vz21) := hs_v21 g p1 p2 in
  if nltb N 0 (vx21*x21 + vy21*y21 + vz21*z21) then None else
  let vy21n := ct * vy21 + st * vz21 in
  let vx21nn := cp * vx21 + sp * vy21n in
  let dvx2 := hs_dvx2 eps mcv p1 p2 x21 y21 z21 vx21nn in
  let dvx2n := cp * dvx2 in
  let dvy2n := sp * dvx2 in
  let dvy2nn := ct * dvy2n in
  let dvz2nn := st * dvy2n in
  (* msum = p1.m+p2.m; p2pf = (msum!=0.) ? p1.m/msum : 0.5; p1pf = (msum!=0.) ? p2.m/msum : 0.5; *)
  let msum := pm p1 + pm p2 in
  let p2pf := if negb (neqb N msum 0) then pm p1 / msum else 1 / nofZ N 2 in
  let p1pf := if negb (neqb N msum 0) then pm p2 / msum else 1 / nofZ N 2 in
  Some (setp p1 (px p1) (py p1) (pz p1) (pvx p1 + p1pf*dvx2n) (pvy p1 + p1pf*dvy2nn) (pvz p1 + p1pf*dvz2nn)
             (pm p1) (pr p1) t,
        setp p2 (px p2) (py p2) (pz p2) (pvx p2 - p2pf*dvx2n) (pvy p2 - p2pf*dvy2nn) (pvz p2 - p2pf*dvz2nn)
             (pm p2) (pr p2) t).
(* arguments of the two atan2 calls: (z21, y21) and (y21n, x21) with y21n = ct*y21 + st*z21 *)
Definition hs_y21n (st ct : T) (g : vec6 T) (p1 p2 : particle T) : T :=
  let '(x21, y21, z21) := hs_x21 g p1 p2 in ct * y21 + st * z21.
End Numeric.

(* ------------------------------------------------------------------------------------------
   4. max_radius0 / max_radius1 bookkeeping of reb_simulation_add (the only writer of these fields):
      if (pt.r>=r->max_radius0){ r->max_radius1 = r->max_radius0; r->max_radius0 = pt.r; }
      else if (pt.r>=r->max_radius1){ r->max_radius1 = pt.r; }
   ------------------------------------------------------------------------------------------ *)
Definition add_radius_num {T : Type} (N : Num T) (st : T * T) (r : T) : T * T :=
  let '(m0, m1) := st in
  if nleb N m0 r then (r, m0) else if nleb N m1 r then (m0, r) else (m0, m1).
