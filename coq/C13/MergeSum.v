(* C13: one merge followed by the removal the loop performs conserves the sums of m, m v, m x over the WHOLE array. *)
From Coq Require Import List ZArith Reals Lra Lia ZifyBool Bool Permutation.
From RV Require Import Common.Num Common.RealNum C13.Model C13.LoopNA C13.Fixup C13.Resolve.
Import ListNotations.

(* reb_simulation_remove_particle without a tree removes exactly the element at the index (both disciplines) *)
Lemma remove_perm {P : Type} (flag : P -> P) keep (ps : list P) k x :
  zth ps k = Some x ->
  exists ps', remove_particle_na flag false keep ps k = (ps', true) /\ Permutation (x :: ps') ps.
Proof.
  intros Hk. pose proof (zth_range _ _ _ Hk) as Hr.
  apply zth_some in Hk. destruct Hk as [Hk0 Hk].
  destruct (nth_error_split _ _ Hk) as (l1 & l2 & E & Hl1). subst ps.
  assert (HKn : Z.to_nat k = length l1) by lia.
  unfold remove_particle_na. rewrite HKn. rewrite HKn in Hk.
  match goal with |- context [if ?c then _ else _] => destruct c eqn:E1 end; [lia|].
  rewrite andb_false_r, andb_true_r. cbn [negb].
  match goal with |- context [if ?c then _ else _] => destruct c eqn:E2 end.
  { rewrite zlen_app, zlen_cons in E2. pose proof (zlen_nonneg l1). pose proof (zlen_nonneg l2).
    assert (l1 = []) by (destruct l1; [auto | rewrite zlen_cons in *; pose proof (zlen_nonneg l1); lia]).
    assert (l2 = []) by (destruct l2; [auto | rewrite zlen_cons in *; pose proof (zlen_nonneg l2); lia]).
    subst. exists []. split; [reflexivity|]. apply Permutation_refl. }
  destruct keep.
  { rewrite firstn_len_app, skipn_Slen_app. exists (l1 ++ l2). split; [reflexivity|]. apply Permutation_middle. }
  destruct (exists_last (l:=x :: l2)) as (m & q & Em); [discriminate|].
  destruct m as [|y m'].
  { cbn in Em. injection Em as Eq El2. subst q.
    assert (l2 = []) by (destruct l2; [auto|discriminate]). subst l2.
    assert (Hn' : (length (l1 ++ [x]) - 1)%nat = length l1) by (rewrite app_length; cbn; lia).
    rewrite Hn'. rewrite nth_error_len_app, upd_app_len, firstn_len_app.
    exists l1. split; [reflexivity|]. apply Permutation_cons_append. }
  cbn in Em. injection Em as Ey El2. subst y l2.
  assert (Ev : l1 ++ x :: m' ++ [q] = (l1 ++ x :: m') ++ [q]) by (rewrite <- app_assoc; reflexivity).
  assert (Hn' : (length (l1 ++ x :: m' ++ [q]) - 1)%nat = length (l1 ++ x :: m')).
  { rewrite Ev, app_length. cbn. lia. }
  assert (Hq : nth_error (l1 ++ x :: m' ++ [q]) (length (l1 ++ x :: m')) = Some q)
    by (rewrite Ev; apply nth_error_len_app).
  rewrite Hn', Hq.
  assert (Eu : upd (l1 ++ x :: m' ++ [q]) (length l1) q = (l1 ++ q :: m') ++ [q]).
  { rewrite upd_app_len. rewrite <- app_assoc. reflexivity. }
  rewrite Eu.
  assert (Hl : length (l1 ++ x :: m') = length (l1 ++ q :: m')) by (rewrite !app_length; reflexivity).
  rewrite Hl, firstn_len_app.
  exists (l1 ++ q :: m'). split; [reflexivity|].
  eapply Permutation_trans; [apply Permutation_middle|]. apply Permutation_app_head. apply perm_skip.
  change (q :: m') with ([q] ++ m'). apply Permutation_app_comm.
Qed.

Open Scope R_scope.
Definition tot (f : particle R -> R) (l : list (particle R)) : R := fold_right (fun p a => f p + a) 0 l.
Lemma tot_cons f x l : tot f (x :: l) = f x + tot f l.
Proof. reflexivity. Qed.
Lemma tot_app f l1 l2 : tot f (l1 ++ l2) = tot f l1 + tot f l2.
Proof. unfold tot. induction l1; cbn; [lra|]. rewrite IHl1. lra. Qed.
Lemma tot_perm f l l' : Permutation l l' -> tot f l = tot f l'.
Proof. unfold tot. induction 1; cbn; lra. Qed.
Lemma tot_upd f l i a q : nth_error l i = Some a -> tot f (upd l i q) = tot f l - f a + f q.
Proof.
  intros H. destruct (nth_error_split _ _ H) as (l1 & l2 & -> & <-).
  rewrite upd_app_len, !tot_app, !tot_cons. lra.
Qed.
Lemma nth_error_upd_other {A} (l : list A) i j q : i <> j -> nth_error (upd l i q) j = nth_error l j.
Proof. revert i j; induction l; intros [|i] [|j] H; cbn; auto; try congruence. Qed.

(* the seven conserved sums *)
Definition conserved : list (particle R -> R) :=
  [ (fun p => pm p); (fun p => pm p * pvx p); (fun p => pm p * pvy p); (fun p => pm p * pvz p);
    (fun p => pm p * px p); (fun p => pm p * py p); (fun p => pm p * pz p) ].

Theorem merge_total_gen (flag : particle R -> particle R) t cb ps p1 p2 a b keep :
  zth ps p1 = Some a -> zth ps p2 = Some b -> p1 <> p2 -> plc a <> t -> plc b <> t -> mass_ok a b ->
  exists ps' ps'',
    fst (merge RNum t cb ps p1 p2) = ps' /\
    remove_particle_na flag false keep ps' (gone_ix p1 p2) = (ps'', true) /\
    S (length ps'') = length ps /\
    Forall (fun f => tot f ps'' = tot f ps) conserved.
Proof.
  intros Z1 Z2 Hne La Lb Hm.
  destruct (merge_conserves_gen t cb ps p1 p2 a b Z1 Z2 La Lb Hm) as (q & Em & Mq & Pq & Xq & _).
  rewrite Em. cbn [fst].
  set (i := keep_ix p1 p2) in *. set (j := gone_ix p1 p2).
  (* the survivor slot holds pi, the other slot holds pj *)
  assert (Hij : exists pi pj, zth ps i = Some pi /\ zth ps j = Some pj /\ i <> j /\
                 pm q = pm pi + pm pj /\ mom q = add3 (mom pi) (mom pj) /\ mpos q = add3 (mpos pi) (mpos pj)).
  { unfold i, j, keep_ix, gone_ix. destruct (p2 <? p1)%Z.
    - exists b, a. repeat split; auto; try lra.
      + rewrite Pq. unfold add3, mom. f_equal; [f_equal|]; lra.
      + rewrite Xq. unfold add3, mpos. f_equal; [f_equal|]; lra.
    - exists a, b. repeat split; auto. }
  destruct Hij as (pi & pj & Zi & Zj & Nij & Mq' & Pq' & Xq').
  pose proof (zth_range _ _ _ Zi) as Ri. pose proof (zth_range _ _ _ Zj) as Rj.
  apply zth_some in Zi. destruct Zi as [_ Zi].
  assert (Zj' : zth (upd ps (Z.to_nat i) q) j = Some pj).
  { apply zth_some. apply zth_some in Zj. destruct Zj as [Hj0 Zj]. split; [exact Hj0|].
    rewrite nth_error_upd_other by lia. exact Zj. }
  destruct (remove_perm flag keep _ _ _ Zj') as (ps'' & Hrm & Hperm).
  exists (upd ps (Z.to_nat i) q), ps''. split; [reflexivity|]. split; [exact Hrm|]. split.
  - apply Permutation_length in Hperm. cbn in Hperm. rewrite Hperm.
    clear. generalize (Z.to_nat i). induction ps; intros [|n]; cbn; auto.
  - assert (T : forall f, tot f ps'' = tot f ps - f pi + f q - f pj).
    { intros f. pose proof (tot_perm f _ _ Hperm) as E. rewrite tot_cons in E. rewrite (tot_upd f _ _ _ q Zi) in E. lra. }
    unfold mom, mpos, add3 in Pq', Xq'. injection Pq' as P1 P2 P3. injection Xq' as X1 X2 X3.
    unfold conserved. repeat constructor; rewrite T; lra.
Qed.

Theorem merge_total (flag : particle R -> particle R) t cb ps p1 p2 a b keep :
  zth ps p1 = Some a -> zth ps p2 = Some b -> p1 <> p2 -> plc a <> t -> plc b <> t -> pm a + pm b <> 0 ->
  exists ps' ps'',
    fst (merge RNum t cb ps p1 p2) = ps' /\
    remove_particle_na flag false keep ps' (gone_ix p1 p2) = (ps'', true) /\
    S (length ps'') = length ps /\
    Forall (fun f => tot f ps'' = tot f ps) conserved.
Proof. intros Z1 Z2 Hne La Lb Hm. apply (merge_total_gen flag t cb ps p1 p2 a b keep); auto. left. exact Hm. Qed.

(* the same for the model's reb_simulation_remove_particle, for every value of N_active; mass sum non-zero or both massless *)
Theorem merge_total_model_gen (flag : particle R -> particle R) t cb ps p1 p2 a b keep nact :
  zth ps p1 = Some a -> zth ps p2 = Some b -> p1 <> p2 -> plc a <> t -> plc b <> t -> mass_ok a b ->
  exists ps' ps'' nact',
    fst (merge RNum t cb ps p1 p2) = ps' /\
    remove_particle flag false keep nact ps' (gone_ix p1 p2) = (ps'', nact', true) /\
    S (length ps'') = length ps /\
    Forall (fun f => tot f ps'' = tot f ps) conserved.
Proof.
  intros Z1 Z2 Hne La Lb Hm.
  destruct (merge_total_gen flag t cb ps p1 p2 a b keep Z1 Z2 Hne La Lb Hm) as (ps' & ps'' & E1 & E2 & E3 & E4).
  destruct (remove_particle flag false keep nact ps' (gone_ix p1 p2)) as [[x n'] c] eqn:E.
  pose proof (remove_particle_is_na flag _ _ _ _ _ _ _ _ E) as E'.
  rewrite E2 in E'. injection E' as <- <-.
  exists ps', ps'', n'. auto.
Qed.

(* statement cited by C04 (unchanged) *)
Theorem merge_total_model (flag : particle R -> particle R) t cb ps p1 p2 a b keep nact :
  zth ps p1 = Some a -> zth ps p2 = Some b -> p1 <> p2 -> plc a <> t -> plc b <> t -> pm a + pm b <> 0 ->
  exists ps' ps'' nact',
    fst (merge RNum t cb ps p1 p2) = ps' /\
    remove_particle flag false keep nact ps' (gone_ix p1 p2) = (ps'', nact', true) /\
    S (length ps'') = length ps /\
    Forall (fun f => tot f ps'' = tot f ps) conserved.
Proof. intros Z1 Z2 Hne La Lb Hm. apply (merge_total_model_gen flag t cb ps p1 p2 a b keep nact); auto. left. exact Hm. Qed.
